pub mod merkle_reg {
use vstd::prelude::*;
use vstd::map::Map as SMap;
use core::convert::Infallible;
use std::collections::{BTreeMap, BTreeSet};
use vstd::std_specs::iter::IteratorSpec;
use crate::spec::*;
use crate::stdx5::*;
use crate::{CmRDT, CvRDT};
verus! {

pub type Hash = [u8; 32];

//@extract struct src/merkle_reg.rs Node
pub struct Node<T> {
    pub children: BTreeSet<Hash>,
    pub value: T,
}
//@end

/// stand-in for the crate's trait of the same name (its only method feeds a tiny_keccak hasher, a dependency type)
pub trait Sha3Hash {}

/// content address of a node: sha3-256 over the ordered children and the value (tiny_keccak, outside Verus): an
/// uninterpreted function of exactly (children, value)
pub uninterp spec fn spec_hash<T>(children: Set<Hash>, value: T) -> Hash;
pub open spec fn nhash<T>(n: Node<T>) -> Hash { spec_hash(n.children@, n.value) }

impl<T: Sha3Hash> Node<T> {
    // ASSUMED: the body drives tiny_keccak::Sha3 (external crate, bit-level); contract = "a function of (children, value)"
    #[verifier::external_body]
    pub fn hash(&self) -> (r: Hash)
        ensures r == nhash(*self),
    { unimplemented!() }
}

//@extract struct src/merkle_reg.rs Content
pub struct Content<'a, T> {
    nodes: BTreeMap<Hash, &'a Node<T>>,
}
//@end

impl<'a, T> Content<'a, T> {
    pub closed spec fn nd(&self) -> SMap<Hash, &'a Node<T>> { self.nodes@ }

//@extract fn src/merkle_reg.rs "Content" is_empty
    pub fn is_empty(&self) -> /*@ (r: @*/ bool /*@ ) @*/
    //@ ensures r == self.nd().dom().is_empty(),
    {
        //@ proof { vstd::std_specs::btree::axiom_spec_btree_map_len(&self.nodes); if hash_ok() { if self.nodes@.len() == 0 { self.nodes@.dom().lemma_len0_is_empty(); } } }
        self.nodes.is_empty()
    }
//@end

//@extract fn src/merkle_reg.rs "Content" values
    pub fn values(&self) -> /*@ (r: @*/ impl Iterator<Item = &T> /*@ ) @*/
    //@ ensures r.obeys_prophetic_iter_laws(), r.decrease() is Some,
    //@     // C15 observation: the values of exactly the nodes of this content, in hash order
    //@     hash_ok() ==> exists|ks: Seq<Hash>| #[trigger] content_order(ks, self.nd()) && r.remaining() == ks.map_values(|k: Hash| &self.nd()[k].value),
    {
        //@ let ghost g = |n: &&Node<T>| &n.value;
        /*@ let it0 = @*/ self.nodes.values() /*@ ; let ghost es = it0.remaining(); proof { crate::stdx5::axiom_btree_values_finite(&it0); } let r0 = crate::stdx5::shim_iter_map(it0, Ghost(g), @*/ /*@<*/ .map( /*@>*/ |n /*@ : &&Node<T> @*/ | /*@ -> (o: &T) ensures o == g(n) { @*/ &n.value /*@ } @*/ ) /*@ ; proof { if hash_ok() { let m = self.nodes@; let ks = choose|ks: Seq<Hash>| vstd::std_specs::btree::increasing_seq(ks) && ks.to_set() == m.dom() && ks.no_duplicates() && es == ks.map(|i: int, k: Hash| &m[k]); assert(content_order(ks, self.nd())); assert(r0.remaining() =~= ks.map_values(|k: Hash| &self.nd()[k].value)); } } r0 @*/
    }
//@end

//@extract fn src/merkle_reg.rs "Content" nodes
    pub fn nodes(&self) -> /*@ (r: @*/ impl Iterator<Item = &Node<T>> /*@ ) @*/
    //@ ensures r.obeys_prophetic_iter_laws(), r.decrease() is Some,
    //@     hash_ok() ==> exists|ks: Seq<Hash>| #[trigger] content_order(ks, self.nd()) && r.remaining() == ks.map_values(|k: Hash| self.nd()[k]),
    {
        /*@ let it0 = @*/ self.nodes.values() /*@ ; let ghost es = it0.remaining(); proof { crate::stdx5::axiom_btree_values_finite(&it0); } let r0 = crate::stdx5::shim_iter_copied(it0); proof { if hash_ok() { let m = self.nodes@; let ks = choose|ks: Seq<Hash>| vstd::std_specs::btree::increasing_seq(ks) && ks.to_set() == m.dom() && ks.no_duplicates() && es == ks.map(|i: int, k: Hash| &m[k]); assert(content_order(ks, self.nd())); assert(r0.remaining() =~= ks.map_values(|k: Hash| self.nd()[k])); } } r0 @*/ /*@<*/ .copied() /*@>*/
    }
//@end

//@extract fn src/merkle_reg.rs "Content" hashes_and_nodes
    pub fn hashes_and_nodes(&self) -> /*@ (r: @*/ impl Iterator<Item = (Hash, &Node<T>)> /*@ ) @*/
    //@ ensures r.obeys_prophetic_iter_laws(), r.decrease() is Some,
    //@     // every yielded pair is an entry of this content, and every entry is yielded
    //@     hash_ok() ==> forall|i: int| 0 <= i < r.remaining().len() ==> self.nd().contains_key((#[trigger] r.remaining()[i]).0) && self.nd()[r.remaining()[i].0] == r.remaining()[i].1,
    //@     hash_ok() ==> forall|k: Hash| self.nd().contains_key(k) ==> r.remaining().contains((k, self.nd()[k])),
    {
        //@ let ghost g = |p: (&Hash, &&Node<T>)| (*p.0, *p.1);
        /*@ let it0 = @*/ self.nodes.iter() /*@ ; let ghost es = it0.remaining(); proof { crate::stdx5::axiom_btree_iter_finite(&it0); } let r0 = crate::stdx5::shim_iter_map(it0, Ghost(g), @*/ /*@<*/ .map( /*@>*/ /*@<*/ | /*@>*/ /*@<pat*/ (hash, node) /*@>*/ /*@<*/ | /*@>*/ /*@ |p: (&Hash, &&Node<T>)| -> (o: (Hash, &Node<T>)) ensures o == g(p) { let $pat = p; @*/ (*hash, *node) /*@ } @*/ ) /*@ ; proof { if hash_ok() { let rs = r0.remaining(); assert forall|i: int| 0 <= i < rs.len() implies self.nd().contains_key((#[trigger] rs[i]).0) && self.nd()[rs[i].0] == rs[i].1 by { assert(rs[i] == g(es[i])); assert(self.nodes@.contains_key(*es[i].0) && self.nodes@[*es[i].0] == *es[i].1); } assert forall|k: Hash| self.nd().contains_key(k) implies rs.contains((k, self.nd()[k])) by { assert(es.contains((&k, &self.nodes@[k]))); let i = choose|i: int| 0 <= i < es.len() && es[i] == (&k, &self.nodes@[k]); assert(rs[i] == g(es[i])); } } } r0 @*/
    }
//@end

//@extract fn src/merkle_reg.rs "Content" hashes
    pub fn hashes(&self) -> /*@ (r: @*/ BTreeSet<Hash> /*@ ) @*/
    //@ ensures r@ == self.nd().dom(),
    {
        /*@ shim_btreemap_keys_copied_collect(& @*/ self.nodes /*@ ) @*/ /*@<*/ .keys().copied().collect() /*@>*/
    }
//@end
}

/// the hashes of a content in the order its iterators use (increasing), each once
pub open spec fn content_order<'a, T>(ks: Seq<Hash>, m: SMap<Hash, &'a Node<T>>) -> bool {
    vstd::std_specs::btree::increasing_seq(ks) && ks.to_set() == m.dom() && ks.no_duplicates()
}

//@extract struct src/merkle_reg.rs MerkleReg
pub struct MerkleReg<T /*@<*/ : SerDe /*@>*/ > {
    roots: BTreeSet<Hash>,
    dag: BTreeMap<Hash, Node<T>>,
    orphans: BTreeMap<Hash, Node<T>>,
}
//@end

/// usage hypothesis: the derived order of `[u8; 32]` is lawful (vstd has no instance for arrays)
pub open spec fn hash_ok() -> bool { actor_ok::<Hash>() }

/// all children of n are visible
pub open spec fn ready<T>(dg: SMap<Hash, Node<T>>, n: Node<T>) -> bool { forall|c: Hash| #[trigger] n.children@.contains(c) ==> dg.contains_key(c) }
/// some visible node lists h as a child
pub open spec fn listed<T>(dg: SMap<Hash, Node<T>>, h: Hash) -> bool { exists|p: Hash| #[trigger] dg.contains_key(p) && dg[p].children@.contains(h) }
/// the nodes received so far, by hash: visible ones and orphans
pub open spec fn recv_of<T>(dg: SMap<Hash, Node<T>>, orp: SMap<Hash, Node<T>>) -> SMap<Hash, Node<T>> { orp.union_prefer_right(dg) }

impl<T> MerkleReg<T> {
    pub closed spec fn dg(&self) -> SMap<Hash, Node<T>> { self.dag@ }
    pub closed spec fn orp(&self) -> SMap<Hash, Node<T>> { self.orphans@ }
    pub closed spec fn rts(&self) -> Set<Hash> { self.roots@ }
    pub open spec fn recv(&self) -> SMap<Hash, Node<T>> { recv_of(self.dg(), self.orp()) }

    /// representation invariant (C15): nodes are stored under their content address; the visible DAG is closed under
    /// children; an orphan misses at least one child; roots are the visible nodes that no visible node lists as a child
    pub open spec fn inv(&self) -> bool {
        &&& forall|h: Hash| #[trigger] self.dg().contains_key(h) ==> h == nhash(self.dg()[h]) && !self.orp().contains_key(h)
        &&& forall|h: Hash| #[trigger] self.orp().contains_key(h) ==> h == nhash(self.orp()[h]) && !ready(self.dg(), self.orp()[h])
        &&& forall|h: Hash| #[trigger] self.dg().contains_key(h) ==> ready(self.dg(), self.dg()[h])
        &&& forall|h: Hash| #[trigger] self.rts().contains(h) <==> self.dg().contains_key(h) && !listed(self.dg(), h)
    }
}

/// some node of the sequence at index >= from has content address h
pub open spec fn has_hash<T>(nodes: Seq<Node<T>>, from: int, h: Hash) -> bool { exists|i: int| from <= i < nodes.len() && 0 <= i && nhash(#[trigger] nodes[i]) == h }

/// exact effect of apply: a node whose hash was already received is ignored; otherwise the received set grows by
/// exactly this node, nothing visible becomes invisible, and the invariant (which fixes what is visible) is kept
pub open spec fn apply_post_mk<T>(old_: MerkleReg<T>, node: Node<T>, new_: MerkleReg<T>) -> bool {
    let h = nhash(node);
    if old_.recv().contains_key(h) { new_ == old_ }
    else {
        &&& new_.recv() == old_.recv().insert(h, node)
        &&& old_.dg().submap_of(new_.dg())
        &&& (ready(old_.dg(), node) ==> new_.orp().dom().subset_of(old_.orp().dom()))
        &&& (!ready(old_.dg(), node) ==> new_.dg() == old_.dg() && new_.rts() == old_.rts() && new_.orp() == old_.orp().insert(h, node))
    }
}

impl<T> Default for MerkleReg<T> {
//@extract fn src/merkle_reg.rs "Default for MerkleReg" default
    fn default() -> /*@ (r: @*/ Self /*@ ) @*/
    //@ ensures r.dg() == SMap::<Hash, Node<T>>::empty(), r.orp() == SMap::<Hash, Node<T>>::empty(), r.rts() == Set::<Hash>::empty(), r.inv(),
    {
        Self {
            roots: Default::default(),
            dag: Default::default(),
            orphans: Default::default(),
        }
    }
//@end
}

impl<T> MerkleReg<T> {
//@extract fn src/merkle_reg.rs "MerkleReg" new
    pub fn new() -> /*@ (r: @*/ Self /*@ ) @*/
    //@ ensures r.dg() == SMap::<Hash, Node<T>>::empty(), r.orp() == SMap::<Hash, Node<T>>::empty(), r.rts() == Set::<Hash>::empty(), r.inv(),
    {
        Default::default()
    }
//@end

//@extract fn src/merkle_reg.rs "MerkleReg" read
    pub fn read(&self) -> /*@ (r: @*/ Content<T> /*@ ) @*/
    //@ requires hash_ok(),
    //@ ensures
    //@     // C15: exactly the root hashes that are visible, each with its visible node
    //@     forall|h: Hash| #[trigger] r.nd().contains_key(h) <==> self.rts().contains(h) && self.dg().contains_key(h),
    //@     forall|h: Hash| #[trigger] r.nd().contains_key(h) ==> *r.nd()[h] == self.dg()[h],
    {
        Content {
            nodes: /*@ shim_btreeset_copied_filter_map_collect(& @*/ self
                .roots
                /*@<*/ .iter()
                .copied()
                .filter_map( /*@>*/ /*@ , @*/ |root /*@ : Hash @*/ | /*@ -> (o: Option<(Hash, &Node<T>)>) requires hash_ok() ensures (o is Some <==> self.dag@.contains_key(root)), (o is Some ==> (o->0).0 == root && *(o->0).1 == self.dag@[root]) { @*/ self.dag.get(&root).map(|node /*@ : &Node<T> @*/ | /*@ -> (q: (Hash, &Node<T>)) ensures q == (root, node) { @*/ (root, node) /*@ } @*/ ) /*@ } @*/ )
                /*@<*/ .collect() /*@>*/ ,
        }
    }
//@end

//@extract fn src/merkle_reg.rs "MerkleReg" write
    pub fn write(&self, value: T, children: BTreeSet<Hash>) -> /*@ (r: @*/ Node<T> /*@ ) @*/
    //@ ensures r.value == value, r.children == children,
    {
        Node { children, value }
    }
//@end

//@extract fn src/merkle_reg.rs "MerkleReg" node
    pub fn node(&self, hash: Hash) -> /*@ (r: @*/ Option<&Node<T>> /*@ ) @*/
    //@ requires hash_ok(),
    //@ ensures r is Some <==> self.recv().contains_key(hash), r is Some ==> *r->0 == self.recv()[hash],
    {
        self.dag.get(&hash).or_else(|| /*@ -> (o: Option<&Node<T>>) requires hash_ok() ensures (o is Some <==> self.orphans@.contains_key(hash)), (o is Some ==> *o->0 == self.orphans@[hash]) { @*/ self.orphans.get(&hash) /*@ } @*/ )
    }
//@end

//@extract fn src/merkle_reg.rs "MerkleReg" all_nodes
    pub fn all_nodes(&self) -> /*@ (r: @*/ impl Iterator<Item = &Node<T>> /*@ ) @*/
    //@ ensures
    //@     // every visible node once, in hash order
    //@     hash_ok() ==> exists|ks: Seq<Hash>| ks.no_duplicates() && ks.to_set() == self.dg().dom() && #[trigger] r.remaining() == ks.map(|i: int, k: Hash| &self.dg()[k]),
    {
        //@ let v =
        self.dag.values()
        //@ ; proof { if hash_ok() { let m = self.dag@; let ks = choose|ks: Seq<Hash>| vstd::std_specs::btree::increasing_seq(ks) && ks.to_set() == m.dom() && ks.no_duplicates() && v.remaining() == ks.map(|i: int, k: Hash| &m[k]); assert(ks.no_duplicates() && ks.to_set() == self.dg().dom() && v.remaining() == ks.map(|i: int, k: Hash| &self.dg()[k])); } }
        //@ v
    }
//@end

//@extract fn src/merkle_reg.rs "MerkleReg" children
    pub fn children(&self, hash: Hash) -> /*@ (r: @*/ Content<T> /*@ ) @*/
    //@ requires hash_ok(),
    //@ ensures
    //@     // C15 observation: the visible children of a VISIBLE node; nothing for an orphan or an unknown hash
    //@     forall|h: Hash| #[trigger] r.nd().contains_key(h) <==> self.dg().contains_key(hash) && self.dg()[hash].children@.contains(h) && self.dg().contains_key(h),
    //@     forall|h: Hash| #[trigger] r.nd().contains_key(h) ==> *r.nd()[h] == self.dg()[h],
    {
        let nodes = self.dag.get(&hash).map(|node /*@ : &Node<T> @*/ | /*@ -> (o: BTreeMap<Hash, &Node<T>>) requires hash_ok() ensures (forall|h: Hash| #[trigger] o@.contains_key(h) <==> node.children@.contains(h) && self.dag@.contains_key(h)), (forall|h: Hash| #[trigger] o@.contains_key(h) ==> *o@[h] == self.dag@[h]) @*/ {
            /*@ shim_btreeset_copied_filter_map_collect(& @*/ node.children
                /*@<*/ .iter()
                .copied()
                .filter_map( /*@>*/ /*@ , @*/ |child /*@ : Hash @*/ | /*@ -> (q: Option<(Hash, &Node<T>)>) requires hash_ok() ensures (q is Some <==> self.dag@.contains_key(child)), (q is Some ==> (q->0).0 == child && *(q->0).1 == self.dag@[child]) { @*/ self.dag.get(&child).map(|node /*@ : &Node<T> @*/ | /*@ -> (p: (Hash, &Node<T>)) ensures p == (child, node) { @*/ (child, node) /*@ } @*/ ) /*@ } @*/ )
                /*@<*/ .collect() /*@>*/
        });

        Content {
            nodes: /*@ shim_option_btreemap_unwrap_or_default( @*/ nodes /*@ ) @*/ /*@<*/ .unwrap_or_default() /*@>*/ ,
        }
    }
//@end

//@extract fn src/merkle_reg.rs "MerkleReg" parents
    pub fn parents(&self, hash: Hash) -> /*@ (r: @*/ Content<T> /*@ ) @*/
    //@ requires hash_ok(),
    //@ ensures
    //@     // C15 observation: the visible nodes that list `hash` as a child
    //@     forall|h: Hash| #[trigger] r.nd().contains_key(h) <==> self.dg().contains_key(h) && self.dg()[h].children@.contains(hash),
    //@     forall|h: Hash| #[trigger] r.nd().contains_key(h) ==> *r.nd()[h] == self.dg()[h],
    {
        let parents = /*@ shim_btreemap_iter_filter_map_collect(& @*/ self
            .dag
            /*@<*/ .iter()
            .filter_map( /*@>*/ /*@ , @*/ | /*@ e: (&Hash, &Node<T>) @*/ /*@<pp*/ (h, node) /*@>*/ | /*@ -> (q: Option<(Hash, &Node<T>)>) requires hash_ok() ensures (q is Some <==> e.1.children@.contains(hash)), (q is Some ==> (q->0).0 == *e.0 && (q->0).1 == e.1) { let $pp = e; @*/ {
                if node.children.contains(&hash) {
                    Some((*h, node))
                } else {
                    None
                }
            } /*@ } @*/ )
            /*@<*/ .collect() /*@>*/ ;

        Content { nodes: parents }
    }
//@end

//@extract fn src/merkle_reg.rs "MerkleReg" num_nodes
    pub fn num_nodes(&self) -> /*@ (r: @*/ usize /*@ ) @*/
    //@ ensures hash_ok() ==> r == self.dg().len(),
    {
        //@ proof { vstd::std_specs::btree::axiom_spec_btree_map_len(&self.dag); }
        self.dag.len()
    }
//@end

//@extract fn src/merkle_reg.rs "MerkleReg" num_orphans
    pub fn num_orphans(&self) -> /*@ (r: @*/ usize /*@ ) @*/
    //@ ensures hash_ok() ==> r == self.orp().len(),
    {
        //@ proof { vstd::std_specs::btree::axiom_spec_btree_map_len(&self.orphans); }
        self.orphans.len()
    }
//@end

//@extract fn src/merkle_reg.rs "MerkleReg" all_hashes_seen
    fn all_hashes_seen(&self, hashes: &BTreeSet<Hash>) -> /*@ (r: @*/ bool /*@ ) @*/
    //@ requires hash_ok(),
    //@ ensures r == (forall|c: Hash| #[trigger] hashes@.contains(c) ==> self.dg().contains_key(c)),
    {
        /*@ shim_btreeset_iter_all( @*/ hashes /*@<*/ .iter().all( /*@>*/ /*@ , Ghost(|h: Hash| self.dag@.contains_key(h)), @*/ |h /*@ : &Hash @*/ | /*@ -> (b: bool) requires hash_ok() ensures b == self.dag@.contains_key(*h) { @*/ self.dag.contains_key(h) /*@ } @*/ )
    }
//@end
}

//@extract enum src/merkle_reg.rs ValidationError
pub enum ValidationError {
    MissingChild(Hash),
}
//@end

impl<T: Sha3Hash> CmRDT for MerkleReg<T> {
    type Op = Node<T>;
    type Validation = ValidationError;
    open spec fn cm_inv(&self) -> bool { hash_ok() && self.inv() }
    open spec fn cm_pre(&self, op: &Node<T>) -> bool { true }
    open spec fn cm_post(old_: &Self, op: &Node<T>, new_: &Self) -> bool { apply_post_mk(*old_, *op, *new_) }
    open spec fn cm_vpre(&self, op: &Node<T>) -> bool { true }
    open spec fn cm_vhyp() -> bool { true }
    open spec fn cm_vflag(&self, op: &Node<T>) -> bool { !ready(self.dg(), *op) }

//@extract fn src/merkle_reg.rs "CmRDT for MerkleReg" validate_op
    fn validate_op(&self, op: &Self::Op) -> /*@ (r: @*/ Result<(), Self::Validation> /*@ ) @*/
    //@ ensures
    //@     // C16: Ok iff every child is visible; the error names a child that is not
    //@     r is Ok <==> ready(self.dg(), *op),
    //@     r is Err ==> op.children@.contains(r->Err_0->MissingChild_0) && !self.dg().contains_key(r->Err_0->MissingChild_0),
    {
        //@ let cit = op.children.iter();
        //@ let ghost sq0 = cit.remaining();
        for child in /*@ it: cit @*/ /*@<*/ op.children.iter() /*@>*/
        //@ invariant hash_ok(), it.seq() == sq0, sq0.unref().to_set() == op.children@,
        //@     forall|j: int| 0 <= j < it.index@ ==> self.dag@.contains_key(*#[trigger] sq0[j]),
        {
            //@ proof { assert(*child == *sq0[it.index@]); assert(sq0.unref().to_set().contains(sq0.unref()[it.index@])); }
            if !self.dag.contains_key(child) {
                return Err(ValidationError::MissingChild(*child));
            }
        }
        //@ proof { assert forall|c: Hash| #[trigger] op.children@.contains(c) implies self.dag@.contains_key(c) by { assert(sq0.unref().to_set().contains(c)); let j = choose|j: int| 0 <= j < sq0.unref().len() && sq0.unref()[j] == c; assert(*sq0[j] == c); } }
        Ok(())
    }
//@end

//@extract fn src/merkle_reg.rs "CmRDT for MerkleReg" apply
    fn apply(&mut self, node: Self::Op)
    //@ ensures apply_post_mk(*old(self), node, *final(self)),
    //@ decreases old(self).orp().len(),
    {
        let node_hash = node.hash();
        if self.dag.contains_key(&node_hash) || self.orphans.contains_key(&node_hash) {
            return;
        }

        if self.all_hashes_seen(&node.children) {
            // Any children who happen to be roots will no longer be roots
            // after this node is inserted.
            //@ let cit = node.children.iter();
            //@ let ghost sq0 = cit.remaining();
            for child in /*@ it: cit @*/ /*@<*/ node.children.iter() /*@>*/
            //@ invariant hash_ok(), it.seq() == sq0, sq0.unref().to_set() == node.children@, self.dag@ == old(self).dag@, self.orphans@ == old(self).orphans@,
            //@     forall|h: Hash| #[trigger] self.roots@.contains(h) <==> old(self).roots@.contains(h) && !(exists|j: int| 0 <= j < it.index@ && *#[trigger] sq0[j] == h),
            {
                //@ proof { assert(*child == *sq0[it.index@]); }
                self.roots.remove(child);
            }
            //@ proof { assert forall|h: Hash| #[trigger] self.roots@.contains(h) <==> old(self).roots@.contains(h) && !node.children@.contains(h) by { if node.children@.contains(h) { assert(sq0.unref().to_set().contains(h)); let j = choose|j: int| 0 <= j < sq0.unref().len() && sq0.unref()[j] == h; assert(*sq0[j] == h); } if exists|j: int| 0 <= j < sq0.len() && *#[trigger] sq0[j] == h { let j = choose|j: int| 0 <= j < sq0.len() && *#[trigger] sq0[j] == h; assert(sq0.unref().to_set().contains(sq0.unref()[j])); } } }

            // Since we have never seen this node before, it's guaranteed to be a root.
            self.roots.insert(node_hash);

            // It is now safe to insert this node into the DAG since we've seen its children.
            //@ let ghost gnode = node;
            self.dag.insert(node_hash, node);
            //@ proof { lemma_insert_ready(*old(self), gnode, self.dag@, self.roots@); }

            // Now check if inserting this node resolves any orphans nodes.
            // TODO: replace this logic with BTreeMap::drain_filter once it's stable.
            let hashes_that_are_now_ready_to_apply = /*@ shim_btreemap_iter_filter_keys_collect(& @*/ self
                .orphans
                /*@<*/ .iter()
                .filter( /*@>*/ /*@ , Ghost(|k: Hash, n: Node<T>| ready(self.dag@, n)), @*/ | /*@ p: &(&Hash, &Node<T>) @*/ /*@<pat*/ (_, node) /*@>*/ | /*@ -> (b: bool) requires hash_ok() ensures b == ready(self.dag@, *p.1) { let $pat = *p; @*/ self.all_hashes_seen(&node.children) /*@ } @*/ )
                /*@<*/ .map(|(hash, _)| hash)
                .copied()
                .collect::<Vec<_>>() /*@>*/ ;

            let mut nodes_to_apply = Vec::new();
            //@ let ghost orp0 = self.orphans@;
            //@ let ghost hs = hashes_that_are_now_ready_to_apply@;
            for hash in /*@ it: @*/ hashes_that_are_now_ready_to_apply
            //@ invariant hash_ok(), old(self).inv(), orp0 == old(self).orphans@, it.seq() == hs, self.dag@ == old(self).dag@.insert(node_hash, gnode),
            //@     forall|k: Hash| #[trigger] hs.contains(k) <==> orp0.contains_key(k) && ready(self.dag@, orp0[k]), self.roots@ == old(self).roots@.difference(gnode.children@).insert(node_hash),
            //@     forall|h: Hash| #[trigger] self.orphans@.contains_key(h) <==> orp0.contains_key(h) && !(exists|j: int| 0 <= j < it.index@ && hs[j] == h),
            //@     forall|h: Hash| #[trigger] self.orphans@.contains_key(h) ==> self.orphans@[h] == orp0[h],
            //@     forall|i: int| 0 <= i < nodes_to_apply@.len() ==> orp0.contains_key(nhash(#[trigger] nodes_to_apply@[i])) && orp0[nhash(nodes_to_apply@[i])] == nodes_to_apply@[i] && ready(self.dag@, nodes_to_apply@[i]) && hs.contains(nhash(nodes_to_apply@[i])),
            //@     forall|j: int| 0 <= j < it.index@ ==> has_hash(nodes_to_apply@, 0, #[trigger] hs[j]),
            {
                // Remove the previously orphaned nodes that are now
                // ready to apply before we recurse, else we risk an
                // exponential growth in memory.
                //@ proof { assert(hash == hs[it.index@]); assert(hs.contains(hash)); assert(orp0.contains_key(hash)); assert(old(self).orp().contains_key(hash)); assert(hash == nhash(orp0[hash])); }
                //@ let ghost idx = it.index@; let ghost nta0 = nodes_to_apply@;
                if let Some(node) = self.orphans.remove(&hash) {
                    nodes_to_apply.push(node);
                    //@ proof { assert(node == orp0[hash]); assert(nodes_to_apply@[nodes_to_apply@.len() - 1] == node); assert forall|i: int| 0 <= i < nodes_to_apply@.len() implies orp0.contains_key(nhash(#[trigger] nodes_to_apply@[i])) && orp0[nhash(nodes_to_apply@[i])] == nodes_to_apply@[i] && ready(self.dag@, nodes_to_apply@[i]) && hs.contains(nhash(nodes_to_apply@[i])) by { if i < nta0.len() { assert(nodes_to_apply@[i] == nta0[i]); } } }
                }
                //@ proof { assert forall|j: int| 0 <= j < idx + 1 implies has_hash(nodes_to_apply@, 0, #[trigger] hs[j]) by { if j < idx { assert(has_hash(nta0, 0, hs[j])); let i = choose|i: int| 0 <= i < nta0.len() && nhash(#[trigger] nta0[i]) == hs[j]; assert(nodes_to_apply@[i] == nta0[i]); } else if nodes_to_apply@.len() > nta0.len() { assert(nhash(nodes_to_apply@[nodes_to_apply@.len() - 1]) == hash); } else { let j2 = choose|j2: int| 0 <= j2 < idx && hs[j2] == hash; assert(has_hash(nta0, 0, hs[j2])); let i = choose|i: int| 0 <= i < nta0.len() && nhash(#[trigger] nta0[i]) == hs[j2]; assert(nodes_to_apply@[i] == nta0[i]); } } }
            }

            //@ let ghost mid = *self;
            //@ let ghost limbo = nodes_to_apply@;
            //@ let ghost target = old(self).recv().insert(node_hash, gnode);
            //@ proof { lemma_after_collect(*old(self), gnode, mid, orp0, hs, limbo); }
            for node in /*@ it: @*/ nodes_to_apply
            //@ invariant hash_ok(), it.seq() == limbo, self.inv(), mid.dg().submap_of(self.dg()), self.orp().dom().subset_of(mid.orp().dom()),
            //@     self.orp().len() <= mid.orp().len(), mid.orp().len() < old(self).orp().len() || limbo.len() == 0,
            //@     self.recv().submap_of(target),
            //@     forall|h: Hash| #[trigger] target.contains_key(h) ==> self.recv().contains_key(h) || has_hash(limbo, it.index@ as int, h),
            //@     forall|j: int| 0 <= j < limbo.len() ==> target.contains_key(nhash(#[trigger] limbo[j])) && target[nhash(limbo[j])] == limbo[j] && ready(mid.dg(), limbo[j]),
            {
                //@ proof { assert(node == limbo[it.index@]); assert(ready(self.dg(), node)); }
                //@ let ghost pre = *self;
                self.apply(node);
                //@ proof { lemma_limbo_step(mid, pre, node, *self, target); }
            }
            //@ proof { assert(self.recv() =~= target); lemma_submap_trans(old(self).dg(), mid.dg(), self.dg()); assert(old(self).dg().submap_of(self.dg())); assert(self.orp().dom().subset_of(old(self).orp().dom())); assert(!old(self).recv().contains_key(node_hash)); assert(apply_post_mk(*old(self), gnode, *self)); }
        } else {
            //@ proof { assert(!ready(self.dag@, node)); }
            //@ let ghost gnode = node;
            self.orphans.insert(node_hash, node);
            //@ proof { assert(self.recv() =~= old(self).recv().insert(node_hash, gnode)); assert(self.dg() == old(self).dg()); assert forall|h: Hash| #[trigger] self.orp().contains_key(h) implies h == nhash(self.orp()[h]) && !ready(self.dg(), self.orp()[h]) by { if h != node_hash { assert(old(self).orp().contains_key(h)); } } assert forall|h: Hash| #[trigger] self.dg().contains_key(h) implies h == nhash(self.dg()[h]) && !self.orp().contains_key(h) by { assert(old(self).dg().contains_key(h)); } assert forall|h: Hash| #[trigger] self.dg().contains_key(h) implies ready(self.dg(), self.dg()[h]) by { assert(old(self).dg().contains_key(h)); } assert forall|h: Hash| #[trigger] self.rts().contains(h) <==> self.dg().contains_key(h) && !listed(self.dg(), h) by { assert(old(self).rts().contains(h) <==> old(self).dg().contains_key(h) && !listed(old(self).dg(), h)); } assert(self.inv()); assert(apply_post_mk(*old(self), gnode, *self)); }
        }
    }
//@end
}

/// inserting a ready node n: the roots update (drop n's children, add n) re-establishes "roots = unlisted visible nodes"
pub proof fn lemma_insert_ready<T>(o: MerkleReg<T>, n: Node<T>, dag2: SMap<Hash, Node<T>>, roots2: Set<Hash>)
    requires o.inv(), !o.recv().contains_key(nhash(n)), ready(o.dg(), n), dag2 == o.dg().insert(nhash(n), n),
        forall|h: Hash| #[trigger] roots2.contains(h) <==> h == nhash(n) || (o.rts().contains(h) && !n.children@.contains(h)),
    ensures
        forall|h: Hash| #[trigger] roots2.contains(h) <==> dag2.contains_key(h) && !listed(dag2, h),
        forall|h: Hash| #[trigger] dag2.contains_key(h) ==> ready(dag2, dag2[h]) && h == nhash(dag2[h]),
        roots2 == o.rts().difference(n.children@).insert(nhash(n)),
{
    let hn = nhash(n);
    assert(!n.children@.contains(hn));
    assert forall|h: Hash| #[trigger] roots2.contains(h) <==> dag2.contains_key(h) && !listed(dag2, h) by {
        if h == hn {
            if listed(dag2, h) { let p = choose|p: Hash| #[trigger] dag2.contains_key(p) && dag2[p].children@.contains(h); if p != hn { assert(o.dg().contains_key(p)); assert(ready(o.dg(), o.dg()[p])); } }
        } else {
            if listed(dag2, h) { let p = choose|p: Hash| #[trigger] dag2.contains_key(p) && dag2[p].children@.contains(h); if p != hn { assert(o.dg().contains_key(p) && o.dg()[p].children@.contains(h)); assert(listed(o.dg(), h)); } }
            if listed(o.dg(), h) { let p = choose|p: Hash| #[trigger] o.dg().contains_key(p) && o.dg()[p].children@.contains(h); assert(dag2.contains_key(p) && dag2[p].children@.contains(h)); }
            if n.children@.contains(h) { assert(dag2.contains_key(hn) && dag2[hn].children@.contains(h)); }
        }
    }
    assert(roots2 =~= o.rts().difference(n.children@).insert(hn));
}

/// after the ready node is inserted and the now-ready orphans are moved to the limbo vector, the invariant holds again
pub proof fn lemma_after_collect<T>(o: MerkleReg<T>, n: Node<T>, mid: MerkleReg<T>, orp0: SMap<Hash, Node<T>>, hs: Seq<Hash>, limbo: Seq<Node<T>>)
    requires o.inv(), !o.recv().contains_key(nhash(n)), ready(o.dg(), n), orp0 == o.orp(),
        mid.dg() == o.dg().insert(nhash(n), n), mid.rts() == o.rts().difference(n.children@).insert(nhash(n)),
        forall|k: Hash| #[trigger] hs.contains(k) <==> orp0.contains_key(k) && ready(mid.dg(), orp0[k]),
        forall|h: Hash| #[trigger] mid.orp().contains_key(h) <==> orp0.contains_key(h) && !(exists|j: int| 0 <= j < hs.len() && hs[j] == h),
        forall|h: Hash| #[trigger] mid.orp().contains_key(h) ==> mid.orp()[h] == orp0[h],
        forall|i: int| 0 <= i < limbo.len() ==> orp0.contains_key(nhash(#[trigger] limbo[i])) && orp0[nhash(limbo[i])] == limbo[i] && ready(mid.dg(), limbo[i]) && hs.contains(nhash(limbo[i])),
        forall|j: int| 0 <= j < hs.len() ==> has_hash(limbo, 0, #[trigger] hs[j]),
    ensures mid.inv(), o.dg().submap_of(mid.dg()), mid.orp().dom().subset_of(o.orp().dom()),
        mid.orp().len() < o.orp().len() || limbo.len() == 0,
        mid.recv().submap_of(o.recv().insert(nhash(n), n)),
        forall|h: Hash| #[trigger] o.recv().insert(nhash(n), n).contains_key(h) ==> mid.recv().contains_key(h) || has_hash(limbo, 0, h),
        forall|j: int| 0 <= j < limbo.len() ==> o.recv().insert(nhash(n), n).contains_key(nhash(#[trigger] limbo[j])) && o.recv().insert(nhash(n), n)[nhash(limbo[j])] == limbo[j],
{
    let hn = nhash(n);
    let rts2 = mid.rts();
    assert forall|h: Hash| #[trigger] rts2.contains(h) <==> h == hn || (o.rts().contains(h) && !n.children@.contains(h)) by { }
    lemma_insert_ready(o, n, mid.dg(), rts2);
    assert forall|h: Hash| #[trigger] mid.orp().contains_key(h) implies h == nhash(mid.orp()[h]) && !ready(mid.dg(), mid.orp()[h]) by {
        assert(orp0.contains_key(h));
        if ready(mid.dg(), orp0[h]) { assert(hs.contains(h)); let j = choose|j: int| 0 <= j < hs.len() && hs[j] == h; assert(false); }
    }
    assert forall|h: Hash| #[trigger] mid.dg().contains_key(h) implies !mid.orp().contains_key(h) by { if h != hn { assert(o.dg().contains_key(h)); } }
    assert(mid.orp().dom().subset_of(o.orp().dom()));
    if limbo.len() > 0 {
        let k = nhash(limbo[0]);
        assert(hs.contains(k));
        let j = choose|j: int| 0 <= j < hs.len() && hs[j] == k;
        assert(!mid.orp().contains_key(k) && o.orp().contains_key(k));
        vstd::set_lib::lemma_len_subset(mid.orp().dom(), o.orp().dom().remove(k));
    }
    let target = o.recv().insert(hn, n);
    assert forall|h: Hash| #[trigger] target.contains_key(h) implies mid.recv().contains_key(h) || has_hash(limbo, 0, h) by {
        if h != hn && !o.dg().contains_key(h) && !mid.orp().contains_key(h) {
            assert(orp0.contains_key(h));
            let j = choose|j: int| 0 <= j < hs.len() && hs[j] == h;
            assert(has_hash(limbo, 0, hs[j]));
            let i = choose|i: int| 0 <= i < limbo.len() && nhash(#[trigger] limbo[i]) == hs[j];
            assert(nhash(limbo[i]) == h);
        }
    }
    assert forall|j: int| 0 <= j < limbo.len() implies target.contains_key(nhash(#[trigger] limbo[j])) && target[nhash(limbo[j])] == limbo[j] by {
        let k = nhash(limbo[j]);
        assert(orp0.contains_key(k));
        assert(!o.dg().contains_key(k));
    }
}

/// one recursive apply of a limbo node keeps the loop invariant of apply
pub proof fn lemma_limbo_step<T>(base: MerkleReg<T>, pre: MerkleReg<T>, node: Node<T>, post: MerkleReg<T>, target: SMap<Hash, Node<T>>)
    requires pre.inv(), post.inv(), apply_post_mk(pre, node, post), ready(pre.dg(), node), base.dg().submap_of(pre.dg()), pre.orp().dom().subset_of(base.orp().dom()), pre.orp().len() <= base.orp().len(),
        pre.recv().submap_of(target), target.contains_key(nhash(node)), target[nhash(node)] == node,
    ensures pre.dg().submap_of(post.dg()), post.orp().dom().subset_of(pre.orp().dom()), post.orp().len() <= pre.orp().len(),
        base.dg().submap_of(post.dg()), post.orp().dom().subset_of(base.orp().dom()), post.orp().len() <= base.orp().len(),
        post.recv().submap_of(target),
        forall|h: Hash| #[trigger] pre.recv().contains_key(h) || h == nhash(node) ==> post.recv().contains_key(h),
{
    if !pre.recv().contains_key(nhash(node)) {
        vstd::set_lib::lemma_len_subset(post.orp().dom(), pre.orp().dom());
    }
    lemma_submap_trans(base.dg(), pre.dg(), post.dg());
}

impl<T: Sha3Hash> CvRDT for MerkleReg<T> {
    type Validation = Infallible;
    open spec fn cv_inv(&self) -> bool { hash_ok() && self.inv() }
    open spec fn cv_pre(&self, other: &Self) -> bool { other.inv() }
    open spec fn cv_post(old_: &Self, other: &Self, new_: &Self) -> bool { merge_post_mk(*old_, *other, *new_) }
    open spec fn cv_vhyp() -> bool { true }
    open spec fn cv_flag(&self, other: &Self) -> bool { false }

//@extract fn src/merkle_reg.rs "CvRDT for MerkleReg" validate_merge
    fn validate_merge(&self, /*@ _other @*/ /*@<*/ _ /*@>*/ : &Self) -> /*@ (r: @*/ Result<(), Self::Validation> /*@ ) @*/
    //@ ensures r is Ok,
    {
        Ok(())
    }
//@end

//@extract fn src/merkle_reg.rs "CvRDT for MerkleReg" merge
    fn merge(&mut self, other: Self)
    //@ ensures merge_post_mk(*old(self), other, *final(self)),
    {
        let MerkleReg { dag, orphans, .. } = other;
        //@ let dv = shim_btreemap_into_vec(dag);
        //@ let ghost dvs = dv@;
        for /*@ p @*/ /*@<pat1*/ (_, node) /*@>*/ in /*@ it: dv @*/ /*@<*/ dag /*@>*/
        //@ invariant hash_ok(), self.inv(), it.seq() == dvs, old(self).recv().submap_of(self.recv()), old(self).dg().submap_of(self.dg()),
        //@     forall|i: int| 0 <= i < dvs.len() ==> other.dg().contains_key((#[trigger] dvs[i]).0) && other.dg()[dvs[i].0] == dvs[i].1,
        //@     forall|h: Hash| #[trigger] self.recv().contains_key(h) ==> old(self).recv().contains_key(h) || exists|j: int| 0 <= j < it.index@ && nhash((#[trigger] dvs[j]).1) == h,
        //@     forall|j: int| 0 <= j < it.index@ ==> self.recv().contains_key(nhash((#[trigger] dvs[j]).1)),
        //@     forall|h: Hash| #[trigger] self.recv().contains_key(h) && !old(self).recv().contains_key(h) ==> exists|j: int| 0 <= j < it.index@ && (#[trigger] dvs[j]).1 == self.recv()[h],
        {
            //@ let $pat1 = p;
            //@ let ghost pre = *self;
            self.apply(node);
            //@ proof { lemma_merge_step(*old(self), pre, node, *self); }
        }
        //@ let ghost mid = *self;
        //@ let ov = shim_btreemap_into_vec(orphans);
        //@ let ghost ovs = ov@;
        for /*@ p @*/ /*@<pat2*/ (_, node) /*@>*/ in /*@ it: ov @*/ /*@<*/ orphans /*@>*/
        //@ invariant hash_ok(), self.inv(), it.seq() == ovs, mid.recv().submap_of(self.recv()), mid.dg().submap_of(self.dg()),
        //@     forall|i: int| 0 <= i < ovs.len() ==> other.orp().contains_key((#[trigger] ovs[i]).0) && other.orp()[ovs[i].0] == ovs[i].1,
        //@     forall|h: Hash| #[trigger] self.recv().contains_key(h) ==> mid.recv().contains_key(h) || exists|j: int| 0 <= j < it.index@ && nhash((#[trigger] ovs[j]).1) == h,
        //@     forall|j: int| 0 <= j < it.index@ ==> self.recv().contains_key(nhash((#[trigger] ovs[j]).1)),
        //@     forall|h: Hash| #[trigger] self.recv().contains_key(h) && !mid.recv().contains_key(h) ==> exists|j: int| 0 <= j < it.index@ && (#[trigger] ovs[j]).1 == self.recv()[h],
        {
            //@ let $pat2 = p;
            //@ let ghost pre = *self;
            self.apply(node);
            //@ proof { lemma_merge_step(mid, pre, node, *self); }
        }
        //@ proof { lemma_merge_done(*old(self), other, mid, *self, dvs, ovs); }
    }
//@end
}

/// exact effect of merge: every node of the other side has been received (under its content address), nothing else was
/// added, nothing received or visible is lost; the invariant fixes the rest
pub open spec fn merge_post_mk<T>(old_: MerkleReg<T>, other: MerkleReg<T>, new_: MerkleReg<T>) -> bool {
    &&& old_.recv().submap_of(new_.recv())
    &&& old_.dg().submap_of(new_.dg())
    &&& forall|h: Hash| #[trigger] other.recv().contains_key(h) ==> new_.recv().contains_key(nhash(other.recv()[h]))
    &&& forall|h: Hash| #[trigger] new_.recv().contains_key(h) ==> old_.recv().contains_key(h) || (exists|k: Hash| #[trigger] other.recv().contains_key(k) && other.recv()[k] == new_.recv()[h])
}

pub proof fn lemma_submap_trans<K, V>(a: SMap<K, V>, b: SMap<K, V>, c: SMap<K, V>)
    requires a.submap_of(b), b.submap_of(c),
    ensures a.submap_of(c),
{
    assert forall|k: K| #[trigger] a.dom().contains(k) implies #[trigger] c.dom().contains(k) && a[k] == c[k] by { assert(b.dom().contains(k)); }
}

pub proof fn lemma_merge_step<T>(base: MerkleReg<T>, pre: MerkleReg<T>, node: Node<T>, post: MerkleReg<T>)
    requires pre.inv(), post.inv(), apply_post_mk(pre, node, post), base.recv().submap_of(pre.recv()), base.dg().submap_of(pre.dg()),
    ensures pre.recv().submap_of(post.recv()), pre.dg().submap_of(post.dg()), post.recv().contains_key(nhash(node)),
        base.recv().submap_of(post.recv()), base.dg().submap_of(post.dg()),
        forall|h: Hash| #[trigger] post.recv().contains_key(h) ==> pre.recv().contains_key(h) || (h == nhash(node) && post.recv()[h] == node),
{
    lemma_submap_trans(base.recv(), pre.recv(), post.recv());
    lemma_submap_trans(base.dg(), pre.dg(), post.dg());
}

pub proof fn lemma_merge_done<T>(o: MerkleReg<T>, other: MerkleReg<T>, mid: MerkleReg<T>, fin: MerkleReg<T>, dvs: Seq<(Hash, Node<T>)>, ovs: Seq<(Hash, Node<T>)>)
    requires other.inv(),
        o.recv().submap_of(mid.recv()), o.dg().submap_of(mid.dg()), mid.recv().submap_of(fin.recv()), mid.dg().submap_of(fin.dg()),
        forall|i: int| 0 <= i < dvs.len() ==> other.dg().contains_key((#[trigger] dvs[i]).0) && other.dg()[dvs[i].0] == dvs[i].1,
        forall|k: Hash| other.dg().contains_key(k) ==> exists|i: int| 0 <= i < dvs.len() && (#[trigger] dvs[i]).0 == k,
        forall|i: int| 0 <= i < ovs.len() ==> other.orp().contains_key((#[trigger] ovs[i]).0) && other.orp()[ovs[i].0] == ovs[i].1,
        forall|k: Hash| other.orp().contains_key(k) ==> exists|i: int| 0 <= i < ovs.len() && (#[trigger] ovs[i]).0 == k,
        forall|j: int| 0 <= j < dvs.len() ==> mid.recv().contains_key(nhash((#[trigger] dvs[j]).1)),
        forall|j: int| 0 <= j < ovs.len() ==> fin.recv().contains_key(nhash((#[trigger] ovs[j]).1)),
        forall|h: Hash| #[trigger] mid.recv().contains_key(h) && !o.recv().contains_key(h) ==> exists|j: int| 0 <= j < dvs.len() && (#[trigger] dvs[j]).1 == mid.recv()[h],
        forall|h: Hash| #[trigger] fin.recv().contains_key(h) && !mid.recv().contains_key(h) ==> exists|j: int| 0 <= j < ovs.len() && (#[trigger] ovs[j]).1 == fin.recv()[h],
    ensures merge_post_mk(o, other, fin),
{
    lemma_submap_trans(o.recv(), mid.recv(), fin.recv());
    lemma_submap_trans(o.dg(), mid.dg(), fin.dg());
    assert forall|h: Hash| #[trigger] other.recv().contains_key(h) implies fin.recv().contains_key(nhash(other.recv()[h])) by {
        if other.dg().contains_key(h) { let i = choose|i: int| 0 <= i < dvs.len() && (#[trigger] dvs[i]).0 == h; assert(mid.recv().contains_key(nhash(dvs[i].1))); }
        else { let i = choose|i: int| 0 <= i < ovs.len() && (#[trigger] ovs[i]).0 == h; assert(fin.recv().contains_key(nhash(ovs[i].1))); }
    }
    assert forall|h: Hash| #[trigger] fin.recv().contains_key(h) implies o.recv().contains_key(h) || (exists|k: Hash| #[trigger] other.recv().contains_key(k) && other.recv()[k] == fin.recv()[h]) by {
        if !o.recv().contains_key(h) {
            if mid.recv().contains_key(h) { let j = choose|j: int| 0 <= j < dvs.len() && (#[trigger] dvs[j]).1 == mid.recv()[h]; assert(other.recv().contains_key(dvs[j].0) && other.recv()[dvs[j].0] == fin.recv()[h]); }
            else { let j = choose|j: int| 0 <= j < ovs.len() && (#[trigger] ovs[j]).1 == fin.recv()[h]; assert(other.orp().contains_key(ovs[j].0)); assert(other.recv().contains_key(ovs[j].0)); if other.dg().contains_key(ovs[j].0) { } }
        }
    }
}

} // verus!
}
pub use crate::merkle_reg::MerkleReg;
