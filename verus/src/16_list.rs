pub mod list {
use vstd::prelude::*;
use vstd::map::Map as SMap;
use core::cmp::Ordering;
use std::collections::BTreeMap;
use vstd::std_specs::iter::IteratorSpec;
use vstd::std_specs::cmp::{PartialEqSpec, PartialOrdSpec, OrdSpec};
use crate::spec::*;
use crate::stdx5::*;
use crate::num::rational::BigRational;
use crate::identifier::{id_cmp, node_ok, c14_identifier_obeys_cmp};
use crate::{CmRDT, Dot, Identifier, OrdDot, VClock};
verus! {

pub type Id<A> = Identifier<OrdDot<A>>;

//@extract struct src/list.rs List
pub struct List<T /*@<*/ : SerDe /*@>*/ , A: Ord> {
    seq: BTreeMap<Identifier<OrdDot<A>>, T>,
    clock: VClock<A>,
}
//@end

//@extract enum src/list.rs Op
pub enum Op<T, A: Ord> {
    Insert {
        id: Identifier<OrdDot<A>>,
        val: T,
    },
    Delete {
        id: Identifier<OrdDot<A>>,
        dot: Dot<A>,
    },
}
//@end

/// usage hypotheses on the actor type of a List
pub open spec fn list_ok<A: Ord + Clone>() -> bool {
    actor_ok::<A>() && clone_ok::<A>() && node_ok::<OrdDot<A>>() && vstd::laws_cmp::obeys_cmp::<Id<A>>()
        && vstd::std_specs::btree::key_obeys_cmp_spec::<Id<A>>()
}

impl<T, A: Ord + Clone + Eq> Op<T, A> {
//@extract fn src/list.rs "Op" id
    pub fn id(&self) -> /*@ (r: @*/ &Identifier<OrdDot<A>> /*@ ) @*/
    //@ ensures *r == (match *self { Op::Insert { id, .. } => id, Op::Delete { id, .. } => id }),
    {
        match self {
            Op::Insert { id, .. } | Op::Delete { id, .. } => id,
        }
    }
//@end

    /// the dot that tags the op: the marker of the last node of an insert's identifier, or the delete's own dot
    pub open spec fn dot_spec(&self) -> Dot<A> {
        match *self {
            Op::Insert { id, .. } => Dot { actor: id@.last().1.actor, counter: id@.last().1.counter },
            Op::Delete { dot, .. } => dot,
        }
    }

//@extract fn src/list.rs "Op" dot
    pub fn dot(&self) -> /*@ (r: @*/ Dot<A> /*@ ) @*/
    //@ requires clone_ok::<A>(), self is Insert ==> self->Insert_id@.len() > 0,
    //@ ensures r == self.dot_spec(),
    {
        match self {
            Op::Insert { id, .. } => id.value().clone().into(),
            Op::Delete { dot, .. } => dot.clone(),
        }
    }
//@end
}

impl<T, A: Ord> List<T, A> {
    pub closed spec fn sq(&self) -> SMap<Id<A>, T> { self.seq@ }
    pub closed spec fn cl(&self) -> SMap<A, u64> { self.clock@ }
    /// every stored identifier has a non-empty path (what `between` produces)
    pub open spec fn wf(&self) -> bool { forall|id: Id<A>| #[trigger] self.sq().contains_key(id) ==> id@.len() > 0 }
}

impl<T, A: Ord> Default for List<T, A> {
//@extract fn src/list.rs "Default for List" default
    fn default() -> /*@ (r: @*/ Self /*@ ) @*/
    //@ ensures r.sq() == SMap::<Id<A>, T>::empty(), r.cl() == SMap::<A, u64>::empty(),
    {
        Self {
            seq: Default::default(),
            clock: Default::default(),
        }
    }
//@end
}

/// s enumerates the keys of m in increasing identifier order (the sequence a replica shows)
pub open spec fn is_order<A: Ord, T>(s: Seq<Id<A>>, m: SMap<Id<A>, T>) -> bool {
    &&& s.no_duplicates()
    &&& s.to_set() == m.dom()
    &&& forall|i: int, j: int| 0 <= i < j < s.len() ==> id_cmp((#[trigger] s[i])@, (#[trigger] s[j])@) == Ordering::Less
}

/// exact effect of List::apply (C12): an op whose dot was already seen is ignored; an insert adds its identifier unless
/// present; a delete removes its identifier; the clock learns the op's dot
pub open spec fn apply_post_list<T, A: Ord + Clone + Eq>(old_: List<T, A>, op: Op<T, A>, new_: List<T, A>) -> bool {
    let d = op.dot_spec();
    if d.counter <= cnt(old_.cl(), d.actor) { new_ == old_ }
    else {
        &&& new_.cl() == old_.cl().insert(d.actor, d.counter)
        &&& new_.sq() == (match op {
                Op::Insert { id, val } => if old_.sq().contains_key(id) { old_.sq() } else { old_.sq().insert(id, val) },
                Op::Delete { id, .. } => old_.sq().remove(id),
            })
    }
}

impl<T, A: Ord + Clone> List<T, A> {
//@extract fn src/list.rs "List" new
    pub fn new() -> /*@ (r: @*/ Self /*@ ) @*/
    //@ ensures r.sq() == SMap::<Id<A>, T>::empty(), r.cl() == SMap::<A, u64>::empty(),
    {
        Self::default()
    }
//@end

//@extract fn src/list.rs "List" insert_index
    pub fn insert_index(&self, mut ix: usize, val: T, actor: A) -> /*@ (r: @*/ Op<T, A> /*@ ) @*/
    //@ requires list_ok::<A>(), self.wf(), cnt(self.cl(), actor) < u64::MAX,
    //@ ensures
    //@     // C13: the new identifier is tagged with the actor's next dot and lies strictly between the (i-1)-th and the
    //@     // i-th element of the current sequence, i = min(ix, len)
    //@     r is Insert, r->Insert_val == val, r->Insert_id@.len() > 0,
    //@     r.dot_spec().actor == actor, r.dot_spec().counter == cnt(self.cl(), actor) + 1,
    //@     exists|s: Seq<Id<A>>| #[trigger] is_order(s, self.sq()) && ({
    //@         let i = if ix <= s.len() { ix as int } else { s.len() as int };
    //@         (i > 0 ==> id_cmp(s[i - 1]@, r->Insert_id@) == Ordering::Less) && (i < s.len() ==> id_cmp(r->Insert_id@, s[i]@) == Ordering::Less) }),
    {
        //@ proof { vstd::std_specs::btree::axiom_spec_btree_map_len(&self.seq); }
        //@ let ghost ix0 = ix;
        ix = ix.min(self.seq.len());
        // TODO: replace this logic with BTreeMap::range()
        //@ let ghost mut ksu: Seq<Id<A>> = Seq::empty();
        let (prev, next) = match ix.checked_sub(1) {
            Some(indices_to_drop) => {
                //@ broadcast use vstd::std_specs::iter::group_iter_axioms;
                /*@ let k0 = @*/ /*@<*/ let mut indices = /*@>*/ self.seq.keys() /*@ ; let ghost kr = k0.remaining(); proof { ksu = vstd::std_specs::btree::into_iter_keys(k0); lemma_keys_order(kr, self.seq@); } let mut indices = k0 @*/ .skip(indices_to_drop);
                //@ proof { assert(indices.remaining() == kr.skip(indices_to_drop as int)); }
                //@ let p =
                (indices.next(), indices.next())
                //@ ; proof { assert(p.0 is Some && *p.0->0 == ksu[indices_to_drop as int]); if indices_to_drop + 1 < ksu.len() { assert(p.1 is Some && *p.1->0 == ksu[indices_to_drop + 1]); } else { assert(p.1 is None); } }
                //@ p
            }
            None => {
                // Inserting at the front of the list
                let mut indices = self.seq.keys();
                //@ let ghost kr = indices.remaining();
                //@ proof { ksu = vstd::std_specs::btree::into_iter_keys(indices); lemma_keys_order(kr, self.seq@); }
                //@ let p =
                (None, indices.next())
                //@ ; proof { if ksu.len() > 0 { assert(p.1 is Some && *p.1->0 == ksu[0]); } else { assert(p.1 is None); } }
                //@ p
            }
        };
        //@ proof { assert(is_order(ksu, self.sq())); lemma_order_len(ksu, self.sq()); }
        //@ let ghost i = ix as int;
        //@ proof { assert(i == (if ix0 <= ksu.len() { ix0 as int } else { ksu.len() as int })); assert(prev is Some <==> i > 0); assert(i > 0 ==> *prev->0 == ksu[i - 1]); assert(next is Some <==> i < ksu.len()); assert(i < ksu.len() ==> *next->0 == ksu[i]); if i > 0 { assert(self.sq().contains_key(ksu[i - 1])); } if i < ksu.len() { assert(self.sq().contains_key(ksu[i])); } }

        let dot = self.clock.inc(actor);
        let id = Identifier::between(prev, next, dot.into());
        Op::Insert { id, val }
    }
//@end

//@extract fn src/list.rs "List" append
    pub fn append(&self, c: T, actor: A) -> /*@ (r: @*/ Op<T, A> /*@ ) @*/
    //@ requires list_ok::<A>(), self.wf(), cnt(self.cl(), actor) < u64::MAX,
    //@ ensures r is Insert, r->Insert_val == c, r->Insert_id@.len() > 0,
    //@     exists|s: Seq<Id<A>>| #[trigger] is_order(s, self.sq()) && (s.len() > 0 ==> id_cmp(s.last()@, r->Insert_id@) == Ordering::Less),
    {
        //@ proof { vstd::std_specs::btree::axiom_spec_btree_map_len(&self.seq); }
        let ix = self.seq.len();
        //@ let r =
        self.insert_index(ix, c, actor)
        //@ ; proof { let s = choose|s: Seq<Id<A>>| #[trigger] is_order(s, self.sq()) && ({ let i = if ix <= s.len() { ix as int } else { s.len() as int }; (i > 0 ==> id_cmp(s[i - 1]@, r->Insert_id@) == Ordering::Less) && (i < s.len() ==> id_cmp(r->Insert_id@, s[i]@) == Ordering::Less) }); lemma_order_len(s, self.sq()); assert(s.len() > 0 ==> s.last() == s[s.len() - 1]); }
        //@ r
    }
//@end

//@extract fn src/list.rs "List" len
    pub fn len(&self) -> /*@ (r: @*/ usize /*@ ) @*/
    //@ ensures vstd::std_specs::btree::key_obeys_cmp_spec::<Id<A>>() ==> r == self.sq().len(),
    {
        //@ proof { vstd::std_specs::btree::axiom_spec_btree_map_len(&self.seq); }
        self.seq.len()
    }
//@end

//@extract fn src/list.rs "List" is_empty
    pub fn is_empty(&self) -> /*@ (r: @*/ bool /*@ ) @*/
    //@ ensures r == self.sq().is_empty(),
    {
        self.seq.is_empty()
    }
//@end

//@extract fn src/list.rs "List" get
    pub fn get(&self, id: &Identifier<OrdDot<A>>) -> /*@ (r: @*/ Option<&T> /*@ ) @*/
    //@ requires list_ok::<A>(),
    //@ ensures r is Some <==> self.sq().contains_key(*id), r is Some ==> *r->0 == self.sq()[*id],
    {
        self.seq.get(id)
    }
//@end

//@extract fn src/list.rs "List" insert
    fn insert(&mut self, id: Identifier<OrdDot<A>>, val: T)
    //@ requires list_ok::<A>(),
    //@ ensures final(self).cl() == old(self).cl(), final(self).sq() == (if old(self).sq().contains_key(id) { old(self).sq() } else { old(self).sq().insert(id, val) }),
    {
        // Inserts only have an impact if the identifier is not in the tree
        /*@ shim_btreemap_entry_or_insert(&mut @*/ self.seq /*@<*/ .entry( /*@>*/ /*@ , @*/ id /*@<*/ ).or_insert( /*@>*/ /*@ , @*/ val);
    }
//@end

//@extract fn src/list.rs "List" delete
    fn delete(&mut self, id: &Identifier<OrdDot<A>>)
    //@ requires list_ok::<A>(),
    //@ ensures final(self).cl() == old(self).cl(), final(self).sq() == old(self).sq().remove(*id),
    {
        // Deletes only have an effect if the identifier is already in the tree
        self.seq.remove(id);
    }
//@end
}

impl<T, A: Ord + Clone> CmRDT for List<T, A> {
    type Op = Op<T, A>;
    type Validation = crate::DotRange<A>;
    open spec fn cm_inv(&self) -> bool { list_ok::<A>() && nz(self.cl()) }
    open spec fn cm_pre(&self, op: &Op<T, A>) -> bool { op is Insert ==> op->Insert_id@.len() > 0 }
    open spec fn cm_post(old_: &Self, op: &Op<T, A>, new_: &Self) -> bool { apply_post_list(*old_, *op, *new_) }
    open spec fn cm_vpre(&self, op: &Op<T, A>) -> bool { op is Insert ==> op->Insert_id@.len() > 0 }

//@extract fn src/list.rs "CmRDT for List" validate_op
    fn validate_op(&self, op: &Self::Op) -> /*@ (r: @*/ Result<(), Self::Validation> /*@ ) @*/
    //@ ensures
    //@     // C16: accepted iff the op's own dot (an insert's identifier tag, a delete's dot) does not skip one of its actor's dots
    //@     r is Ok <==> op.dot_spec().counter <= cnt(self.cl(), op.dot_spec().actor) + 1,
    {
        self.clock.validate_op(&op.dot())
    }
//@end

//@extract fn src/list.rs "CmRDT for List" apply
    fn apply(&mut self, op: Self::Op)
    //@ ensures apply_post_list(*old(self), op, *final(self)),
    {
        let op_dot = op.dot();

        if op_dot.counter <= self.clock.get(&op_dot.actor) {
            return;
        }

        //@ proof { assert(self.clock.cm_inv()); }
        self.clock.apply(op_dot);
        match op {
            Op::Insert { id, val } => self.insert(id, val),
            Op::Delete { id, .. } => self.delete(&id),
        }
    }
//@end
}

pub proof fn lemma_order_len<A: Ord, T>(s: Seq<Id<A>>, m: SMap<Id<A>, T>)
    requires is_order(s, m),
    ensures s.len() == m.len(),
{
    s.unique_seq_to_set();
}

/// the keys() iterator of the BTreeMap enumerates the sequence order
pub proof fn lemma_keys_order<A: Ord, T>(ks: Seq<&Id<A>>, m: SMap<Id<A>, T>)
    requires vstd::laws_cmp::obeys_cmp::<Id<A>>(), ks.unref().to_set() == m.dom(), ks.no_duplicates(), vstd::std_specs::btree::increasing_seq(ks),
    ensures is_order(ks.unref(), m), ks.unref().len() == ks.len(), forall|i: int| 0 <= i < ks.len() ==> #[trigger] ks.unref()[i] == *ks[i],
{
    broadcast use vstd::laws_cmp::lemma_ref_obeys_cmp_spec;
    assert(vstd::laws_cmp::obeys_cmp::<&Id<A>>());
    vstd::std_specs::btree::axiom_increasing_seq_meaning(ks);
    let s = ks.unref();
    assert forall|i: int, j: int| 0 <= i < j < s.len() implies id_cmp((#[trigger] s[i])@, (#[trigger] s[j])@) == Ordering::Less by {
        assert(<&Id<A> as vstd::std_specs::cmp::OrdSpec>::cmp_spec(&ks[i], &ks[j]) is Less);
        assert(id_cmp(ks[i]@, ks[j]@) == Ordering::Less);
    }
    assert forall|i: int, j: int| 0 <= i < s.len() && 0 <= j < s.len() && i != j implies s[i] != s[j] by { assert(ks[i] != ks[j]); }
}

} // verus!
}
pub use crate::list::List;
