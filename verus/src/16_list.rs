pub mod list {
use vstd::prelude::*;
use vstd::map::Map as SMap;
use core::cmp::Ordering;
use std::collections::BTreeMap;
use core::iter::FromIterator;
use vstd::std_specs::iter::IteratorSpec;
use vstd::std_specs::cmp::{PartialEqSpec, PartialOrdSpec, OrdSpec};
use crate::spec::*;
use crate::stdx5::*;
use crate::num::rational::BigRational;
use crate::identifier::{id_cmp, id_order, node_ok, c14_identifier_obeys_cmp};
use crate::{CmRDT, Dot, Identifier, OrdDot, VClock};
verus! {

pub type Id<A> = Identifier<OrdDot<A>>;

//@extract struct src/list.rs List
pub struct List<T /*@<*/ : SerDe /*@>*/ , A: Ord> {
    seq: BTreeMap<Identifier<OrdDot<A>>, T>,
    clock: VClock<A>,
}
//@end

//@extract enum src/list.rs Op
pub enum Op<T, A: Ord> {
    Insert {
        id: Identifier<OrdDot<A>>,
        val: T,
    },
    Delete {
        id: Identifier<OrdDot<A>>,
        dot: Dot<A>,
    },
}
//@end

/// usage hypotheses on the actor type of a List
pub open spec fn list_ok<A: Ord + Clone>() -> bool {
    actor_ok::<A>() && clone_ok::<A>() && node_ok::<OrdDot<A>>() && crate::identifier::between_ok::<OrdDot<A>>() && vstd::laws_cmp::obeys_cmp::<Id<A>>()
        && vstd::std_specs::btree::key_obeys_cmp_spec::<Id<A>>()
}

impl<T, A: Ord + Clone + Eq> Op<T, A> {
//@extract fn src/list.rs "Op" id
    pub fn id(&self) -> /*@ (r: @*/ &Identifier<OrdDot<A>> /*@ ) @*/
    //@ ensures *r == (match *self { Op::Insert { id, .. } => id, Op::Delete { id, .. } => id }),
    {
        match self {
            Op::Insert { id, .. } | Op::Delete { id, .. } => id,
        }
    }
//@end

    /// the dot that tags the op: the marker of the last node of an insert's identifier, or the delete's own dot
    pub open spec fn dot_spec(&self) -> Dot<A> {
        match *self {
            Op::Insert { id, .. } => Dot { actor: id@.last().1.actor, counter: id@.last().1.counter },
            Op::Delete { dot, .. } => dot,
        }
    }

//@extract fn src/list.rs "Op" dot
    pub fn dot(&self) -> /*@ (r: @*/ Dot<A> /*@ ) @*/
    //@ requires clone_ok::<A>(), self is Insert ==> self->Insert_id@.len() > 0,
    //@ ensures r == self.dot_spec(),
    {
        match self {
            Op::Insert { id, .. } => id.value().clone().into(),
            Op::Delete { dot, .. } => dot.clone(),
        }
    }
//@end
}

impl<T, A: Ord> List<T, A> {
    pub closed spec fn sq(&self) -> SMap<Id<A>, T> { self.seq@ }
    pub closed spec fn cl(&self) -> SMap<A, u64> { self.clock@ }
    /// every stored identifier has a non-empty path (what `between` produces)
    pub open spec fn wf(&self) -> bool { forall|id: Id<A>| #[trigger] self.sq().contains_key(id) ==> id@.len() > 0 }
}

impl<T, A: Ord> Default for List<T, A> {
//@extract fn src/list.rs "Default for List" default
    fn default() -> /*@ (r: @*/ Self /*@ ) @*/
    //@ ensures r.sq() == SMap::<Id<A>, T>::empty(), r.cl() == SMap::<A, u64>::empty(),
    {
        Self {
            seq: Default::default(),
            clock: Default::default(),
        }
    }
//@end
}

/// s enumerates the keys of m in increasing identifier order (the sequence a replica shows)
pub open spec fn is_order<A: Ord, T>(s: Seq<Id<A>>, m: SMap<Id<A>, T>) -> bool {
    id_order(s, m.dom())
}

/// exact effect of List::apply (C12): an op whose dot was already seen is ignored; an insert adds its identifier unless
/// present; a delete removes its identifier; the clock learns the op's dot
pub open spec fn apply_post_list<T, A: Ord + Clone + Eq>(old_: List<T, A>, op: Op<T, A>, new_: List<T, A>) -> bool {
    let d = op.dot_spec();
    if d.counter <= cnt(old_.cl(), d.actor) { new_ == old_ }
    else {
        &&& new_.cl() == old_.cl().insert(d.actor, d.counter)
        &&& new_.sq() == (match op {
                Op::Insert { id, val } => if old_.sq().contains_key(id) { old_.sq() } else { old_.sq().insert(id, val) },
                Op::Delete { id, .. } => old_.sq().remove(id),
            })
    }
}

impl<T, A: Ord + Clone> List<T, A> {
//@extract fn src/list.rs "List" new
    pub fn new() -> /*@ (r: @*/ Self /*@ ) @*/
    //@ ensures r.sq() == SMap::<Id<A>, T>::empty(), r.cl() == SMap::<A, u64>::empty(),
    {
        Self::default()
    }
//@end

//@extract fn src/list.rs "List" insert_index
    pub fn insert_index(&self, mut ix: usize, val: T, actor: A) -> /*@ (r: @*/ Op<T, A> /*@ ) @*/
    //@ requires list_ok::<A>(), self.wf(), cnt(self.cl(), actor) < u64::MAX,
    //@ ensures
    //@     // C13: the new identifier is tagged with the actor's next dot and lies strictly between the (i-1)-th and the
    //@     // i-th element of the current sequence, i = min(ix, len)
    //@     r is Insert, r->Insert_val == val, r->Insert_id@.len() > 0,
    //@     r.dot_spec().actor == actor, r.dot_spec().counter == cnt(self.cl(), actor) + 1,
    //@     exists|s: Seq<Id<A>>| #[trigger] is_order(s, self.sq()) && ({
    //@         let i = if ix <= s.len() { ix as int } else { s.len() as int };
    //@         (i > 0 ==> id_cmp(s[i - 1]@, r->Insert_id@) == Ordering::Less) && (i < s.len() ==> id_cmp(r->Insert_id@, s[i]@) == Ordering::Less) }),
    {
        //@ proof { vstd::std_specs::btree::axiom_spec_btree_map_len(&self.seq); }
        //@ let ghost ix0 = ix;
        ix = ix.min(self.seq.len());
        // TODO: replace this logic with BTreeMap::range()
        //@ let ghost mut ksu: Seq<Id<A>> = Seq::empty();
        let (prev, next) = match ix.checked_sub(1) {
            Some(indices_to_drop) => {
                //@ broadcast use vstd::std_specs::iter::group_iter_axioms;
                /*@ let k0 = @*/ /*@<*/ let mut indices = /*@>*/ self.seq.keys() /*@ ; let ghost kr = k0.remaining(); proof { ksu = vstd::std_specs::btree::into_iter_keys(k0); lemma_keys_order(kr, self.seq@); } let mut indices = k0 @*/ .skip(indices_to_drop);
                //@ proof { assert(indices.remaining() == kr.skip(indices_to_drop as int)); }
                //@ let p =
                (indices.next(), indices.next())
                //@ ; proof { assert(p.0 is Some && *p.0->0 == ksu[indices_to_drop as int]); if indices_to_drop + 1 < ksu.len() { assert(p.1 is Some && *p.1->0 == ksu[indices_to_drop + 1]); } else { assert(p.1 is None); } }
                //@ p
            }
            None => {
                // Inserting at the front of the list
                let mut indices = self.seq.keys();
                //@ let ghost kr = indices.remaining();
                //@ proof { ksu = vstd::std_specs::btree::into_iter_keys(indices); lemma_keys_order(kr, self.seq@); }
                //@ let p =
                (None, indices.next())
                //@ ; proof { if ksu.len() > 0 { assert(p.1 is Some && *p.1->0 == ksu[0]); } else { assert(p.1 is None); } }
                //@ p
            }
        };
        //@ proof { assert(is_order(ksu, self.sq())); lemma_order_len(ksu, self.sq()); }
        //@ let ghost i = ix as int;
        //@ proof { assert(i == (if ix0 <= ksu.len() { ix0 as int } else { ksu.len() as int })); assert(prev is Some <==> i > 0); assert(i > 0 ==> *prev->0 == ksu[i - 1]); assert(next is Some <==> i < ksu.len()); assert(i < ksu.len() ==> *next->0 == ksu[i]); if i > 0 { assert(self.sq().contains_key(ksu[i - 1])); } if i < ksu.len() { assert(self.sq().contains_key(ksu[i])); } }

        let dot = self.clock.inc(actor);
        let id = Identifier::between(prev, next, dot.into());
        Op::Insert { id, val }
    }
//@end

//@extract fn src/list.rs "List" append
    pub fn append(&self, c: T, actor: A) -> /*@ (r: @*/ Op<T, A> /*@ ) @*/
    //@ requires list_ok::<A>(), self.wf(), cnt(self.cl(), actor) < u64::MAX,
    //@ ensures r is Insert, r->Insert_val == c, r->Insert_id@.len() > 0,
    //@     exists|s: Seq<Id<A>>| #[trigger] is_order(s, self.sq()) && (s.len() > 0 ==> id_cmp(s.last()@, r->Insert_id@) == Ordering::Less),
    {
        //@ proof { vstd::std_specs::btree::axiom_spec_btree_map_len(&self.seq); }
        let ix = self.seq.len();
        //@ let r =
        self.insert_index(ix, c, actor)
        //@ ; proof { let s = choose|s: Seq<Id<A>>| #[trigger] is_order(s, self.sq()) && ({ let i = if ix <= s.len() { ix as int } else { s.len() as int }; (i > 0 ==> id_cmp(s[i - 1]@, r->Insert_id@) == Ordering::Less) && (i < s.len() ==> id_cmp(r->Insert_id@, s[i]@) == Ordering::Less) }); lemma_order_len(s, self.sq()); assert(s.len() > 0 ==> s.last() == s[s.len() - 1]); }
        //@ r
    }
//@end

//@extract fn src/list.rs "List" delete_index
    pub fn delete_index(&self, ix: usize, actor: A) -> /*@ (r: @*/ Option<Op<T, A>> /*@ ) @*/
    //@ requires list_ok::<A>(), clone_ok::<OrdDot<A>>(), cnt(self.cl(), actor) < u64::MAX,
    //@ ensures
    //@     // C13: names exactly the element that is ix-th in the current sequence, tagged with the actor's next dot
    //@     exists|s: Seq<Id<A>>| #[trigger] is_order(s, self.sq()) && (r is Some <==> ix < s.len())
    //@         && (r is Some ==> r->0 is Delete && r->0->Delete_id == s[ix as int] && cloned(actor, r->0->Delete_dot.actor) && r->0->Delete_dot.counter == cnt(self.cl(), actor) + 1),
    {
        //@ broadcast use vstd::std_specs::iter::group_iter_axioms;
        //@ let k0 = self.seq.keys();
        //@ let ghost kr = k0.remaining();
        //@ let ghost ksu = vstd::std_specs::btree::into_iter_keys(k0);
        //@ proof { lemma_keys_order(kr, self.seq@); assert(is_order(ksu, self.sq())); }
        /*@ let n0 = shim_iter_nth(k0, ix); proof { assert(n0 is Some <==> ix < ksu.len()); if ix < ksu.len() { assert(*n0->0 == ksu[ix as int]); } } let n1 = n0 @*/ /*@<*/ self.seq.keys().nth(ix) /*@>*/ .cloned() /*@ ; proof { assert(n1 is Some ==> n1->0 == ksu[ix as int]); } n1 @*/ .map(|id /*@ : Id<A> @*/ | /*@ -> (o: Op<T, A>) requires actor_ok::<A>(), cnt(self.clock@, actor) < u64::MAX ensures o is Delete && o->Delete_id == id && cloned(actor, o->Delete_dot.actor) && o->Delete_dot.counter == cnt(self.clock@, actor) + 1 { @*/ {
            let dot = self.clock.inc(actor);
            Op::Delete { id, dot }
        } /*@ } @*/ )
    }
//@end

//@extract fn src/list.rs "List" read
    pub fn read<'a, C: FromIterator<&'a T>>(&'a self) -> /*@ (r: @*/ C /*@ ) @*/
    //@ ensures
    //@     // C12/C13 observation: the caller's collector is handed exactly the values, in increasing identifier order
    //@     vstd::std_specs::btree::key_obeys_cmp_spec::<Id<A>>() && vstd::laws_cmp::obeys_cmp::<Id<A>>() ==> exists|s: Seq<Id<A>>| #[trigger] is_order(s, self.sq()) && r == from_iter_spec::<C, &T>(s.map(|i: int, k: Id<A>| &self.sq()[k])),
    {
        /*@ let it0 = @*/ self.seq.values() /*@ ; proof { if vstd::std_specs::btree::key_obeys_cmp_spec::<Id<A>>() && vstd::laws_cmp::obeys_cmp::<Id<A>>() { let m = self.seq@; let ks = choose|ks: Seq<Id<A>>| vstd::std_specs::btree::increasing_seq(ks) && ks.to_set() == m.dom() && ks.no_duplicates() && it0.remaining() == ks.map(|i: int, k: Id<A>| &m[k]); lemma_keys_order_owned(ks, m); assert(is_order(ks, self.sq())); } } let r0 = shim_iter_collect(it0); r0 @*/ /*@<*/ .collect() /*@>*/
    }
//@end

//@extract fn src/list.rs "List" read_into
    pub fn read_into<C: FromIterator<T>>(self) -> /*@ (r: @*/ C /*@ ) @*/
    //@ ensures
    //@     // C12/C13 observation: as `read`, handing over the owned values
    //@     vstd::std_specs::btree::key_obeys_cmp_spec::<Id<A>>() && vstd::laws_cmp::obeys_cmp::<Id<A>>() ==> exists|s: Seq<Id<A>>| #[trigger] is_order(s, self.sq()) && r == from_iter_spec::<C, T>(s.map(|i: int, k: Id<A>| self.sq()[k])),
    {
        //@ let ghost m = self.seq@;
        /*@ let r0 = shim_btreemap_into_values_collect( @*/ self.seq /*@<*/ .into_values().collect() /*@>*/ /*@ ); proof { if vstd::std_specs::btree::key_obeys_cmp_spec::<Id<A>>() && vstd::laws_cmp::obeys_cmp::<Id<A>>() { let ks = choose|ks: Seq<Id<A>>| vstd::std_specs::btree::increasing_seq(ks) && ks.to_set() == m.dom() && ks.no_duplicates() && r0 == from_iter_spec::<C, T>(ks.map(|i: int, k: Id<A>| m[k])); lemma_keys_order_owned(ks, m); assert(is_order(ks, self.sq())); } } r0 @*/
    }
//@end

//@extract fn src/list.rs "List" iter
    pub fn iter(&self) -> /*@ (r: @*/ impl Iterator<Item = &T> /*@ ) @*/
    //@ ensures
    //@     // C12/C13: the replica shows its values in increasing identifier order
    //@     vstd::std_specs::btree::key_obeys_cmp_spec::<Id<A>>() && vstd::laws_cmp::obeys_cmp::<Id<A>>() ==> exists|s: Seq<Id<A>>| #[trigger] is_order(s, self.sq()) && r.remaining() == s.map(|i: int, k: Id<A>| &self.sq()[k]),
    //@     r.obeys_prophetic_iter_laws(),
    {
        //@ let v =
        self.seq.values()
        //@ ; proof { if vstd::std_specs::btree::key_obeys_cmp_spec::<Id<A>>() && vstd::laws_cmp::obeys_cmp::<Id<A>>() { let m = self.seq@; let ks = choose|ks: Seq<Id<A>>| vstd::std_specs::btree::increasing_seq(ks) && ks.to_set() == m.dom() && ks.no_duplicates() && v.remaining() == ks.map(|i: int, k: Id<A>| &m[k]); lemma_keys_order_owned(ks, m); assert(is_order(ks, self.sq())); } }
        //@ v
    }
//@end

//@extract fn src/list.rs "List" iter_entries
    pub fn iter_entries(&self) -> /*@ (r: @*/ impl Iterator<Item = (&Identifier<OrdDot<A>>, &T)> /*@ ) @*/
    //@ ensures
    //@     vstd::std_specs::btree::key_obeys_cmp_spec::<Id<A>>() && vstd::laws_cmp::obeys_cmp::<Id<A>>() ==> exists|s: Seq<Id<A>>| #[trigger] is_order(s, self.sq()) && entries_in_order(r.remaining(), s, self.sq()),
    //@     r.obeys_prophetic_iter_laws(),
    {
        //@ let v =
        self.seq.iter()
        //@ ; proof { if vstd::std_specs::btree::key_obeys_cmp_spec::<Id<A>>() && vstd::laws_cmp::obeys_cmp::<Id<A>>() { let es = v.remaining(); let kr = choose|kr: Seq<Id<A>>| #[trigger] vstd::std_specs::btree::increasing_seq(kr) && kr.len() == es.len() && forall|i: int| 0 <= i < es.len() ==> #[trigger] kr[i] == *es[i].0; lemma_entries_order(es, kr, self.seq@); let s = choose|s: Seq<Id<A>>| #[trigger] is_order(s, self.seq@) && entries_in_order(es, s, self.seq@); assert(is_order(s, self.sq()) && entries_in_order(v.remaining(), s, self.sq())); } }
        //@ v
    }
//@end

//@extract fn src/list.rs "List" position
    pub fn position(&self, ix: usize) -> /*@ (r: @*/ Option<&T> /*@ ) @*/
    //@ requires list_ok::<A>(),
    //@ ensures
    //@     // C13 observation: the ix-th value in identifier order
    //@     exists|s: Seq<Id<A>>| #[trigger] is_order(s, self.sq()) && (r is Some <==> ix < s.len()) && (r is Some ==> *r->0 == self.sq()[s[ix as int]]),
    {
        //@ broadcast use vstd::std_specs::iter::group_iter_axioms;
        /*@ let it0 = self.iter(); let r0 = shim_iter_nth(it0, ix); r0 @*/ /*@<*/ self.iter().nth(ix) /*@>*/
    }
//@end

//@extract fn src/list.rs "List" position_entry
    pub fn position_entry(&self, id: &Identifier<OrdDot<A>>) -> /*@ (r: @*/ Option<usize> /*@ ) @*/
    //@ requires list_ok::<A>(),
    //@ ensures
    //@     // C13 observation: the index of `id` in identifier order, None when the list does not hold it
    //@     exists|s: Seq<Id<A>>| #[trigger] is_order(s, self.sq()) && position_entry_post(s, *id, r),
    {
        //@ broadcast use vstd::std_specs::iter::group_iter_axioms;
        /*@ let it0 = @*/ self.iter_entries()
            /*@ ; let ghost es = it0.remaining(); let f0 = @*/ /*@<*/ .enumerate()
            .find_map( /*@>*/ /*@<*/ | /*@>*/ /*@<pat*/ (ix, (ident, _)) /*@>*/ /*@<*/ | /*@>*/ /*@ |p: (usize, (&Identifier<OrdDot<A>>, &T))| -> (o: Option<usize>)
                requires list_ok::<A>(),
                ensures o == pe_out(p, *id)
            { let $pat = p; proof { crate::identifier::c14_antisymmetric((*p.1.0)@, id@); } @*/ if ident == id { Some(ix) } else { None } /*@ } @*/ /*@<*/ ) /*@>*/ /*@ ; let r0 = shim_iter_enumerate_find_map(it0, f0); proof { vstd::std_specs::btree::axiom_spec_btree_map_len(&self.seq); let s = choose|s: Seq<Id<A>>| #[trigger] is_order(s, self.sq()) && entries_in_order(es, s, self.sq()); lemma_order_len(s, self.sq()); let outs = choose|outs: Seq<Option<usize>>| #[trigger] find_map_run(outs, es.len() as int, r0) && (forall|i: int| 0 <= i < outs.len() ==> call_ensures(f0, ((i as usize, es[i]),), #[trigger] outs[i])); let n = outs.len() as int; lemma_position_entry(es, s, self.sq(), *id, r0, outs, n); } r0 @*/
    }
//@end

//@extract fn src/list.rs "List" first
    pub fn first(&self) -> /*@ (r: @*/ Option<&T> /*@ ) @*/
    //@ requires list_ok::<A>(),
    //@ ensures exists|s: Seq<Id<A>>| #[trigger] is_order(s, self.sq()) && (r is Some <==> s.len() > 0) && (r is Some ==> *r->0 == self.sq()[s[0]]),
    {
        self.first_entry().map(| /*@ p: (&Identifier<OrdDot<A>>, &T) @*/ /*@<pat*/ (_, val) /*@>*/ | /*@ -> (o: &T) ensures o == p.1 { let $pat = p; @*/ val /*@ } @*/ )
    }
//@end

//@extract fn src/list.rs "List" first_entry
    pub fn first_entry(&self) -> /*@ (r: @*/ Option<(&Identifier<OrdDot<A>>, &T)> /*@ ) @*/
    //@ requires list_ok::<A>(),
    //@ ensures exists|s: Seq<Id<A>>| #[trigger] is_order(s, self.sq()) && (r is Some <==> s.len() > 0) && (r is Some ==> *(r->0).0 == s[0] && *(r->0).1 == self.sq()[s[0]]),
    {
        //@ broadcast use vstd::std_specs::iter::group_iter_axioms;
        /*@ let mut it0 = @*/ self.seq.iter() /*@ ; let ghost es = it0.remaining(); proof { let kr = choose|kr: Seq<Id<A>>| #[trigger] vstd::std_specs::btree::increasing_seq(kr) && kr.len() == es.len() && forall|i: int| 0 <= i < es.len() ==> #[trigger] kr[i] == *es[i].0; lemma_entries_order(es, kr, self.seq@); } let r0 = it0 @*/ .next()
        //@ ; proof { let s = choose|s: Seq<Id<A>>| #[trigger] is_order(s, self.seq@) && entries_in_order(es, s, self.seq@); assert(is_order(s, self.sq())); assert(r0 is Some <==> s.len() > 0); assert(s.len() > 0 ==> r0->0 == es[0]); }
        //@ r0
    }
//@end

//@extract fn src/list.rs "List" last
    pub fn last(&self) -> /*@ (r: @*/ Option<&T> /*@ ) @*/
    //@ requires list_ok::<A>(),
    //@ ensures exists|s: Seq<Id<A>>| #[trigger] is_order(s, self.sq()) && (r is Some <==> s.len() > 0) && (r is Some ==> *r->0 == self.sq()[s.last()]),
    {
        self.last_entry().map(| /*@ p: (&Identifier<OrdDot<A>>, &T) @*/ /*@<pat*/ (_, val) /*@>*/ | /*@ -> (o: &T) ensures o == p.1 { let $pat = p; @*/ val /*@ } @*/ )
    }
//@end

//@extract fn src/list.rs "List" last_entry
    pub fn last_entry(&self) -> /*@ (r: @*/ Option<(&Identifier<OrdDot<A>>, &T)> /*@ ) @*/
    //@ requires list_ok::<A>(),
    //@ ensures exists|s: Seq<Id<A>>| #[trigger] is_order(s, self.sq()) && (r is Some <==> s.len() > 0) && (r is Some ==> *(r->0).0 == s.last() && *(r->0).1 == self.sq()[s.last()]),
    {
        //@ broadcast use vstd::std_specs::iter::group_iter_axioms;
        /*@ let mut it0 = @*/ self.seq.iter() /*@ ; let ghost es = it0.remaining(); proof { let kr = choose|kr: Seq<Id<A>>| #[trigger] vstd::std_specs::btree::increasing_seq(kr) && kr.len() == es.len() && forall|i: int| 0 <= i < es.len() ==> #[trigger] kr[i] == *es[i].0; lemma_entries_order(es, kr, self.seq@); } let r0 = it0 @*/ .next_back()
        //@ ; proof { let s = choose|s: Seq<Id<A>>| #[trigger] is_order(s, self.seq@) && entries_in_order(es, s, self.seq@); assert(is_order(s, self.sq())); assert(r0 is Some <==> s.len() > 0); assert(s.len() > 0 ==> r0->0 == es.last()); }
        //@ r0
    }
//@end

//@extract fn src/list.rs "List" len
    pub fn len(&self) -> /*@ (r: @*/ usize /*@ ) @*/
    //@ ensures vstd::std_specs::btree::key_obeys_cmp_spec::<Id<A>>() ==> r == self.sq().len(),
    {
        //@ proof { vstd::std_specs::btree::axiom_spec_btree_map_len(&self.seq); }
        self.seq.len()
    }
//@end

//@extract fn src/list.rs "List" is_empty
    pub fn is_empty(&self) -> /*@ (r: @*/ bool /*@ ) @*/
    //@ ensures r == self.sq().is_empty(),
    {
        self.seq.is_empty()
    }
//@end

//@extract fn src/list.rs "List" get
    pub fn get(&self, id: &Identifier<OrdDot<A>>) -> /*@ (r: @*/ Option<&T> /*@ ) @*/
    //@ requires list_ok::<A>(),
    //@ ensures r is Some <==> self.sq().contains_key(*id), r is Some ==> *r->0 == self.sq()[*id],
    {
        self.seq.get(id)
    }
//@end

//@extract fn src/list.rs "List" insert
    fn insert(&mut self, id: Identifier<OrdDot<A>>, val: T)
    //@ requires list_ok::<A>(),
    //@ ensures final(self).cl() == old(self).cl(), final(self).sq() == (if old(self).sq().contains_key(id) { old(self).sq() } else { old(self).sq().insert(id, val) }),
    {
        // Inserts only have an impact if the identifier is not in the tree
        /*@ shim_btreemap_entry_or_insert(&mut @*/ self.seq /*@<*/ .entry( /*@>*/ /*@ , @*/ id /*@<*/ ).or_insert( /*@>*/ /*@ , @*/ val);
    }
//@end

//@extract fn src/list.rs "List" delete
    fn delete(&mut self, id: &Identifier<OrdDot<A>>)
    //@ requires list_ok::<A>(),
    //@ ensures final(self).cl() == old(self).cl(), final(self).sq() == old(self).sq().remove(*id),
    {
        // Deletes only have an effect if the identifier is already in the tree
        self.seq.remove(id);
    }
//@end
}

impl<T, A: Ord + Clone> CmRDT for List<T, A> {
    type Op = Op<T, A>;
    type Validation = crate::DotRange<A>;
    open spec fn cm_inv(&self) -> bool { list_ok::<A>() && nz(self.cl()) }
    open spec fn cm_pre(&self, op: &Op<T, A>) -> bool { op is Insert ==> op->Insert_id@.len() > 0 }
    open spec fn cm_post(old_: &Self, op: &Op<T, A>, new_: &Self) -> bool { apply_post_list(*old_, *op, *new_) }
    open spec fn cm_vpre(&self, op: &Op<T, A>) -> bool { op is Insert ==> op->Insert_id@.len() > 0 }
    open spec fn cm_vhyp() -> bool { true }
    open spec fn cm_vflag(&self, op: &Op<T, A>) -> bool { op.dot_spec().counter > cnt(self.cl(), op.dot_spec().actor) + 1 }

//@extract fn src/list.rs "CmRDT for List" validate_op
    fn validate_op(&self, op: &Self::Op) -> /*@ (r: @*/ Result<(), Self::Validation> /*@ ) @*/
    //@ ensures
    //@     // C16: accepted iff the op's own dot (an insert's identifier tag, a delete's dot) does not skip one of its actor's dots
    //@     r is Ok <==> op.dot_spec().counter <= cnt(self.cl(), op.dot_spec().actor) + 1,
    {
        self.clock.validate_op(&op.dot())
    }
//@end

//@extract fn src/list.rs "CmRDT for List" apply
    fn apply(&mut self, op: Self::Op)
    //@ ensures apply_post_list(*old(self), op, *final(self)),
    {
        let op_dot = op.dot();

        if op_dot.counter <= self.clock.get(&op_dot.actor) {
            return;
        }

        //@ proof { assert(self.clock.cm_inv()); }
        self.clock.apply(op_dot);
        match op {
            Op::Insert { id, val } => self.insert(id, val),
            Op::Delete { id, .. } => self.delete(&id),
        }
    }
//@end
}

pub proof fn lemma_order_len<A: Ord, T>(s: Seq<Id<A>>, m: SMap<Id<A>, T>)
    requires is_order(s, m),
    ensures s.len() == m.len(),
{
    s.unique_seq_to_set();
}

/// the keys() iterator of the BTreeMap enumerates the sequence order
pub proof fn lemma_keys_order<A: Ord, T>(ks: Seq<&Id<A>>, m: SMap<Id<A>, T>)
    requires vstd::laws_cmp::obeys_cmp::<Id<A>>(), ks.unref().to_set() == m.dom(), ks.no_duplicates(), vstd::std_specs::btree::increasing_seq(ks),
    ensures is_order(ks.unref(), m), ks.unref().len() == ks.len(), forall|i: int| 0 <= i < ks.len() ==> #[trigger] ks.unref()[i] == *ks[i],
{
    broadcast use vstd::laws_cmp::lemma_ref_obeys_cmp_spec;
    assert(vstd::laws_cmp::obeys_cmp::<&Id<A>>());
    vstd::std_specs::btree::axiom_increasing_seq_meaning(ks);
    let s = ks.unref();
    assert forall|i: int, j: int| 0 <= i < j < s.len() implies id_cmp((#[trigger] s[i])@, (#[trigger] s[j])@) == Ordering::Less by {
        assert(<&Id<A> as vstd::std_specs::cmp::OrdSpec>::cmp_spec(&ks[i], &ks[j]) is Less);
        assert(id_cmp(ks[i]@, ks[j]@) == Ordering::Less);
    }
    assert forall|i: int, j: int| 0 <= i < s.len() && 0 <= j < s.len() && i != j implies s[i] != s[j] by { assert(ks[i] != ks[j]); }
}

/// the iter() iterator of the BTreeMap enumerates the entries in sequence order
pub open spec fn entries_in_order<A: Ord, T>(es: Seq<(&Id<A>, &T)>, s: Seq<Id<A>>, m: SMap<Id<A>, T>) -> bool {
    es.len() == s.len() && forall|i: int| 0 <= i < s.len() ==> *(#[trigger] es[i]).0 == s[i] && *es[i].1 == m[s[i]]
}
pub proof fn lemma_entries_order<A: Ord, T>(es: Seq<(&Id<A>, &T)>, kr: Seq<Id<A>>, m: SMap<Id<A>, T>)
    requires vstd::laws_cmp::obeys_cmp::<Id<A>>(),
        es.len() == m.dom().len(),
        forall|i: int| 0 <= i < es.len() ==> #[trigger] m.contains_key(*es[i].0) && m[*es[i].0] == *es[i].1,
        forall|k: Id<A>| #[trigger] m.contains_key(k) ==> es.contains((&k, &m[k])),
        kr.len() == es.len(), forall|i: int| 0 <= i < es.len() ==> #[trigger] kr[i] == *es[i].0, vstd::std_specs::btree::increasing_seq(kr),
    ensures exists|s: Seq<Id<A>>| #[trigger] is_order(s, m) && entries_in_order(es, s, m),
{
    vstd::std_specs::btree::axiom_increasing_seq_meaning(kr);
    let s = Seq::new(es.len(), |i: int| *es[i].0);
    assert forall|i: int, j: int| 0 <= i < j < s.len() implies id_cmp((#[trigger] s[i])@, (#[trigger] s[j])@) == Ordering::Less by {
        assert(<Id<A> as vstd::std_specs::cmp::OrdSpec>::cmp_spec(&kr[i], &kr[j]) is Less);
        assert(id_cmp(kr[i]@, kr[j]@) == Ordering::Less);
    }
    assert forall|i: int, j: int| 0 <= i < s.len() && 0 <= j < s.len() && i != j implies s[i] != s[j] by {
        lemma_ord_ok::<Id<A>>();
        let (a, b) = if i < j { (s[i], s[j]) } else { (s[j], s[i]) };
        assert(id_cmp(a@, b@) == Ordering::Less);
        assert(a.cmp_spec(&b) == Ordering::Less);
        if a == b { assert((a.cmp_spec(&a) == Ordering::Less) <==> (a.cmp_spec(&a) == Ordering::Greater)); }
    }
    assert(s.to_set() =~= m.dom()) by {
        assert forall|k: Id<A>| s.to_set().contains(k) <==> m.dom().contains(k) by {
            if s.to_set().contains(k) { let i = choose|i: int| 0 <= i < s.len() && s[i] == k; assert(m.contains_key(*es[i].0)); }
            if m.contains_key(k) { let i = choose|i: int| 0 <= i < es.len() && es[i] == (&k, &m[k]); assert(s[i] == k); }
        }
    }
    assert(is_order(s, m));
    assert forall|i: int| 0 <= i < s.len() implies *(#[trigger] es[i]).0 == s[i] && *es[i].1 == m[s[i]] by { assert(m.contains_key(*es[i].0)); }
    assert(entries_in_order(es, s, m));
}

/// C13 observation of position_entry: the index of the identifier that compares equal to `id`, None when there is none
pub open spec fn position_entry_post<A: Ord>(s: Seq<Id<A>>, id: Id<A>, r: Option<usize>) -> bool {
    match r {
        Some(i) => i < s.len() && id_cmp(s[i as int]@, id@) == Ordering::Equal,
        None => forall|j: int| 0 <= j < s.len() ==> id_cmp((#[trigger] s[j])@, id@) != Ordering::Equal,
    }
}
/// what `enumerate().find_map(|(ix, (ident, _))| if ident == id { Some(ix) } else { None })` finds on the entries in order
pub open spec fn pe_out<A: Ord, T>(p: (usize, (&Id<A>, &T)), id: Id<A>) -> Option<usize> {
    if id_cmp((*p.1.0)@, id@) == Ordering::Equal { Some(p.0) } else { None::<usize> }
}
pub proof fn lemma_position_entry<A: Ord, T>(es: Seq<(&Id<A>, &T)>, s: Seq<Id<A>>, m: SMap<Id<A>, T>, id: Id<A>, r: Option<usize>, outs: Seq<Option<usize>>, n: int)
    requires
        entries_in_order(es, s, m), es.len() <= usize::MAX,
        0 <= n <= es.len(), outs.len() == n,
        forall|i: int| 0 <= i < n ==> #[trigger] outs[i] == pe_out((i as usize, es[i]), id),
        forall|i: int| 0 <= i < n - 1 ==> (#[trigger] outs[i]) is None,
        r is Some ==> n > 0 && outs[n - 1] == r,
        r is None ==> n == es.len() && (n > 0 ==> outs[n - 1] is None),
    ensures position_entry_post(s, id, r),
{
    if r is Some {
        assert(outs[n - 1] == pe_out(((n - 1) as usize, es[n - 1]), id));
    } else {
        assert forall|j: int| 0 <= j < s.len() implies id_cmp((#[trigger] s[j])@, id@) != Ordering::Equal by {
            assert(outs[j] is None);
            assert(outs[j] == pe_out((j as usize, es[j]), id));
        }
    }
}

/// same for a sequence of owned keys (the shape vstd's `values()` specification uses)
pub proof fn lemma_keys_order_owned<A: Ord, T>(ks: Seq<Id<A>>, m: SMap<Id<A>, T>)
    requires vstd::laws_cmp::obeys_cmp::<Id<A>>(), ks.to_set() == m.dom(), ks.no_duplicates(), vstd::std_specs::btree::increasing_seq(ks),
    ensures is_order(ks, m),
{
    vstd::std_specs::btree::axiom_increasing_seq_meaning(ks);
    assert forall|i: int, j: int| 0 <= i < j < ks.len() implies id_cmp((#[trigger] ks[i])@, (#[trigger] ks[j])@) == Ordering::Less by {
        assert(<Id<A> as vstd::std_specs::cmp::OrdSpec>::cmp_spec(&ks[i], &ks[j]) is Less);
    }
}

} // verus!
}
pub use crate::list::List;
