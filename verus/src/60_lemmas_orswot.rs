// Layer L for Orswot (C04 and the Orswot rows of C01/C02/C03/C08/C09/C20): the state is the denotation of the knowledge
// set -- the add ops and remove ops a replica has learned of, as ops or inside merged states -- with NO assumption on
// delivery order beyond "each actor's adds arrive in issue order" (C08's contract).
// Nothing here is extracted from /repo: lemmas over the contracts apply_post / merge_post of 12_orswot.rs.
pub mod lemmas_orswot {
use vstd::prelude::*;
use vstd::map::Map as SMap;
use vstd::set::Set as SSet;
use vstd::iset::ISet;
use std::hash::Hash;
use std::collections::HashSet;
use crate::spec::*;
use crate::vclock::VClock;
use crate::orswot::*;
verus! {

/// What a replica knows: the dots of the adds it learned, which member each such add named, the remove contexts it
/// learned and which member each remove named.
#[verifier::reject_recursive_types(M)]
#[verifier::reject_recursive_types(A)]
pub ghost struct Know<M, A> {
    pub dots: ISet<(A, u64)>,
    pub adds: ISet<(A, u64, M)>,
    pub rmc: ISet<SMap<A, u64>>,
    pub rms: ISet<(SMap<A, u64>, M)>,
}

pub open spec fn k_ok<M, A>(k: Know<M, A>) -> bool {
    &&& forall|a: A, n: u64, m: M| #[trigger] k.adds.contains((a, n, m)) ==> k.dots.contains((a, n))
    &&& forall|a: A, n: u64| #[trigger] k.dots.contains((a, n)) ==> n >= 1
    &&& forall|c: SMap<A, u64>, m: M| #[trigger] k.rms.contains((c, m)) ==> k.rmc.contains(c)
    &&& forall|c: SMap<A, u64>| #[trigger] k.rmc.contains(c) ==> nz(c)
}

/// some learned remove of member m has observed dot (a, n)
pub open spec fn cov<M, A>(k: Know<M, A>, m: M, a: A, n: u64) -> bool {
    exists|c: SMap<A, u64>| #[trigger] k.rms.contains((c, m)) && cnt(c, a) >= n
}

pub open spec fn k_empty<M, A>() -> Know<M, A> {
    Know { dots: ISet::empty(), adds: ISet::empty(), rmc: ISet::empty(), rms: ISet::empty() }
}
pub open spec fn k_union<M, A>(x: Know<M, A>, y: Know<M, A>) -> Know<M, A> {
    Know { dots: x.dots.union(y.dots), adds: x.adds.union(y.adds), rmc: x.rmc.union(y.rmc), rms: x.rms.union(y.rms) }
}
/// learning the add op (dot (a, n), members ms)
pub open spec fn k_add<M, A>(k: Know<M, A>, a: A, n: u64, ms: Seq<M>) -> Know<M, A> {
    Know { dots: k.dots.insert((a, n)), adds: k.adds.union(ISet::new(|t: (A, u64, M)| t.0 == a && t.1 == n && ms.contains(t.2))), rmc: k.rmc, rms: k.rms }
}
/// learning the remove op (context c, members ms)
pub open spec fn k_rm<M, A>(k: Know<M, A>, c: SMap<A, u64>, ms: Seq<M>) -> Know<M, A> {
    Know { dots: k.dots, adds: k.adds, rmc: k.rmc.insert(c), rms: k.rms.union(ISet::new(|t: (SMap<A, u64>, M)| t.0 == c && ms.contains(t.1))) }
}

/// THE DENOTATION.  The replica clock is the greatest learned dot per actor; a member's witness for actor a is the
/// greatest learned add dot of a naming it, unless a learned remove of the member has observed that dot (then none);
/// the pending removes are exactly the learned removes whose context the replica clock does not yet cover.
pub open spec fn repr<M: Hash + Eq, A: Ord + Hash>(s: Orswot<M, A>, k: Know<M, A>) -> bool {
    &&& s.wf()
    &&& k_ok(k)
    &&& forall|a: A| #![trigger cnt(s.cl(), a)] (cnt(s.cl(), a) > 0 ==> k.dots.contains((a, cnt(s.cl(), a))))
    &&& forall|a: A, n: u64| #[trigger] k.dots.contains((a, n)) ==> n <= cnt(s.cl(), a)
    &&& forall|m: M, a: A| #![trigger cnt(s.ec(m), a)] (cnt(s.ec(m), a) > 0 ==> k.adds.contains((a, cnt(s.ec(m), a), m)) && !cov(k, m, a, cnt(s.ec(m), a)))
    &&& forall|m: M, a: A, n: u64| #[trigger] k.adds.contains((a, n, m)) ==> (if cnt(s.ec(m), a) > 0 { n <= cnt(s.ec(m), a) } else { cov(k, m, a, n) })
    &&& forall|c: SMap<A, u64>| #[trigger] pending_key(s, c) <==> k.rmc.contains(c) && !vle(c, s.cl())
    &&& forall|c: SMap<A, u64>, m: M| #[trigger] pending(s, c, m) <==> k.rms.contains((c, m)) && !vle(c, s.cl())
}

/// the replica holds a pending remove with context c / naming member m under context c
pub open spec fn pending_key<M: Hash + Eq, A: Ord + Hash>(s: Orswot<M, A>, c: SMap<A, u64>) -> bool {
    exists|cc: VClock<A>| cc@ == c && #[trigger] s.defs().contains_key(cc)
}
pub open spec fn pending<M: Hash + Eq, A: Ord + Hash>(s: Orswot<M, A>, c: SMap<A, u64>, m: M) -> bool {
    exists|cc: VClock<A>| cc@ == c && #[trigger] s.dm(cc).contains(m)
}

/// two knowledge sets drawn from one history, each containing per actor a prefix of that actor's adds (what delivery in
/// per-actor order and merging produce): an add one side knows, at a dot the other side's clock covers, is known there
pub open spec fn compat<M, A>(k1: Know<M, A>, c1: SMap<A, u64>, k2: Know<M, A>, c2: SMap<A, u64>) -> bool {
    &&& forall|a: A, n: u64, m: M| #[trigger] k2.adds.contains((a, n, m)) && n <= cnt(c1, a) ==> k1.adds.contains((a, n, m))
    &&& forall|a: A, n: u64, m: M| #[trigger] k1.adds.contains((a, n, m)) && n <= cnt(c2, a) ==> k2.adds.contains((a, n, m))
    &&& forall|a: A, n: u64| #[trigger] k2.dots.contains((a, n)) && n <= cnt(c1, a) ==> k1.dots.contains((a, n))
    &&& forall|a: A, n: u64| #[trigger] k1.dots.contains((a, n)) && n <= cnt(c2, a) ==> k2.dots.contains((a, n))
}

pub proof fn lo_new<M: Hash + Eq, A: Ord + Hash>(s: Orswot<M, A>)
    requires s.wf(), s.cl() == SMap::<A, u64>::empty(), s.ents() == SMap::<M, VClock<A>>::empty(), s.defs() == SMap::<VClock<A>, HashSet<M>>::empty(),
    ensures repr(s, k_empty::<M, A>()),
{
    let k = k_empty::<M, A>();
    assert forall|m: M, a: A| cnt(s.ec(m), a) == 0 by { }
}

/// L.rm: learning a remove -- early (then it is also remembered as pending), late or duplicated
pub proof fn lo_apply_rm<M: Hash + Eq, A: Ord + Hash>(s: Orswot<M, A>, k: Know<M, A>, op: Op<M, A>, s2: Orswot<M, A>)
    requires actor_ok::<A>(), repr(s, k), s2.wf(), op is Rm, nz(op->Rm_clock@), apply_post(s, op, s2),
    ensures repr(s2, k_rm(k, op->Rm_clock@, op->Rm_members@)),
{
    let c = op->Rm_clock@;
    let ms = op->Rm_members@;
    let k2 = k_rm(k, c, ms);
    assert(k_ok(k2));
    assert forall|m: M, a: A, n: u64| cov(k, m, a, n) implies cov(k2, m, a, n) by {
        let c0 = choose|c0: SMap<A, u64>| #[trigger] k.rms.contains((c0, m)) && cnt(c0, a) >= n;
        assert(k2.rms.contains((c0, m)));
    }
    assert forall|m: M, a: A| #![trigger cnt(s2.ec(m), a)] (cnt(s2.ec(m), a) > 0 ==> k2.adds.contains((a, cnt(s2.ec(m), a), m)) && !cov(k2, m, a, cnt(s2.ec(m), a))) by {
        let e2 = cnt(s2.ec(m), a);
        if e2 > 0 {
            assert(s2.ec(m) == (if ms.contains(m) { vsub(s.ec(m), c) } else { s.ec(m) }));
            assert(e2 == cnt(s.ec(m), a));
            if cov(k2, m, a, e2) {
                let c0 = choose|c0: SMap<A, u64>| #[trigger] k2.rms.contains((c0, m)) && cnt(c0, a) >= e2;
                if k.rms.contains((c0, m)) { assert(cov(k, m, a, e2)); } else { assert(c0 == c && ms.contains(m)); assert(cnt(vsub(s.ec(m), c), a) == 0 || cnt(s.ec(m), a) > cnt(c, a)); }
            }
        }
    }
    assert forall|m: M, a: A, n: u64| #[trigger] k2.adds.contains((a, n, m)) implies (if cnt(s2.ec(m), a) > 0 { n <= cnt(s2.ec(m), a) } else { cov(k2, m, a, n) }) by {
        assert(s2.ec(m) == (if ms.contains(m) { vsub(s.ec(m), c) } else { s.ec(m) }));
        let e = cnt(s.ec(m), a);
        let e2 = cnt(s2.ec(m), a);
        if e2 > 0 { assert(e2 == e); }
        else if e == 0 { assert(cov(k, m, a, n)); }
        else {
            // dropped by this remove: it observed e, hence every smaller learned add of (a, m)
            assert(ms.contains(m) && cnt(c, a) >= e);
            assert(n <= e);
            assert(k2.rms.contains((c, m)));
        }
    }
    let rc = op->Rm_clock;
    assert forall|c1: SMap<A, u64>| #[trigger] pending_key(s2, c1) <==> k2.rmc.contains(c1) && !vle(c1, s2.cl()) by {
        if pending_key(s2, c1) {
            let cc = choose|cc: VClock<A>| cc@ == c1 && #[trigger] s2.defs().contains_key(cc);
            if s.defs().contains_key(cc) { assert(pending_key(s, c1)); } else { assert(cc == rc); }
        }
        if k2.rmc.contains(c1) && !vle(c1, s2.cl()) {
            if c1 == c { assert(s2.defs().contains_key(rc)); }
            else { assert(pending_key(s, c1)); let cc = choose|cc: VClock<A>| cc@ == c1 && #[trigger] s.defs().contains_key(cc); assert(s2.defs().contains_key(cc)); }
        }
    }
    assert forall|c1: SMap<A, u64>, m: M| #[trigger] pending(s2, c1, m) <==> k2.rms.contains((c1, m)) && !vle(c1, s2.cl()) by {
        if pending(s2, c1, m) {
            let cc = choose|cc: VClock<A>| cc@ == c1 && #[trigger] s2.dm(cc).contains(m);
            if cc == rc && !vle(c, s.cl()) { assert(s2.dm(cc) == s.dm(cc).union(ms.to_set())); if s.dm(cc).contains(m) { assert(pending(s, c1, m)); } else { assert(ms.to_set().contains(m)); assert(ms.contains(m)); } }
            else { assert(s2.dm(cc) == s.dm(cc)); assert(pending(s, c1, m)); }
        }
        if k2.rms.contains((c1, m)) && !vle(c1, s2.cl()) {
            if k.rms.contains((c1, m)) {
                assert(pending(s, c1, m));
                let cc = choose|cc: VClock<A>| cc@ == c1 && #[trigger] s.dm(cc).contains(m);
                if cc == rc && !vle(c, s.cl()) { assert(s2.dm(cc) == s.dm(cc).union(ms.to_set())); } else { axiom_vclock_key_eq::<A>(cc, rc); assert(s2.dm(cc) == s.dm(cc)); }
                assert(s2.dm(cc).contains(m));
            } else {
                assert(c1 == c && ms.contains(m));
                assert(s2.dm(rc) == s.dm(rc).union(ms.to_set()));
                assert(ms.to_set().contains(m));
                assert(s2.dm(rc).contains(m));
            }
        }
    }
}

/// L.add: learning an add whose dot is its actor's next (per-actor issue order) or one already learned (re-delivery:
/// the dot names the op, so the knowledge set already holds exactly its members)
pub proof fn lo_apply_add<M: Hash + Eq, A: Ord + Hash>(s: Orswot<M, A>, k: Know<M, A>, op: Op<M, A>, s2: Orswot<M, A>)
    requires actor_ok::<A>(), repr(s, k), s2.wf(), op is Add, apply_post(s, op, s2),
        op->Add_dot.counter >= 1, op->Add_dot.counter <= cnt(s.cl(), op->Add_dot.actor) + 1,
        cnt(s.cl(), op->Add_dot.actor) >= op->Add_dot.counter ==> k.dots.contains((op->Add_dot.actor, op->Add_dot.counter)) && (forall|m: M| op->Add_members@.contains(m) <==> #[trigger] k.adds.contains((op->Add_dot.actor, op->Add_dot.counter, m))),
    ensures repr(s2, k_add(k, op->Add_dot.actor, op->Add_dot.counter, op->Add_members@)),
{
    let a0 = op->Add_dot.actor;
    let n0 = op->Add_dot.counter;
    let ms = op->Add_members@;
    let k2 = k_add(k, a0, n0, ms);
    if cnt(s.cl(), a0) >= n0 {
        assert(s2 == s);
        assert(k2.dots =~= k.dots);
        assert(k2.adds =~= k.adds);
        assert(k2 == k);
    } else {
        assert(n0 == cnt(s.cl(), a0) + 1);
        assert(k_ok(k2));
        assert(k2.rms == k.rms);
        assert forall|m: M, a: A, n: u64| cov(k, m, a, n) == cov(k2, m, a, n) by { }
        // a pending remove covers a dot above the old clock exactly when some learned remove does
        assert forall|m: M, a: A, e: u64| e > cnt(s.cl(), a) implies (covered_by(s.defs(), m, a, e) <==> cov(k, m, a, e)) by {
            if covered_by(s.defs(), m, a, e) {
                let kk = choose|kk: VClock<A>| #[trigger] s.defs().contains_key(kk) && s.defs()[kk]@.contains(m) && cnt(kk@, a) >= e;
                assert(s.dm(kk).contains(m));
                assert(pending(s, kk@, m));
                assert(k.rms.contains((kk@, m)));
            }
            if cov(k, m, a, e) {
                let c0 = choose|c0: SMap<A, u64>| #[trigger] k.rms.contains((c0, m)) && cnt(c0, a) >= e;
                assert(!vle(c0, s.cl())) by { if vle(c0, s.cl()) { assert(cnt(c0, a) <= cnt(s.cl(), a)); } }
                assert(pending(s, c0, m));
                let kk = choose|kk: VClock<A>| kk@ == c0 && #[trigger] s.dm(kk).contains(m);
                assert(s.defs().contains_key(kk) && s.defs()[kk]@.contains(m));
            }
        }
        // and never a dot the old clock covers and the entry still shows
        assert forall|m: M, a: A| #![trigger cnt(s.ec(m), a)] cnt(s.ec(m), a) > 0 implies !covered_by(s.defs(), m, a, cnt(s.ec(m), a)) by {
            if covered_by(s.defs(), m, a, cnt(s.ec(m), a)) {
                let kk = choose|kk: VClock<A>| #[trigger] s.defs().contains_key(kk) && s.defs()[kk]@.contains(m) && cnt(kk@, a) >= cnt(s.ec(m), a);
                assert(s.dm(kk).contains(m));
                assert(pending(s, kk@, m));
                assert(k.rms.contains((kk@, m)));
                assert(cov(k, m, a, cnt(s.ec(m), a)));
            }
        }
        assert forall|m: M, a: A| #![trigger cnt(s2.ec(m), a)] (cnt(s2.ec(m), a) > 0 ==> k2.adds.contains((a, cnt(s2.ec(m), a), m)) && !cov(k2, m, a, cnt(s2.ec(m), a))) by {
            let e = if ms.contains(m) { vapp(s.ec(m), a0, n0) } else { s.ec(m) };
            assert(cnt(s2.ec(m), a) == (if covered_by(s.defs(), m, a, cnt(e, a)) { 0 } else { cnt(e, a) }));
            if cnt(s2.ec(m), a) > 0 {
                if ms.contains(m) && a == a0 {
                    lo_entry_below_clock(s, k, m, a0);
                    assert(cnt(e, a) == n0);
                    assert(k2.adds.contains((a0, n0, m)));
                } else {
                    assert(cnt(e, a) == cnt(s.ec(m), a));
                }
            }
        }
        assert forall|m: M, a: A, n: u64| #[trigger] k2.adds.contains((a, n, m)) implies (if cnt(s2.ec(m), a) > 0 { n <= cnt(s2.ec(m), a) } else { cov(k2, m, a, n) }) by {
            let e = if ms.contains(m) { vapp(s.ec(m), a0, n0) } else { s.ec(m) };
            assert(cnt(s2.ec(m), a) == (if covered_by(s.defs(), m, a, cnt(e, a)) { 0 } else { cnt(e, a) }));
            lo_entry_below_clock(s, k, m, a);
            if ms.contains(m) && a == a0 {
                assert(cnt(e, a) == n0);
                if k.adds.contains((a, n, m)) { assert(k.dots.contains((a, n))); assert(n <= cnt(s.cl(), a)); }
                if cnt(s2.ec(m), a) == 0 {
                    // the new dot is covered by a pending remove, whose context then covers every smaller dot
                    assert(cov(k, m, a, n0));
                    let c0 = choose|c0: SMap<A, u64>| #[trigger] k.rms.contains((c0, m)) && cnt(c0, a) >= n0;
                    assert(k2.rms.contains((c0, m)) && cnt(c0, a) >= n);
                }
            } else {
                assert(k.adds.contains((a, n, m)));
                assert(cnt(e, a) == cnt(s.ec(m), a));
            }
        }
        assert forall|a: A| #![trigger cnt(s2.cl(), a)] (cnt(s2.cl(), a) > 0 ==> k2.dots.contains((a, cnt(s2.cl(), a)))) by { if a != a0 { assert(cnt(s2.cl(), a) == cnt(s.cl(), a)); } }
        assert forall|a: A, n: u64| #[trigger] k2.dots.contains((a, n)) implies n <= cnt(s2.cl(), a) by { if a != a0 { assert(cnt(s2.cl(), a) == cnt(s.cl(), a)); } if k.dots.contains((a, n)) { assert(n <= cnt(s.cl(), a)); } }
        assert forall|c1: SMap<A, u64>| vle(c1, s.cl()) implies vle(c1, s2.cl()) by {
            assert forall|a: A| cnt(c1, a) <= cnt(s2.cl(), a) by { assert(cnt(c1, a) <= cnt(s.cl(), a)); if a != a0 { assert(cnt(s2.cl(), a) == cnt(s.cl(), a)); } }
        }
        assert forall|c1: SMap<A, u64>| #[trigger] pending_key(s2, c1) <==> k2.rmc.contains(c1) && !vle(c1, s2.cl()) by {
            if pending_key(s2, c1) { let cc = choose|cc: VClock<A>| cc@ == c1 && #[trigger] s2.defs().contains_key(cc); assert(s.defs().contains_key(cc)); assert(pending_key(s, c1)); }
            if k2.rmc.contains(c1) && !vle(c1, s2.cl()) { assert(pending_key(s, c1)); let cc = choose|cc: VClock<A>| cc@ == c1 && #[trigger] s.defs().contains_key(cc); assert(s2.defs().contains_key(cc)); }
        }
        assert forall|c1: SMap<A, u64>, m: M| #[trigger] pending(s2, c1, m) <==> k2.rms.contains((c1, m)) && !vle(c1, s2.cl()) by {
            if pending(s2, c1, m) { let cc = choose|cc: VClock<A>| cc@ == c1 && #[trigger] s2.dm(cc).contains(m); assert(s2.defs().contains_key(cc)); assert(s.defs().contains_key(cc)); assert(s2.defs()[cc]@ == s.defs()[cc]@); assert(s.dm(cc).contains(m)); assert(pending(s, c1, m)); }
            if k2.rms.contains((c1, m)) && !vle(c1, s2.cl()) { assert(pending(s, c1, m)); let cc = choose|cc: VClock<A>| cc@ == c1 && #[trigger] s.dm(cc).contains(m); assert(s.defs().contains_key(cc)); assert(s2.defs().contains_key(cc)); assert(s2.defs()[cc]@ == s.defs()[cc]@); assert(s2.dm(cc).contains(m)); }
        }
    }
}

/// what merge computes for member m and actor a (the F-contract merge_post): the riak rule, then the pending removes of both sides
pub open spec fn merged_at<M: Hash + Eq, A: Ord + Hash>(s1: Orswot<M, A>, s2: Orswot<M, A>, m: M, a: A) -> u64 {
    let x = mrg(cnt(s1.ec(m), a), cnt(s2.ec(m), a), cnt(s1.cl(), a), cnt(s2.cl(), a));
    if covered_by(s1.defs(), m, a, x) || covered_by(s2.defs(), m, a, x) { 0 } else { x }
}

/// a pending remove of the replica covering (m, a, e) is a learned remove doing so
proof fn lo_covered_is_learned<M: Hash + Eq, A: Ord + Hash>(s: Orswot<M, A>, k: Know<M, A>, m: M, a: A, e: u64)
    requires repr(s, k), covered_by(s.defs(), m, a, e),
    ensures cov(k, m, a, e),
{
    let kk = choose|kk: VClock<A>| #[trigger] s.defs().contains_key(kk) && s.defs()[kk]@.contains(m) && cnt(kk@, a) >= e;
    assert(s.dm(kk).contains(m));
    assert(pending(s, kk@, m));
    assert(k.rms.contains((kk@, m)));
}
/// a learned remove covering a dot above the replica clock is pending at the replica
proof fn lo_learned_above_clock_is_pending<M: Hash + Eq, A: Ord + Hash>(s: Orswot<M, A>, k: Know<M, A>, m: M, a: A, e: u64, c0: SMap<A, u64>)
    requires repr(s, k), k.rms.contains((c0, m)), cnt(c0, a) >= e, !vle(c0, s.cl()),
    ensures covered_by(s.defs(), m, a, e),
{
    assert(pending(s, c0, m));
    let kk = choose|kk: VClock<A>| kk@ == c0 && #[trigger] s.dm(kk).contains(m);
    assert(s.defs().contains_key(kk) && s.defs()[kk]@.contains(m));
}

/// the riak merge rule, point by point: under the denotations of both sides, the merged witness of (m, a) is the
/// witness the union of the two knowledge sets denotes
proof fn lo_merge_point<M: Hash + Eq, A: Ord + Hash>(s1: Orswot<M, A>, k1: Know<M, A>, s2: Orswot<M, A>, k2: Know<M, A>, m: M, a: A)
    requires repr(s1, k1), repr(s2, k2), compat(k1, s1.cl(), k2, s2.cl()),
    ensures ({
        let ku = k_union(k1, k2);
        let r = merged_at(s1, s2, m, a);
        &&& (r > 0 ==> ku.adds.contains((a, r, m)) && !cov(ku, m, a, r))
        &&& forall|n: u64| #[trigger] ku.adds.contains((a, n, m)) ==> (if r > 0 { n <= r } else { cov(ku, m, a, n) })
    }),
{
    let ku = k_union(k1, k2);
    let e1 = cnt(s1.ec(m), a); let e2 = cnt(s2.ec(m), a); let c1 = cnt(s1.cl(), a); let c2 = cnt(s2.cl(), a);
    let x = mrg(e1, e2, c1, c2);
    let r = merged_at(s1, s2, m, a);
    lo_entry_below_clock(s1, k1, m, a);
    lo_entry_below_clock(s2, k2, m, a);
    assert(x == e1 || x == e2 || x == 0);
    // cov is monotone in the knowledge set and downward closed in the dot
    assert forall|n: u64| cov(k1, m, a, n) implies cov(ku, m, a, n) by { let c0 = choose|c0: SMap<A, u64>| #[trigger] k1.rms.contains((c0, m)) && cnt(c0, a) >= n; assert(ku.rms.contains((c0, m))); }
    assert forall|n: u64| cov(k2, m, a, n) implies cov(ku, m, a, n) by { let c0 = choose|c0: SMap<A, u64>| #[trigger] k2.rms.contains((c0, m)) && cnt(c0, a) >= n; assert(ku.rms.contains((c0, m))); }
    assert forall|n: u64, n2: u64| n <= n2 && cov(ku, m, a, n2) implies cov(ku, m, a, n) by { let c0 = choose|c0: SMap<A, u64>| #[trigger] ku.rms.contains((c0, m)) && cnt(c0, a) >= n2; assert(ku.rms.contains((c0, m)) && cnt(c0, a) >= n); }
    // each side's top dot known to the other side's clock is known to the other side
    if e1 > 0 && e1 <= c2 { assert(k1.adds.contains((a, e1, m))); assert(k2.adds.contains((a, e1, m))); }
    if e2 > 0 && e2 <= c1 { assert(k2.adds.contains((a, e2, m))); assert(k1.adds.contains((a, e2, m))); }
    // N: every learned add of (a, m) is at most x, when x > 0
    if x > 0 {
        assert forall|n: u64| #[trigger] ku.adds.contains((a, n, m)) implies n <= x by {
            if k1.adds.contains((a, n, m)) {
                assert(k1.dots.contains((a, n)));
                if e1 > 0 { assert(n <= e1); } else { assert(n <= c1); }
            } else {
                assert(k2.adds.contains((a, n, m)));
                assert(k2.dots.contains((a, n)));
                if e2 > 0 { assert(n <= e2); } else { assert(n <= c2); }
            }
        }
    }
    if r > 0 {
        assert(r == x);
        assert(ku.adds.contains((a, r, m))) by { if x == e1 { assert(k1.adds.contains((a, e1, m))); } else { assert(k2.adds.contains((a, e2, m))); } }
        if cov(ku, m, a, r) {
            let c0 = choose|c0: SMap<A, u64>| #[trigger] ku.rms.contains((c0, m)) && cnt(c0, a) >= r;
            if k1.rms.contains((c0, m)) {
                if !vle(c0, s1.cl()) { lo_learned_above_clock_is_pending(s1, k1, m, a, r, c0); }
                else { assert(cnt(c0, a) <= c1); assert(cov(k1, m, a, r)); if x == e1 { } else { assert(k1.adds.contains((a, e2, m))); } }
            } else {
                assert(k2.rms.contains((c0, m)));
                if !vle(c0, s2.cl()) { lo_learned_above_clock_is_pending(s2, k2, m, a, r, c0); }
                else { assert(cnt(c0, a) <= c2); assert(cov(k2, m, a, r)); if x == e2 { } else { assert(k2.adds.contains((a, e1, m))); } }
            }
            assert(false);
        }
    } else if x > 0 {
        // covered by a pending remove of one side, which then covers every learned add of (a, m)
        if covered_by(s1.defs(), m, a, x) { lo_covered_is_learned(s1, k1, m, a, x); } else { lo_covered_is_learned(s2, k2, m, a, x); }
        assert(cov(ku, m, a, x));
    } else {
        assert forall|n: u64| #[trigger] ku.adds.contains((a, n, m)) implies cov(ku, m, a, n) by {
            if k1.adds.contains((a, n, m)) {
                if e1 == 0 { assert(cov(k1, m, a, n)); }
                else { assert(n <= e1); assert(e2 == 0); assert(k2.adds.contains((a, e1, m))); assert(cov(k2, m, a, e1)); assert(cov(ku, m, a, e1)); }
            } else {
                assert(k2.adds.contains((a, n, m)));
                if e2 == 0 { assert(cov(k2, m, a, n)); }
                else { assert(n <= e2); assert(e1 == 0); assert(k1.adds.contains((a, e2, m))); assert(cov(k1, m, a, e2)); assert(cov(ku, m, a, e2)); }
            }
        }
    }
}

/// L.merge: merging two replicas gives the denotation of the union of what they know -- pending removes included
pub proof fn lo_merge<M: Hash + Eq, A: Ord + Hash>(s1: Orswot<M, A>, k1: Know<M, A>, s2: Orswot<M, A>, k2: Know<M, A>, s3: Orswot<M, A>)
    requires actor_ok::<A>(), repr(s1, k1), repr(s2, k2), compat(k1, s1.cl(), k2, s2.cl()), s3.wf(), merge_post(s1, s2, s3),
    ensures repr(s3, k_union(k1, k2)),
{
    let ku = k_union(k1, k2);
    assert(k_ok(ku));
    assert forall|a: A| #![trigger cnt(s3.cl(), a)] (cnt(s3.cl(), a) > 0 ==> ku.dots.contains((a, cnt(s3.cl(), a)))) by {
        assert(cnt(s3.cl(), a) == max64(cnt(s1.cl(), a), cnt(s2.cl(), a)));
    }
    assert forall|a: A, n: u64| #[trigger] ku.dots.contains((a, n)) implies n <= cnt(s3.cl(), a) by {
        assert(cnt(s3.cl(), a) == max64(cnt(s1.cl(), a), cnt(s2.cl(), a)));
        if k1.dots.contains((a, n)) { assert(n <= cnt(s1.cl(), a)); } else { assert(k2.dots.contains((a, n))); assert(n <= cnt(s2.cl(), a)); }
    }
    assert forall|m: M, a: A| #![trigger cnt(s3.ec(m), a)] (cnt(s3.ec(m), a) > 0 ==> ku.adds.contains((a, cnt(s3.ec(m), a), m)) && !cov(ku, m, a, cnt(s3.ec(m), a))) by {
        lo_merge_point(s1, k1, s2, k2, m, a);
        assert(cnt(s3.ec(m), a) == merged_at(s1, s2, m, a));
    }
    assert forall|m: M, a: A, n: u64| #[trigger] ku.adds.contains((a, n, m)) implies (if cnt(s3.ec(m), a) > 0 { n <= cnt(s3.ec(m), a) } else { cov(ku, m, a, n) }) by {
        lo_merge_point(s1, k1, s2, k2, m, a);
        assert(cnt(s3.ec(m), a) == merged_at(s1, s2, m, a));
    }
    assert forall|c1: SMap<A, u64>| (vle(c1, s1.cl()) || vle(c1, s2.cl())) implies vle(c1, s3.cl()) by {
        assert forall|a: A| cnt(c1, a) <= cnt(s3.cl(), a) by { assert(cnt(s3.cl(), a) == max64(cnt(s1.cl(), a), cnt(s2.cl(), a))); if vle(c1, s1.cl()) { assert(cnt(c1, a) <= cnt(s1.cl(), a)); } else { assert(cnt(c1, a) <= cnt(s2.cl(), a)); } }
    }
    assert forall|c1: SMap<A, u64>| #[trigger] pending_key(s3, c1) <==> ku.rmc.contains(c1) && !vle(c1, s3.cl()) by {
        if pending_key(s3, c1) {
            let cc = choose|cc: VClock<A>| cc@ == c1 && #[trigger] s3.defs().contains_key(cc);
            if s1.defs().contains_key(cc) { assert(pending_key(s1, c1)); } else { assert(s2.defs().contains_key(cc)); assert(pending_key(s2, c1)); }
        }
        if ku.rmc.contains(c1) && !vle(c1, s3.cl()) {
            if k1.rmc.contains(c1) { assert(pending_key(s1, c1)); let cc = choose|cc: VClock<A>| cc@ == c1 && #[trigger] s1.defs().contains_key(cc); assert(s3.defs().contains_key(cc)); }
            else { assert(k2.rmc.contains(c1)); assert(pending_key(s2, c1)); let cc = choose|cc: VClock<A>| cc@ == c1 && #[trigger] s2.defs().contains_key(cc); assert(s3.defs().contains_key(cc)); }
        }
    }
    assert forall|c1: SMap<A, u64>, m: M| #[trigger] pending(s3, c1, m) <==> ku.rms.contains((c1, m)) && !vle(c1, s3.cl()) by {
        if pending(s3, c1, m) {
            let cc = choose|cc: VClock<A>| cc@ == c1 && #[trigger] s3.dm(cc).contains(m);
            assert(s3.defs().contains_key(cc));
            assert(s3.defs()[cc]@ == s1.dm(cc).union(s2.dm(cc)));
            if s1.dm(cc).contains(m) { assert(pending(s1, c1, m)); } else { assert(s2.dm(cc).contains(m)); assert(pending(s2, c1, m)); }
        }
        if ku.rms.contains((c1, m)) && !vle(c1, s3.cl()) {
            if k1.rms.contains((c1, m)) {
                assert(pending(s1, c1, m));
                let cc = choose|cc: VClock<A>| cc@ == c1 && #[trigger] s1.dm(cc).contains(m);
                assert(s1.defs().contains_key(cc)); assert(s3.defs().contains_key(cc)); assert(s3.defs()[cc]@ == s1.dm(cc).union(s2.dm(cc))); assert(s3.dm(cc).contains(m));
            } else {
                assert(k2.rms.contains((c1, m)));
                assert(pending(s2, c1, m));
                let cc = choose|cc: VClock<A>| cc@ == c1 && #[trigger] s2.dm(cc).contains(m);
                assert(s2.defs().contains_key(cc)); assert(s3.defs().contains_key(cc)); assert(s3.defs()[cc]@ == s1.dm(cc).union(s2.dm(cc))); assert(s3.dm(cc).contains(m));
            }
        }
    }
}

/// L.unique: the denotation determines the state -- clock, every member's witnesses (hence membership and every read
/// context), and the pending removes
pub proof fn lo_unique<M: Hash + Eq, A: Ord + Hash>(s: Orswot<M, A>, t: Orswot<M, A>, k: Know<M, A>)
    requires actor_ok::<A>(), repr(s, k), repr(t, k),
    ensures s.cl() == t.cl(), forall|m: M| #[trigger] s.ec(m) == t.ec(m), s.ents() == t.ents(),
        forall|cc: VClock<A>| #[trigger] s.defs().contains_key(cc) == t.defs().contains_key(cc),
        forall|cc: VClock<A>| #[trigger] s.dm(cc) == t.dm(cc),
{
    assert forall|a: A| cnt(s.cl(), a) == cnt(t.cl(), a) by {
        if cnt(s.cl(), a) > 0 { assert(k.dots.contains((a, cnt(s.cl(), a)))); }
        if cnt(t.cl(), a) > 0 { assert(k.dots.contains((a, cnt(t.cl(), a)))); }
    }
    lemma_cnt_ext(s.cl(), t.cl());
    assert forall|m: M| #[trigger] s.ec(m) == t.ec(m) by {
        assert forall|a: A| cnt(s.ec(m), a) == cnt(t.ec(m), a) by {
            let e = cnt(s.ec(m), a); let f = cnt(t.ec(m), a);
            if e > 0 { assert(k.adds.contains((a, e, m)) && !cov(k, m, a, e)); }
            if f > 0 { assert(k.adds.contains((a, f, m)) && !cov(k, m, a, f)); }
        }
        lemma_cnt_ext(s.ec(m), t.ec(m));
    }
    assert forall|m: M| s.ents().contains_key(m) == t.ents().contains_key(m) by { assert(s.ec(m) == t.ec(m)); }
    assert forall|m: M| s.ents().contains_key(m) implies s.ents()[m] == t.ents()[m] by { assert(s.ec(m) == t.ec(m)); axiom_vclock_key_eq::<A>(s.ents()[m], t.ents()[m]); }
    assert(s.ents() =~= t.ents());
    assert forall|cc: VClock<A>| #[trigger] s.defs().contains_key(cc) == t.defs().contains_key(cc) by {
        if s.defs().contains_key(cc) { assert(pending_key(s, cc@)); assert(pending_key(t, cc@)); let c2 = choose|c2: VClock<A>| c2@ == cc@ && #[trigger] t.defs().contains_key(c2); axiom_vclock_key_eq::<A>(c2, cc); }
        if t.defs().contains_key(cc) { assert(pending_key(t, cc@)); assert(pending_key(s, cc@)); let c2 = choose|c2: VClock<A>| c2@ == cc@ && #[trigger] s.defs().contains_key(c2); axiom_vclock_key_eq::<A>(c2, cc); }
    }
    assert forall|cc: VClock<A>| #[trigger] s.dm(cc) == t.dm(cc) by {
        assert forall|m: M| s.dm(cc).contains(m) == t.dm(cc).contains(m) by {
            if s.dm(cc).contains(m) { assert(pending(s, cc@, m)); assert(pending(t, cc@, m)); let c2 = choose|c2: VClock<A>| c2@ == cc@ && #[trigger] t.dm(c2).contains(m); axiom_vclock_key_eq::<A>(c2, cc); }
            if t.dm(cc).contains(m) { assert(pending(t, cc@, m)); assert(pending(s, cc@, m)); let c2 = choose|c2: VClock<A>| c2@ == cc@ && #[trigger] s.dm(c2).contains(m); axiom_vclock_key_eq::<A>(c2, cc); }
        }
        assert(s.dm(cc) =~= t.dm(cc));
    }
}

// ---------------------------------------------------------------------------------------------------------------
// what the denotation means for the properties

/// C04: a member is present iff some learned add of it has not been observed by a learned remove of it
pub proof fn c04_present_iff<M: Hash + Eq, A: Ord + Hash>(s: Orswot<M, A>, k: Know<M, A>, m: M)
    requires repr(s, k),
    ensures s.ents().contains_key(m) <==> exists|a: A, n: u64| #[trigger] k.adds.contains((a, n, m)) && !cov(k, m, a, n),
{
    if s.ents().contains_key(m) {
        let c = s.ents()[m]@;
        assert(c != SMap::<A, u64>::empty());
        assert(exists|a: A| c.contains_key(a)) by { if forall|a: A| !c.contains_key(a) { assert(c =~= SMap::<A, u64>::empty()); } }
        let a = choose|a: A| c.contains_key(a);
        assert(cnt(s.ec(m), a) > 0);
        assert(k.adds.contains((a, cnt(s.ec(m), a), m)) && !cov(k, m, a, cnt(s.ec(m), a)));
    }
    if exists|a: A, n: u64| #[trigger] k.adds.contains((a, n, m)) && !cov(k, m, a, n) {
        let (a, n) = choose|a: A, n: u64| #[trigger] k.adds.contains((a, n, m)) && !cov(k, m, a, n);
        assert(cnt(s.ec(m), a) > 0);
    }
}

/// C02 (join laws on knowledge): union of knowledge sets is commutative, associative and idempotent
pub proof fn c02_union_laws<M, A>(x: Know<M, A>, y: Know<M, A>, z: Know<M, A>)
    ensures k_union(x, y) == k_union(y, x), k_union(k_union(x, y), z) == k_union(x, k_union(y, z)), k_union(x, x) == x,
{
    assert(x.dots.union(y.dots) =~= y.dots.union(x.dots)); assert(x.adds.union(y.adds) =~= y.adds.union(x.adds));
    assert(x.rmc.union(y.rmc) =~= y.rmc.union(x.rmc)); assert(x.rms.union(y.rms) =~= y.rms.union(x.rms));
    assert(x.dots.union(y.dots).union(z.dots) =~= x.dots.union(y.dots.union(z.dots))); assert(x.adds.union(y.adds).union(z.adds) =~= x.adds.union(y.adds.union(z.adds)));
    assert(x.rmc.union(y.rmc).union(z.rmc) =~= x.rmc.union(y.rmc.union(z.rmc))); assert(x.rms.union(y.rms).union(z.rms) =~= x.rms.union(y.rms.union(z.rms)));
    assert(x.dots.union(x.dots) =~= x.dots); assert(x.adds.union(x.adds) =~= x.adds); assert(x.rmc.union(x.rmc) =~= x.rmc); assert(x.rms.union(x.rms) =~= x.rms);
}

/// C02 (grouping): pairwise compatible knowledge sets stay compatible when two of them are merged first
pub proof fn c02_compat_union<M, A>(k1: Know<M, A>, c1: SMap<A, u64>, k2: Know<M, A>, c2: SMap<A, u64>, k3: Know<M, A>, c3: SMap<A, u64>, c12: SMap<A, u64>)
    requires compat(k1, c1, k2, c2), compat(k1, c1, k3, c3), compat(k2, c2, k3, c3), is_join(c12, c1, c2),
    ensures compat(k_union(k1, k2), c12, k3, c3),
{
    let ku = k_union(k1, k2);
    assert forall|a: A, n: u64, m: M| #[trigger] k3.adds.contains((a, n, m)) && n <= cnt(c12, a) implies ku.adds.contains((a, n, m)) by {
        assert(cnt(c12, a) == max64(cnt(c1, a), cnt(c2, a)));
        if n <= cnt(c1, a) { assert(k1.adds.contains((a, n, m))); } else { assert(k2.adds.contains((a, n, m))); }
    }
    assert forall|a: A, n: u64| #[trigger] k3.dots.contains((a, n)) && n <= cnt(c12, a) implies ku.dots.contains((a, n)) by {
        assert(cnt(c12, a) == max64(cnt(c1, a), cnt(c2, a)));
        if n <= cnt(c1, a) { assert(k1.dots.contains((a, n))); } else { assert(k2.dots.contains((a, n))); }
    }
}

/// C02 / C03 / C09 in one statement: whatever the order, grouping and repetition of merges, op deliveries (in
/// per-actor order) and re-deliveries by which two replicas came to know the same adds and removes, they have the same
/// clock, the same members with the same witnesses, and the same pending removes.  (lo_new, lo_apply_add, lo_apply_rm
/// and lo_merge show that every such history keeps `repr`; this lemma is lo_unique.)
pub proof fn c01_same_knowledge_same_state<M: Hash + Eq, A: Ord + Hash>(s: Orswot<M, A>, t: Orswot<M, A>, k: Know<M, A>)
    requires actor_ok::<A>(), repr(s, k), repr(t, k),
    ensures s.cl() == t.cl(), s.ents() == t.ents(), forall|cc: VClock<A>| #[trigger] s.dm(cc) == t.dm(cc), forall|cc: VClock<A>| #[trigger] s.defs().contains_key(cc) == t.defs().contains_key(cc),
{
    lo_unique(s, t, k);
}

/// C09 (stale state): merging a state whose knowledge the replica already has changes nothing
pub proof fn c09_stale_merge<M: Hash + Eq, A: Ord + Hash>(s1: Orswot<M, A>, k1: Know<M, A>, s2: Orswot<M, A>, k2: Know<M, A>, s3: Orswot<M, A>)
    requires actor_ok::<A>(), repr(s1, k1), repr(s2, k2), compat(k1, s1.cl(), k2, s2.cl()), s3.wf(), merge_post(s1, s2, s3),
        k2.dots.subset_of(k1.dots), k2.adds.subset_of(k1.adds), k2.rmc.subset_of(k1.rmc), k2.rms.subset_of(k1.rms),
    ensures s3.cl() == s1.cl(), s3.ents() == s1.ents(), forall|cc: VClock<A>| #[trigger] s3.dm(cc) == s1.dm(cc),
{
    lo_merge(s1, k1, s2, k2, s3);
    let ku = k_union(k1, k2);
    assert(ku.dots =~= k1.dots); assert(ku.adds =~= k1.adds); assert(ku.rmc =~= k1.rmc); assert(ku.rms =~= k1.rms);
    lo_unique(s3, s1, k1);
}

/// C09 (no resurrection): once a learned remove has observed an add, no later knowledge brings the member back through
/// that add -- coverage only grows with knowledge
pub proof fn c09_cov_monotone<M, A>(k: Know<M, A>, k2: Know<M, A>, m: M, a: A, n: u64)
    requires cov(k, m, a, n), k.rms.subset_of(k2.rms),
    ensures cov(k2, m, a, n),
{
    let c0 = choose|c0: SMap<A, u64>| #[trigger] k.rms.contains((c0, m)) && cnt(c0, a) >= n;
    assert(k2.rms.contains((c0, m)));
}

/// C20 (no tombstones): a remove whose context the replica clock covers is not pending, an absent member has no
/// entry, and no stored witness clock is empty
pub proof fn c20_no_residue<M: Hash + Eq, A: Ord + Hash>(s: Orswot<M, A>, k: Know<M, A>, cc: VClock<A>, m: M)
    requires repr(s, k),
    ensures vle(cc@, s.cl()) ==> !s.defs().contains_key(cc),
        s.ents().contains_key(m) ==> s.ents()[m]@ != SMap::<A, u64>::empty(),
{
    if s.defs().contains_key(cc) { assert(pending_key(s, cc@)); }
}

/// a member's witness never exceeds the replica clock
pub proof fn lo_entry_below_clock<M: Hash + Eq, A: Ord + Hash>(s: Orswot<M, A>, k: Know<M, A>, m: M, a: A)
    requires repr(s, k),
    ensures cnt(s.ec(m), a) <= cnt(s.cl(), a),
{
    if cnt(s.ec(m), a) > 0 { assert(k.adds.contains((a, cnt(s.ec(m), a), m))); assert(k.dots.contains((a, cnt(s.ec(m), a)))); }
}

/// clocks are compared by content (what derive(PartialEq) on VClock over a BTreeMap gives; the crate-level assumption
/// axiom_vclock_key of 12_orswot.rs, restated pointwise)
pub proof fn axiom_vclock_key_eq<A: Ord + Hash>(x: VClock<A>, y: VClock<A>)
    requires actor_ok::<A>(),
    ensures x@ == y@ ==> x == y,
{
    axiom_vclock_key::<A>();
}

} // verus!
}
