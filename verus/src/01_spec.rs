// Specification vocabulary (DESIGN §4).  Written from the property statements, not from the code.
pub mod spec {
use vstd::prelude::*;
use vstd::map::Map as SMap;
use vstd::std_specs::btree::key_obeys_cmp_spec;
use core::cmp::Ordering;
use vstd::std_specs::cmp::{PartialEqSpec, PartialOrdSpec, OrdSpec};
verus! {

/// Usage hypothesis on an actor / key type parameter: `Ord` is a lawful total order (what
/// BTreeMap documents as required), and `Clone` returns an equal value.
pub open spec fn actor_ok<A: Ord>() -> bool {
    // vstd states some BTreeMap specs under `key_obeys_cmp_spec`, others under `laws_cmp::obeys_cmp`
    &&& key_obeys_cmp_spec::<A>()
    &&& vstd::laws_cmp::obeys_cmp::<A>()
}
pub open spec fn clone_ok<A: Clone>() -> bool {
    forall|a: A, b: A| #[trigger] cloned(a, b) ==> a == b
}

/// A clock is a total function actor -> nat; missing actors count as 0.
pub open spec fn cnt<A>(m: SMap<A, u64>, a: A) -> u64 {
    if m.contains_key(a) { m[a] } else { 0 }
}

/// "No API call stores a zero counter."
pub open spec fn nz<A>(m: SMap<A, u64>) -> bool {
    forall|a: A| m.contains_key(a) ==> #[trigger] m[a] > 0
}

/// Pointwise order.
pub open spec fn vle<A>(x: SMap<A, u64>, y: SMap<A, u64>) -> bool {
    forall|a: A| #![trigger cnt(x, a)] #![trigger cnt(y, a)] cnt(x, a) <= cnt(y, a)
}

/// The four-valued comparison the property statement defines: exactly the pointwise order.
pub open spec fn pcmp<A>(x: SMap<A, u64>, y: SMap<A, u64>) -> Option<Ordering> {
    if vle(x, y) && vle(y, x) { Some(Ordering::Equal) }
    else if vle(y, x) { Some(Ordering::Greater) }
    else if vle(x, y) { Some(Ordering::Less) }
    else { None }
}

pub open spec fn max64(a: u64, b: u64) -> u64 { if a >= b { a } else { b } }
pub open spec fn min64(a: u64, b: u64) -> u64 { if a <= b { a } else { b } }

/// z is the pointwise maximum (join / least upper bound) of x and y.
pub open spec fn is_join<A>(z: SMap<A, u64>, x: SMap<A, u64>, y: SMap<A, u64>) -> bool {
    forall|a: A| #[trigger] cnt(z, a) == max64(cnt(x, a), cnt(y, a))
}
/// z is the pointwise minimum (meet / greatest lower bound).
pub open spec fn is_meet<A>(z: SMap<A, u64>, x: SMap<A, u64>, y: SMap<A, u64>) -> bool {
    forall|a: A| #[trigger] cnt(z, a) == min64(cnt(x, a), cnt(y, a))
}
/// reset_remove / "forget": keep exactly the entries strictly newer than c.
pub open spec fn vsub<A>(x: SMap<A, u64>, c: SMap<A, u64>) -> SMap<A, u64> {
    x.restrict(x.dom().filter(|a: A| x[a] > cnt(c, a)))
}
/// intersection: keep exactly the entries that are equal on both sides.
pub open spec fn vinter<A>(l: SMap<A, u64>, r: SMap<A, u64>) -> SMap<A, u64> {
    l.restrict(l.dom().filter(|a: A| cnt(r, a) == l[a]))
}
/// learn dot (a, n): insert iff strictly newer
pub open spec fn vapp<A>(x: SMap<A, u64>, a: A, n: u64) -> SMap<A, u64> { if cnt(x, a) < n { x.insert(a, n) } else { x } }
/// clock c covers dot (a, n)
pub open spec fn covers<A>(c: SMap<A, u64>, a: A, n: u64) -> bool { cnt(c, a) >= n }

/// Two nz clocks with the same counts are the same map (extensionality through cnt).
pub proof fn lemma_cnt_ext<A>(x: SMap<A, u64>, y: SMap<A, u64>)
    requires nz(x), nz(y), forall|a: A| cnt(x, a) == cnt(y, a),
    ensures x == y,
{
    assert forall|a: A| #![trigger x.contains_key(a)] #![trigger y.contains_key(a)] x.contains_key(a) == y.contains_key(a) && (x.contains_key(a) ==> x[a] == y[a]) by {
        assert(cnt(x, a) == cnt(y, a));
        if x.contains_key(a) { assert(x[a] > 0); }
        if y.contains_key(a) { assert(y[a] > 0); }
        if x.contains_key(a) && !y.contains_key(a) { assert(cnt(y, a) == 0); assert(false); }
        if y.contains_key(a) && !x.contains_key(a) { assert(cnt(x, a) == 0); assert(false); }
    }
    assert(x =~= y);
}


// ---- total orders on value / marker type parameters ------------------------------------------
/// Usage hypothesis on a value / marker type: Ord, PartialOrd, PartialEq are lawful and agree.
pub open spec fn ord_ok<V: Ord>() -> bool { vstd::laws_cmp::obeys_cmp::<V>() }

pub open spec fn lt<V: Ord>(a: V, b: V) -> bool { a.cmp_spec(&b) == Ordering::Less }
pub open spec fn gt<V: Ord>(a: V, b: V) -> bool { a.cmp_spec(&b) == Ordering::Greater }
pub open spec fn eqv<V: Ord>(a: V, b: V) -> bool { a.cmp_spec(&b) == Ordering::Equal }
pub open spec fn le<V: Ord>(a: V, b: V) -> bool { a.cmp_spec(&b) != Ordering::Greater }

/// What vstd's (opaque) `obeys_cmp` gives: the exec operators compute `cmp_spec`, which is a
/// total preorder whose equivalence is `eq_spec`.
pub proof fn lemma_ord_ok<V: Ord>()
    requires ord_ok::<V>(),
    ensures
        V::obeys_eq_spec(), V::obeys_partial_cmp_spec(), V::obeys_cmp_spec(),
        forall|x: V, y: V| #![trigger x.partial_cmp_spec(&y)] #![trigger x.cmp_spec(&y)] x.partial_cmp_spec(&y) == Some(x.cmp_spec(&y)),
        forall|x: V, y: V| #![trigger x.eq_spec(&y)] #![trigger x.cmp_spec(&y)] x.eq_spec(&y) <==> x.cmp_spec(&y) == Ordering::Equal,
        forall|x: V, y: V| #![trigger x.cmp_spec(&y)] (x.cmp_spec(&y) == Ordering::Less) <==> (y.cmp_spec(&x) == Ordering::Greater),
        forall|x: V, y: V| #![trigger x.cmp_spec(&y)] (x.cmp_spec(&y) == Ordering::Equal) <==> (y.cmp_spec(&x) == Ordering::Equal),
        forall|x: V| #![trigger x.cmp_spec(&x)] x.cmp_spec(&x) == Ordering::Equal || !x.eq_spec(&x),
        forall|x: V, y: V, z: V| #![trigger x.cmp_spec(&y), y.cmp_spec(&z)] lt(x, y) && lt(y, z) ==> lt(x, z),
        forall|x: V, y: V, z: V| #![trigger x.cmp_spec(&y), y.cmp_spec(&z)] gt(x, y) && gt(y, z) ==> gt(x, z),
        forall|x: V, y: V, z: V| #![trigger x.cmp_spec(&y), y.cmp_spec(&z)] eqv(x, y) && eqv(y, z) ==> eqv(x, z),
{
    reveal(vstd::laws_cmp::obeys_cmp);
    reveal(vstd::laws_cmp::obeys_cmp_partial_ord);
    reveal(vstd::laws_cmp::obeys_cmp_ord);
    reveal(vstd::laws_cmp::obeys_partial_cmp_spec_properties);
    reveal(vstd::laws_eq::obeys_eq);
    reveal(vstd::laws_eq::obeys_eq_spec_properties);
    assert forall|x: V, y: V| #![trigger x.cmp_spec(&y)] (x.cmp_spec(&y) == Ordering::Less) <==> (y.cmp_spec(&x) == Ordering::Greater) by {
        assert(x.partial_cmp_spec(&y) == Some(x.cmp_spec(&y)));
        assert(y.partial_cmp_spec(&x) == Some(y.cmp_spec(&x)));
    }
    assert forall|x: V, y: V| #![trigger x.cmp_spec(&y)] (x.cmp_spec(&y) == Ordering::Equal) <==> (y.cmp_spec(&x) == Ordering::Equal) by {
        assert(x.partial_cmp_spec(&y) == Some(x.cmp_spec(&y)));
        assert(y.partial_cmp_spec(&x) == Some(y.cmp_spec(&x)));
        assert(x.eq_spec(&y) == y.eq_spec(&x));
    }
    assert forall|x: V, y: V, z: V| #![trigger x.cmp_spec(&y), y.cmp_spec(&z)] lt(x, y) && lt(y, z) implies lt(x, z) by {
        assert(x.partial_cmp_spec(&y) == Some(x.cmp_spec(&y)));
        assert(y.partial_cmp_spec(&z) == Some(y.cmp_spec(&z)));
        assert(x.partial_cmp_spec(&z) == Some(x.cmp_spec(&z)));
    }
    assert forall|x: V, y: V, z: V| #![trigger x.cmp_spec(&y), y.cmp_spec(&z)] gt(x, y) && gt(y, z) implies gt(x, z) by {
        assert(x.partial_cmp_spec(&y) == Some(x.cmp_spec(&y)));
        assert(y.partial_cmp_spec(&z) == Some(y.cmp_spec(&z)));
        assert(x.partial_cmp_spec(&z) == Some(x.cmp_spec(&z)));
    }
    assert forall|x: V, y: V, z: V| #![trigger x.cmp_spec(&y), y.cmp_spec(&z)] eqv(x, y) && eqv(y, z) implies eqv(x, z) by {
        assert(x.partial_cmp_spec(&y) == Some(x.cmp_spec(&y)));
        assert(y.partial_cmp_spec(&z) == Some(y.cmp_spec(&z)));
        assert(x.partial_cmp_spec(&z) == Some(x.cmp_spec(&z)));
        assert(x.eq_spec(&y) && y.eq_spec(&z));
        assert(x.eq_spec(&z));
    }
}

} // verus!
}
pub use crate::spec::*;
