// Layer L for C10: the spec functions the VClock contracts are stated against have the algebraic
// properties the property statement lists.  Pure spec-level lemmas, no code involved.
pub mod lemmas_vclock {
use vstd::prelude::*;
use vstd::map::Map as SMap;
use core::cmp::Ordering;
use crate::spec::*;
use crate::vclock::{pcmp_code, lemma_pcmp_code};
verus! {

pub proof fn c10_order_reflexive<A>(x: SMap<A, u64>)
    ensures vle(x, x), pcmp(x, x) == Some(Ordering::Equal),
{}

pub proof fn c10_order_antisymmetric<A>(x: SMap<A, u64>, y: SMap<A, u64>)
    requires nz(x), nz(y), vle(x, y), vle(y, x),
    ensures x == y,
{
    assert forall|a: A| cnt(x, a) == cnt(y, a) by { assert(cnt(x, a) <= cnt(y, a) && cnt(y, a) <= cnt(x, a)); }
    lemma_cnt_ext(x, y);
}

pub proof fn c10_order_transitive<A>(x: SMap<A, u64>, y: SMap<A, u64>, z: SMap<A, u64>)
    requires vle(x, y), vle(y, z),
    ensures vle(x, z),
{
    assert forall|a: A| cnt(x, a) <= cnt(z, a) by { assert(cnt(x, a) <= cnt(y, a) && cnt(y, a) <= cnt(z, a)); }
}

/// "reports 'concurrent' iff neither side dominates" and the other three verdicts are exact.
pub proof fn c10_cmp_is_pointwise_order<A>(x: SMap<A, u64>, y: SMap<A, u64>)
    requires nz(x), nz(y),
    ensures
        pcmp_code(x, y) == pcmp(x, y),
        pcmp(x, y) is None <==> (!vle(x, y) && !vle(y, x)),
        pcmp(x, y) == Some(Ordering::Equal) <==> x == y,
        pcmp(x, y) == Some(Ordering::Less) <==> (vle(x, y) && x != y),
        pcmp(x, y) == Some(Ordering::Greater) <==> (vle(y, x) && x != y),
{
    lemma_pcmp_code(x, y);
    if vle(x, y) && vle(y, x) { c10_order_antisymmetric(x, y); }
}

pub proof fn c10_cmp_antisymmetric_verdicts<A>(x: SMap<A, u64>, y: SMap<A, u64>)
    ensures
        pcmp(x, y) == Some(Ordering::Less) <==> pcmp(y, x) == Some(Ordering::Greater),
        pcmp(x, y) == Some(Ordering::Equal) <==> pcmp(y, x) == Some(Ordering::Equal),
        pcmp(x, y) is None <==> pcmp(y, x) is None,
{}

/// merge is the least upper bound
pub proof fn c10_join_is_lub<A>(z: SMap<A, u64>, x: SMap<A, u64>, y: SMap<A, u64>, u: SMap<A, u64>)
    requires is_join(z, x, y),
    ensures vle(x, z), vle(y, z), (vle(x, u) && vle(y, u)) ==> vle(z, u),
{
    assert forall|a: A| cnt(x, a) <= cnt(z, a) by { assert(cnt(z, a) == max64(cnt(x, a), cnt(y, a))); }
    assert forall|a: A| cnt(y, a) <= cnt(z, a) by { assert(cnt(z, a) == max64(cnt(x, a), cnt(y, a))); }
    if vle(x, u) && vle(y, u) {
        assert forall|a: A| cnt(z, a) <= cnt(u, a) by {
            assert(cnt(z, a) == max64(cnt(x, a), cnt(y, a)));
            assert(cnt(x, a) <= cnt(u, a) && cnt(y, a) <= cnt(u, a));
        }
    }
}

/// glb is the greatest lower bound
pub proof fn c10_meet_is_glb<A>(z: SMap<A, u64>, x: SMap<A, u64>, y: SMap<A, u64>, l: SMap<A, u64>)
    requires is_meet(z, x, y),
    ensures vle(z, x), vle(z, y), (vle(l, x) && vle(l, y)) ==> vle(l, z),
{
    assert forall|a: A| cnt(z, a) <= cnt(x, a) by { assert(cnt(z, a) == min64(cnt(x, a), cnt(y, a))); }
    assert forall|a: A| cnt(z, a) <= cnt(y, a) by { assert(cnt(z, a) == min64(cnt(x, a), cnt(y, a))); }
    if vle(l, x) && vle(l, y) {
        assert forall|a: A| cnt(l, a) <= cnt(z, a) by {
            assert(cnt(z, a) == min64(cnt(x, a), cnt(y, a)));
            assert(cnt(l, a) <= cnt(x, a) && cnt(l, a) <= cnt(y, a));
        }
    }
}

/// join and meet are unique on nz clocks (so "the" lub / glb)
pub proof fn c10_join_unique<A>(z1: SMap<A, u64>, z2: SMap<A, u64>, x: SMap<A, u64>, y: SMap<A, u64>)
    requires is_join(z1, x, y), is_join(z2, x, y), nz(z1), nz(z2),
    ensures z1 == z2,
{
    assert forall|a: A| cnt(z1, a) == cnt(z2, a) by {
        assert(cnt(z1, a) == max64(cnt(x, a), cnt(y, a)));
        assert(cnt(z2, a) == max64(cnt(x, a), cnt(y, a)));
    }
    lemma_cnt_ext(z1, z2);
}

/// the spec of `apply` (insert iff strictly newer)
pub open spec fn apply_spec<A>(x: SMap<A, u64>, a: A, n: u64) -> SMap<A, u64> {
    if cnt(x, a) < n { x.insert(a, n) } else { x }
}

/// apply / inc are monotone and never store a zero
pub proof fn c10_apply_monotone<A>(x: SMap<A, u64>, a: A, n: u64)
    requires nz(x),
    ensures
        vle(x, apply_spec(x, a, n)), nz(apply_spec(x, a, n)),
        cnt(apply_spec(x, a, n), a) == max64(cnt(x, a), n),
        forall|b: A| b != a ==> cnt(apply_spec(x, a, n), b) == cnt(x, b),
        // applying the dot produced by inc strictly advances exactly that actor
        n == cnt(x, a) + 1 ==> cnt(apply_spec(x, a, n), a) == cnt(x, a) + 1,
{
    let y = apply_spec(x, a, n);
    assert forall|b: A| cnt(x, b) <= cnt(y, b) by {}
    assert forall|b: A| y.contains_key(b) implies #[trigger] y[b] > 0 by { if b != a { assert(x.contains_key(b)); } }
}

/// reset_remove(c) keeps exactly the entries strictly newer than c
pub proof fn c10_vsub_exact<A>(x: SMap<A, u64>, c: SMap<A, u64>)
    requires nz(x),
    ensures
        nz(vsub(x, c)),
        forall|a: A| #[trigger] cnt(vsub(x, c), a) == (if cnt(x, a) > cnt(c, a) { cnt(x, a) } else { 0 }),
        vle(vsub(x, c), x),
{
    let r = vsub(x, c);
    assert forall|a: A| #[trigger] cnt(r, a) == (if cnt(x, a) > cnt(c, a) { cnt(x, a) } else { 0 }) by {
        if x.contains_key(a) { } else { assert(!r.contains_key(a)); }
    }
    assert forall|a: A| r.contains_key(a) implies #[trigger] r[a] > 0 by { assert(x.contains_key(a)); }
    assert forall|a: A| cnt(r, a) <= cnt(x, a) by {
        assert(cnt(r, a) == (if cnt(x, a) > cnt(c, a) { cnt(x, a) } else { 0 }));
    }
}

/// C18 on VClock: empty clock changes nothing, own clock empties, two steps = join, idempotent
pub proof fn c18_vsub_laws<A>(x: SMap<A, u64>, c1: SMap<A, u64>, c2: SMap<A, u64>, j: SMap<A, u64>)
    requires nz(x), is_join(j, c1, c2),
    ensures
        vsub(x, SMap::<A, u64>::empty()) == x,
        vsub(x, x) == SMap::<A, u64>::empty(),
        vsub(vsub(x, c1), c2) == vsub(x, j),
        vsub(vsub(x, c1), c1) == vsub(x, c1),
{
    assert(vsub(x, SMap::<A, u64>::empty()) =~= x) by {
        assert forall|a: A| x.contains_key(a) implies x[a] > cnt(SMap::<A, u64>::empty(), a) by { assert(x[a] > 0); }
    }
    assert(vsub(x, x) =~= SMap::<A, u64>::empty());
    assert(vsub(vsub(x, c1), c2) =~= vsub(x, j)) by {
        assert forall|a: A| x.contains_key(a) implies ((x[a] > cnt(c1, a) && x[a] > cnt(c2, a)) <==> x[a] > cnt(j, a)) by {
            assert(cnt(j, a) == max64(cnt(c1, a), cnt(c2, a)));
        }
    }
    assert(vsub(vsub(x, c1), c1) =~= vsub(x, c1));
}

/// intersection keeps exactly the equal entries
pub proof fn c10_vinter_exact<A>(l: SMap<A, u64>, r: SMap<A, u64>)
    requires nz(l), nz(r),
    ensures
        nz(vinter(l, r)),
        forall|a: A| #[trigger] cnt(vinter(l, r), a) == (if cnt(l, a) == cnt(r, a) { cnt(l, a) } else { 0 }),
        vinter(l, r) == vinter(r, l),
{
    let v = vinter(l, r);
    assert forall|a: A| #[trigger] cnt(v, a) == (if cnt(l, a) == cnt(r, a) { cnt(l, a) } else { 0 }) by {
        if l.contains_key(a) { assert(l[a] > 0); } else { assert(!v.contains_key(a)); }
    }
    assert forall|a: A| v.contains_key(a) implies #[trigger] v[a] > 0 by { assert(l.contains_key(a)); assert(l[a] > 0); }
    let w = vinter(r, l);
    assert forall|a: A| #![trigger v.contains_key(a)] #![trigger w.contains_key(a)] v.contains_key(a) == w.contains_key(a) && (v.contains_key(a) ==> v[a] == w[a]) by {
        if l.contains_key(a) { assert(l[a] > 0); }
        if r.contains_key(a) { assert(r[a] > 0); }
    }
    assert(v =~= w);
}

pub open spec fn skipped(cur: u64, dot_counter: u64, missing: u64) -> bool { cur < missing && missing < dot_counter }
/// validate_op's verdict: a dot is accepted iff it does not skip a counter
pub proof fn c10_validate_op_no_skip(cur: u64, dot_counter: u64)
    ensures (dot_counter <= cur + 1) <==> !(exists|missing: u64| #[trigger] skipped(cur, dot_counter, missing)),
{
    if dot_counter > cur + 1 {
        let m = (cur + 1) as u64;
        assert(skipped(cur, dot_counter, m));
    }
}

} // verus!
}
