pub mod maxreg {
use vstd::prelude::*;
use core::cmp::Ordering;
use std::convert::Infallible;
use vstd::std_specs::cmp::{PartialEqSpec, PartialOrdSpec, OrdSpec};
use crate::spec::*;
use crate::traits::{CmRDT, CvRDT};
verus! {

//@extract struct src/maxreg.rs MaxReg
pub struct MaxReg<V> {
    pub val: V,
}
//@end

/// C11: the register keeps the largest value ever applied (ties keep the current one)
pub open spec fn max_update<V: Ord>(cur: V, val: V) -> V { if gt(val, cur) { val } else { cur } }

impl<V: Default> Default for MaxReg<V> {
//@extract fn src/maxreg.rs "Default for MaxReg" default
    fn default() -> /*@ (r: @*/ Self /*@ ) @*/
    //@ ensures V::default.ensures((), r.val),
    {
        Self { val: V::default() }
    }
//@end
}

impl<V: Ord> CvRDT for MaxReg<V> {
    type Validation = Infallible;
    open spec fn cv_inv(&self) -> bool { ord_ok::<V>() }
    open spec fn cv_pre(&self, other: &Self) -> bool { true }
    open spec fn cv_post(old_: &Self, other: &Self, new_: &Self) -> bool { true }
    open spec fn cv_vhyp() -> bool { true }
    open spec fn cv_flag(&self, other: &Self) -> bool { false }

//@extract fn src/maxreg.rs "CvRDT for MaxReg" validate_merge
    fn validate_merge(&self, _other: &Self) -> /*@ (r: @*/ Result<(), Self::Validation> /*@ ) @*/
    //@ ensures r is Ok,
    {
        Ok(())
    }
//@end

//@extract fn src/maxreg.rs "CvRDT for MaxReg" merge
    fn merge(&mut self, /*@<*/ MaxReg { val } /*@>*/ /*@ other @*/ : Self)
    //@ ensures final(self).val == max_update(old(self).val, other.val),
    {
        //@ let MaxReg { val } = other;
        self.update(val)
    }
//@end
}

impl<V: Ord> CmRDT for MaxReg<V> {
    type Op = V;
    type Validation = Infallible;
    open spec fn cm_inv(&self) -> bool { ord_ok::<V>() }
    open spec fn cm_pre(&self, op: &V) -> bool { true }
    open spec fn cm_post(old_: &Self, op: &V, new_: &Self) -> bool { true }
    open spec fn cm_vpre(&self, op: &V) -> bool { true }
    open spec fn cm_vhyp() -> bool { true }
    open spec fn cm_vflag(&self, op: &Self::Op) -> bool { false }

//@extract fn src/maxreg.rs "CmRDT for MaxReg" validate_op
    fn validate_op(&self, _op: &Self::Op) -> /*@ (r: @*/ Result<(), Self::Validation> /*@ ) @*/
    //@ ensures r is Ok,
    {
        Ok(())
    }
//@end

//@extract fn src/maxreg.rs "CmRDT for MaxReg" apply
    fn apply(&mut self, op: Self::Op)
    //@ ensures final(self).val == max_update(old(self).val, op),
    {
        // Since type Op = V, we need to wrap MaxReg around op.
        // If more fields are added to the MaxReg struct, change Op to Self
        self.update(op)
    }
//@end
}

impl<V: Ord> MaxReg<V> {
//@extract fn src/maxreg.rs "MaxReg" new
    pub fn new(&mut self, val: V) -> /*@ (r: @*/ Self /*@ ) @*/
    //@ ensures r.val == val, *final(self) == *old(self),
    {
        MaxReg { val }
    }
//@end

//@extract fn src/maxreg.rs "MaxReg" update
    pub fn update(&mut self, val: V)
    //@ requires ord_ok::<V>(),
    //@ ensures final(self).val == max_update(old(self).val, val),
    {
        //@ proof { lemma_ord_ok::<V>(); }
        if val > self.val {
            self.val = val
        }
    }
//@end

//@extract fn src/maxreg.rs "MaxReg" write
    pub fn write(&self, val: V) -> /*@ (r: @*/ <MaxReg<V> as CmRDT>::Op /*@ ) @*/
    //@ ensures r == val,
    {
        val
    }
//@end

//@extract fn src/maxreg.rs "MaxReg" read
    pub fn read(&self) -> /*@ (r: @*/ &V /*@ ) @*/
    //@ ensures *r == self.val,
    {
        &self.val
    }
//@end
}

} // verus!
}
pub use crate::maxreg::MaxReg;
