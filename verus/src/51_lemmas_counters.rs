// Layer L for the "pointwise maximum" types (VClock, GCounter, PNCounter): the state is a function
// of the set of dots learned (C01/C02/C03/C08/C09/C11 rows for these types), and the counter value
// is the sum over actors of the largest learned total.
pub mod lemmas_counters {
use vstd::prelude::*;
use vstd::map::Map as SMap;
use vstd::set::Set as SSet;
use crate::spec::*;
use crate::dot::Dot;
use crate::vclock::dots_of;
use crate::gcounter::{dsum, is_total};
use crate::pncounter::app;
verus! {

// ---- the sum over actors ---------------------------------------------------------------------
pub open spec fn total<A>(m: SMap<A, u64>) -> nat
    decreases m.dom().len(),
{
    if m.dom().len() == 0 { 0 } else {
        let a = m.dom().choose();
        m[a] as nat + total(m.remove(a))
    }
}

pub proof fn lemma_total_decreases<A>(m: SMap<A, u64>, a: A)
    requires m.contains_key(a),
    ensures m.remove(a).dom().len() == m.dom().len() - 1, m.dom().len() > 0,
{
    assert(m.remove(a).dom() =~= m.dom().remove(a));
}

/// the recursion may peel off any actor, not only the chosen one
pub proof fn lemma_total_remove<A>(m: SMap<A, u64>, b: A)
    requires m.contains_key(b),
    ensures total(m) == m[b] as nat + total(m.remove(b)),
    decreases m.dom().len(),
{
    lemma_total_decreases(m, b);
    let a = m.dom().choose();
    assert(m.dom().contains(a)) by { if m.dom().len() > 0 { vstd::set_lib::lemma_set_is_empty(m.dom()); } } 
    if a != b {
        lemma_total_decreases(m, a);
        let ma = m.remove(a);
        let mb = m.remove(b);
        lemma_total_remove(ma, b);
        lemma_total_decreases(mb, a);
        lemma_total_remove(mb, a);
        assert(ma.remove(b) =~= mb.remove(a));
    }
}

/// C11: the sum along any duplicate-free complete enumeration is the sum over actors
pub proof fn lemma_total_enum<A>(en: Seq<Dot<&A>>, m: SMap<A, u64>)
    requires dots_of(en, m, true),
    ensures dsum(en) == total(m),
    decreases en.len(),
{
    if en.len() == 0 {
        assert(m.dom() =~= SSet::<A>::empty()) by {
            assert forall|a: A| !m.dom().contains(a) by {
                if m.contains_key(a) { let i = choose|i: int| 0 <= i < en.len() && *(#[trigger] en[i]).actor == a; }
            }
        }
    } else {
        let l = en.last();
        let a = *l.actor;
        let rest = en.drop_last();
        assert(en[en.len() - 1] == l);
        assert(m.contains_key(a) && m[a] == l.counter);
        let mr = m.remove(a);
        assert(dots_of(rest, mr, true)) by {
            assert forall|i: int| 0 <= i < rest.len() implies mr.contains_key(*(#[trigger] rest[i]).actor) && mr[*rest[i].actor] == rest[i].counter by {
                assert(rest[i] == en[i]);
                assert(*en[i].actor != *en[en.len() - 1].actor);
            }
            assert forall|i: int, j: int| 0 <= i < j < rest.len() implies *(#[trigger] rest[i]).actor != *(#[trigger] rest[j]).actor by {
                assert(rest[i] == en[i] && rest[j] == en[j]);
            }
            assert forall|b: A| mr.contains_key(b) implies exists|i: int| 0 <= i < rest.len() && *(#[trigger] rest[i]).actor == b by {
                let i = choose|i: int| 0 <= i < en.len() && *(#[trigger] en[i]).actor == b;
                assert(i < en.len() - 1);
                assert(rest[i] == en[i]);
            }
        }
        lemma_total_decreases(m, a);
        lemma_total_enum(rest, mr);
        lemma_total_remove(m, a);
    }
}

/// so `read` returns exactly the sum over actors
pub proof fn c11_read_is_sum<A>(n: nat, m: SMap<A, u64>)
    requires is_total(n, m),
    ensures n == total(m),
{
    let en = choose|en: Seq<Dot<&A>>| dots_of(en, m, true) && n == #[trigger] dsum(en);
    lemma_total_enum(en, m);
}

/// advancing one actor by k advances the sum by k (no increment is lost or counted twice)
pub proof fn c11_total_insert<A>(m: SMap<A, u64>, a: A, n: u64)
    requires cnt(m, a) <= n,
    ensures total(m.insert(a, n)) == total(m) + (n - cnt(m, a)),
{
    let m2 = m.insert(a, n);
    lemma_total_remove(m2, a);
    if m.contains_key(a) {
        lemma_total_remove(m, a);
        assert(m2.remove(a) =~= m.remove(a));
    } else {
        assert(m2.remove(a) =~= m);
    }
}

// ---- the state is the pointwise maximum of the learned dots -------------------------------------
/// `s` is the denotation of knowledge set `h` (set of learned (actor, running total) dots)
pub open spec fn is_max_of<A>(s: SMap<A, u64>, h: SSet<(A, u64)>) -> bool {
    &&& nz(s)
    &&& forall|a: A, n: u64| #[trigger] h.contains((a, n)) ==> n <= cnt(s, a)
    &&& forall|a: A| #[trigger] cnt(s, a) > 0 ==> h.contains((a, cnt(s, a)))
}

pub proof fn lmax_init<A>()
    ensures is_max_of(SMap::<A, u64>::empty(), SSet::<(A, u64)>::empty()),
{}

/// L.unique: equal knowledge => equal state (structurally)
pub proof fn lmax_unique<A>(s1: SMap<A, u64>, s2: SMap<A, u64>, h: SSet<(A, u64)>)
    requires is_max_of(s1, h), is_max_of(s2, h),
    ensures s1 == s2,
{
    assert forall|a: A| cnt(s1, a) == cnt(s2, a) by {
        if cnt(s1, a) > 0 { assert(h.contains((a, cnt(s1, a)))); }
        if cnt(s2, a) > 0 { assert(h.contains((a, cnt(s2, a)))); }
    }
    lemma_cnt_ext(s1, s2);
}

/// L.apply: applying a dot moves the state to the denotation of the enlarged knowledge set
/// (any order, no delivery assumption); a zero-counter dot carries no information
pub proof fn lmax_apply<A>(s: SMap<A, u64>, h: SSet<(A, u64)>, d: Dot<A>)
    requires is_max_of(s, h),
    ensures is_max_of(app(s, d), h.insert((d.actor, d.counter))),
{
    let s2 = app(s, d);
    let h2 = h.insert((d.actor, d.counter));
    assert forall|a: A| s2.contains_key(a) implies #[trigger] s2[a] > 0 by { if a != d.actor { assert(s.contains_key(a)); } }
    assert forall|a: A, n: u64| #[trigger] h2.contains((a, n)) implies n <= cnt(s2, a) by {
        if (a, n) == (d.actor, d.counter) { } else { assert(h.contains((a, n))); }
    }
    assert forall|a: A| #[trigger] cnt(s2, a) > 0 implies h2.contains((a, cnt(s2, a))) by {
        if a == d.actor && cnt(s, a) < d.counter { } else { assert(cnt(s2, a) == cnt(s, a)); assert(h.contains((a, cnt(s, a)))); }
    }
}

/// L.dup: a dot already learned changes nothing
pub proof fn lmax_dup<A>(s: SMap<A, u64>, h: SSet<(A, u64)>, d: Dot<A>)
    requires is_max_of(s, h), h.contains((d.actor, d.counter)),
    ensures app(s, d) == s,
{}

/// L.merge: merging two states gives the denotation of the union of what they learned
pub proof fn lmax_merge<A>(z: SMap<A, u64>, s1: SMap<A, u64>, s2: SMap<A, u64>, h1: SSet<(A, u64)>, h2: SSet<(A, u64)>)
    requires is_max_of(s1, h1), is_max_of(s2, h2), is_join(z, s1, s2), nz(z),
    ensures is_max_of(z, h1.union(h2)),
{
    let h = h1.union(h2);
    assert forall|a: A, n: u64| #[trigger] h.contains((a, n)) implies n <= cnt(z, a) by {
        assert(cnt(z, a) == max64(cnt(s1, a), cnt(s2, a)));
        if h1.contains((a, n)) { } else { assert(h2.contains((a, n))); }
    }
    assert forall|a: A| #[trigger] cnt(z, a) > 0 implies h.contains((a, cnt(z, a))) by {
        assert(cnt(z, a) == max64(cnt(s1, a), cnt(s2, a)));
        if cnt(s1, a) >= cnt(s2, a) { assert(h1.contains((a, cnt(s1, a)))); } else { assert(h2.contains((a, cnt(s2, a)))); }
    }
}

/// the value never decreases when more is learned
pub proof fn c11_monotone<A>(s: SMap<A, u64>, d: Dot<A>)
    ensures total(app(s, d)) >= total(s),
{
    if cnt(s, d.actor) < d.counter { c11_total_insert(s, d.actor, d.counter); }
}

} // verus!
}
