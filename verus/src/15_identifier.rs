pub mod identifier {
use vstd::prelude::*;
use core::cmp::Ordering;
use vstd::std_specs::cmp::{PartialEqSpec, PartialOrdSpec, OrdSpec};
use vstd::std_specs::iter::IteratorSpec;
use crate::num::rational::{BigRational, rat_cmp, rat_zero, rat_add_one, rat_sub_one, rat_mid, axiom_rational_order};
use crate::spec::*;
verus! {

//@extract fn src/identifier.rs "" rational_between
fn rational_between(low: Option<&BigRational>, high: Option<&BigRational>) -> /*@ (r: @*/ BigRational /*@ ) @*/
//@ ensures
//@     // strictly above a single lower bound, strictly below a single upper bound, strictly between two ordered bounds
//@     (low is Some && high is None) ==> rat_cmp(*low->0, r) == Ordering::Less,
//@     (low is None && high is Some) ==> rat_cmp(r, *high->0) == Ordering::Less,
//@     (low is Some && high is Some && rat_cmp(*low->0, *high->0) == Ordering::Less) ==> (rat_cmp(*low->0, r) == Ordering::Less && rat_cmp(r, *high->0) == Ordering::Less),
{
    match (low, high) {
        (None, None) => /*@ rat_zero() @*/ /*@<*/ BigRational::zero() /*@>*/ ,
        (Some(low), None) => /*@ rat_add_one(low) @*/ /*@<*/ low + BigRational::one() /*@>*/ ,
        (None, Some(high)) => /*@ rat_sub_one(high) @*/ /*@<*/ high - BigRational::one() /*@>*/ ,
        (Some(low), Some(high)) => /*@ rat_mid(low, high) @*/ /*@<*/ (low + high) / BigRational::from_integer(2.into()) /*@>*/ ,
    }
}
//@end

//@extract struct src/identifier.rs Identifier
pub struct Identifier<T>(Vec<(BigRational, T)>);
//@end

impl<T> View for Identifier<T> {
    type V = Seq<(BigRational, T)>;
    closed spec fn view(&self) -> Seq<(BigRational, T)> { self.0@ }
}

/// C14: identifiers are ordered lexicographically along their paths of (rational, marker) nodes;
/// when one path is a proper prefix of the other, the LONGER one sorts first
pub open spec fn id_cmp<T: Ord>(a: Seq<(BigRational, T)>, b: Seq<(BigRational, T)>) -> Ordering
    decreases a.len(),
{
    if a.len() == 0 && b.len() == 0 { Ordering::Equal }
    else if a.len() == 0 { Ordering::Greater }
    else if b.len() == 0 { Ordering::Less }
    else {
        match a[0].cmp_spec(&b[0]) {
            Ordering::Equal => id_cmp(a.drop_first(), b.drop_first()),
            o => o,
        }
    }
}

impl<T: Ord> vstd::std_specs::cmp::PartialEqSpecImpl for Identifier<T> {
    open spec fn obeys_eq_spec() -> bool { node_ok::<T>() }
    open spec fn eq_spec(&self, other: &Self) -> bool { id_cmp(self@, other@) == Ordering::Equal }
}
// derive(PartialEq, Eq) on Identifier (Vec equality): assumed to agree with `cmp == Equal` for lawful node types
impl<T: Ord> PartialEq for Identifier<T> { #[verifier::external_body] fn eq(&self, other: &Self) -> bool { self.0 == other.0 } }
impl<T: Ord> Eq for Identifier<T> {}

impl<T: Ord> vstd::std_specs::cmp::PartialOrdSpecImpl for Identifier<T> {
    open spec fn obeys_partial_cmp_spec() -> bool { ord_ok::<T>() }
    open spec fn partial_cmp_spec(&self, other: &Self) -> Option<Ordering> { Some(id_cmp(self@, other@)) }
}
impl<T: Ord> PartialOrd for Identifier<T> {
//@extract fn src/identifier.rs "PartialOrd for Identifier" partial_cmp
    fn partial_cmp(&self, other: &Self) -> Option<Ordering> {
        Some(self.cmp(other))
    }
//@end
}

impl<T: Ord> vstd::std_specs::cmp::OrdSpecImpl for Identifier<T> {
    open spec fn obeys_cmp_spec() -> bool { ord_ok::<T>() }
    open spec fn cmp_spec(&self, other: &Self) -> Ordering { id_cmp(self@, other@) }
}
impl<T: Ord> Ord for Identifier<T> {
//@extract fn src/identifier.rs "Ord for Identifier" cmp
    fn cmp(&self, other: &Self) -> Ordering {
        let mut self_path = self.0.iter();
        let mut other_path = other.0.iter();
        //@ proof { axiom_rational_order(); if ord_ok::<T>() { lemma_ord_ok::<T>(); } assert(self_path.remaining().unref() =~= self@); assert(other_path.remaining().unref() =~= other@); }
        loop
        //@ invariant
        //@     self_path.decrease() is Some, self_path.obeys_prophetic_iter_laws(), other_path.obeys_prophetic_iter_laws(),
        //@     ord_ok::<T>() ==> id_cmp(self@, other@) == id_cmp(self_path.remaining().unref(), other_path.remaining().unref()),
        //@ decreases self_path.decrease()->0
        {
            //@ let ghost sr = self_path.remaining().unref();
            //@ let ghost or = other_path.remaining().unref();
            //@ proof { axiom_rational_order(); if ord_ok::<T>() { lemma_ord_ok::<T>(); } }
            match (self_path.next(), other_path.next()) {
                (Some(self_node), Some(other_node)) => match self_node.cmp(other_node) {
                    Ordering::Equal => /*@ { proof { if ord_ok::<T>() { assert(sr[0] == *self_node && or[0] == *other_node); assert(sr.len() > 0 && or.len() > 0); assert(id_cmp(sr, or) == id_cmp(sr.drop_first(), or.drop_first())); assert(self_path.remaining().unref() =~= sr.drop_first()); assert(other_path.remaining().unref() =~= or.drop_first()); } } @*/ continue /*@ } @*/ ,
                    ord => /*@ { proof { if ord_ok::<T>() { assert(sr[0] == *self_node && or[0] == *other_node); assert(sr.len() > 0 && or.len() > 0); assert(id_cmp(sr, or) == ord); } } @*/ return ord /*@ } @*/ ,
                },
                (None, Some(_)) => /*@ { proof { assert(sr.len() == 0 && or.len() > 0); } @*/ return Ordering::Greater /*@ } @*/ ,
                (Some(_), None) => /*@ { proof { assert(sr.len() > 0 && or.len() == 0); } @*/ return Ordering::Less /*@ } @*/ ,
                (None, None) => /*@ { proof { assert(sr.len() == 0 && or.len() == 0); } @*/ return Ordering::Equal /*@ } @*/ ,
            }
        }
    }
//@end
}

// #[derive(Clone)] on Identifier: returns an equal value when the marker type's Clone does (assumed)
impl<T: Clone> Clone for Identifier<T> {
    #[verifier::external_body]
    fn clone(&self) -> (r: Self) ensures clone_ok::<T>() ==> r == *self { Identifier(self.0.clone()) }
}

impl<T> From<(BigRational, T)> for Identifier<T> {
    #[verifier::external_body]
    fn from(p: (BigRational, T)) -> (r: Self) ensures r@ == seq![p] { Self(vec![(p.0, p.1)]) }
}

impl<T: Clone + Ord + Eq> Identifier<T> {
//@extract fn src/identifier.rs "Identifier" value
    pub fn value(&self) -> /*@ (r: @*/ &T /*@ ) @*/
    //@ requires self@.len() > 0,
    //@ ensures *r == self@.last().1,
    {
        self.0.last().map( /*@<*/ | /*@>*/ /*@<pat*/ (_, elem) /*@>*/ /*@<*/ | /*@>*/ /*@ |p: &(BigRational, T)| -> (o: &T) ensures *o == p.1 { let $pat = p; @*/ elem /*@ } @*/ ).unwrap() // TODO: remove this unwrap
    }
//@end

    // OUT OF REACH: `between` walks two `Box<dyn Iterator>` paths (trait objects are outside Verus).  Contract assumed,
    // bounded stand-in `identifier_between` in the replay crate (C14 density: reported as bounded, never as proved).
    #[verifier::external_body]
    pub fn between(low: Option<&Self>, high: Option<&Self>, marker: T) -> (r: Self)
        ensures
            ord_ok::<T>() ==> {
                &&& (low is Some && high is Some && id_cmp(low->0@, high->0@) == Ordering::Less ==> id_cmp(low->0@, r@) == Ordering::Less && id_cmp(r@, high->0@) == Ordering::Less)
                &&& (low is Some && high is Some && id_cmp(low->0@, high->0@) == Ordering::Greater ==> id_cmp(high->0@, r@) == Ordering::Less && id_cmp(r@, low->0@) == Ordering::Less)
                &&& (low is Some && low->0@.len() > 0 && high is None ==> id_cmp(low->0@, r@) == Ordering::Less)
                &&& (low is None && high is Some && high->0@.len() > 0 ==> id_cmp(r@, high->0@) == Ordering::Less)
                &&& (!(low is Some && high is Some && id_cmp(low->0@, high->0@) == Ordering::Equal) ==> r@.len() > 0 && r@.last().1 == marker)
            },
    { unimplemented!() }
}

// ------------------------------------------------------------------------------------------------
// Layer L (C14): id_cmp is a total order consistent with equality -- for paths of ANY depth.
/// s enumerates the identifier set dom in increasing identifier order: the sequence a List / GList replica shows
pub open spec fn id_order<T: Ord>(s: Seq<Identifier<T>>, dom: Set<Identifier<T>>) -> bool {
    &&& s.no_duplicates()
    &&& s.to_set() == dom
    &&& forall|i: int, j: int| 0 <= i < j < s.len() ==> id_cmp((#[trigger] s[i])@, (#[trigger] s[j])@) == Ordering::Less
}

pub open spec fn node_ok<T: Ord>() -> bool { ord_ok::<(BigRational, T)>() && ord_ok::<T>() }

pub proof fn c14_reflexive<T: Ord>(a: Seq<(BigRational, T)>)
    requires node_ok::<T>(), forall|x: (BigRational, T)| #[trigger] x.cmp_spec(&x) == Ordering::Equal,
    ensures id_cmp(a, a) == Ordering::Equal,
    decreases a.len(),
{
    if a.len() > 0 { c14_reflexive(a.drop_first()); }
}

/// antisymmetry: a < b iff b > a, and Equal is symmetric
pub proof fn c14_antisymmetric<T: Ord>(a: Seq<(BigRational, T)>, b: Seq<(BigRational, T)>)
    requires node_ok::<T>(),
    ensures
        id_cmp(a, b) == Ordering::Less <==> id_cmp(b, a) == Ordering::Greater,
        id_cmp(a, b) == Ordering::Equal <==> id_cmp(b, a) == Ordering::Equal,
    decreases a.len(),
{
    lemma_ord_ok::<(BigRational, T)>();
    if a.len() > 0 && b.len() > 0 {
        assert(a[0].cmp_spec(&b[0]) == Ordering::Less <==> b[0].cmp_spec(&a[0]) == Ordering::Greater);
        assert(a[0].cmp_spec(&b[0]) == Ordering::Equal <==> b[0].cmp_spec(&a[0]) == Ordering::Equal);
        assert(gt(a[0], b[0]) <==> lt(b[0], a[0])) by { assert(b[0].cmp_spec(&a[0]) == Ordering::Less <==> a[0].cmp_spec(&b[0]) == Ordering::Greater); }
        c14_antisymmetric(a.drop_first(), b.drop_first());
    }
}

/// identifiers that compare Equal have the same length and node-wise equivalent paths (equal, when node
/// equivalence is equality): the order is consistent with ==
pub proof fn c14_equal_means_same<T: Ord>(a: Seq<(BigRational, T)>, b: Seq<(BigRational, T)>)
    requires node_ok::<T>(), id_cmp(a, b) == Ordering::Equal,
    ensures a.len() == b.len(), forall|i: int| 0 <= i < a.len() ==> (#[trigger] a[i]).cmp_spec(&b[i]) == Ordering::Equal,
    decreases a.len(),
{
    if a.len() > 0 && b.len() > 0 {
        c14_equal_means_same(a.drop_first(), b.drop_first());
        assert forall|i: int| 0 <= i < a.len() implies (#[trigger] a[i]).cmp_spec(&b[i]) == Ordering::Equal by {
            if i > 0 { assert(a[i] == a.drop_first()[i - 1] && b[i] == b.drop_first()[i - 1]); }
        }
    }
}

/// transitivity of <
pub proof fn c14_transitive<T: Ord>(a: Seq<(BigRational, T)>, b: Seq<(BigRational, T)>, c: Seq<(BigRational, T)>)
    requires node_ok::<T>(), id_cmp(a, b) == Ordering::Less, id_cmp(b, c) == Ordering::Less,
    ensures id_cmp(a, c) == Ordering::Less,
    decreases a.len(),
{
    lemma_ord_ok::<(BigRational, T)>();
    // a < b: a is non-empty; b < c: b is non-empty
    if b.len() == 0 { }
    else if c.len() == 0 { }
    else {
        let ab = a[0].cmp_spec(&b[0]);
        let bc = b[0].cmp_spec(&c[0]);
        if ab == Ordering::Equal && bc == Ordering::Equal {
            assert(eqv(a[0], b[0]) && eqv(b[0], c[0]));
            assert(eqv(a[0], c[0]));
            c14_transitive(a.drop_first(), b.drop_first(), c.drop_first());
        } else if ab == Ordering::Equal {
            assert(lt(b[0], c[0]));
            lemma_eqv_lt::<(BigRational, T)>(a[0], b[0], c[0]);
        } else if bc == Ordering::Equal {
            assert(lt(a[0], b[0]));
            lemma_lt_eqv::<(BigRational, T)>(a[0], b[0], c[0]);
        } else {
            assert(lt(a[0], b[0]) && lt(b[0], c[0]));
            assert(lt(a[0], c[0]));
        }
    }
}

pub proof fn lemma_eqv_lt<V: Ord>(x: V, y: V, z: V)
    requires ord_ok::<V>(), eqv(x, y), lt(y, z),
    ensures lt(x, z),
{
    lemma_ord_ok::<V>();
    // x ? z: if x > z then z < x ~ y so z < y contradiction with y < z; if x ~ z then y ~ z contradiction
    if gt(x, z) {
        assert(lt(z, x));
        assert(eqv(y, x));
        lemma_lt_eqv(z, x, y);
        assert(gt(y, z) <==> lt(z, y));
    } else if eqv(x, z) {
        assert(eqv(y, x));
        assert(eqv(y, z));
    }
}
pub proof fn lemma_lt_eqv<V: Ord>(x: V, y: V, z: V)
    requires ord_ok::<V>(), lt(x, y), eqv(y, z),
    ensures lt(x, z),
{
    reveal(vstd::laws_cmp::obeys_cmp);
    reveal(vstd::laws_cmp::obeys_cmp_partial_ord);
    reveal(vstd::laws_cmp::obeys_cmp_ord);
    reveal(vstd::laws_cmp::obeys_partial_cmp_spec_properties);
    reveal(vstd::laws_eq::obeys_eq);
    reveal(vstd::laws_eq::obeys_eq_spec_properties);
    lemma_ord_ok::<V>();
    assert(x.partial_cmp_spec(&y) == Some(Ordering::Less));
    assert(y.eq_spec(&z));
    if gt(x, z) {
        // z < x < y  ==> z < y, but y ~ z
        assert(lt(z, x));
        assert(lt(z, y));
        assert(eqv(z, y));
    } else if eqv(x, z) {
        assert(eqv(z, y));
        assert(eqv(x, y));
    }
}

/// Registration: the proved order satisfies vstd's (opaque) law bundle, so every BTreeMap / BTreeSet keyed by
/// Identifier (List, GList) gets its key-order hypothesis from this proof rather than from an assumption.
pub proof fn c14_identifier_obeys_cmp<T: Ord>()
    requires node_ok::<T>(), forall|x: (BigRational, T)| #[trigger] x.cmp_spec(&x) == Ordering::Equal,
    ensures vstd::laws_cmp::obeys_cmp::<Identifier<T>>(),
{
    reveal(vstd::laws_cmp::obeys_cmp);
    reveal(vstd::laws_cmp::obeys_cmp_partial_ord);
    reveal(vstd::laws_cmp::obeys_cmp_ord);
    reveal(vstd::laws_cmp::obeys_partial_cmp_spec_properties);
    reveal(vstd::laws_eq::obeys_eq);
    reveal(vstd::laws_eq::obeys_eq_spec_properties);
    assert forall|x: Identifier<T>, y: Identifier<T>| #[trigger] x.eq_spec(&y) <==> y.eq_spec(&x) by { c14_antisymmetric(x@, y@); }
    assert forall|x: Identifier<T>, y: Identifier<T>, z: Identifier<T>| x.eq_spec(&y) && #[trigger] y.eq_spec(&z) implies #[trigger] x.eq_spec(&z) by { c14_equal_trans(x@, y@, z@); }
    assert forall|x: Identifier<T>, y: Identifier<T>| (#[trigger] x.partial_cmp_spec(&y) == Some(Ordering::Less)) <==> (y.partial_cmp_spec(&x) == Some(Ordering::Greater)) by { c14_antisymmetric(x@, y@); }
    assert forall|x: Identifier<T>, y: Identifier<T>, z: Identifier<T>| x.partial_cmp_spec(&y) == Some(Ordering::Less) && #[trigger] y.partial_cmp_spec(&z) == Some(Ordering::Less) implies #[trigger] x.partial_cmp_spec(&z) == Some(Ordering::Less) by { c14_transitive(x@, y@, z@); }
    assert forall|x: Identifier<T>, y: Identifier<T>, z: Identifier<T>| x.partial_cmp_spec(&y) == Some(Ordering::Greater) && #[trigger] y.partial_cmp_spec(&z) == Some(Ordering::Greater) implies #[trigger] x.partial_cmp_spec(&z) == Some(Ordering::Greater) by {
        c14_antisymmetric(x@, y@); c14_antisymmetric(y@, z@); c14_transitive(z@, y@, x@); c14_antisymmetric(x@, z@);
    }
}

pub proof fn c14_equal_trans<T: Ord>(a: Seq<(BigRational, T)>, b: Seq<(BigRational, T)>, c: Seq<(BigRational, T)>)
    requires node_ok::<T>(), id_cmp(a, b) == Ordering::Equal, id_cmp(b, c) == Ordering::Equal,
    ensures id_cmp(a, c) == Ordering::Equal,
    decreases a.len(),
{
    lemma_ord_ok::<(BigRational, T)>();
    if a.len() > 0 && b.len() > 0 && c.len() > 0 {
        assert(eqv(a[0], b[0]) && eqv(b[0], c[0]));
        assert(eqv(a[0], c[0]));
        c14_equal_trans(a.drop_first(), b.drop_first(), c.drop_first());
    }
}

/// totality: exactly one of <, ==, > (the result type is a three-valued Ordering; with antisymmetry this is totality)
pub proof fn c14_total<T: Ord>(a: Seq<(BigRational, T)>, b: Seq<(BigRational, T)>)
    requires node_ok::<T>(),
    ensures id_cmp(a, b) == Ordering::Less || id_cmp(a, b) == Ordering::Equal || id_cmp(a, b) == Ordering::Greater,
{}

} // verus!
}
pub use crate::identifier::Identifier;
