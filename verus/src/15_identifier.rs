pub mod identifier {
use vstd::prelude::*;
use core::cmp::Ordering;
use vstd::std_specs::cmp::{PartialEqSpec, PartialOrdSpec, OrdSpec};
use vstd::std_specs::iter::IteratorSpec;
use crate::num::rational::{BigRational, rat_cmp, rat_zero, rat_add_one, rat_sub_one, rat_mid, axiom_rational_order};
use crate::spec::*;
use crate::stdx5::DynIter;
verus! {

//@extract fn src/identifier.rs "" rational_between
fn rational_between(low: Option<&BigRational>, high: Option<&BigRational>) -> /*@ (r: @*/ BigRational /*@ ) @*/
//@ ensures
//@     // strictly above a single lower bound, strictly below a single upper bound, strictly between two ordered bounds
//@     (low is Some && high is None) ==> rat_cmp(*low->0, r) == Ordering::Less,
//@     (low is None && high is Some) ==> rat_cmp(r, *high->0) == Ordering::Less,
//@     (low is Some && high is Some && rat_cmp(*low->0, *high->0) == Ordering::Less) ==> (rat_cmp(*low->0, r) == Ordering::Less && rat_cmp(r, *high->0) == Ordering::Less),
{
    match (low, high) {
        (None, None) => /*@ rat_zero() @*/ /*@<*/ BigRational::zero() /*@>*/ ,
        (Some(low), None) => /*@ rat_add_one(low) @*/ /*@<*/ low + BigRational::one() /*@>*/ ,
        (None, Some(high)) => /*@ rat_sub_one(high) @*/ /*@<*/ high - BigRational::one() /*@>*/ ,
        (Some(low), Some(high)) => /*@ rat_mid(low, high) @*/ /*@<*/ (low + high) / BigRational::from_integer(2.into()) /*@>*/ ,
    }
}
//@end

//@extract struct src/identifier.rs Identifier
pub struct Identifier<T>(Vec<(BigRational, T)>);
//@end

impl<T> View for Identifier<T> {
    type V = Seq<(BigRational, T)>;
    closed spec fn view(&self) -> Seq<(BigRational, T)> { self.0@ }
}

/// C14: identifiers are ordered lexicographically along their paths of (rational, marker) nodes;
/// when one path is a proper prefix of the other, the LONGER one sorts first
pub open spec fn id_cmp<T: Ord>(a: Seq<(BigRational, T)>, b: Seq<(BigRational, T)>) -> Ordering
    decreases a.len(),
{
    if a.len() == 0 && b.len() == 0 { Ordering::Equal }
    else if a.len() == 0 { Ordering::Greater }
    else if b.len() == 0 { Ordering::Less }
    else {
        match a[0].cmp_spec(&b[0]) {
            Ordering::Equal => id_cmp(a.drop_first(), b.drop_first()),
            o => o,
        }
    }
}

impl<T: Ord> vstd::std_specs::cmp::PartialEqSpecImpl for Identifier<T> {
    open spec fn obeys_eq_spec() -> bool { node_ok::<T>() }
    open spec fn eq_spec(&self, other: &Self) -> bool { id_cmp(self@, other@) == Ordering::Equal }
}
// derive(PartialEq, Eq) on Identifier (Vec equality): assumed to agree with `cmp == Equal` for lawful node types
impl<T: Ord> PartialEq for Identifier<T> { #[verifier::external_body] fn eq(&self, other: &Self) -> bool { self.0 == other.0 } }
impl<T: Ord> Eq for Identifier<T> {}

impl<T: Ord> vstd::std_specs::cmp::PartialOrdSpecImpl for Identifier<T> {
    open spec fn obeys_partial_cmp_spec() -> bool { ord_ok::<T>() }
    open spec fn partial_cmp_spec(&self, other: &Self) -> Option<Ordering> { Some(id_cmp(self@, other@)) }
}
impl<T: Ord> PartialOrd for Identifier<T> {
//@extract fn src/identifier.rs "PartialOrd for Identifier" partial_cmp
    fn partial_cmp(&self, other: &Self) -> Option<Ordering> {
        Some(self.cmp(other))
    }
//@end
}

impl<T: Ord> vstd::std_specs::cmp::OrdSpecImpl for Identifier<T> {
    open spec fn obeys_cmp_spec() -> bool { ord_ok::<T>() }
    open spec fn cmp_spec(&self, other: &Self) -> Ordering { id_cmp(self@, other@) }
}
impl<T: Ord> Ord for Identifier<T> {
//@extract fn src/identifier.rs "Ord for Identifier" cmp
    fn cmp(&self, other: &Self) -> Ordering {
        let mut self_path = self.0.iter();
        let mut other_path = other.0.iter();
        //@ proof { axiom_rational_order(); if ord_ok::<T>() { lemma_ord_ok::<T>(); } assert(self_path.remaining().unref() =~= self@); assert(other_path.remaining().unref() =~= other@); }
        loop
        //@ invariant
        //@     self_path.decrease() is Some, self_path.obeys_prophetic_iter_laws(), other_path.obeys_prophetic_iter_laws(),
        //@     ord_ok::<T>() ==> id_cmp(self@, other@) == id_cmp(self_path.remaining().unref(), other_path.remaining().unref()),
        //@ decreases self_path.decrease()->0
        {
            //@ let ghost sr = self_path.remaining().unref();
            //@ let ghost or = other_path.remaining().unref();
            //@ proof { axiom_rational_order(); if ord_ok::<T>() { lemma_ord_ok::<T>(); } }
            match (self_path.next(), other_path.next()) {
                (Some(self_node), Some(other_node)) => match self_node.cmp(other_node) {
                    Ordering::Equal => /*@ { proof { if ord_ok::<T>() { assert(sr[0] == *self_node && or[0] == *other_node); assert(sr.len() > 0 && or.len() > 0); assert(id_cmp(sr, or) == id_cmp(sr.drop_first(), or.drop_first())); assert(self_path.remaining().unref() =~= sr.drop_first()); assert(other_path.remaining().unref() =~= or.drop_first()); } } @*/ continue /*@ } @*/ ,
                    ord => /*@ { proof { if ord_ok::<T>() { assert(sr[0] == *self_node && or[0] == *other_node); assert(sr.len() > 0 && or.len() > 0); assert(id_cmp(sr, or) == ord); } } @*/ return ord /*@ } @*/ ,
                },
                (None, Some(_)) => /*@ { proof { assert(sr.len() == 0 && or.len() > 0); } @*/ return Ordering::Greater /*@ } @*/ ,
                (Some(_), None) => /*@ { proof { assert(sr.len() > 0 && or.len() == 0); } @*/ return Ordering::Less /*@ } @*/ ,
                (None, None) => /*@ { proof { assert(sr.len() == 0 && or.len() == 0); } @*/ return Ordering::Equal /*@ } @*/ ,
            }
        }
    }
//@end
}

// #[derive(Clone)] on Identifier: returns an equal value when the marker type's Clone does (assumed)
impl<T: Clone> Clone for Identifier<T> {
    #[verifier::external_body]
    fn clone(&self) -> (r: Self) ensures clone_ok::<T>() ==> r == *self { Identifier(self.0.clone()) }
}

impl<T> vstd::std_specs::convert::FromSpecImpl<(BigRational, T)> for Identifier<T> {
    open spec fn obeys_from_spec() -> bool { false }
    uninterp spec fn from_spec(v: (BigRational, T)) -> Self;
}
impl<T> From<(BigRational, T)> for Identifier<T> {
//@extract fn src/identifier.rs "From for Identifier" from
    fn from( /*@<*/ (rational, value) /*@>*/ /*@ p @*/ : (BigRational, T)) -> /*@ (r: @*/ Self /*@ ) @*/
    //@ ensures r@ == seq![p],
    {
        //@ let (rational, value) = p;
        Self(vec![(rational, value)])
    }
//@end
}

impl<T: Clone + Ord + Eq> Identifier<T> {
//@extract fn src/identifier.rs "Identifier" value
    pub fn value(&self) -> /*@ (r: @*/ &T /*@ ) @*/
    //@ requires self@.len() > 0,
    //@ ensures *r == self@.last().1,
    {
        self.0.last().map( /*@<*/ | /*@>*/ /*@<pat*/ (_, elem) /*@>*/ /*@<*/ | /*@>*/ /*@ |p: &(BigRational, T)| -> (o: &T) ensures *o == p.1 { let $pat = p; @*/ elem /*@ } @*/ ).unwrap() // TODO: remove this unwrap
    }
//@end

//@extract fn src/identifier.rs "Identifier" into_value
    pub fn into_value( /*@<*/ mut /*@>*/ self) -> /*@ (r: @*/ T /*@ ) @*/
    //@ requires self@.len() > 0,
    //@ ensures r == self@.last().1,
    {
        /*@ let mut this = self; this @*/ /*@<*/ self /*@>*/ .0.pop().map( /*@<*/ | /*@>*/ /*@<patv*/ (_, elem) /*@>*/ /*@<*/ | /*@>*/ /*@ |p: (BigRational, T)| -> (o: T) ensures o == p.1 { let $patv = p; @*/ elem /*@ } @*/ ).unwrap() // TODO: remove this unwrap
    }
//@end

//@extract fn src/identifier.rs "Identifier" between
    pub fn between(low: Option<&Self>, high: Option<&Self>, marker: T) -> /*@ (r: @*/ Self /*@ ) @*/
    //@ requires between_ok::<T>(),
    //@ ensures between_post(low, high, marker, r),
    //@ decreases (if low is Some && high is Some && id_cmp(low->0@, high->0@) == Ordering::Greater { 1int } else { 0int }),
    {
        //@ proof { axiom_rational_order(); lemma_ord_ok::<T>(); lemma_ord_ok::<(BigRational, T)>(); }
        //@ let ghost mk0 = marker;
        match (low, high) {
            (Some(low), Some(high)) => {
                //@ proof { c14_antisymmetric(low@, high@); }
                match low.cmp(high) {
                    Ordering::Greater => return Self::between(Some(high), Some(low), marker),
                    Ordering::Equal => return high.clone(),
                    _ => (),
                }

                // Walk both paths until we reach a fork, constructing the path between these
                // two entries as we go.

                let mut path: Vec<(BigRational, T)> = vec![];

                let mut low_path: /*@ DynIter<(BigRational, T)> @*/ /*@<*/ Box<dyn std::iter::Iterator<Item = &(BigRational, T)>> /*@>*/ =
                    /*@ DynIter::over(& @*/ /*@<*/ Box::new( /*@>*/ low.0 /*@<*/ .iter()) /*@>*/ /*@ ) @*/ ;
                let mut high_path: /*@ DynIter<(BigRational, T)> @*/ /*@<*/ Box<dyn std::iter::Iterator<Item = &(BigRational, T)>> /*@>*/ =
                    /*@ DynIter::over(& @*/ /*@<*/ Box::new( /*@>*/ high.0 /*@<*/ .iter()) /*@>*/ /*@ ) @*/ ;
                //@ let ghost lo = low@; let ghost hi = high@; let ghost mk = marker;
                //@ let ghost mut div = false; let ghost mut d: int = 0;
                loop
                //@ invariant_except_break
                //@     between_ok::<T>(), id_cmp(lo, hi) == Ordering::Less, marker == mk,
                //@     path@.len() <= hi.len(), high_path.rest() == hi.skip(path@.len() as int),
                //@     forall|k: int| 0 <= k < path@.len() ==> #[trigger] path@[k] == hi[k],
                //@     !div ==> path@.len() <= lo.len() && low_path.rest() == lo.skip(path@.len() as int) && forall|k: int| 0 <= k < path@.len() ==> eqv(#[trigger] lo[k], hi[k]),
                //@     div ==> low_path.rest() == Seq::<(BigRational, T)>::empty() && 0 <= d < path@.len() && decided_less(lo, path@, d),
                //@ ensures between_two(lo, hi, mk, path@),
                //@ decreases hi.len() - path@.len(),
                {
                    //@ let ghost i = path@.len() as int; let ghost p0 = path@;
                    //@ proof { axiom_rational_order(); lemma_ord_ok::<T>(); lemma_ord_ok::<(BigRational, T)>(); }
                    match (low_path.next(), high_path.next()) {
                        (Some( /*@ ln @*/ /*@<lnp*/ (l_ratio, l_m) /*@>*/ ), Some( /*@ hn @*/ /*@<hnp*/ (h_ratio, h_m) /*@>*/ )) if /*@ ln.0 == hn.0 @*/ /*@<*/ l_ratio == h_ratio /*@>*/ => {
                            //@ let $lnp = ln; let $hnp = hn;
                            //@ proof { assert(!div); assert(*ln == lo[i] && *hn == hi[i]); assert(*l_ratio == *h_ratio); lemma_common_prefix_le(lo, hi, i); lemma_node_cmp(lo[i], hi[i]); }
                            if l_m < &marker && &marker < h_m {
                                // The marker fits between the low and high marker
                                //@ let hrc = h_ratio.clone();
                                path.push((/*@ hrc @*/ /*@<*/ h_ratio.clone() /*@>*/ , marker));
                                //@ proof { lemma_node_cmp(lo[i], path@[i]); lemma_node_cmp(path@[i], hi[i]); assert forall|k: int| 0 <= k < i implies path@[k] == p0[k] by { } lemma_fork(lo, hi, path@, i); }
                                break;
                            } else if l_m == h_m {
                                // We are on a common prefix of the two paths, copy it over
                                // to our output path and continue till we reach a fork.
                                //@ let hrc = h_ratio.clone(); let hmc = h_m.clone();
                                path.push((/*@ hrc @*/ /*@<*/ h_ratio.clone() /*@>*/ , /*@ hmc @*/ /*@<*/ h_m.clone() /*@>*/ ));
                                //@ proof { assert(cloned(*h_m, hmc)); assert(hmc == *h_m); assert(hrc == *h_ratio); assert(*hn == hi[i]); assert(path@[i] == (hrc, hmc)); assert(path@[i] == hi[i]); assert forall|k: int| 0 <= k < path@.len() implies #[trigger] path@[k] == hi[k] by { if k < i { assert(path@[k] == p0[k]); } } assert(eqv(lo[i], hi[i])); assert(hi.skip(i).drop_first() =~= hi.skip(i + 1)); assert(lo.skip(i).drop_first() =~= lo.skip(i + 1)); }
                            } else {
                                // Otherwise, the two paths have diverged.
                                // Choose one path and clear out the other.
                                //@ let hrc = h_ratio.clone(); let hmc = h_m.clone();
                                path.push((/*@ hrc @*/ /*@<*/ h_ratio.clone() /*@>*/ , /*@ hmc @*/ /*@<*/ h_m.clone() /*@>*/ ));
                                low_path = /*@ DynIter::empty() @*/ /*@<*/ Box::new(std::iter::empty()) /*@>*/ ;
                                //@ proof { assert(cloned(*h_m, hmc)); assert(hmc == *h_m); assert(hrc == *h_ratio); assert(*hn == hi[i]); assert(path@[i] == (hrc, hmc)); assert(path@[i] == hi[i]); assert forall|k: int| 0 <= k < path@.len() implies #[trigger] path@[k] == hi[k] by { if k < i { assert(path@[k] == p0[k]); } } assert(hi.skip(i).drop_first() =~= hi.skip(i + 1)); assert(lt(lo[i], hi[i])); div = true; d = i; assert(decided_less(lo, path@, i)) by { assert forall|k: int| 0 <= k < i implies eqv(#[trigger] lo[k], path@[k]) by { assert(path@[k] == hi[k]); } } }
                            }
                        }
                        (low_node, high_node) => {
                            //@ let ghost lnv: Option<(BigRational, T)> = match low_node { Some(n) => Some(*n), None => None };
                            //@ let ghost hnv: Option<(BigRational, T)> = match high_node { Some(n) => Some(*n), None => None };
                            path.push((
                                rational_between(low_node.map(|n /*@ : &(BigRational, T) @*/ | /*@ -> (o: &BigRational) ensures *o == n.0 { @*/ &n.0 /*@ } @*/ ), high_node.map(|n /*@ : &(BigRational, T) @*/ | /*@ -> (o: &BigRational) ensures *o == n.0 { @*/ &n.0 /*@ } @*/ )),
                                marker,
                            ));
                            //@ proof { assert forall|k: int| 0 <= k < i implies path@[k] == p0[k] by { } if div { assert(decided_less(lo, path@, d)) by { assert forall|k: int| 0 <= k <= d implies path@[k] == p0[k] by { } } } lemma_second_arm(lo, hi, mk, path@, i, div, d, lnv, hnv); }
                            break;
                        }
                    }
                }
                //@ proof { assert(between_two(lo, hi, mk, path@)); }
                Self(path)
            }

            (low, high) => /*@ { let r0 = @*/ /*@<*/ Self(vec![( /*@>*/
                rational_between(
                    low.and_then(|low_entry /*@ : &Self @*/ | /*@ -> (o: Option<&BigRational>) ensures (o is Some <==> low_entry@.len() > 0), (o is Some ==> *o->0 == low_entry@[0].0) { @*/ low_entry.0.first().map( /*@<*/ | /*@>*/ /*@<fp1*/ (r, _) /*@>*/ /*@<*/ | /*@>*/ /*@ |p: &(BigRational, T)| -> (q: &BigRational) ensures *q == p.0 { let $fp1 = p; @*/ r /*@ } @*/ ) /*@ } @*/ ),
                    high.and_then(|high_entry /*@ : &Self @*/ | /*@ -> (o: Option<&BigRational>) ensures (o is Some <==> high_entry@.len() > 0), (o is Some ==> *o->0 == high_entry@[0].0) { @*/ high_entry.0.first().map( /*@<*/ | /*@>*/ /*@<fp2*/ (r, _) /*@>*/ /*@<*/ | /*@>*/ /*@ |p: &(BigRational, T)| -> (q: &BigRational) ensures *q == p.0 { let $fp2 = p; @*/ r /*@ } @*/ ) /*@ } @*/ ),
                ) /*@ ; let mut v0: Vec<(BigRational, T)> = Vec::new(); v0.push((r0 @*/ ,
                marker,
            ) /*@<*/ ]) /*@>*/ /*@ ); let res = Self(v0); proof { lemma_one_bound(low, high, mk0, res@); } res } @*/ ,
        }
    }
//@end
}

/// node order is lexicographic: rational first, marker second (vstd's tuple order)
pub proof fn lemma_node_cmp<T: Ord>(x: (BigRational, T), y: (BigRational, T))
    ensures x.cmp_spec(&y) == (match rat_cmp(x.0, y.0) { Ordering::Equal => x.1.cmp_spec(&y.1), o => o }),
{}

/// paths that agree (up to node equivalence) on their first i nodes compare like their remainders
pub proof fn lemma_cmp_skip<T: Ord>(a: Seq<(BigRational, T)>, b: Seq<(BigRational, T)>, i: int)
    requires 0 <= i <= a.len(), i <= b.len(), forall|k: int| 0 <= k < i ==> eqv(#[trigger] a[k], b[k]),
    ensures id_cmp(a, b) == id_cmp(a.skip(i), b.skip(i)),
    decreases i,
{
    if i == 0 { assert(a.skip(0) =~= a); assert(b.skip(0) =~= b); }
    else {
        assert(eqv(a[0], b[0]));
        let a1 = a.drop_first(); let b1 = b.drop_first();
        assert forall|k: int| 0 <= k < i - 1 implies eqv(#[trigger] a1[k], b1[k]) by { assert(a1[k] == a[k + 1] && b1[k] == b[k + 1]); assert(eqv(a[k + 1], b[k + 1])); }
        lemma_cmp_skip(a1, b1, i - 1);
        assert(a1.skip(i - 1) =~= a.skip(i)); assert(b1.skip(i - 1) =~= b.skip(i));
    }
}
pub proof fn lemma_decided<T: Ord>(a: Seq<(BigRational, T)>, b: Seq<(BigRational, T)>, d: int)
    requires decided_less(a, b, d),
    ensures id_cmp(a, b) == Ordering::Less,
{
    lemma_cmp_skip(a, b, d);
    assert(a.skip(d)[0] == a[d] && b.skip(d)[0] == b[d]);
}
/// a path that extends another (up to node equivalence) sorts before it
pub proof fn lemma_longer<T: Ord>(a: Seq<(BigRational, T)>, b: Seq<(BigRational, T)>)
    requires node_ok::<T>(), b.len() < a.len(), forall|k: int| 0 <= k < b.len() ==> eqv(#[trigger] a[k], b[k]),
    ensures id_cmp(a, b) == Ordering::Less, id_cmp(b, a) == Ordering::Greater,
{
    lemma_ord_ok::<(BigRational, T)>();
    lemma_cmp_skip(a, b, b.len() as int);
    assert(b.skip(b.len() as int).len() == 0 && a.skip(b.len() as int).len() > 0);
    assert forall|k: int| 0 <= k < b.len() implies eqv(#[trigger] b[k], a[k]) by { assert(eqv(a[k], b[k])); }
    lemma_cmp_skip(b, a, b.len() as int);
}
/// with an equivalent prefix and low < high, low's next node is not greater than high's
pub proof fn lemma_common_prefix_le<T: Ord>(lo: Seq<(BigRational, T)>, hi: Seq<(BigRational, T)>, i: int)
    requires id_cmp(lo, hi) == Ordering::Less, 0 <= i < lo.len(), i < hi.len(), forall|k: int| 0 <= k < i ==> eqv(#[trigger] lo[k], hi[k]),
    ensures !gt(lo[i], hi[i]),
{
    lemma_cmp_skip(lo, hi, i);
    assert(lo.skip(i)[0] == lo[i] && hi.skip(i)[0] == hi[i]);
}
/// the fork: agreeing before i, the new node strictly between the two nodes at i
pub proof fn lemma_fork<T: Ord + Clone>(lo: Seq<(BigRational, T)>, hi: Seq<(BigRational, T)>, p: Seq<(BigRational, T)>, i: int)
    requires between_ok::<T>(), p.len() == i + 1, 0 <= i < lo.len(), i < hi.len(), lt(lo[i], p[i]), lt(p[i], hi[i]),
        forall|k: int| 0 <= k < i ==> #[trigger] p[k] == hi[k], forall|k: int| 0 <= k < i ==> eqv(#[trigger] lo[k], hi[k]),
    ensures id_cmp(lo, p) == Ordering::Less, id_cmp(p, hi) == Ordering::Less,
{
    assert(decided_less(lo, p, i)) by { assert forall|k: int| 0 <= k < i implies eqv(#[trigger] lo[k], p[k]) by { assert(p[k] == hi[k]); } }
    assert(decided_less(p, hi, i)) by { assert forall|k: int| 0 <= k < i implies eqv(#[trigger] p[k], hi[k]) by { assert(p[k] == hi[k]); } }
    lemma_decided(lo, p, i); lemma_decided(p, hi, i);
}

/// the walk ends in the catch-all arm: one of the paths is exhausted, or the rationals at position i differ
pub proof fn lemma_second_arm<T: Ord + Clone>(lo: Seq<(BigRational, T)>, hi: Seq<(BigRational, T)>, mk: T, p: Seq<(BigRational, T)>, i: int, div: bool, d: int,
        ln: Option<(BigRational, T)>, hn: Option<(BigRational, T)>)
    requires between_ok::<T>(), id_cmp(lo, hi) == Ordering::Less, p.len() == i + 1, 0 <= i <= hi.len(), p[i].1 == mk,
        forall|k: int| 0 <= k < i ==> #[trigger] p[k] == hi[k],
        !div ==> i <= lo.len() && forall|k: int| 0 <= k < i ==> eqv(#[trigger] lo[k], hi[k]),
        div ==> 0 <= d < i && decided_less(lo, p, d),
        ln is Some <==> (!div && i < lo.len()), ln is Some ==> ln->0 == lo[i],
        hn is Some <==> i < hi.len(), hn is Some ==> hn->0 == hi[i],
        ln is Some && hn is Some ==> (ln->0).0 != (hn->0).0,
        ln is Some && hn is None ==> rat_cmp(lo[i].0, p[i].0) == Ordering::Less,
        ln is None && hn is Some ==> rat_cmp(p[i].0, hi[i].0) == Ordering::Less,
        ln is Some && hn is Some && rat_cmp(lo[i].0, hi[i].0) == Ordering::Less ==> rat_cmp(lo[i].0, p[i].0) == Ordering::Less && rat_cmp(p[i].0, hi[i].0) == Ordering::Less,
    ensures between_two(lo, hi, mk, p),
{
    axiom_rational_order(); lemma_ord_ok::<T>(); lemma_ord_ok::<(BigRational, T)>(); lemma_ord_ok::<BigRational>();
    assert(p.last() == p[i]);
    assert forall|k: int| 0 <= k < i implies eqv(#[trigger] p[k], hi[k]) by { assert(p[k] == hi[k]); }
    if ln is Some && hn is Some {
        lemma_common_prefix_le(lo, hi, i);
        lemma_node_cmp(lo[i], hi[i]); lemma_node_cmp(lo[i], p[i]); lemma_node_cmp(p[i], hi[i]);
        assert(rat_cmp(lo[i].0, hi[i].0) != Ordering::Equal);
        assert(rat_cmp(lo[i].0, hi[i].0) == Ordering::Less);
        lemma_fork(lo, hi, p, i);
    } else if ln is Some {
        // high is exhausted: the result extends high
        lemma_node_cmp(lo[i], p[i]);
        assert(decided_less(lo, p, i)) by { assert forall|k: int| 0 <= k < i implies eqv(#[trigger] lo[k], p[k]) by { assert(p[k] == hi[k]); } }
        lemma_decided(lo, p, i);
        lemma_longer(p, hi);
    } else if hn is Some {
        if !div { lemma_longer(hi, lo); assert(false); }
        lemma_decided(lo, p, d);
        lemma_node_cmp(p[i], hi[i]);
        assert(decided_less(p, hi, i));
        lemma_decided(p, hi, i);
    } else {
        if !div { lemma_cmp_skip(lo, hi, i); assert(lo.skip(i).len() == 0 && hi.skip(i).len() == 0); assert(false); }
        lemma_decided(lo, p, d);
        lemma_longer(p, hi);
    }
}

/// at most one bound: a single node beyond the bound's first rational
pub proof fn lemma_one_bound<T: Ord + Clone>(low: Option<&Identifier<T>>, high: Option<&Identifier<T>>, mk: T, r: Seq<(BigRational, T)>)
    requires between_ok::<T>(), !(low is Some && high is Some), r.len() == 1, r[0].1 == mk,
        low is Some && low->0@.len() > 0 && high is None ==> rat_cmp(low->0@[0].0, r[0].0) == Ordering::Less,
        low is None && high is Some && high->0@.len() > 0 ==> rat_cmp(r[0].0, high->0@[0].0) == Ordering::Less,
    ensures
        low is Some && low->0@.len() > 0 && high is None ==> id_cmp(low->0@, r) == Ordering::Less,
        low is None && high is Some && high->0@.len() > 0 ==> id_cmp(r, high->0@) == Ordering::Less,
        r.len() > 0 && r.last().1 == mk,
{
    if low is Some && low->0@.len() > 0 && high is None { lemma_node_cmp(low->0@[0], r[0]); assert(decided_less(low->0@, r, 0)); lemma_decided(low->0@, r, 0); }
    if low is None && high is Some && high->0@.len() > 0 { lemma_node_cmp(r[0], high->0@[0]); assert(decided_less(r, high->0@, 0)); lemma_decided(r, high->0@, 0); }
}

/// usage hypotheses of `between`: lawful orders on markers and nodes, `==` on markers reflexive, markers clone to equal values
pub open spec fn between_ok<T: Ord + Clone>() -> bool {
    node_ok::<T>() && clone_ok::<T>() && T::obeys_eq_spec() && T::obeys_partial_cmp_spec() && (forall|x: (BigRational, T)| #[trigger] x.cmp_spec(&x) == Ordering::Equal)
}

/// C14 density, the contract of `between`: strictly between two distinct bounds (in either argument order), strictly beyond
/// a single non-empty bound, and -- unless both bounds are the same identifier -- ending in the given marker
pub open spec fn between_post<T: Ord>(low: Option<&Identifier<T>>, high: Option<&Identifier<T>>, marker: T, r: Identifier<T>) -> bool {
    &&& (low is Some && high is Some && id_cmp(low->0@, high->0@) == Ordering::Less ==> id_cmp(low->0@, r@) == Ordering::Less && id_cmp(r@, high->0@) == Ordering::Less)
    &&& (low is Some && high is Some && id_cmp(low->0@, high->0@) == Ordering::Greater ==> id_cmp(high->0@, r@) == Ordering::Less && id_cmp(r@, low->0@) == Ordering::Less)
    &&& (low is Some && low->0@.len() > 0 && high is None ==> id_cmp(low->0@, r@) == Ordering::Less)
    &&& (low is None && high is Some && high->0@.len() > 0 ==> id_cmp(r@, high->0@) == Ordering::Less)
    &&& (!(low is Some && high is Some && id_cmp(low->0@, high->0@) == Ordering::Equal) ==> r@.len() > 0 && r@.last().1 == marker)
}
/// the result of the two-bound walk
pub open spec fn between_two<T: Ord>(lo: Seq<(BigRational, T)>, hi: Seq<(BigRational, T)>, mk: T, p: Seq<(BigRational, T)>) -> bool {
    id_cmp(lo, p) == Ordering::Less && id_cmp(p, hi) == Ordering::Less && p.len() > 0 && p.last().1 == mk
}
/// a and b agree (up to node equivalence) before position d, and a's node at d is smaller: a < b whatever follows
pub open spec fn decided_less<T: Ord>(a: Seq<(BigRational, T)>, b: Seq<(BigRational, T)>, d: int) -> bool {
    0 <= d < a.len() && d < b.len() && lt(a[d], b[d]) && forall|k: int| 0 <= k < d ==> eqv(#[trigger] a[k], b[k])
}

// ------------------------------------------------------------------------------------------------
// Layer L (C14): id_cmp is a total order consistent with equality -- for paths of ANY depth.
/// s enumerates the identifier set dom in increasing identifier order: the sequence a List / GList replica shows
pub open spec fn id_order<T: Ord>(s: Seq<Identifier<T>>, dom: Set<Identifier<T>>) -> bool {
    &&& s.no_duplicates()
    &&& s.to_set() == dom
    &&& forall|i: int, j: int| 0 <= i < j < s.len() ==> id_cmp((#[trigger] s[i])@, (#[trigger] s[j])@) == Ordering::Less
}

pub open spec fn node_ok<T: Ord>() -> bool { ord_ok::<(BigRational, T)>() && ord_ok::<T>() }

pub proof fn c14_reflexive<T: Ord>(a: Seq<(BigRational, T)>)
    requires node_ok::<T>(), forall|x: (BigRational, T)| #[trigger] x.cmp_spec(&x) == Ordering::Equal,
    ensures id_cmp(a, a) == Ordering::Equal,
    decreases a.len(),
{
    if a.len() > 0 { c14_reflexive(a.drop_first()); }
}

/// antisymmetry: a < b iff b > a, and Equal is symmetric
pub proof fn c14_antisymmetric<T: Ord>(a: Seq<(BigRational, T)>, b: Seq<(BigRational, T)>)
    requires node_ok::<T>(),
    ensures
        id_cmp(a, b) == Ordering::Less <==> id_cmp(b, a) == Ordering::Greater,
        id_cmp(a, b) == Ordering::Equal <==> id_cmp(b, a) == Ordering::Equal,
    decreases a.len(),
{
    lemma_ord_ok::<(BigRational, T)>();
    if a.len() > 0 && b.len() > 0 {
        assert(a[0].cmp_spec(&b[0]) == Ordering::Less <==> b[0].cmp_spec(&a[0]) == Ordering::Greater);
        assert(a[0].cmp_spec(&b[0]) == Ordering::Equal <==> b[0].cmp_spec(&a[0]) == Ordering::Equal);
        assert(gt(a[0], b[0]) <==> lt(b[0], a[0])) by { assert(b[0].cmp_spec(&a[0]) == Ordering::Less <==> a[0].cmp_spec(&b[0]) == Ordering::Greater); }
        c14_antisymmetric(a.drop_first(), b.drop_first());
    }
}

/// identifiers that compare Equal have the same length and node-wise equivalent paths (equal, when node
/// equivalence is equality): the order is consistent with ==
pub proof fn c14_equal_means_same<T: Ord>(a: Seq<(BigRational, T)>, b: Seq<(BigRational, T)>)
    requires node_ok::<T>(), id_cmp(a, b) == Ordering::Equal,
    ensures a.len() == b.len(), forall|i: int| 0 <= i < a.len() ==> (#[trigger] a[i]).cmp_spec(&b[i]) == Ordering::Equal,
    decreases a.len(),
{
    if a.len() > 0 && b.len() > 0 {
        c14_equal_means_same(a.drop_first(), b.drop_first());
        assert forall|i: int| 0 <= i < a.len() implies (#[trigger] a[i]).cmp_spec(&b[i]) == Ordering::Equal by {
            if i > 0 { assert(a[i] == a.drop_first()[i - 1] && b[i] == b.drop_first()[i - 1]); }
        }
    }
}

/// transitivity of <
pub proof fn c14_transitive<T: Ord>(a: Seq<(BigRational, T)>, b: Seq<(BigRational, T)>, c: Seq<(BigRational, T)>)
    requires node_ok::<T>(), id_cmp(a, b) == Ordering::Less, id_cmp(b, c) == Ordering::Less,
    ensures id_cmp(a, c) == Ordering::Less,
    decreases a.len(),
{
    lemma_ord_ok::<(BigRational, T)>();
    // a < b: a is non-empty; b < c: b is non-empty
    if b.len() == 0 { }
    else if c.len() == 0 { }
    else {
        let ab = a[0].cmp_spec(&b[0]);
        let bc = b[0].cmp_spec(&c[0]);
        if ab == Ordering::Equal && bc == Ordering::Equal {
            assert(eqv(a[0], b[0]) && eqv(b[0], c[0]));
            assert(eqv(a[0], c[0]));
            c14_transitive(a.drop_first(), b.drop_first(), c.drop_first());
        } else if ab == Ordering::Equal {
            assert(lt(b[0], c[0]));
            lemma_eqv_lt::<(BigRational, T)>(a[0], b[0], c[0]);
        } else if bc == Ordering::Equal {
            assert(lt(a[0], b[0]));
            lemma_lt_eqv::<(BigRational, T)>(a[0], b[0], c[0]);
        } else {
            assert(lt(a[0], b[0]) && lt(b[0], c[0]));
            assert(lt(a[0], c[0]));
        }
    }
}

pub proof fn lemma_eqv_lt<V: Ord>(x: V, y: V, z: V)
    requires ord_ok::<V>(), eqv(x, y), lt(y, z),
    ensures lt(x, z),
{
    lemma_ord_ok::<V>();
    // x ? z: if x > z then z < x ~ y so z < y contradiction with y < z; if x ~ z then y ~ z contradiction
    if gt(x, z) {
        assert(lt(z, x));
        assert(eqv(y, x));
        lemma_lt_eqv(z, x, y);
        assert(gt(y, z) <==> lt(z, y));
    } else if eqv(x, z) {
        assert(eqv(y, x));
        assert(eqv(y, z));
    }
}
pub proof fn lemma_lt_eqv<V: Ord>(x: V, y: V, z: V)
    requires ord_ok::<V>(), lt(x, y), eqv(y, z),
    ensures lt(x, z),
{
    reveal(vstd::laws_cmp::obeys_cmp);
    reveal(vstd::laws_cmp::obeys_cmp_partial_ord);
    reveal(vstd::laws_cmp::obeys_cmp_ord);
    reveal(vstd::laws_cmp::obeys_partial_cmp_spec_properties);
    reveal(vstd::laws_eq::obeys_eq);
    reveal(vstd::laws_eq::obeys_eq_spec_properties);
    lemma_ord_ok::<V>();
    assert(x.partial_cmp_spec(&y) == Some(Ordering::Less));
    assert(y.eq_spec(&z));
    if gt(x, z) {
        // z < x < y  ==> z < y, but y ~ z
        assert(lt(z, x));
        assert(lt(z, y));
        assert(eqv(z, y));
    } else if eqv(x, z) {
        assert(eqv(z, y));
        assert(eqv(x, y));
    }
}

/// Registration: the proved order satisfies vstd's (opaque) law bundle, so every BTreeMap / BTreeSet keyed by
/// Identifier (List, GList) gets its key-order hypothesis from this proof rather than from an assumption.
pub proof fn c14_identifier_obeys_cmp<T: Ord>()
    requires node_ok::<T>(), forall|x: (BigRational, T)| #[trigger] x.cmp_spec(&x) == Ordering::Equal,
    ensures vstd::laws_cmp::obeys_cmp::<Identifier<T>>(),
{
    reveal(vstd::laws_cmp::obeys_cmp);
    reveal(vstd::laws_cmp::obeys_cmp_partial_ord);
    reveal(vstd::laws_cmp::obeys_cmp_ord);
    reveal(vstd::laws_cmp::obeys_partial_cmp_spec_properties);
    reveal(vstd::laws_eq::obeys_eq);
    reveal(vstd::laws_eq::obeys_eq_spec_properties);
    assert forall|x: Identifier<T>, y: Identifier<T>| #[trigger] x.eq_spec(&y) <==> y.eq_spec(&x) by { c14_antisymmetric(x@, y@); }
    assert forall|x: Identifier<T>, y: Identifier<T>, z: Identifier<T>| x.eq_spec(&y) && #[trigger] y.eq_spec(&z) implies #[trigger] x.eq_spec(&z) by { c14_equal_trans(x@, y@, z@); }
    assert forall|x: Identifier<T>, y: Identifier<T>| (#[trigger] x.partial_cmp_spec(&y) == Some(Ordering::Less)) <==> (y.partial_cmp_spec(&x) == Some(Ordering::Greater)) by { c14_antisymmetric(x@, y@); }
    assert forall|x: Identifier<T>, y: Identifier<T>, z: Identifier<T>| x.partial_cmp_spec(&y) == Some(Ordering::Less) && #[trigger] y.partial_cmp_spec(&z) == Some(Ordering::Less) implies #[trigger] x.partial_cmp_spec(&z) == Some(Ordering::Less) by { c14_transitive(x@, y@, z@); }
    assert forall|x: Identifier<T>, y: Identifier<T>, z: Identifier<T>| x.partial_cmp_spec(&y) == Some(Ordering::Greater) && #[trigger] y.partial_cmp_spec(&z) == Some(Ordering::Greater) implies #[trigger] x.partial_cmp_spec(&z) == Some(Ordering::Greater) by {
        c14_antisymmetric(x@, y@); c14_antisymmetric(y@, z@); c14_transitive(z@, y@, x@); c14_antisymmetric(x@, z@);
    }
}

pub proof fn c14_equal_trans<T: Ord>(a: Seq<(BigRational, T)>, b: Seq<(BigRational, T)>, c: Seq<(BigRational, T)>)
    requires node_ok::<T>(), id_cmp(a, b) == Ordering::Equal, id_cmp(b, c) == Ordering::Equal,
    ensures id_cmp(a, c) == Ordering::Equal,
    decreases a.len(),
{
    lemma_ord_ok::<(BigRational, T)>();
    if a.len() > 0 && b.len() > 0 && c.len() > 0 {
        assert(eqv(a[0], b[0]) && eqv(b[0], c[0]));
        assert(eqv(a[0], c[0]));
        c14_equal_trans(a.drop_first(), b.drop_first(), c.drop_first());
    }
}

/// totality: exactly one of <, ==, > (the result type is a three-valued Ordering; with antisymmetry this is totality)
pub proof fn c14_total<T: Ord>(a: Seq<(BigRational, T)>, b: Seq<(BigRational, T)>)
    requires node_ok::<T>(),
    ensures id_cmp(a, b) == Ordering::Less || id_cmp(a, b) == Ordering::Equal || id_cmp(a, b) == Ordering::Greater,
{}

} // verus!
}
pub use crate::identifier::Identifier;
