pub mod identifier {
use vstd::prelude::*;
use core::cmp::Ordering;
use vstd::std_specs::cmp::{PartialEqSpec, PartialOrdSpec, OrdSpec};
use vstd::std_specs::iter::IteratorSpec;
use crate::num::rational::{BigRational, rat_cmp, rat_zero, rat_add_one, rat_sub_one, rat_mid, axiom_rational_order};
use crate::spec::*;
verus! {

//@extract fn src/identifier.rs "" rational_between
fn rational_between(low: Option<&BigRational>, high: Option<&BigRational>) -> /*@ (r: @*/ BigRational /*@ ) @*/
//@ ensures
//@     // strictly above a single lower bound, strictly below a single upper bound, strictly between two ordered bounds
//@     (low is Some && high is None) ==> rat_cmp(*low->0, r) == Ordering::Less,
//@     (low is None && high is Some) ==> rat_cmp(r, *high->0) == Ordering::Less,
//@     (low is Some && high is Some && rat_cmp(*low->0, *high->0) == Ordering::Less) ==> (rat_cmp(*low->0, r) == Ordering::Less && rat_cmp(r, *high->0) == Ordering::Less),
{
    match (low, high) {
        (None, None) => /*@ rat_zero() @*/ /*@<*/ BigRational::zero() /*@>*/ ,
        (Some(low), None) => /*@ rat_add_one(low) @*/ /*@<*/ low + BigRational::one() /*@>*/ ,
        (None, Some(high)) => /*@ rat_sub_one(high) @*/ /*@<*/ high - BigRational::one() /*@>*/ ,
        (Some(low), Some(high)) => /*@ rat_mid(low, high) @*/ /*@<*/ (low + high) / BigRational::from_integer(2.into()) /*@>*/ ,
    }
}
//@end

//@extract struct src/identifier.rs Identifier
pub struct Identifier<T>(Vec<(BigRational, T)>);
//@end

impl<T> View for Identifier<T> {
    type V = Seq<(BigRational, T)>;
    closed spec fn view(&self) -> Seq<(BigRational, T)> { self.0@ }
}

/// C14: identifiers are ordered lexicographically along their paths of (rational, marker) nodes;
/// when one path is a proper prefix of the other, the LONGER one sorts first
pub open spec fn id_cmp<T: Ord>(a: Seq<(BigRational, T)>, b: Seq<(BigRational, T)>) -> Ordering
    decreases a.len(),
{
    if a.len() == 0 && b.len() == 0 { Ordering::Equal }
    else if a.len() == 0 { Ordering::Greater }
    else if b.len() == 0 { Ordering::Less }
    else {
        match a[0].cmp_spec(&b[0]) {
            Ordering::Equal => id_cmp(a.drop_first(), b.drop_first()),
            o => o,
        }
    }
}

impl<T: Ord> vstd::std_specs::cmp::PartialEqSpecImpl for Identifier<T> {
    open spec fn obeys_eq_spec() -> bool { false }
    uninterp spec fn eq_spec(&self, other: &Self) -> bool;
}
// derive(PartialEq, Eq) on Identifier: not under contract (only `cmp` is used by the collections)
impl<T: Ord> PartialEq for Identifier<T> { #[verifier::external_body] fn eq(&self, other: &Self) -> bool { self.0 == other.0 } }
impl<T: Ord> Eq for Identifier<T> {}

impl<T: Ord> vstd::std_specs::cmp::PartialOrdSpecImpl for Identifier<T> {
    open spec fn obeys_partial_cmp_spec() -> bool { ord_ok::<T>() }
    open spec fn partial_cmp_spec(&self, other: &Self) -> Option<Ordering> { Some(id_cmp(self@, other@)) }
}
impl<T: Ord> PartialOrd for Identifier<T> {
//@extract fn src/identifier.rs "PartialOrd for Identifier" partial_cmp
    fn partial_cmp(&self, other: &Self) -> Option<Ordering> {
        Some(self.cmp(other))
    }
//@end
}

impl<T: Ord> vstd::std_specs::cmp::OrdSpecImpl for Identifier<T> {
    open spec fn obeys_cmp_spec() -> bool { ord_ok::<T>() }
    open spec fn cmp_spec(&self, other: &Self) -> Ordering { id_cmp(self@, other@) }
}
impl<T: Ord> Ord for Identifier<T> {
//@extract fn src/identifier.rs "Ord for Identifier" cmp
    fn cmp(&self, other: &Self) -> Ordering {
        let mut self_path = self.0.iter();
        let mut other_path = other.0.iter();
        //@ proof { axiom_rational_order(); if ord_ok::<T>() { lemma_ord_ok::<T>(); } assert(self_path.remaining().unref() =~= self@); assert(other_path.remaining().unref() =~= other@); }
        loop
        //@ invariant
        //@     self_path.decrease() is Some, self_path.obeys_prophetic_iter_laws(), other_path.obeys_prophetic_iter_laws(),
        //@     ord_ok::<T>() ==> id_cmp(self@, other@) == id_cmp(self_path.remaining().unref(), other_path.remaining().unref()),
        //@ decreases self_path.decrease()->0
        {
            //@ let ghost sr = self_path.remaining().unref();
            //@ let ghost or = other_path.remaining().unref();
            //@ proof { axiom_rational_order(); if ord_ok::<T>() { lemma_ord_ok::<T>(); } }
            match (self_path.next(), other_path.next()) {
                (Some(self_node), Some(other_node)) => match self_node.cmp(other_node) {
                    Ordering::Equal => /*@ { proof { if ord_ok::<T>() { assert(sr[0] == *self_node && or[0] == *other_node); assert(sr.len() > 0 && or.len() > 0); assert(id_cmp(sr, or) == id_cmp(sr.drop_first(), or.drop_first())); assert(self_path.remaining().unref() =~= sr.drop_first()); assert(other_path.remaining().unref() =~= or.drop_first()); } } @*/ continue /*@ } @*/ ,
                    ord => /*@ { proof { if ord_ok::<T>() { assert(sr[0] == *self_node && or[0] == *other_node); assert(sr.len() > 0 && or.len() > 0); assert(id_cmp(sr, or) == ord); } } @*/ return ord /*@ } @*/ ,
                },
                (None, Some(_)) => /*@ { proof { assert(sr.len() == 0 && or.len() > 0); } @*/ return Ordering::Greater /*@ } @*/ ,
                (Some(_), None) => /*@ { proof { assert(sr.len() > 0 && or.len() == 0); } @*/ return Ordering::Less /*@ } @*/ ,
                (None, None) => /*@ { proof { assert(sr.len() == 0 && or.len() == 0); } @*/ return Ordering::Equal /*@ } @*/ ,
            }
        }
    }
//@end
}

} // verus!
}
pub use crate::identifier::Identifier;
