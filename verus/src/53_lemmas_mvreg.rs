// Layer L for MVReg (C06 and the MVReg rows of C01/C02/C03/C08/C09/C20): the register content is the
// set of causally maximal writes of the knowledge set -- with NO assumption on delivery order.
pub mod lemmas_mvreg {
use vstd::prelude::*;
use vstd::map::Map as SMap;
use vstd::set::Set as SSet;
use vstd::std_specs::cmp::PartialEqSpec;
use crate::spec::*;
use crate::vclock::VClock;
use crate::mvreg::*;
verus! {

/// a write: (context clock, value)
pub type W<V, A> = (SMap<A, u64>, V);

pub open spec fn vlt_trans_facts() -> bool { true }

pub proof fn lemma_vle_trans<A>(x: SMap<A, u64>, y: SMap<A, u64>, z: SMap<A, u64>)
    requires vle(x, y), vle(y, z), ensures vle(x, z),
{ assert forall|a: A| cnt(x, a) <= cnt(z, a) by { assert(cnt(x, a) <= cnt(y, a) && cnt(y, a) <= cnt(z, a)); } }

pub proof fn lemma_vle_antisym<A>(x: SMap<A, u64>, y: SMap<A, u64>)
    requires nz(x), nz(y), vle(x, y), vle(y, x), ensures x == y,
{ assert forall|a: A| cnt(x, a) == cnt(y, a) by { assert(cnt(x, a) <= cnt(y, a) && cnt(y, a) <= cnt(x, a)); } lemma_cnt_ext(x, y); }

/// `s` shows exactly the causally maximal writes of the (finite or not) knowledge set `h`
pub open spec fn repr<V, A: Ord>(s: Seq<(VClock<A>, V)>, h: SSet<W<V, A>>) -> bool {
    &&& seq_wf(s)                                                                                  // pairwise concurrent, no empty context
    &&& forall|i: int| 0 <= i < s.len() ==> h.contains(((#[trigger] s[i]).0@, s[i].1))            // only applied writes are shown
    &&& forall|w: W<V, A>| #[trigger] h.contains(w) ==> exists|i: int| 0 <= i < s.len() && vle(w.0, (#[trigger] s[i]).0@)   // every applied write is shown or superseded by a shown one
    &&& forall|i: int, w: W<V, A>| 0 <= i < s.len() && #[trigger] h.contains(w) ==> !clt((#[trigger] s[i]).0@, w.0)        // nothing shown has been superseded
}
pub open spec fn h_ok<V, A>(h: SSet<W<V, A>>) -> bool {
    forall|w: W<V, A>| #[trigger] h.contains(w) ==> nz(w.0) && w.0 != SMap::<A, u64>::empty()
}

pub proof fn lmv_init<V, A: Ord>()
    ensures repr(Seq::<(VClock<A>, V)>::empty(), SSet::<W<V, A>>::empty()),
{
    assert(pairwise(Seq::<(VClock<A>, V)>::empty(), incomparable::<V, A>()));
}

/// the state after `apply(Put{c, v})`, as the F-contract of MVReg::apply states it
pub open spec fn put_spec<V, A: Ord>(s: Seq<(VClock<A>, V)>, c: VClock<A>, v: V) -> Seq<(VClock<A>, V)> {
    let kept = s.filter(keep_put::<V, A>(c@));
    if put_adds(kept, c@) { kept.push((c, v)) } else { kept }
}

/// L.apply (and L.dup as a special case): applying any write -- early, late, duplicated, in any order --
/// moves the register to the maximal writes of the enlarged knowledge set
pub proof fn lmv_apply<V, A: Ord>(s: Seq<(VClock<A>, V)>, h: SSet<W<V, A>>, c: VClock<A>, v: V)
    requires repr(s, h), h_ok(h), nz(c@), c@ != SMap::<A, u64>::empty(),
    ensures repr(put_spec(s, c, v), h.insert((c@, v))),
{
    let p = keep_put::<V, A>(c@);
    let kept = s.filter(p);
    let fin = put_spec(s, c, v);
    let h2 = h.insert((c@, v));
    lemma_filter_sub(s, p);
    if put_adds(kept, c@) { assert(fin.drop_last() =~= kept); }
    lemma_put_wf(s, kept, fin, c@);
    // every kept element is an element of s
    assert forall|i: int| 0 <= i < fin.len() implies h2.contains(((#[trigger] fin[i]).0@, fin[i].1)) by {
        if i < kept.len() {
            assert(fin[i] == kept[i]);
            assert(s.contains(kept[i]));
            let j = choose|j: int| 0 <= j < s.len() && s[j] == kept[i];
            assert(h.contains((s[j].0@, s[j].1)));
        }
    }
    // everything applied is below something shown
    assert forall|w: W<V, A>| #[trigger] h2.contains(w) implies exists|i: int| 0 <= i < fin.len() && vle(w.0, (#[trigger] fin[i]).0@) by {
        if w == (c@, v) {
            lemma_covered_new(kept, fin, c@);
        } else {
            assert(h.contains(w));
            let i = choose|i: int| 0 <= i < s.len() && vle(w.0, (#[trigger] s[i]).0@);
            if p(s[i]) {
                s.lemma_filter_contains(p, i);
                assert(kept.contains(s[i]));
                let k = choose|k: int| 0 <= k < kept.len() && kept[k] == s[i];
                assert(fin[k] == kept[k]);
                assert(0 <= k < fin.len() && vle(w.0, fin[k].0@));
            } else {
                assert(vle(s[i].0@, c@));
                lemma_vle_trans(w.0, s[i].0@, c@);
                lemma_covered_new(kept, fin, c@);
                let k = choose|k: int| 0 <= k < fin.len() && vle(c@, (#[trigger] fin[k]).0@);
                lemma_vle_trans(w.0, c@, fin[k].0@);
            }
        }
    }
    // nothing shown is superseded
    assert forall|i: int, w: W<V, A>| 0 <= i < fin.len() && #[trigger] h2.contains(w) implies !clt((#[trigger] fin[i]).0@, w.0) by {
        if i < kept.len() {
            assert(fin[i] == kept[i]);
            assert(s.contains(kept[i]) && p(kept[i]));
            let j = choose|j: int| 0 <= j < s.len() && s[j] == kept[i];
            if w == (c@, v) { } else { assert(h.contains(w)); assert(!clt(s[j].0@, w.0)); }
        } else {
            // the new write: not superseded by anything known
            assert(fin[i].0@ == c@);
            if w != (c@, v) && clt(c@, w.0) {
                assert(h.contains(w));
                let j = choose|j: int| 0 <= j < s.len() && vle(w.0, (#[trigger] s[j]).0@);
                lemma_vle_trans(c@, w.0, s[j].0@);
                if p(s[j]) {
                    s.lemma_filter_contains(p, j);
                    let k = choose|k: int| 0 <= k < kept.len() && kept[k] == s[j];
                    assert(!clt(c@, kept[k].0@));
                    assert(c@ == s[j].0@);
                    lemma_vle_antisym(c@, w.0);
                } else {
                    assert(vle(s[j].0@, c@));
                    lemma_vle_trans(w.0, s[j].0@, c@);
                    lemma_vle_antisym(c@, w.0);
                }
            }
        }
    }
}

/// the incoming write is shown, or some shown value has observed it
pub proof fn lemma_covered_new<V, A: Ord>(kept: Seq<(VClock<A>, V)>, fin: Seq<(VClock<A>, V)>, c: SMap<A, u64>)
    requires fin =~= kept || (put_adds(kept, c) && fin.len() == kept.len() + 1 && fin.drop_last() =~= kept && fin.last().0@ == c),
             fin =~= kept ==> !put_adds(kept, c),
    ensures exists|k: int| 0 <= k < fin.len() && vle(c, (#[trigger] fin[k]).0@),
{
    if put_adds(kept, c) && fin.len() == kept.len() + 1 {
        let k = fin.len() - 1;
        assert(fin[k] == fin.last());
        assert(0 <= k < fin.len() && vle(c, fin[k].0@));
    } else {
        let i = choose|i: int| 0 <= i < kept.len() && clt(c, (#[trigger] kept[i]).0@);
        assert(fin[i] == kept[i]);
        assert(0 <= i < fin.len() && vle(c, fin[i].0@));
    }
}

pub open spec fn shows_ctx<V, A: Ord>(s: Seq<(VClock<A>, V)>, c: SMap<A, u64>) -> bool { exists|j: int| 0 <= j < s.len() && (#[trigger] s[j]).0@ == c }

/// L.unique: two registers that learned the same writes show the same contexts (hence, writes being
/// determined by their context -- W4 -- the same values): equal knowledge gives equal reads and `==`
pub proof fn lmv_unique<V, A: Ord>(s1: Seq<(VClock<A>, V)>, s2: Seq<(VClock<A>, V)>, h: SSet<W<V, A>>)
    requires repr(s1, h), repr(s2, h), h_ok(h),
    ensures forall|i: int| 0 <= i < s1.len() ==> shows_ctx(s2, (#[trigger] s1[i]).0@),
{
    assert forall|i: int| 0 <= i < s1.len() implies shows_ctx(s2, (#[trigger] s1[i]).0@) by {
        let w = (s1[i].0@, s1[i].1);
        assert(h.contains(w));
        let j = choose|j: int| 0 <= j < s2.len() && vle(w.0, (#[trigger] s2[j]).0@);
        let w2 = (s2[j].0@, s2[j].1);
        assert(h.contains(w2));
        assert(!clt(s1[i].0@, w2.0));
        assert(s1[i].0@ == s2[j].0@);
    }
}

/// clt is transitive through vle on clocks without stored zeros
pub proof fn lemma_clt_vle<A>(x: SMap<A, u64>, y: SMap<A, u64>, z: SMap<A, u64>)
    requires nz(x), nz(y), nz(z), clt(x, y), vle(y, z),
    ensures clt(x, z),
{
    lemma_vle_trans(x, y, z);
    if x == z { lemma_vle_antisym(x, y); }
}
pub proof fn lemma_vle_clt<A>(x: SMap<A, u64>, y: SMap<A, u64>, z: SMap<A, u64>)
    requires nz(x), nz(y), nz(z), vle(x, y), clt(y, z),
    ensures clt(x, z),
{
    lemma_vle_trans(x, y, z);
    if x == z { lemma_vle_antisym(y, z); }
}

/// the state after `merge`, as the F-contract of MVReg::merge states it
pub open spec fn merge_spec<V, A: Ord>(s: Seq<(VClock<A>, V)>, o: Seq<(VClock<A>, V)>) -> Seq<(VClock<A>, V)> {
    let s1 = s.filter(undominated(o));
    s1 + o.filter(undominated(s1)).filter(fresh_ctx(s1))
}

/// every element of o is below-or-equal some element of the merge result
pub proof fn lemma_merge_covers_o<V, A: Ord>(s: Seq<(VClock<A>, V)>, o: Seq<(VClock<A>, V)>, j: int)
    requires seq_wf(s), seq_wf(o), 0 <= j < o.len(),
    ensures exists|k: int| 0 <= k < merge_spec(s, o).len() && vle(o[j].0@, (#[trigger] merge_spec(s, o)[k]).0@),
{
    let s1 = s.filter(undominated(o));
    let o0 = o.filter(undominated(s1));
    let o1 = o0.filter(fresh_ctx(s1));
    let fin = merge_spec(s, o);
    assert(fin == s1 + o1);
    let y = o[j];
    if !undominated(s1)(y) {
        let i = choose|i: int| 0 <= i < s1.len() && clt(y.0@, (#[trigger] s1[i]).0@);
        assert(fin[i] == s1[i]);
        assert(0 <= i < fin.len() && vle(y.0@, fin[i].0@));
    } else if !fresh_ctx(s1)(y) {
        let i = choose|i: int| 0 <= i < s1.len() && (#[trigger] s1[i]).0@ == y.0@;
        assert(fin[i] == s1[i]);
        assert(0 <= i < fin.len() && vle(y.0@, fin[i].0@));
    } else {
        o.lemma_filter_contains(undominated(s1), j);
        let k0 = choose|k0: int| 0 <= k0 < o0.len() && o0[k0] == y;
        o0.lemma_filter_contains(fresh_ctx(s1), k0);
        let k1 = choose|k1: int| 0 <= k1 < o1.len() && o1[k1] == y;
        assert(fin[s1.len() + k1] == o1[k1]);
        assert(0 <= s1.len() + k1 < fin.len() && vle(y.0@, fin[s1.len() + k1].0@));
    }
}

/// every element of s is below-or-equal some element of the merge result
pub proof fn lemma_merge_covers_s<V, A: Ord>(s: Seq<(VClock<A>, V)>, o: Seq<(VClock<A>, V)>, i: int)
    requires seq_wf(s), seq_wf(o), 0 <= i < s.len(),
    ensures exists|k: int| 0 <= k < merge_spec(s, o).len() && vle(s[i].0@, (#[trigger] merge_spec(s, o)[k]).0@),
{
    let s1 = s.filter(undominated(o));
    let fin = merge_spec(s, o);
    let x = s[i];
    if undominated(o)(x) {
        s.lemma_filter_contains(undominated(o), i);
        let k = choose|k: int| 0 <= k < s1.len() && s1[k] == x;
        assert(fin[k] == s1[k]);
        assert(0 <= k < fin.len() && vle(x.0@, fin[k].0@));
    } else {
        let j = choose|j: int| 0 <= j < o.len() && clt(x.0@, (#[trigger] o[j]).0@);
        lemma_merge_covers_o(s, o, j);
        let k = choose|k: int| 0 <= k < fin.len() && vle(o[j].0@, (#[trigger] fin[k]).0@);
        lemma_vle_trans(x.0@, o[j].0@, fin[k].0@);
    }
}

/// L.merge: merging two registers gives the maximal writes of the union of what they learned
pub proof fn lmv_merge<V, A: Ord>(s: Seq<(VClock<A>, V)>, o: Seq<(VClock<A>, V)>, h1: SSet<W<V, A>>, h2: SSet<W<V, A>>)
    requires repr(s, h1), repr(o, h2), h_ok(h1), h_ok(h2),
    ensures repr(merge_spec(s, o), h1.union(h2)),
{
    let s1 = s.filter(undominated(o));
    let o0 = o.filter(undominated(s1));
    let o1 = o0.filter(fresh_ctx(s1));
    let fin = merge_spec(s, o);
    let h = h1.union(h2);
    lemma_merge_wf(s, o, s1, o1, fin);
    lemma_filter_sub(s, undominated(o));
    lemma_filter_sub(o, undominated(s1));
    lemma_filter_sub(o0, fresh_ctx(s1));
    lemma_filter_wf(s, undominated(o));
    assert forall|k: int| 0 <= k < fin.len() implies h.contains(((#[trigger] fin[k]).0@, fin[k].1)) by {
        if k < s1.len() {
            assert(fin[k] == s1[k]); assert(s.contains(s1[k]));
            let i = choose|i: int| 0 <= i < s.len() && s[i] == s1[k];
            assert(h1.contains((s[i].0@, s[i].1)));
        } else {
            let y = o1[k - s1.len()];
            assert(fin[k] == y); assert(o0.contains(y));
            let k0 = choose|k0: int| 0 <= k0 < o0.len() && o0[k0] == y;
            assert(o.contains(o0[k0]));
            let j = choose|j: int| 0 <= j < o.len() && o[j] == y;
            assert(h2.contains((o[j].0@, o[j].1)));
        }
    }
    assert forall|w: W<V, A>| #[trigger] h.contains(w) implies exists|k: int| 0 <= k < fin.len() && vle(w.0, (#[trigger] fin[k]).0@) by {
        if h1.contains(w) {
            let i = choose|i: int| 0 <= i < s.len() && vle(w.0, (#[trigger] s[i]).0@);
            lemma_merge_covers_s(s, o, i);
            let k = choose|k: int| 0 <= k < fin.len() && vle(s[i].0@, (#[trigger] fin[k]).0@);
            lemma_vle_trans(w.0, s[i].0@, fin[k].0@);
        } else {
            assert(h2.contains(w));
            let j = choose|j: int| 0 <= j < o.len() && vle(w.0, (#[trigger] o[j]).0@);
            lemma_merge_covers_o(s, o, j);
            let k = choose|k: int| 0 <= k < fin.len() && vle(o[j].0@, (#[trigger] fin[k]).0@);
            lemma_vle_trans(w.0, o[j].0@, fin[k].0@);
        }
    }
    assert forall|k: int, w: W<V, A>| 0 <= k < fin.len() && #[trigger] h.contains(w) implies !clt((#[trigger] fin[k]).0@, w.0) by {
        if clt(fin[k].0@, w.0) {
            assert(nz(w.0));
            if k < s1.len() {
                let e = s1[k];
                assert(fin[k] == e); assert(s.contains(e) && undominated(o)(e));
                let i = choose|i: int| 0 <= i < s.len() && s[i] == e;
                if h1.contains(w) { assert(!clt(s[i].0@, w.0)); }
                else {
                    assert(h2.contains(w));
                    let j = choose|j: int| 0 <= j < o.len() && vle(w.0, (#[trigger] o[j]).0@);
                    lemma_clt_vle(e.0@, w.0, o[j].0@);
                    assert(dominated(e.0@, o));
                }
                assert(false);
            } else {
                let y = o1[k - s1.len()];
                assert(fin[k] == y); assert(o0.contains(y) && fresh_ctx(s1)(y));
                let k0 = choose|k0: int| 0 <= k0 < o0.len() && o0[k0] == y;
                assert(o.contains(o0[k0]) && undominated(s1)(o0[k0]));
                let j = choose|j: int| 0 <= j < o.len() && o[j] == y;
                if h2.contains(w) { assert(!clt(o[j].0@, w.0)); }
                else {
                    assert(h1.contains(w));
                    let i = choose|i: int| 0 <= i < s.len() && vle(w.0, (#[trigger] s[i]).0@);
                    lemma_clt_vle(y.0@, w.0, s[i].0@);
                    if undominated(o)(s[i]) {
                        s.lemma_filter_contains(undominated(o), i);
                        let k1 = choose|k1: int| 0 <= k1 < s1.len() && s1[k1] == s[i];
                        assert(dominated(y.0@, s1));
                    } else {
                        let j2 = choose|j2: int| 0 <= j2 < o.len() && clt(s[i].0@, (#[trigger] o[j2]).0@);
                        lemma_vle_clt(y.0@, s[i].0@, o[j2].0@);
                        if j2 != j { assert(incomparable::<V, A>()(o[j], o[j2])); }
                    }
                }
                assert(false);
            }
        }
    }
}

/// C06 reading of `repr`: a write is shown iff it was applied and no applied write has observed it
pub proof fn c06_shown_iff_maximal<V, A: Ord>(s: Seq<(VClock<A>, V)>, h: SSet<W<V, A>>, w: W<V, A>)
    requires repr(s, h), h_ok(h), h.contains(w),
    ensures (exists|i: int| 0 <= i < s.len() && (#[trigger] s[i]).0@ == w.0) <==> !(exists|w2: W<V, A>| #[trigger] h.contains(w2) && clt(w.0, w2.0)),
{
    if exists|i: int| 0 <= i < s.len() && (#[trigger] s[i]).0@ == w.0 {
        let i = choose|i: int| 0 <= i < s.len() && (#[trigger] s[i]).0@ == w.0;
        assert forall|w2: W<V, A>| #[trigger] h.contains(w2) implies !clt(w.0, w2.0) by { assert(!clt(s[i].0@, w2.0)); }
    }
    if !(exists|w2: W<V, A>| #[trigger] h.contains(w2) && clt(w.0, w2.0)) {
        let i = choose|i: int| 0 <= i < s.len() && vle(w.0, (#[trigger] s[i]).0@);
        let w2 = (s[i].0@, s[i].1);
        assert(h.contains(w2));
        assert(!clt(w.0, w2.0));
        assert(s[i].0@ == w.0);
    }
}

/// the sanity `assert_eq!(num_found, 1)` in MVReg::eq (hidden from Verus, normalisation N5) cannot fire
/// on a well-formed register: at most one stored write matches
pub proof fn c20_eq_sanity_check_unreachable<V: PartialEq, A: Ord>(o: Seq<(VClock<A>, V)>, x: (VClock<A>, V))
    requires seq_wf(o),
    ensures o.filter(teq_to(x)).len() <= 1,
{
    let f = o.filter(teq_to(x));
    lemma_filter_pairwise(o, teq_to(x), incomparable::<V, A>());
    lemma_filter_sub(o, teq_to(x));
    if f.len() >= 2 {
        assert(teq_to(x)(f[0]) && teq_to(x)(f[1]));
        assert(incomparable::<V, A>()(f[0], f[1]));
        assert(f[0].0@ == f[1].0@);
        assert(vle(f[0].0@, f[1].0@));
    }
}

} // verus!
}
