// Layer L for the sequence CRDT List (C12, C13): consequences of the function contracts of 16_list.rs.
//
// Nothing here is extracted from /repo: these are lemmas over the spec vocabulary the contracts of the
// real functions are written in (is_order, apply_post_list, id_cmp).  A change of the code is noticed at the function
// whose contract it breaks; the lemmas carry that contract to the statement of the property.
pub mod lemmas_list {
use vstd::prelude::*;
use vstd::map::Map as SMap;
use core::cmp::Ordering;
use crate::spec::*;
use crate::identifier::*;
use crate::list::*;
use crate::lemmas_idorder::*;
use crate::{Dot, Identifier, OrdDot};
verus! {

/// C13 end to end for List: on any state, the op `insert_index(ix, x, actor)` returns (its contract), applied to the same
/// state (apply's contract), makes x the min(ix, len)-th element and keeps every other element and their order
pub proof fn c13_list_insert_index_then_apply<T, A: Ord + Clone + Eq>(st: List<T, A>, op: Op<T, A>, st2: List<T, A>, s: Seq<Id<A>>, ix: int, x: T, actor: A)
    requires node_ok::<OrdDot<A>>(), is_order(s, st.sq()), ix >= 0,
        // contract of insert_index
        op is Insert, op->Insert_val == x, op.dot_spec().actor == actor, op.dot_spec().counter == cnt(st.cl(), actor) + 1,
        ({ let i = if ix <= s.len() { ix } else { s.len() as int };
           (i > 0 ==> idlt(s[i - 1], op->Insert_id)) && (i < s.len() ==> idlt(op->Insert_id, s[i])) }),
        // contract of apply
        apply_post_list(st, op, st2),
    ensures ({ let i = if ix <= s.len() { ix } else { s.len() as int };
        is_order(s.insert(i, op->Insert_id), st2.sq()) && st2.sq()[op->Insert_id] == x
        && st2.sq() == st.sq().insert(op->Insert_id, x) }),
{
    let i = if ix <= s.len() { ix } else { s.len() as int };
    c13_insert_lands(s, st.sq().dom(), op->Insert_id, i);
    assert(st.sq().insert(op->Insert_id, x).dom() =~= st.sq().dom().insert(op->Insert_id));
}

/// C13 end to end for List: `delete_index(ix, actor)` then apply removes exactly the ix-th element
pub proof fn c13_list_delete_index_then_apply<T, A: Ord + Clone + Eq>(st: List<T, A>, op: Op<T, A>, st2: List<T, A>, s: Seq<Id<A>>, ix: int, actor: A)
    requires node_ok::<OrdDot<A>>(), is_order(s, st.sq()), 0 <= ix < s.len(),
        // contract of delete_index
        op is Delete, op->Delete_id == s[ix], op->Delete_dot.actor == actor, op->Delete_dot.counter == cnt(st.cl(), actor) + 1,
        // contract of apply
        apply_post_list(st, op, st2),
    ensures is_order(s.remove(ix), st2.sq()), st2.sq() == st.sq().remove(s[ix]),
{
    c13_delete_lands(s, st.sq().dom(), ix);
    assert(st.sq().remove(s[ix]).dom() =~= st.sq().dom().remove(s[ix]));
}

// ---------------------------------------------------------------------------------------------------------------
// C13 for GList: contracts of insert / insert_after / insert_before composed with the contract of apply

/// `insert(idx, x)` then apply: x's identifier becomes the idx-th element, the rest keeps its order
pub proof fn c13_glist_insert_then_apply<M: Ord>(s: Seq<Identifier<M>>, ls: Set<Identifier<M>>, id: Identifier<M>, idx: int, ls2: Set<Identifier<M>>)
    requires node_ok::<M>(), id_order(s, ls), 0 <= idx <= s.len(),
        // contract of insert
        idx > 0 ==> idlt(s[idx - 1], id), idx < s.len() ==> idlt(id, s[idx]),
        // contract of apply
        ls2 == ls.insert(id),
    ensures id_order(s.insert(idx, id), ls2), s.insert(idx, id)[idx] == id, !ls.contains(id),
{
    c13_insert_lands(s, ls, id, idx);
}

/// `insert_after(Some(s[j]), x)` then apply: x's identifier becomes the element right after s[j]
pub proof fn c13_glist_insert_after_then_apply<M: Ord>(s: Seq<Identifier<M>>, ls: Set<Identifier<M>>, id: Identifier<M>, j: int, ls2: Set<Identifier<M>>)
    requires node_ok::<M>(), id_order(s, ls), 0 <= j < s.len(),
        // contract of insert_after(Some(&s[j]), x)
        idlt(s[j], id), forall|y: Identifier<M>| #[trigger] ls.contains(y) && idlt(s[j], y) ==> idlt(id, y),
        // contract of apply
        ls2 == ls.insert(id),
    ensures id_order(s.insert(j + 1, id), ls2), s.insert(j + 1, id)[j + 1] == id, s.insert(j + 1, id)[j] == s[j], !ls.contains(id),
{
    if j + 1 < s.len() { assert(idlt(s[j], s[j + 1])); assert(s.to_set().contains(s[j + 1])); assert(ls.contains(s[j + 1])); }
    c13_insert_lands(s, ls, id, j + 1);
}

/// `insert_before(Some(s[j]), x)` then apply: x's identifier becomes the element right before s[j]
pub proof fn c13_glist_insert_before_then_apply<M: Ord>(s: Seq<Identifier<M>>, ls: Set<Identifier<M>>, id: Identifier<M>, j: int, ls2: Set<Identifier<M>>)
    requires node_ok::<M>(), id_order(s, ls), 0 <= j < s.len(),
        // contract of insert_before(Some(&s[j]), x)
        idlt(id, s[j]), forall|y: Identifier<M>| #[trigger] ls.contains(y) && idlt(y, s[j]) ==> idlt(y, id),
        // contract of apply
        ls2 == ls.insert(id),
    ensures id_order(s.insert(j, id), ls2), s.insert(j, id)[j] == id, s.insert(j, id)[j + 1] == s[j], !ls.contains(id),
{
    if j > 0 { assert(idlt(s[j - 1], s[j])); assert(s.to_set().contains(s[j - 1])); assert(ls.contains(s[j - 1])); }
    c13_insert_lands(s, ls, id, j);
}

/// C12 for GList (grow-only): the state is the set of delivered identifiers whatever the order / duplication of delivery and
/// merging, so replicas with the same delivered ops show the same sequence
pub proof fn c12_glist_same_set_same_sequence<M: Ord>(s1: Seq<Identifier<M>>, s2: Seq<Identifier<M>>, ls: Set<Identifier<M>>)
    requires node_ok::<M>(), id_order(s1, ls), id_order(s2, ls),
    ensures s1 == s2,
{
    c12_order_unique(s1, s2, ls);
}

// ---------------------------------------------------------------------------------------------------------------
// C12: under causal delivery the state is a function of the set of delivered ops

/// U is the set of all ops of a history produced through the API: dots name ops, an identifier is introduced by one
/// insert, inserted identifiers are non-empty, a delete names an inserted identifier
pub open spec fn history_ok<T, A: Ord + Clone + Eq>(u: Set<Op<T, A>>) -> bool {
    &&& forall|o1: Op<T, A>, o2: Op<T, A>| #![trigger u.contains(o1), u.contains(o2)] u.contains(o1) && u.contains(o2) && o1.dot_spec() == o2.dot_spec() ==> o1 == o2
    &&& forall|o1: Op<T, A>, o2: Op<T, A>| #![trigger u.contains(o1), u.contains(o2)] u.contains(o1) && u.contains(o2) && o1 is Insert && o2 is Insert && o1->Insert_id == o2->Insert_id ==> o1 == o2
    &&& forall|o: Op<T, A>| #[trigger] u.contains(o) ==> o.dot_spec().counter >= 1
}

/// the delivered set d is exactly the ops of u the clock covers (per-actor prefixes: what causal delivery produces)
pub open spec fn delivered<T, A: Ord + Clone + Eq>(d: Set<Op<T, A>>, u: Set<Op<T, A>>, clock: SMap<A, u64>) -> bool {
    forall|o: Op<T, A>| #[trigger] d.contains(o) <==> (u.contains(o) && o.dot_spec().counter <= cnt(clock, o.dot_spec().actor))
}

/// a delivered delete is preceded by the insert it names (causal delivery)
pub open spec fn causal_closed<T, A: Ord + Clone + Eq>(d: Set<Op<T, A>>) -> bool {
    forall|id: Id<A>, dot: Dot<A>| #[trigger] d.contains(Op::Delete { id, dot }) ==> exists|v: T| d.contains(Op::Insert { id, val: v })
}

/// the identifier map denoted by a delivered set: inserted and not deleted, with the inserted value
pub open spec fn denotes<T, A: Ord + Clone + Eq>(m: SMap<Id<A>, T>, d: Set<Op<T, A>>) -> bool {
    &&& forall|id: Id<A>| #[trigger] m.contains_key(id) <==> ((exists|v: T| d.contains(Op::Insert { id, val: v })) && !(exists|dot: Dot<A>| d.contains(Op::Delete { id, dot })))
    &&& forall|id: Id<A>, v: T| #![trigger d.contains(Op::Insert { id, val: v })] m.contains_key(id) && d.contains(Op::Insert { id, val: v }) ==> m[id] == v
}

/// C12 (state is a function of the delivered set): delivering one more op of the history in causal order (it is the
/// next op of its actor or a re-delivery, and a delete arrives after the insert it names) keeps the replica equal to
/// the denotation of its delivered set
pub proof fn c12_apply_step<T, A: Ord + Clone + Eq>(st: List<T, A>, op: Op<T, A>, st2: List<T, A>, d: Set<Op<T, A>>, u: Set<Op<T, A>>)
    requires
        history_ok(u), delivered(d, u, st.cl()), denotes(st.sq(), d), causal_closed(d),
        u.contains(op),
        // causal delivery
        op.dot_spec().counter <= cnt(st.cl(), op.dot_spec().actor) + 1,
        op is Delete ==> exists|v: T| d.contains(Op::Insert { id: op->Delete_id, val: v }),
        // contract of apply
        apply_post_list(st, op, st2),
    ensures
        delivered(d.insert(op), u, st2.cl()), denotes(st2.sq(), d.insert(op)), causal_closed(d.insert(op)),
{
    let dt = op.dot_spec();
    let d2 = d.insert(op);
    if dt.counter <= cnt(st.cl(), dt.actor) {
        assert(d.contains(op));
        assert(d2 =~= d);
    } else {
        assert(!d.contains(op));
        assert forall|o: Op<T, A>| #[trigger] d2.contains(o) <==> (u.contains(o) && o.dot_spec().counter <= cnt(st2.cl(), o.dot_spec().actor)) by {
            if o.dot_spec().actor == dt.actor {
                if u.contains(o) && o.dot_spec().counter == dt.counter { assert(o.dot_spec() == dt); assert(o == op); }
            } else {
                assert(cnt(st2.cl(), o.dot_spec().actor) == cnt(st.cl(), o.dot_spec().actor));
            }
        }
        match op {
            Op::Insert { id, val } => {
                // no other insert of this identifier exists in the history, and no delete of it was delivered (a delete
                // follows its insert)
                assert forall|v: T| d.contains(Op::Insert { id, val: v }) implies false by {
                    assert(u.contains(Op::Insert { id, val: v }));
                    assert(Op::Insert { id, val: v } == op);
                }
                assert(!st.sq().contains_key(id));
                assert forall|dot: Dot<A>| !d.contains(Op::Delete { id, dot }) by { }
                assert(d.subset_of(u));
                l_denote_insert(st.sq(), d, u, id, val);
            }
            Op::Delete { id, dot } => {
                l_denote_delete(st.sq(), d, id, dot);
            }
        }
        assert forall|id: Id<A>, dot: Dot<A>| #[trigger] d2.contains(Op::Delete { id, dot }) implies exists|v: T| d2.contains(Op::Insert { id, val: v }) by {
            if d.contains(Op::Delete { id, dot }) { let v = choose|v: T| d.contains(Op::Insert { id, val: v }); assert(d2.contains(Op::Insert { id, val: v })); }
            else { let v = choose|v: T| d.contains(Op::Insert { id: op->Delete_id, val: v }); assert(d2.contains(Op::Insert { id, val: v })); }
        }
    }
}

proof fn l_denote_insert<T, A: Ord + Clone + Eq>(m: SMap<Id<A>, T>, d: Set<Op<T, A>>, u: Set<Op<T, A>>, id: Id<A>, val: T)
    requires denotes(m, d), !m.contains_key(id), history_ok(u), d.subset_of(u), u.contains(Op::Insert { id, val }),
        forall|v: T| !d.contains(Op::Insert { id, val: v }),
        // a delete of this identifier may only have been delivered after its insert
        forall|dot: Dot<A>| !d.contains(Op::Delete { id, dot }),
    ensures denotes(m.insert(id, val), d.insert(Op::Insert { id, val })),
{
    let op = Op::Insert { id, val };
    let m2 = m.insert(id, val);
    let d2 = d.insert(op);
    assert forall|k: Id<A>| #[trigger] m2.contains_key(k) <==> ((exists|v: T| d2.contains(Op::Insert { id: k, val: v })) && !(exists|dot: Dot<A>| d2.contains(Op::Delete { id: k, dot }))) by {
        if k == id {
            assert(d2.contains(Op::Insert { id: k, val }));
            assert forall|dot: Dot<A>| !d2.contains(Op::Delete { id: k, dot }) by { }
        } else {
            assert(m2.contains_key(k) == m.contains_key(k));
            if exists|v: T| d2.contains(Op::Insert { id: k, val: v }) { let v = choose|v: T| d2.contains(Op::Insert { id: k, val: v }); assert(d.contains(Op::Insert { id: k, val: v })); }
            if exists|v: T| d.contains(Op::Insert { id: k, val: v }) { let v = choose|v: T| d.contains(Op::Insert { id: k, val: v }); assert(d2.contains(Op::Insert { id: k, val: v })); }
            if exists|dot: Dot<A>| d2.contains(Op::Delete { id: k, dot }) { let dot = choose|dot: Dot<A>| d2.contains(Op::Delete { id: k, dot }); assert(d.contains(Op::Delete { id: k, dot })); }
            if exists|dot: Dot<A>| d.contains(Op::Delete { id: k, dot }) { let dot = choose|dot: Dot<A>| d.contains(Op::Delete { id: k, dot }); assert(d2.contains(Op::Delete { id: k, dot })); }
        }
    }
    assert forall|k: Id<A>, v: T| #![trigger d2.contains(Op::Insert { id: k, val: v })] m2.contains_key(k) && d2.contains(Op::Insert { id: k, val: v }) implies m2[k] == v by {
        if k == id { assert(u.contains(Op::Insert { id: k, val: v })); assert(Op::Insert { id: k, val: v } == op); }
        else { assert(d.contains(Op::Insert { id: k, val: v })); }
    }
}

proof fn l_denote_delete<T, A: Ord + Clone + Eq>(m: SMap<Id<A>, T>, d: Set<Op<T, A>>, id: Id<A>, dot: Dot<A>)
    requires denotes(m, d),
    ensures denotes(m.remove(id), d.insert(Op::Delete { id, dot })),
{
    let op = Op::<T, A>::Delete { id, dot };
    let m2 = m.remove(id);
    let d2 = d.insert(op);
    assert forall|k: Id<A>| #[trigger] m2.contains_key(k) <==> ((exists|v: T| d2.contains(Op::Insert { id: k, val: v })) && !(exists|dt: Dot<A>| d2.contains(Op::Delete { id: k, dot: dt }))) by {
        if k == id {
            assert(d2.contains(Op::Delete { id: k, dot }));
        } else {
            assert(m2.contains_key(k) == m.contains_key(k));
            if exists|v: T| d2.contains(Op::Insert { id: k, val: v }) { let v = choose|v: T| d2.contains(Op::Insert { id: k, val: v }); assert(d.contains(Op::Insert { id: k, val: v })); }
            if exists|v: T| d.contains(Op::Insert { id: k, val: v }) { let v = choose|v: T| d.contains(Op::Insert { id: k, val: v }); assert(d2.contains(Op::Insert { id: k, val: v })); }
            if exists|dt: Dot<A>| d2.contains(Op::Delete { id: k, dot: dt }) { let dt = choose|dt: Dot<A>| d2.contains(Op::Delete { id: k, dot: dt }); assert(d.contains(Op::Delete { id: k, dot: dt })); }
            if exists|dt: Dot<A>| d.contains(Op::Delete { id: k, dot: dt }) { let dt = choose|dt: Dot<A>| d.contains(Op::Delete { id: k, dot: dt }); assert(d2.contains(Op::Delete { id: k, dot: dt })); }
        }
    }
    assert forall|k: Id<A>, v: T| #![trigger d2.contains(Op::Insert { id: k, val: v })] m2.contains_key(k) && d2.contains(Op::Insert { id: k, val: v }) implies m2[k] == v by {
        assert(d.contains(Op::Insert { id: k, val: v }));
    }
}

/// C12 (same delivered ops, same sequence): two replicas that denote the same delivered set hold the same identifier
/// map and therefore show the same sequence of the same values
pub proof fn c12_same_delivered_same_sequence<T, A: Ord + Clone + Eq>(m1: SMap<Id<A>, T>, m2: SMap<Id<A>, T>, d: Set<Op<T, A>>, s1: Seq<Id<A>>, s2: Seq<Id<A>>)
    requires node_ok::<OrdDot<A>>(), denotes(m1, d), denotes(m2, d), is_order(s1, m1), is_order(s2, m2),
    ensures m1 == m2, s1 == s2,
{
    assert forall|k: Id<A>| m1.contains_key(k) <==> m2.contains_key(k) by { }
    assert forall|k: Id<A>| m1.contains_key(k) implies m1[k] == m2[k] by {
        let v = choose|v: T| d.contains(Op::Insert { id: k, val: v });
        assert(m1[k] == v && m2[k] == v);
    }
    assert(m1 =~= m2);
    c12_order_unique(s1, s2, m1.dom());
}

/// C12 (each element at most once): identifiers whose last markers (the dots of their inserts) differ are different,
/// so two inserts never collide, and a sequence never repeats an identifier
pub proof fn c12_distinct_dots_distinct_ids<A: Ord>(a: Id<A>, b: Id<A>)
    requires a@.len() > 0, b@.len() > 0, a@.last().1 != b@.last().1,
    ensures a != b,
{
}

} // verus!
}
