// Layer L for MerkleReg (C15): consequences of the function contracts of 18_merkle.rs (inv, apply_post_mk, merge_post_mk).
// Nothing here is extracted from /repo.
pub mod lemmas_merkle {
use vstd::prelude::*;
use vstd::map::Map as SMap;
use crate::merkle_reg::*;
verus! {

/// content addressing admits no cycle: children have strictly smaller rank (e.g. DAG height) than their parents
pub open spec fn acyclic<T>(recv: SMap<Hash, Node<T>>, rank: spec_fn(Hash) -> nat) -> bool {
    forall|h: Hash, c: Hash| #![trigger recv[h].children@.contains(c)] recv.contains_key(h) && recv[h].children@.contains(c) ==> rank(c) < rank(h)
}

/// C15 (visibility is the recursive notion of the property): a received node is visible iff all of its children are
/// visible -- so, by induction along the DAG, iff all of its ancestors have been received; orphans are exactly the
/// received nodes with a missing ancestor, and one becomes visible as soon as its last gap is filled (the invariant
/// holds after every apply / merge)
pub proof fn c15_visible_iff_children_visible<T>(s: MerkleReg<T>, h: Hash)
    requires s.inv(), s.recv().contains_key(h),
    ensures s.dg().contains_key(h) <==> ready(s.dg(), s.recv()[h]),
        s.dg().contains_key(h) != s.orp().contains_key(h),
{
    if s.dg().contains_key(h) { assert(ready(s.dg(), s.dg()[h])); }
    else { assert(s.orp().contains_key(h)); }
}

proof fn l_vis_sub<T>(s1: MerkleReg<T>, s2: MerkleReg<T>, rank: spec_fn(Hash) -> nat, h: Hash)
    requires s1.inv(), s2.inv(), s1.recv() == s2.recv(), acyclic(s1.recv(), rank), s1.dg().contains_key(h),
    ensures s2.dg().contains_key(h),
    decreases rank(h),
{
    let n = s1.dg()[h];
    assert(s1.recv().contains_key(h) && s1.recv()[h] == n);
    assert(ready(s1.dg(), n));
    assert forall|c: Hash| #[trigger] n.children@.contains(c) implies s2.dg().contains_key(c) by {
        assert(s1.dg().contains_key(c));
        assert(s1.recv()[h].children@.contains(c));
        l_vis_sub(s1, s2, rank, c);
    }
    assert(s2.recv().contains_key(h) && s2.recv()[h] == n);
    if !s2.dg().contains_key(h) { assert(s2.orp().contains_key(h)); assert(s2.orp()[h] == n); assert(!ready(s2.dg(), n)); }
}

/// C15 (the state is a function of the node set): two registers that have received the same nodes -- in whatever
/// order, with whatever duplication, by ops or by merges -- have the same visible DAG, the same orphans and the same
/// heads
pub proof fn c15_state_is_function_of_received<T>(s1: MerkleReg<T>, s2: MerkleReg<T>, rank: spec_fn(Hash) -> nat)
    requires s1.inv(), s2.inv(), s1.recv() == s2.recv(), acyclic(s1.recv(), rank),
    ensures s1.dg() == s2.dg(), s1.orp() == s2.orp(), s1.rts() == s2.rts(),
{
    assert forall|h: Hash| s1.dg().contains_key(h) <==> s2.dg().contains_key(h) by {
        if s1.dg().contains_key(h) { l_vis_sub(s1, s2, rank, h); }
        if s2.dg().contains_key(h) { l_vis_sub(s2, s1, rank, h); }
    }
    assert forall|h: Hash| s1.dg().contains_key(h) implies s1.dg()[h] == s2.dg()[h] by { assert(s1.recv()[h] == s1.dg()[h]); assert(s2.recv()[h] == s2.dg()[h]); }
    assert(s1.dg() =~= s2.dg());
    assert forall|h: Hash| s1.orp().contains_key(h) <==> s2.orp().contains_key(h) by {
        if s1.orp().contains_key(h) { assert(s1.recv().contains_key(h)); assert(!s1.dg().contains_key(h)) by { if s1.dg().contains_key(h) { } } assert(s2.recv().contains_key(h)); }
        if s2.orp().contains_key(h) { assert(s2.recv().contains_key(h)); assert(!s2.dg().contains_key(h)) by { if s2.dg().contains_key(h) { } } assert(s1.recv().contains_key(h)); }
    }
    assert forall|h: Hash| s1.orp().contains_key(h) implies s1.orp()[h] == s2.orp()[h] by {
        assert(!s1.dg().contains_key(h)) by { if s1.dg().contains_key(h) { } }
        assert(s1.recv()[h] == s1.orp()[h]); assert(s2.recv()[h] == s2.orp()[h]);
    }
    assert(s1.orp() =~= s2.orp());
    assert forall|h: Hash| s1.rts().contains(h) <==> s2.rts().contains(h) by { }
    assert(s1.rts() =~= s2.rts());
}

/// C15 (reads are the DAG heads): with read's contract, the content is exactly the visible nodes that no visible node
/// lists as a child
pub proof fn c15_read_is_heads<T>(s: MerkleReg<T>, content: SMap<Hash, &Node<T>>)
    requires s.inv(),
        // contract of read
        forall|h: Hash| #[trigger] content.contains_key(h) <==> s.rts().contains(h) && s.dg().contains_key(h),
        forall|h: Hash| #[trigger] content.contains_key(h) ==> *content[h] == s.dg()[h],
    ensures forall|h: Hash| #[trigger] content.contains_key(h) <==> s.dg().contains_key(h) && !listed(s.dg(), h),
{
}

/// C15 (writing on top of the heads read replaces them): after applying a node whose children are the heads just
/// read, the node is visible and none of those heads is a head any more
pub proof fn c15_write_on_heads_replaces<T>(s: MerkleReg<T>, n: Node<T>, s2: MerkleReg<T>)
    requires s.inv(), s2.inv(), apply_post_mk(s, n, s2),
        forall|h: Hash| #[trigger] n.children@.contains(h) ==> s.rts().contains(h),
        // distinct hashes: if a node with n's address was already received, it is n
        s.recv().contains_key(nhash(n)) ==> s.recv()[nhash(n)] == n,
    ensures s2.dg().contains_key(nhash(n)), forall|h: Hash| #[trigger] n.children@.contains(h) ==> !s2.rts().contains(h) && s2.dg().contains_key(h),
{
    let hn = nhash(n);
    assert(ready(s.dg(), n)) by { assert forall|c: Hash| #[trigger] n.children@.contains(c) implies s.dg().contains_key(c) by { assert(s.rts().contains(c)); } }
    if s.recv().contains_key(hn) {
        if s.orp().contains_key(hn) && !s.dg().contains_key(hn) { assert(s.orp()[hn] == n); assert(!ready(s.dg(), n)); }
        assert(s2 == s);
    } else {
        assert(s2.recv().contains_key(hn) && s2.recv()[hn] == n);
        assert forall|c: Hash| #[trigger] n.children@.contains(c) implies s2.dg().contains_key(c) by { assert(s.dg().contains_key(c)); assert(s.dg().dom().contains(c)); }
        if !s2.dg().contains_key(hn) { assert(s2.orp().contains_key(hn)); assert(s2.orp()[hn] == n); assert(ready(s2.dg(), n)); }
    }
    assert forall|h: Hash| #[trigger] n.children@.contains(h) implies !s2.rts().contains(h) && s2.dg().contains_key(h) by {
        assert(s.rts().contains(h)); assert(s.dg().contains_key(h)); assert(s.dg().dom().contains(h));
        assert(s2.dg().contains_key(hn) && s2.dg()[hn].children@.contains(h)) by { assert(s2.recv()[hn] == s2.dg()[hn]); }
        assert(listed(s2.dg(), h));
    }
}

// ---------------------------------------------------------------------------------------------------------------
// "the set of nodes received", with distinct hashes

/// the register has received exactly the nodes of ns
pub open spec fn received<T>(s: MerkleReg<T>, ns: Set<Node<T>>) -> bool {
    forall|n: Node<T>| #[trigger] ns.contains(n) <==> s.recv().contains_key(nhash(n)) && s.recv()[nhash(n)] == n
}
/// the property's premise: distinct nodes have distinct hashes
pub open spec fn distinct_hashes<T>(ns: Set<Node<T>>) -> bool {
    forall|a: Node<T>, b: Node<T>| #![trigger ns.contains(a), ns.contains(b)] ns.contains(a) && ns.contains(b) && nhash(a) == nhash(b) ==> a == b
}

pub proof fn c15_apply_receives<T>(s: MerkleReg<T>, n: Node<T>, s2: MerkleReg<T>, ns: Set<Node<T>>)
    requires s.inv(), s2.inv(), received(s, ns), apply_post_mk(s, n, s2), distinct_hashes(ns.insert(n)),
    ensures received(s2, ns.insert(n)),
{
    let hn = nhash(n);
    if s.recv().contains_key(hn) {
        let m = s.recv()[hn];
        assert(nhash(m) == hn) by { if s.dg().contains_key(hn) { } else { assert(s.orp().contains_key(hn)); } }
        assert(ns.contains(m));
        assert(ns.insert(n).contains(m) && ns.insert(n).contains(n));
        assert(m == n);
        assert(ns.insert(n) =~= ns);
    } else {
        assert forall|x: Node<T>| #[trigger] ns.insert(n).contains(x) <==> s2.recv().contains_key(nhash(x)) && s2.recv()[nhash(x)] == x by {
            if x != n && nhash(x) == hn && ns.contains(x) { assert(s.recv().contains_key(hn)); }
        }
    }
}

pub proof fn c15_merge_receives<T>(s: MerkleReg<T>, o: MerkleReg<T>, s2: MerkleReg<T>, n1: Set<Node<T>>, n2: Set<Node<T>>)
    requires s.inv(), o.inv(), s2.inv(), received(s, n1), received(o, n2), merge_post_mk(s, o, s2), distinct_hashes(n1.union(n2)),
    ensures received(s2, n1.union(n2)),
{
    let u = n1.union(n2);
    assert forall|x: Node<T>| #[trigger] u.contains(x) <==> s2.recv().contains_key(nhash(x)) && s2.recv()[nhash(x)] == x by {
        let hx = nhash(x);
        if n1.contains(x) { assert(s.recv().contains_key(hx) && s.recv()[hx] == x); assert(s.recv().dom().contains(hx)); }
        if n2.contains(x) && !n1.contains(x) {
            assert(o.recv().contains_key(hx) && o.recv()[hx] == x);
            assert(s2.recv().contains_key(nhash(o.recv()[hx])));
            let y = s2.recv()[hx];
            l_key_is_hash(s2, hx);
            // y is a node of n1 or n2 with the same hash as x
            if s.recv().contains_key(hx) { assert(s.recv().dom().contains(hx)); assert(s.recv()[hx] == y); l_key_is_hash(s, hx); assert(n1.contains(y)); }
            else { let k = choose|k: Hash| #[trigger] o.recv().contains_key(k) && o.recv()[k] == y; l_key_is_hash(o, k); assert(n2.contains(y)); }
            assert(u.contains(y) && u.contains(x));
        }
        if s2.recv().contains_key(hx) && s2.recv()[hx] == x {
            if s.recv().contains_key(hx) { assert(s.recv().dom().contains(hx)); assert(s.recv()[hx] == x); }
            else { let k = choose|k: Hash| #[trigger] o.recv().contains_key(k) && o.recv()[k] == x; l_key_is_hash(o, k); assert(n2.contains(x)); }
        }
    }
}

pub proof fn l_key_is_hash<T>(s: MerkleReg<T>, h: Hash)
    requires s.inv(), s.recv().contains_key(h),
    ensures nhash(s.recv()[h]) == h,
{
    if s.dg().contains_key(h) { } else { assert(s.orp().contains_key(h)); }
}

/// C15 headline: registers that have received the same set of (distinct-hash) nodes are equal in everything read()
/// and == observe
pub proof fn c15_same_nodes_same_state<T>(s1: MerkleReg<T>, s2: MerkleReg<T>, ns: Set<Node<T>>, rank: spec_fn(Hash) -> nat)
    requires s1.inv(), s2.inv(), received(s1, ns), received(s2, ns), acyclic(s1.recv(), rank),
    ensures s1.dg() == s2.dg(), s1.orp() == s2.orp(), s1.rts() == s2.rts(),
{
    assert forall|h: Hash| #[trigger] s1.recv().contains_key(h) implies s2.recv().contains_key(h) && s2.recv()[h] == s1.recv()[h] by { l_key_is_hash(s1, h); assert(ns.contains(s1.recv()[h])); }
    assert forall|h: Hash| #[trigger] s2.recv().contains_key(h) implies s1.recv().contains_key(h) by { l_key_is_hash(s2, h); assert(ns.contains(s2.recv()[h])); }
    assert forall|h: Hash| s1.recv().dom().contains(h) <==> s2.recv().dom().contains(h) by { if s1.recv().contains_key(h) { } if s2.recv().contains_key(h) { } }
    assert forall|h: Hash| s1.recv().dom().contains(h) implies s1.recv()[h] == s2.recv()[h] by { assert(s1.recv().contains_key(h)); }
    assert(s1.recv() =~= s2.recv());
    c15_state_is_function_of_received(s1, s2, rank);
}

} // verus!
}
