pub mod map {
use vstd::prelude::*;
use vstd::map::Map as SMap;
use vstd::set::Set as SSet;
use std::cmp::Ordering;
use std::collections::HashMap;
use std::collections::{BTreeMap, BTreeSet};
use std::hash::Hash;
use std::mem;
use vstd::std_specs::hash::*;
use vstd::std_specs::iter::IteratorSpec;
use vstd::std_specs::cmp::{PartialEqSpec, PartialOrdSpec};
use crate::spec::*;
use crate::stdx::*;
use crate::stdx3::*;
use crate::stdx5::*;
use crate::vclock::{pcmp_code, lemma_pcmp_code, dots_of};
use crate::orswot::{c10_vsub_nz, lemma_cnt_vsub, mrg, lemma_common, lemma_unref_to_set, axiom_vclock_key};
use crate::ctx::{AddCtx, ReadCtx, RmCtx};
use crate::{CmRDT, CvRDT, Dot, ResetRemove, VClock};
verus! {

// the marker trait and its blanket impl, as in the crate
pub trait Val<A: Ord>: Clone + Default + ResetRemove<A> + CmRDT {}

impl<A, T> Val<A> for T
where
    A: Ord,
    T: Clone + Default + ResetRemove<A> + CmRDT,
{
}

//@extract struct src/map.rs Map
pub struct Map<K: Ord, V: Val<A>, A: Ord + Hash> {
    // This clock stores the current version of the Map, it should
    // be greator or equal to all Entry.clock's in the Map.
    clock: VClock<A>,
    entries: BTreeMap<K, Entry<V, A>>,
    deferred: HashMap<VClock<A>, BTreeSet<K>>,
}
//@end

//@extract struct src/map.rs Entry
struct Entry<V: Val<A>, A: Ord> {
    // The entry clock tells us which actors edited this entry.
    clock: VClock<A>,

    // The nested CRDT
    val: V,
}
//@end

//@extract enum src/map.rs Op
pub enum Op<K: Ord, V: Val<A>, A: Ord> {
    Rm {
        clock: VClock<A>,
        keyset: BTreeSet<K>,
    },
    Up {
        dot: Dot<A>,
        key: K,
        op: V::Op,
    },
}
//@end

/// Usage hypotheses on a nested value type (discharged for MVReg / Orswot / Map by instance lemmas):
/// its three trait-level invariants coincide, `default()` satisfies them, Clone returns an equal value.
pub open spec fn val_ok<V: Val<A>, A: Ord>() -> bool {
    &&& forall|v: V| #![trigger v.cm_inv()] #![trigger v.rr_inv()] v.cm_inv() <==> v.rr_inv()
    &&& forall|v: V| #[trigger] V::default.ensures((), v) ==> v.cm_inv()
    &&& clone_ok::<V>()
}
pub open spec fn mbase_ok<K: Ord, V: Val<A>, A: Ord + Hash>() -> bool {
    actor_ok::<A>() && actor_ok::<K>() && key_ok::<VClock<A>>() && val_ok::<V, A>()
}

impl<V: Val<A>, A: Ord> Entry<V, A> {
    pub closed spec fn ck(&self) -> SMap<A, u64> { self.clock@ }
    pub closed spec fn vl(&self) -> V { self.val }
}

impl<V: Val<A>, A: Ord> Default for Entry<V, A> {
//@extract fn src/map.rs "Default for Entry" default
    fn default() -> /*@ (r: @*/ Self /*@ ) @*/
    //@ ensures r.ck() == SMap::<A, u64>::empty(), V::default.ensures((), r.vl()),
    {
        Self {
            clock: VClock::default(),
            val: V::default(),
        }
    }
//@end
}

// assumed semantics of #[derive(Clone)] on Entry (field-wise)
impl<V: Val<A>, A: Ord + Clone> Clone for Entry<V, A> {
    #[verifier::external_body]
    fn clone(&self) -> (r: Self)
        ensures actor_ok::<A>() && clone_ok::<A>() ==> r.ck() == self.ck(), cloned(self.vl(), r.vl()), nz(self.ck()) ==> nz(r.ck()),
    {
        Entry { clock: self.clock.clone(), val: self.val.clone() }
    }
}

impl<K: Ord, V: Val<A>, A: Ord + Hash> Map<K, V, A> {
    pub closed spec fn cl(&self) -> SMap<A, u64> { self.clock@ }
    pub closed spec fn has(&self, k: K) -> bool { self.entries@.contains_key(k) }
    /// entry clock of a key; the empty clock stands for "absent"
    pub closed spec fn ec(&self, k: K) -> SMap<A, u64> {
        if self.entries@.contains_key(k) { self.entries@[k].clock@ } else { SMap::<A, u64>::empty() }
    }
    /// the nested value under a present key
    pub closed spec fn val(&self, k: K) -> V { self.entries@[k].val }
    pub closed spec fn keys_dom(&self) -> SSet<K> { self.entries@.dom() }
    pub closed spec fn defs(&self) -> SMap<VClock<A>, BTreeSet<K>> { self.deferred@ }
    pub open spec fn dm(&self, c: VClock<A>) -> SSet<K> {
        if self.defs().contains_key(c) { self.defs()[c]@ } else { SSet::<K>::empty() }
    }
    /// representation invariant (no stored zero, no empty entry clock, nested values well formed)
    pub closed spec fn wf(&self) -> bool {
        &&& nz(self.clock@)
        &&& forall|k: K| self.entries@.contains_key(k) ==> nz(#[trigger] self.entries@[k].clock@) && self.entries@[k].clock@ != SMap::<A, u64>::empty() && self.entries@[k].val.cm_inv()
        &&& forall|c: VClock<A>| #[trigger] self.deferred@.contains_key(c) ==> nz(c@)
    }
    pub proof fn lemma_wf(&self)
        ensures self.wf() ==> nz(self.cl()) && (forall|k: K| #[trigger] self.has(k) ==> nz(self.ec(k)) && self.ec(k) != SMap::<A, u64>::empty() && self.val(k).cm_inv())
            && (forall|c: VClock<A>| #[trigger] self.defs().contains_key(c) ==> nz(c@)),
            forall|k: K| !self.has(k) ==> #[trigger] self.ec(k) == SMap::<A, u64>::empty(),
    {}
}

impl<K: Ord, V: Val<A>, A: Ord + Hash> Default for Map<K, V, A> {
//@extract fn src/map.rs "Default for Map" default
    fn default() -> /*@ (r: @*/ Self /*@ ) @*/
    //@ ensures r.wf(), r.cl() == SMap::<A, u64>::empty(), forall|k: K| !r.has(k), r.defs() == SMap::<VClock<A>, BTreeSet<K>>::empty(),
    {
        Self {
            clock: Default::default(),
            entries: Default::default(),
            deferred: Default::default(),
        }
    }
//@end
}

/// some pending remove in `d` names key k and covers its dot (a, n)
pub open spec fn kcovered_by<K: Ord, A: Ord>(d: SMap<VClock<A>, BTreeSet<K>>, k: K, a: A, n: u64) -> bool {
    exists|c: VClock<A>| #[trigger] d.contains_key(c) && d[c]@.contains(k) && cnt(c@, a) >= n
}
pub open spec fn named_by<K: Ord, A: Ord>(d: SMap<VClock<A>, BTreeSet<K>>, k: K) -> bool {
    exists|c: VClock<A>| #[trigger] d.contains_key(c) && d[c]@.contains(k)
}

/// effect of applying a key-remove (keyset, clock) -- Map::apply_keyset_rm, Map::apply(Op::Rm)
pub open spec fn keyset_rm_post<K: Ord, V: Val<A>, A: Ord + Hash>(old_: Map<K, V, A>, ks: SSet<K>, clock: VClock<A>, new_: Map<K, V, A>) -> bool {
    &&& new_.cl() == old_.cl()
    // C05: every named key forgets the update dots the remove context covers (and disappears when none is left) ...
    &&& forall|k: K| #[trigger] new_.ec(k) == (if ks.contains(k) { vsub(old_.ec(k), clock@) } else { old_.ec(k) })
    &&& forall|k: K| #[trigger] new_.has(k) == (old_.has(k) && new_.ec(k) != SMap::<A, u64>::empty())
    // ... unnamed keys are untouched, and under a surviving named key the nested value is reset by the same context
    &&& forall|k: K| !ks.contains(k) && #[trigger] new_.has(k) ==> new_.val(k) == old_.val(k)
    &&& forall|k: K| ks.contains(k) && #[trigger] new_.has(k) ==> V::rr_post(&old_.val(k), &clock, &new_.val(k))
    // a remove whose context the map clock does not cover yet is remembered
    &&& new_.defs() == (if vle(clock@, old_.cl()) { old_.defs() } else { old_.defs().insert(clock, new_.defs()[clock]) })
    &&& (!vle(clock@, old_.cl()) ==> new_.defs().contains_key(clock) && new_.defs()[clock]@ == old_.dm(clock).union(ks))
}

/// pending removes after reset_remove(c): every remaining context is a reduced old one and keeps that one's key set ...
#[verifier::opaque]
pub open spec fn rekeyed_from<K: Ord, A: Ord>(d0: SMap<VClock<A>, BTreeSet<K>>, d1: SMap<VClock<A>, BTreeSet<K>>, c: SMap<A, u64>) -> bool {
    forall|k2: VClock<A>| #[trigger] d1.contains_key(k2) ==> exists|k: VClock<A>| #[trigger] d0.contains_key(k) && k2@ == vsub(k@, c) && d1[k2] == d0[k]
}
/// ... and every old context that is not emptied is still present in its reduced form (two contexts that become equal are
/// folded into one entry by `collect`: only one key set survives -- see DESIGN, C18)
#[verifier::opaque]
pub open spec fn rekeyed_onto<K: Ord, A: Ord>(d0: SMap<VClock<A>, BTreeSet<K>>, d1: SMap<VClock<A>, BTreeSet<K>>, c: SMap<A, u64>) -> bool {
    forall|k: VClock<A>| #[trigger] d0.contains_key(k) && vsub(k@, c) != SMap::<A, u64>::empty() ==> exists|k2: VClock<A>| #[trigger] d1.contains_key(k2) && k2@ == vsub(k@, c)
}

/// exact effect of Map::reset_remove (C18)
pub open spec fn rr_post_map<K: Ord, V: Val<A>, A: Ord + Hash>(old_: Map<K, V, A>, clock: VClock<A>, new_: Map<K, V, A>) -> bool {
    let c = clock@;
    &&& new_.cl() == vsub(old_.cl(), c)
    &&& forall|k: K| #[trigger] new_.ec(k) == vsub(old_.ec(k), c)
    &&& forall|k: K| #[trigger] new_.has(k) == (old_.has(k) && new_.ec(k) != SMap::<A, u64>::empty())
    // the nested value of every surviving key is reset by the same clock (this is what gives Map its reset-remove behaviour)
    &&& forall|k: K| #[trigger] new_.has(k) ==> V::rr_post(&old_.val(k), &clock, &new_.val(k))
    &&& rekeyed_from(old_.defs(), new_.defs(), c)
    &&& rekeyed_onto(old_.defs(), new_.defs(), c)
}

spec fn rrm_keep<K, V: Val<A>, A: Ord>(k: K, e: Entry<V, A>, o: Option<(K, Entry<V, A>)>, clock: VClock<A>) -> bool {
    if vsub(e.clock@, clock@) == SMap::<A, u64>::empty() { o is None }
    else { o matches Some(q) && q.0 == k && q.1.clock@ == vsub(e.clock@, clock@) && V::rr_post(&e.val, &clock, &q.1.val) && q.1.val.cm_inv() }
}
spec fn rrm_keep_d<K: Ord, A: Ord>(k: SMap<A, u64>, v: BTreeSet<K>, o: Option<(VClock<A>, BTreeSet<K>)>, c: SMap<A, u64>) -> bool {
    if vsub(k, c) == SMap::<A, u64>::empty() { o is None } else { o matches Some(q) && q.0@ == vsub(k, c) && q.1 == v }
}

impl<K: Ord, V: Val<A>, A: Ord + Hash> ResetRemove<A> for Map<K, V, A> {
    open spec fn rr_inv(&self) -> bool { mbase_ok::<K, V, A>() && self.wf() }
    open spec fn rr_post(old_: &Self, clock: &VClock<A>, new_: &Self) -> bool { rr_post_map(*old_, *clock, *new_) }

//@extract fn src/map.rs "ResetRemove for Map" reset_remove
    fn reset_remove(&mut self, clock: &VClock<A>)
    //@ ensures rr_post_map(*old(self), *clock, *final(self)),
    {
        //@ let ghost e0 = self.entries@;
        //@ proof { old(self).lemma_wf(); assert(ents_ok(e0)); }
        self.entries = /*@ shim_btreemap_filter_map_collect( @*/ mem::take(&mut self.entries)
            /*@<*/ .into_iter()
            .filter_map( /*@>*/ /*@ , @*/ /*@<*/ | /*@>*/ /*@<pat1*/ (key, mut entry) /*@>*/ /*@<*/ | /*@>*/ /*@ |p: (K, Entry<V, A>)| -> (o: Option<(K, Entry<V, A>)>)
                requires actor_ok::<A>(), val_ok::<V, A>(), nz(p.1.clock@), p.1.val.cm_inv(),
                ensures rrm_keep(p.0, p.1, o, *clock)
            { let $pat1 = p; @*/ {
                entry.clock.reset_remove(clock);
                entry.val.reset_remove(clock);
                if entry.clock.is_empty() {
                    None // remove this entry since its been forgotten
                } else {
                    Some((key, entry))
                }
            } /*@ } @*/ )
            /*@<*/ .collect() /*@>*/ ;
        //@ let ghost e1 = self.entries@;
        //@ proof { lemma_rrm_entries(e0, e1, *clock); }

        //@ let ghost d0 = self.deferred@;
        self.deferred = /*@ shim_hashmap_filter_map_collect_rekey( @*/ mem::take(&mut self.deferred)
            /*@<*/ .into_iter()
            .filter_map( /*@>*/ /*@ , @*/ /*@<*/ | /*@>*/ /*@<pat2*/ (mut rm_clock, key) /*@>*/ /*@<*/ | /*@>*/ /*@ |p: (VClock<A>, BTreeSet<K>)| -> (o: Option<(VClock<A>, BTreeSet<K>)>)
                requires actor_ok::<A>(), nz(p.0@),
                ensures rrm_keep_d(p.0@, p.1, o, clock@)
            { let $pat2 = p; @*/ {
                rm_clock.reset_remove(clock);
                if rm_clock.is_empty() {
                    None // this deferred remove has been forgotten
                } else {
                    Some((rm_clock, key))
                }
            } /*@ } @*/ )
            /*@<*/ .collect() /*@>*/ ;
        //@ let ghost d1g = self.deferred@;
        //@ proof { lemma_rrm_deferred_from(d0, d1g, clock@); lemma_rrm_deferred_onto(d0, d1g, clock@); }

        //@ proof { assert(self.clock.rr_inv()); c10_vsub_nz(self.clock@, clock@); }
        self.clock.reset_remove(clock);
        //@ proof { lemma_rrm_done(*old(self), *self, *clock, e0, e1, d0, d1g); }
    }
//@end
}

//@extract enum src/map.rs CmRDTValidation
pub enum CmRDTValidation<V: CmRDT, A> {
    SourceOrder(crate::DotRange<A>),

    Value(V::Validation),
}
//@end

/// exact effect of Map::apply (C05)
pub open spec fn apply_post_map<K: Ord, V: Val<A>, A: Ord + Hash>(old_: Map<K, V, A>, op: Op<K, V, A>, new_: Map<K, V, A>) -> bool {
    // --- Rm: the key-remove semantics
    &&& op is Rm ==> keyset_rm_post(old_, op->keyset@, op->clock, new_)
    // --- Up already seen (duplicate / stale): nothing changes
    &&& ((op is Up && cnt(old_.cl(), op->dot.actor) >= op->dot.counter) ==> new_ == old_)
    // --- new Up: the key's entry and the map clock learn the dot, the nested op is applied to the value under the key
    //     (a fresh default value if the key was absent), then pending key-removes are re-applied
    &&& (op is Up && cnt(old_.cl(), op->dot.actor) < op->dot.counter) ==> {
            let d = op->dot;
            let key = op->key;
            &&& new_.cl() == old_.cl().insert(d.actor, d.counter)
            &&& forall|k: K, a: A| #![trigger cnt(new_.ec(k), a)] cnt(new_.ec(k), a) == ({
                    let e = if k == key { vapp(old_.ec(k), d.actor, d.counter) } else { old_.ec(k) };
                    if kcovered_by(old_.defs(), k, a, cnt(e, a)) { 0 } else { cnt(e, a) } })
            &&& forall|k: K| #[trigger] new_.has(k) == ((old_.has(k) || k == key) && new_.ec(k) != SMap::<A, u64>::empty())
            &&& forall|k: K| k != key && !named_by(old_.defs(), k) && #[trigger] new_.has(k) ==> new_.val(k) == old_.val(k)
            &&& (!named_by(old_.defs(), key) && new_.has(key) ==> exists|v0: V| (if old_.has(key) { v0 == old_.val(key) } else { V::default.ensures((), v0) }) && #[trigger] V::cm_post(&v0, &op->op, &new_.val(key)))
            &&& forall|c: VClock<A>| #![trigger new_.defs().contains_key(c)] new_.defs().contains_key(c) <==> (old_.defs().contains_key(c) && !vle(c@, new_.cl()))
            &&& forall|c: VClock<A>| #![trigger new_.defs()[c]] new_.defs().contains_key(c) ==> new_.defs()[c]@ == old_.defs()[c]@
        }
}

impl<K: Ord, V: Val<A>, A: Ord + Hash + Clone> CmRDT for Map<K, V, A> {
    type Op = Op<K, V, A>;
    type Validation = CmRDTValidation<V, A>;
    open spec fn cm_inv(&self) -> bool { mbase_ok::<K, V, A>() && self.wf() }
    open spec fn cm_pre(&self, op: &Op<K, V, A>) -> bool {
        &&& clone_ok::<A>()
        &&& op is Rm ==> nz(op->clock@)
        &&& op is Up ==> forall|v: V| #[trigger] v.cm_inv() ==> v.cm_pre(&op->op)
    }
    open spec fn cm_post(old_: &Self, op: &Op<K, V, A>, new_: &Self) -> bool { apply_post_map(*old_, *op, *new_) }
    open spec fn cm_vpre(&self, op: &Op<K, V, A>) -> bool { clone_ok::<A>() && (op is Up ==> forall|v: V| #[trigger] v.cm_inv() ==> v.cm_vpre(&op->op)) }

//@extract fn src/map.rs "CmRDT for Map" validate_op
    fn validate_op(&self, op: &Self::Op) -> /*@ (r: @*/ Result<(), Self::Validation> /*@ ) @*/
    //@ ensures
    //@     // C16: removes are always accepted; an update is rejected with SourceOrder exactly when its dot skips one of
    //@     // its actor's dots at the map clock or at the key's entry clock (the second check is known finding F16-map)
    //@     op is Rm ==> r is Ok,
    //@     op is Up ==> ((r matches Err(CmRDTValidation::SourceOrder(_))) <==> (op->dot.counter > cnt(self.cl(), op->dot.actor) + 1 || op->dot.counter > cnt(self.ec(op->key), op->dot.actor) + 1)),
    {
        match op {
            Op::Rm { .. } => Ok(()),
            Op::Up { dot, key, op } => {
                self.clock
                    .validate_op(dot)
                    .map_err( /*@ |e: crate::DotRange<A>| -> (o: CmRDTValidation<V, A>) ensures o == CmRDTValidation::<V, A>::SourceOrder(e) { @*/ CmRDTValidation::SourceOrder /*@ (e) } @*/ )?;
                let entry = self.entries.get(key).cloned().unwrap_or_default();
                //@ proof { if self.entries@.contains_key(*key) { assert(nz(self.entries@[*key].clock@) && self.entries@[*key].val.cm_inv()); assert(entry.ck() == self.entries@[*key].ck()); assert(cloned(self.entries@[*key].vl(), entry.vl())); assert(entry.val == self.entries@[*key].val); } else { assert(Entry::<V, A>::default.ensures((), entry)); assert(entry.ck() == SMap::<A, u64>::empty()); assert(V::default.ensures((), entry.vl())); } assert(entry.clock@ == self.ec(*key)); assert(entry.val.cm_inv()); assert(nz(entry.clock@)); }
                entry
                    .clock
                    .validate_op(dot)
                    .map_err( /*@ |e: crate::DotRange<A>| -> (o: CmRDTValidation<V, A>) ensures o == CmRDTValidation::<V, A>::SourceOrder(e) { @*/ CmRDTValidation::SourceOrder /*@ (e) } @*/ )?;
                entry.val.validate_op(op).map_err( /*@ |e: <V as CmRDT>::Validation| -> (o: CmRDTValidation<V, A>) ensures o == CmRDTValidation::<V, A>::Value(e) { @*/ CmRDTValidation::Value /*@ (e) } @*/ )
            }
        }
    }
//@end

//@extract fn src/map.rs "CmRDT for Map" apply
    fn apply(&mut self, op: Self::Op)
    //@ ensures apply_post_map(*old(self), op, *final(self)),
    {
        match op {
            Op::Rm { clock, keyset } => self.apply_keyset_rm(keyset, clock),
            Op::Up { dot, key, op } => {
                if self.clock.get(&dot.actor) >= dot.counter {
                    // we've seen this op already
                    return;
                }
                //@ let ghost gkey = key;
                //@ let ghost gop = op;
                //@ let ghost pre = *self;
                //@ proof { pre.lemma_wf(); }

                let entry = /*@ shim_btreemap_entry_or_default(&mut @*/ self.entries /*@<*/ .entry( /*@>*/ /*@ , @*/ key) /*@<*/ .or_default() /*@>*/ ;
                //@ let ghost e0 = *entry;
                //@ proof { if pre.entries@.contains_key(gkey) { assert(e0 == pre.entries@[gkey]); assert(nz(pre.entries@[gkey].clock@) && pre.entries@[gkey].val.cm_inv()); } else { assert(Entry::<V, A>::default.ensures((), e0)); assert(e0.ck() == SMap::<A, u64>::empty()); assert(V::default.ensures((), e0.vl())); } assert(e0.val.cm_inv()); assert(nz(e0.clock@)); }

                //@ let dc = dot.clone();
                //@ proof { assert(cloned(dot.actor, dc.actor)); assert(dc.actor == dot.actor); }
                entry.clock.apply( /*@<*/ dot.clone() /*@>*/ /*@ dc @*/ );
                entry.val.apply(op);
                //@ let ghost e1 = *entry;

                //@ proof { assert(self.clock.cm_inv()); }
                self.clock.apply(dot);
                //@ let ghost mid = *self;
                //@ proof { lemma_up_mid(pre, mid, gkey, e0, e1, dot.actor, dot.counter); }
                self.apply_deferred();
                //@ proof { lemma_up_fin(pre, mid, *self, gkey, gop, e0, dot.actor, dot.counter); }
            }
        }
    }
//@end
}

impl<K: Ord, V: Val<A>, A: Ord + Hash + Clone> Map<K, V, A> {
//@extract fn src/map.rs "Map" new
    pub fn new() -> /*@ (r: @*/ Self /*@ ) @*/
    //@ ensures r.wf(), r.cl() == SMap::<A, u64>::empty(), forall|k: K| !r.has(k), r.defs() == SMap::<VClock<A>, BTreeSet<K>>::empty(),
    {
        Default::default()
    }
//@end

//@extract fn src/map.rs "Map" is_empty
    pub fn is_empty(&self) -> /*@ (r: @*/ ReadCtx<bool, A> /*@ ) @*/
    //@ requires actor_ok::<A>(), clone_ok::<A>(), actor_ok::<K>(),
    //@ ensures r.add_clock@ == self.cl(), r.rm_clock@ == self.cl(), r.val == (forall|k: K| !self.has(k)),
    {
        //@ proof { lemma_map_len0(self.entries@); if forall|k: K| !self.has(k) { assert forall|k: K| !self.entries@.contains_key(k) by { assert(!self.has(k)); } } if forall|k: K| !self.entries@.contains_key(k) { assert forall|k: K| !self.has(k) by { assert(!self.entries@.contains_key(k)); } } }
        ReadCtx {
            add_clock: self.clock.clone(),
            rm_clock: self.clock.clone(),
            val: self.entries.is_empty(),
        }
    }
//@end

//@extract fn src/map.rs "Map" len
    pub fn len(&self) -> /*@ (r: @*/ ReadCtx<usize, A> /*@ ) @*/
    //@ requires actor_ok::<A>(), clone_ok::<A>(), actor_ok::<K>(),
    //@ ensures r.add_clock@ == self.cl(), r.rm_clock@ == self.cl(), r.val == self.keys_dom().len(),
    {
        ReadCtx {
            add_clock: self.clock.clone(),
            rm_clock: self.clock.clone(),
            val: self.entries.len(),
        }
    }
//@end

//@extract fn src/map.rs "Map" get
    pub fn get(&self, key: &K) -> /*@ (r: @*/ ReadCtx<Option<V>, A> /*@ ) @*/
    //@ requires actor_ok::<A>(), clone_ok::<A>(), actor_ok::<K>(), clone_ok::<V>(),
    //@ ensures
    //@     // C07: add context = map clock; remove context = exactly the key's entry clock (empty iff absent); the value under the key
    //@     r.add_clock@ == self.cl(), r.rm_clock@ == self.ec(*key),
    //@     r.val is Some <==> self.has(*key), self.has(*key) ==> r.val == Some(self.val(*key)),
    {
        let add_clock = self.clock.clone();
        let entry_opt = self.entries.get(key);
        ReadCtx {
            add_clock,
            rm_clock: entry_opt
                .map(|map_entry /*@ : &Entry<V, A> @*/ | /*@ -> (c: VClock<A>) ensures c@ == map_entry.clock@ { @*/ map_entry.clock.clone() /*@ } @*/ )
                .unwrap_or_default(),
            val: entry_opt.map(|map_entry /*@ : &Entry<V, A> @*/ | /*@ -> (v: V) requires clone_ok::<V>() ensures v == map_entry.val { let v2 = @*/ map_entry.val.clone() /*@ ; proof { assert(cloned(map_entry.val, v2)); } v2 } @*/ ),
        }
    }
//@end

//@extract fn src/map.rs "Map" update
    pub fn update<F>(&self, key: impl Into<K>, ctx: AddCtx<A>, f: F) -> /*@ (r: @*/ Op<K, V, A> /*@ ) @*/
    where
        F: FnOnce(&V, AddCtx<A>) -> V::Op,
    //@ requires actor_ok::<K>(), clone_ok::<A>(), forall|v: &V, c: AddCtx<A>| call_requires(f, (v, c)),
    //@ ensures
    //@     // the op carries exactly the dot of the context handed in, and the nested op the caller's closure built from
    //@     // the current value under the key (a default value if the key is absent)
    //@     r is Up, r->dot.actor == ctx.dot.actor, r->dot.counter == ctx.dot.counter,
    //@     exists|v0: V| (if self.has(r->key) { v0 == self.val(r->key) } else { V::default.ensures((), v0) }) && #[trigger] call_ensures(f, (&v0, ctx), r->op),
    {
        let key = key.into();
        let dot = ctx.dot.clone();
        //@ let ghost mut gv0: V = arbitrary();
        let op = match self.entries.get(&key).map(|e /*@ : &Entry<V, A> @*/ | /*@ -> (o: &V) ensures *o == e.val { @*/ &e.val /*@ } @*/ ) {
            Some(data) => /*@ { proof { gv0 = *data; } @*/ f(data, ctx) /*@ } @*/ ,
            None => /*@ { let dv = V::default(); proof { gv0 = dv; } @*/ f( /*@<*/ &V::default() /*@>*/ /*@ &dv @*/ , ctx) /*@ } @*/ ,
        };
        //@ proof { assert((if self.has(key) { gv0 == self.val(key) } else { V::default.ensures((), gv0) }) && call_ensures(f, (&gv0, ctx), op)); }

        //@ let r =
        Op::Up { dot, key, op }
        //@ ; proof { assert(r->key == key && r->op == op); assert((if self.has(r->key) { gv0 == self.val(r->key) } else { V::default.ensures((), gv0) }) && call_ensures(f, (&gv0, ctx), r->op)); }
        //@ r
    }
//@end

//@extract fn src/map.rs "Map" rm
    pub fn rm(&self, key: impl Into<K>, ctx: RmCtx<A>) -> /*@ (r: @*/ Op<K, V, A> /*@ ) @*/
    //@ requires actor_ok::<K>(),
    //@ ensures r is Rm, r->clock == ctx.clock, r->keyset@.len() == 1,
    {
        let mut keyset = BTreeSet::new();
        keyset.insert(key.into());
        Op::Rm {
            clock: ctx.clock,
            keyset,
        }
    }
//@end

//@extract fn src/map.rs "Map" read_ctx
    pub fn read_ctx(&self) -> /*@ (r: @*/ ReadCtx<(), A> /*@ ) @*/
    //@ requires actor_ok::<A>(), clone_ok::<A>(),
    //@ ensures r.add_clock@ == self.cl(), r.rm_clock@ == self.cl(),
    {
        ReadCtx {
            add_clock: self.clock.clone(),
            rm_clock: self.clock.clone(),
            val: (),
        }
    }
//@end

//@extract fn src/map.rs "Map" apply_deferred
    fn apply_deferred(&mut self)
    //@ requires mbase_ok::<K, V, A>(), old(self).wf(),
    //@ ensures final(self).wf(), deferred_post(*old(self), *final(self)),
    {
        let deferred = mem::take(&mut self.deferred);
        //@ let ghost d0 = deferred@;
        //@ let v = shim_hashmap_into_vec(deferred);
        //@ let ghost vs = v@;
        for (clock, keys) in /*@ it: v @*/ /*@<*/ deferred /*@>*/
        //@ invariant
        //@     mbase_ok::<K, V, A>(), self.wf(), old(self).wf(), self.cl() == old(self).cl(), it.seq() == vs, d0 == old(self).defs(),
        //@     forall|i: int| 0 <= i < vs.len() ==> d0.contains_key((#[trigger] vs[i]).0) && d0[vs[i].0] == vs[i].1,
        //@     forall|i: int, j: int| 0 <= i < j < vs.len() ==> (#[trigger] vs[i]).0 != (#[trigger] vs[j]).0,
        //@     forall|k: VClock<A>| d0.contains_key(k) ==> exists|i: int| 0 <= i < vs.len() && (#[trigger] vs[i]).0 == k,
        //@     forall|m: K, a: A| #![trigger cnt(self.ec(m), a)] cnt(self.ec(m), a) == (if kcovered_upto(vs, it.index@, m, a, cnt(old(self).ec(m), a)) { 0 } else { cnt(old(self).ec(m), a) }),
        //@     forall|m: K| #[trigger] self.has(m) == (old(self).has(m) && self.ec(m) != SMap::<A, u64>::empty()),
        //@     forall|m: K| !knamed_upto(vs, it.index@, m) && #[trigger] self.has(m) ==> self.val(m) == old(self).val(m),
        //@     forall|k: VClock<A>| #![trigger self.defs().contains_key(k)] self.defs().contains_key(k) <==> (exists|j: int| 0 <= j < it.index@ && (#[trigger] vs[j]).0 == k && !vle(k@, self.cl())),
        //@     forall|j: int| 0 <= j < it.index@ && self.defs().contains_key((#[trigger] vs[j]).0) ==> self.defs()[vs[j].0]@ == vs[j].1@,
        {
            //@ let ghost pre = *self;
            //@ proof { assert(clock == vs[it.index@].0); assert(d0.contains_key(vs[it.index@].0)); assert(old(self).deferred@.contains_key(clock)); assert(nz(clock@)); }
            self.apply_keyset_rm(keys, clock);
            //@ proof { lemma_apply_deferred_step(*old(self), pre, *self, vs, it.index@); lemma_deferred_vals_step(*old(self), pre, *self, vs, it.index@); }
        }
        //@ proof { lemma_apply_deferred_done(*old(self), *self, vs); lemma_deferred_vals_done(*old(self), *self, vs); }
    }
//@end

//@extract fn src/map.rs "Map" apply_keyset_rm
    fn apply_keyset_rm(&mut self, mut keyset: BTreeSet<K>, clock: VClock<A>)
    //@ requires mbase_ok::<K, V, A>(), old(self).wf(), nz(clock@),
    //@ ensures final(self).wf(), keyset_rm_post(*old(self), keyset@, clock, *final(self)),
    {
        //@ let kit = keyset.iter();
        //@ let ghost sq0 = kit.remaining();
        //@ let ghost ks = keyset@;
        for key in /*@ it: kit @*/ /*@<*/ keyset.iter() /*@>*/
        //@ invariant
        //@     mbase_ok::<K, V, A>(), self.wf(), nz(clock@), it.seq() == sq0, sq0.unref().to_set() == ks, keyset@ == ks, sq0.no_duplicates(),
        //@     self.clock@ == old(self).clock@, self.deferred@ == old(self).deferred@,
        //@     forall|k: K| #![trigger self.entries@.contains_key(k)] (exists|j: int| 0 <= j < it.index@ && *sq0[j] == k) || (self.entries@.contains_key(k) == old(self).entries@.contains_key(k) && (self.entries@.contains_key(k) ==> self.entries@[k] == old(self).entries@[k])),
        //@     forall|k: K| (exists|j: int| 0 <= j < it.index@ && *sq0[j] == k) ==> #[trigger] krm_one(old(self).entries@, self.entries@, k, clock),
        {
            //@ let ghost pre = self.entries@;
            //@ let ghost idx = it.index@;
            //@ proof { assert(*key == *sq0[idx]); if pre.contains_key(*key) { assert(pre == self.entries@); assert(self.entries@.contains_key(*key)); assert(nz(self.entries@[*key].clock@)); assert(self.entries@[*key].val.cm_inv()); } assert forall|i: int, j: int| 0 <= i < j < sq0.len() implies *sq0[i] != *sq0[j] by { assert(sq0[i] != sq0[j]); } }
            if let Some(entry) = self.entries.get_mut(key) {
                //@ let ghost e0 = *entry;
                //@ proof { assert(pre.contains_key(*key) && pre[*key] == e0); assert(e0.val.cm_inv() && nz(e0.clock@)); assert(e0.val.rr_inv()); }
                entry.clock.reset_remove(&clock);
                if entry.clock.is_empty() {
                    // The entry clock says we have no info on this entry.
                    // So remove the entry
                    self.entries.remove(key);
                } else {
                    // The entry clock is not empty so this means we still
                    // have some information on this entry, keep it.
                    entry.val.reset_remove(&clock);
                }
            }
            //@ proof { lemma_krm_step(old(self).entries@, pre, self.entries@, *key, clock, sq0, idx); lemma_krm_wf(pre, self.entries@, *key, clock); }
        }
        //@ let ghost mid = *self;
        //@ proof { assert forall|k: K| ks.contains(k) <==> (exists|j: int| 0 <= j < sq0.len() && *sq0[j] == k) by { lemma_unref_to_set(sq0, ks, k); } }

        // now we need to decide wether we should be keeping this
        // remove Op around to remove entries we haven't seen yet.
        //@ proof { lemma_pcmp_code(self.clock@, clock@); }
        match self.clock.partial_cmp(&clock) {
            None | Some(Ordering::Less) => {
                // this remove clock has information we don't have,
                // we need to log this in our deferred remove map, so
                // that we can delete keys that we haven't seen yet but
                // have been seen by this clock
                //@ proof { assert(!vle(clock@, self.clock@)); }
                //@ let ghost d0 = self.deferred@;
                let deferred_set = /*@ shim_hashmap_entry_or_default(&mut @*/ self.deferred /*@<*/ .entry( /*@>*/ /*@ , @*/ clock) /*@<*/ .or_default() /*@>*/ ;
                //@ proof { if !d0.contains_key(clock) { assert(deferred_set@ == SSet::<K>::empty()); } }
                /*@ shim_btreeset_append( @*/ deferred_set /*@<*/ .append( /*@>*/ /*@ , @*/ &mut keyset);
            }
            _ => { /* we've seen all keys this clock has seen */
                //@ proof { assert(vle(clock@, self.clock@)); }
            }
        }
        //@ proof { assert(self.entries@ == mid.entries@); lemma_krm_done(*old(self), *self, ks, clock); }
    }
//@end
}

/// effect of re-applying all pending key-removes (Map::apply_deferred)
pub open spec fn deferred_post<K: Ord, V: Val<A>, A: Ord + Hash>(old_: Map<K, V, A>, new_: Map<K, V, A>) -> bool {
    &&& new_.cl() == old_.cl()
    &&& forall|k: K, a: A| #![trigger cnt(new_.ec(k), a)] cnt(new_.ec(k), a) == (if kcovered_by(old_.defs(), k, a, cnt(old_.ec(k), a)) { 0 } else { cnt(old_.ec(k), a) })
    &&& forall|k: K| #[trigger] new_.has(k) == (old_.has(k) && new_.ec(k) != SMap::<A, u64>::empty())
    // keys no pending remove names are untouched (value layer under pending removes: only the invariant is stated)
    &&& forall|k: K| !named_by(old_.defs(), k) && #[trigger] new_.has(k) ==> new_.val(k) == old_.val(k)
    &&& forall|c: VClock<A>| #![trigger new_.defs().contains_key(c)] new_.defs().contains_key(c) <==> (old_.defs().contains_key(c) && !vle(c@, old_.cl()))
    &&& forall|c: VClock<A>| #![trigger new_.defs()[c]] new_.defs().contains_key(c) ==> new_.defs()[c]@ == old_.defs()[c]@
}

/// what apply_keyset_rm did to one named key k
spec fn krm_one<K, V: Val<A>, A: Ord>(e0: SMap<K, Entry<V, A>>, e1: SMap<K, Entry<V, A>>, k: K, clock: VClock<A>) -> bool {
    if !e0.contains_key(k) { !e1.contains_key(k) }
    else if vsub(e0[k].clock@, clock@) == SMap::<A, u64>::empty() { !e1.contains_key(k) }
    else { e1.contains_key(k) && e1[k].clock@ == vsub(e0[k].clock@, clock@) && V::rr_post(&e0[k].val, &clock, &e1[k].val) && e1[k].val.cm_inv() }
}

proof fn lemma_krm_step<K, V: Val<A>, A: Ord>(e0: SMap<K, Entry<V, A>>, pre: SMap<K, Entry<V, A>>, post: SMap<K, Entry<V, A>>, key: K, clock: VClock<A>, sq: Seq<&K>, idx: int)
    requires
        0 <= idx < sq.len(), *sq[idx] == key,
        forall|k: K| #![trigger pre.contains_key(k)] (exists|j: int| 0 <= j < idx && *sq[j] == k) || (pre.contains_key(k) == e0.contains_key(k) && (pre.contains_key(k) ==> pre[k] == e0[k])),
        forall|k: K| (exists|j: int| 0 <= j < idx && *sq[j] == k) ==> #[trigger] krm_one(e0, pre, k, clock),
        forall|i: int, j: int| 0 <= i < j < sq.len() ==> *sq[i] != *sq[j],
        forall|k: K| #![trigger post.contains_key(k)] k != key ==> (post.contains_key(k) == pre.contains_key(k) && (post.contains_key(k) ==> post[k] == pre[k])),
        krm_one(pre, post, key, clock),
    ensures
        forall|k: K| #![trigger post.contains_key(k)] (exists|j: int| 0 <= j < idx + 1 && *sq[j] == k) || (post.contains_key(k) == e0.contains_key(k) && (post.contains_key(k) ==> post[k] == e0[k])),
        forall|k: K| (exists|j: int| 0 <= j < idx + 1 && *sq[j] == k) ==> #[trigger] krm_one(e0, post, k, clock),
{
    assert forall|k: K| #![trigger post.contains_key(k)] (exists|j: int| 0 <= j < idx + 1 && *sq[j] == k) || (post.contains_key(k) == e0.contains_key(k) && (post.contains_key(k) ==> post[k] == e0[k])) by {
        if k == key { assert(0 <= idx < idx + 1 && *sq[idx] == k); }
        else {
            assert(post.contains_key(k) == pre.contains_key(k));
            if exists|j: int| 0 <= j < idx && *sq[j] == k { let j = choose|j: int| 0 <= j < idx && *sq[j] == k; assert(0 <= j < idx + 1 && *sq[j] == k); }
        }
    }
    assert forall|k: K| (exists|j: int| 0 <= j < idx + 1 && *sq[j] == k) implies #[trigger] krm_one(e0, post, k, clock) by {
        let j = choose|j: int| 0 <= j < idx + 1 && *sq[j] == k;
        if k == key {
            // first visit: keys of the keyset are pairwise different
            assert(!(exists|j2: int| 0 <= j2 < idx && *sq[j2] == k)) by {
                if exists|j2: int| 0 <= j2 < idx && *sq[j2] == k { let j2 = choose|j2: int| 0 <= j2 < idx && *sq[j2] == k; assert(*sq[j2] != *sq[idx]); }
            }
            assert(pre.contains_key(k) == e0.contains_key(k));
        } else {
            assert(j < idx);
            assert(post.contains_key(k) == pre.contains_key(k));
            assert(krm_one(e0, pre, k, clock));
        }
    }
}

spec fn ents_ok<K, V: Val<A>, A: Ord>(e: SMap<K, Entry<V, A>>) -> bool {
    forall|k: K| e.contains_key(k) ==> nz(#[trigger] e[k].clock@) && e[k].clock@ != SMap::<A, u64>::empty() && e[k].val.cm_inv()
}
proof fn lemma_krm_wf<K, V: Val<A>, A: Ord>(pre: SMap<K, Entry<V, A>>, post: SMap<K, Entry<V, A>>, key: K, clock: VClock<A>)
    requires
        ents_ok(pre), krm_one(pre, post, key, clock),
        forall|k: K| #![trigger post.contains_key(k)] k != key ==> (post.contains_key(k) == pre.contains_key(k) && (post.contains_key(k) ==> post[k] == pre[k])),
    ensures ents_ok(post),
{
    assert forall|k: K| post.contains_key(k) implies nz(#[trigger] post[k].clock@) && post[k].clock@ != SMap::<A, u64>::empty() && post[k].val.cm_inv() by {
        if k == key { c10_vsub_nz(pre[k].clock@, clock@); } else { assert(post.contains_key(k) == pre.contains_key(k)); assert(post[k] == pre[k]); }
    }
}

proof fn lemma_krm_done<K: Ord, V: Val<A>, A: Ord + Hash>(old_: Map<K, V, A>, new_: Map<K, V, A>, ks: SSet<K>, clock: VClock<A>)
    requires
        old_.wf(), nz(clock@), nz(new_.clock@), new_.clock@ == old_.clock@,
        forall|k: K| #![trigger new_.entries@.contains_key(k)] ks.contains(k) || (new_.entries@.contains_key(k) == old_.entries@.contains_key(k) && (new_.entries@.contains_key(k) ==> new_.entries@[k] == old_.entries@[k])),
        forall|k: K| ks.contains(k) ==> #[trigger] krm_one(old_.entries@, new_.entries@, k, clock),
        new_.deferred@ == (if vle(clock@, old_.clock@) { old_.deferred@ } else { old_.deferred@.insert(clock, new_.deferred@[clock]) }),
        !vle(clock@, old_.clock@) ==> new_.deferred@.contains_key(clock) && new_.deferred@[clock]@ == old_.dm(clock).union(ks),
    ensures new_.wf(), keyset_rm_post(old_, ks, clock, new_),
{
    assert forall|k: K| new_.entries@.contains_key(k) implies nz(#[trigger] new_.entries@[k].clock@) && new_.entries@[k].clock@ != SMap::<A, u64>::empty() && new_.entries@[k].val.cm_inv() by {
        if ks.contains(k) { assert(krm_one(old_.entries@, new_.entries@, k, clock)); c10_vsub_nz(old_.entries@[k].clock@, clock@); }
        else { assert(new_.entries@[k] == old_.entries@[k]); }
    }
    assert forall|k: K| #[trigger] new_.ec(k) == (if ks.contains(k) { vsub(old_.ec(k), clock@) } else { old_.ec(k) }) by {
        if ks.contains(k) {
            assert(krm_one(old_.entries@, new_.entries@, k, clock));
            if !old_.entries@.contains_key(k) { assert(vsub(SMap::<A, u64>::empty(), clock@) =~= SMap::<A, u64>::empty()); }
        }
    }
    assert forall|k: K| #[trigger] new_.has(k) == (old_.has(k) && new_.ec(k) != SMap::<A, u64>::empty()) by {
        if ks.contains(k) { assert(krm_one(old_.entries@, new_.entries@, k, clock)); }
    }
    assert forall|k: K| ks.contains(k) && #[trigger] new_.has(k) implies V::rr_post(&old_.val(k), &clock, &new_.val(k)) by {
        assert(krm_one(old_.entries@, new_.entries@, k, clock));
    }
}

proof fn lemma_up_mid<K: Ord, V: Val<A>, A: Ord + Hash>(pre: Map<K, V, A>, mid: Map<K, V, A>, key: K, e0: Entry<V, A>, e1: Entry<V, A>, a: A, n: u64)
    requires
        pre.wf(), n > cnt(pre.clock@, a), mid.clock@ == pre.clock@.insert(a, n), mid.deferred@ == pre.deferred@,
        mid.entries@ == pre.entries@.insert(key, e1),
        pre.entries@.contains_key(key) ==> e0 == pre.entries@[key],
        !pre.entries@.contains_key(key) ==> e0.clock@ == SMap::<A, u64>::empty(),
        e1.clock@ == vapp(e0.clock@, a, n), e1.val.cm_inv(), nz(e0.clock@),
    ensures
        mid.wf(),
        mid.ec(key) == vapp(pre.ec(key), a, n), mid.has(key),
        forall|k: K| k != key ==> #[trigger] mid.ec(k) == pre.ec(k),
        forall|k: K| k != key ==> #[trigger] mid.has(k) == pre.has(k),
        forall|k: K| k != key && #[trigger] mid.has(k) ==> mid.val(k) == pre.val(k),
{
    assert forall|k: K| mid.entries@.contains_key(k) implies nz(#[trigger] mid.entries@[k].clock@) && mid.entries@[k].clock@ != SMap::<A, u64>::empty() && mid.entries@[k].val.cm_inv() by {
        if k == key {
            let c1 = vapp(e0.clock@, a, n);
            assert forall|b: A| c1.contains_key(b) implies #[trigger] c1[b] > 0 by { if b != a { assert(e0.clock@.contains_key(b)); } }
            if cnt(e0.clock@, a) < n { assert(c1.contains_key(a)); } else { assert(e0.clock@.contains_key(a)); }
        } else { assert(pre.entries@.contains_key(k)); }
    }
    assert forall|b: A| mid.clock@.contains_key(b) implies #[trigger] mid.clock@[b] > 0 by { if b != a { assert(pre.clock@.contains_key(b)); } }
}

proof fn lemma_up_fin<K: Ord, V: Val<A>, A: Ord + Hash>(pre: Map<K, V, A>, mid: Map<K, V, A>, fin: Map<K, V, A>, key: K, op: V::Op, e0: Entry<V, A>, a: A, n: u64)
    requires
        n > cnt(pre.cl(), a), mid.cl() == pre.cl().insert(a, n), mid.defs() == pre.defs(),
        mid.ec(key) == vapp(pre.ec(key), a, n), mid.has(key),
        forall|k: K| k != key ==> #[trigger] mid.ec(k) == pre.ec(k),
        forall|k: K| k != key ==> #[trigger] mid.has(k) == pre.has(k),
        forall|k: K| k != key && #[trigger] mid.has(k) ==> mid.val(k) == pre.val(k),
        pre.has(key) ==> e0.vl() == pre.val(key),
        !pre.has(key) ==> V::default.ensures((), e0.vl()),
        V::cm_post(&e0.vl(), &op, &mid.val(key)),
        deferred_post(mid, fin),
    ensures
        apply_post_map(pre, Op::Up { dot: Dot { actor: a, counter: n }, key, op }, fin),
{
    let d = Dot { actor: a, counter: n };
    assert forall|k: K, b: A| #![trigger cnt(fin.ec(k), b)] cnt(fin.ec(k), b) == ({
            let e = if k == key { vapp(pre.ec(k), d.actor, d.counter) } else { pre.ec(k) };
            if kcovered_by(pre.defs(), k, b, cnt(e, b)) { 0 } else { cnt(e, b) } }) by {
        assert(cnt(fin.ec(k), b) == (if kcovered_by(mid.defs(), k, b, cnt(mid.ec(k), b)) { 0 } else { cnt(mid.ec(k), b) }));
    }
    assert forall|k: K| #[trigger] fin.has(k) == ((pre.has(k) || k == key) && fin.ec(k) != SMap::<A, u64>::empty()) by {
        assert(fin.has(k) == (mid.has(k) && fin.ec(k) != SMap::<A, u64>::empty()));
    }
    assert forall|k: K| k != key && !named_by(pre.defs(), k) && #[trigger] fin.has(k) implies fin.val(k) == pre.val(k) by {
        assert(fin.has(k) == (mid.has(k) && fin.ec(k) != SMap::<A, u64>::empty()));
        assert(mid.has(k) == pre.has(k));
        assert(fin.val(k) == mid.val(k));
    }
    assert(fin.cl() == pre.cl().insert(d.actor, d.counter));
    assert forall|c: VClock<A>| #![trigger fin.defs().contains_key(c)] fin.defs().contains_key(c) <==> (pre.defs().contains_key(c) && !vle(c@, fin.cl())) by {}
    assert forall|c: VClock<A>| #![trigger fin.defs()[c]] fin.defs().contains_key(c) implies fin.defs()[c]@ == pre.defs()[c]@ by {}
    let o = Op::<K, V, A>::Up { dot: d, key, op };
    assert(o->op == op && o->key == key && o->dot == d);
    if !named_by(pre.defs(), key) && fin.has(key) {
        assert(fin.val(key) == mid.val(key));
        let v0 = e0.vl();
        assert((if pre.has(key) { v0 == pre.val(key) } else { V::default.ensures((), v0) }) && V::cm_post(&v0, &o->op, &fin.val(key)));
    }
    assert(o is Up && cnt(pre.cl(), o->dot.actor) < o->dot.counter);
    assert(apply_post_map(pre, o, fin));
}

proof fn lemma_rrm_entries<K, V: Val<A>, A: Ord>(e0: SMap<K, Entry<V, A>>, e1: SMap<K, Entry<V, A>>, clock: VClock<A>)
    requires
        ents_ok(e0),
        forall|k: K| #[trigger] e1.contains_key(k) ==> e0.contains_key(k) && rrm_keep(k, e0[k], Some((k, e1[k])), clock),
        forall|k: K| #[trigger] e0.contains_key(k) && !e1.contains_key(k) ==> rrm_keep(k, e0[k], None, clock),
    ensures
        ents_ok(e1),
        forall|k: K| #![trigger e1.contains_key(k)] e1.contains_key(k) <==> (e0.contains_key(k) && vsub(e0[k].clock@, clock@) != SMap::<A, u64>::empty()),
        forall|k: K| #[trigger] e1.contains_key(k) ==> e1[k].clock@ == vsub(e0[k].clock@, clock@) && V::rr_post(&e0[k].val, &clock, &e1[k].val),
{
    assert forall|k: K| e1.contains_key(k) implies nz(#[trigger] e1[k].clock@) && e1[k].clock@ != SMap::<A, u64>::empty() && e1[k].val.cm_inv() by {
        assert(e0.contains_key(k)); c10_vsub_nz(e0[k].clock@, clock@);
    }
    assert forall|k: K| #![trigger e1.contains_key(k)] e1.contains_key(k) <==> (e0.contains_key(k) && vsub(e0[k].clock@, clock@) != SMap::<A, u64>::empty()) by {
        if e0.contains_key(k) && !e1.contains_key(k) { assert(rrm_keep(k, e0[k], None::<(K, Entry<V, A>)>, clock)); }
    }
}

proof fn lemma_rrm_deferred_from<K: Ord, A: Ord + Hash>(d0: SMap<VClock<A>, BTreeSet<K>>, d1: SMap<VClock<A>, BTreeSet<K>>, c: SMap<A, u64>)
    requires
        forall|k: VClock<A>| #[trigger] d0.contains_key(k) ==> nz(k@),
        forall|k2: VClock<A>| #[trigger] d1.contains_key(k2) ==> exists|k: VClock<A>| d0.contains_key(k) && #[trigger] rrm_keep_d(k@, d0[k], Some((k2, d1[k2])), c),
    ensures
        forall|k2: VClock<A>| #[trigger] d1.contains_key(k2) ==> nz(k2@),
        rekeyed_from(d0, d1, c),
{
    reveal(rekeyed_from);
    assert forall|k2: VClock<A>| #[trigger] d1.contains_key(k2) implies nz(k2@) && exists|k: VClock<A>| #[trigger] d0.contains_key(k) && k2@ == vsub(k@, c) && d1[k2] == d0[k] by {
        let k = choose|k: VClock<A>| d0.contains_key(k) && #[trigger] rrm_keep_d(k@, d0[k], Some((k2, d1[k2])), c);
        assert(d0.contains_key(k));
        c10_vsub_nz(k@, c);
    }
}
proof fn lemma_rrm_deferred_onto<K: Ord, A: Ord + Hash>(d0: SMap<VClock<A>, BTreeSet<K>>, d1: SMap<VClock<A>, BTreeSet<K>>, c: SMap<A, u64>)
    requires
        forall|k: VClock<A>| #[trigger] d0.contains_key(k) ==> exists|o: Option<(VClock<A>, BTreeSet<K>)>| #[trigger] rrm_keep_d(k@, d0[k], o, c) && (o matches Some(q) ==> d1.contains_key(q.0)),
    ensures rekeyed_onto(d0, d1, c),
{
    reveal(rekeyed_onto);
    assert forall|k: VClock<A>| #[trigger] d0.contains_key(k) && vsub(k@, c) != SMap::<A, u64>::empty() implies exists|k2: VClock<A>| #[trigger] d1.contains_key(k2) && k2@ == vsub(k@, c) by {
        let o = choose|o: Option<(VClock<A>, BTreeSet<K>)>| #[trigger] rrm_keep_d(k@, d0[k], o, c) && (o matches Some(q) ==> d1.contains_key(q.0));
        let q = o->Some_0;
        assert(d1.contains_key(q.0) && q.0@ == vsub(k@, c));
    }
}

proof fn lemma_rrm_done<K: Ord, V: Val<A>, A: Ord + Hash>(old_: Map<K, V, A>, new_: Map<K, V, A>, clock: VClock<A>, e0: SMap<K, Entry<V, A>>, e1: SMap<K, Entry<V, A>>, d0: SMap<VClock<A>, BTreeSet<K>>, d1: SMap<VClock<A>, BTreeSet<K>>)
    requires
        old_.wf(), nz(new_.clock@), new_.clock@ == vsub(old_.clock@, clock@),
        old_.entries@ == e0, new_.entries@ == e1, old_.deferred@ == d0, new_.deferred@ == d1,
        ents_ok(e1),
        forall|k: K| #![trigger e1.contains_key(k)] e1.contains_key(k) <==> (e0.contains_key(k) && vsub(e0[k].clock@, clock@) != SMap::<A, u64>::empty()),
        forall|k: K| #[trigger] e1.contains_key(k) ==> e1[k].clock@ == vsub(e0[k].clock@, clock@) && V::rr_post(&e0[k].val, &clock, &e1[k].val),
        forall|k2: VClock<A>| #[trigger] d1.contains_key(k2) ==> nz(k2@),
        rekeyed_from(d0, d1, clock@), rekeyed_onto(d0, d1, clock@),
    ensures new_.wf(), rr_post_map(old_, clock, new_),
{
    assert forall|k: K| #[trigger] new_.ec(k) == vsub(old_.ec(k), clock@) by {
        if !old_.entries@.contains_key(k) { assert(vsub(SMap::<A, u64>::empty(), clock@) =~= SMap::<A, u64>::empty()); }
        else if !new_.entries@.contains_key(k) { }
    }
    assert forall|k: K| #[trigger] new_.has(k) == (old_.has(k) && new_.ec(k) != SMap::<A, u64>::empty()) by {
        if new_.entries@.contains_key(k) { assert(new_.entries@[k].clock@ != SMap::<A, u64>::empty()); }
    }
    assert forall|k: K| #[trigger] new_.has(k) implies V::rr_post(&old_.val(k), &clock, &new_.val(k)) by {}
    assert(new_.wf()) by {
        assert forall|k2: VClock<A>| #[trigger] new_.deferred@.contains_key(k2) implies nz(k2@) by { assert(new_.defs().contains_key(k2)); }
        assert forall|k: K| new_.entries@.contains_key(k) implies nz(#[trigger] new_.entries@[k].clock@) && new_.entries@[k].clock@ != SMap::<A, u64>::empty() && new_.entries@[k].val.cm_inv() by {}
    }
    let c = clock@;
    assert(new_.cl() == vsub(old_.cl(), c));
    assert(rr_post_map(old_, clock, new_));
}

pub proof fn lemma_map_len0<K, T>(m: SMap<K, T>)
    ensures (m.len() == 0) <==> (forall|k: K| !m.contains_key(k)), m.is_empty() <==> (forall|k: K| !m.contains_key(k)),
{
    if m.is_empty() { assert forall|k: K| !m.contains_key(k) by { assert(!m.dom().contains(k)); } }
    if m.len() == 0 { m.dom().lemma_len0_is_empty(); assert forall|k: K| !m.contains_key(k) by { assert(!m.dom().contains(k)); } }
    if forall|k: K| !m.contains_key(k) { assert(m.dom() =~= SSet::<K>::empty()); }
}

spec fn kcovered_upto<K: Ord, A: Ord>(vs: Seq<(VClock<A>, BTreeSet<K>)>, idx: int, m: K, a: A, n: u64) -> bool {
    exists|j: int| 0 <= j < idx && (#[trigger] vs[j]).1@.contains(m) && cnt(vs[j].0@, a) >= n
}
spec fn knamed_upto<K: Ord, A: Ord>(vs: Seq<(VClock<A>, BTreeSet<K>)>, idx: int, m: K) -> bool {
    exists|j: int| 0 <= j < idx && (#[trigger] vs[j]).1@.contains(m)
}
proof fn lemma_apply_deferred_step<K: Ord, V: Val<A>, A: Ord + Hash>(old_: Map<K, V, A>, pre: Map<K, V, A>, post: Map<K, V, A>, vs: Seq<(VClock<A>, BTreeSet<K>)>, idx: int)
    requires
        0 <= idx < vs.len(), pre.wf(), post.wf(), post.cl() == pre.cl(),
        forall|i: int, j: int| 0 <= i < j < vs.len() ==> (#[trigger] vs[i]).0 != (#[trigger] vs[j]).0,
        forall|m: K, a: A| #![trigger cnt(pre.ec(m), a)] cnt(pre.ec(m), a) == (if kcovered_upto(vs, idx, m, a, cnt(old_.ec(m), a)) { 0 } else { cnt(old_.ec(m), a) }),
        forall|k: VClock<A>| #![trigger pre.defs().contains_key(k)] pre.defs().contains_key(k) <==> (exists|j: int| 0 <= j < idx && (#[trigger] vs[j]).0 == k && !vle(k@, pre.cl())),
        forall|j: int| 0 <= j < idx && pre.defs().contains_key((#[trigger] vs[j]).0) ==> pre.defs()[vs[j].0]@ == vs[j].1@,
        // what apply_rm(vs[idx].1, vs[idx].0) guarantees
        forall|m: K| #[trigger] post.ec(m) == (if vs[idx].1@.contains(m) { vsub(pre.ec(m), vs[idx].0@) } else { pre.ec(m) }),
        post.defs() == (if vle(vs[idx].0@, pre.cl()) { pre.defs() } else { pre.defs().insert(vs[idx].0, post.defs()[vs[idx].0]) }),
        !vle(vs[idx].0@, pre.cl()) ==> post.defs().contains_key(vs[idx].0) && post.defs()[vs[idx].0]@ == pre.dm(vs[idx].0).union(vs[idx].1@),
    ensures
        forall|m: K, a: A| #![trigger cnt(post.ec(m), a)] cnt(post.ec(m), a) == (if kcovered_upto(vs, idx + 1, m, a, cnt(old_.ec(m), a)) { 0 } else { cnt(old_.ec(m), a) }),
        forall|k: VClock<A>| #![trigger post.defs().contains_key(k)] post.defs().contains_key(k) <==> (exists|j: int| 0 <= j < idx + 1 && (#[trigger] vs[j]).0 == k && !vle(k@, post.cl())),
        forall|j: int| 0 <= j < idx + 1 && post.defs().contains_key((#[trigger] vs[j]).0) ==> post.defs()[vs[j].0]@ == vs[j].1@,
{
    let kc = vs[idx].0;
    let ks = vs[idx].1@;
    assert forall|m: K, a: A| #![trigger cnt(post.ec(m), a)] cnt(post.ec(m), a) == (if kcovered_upto(vs, idx + 1, m, a, cnt(old_.ec(m), a)) { 0 } else { cnt(old_.ec(m), a) }) by {
        let n = cnt(old_.ec(m), a);
        assert(cnt(pre.ec(m), a) == (if kcovered_upto(vs, idx, m, a, n) { 0 } else { n }));
        assert(post.ec(m) == (if ks.contains(m) { vsub(pre.ec(m), kc@) } else { pre.ec(m) }));
        if kcovered_upto(vs, idx, m, a, n) {
            let j = choose|j: int| 0 <= j < idx && (#[trigger] vs[j]).1@.contains(m) && cnt(vs[j].0@, a) >= n;
            assert(0 <= j < idx + 1 && vs[j].1@.contains(m) && cnt(vs[j].0@, a) >= n);
        }
        if ks.contains(m) && cnt(kc@, a) >= n {
            assert(0 <= idx < idx + 1 && vs[idx].1@.contains(m) && cnt(vs[idx].0@, a) >= n);
        }
        if kcovered_upto(vs, idx + 1, m, a, n) && !kcovered_upto(vs, idx, m, a, n) {
            let j = choose|j: int| 0 <= j < idx + 1 && (#[trigger] vs[j]).1@.contains(m) && cnt(vs[j].0@, a) >= n;
            assert(j == idx);
        }
    }
    // the key of this step was not pending before (keys are pairwise distinct)
    assert(!pre.defs().contains_key(kc)) by {
        if pre.defs().contains_key(kc) {
            let j = choose|j: int| 0 <= j < idx && (#[trigger] vs[j]).0 == kc && !vle(kc@, pre.cl());
            assert(vs[j].0 != vs[idx].0);
        }
    }
    assert forall|k: VClock<A>| #![trigger post.defs().contains_key(k)] post.defs().contains_key(k) <==> (exists|j: int| 0 <= j < idx + 1 && (#[trigger] vs[j]).0 == k && !vle(k@, post.cl())) by {
        if post.defs().contains_key(k) {
            if k == kc && !vle(kc@, pre.cl()) {
                assert(0 <= idx < idx + 1 && vs[idx].0 == k && !vle(k@, post.cl()));
            } else {
                assert(pre.defs().contains_key(k));
                let j = choose|j: int| 0 <= j < idx && (#[trigger] vs[j]).0 == k && !vle(k@, pre.cl());
                assert(0 <= j < idx + 1 && vs[j].0 == k && !vle(k@, post.cl()));
            }
        }
        if exists|j: int| 0 <= j < idx + 1 && (#[trigger] vs[j]).0 == k && !vle(k@, post.cl()) {
            let j = choose|j: int| 0 <= j < idx + 1 && (#[trigger] vs[j]).0 == k && !vle(k@, post.cl());
            if j < idx { assert(pre.defs().contains_key(k)); } else { assert(k == kc); }
        }
    }
    assert forall|j: int| 0 <= j < idx + 1 && post.defs().contains_key((#[trigger] vs[j]).0) implies post.defs()[vs[j].0]@ == vs[j].1@ by {
        if j == idx {
            assert(pre.dm(kc) =~= SSet::<K>::empty());
            assert(pre.dm(kc).union(ks) =~= ks);
        } else {
            assert(vs[j].0 != vs[idx].0);
            assert(pre.defs().contains_key(vs[j].0));
        }
    }
}

proof fn lemma_apply_deferred_done<K: Ord, V: Val<A>, A: Ord + Hash>(old_: Map<K, V, A>, post: Map<K, V, A>, vs: Seq<(VClock<A>, BTreeSet<K>)>)
    requires
        post.cl() == old_.cl(),
        forall|i: int| 0 <= i < vs.len() ==> old_.defs().contains_key((#[trigger] vs[i]).0) && old_.defs()[vs[i].0] == vs[i].1,
        forall|k: VClock<A>| old_.defs().contains_key(k) ==> exists|i: int| 0 <= i < vs.len() && (#[trigger] vs[i]).0 == k,
        forall|m: K, a: A| #![trigger cnt(post.ec(m), a)] cnt(post.ec(m), a) == (if kcovered_upto(vs, vs.len() as int, m, a, cnt(old_.ec(m), a)) { 0 } else { cnt(old_.ec(m), a) }),
        forall|k: VClock<A>| #![trigger post.defs().contains_key(k)] post.defs().contains_key(k) <==> (exists|j: int| 0 <= j < vs.len() && (#[trigger] vs[j]).0 == k && !vle(k@, post.cl())),
        forall|j: int| 0 <= j < vs.len() && post.defs().contains_key((#[trigger] vs[j]).0) ==> post.defs()[vs[j].0]@ == vs[j].1@,
    ensures
        forall|m: K, a: A| #![trigger cnt(post.ec(m), a)] cnt(post.ec(m), a) == (if kcovered_by(old_.defs(), m, a, cnt(old_.ec(m), a)) { 0 } else { cnt(old_.ec(m), a) }),
        forall|k: VClock<A>| #![trigger post.defs().contains_key(k)] post.defs().contains_key(k) <==> (old_.defs().contains_key(k) && !vle(k@, old_.cl())),
        forall|k: VClock<A>| #![trigger post.defs()[k]] post.defs().contains_key(k) ==> post.defs()[k]@ == old_.defs()[k]@,
{
    let d = old_.defs();
    assert forall|m: K, a: A| #![trigger cnt(post.ec(m), a)] cnt(post.ec(m), a) == (if kcovered_by(d, m, a, cnt(old_.ec(m), a)) { 0 } else { cnt(old_.ec(m), a) }) by {
        let n = cnt(old_.ec(m), a);
        if kcovered_by(d, m, a, n) {
            let k = choose|k: VClock<A>| #[trigger] d.contains_key(k) && d[k]@.contains(m) && cnt(k@, a) >= n;
            let i = choose|i: int| 0 <= i < vs.len() && (#[trigger] vs[i]).0 == k;
            assert(vs[i].1@.contains(m) && cnt(vs[i].0@, a) >= n);
        }
        if kcovered_upto(vs, vs.len() as int, m, a, n) {
            let j = choose|j: int| 0 <= j < vs.len() && (#[trigger] vs[j]).1@.contains(m) && cnt(vs[j].0@, a) >= n;
            assert(d.contains_key(vs[j].0) && d[vs[j].0]@.contains(m));
        }
    }
    assert forall|k: VClock<A>| #![trigger post.defs().contains_key(k)] post.defs().contains_key(k) <==> (d.contains_key(k) && !vle(k@, old_.cl())) by {
        if post.defs().contains_key(k) {
            let j = choose|j: int| 0 <= j < vs.len() && (#[trigger] vs[j]).0 == k && !vle(k@, post.cl());
            assert(d.contains_key(vs[j].0));
        }
        if d.contains_key(k) && !vle(k@, old_.cl()) {
            let i = choose|i: int| 0 <= i < vs.len() && (#[trigger] vs[i]).0 == k;
            assert(0 <= i < vs.len() && vs[i].0 == k && !vle(k@, post.cl()));
        }
    }
    assert forall|k: VClock<A>| #![trigger post.defs()[k]] post.defs().contains_key(k) implies post.defs()[k]@ == d[k]@ by {
        let j = choose|j: int| 0 <= j < vs.len() && (#[trigger] vs[j]).0 == k && !vle(k@, post.cl());
        assert(post.defs().contains_key(vs[j].0));
        assert(d[vs[j].0] == vs[j].1);
    }
}

proof fn lemma_deferred_vals_step<K: Ord, V: Val<A>, A: Ord + Hash>(old_: Map<K, V, A>, pre: Map<K, V, A>, post: Map<K, V, A>, vs: Seq<(VClock<A>, BTreeSet<K>)>, idx: int)
    requires
        0 <= idx < vs.len(),
        forall|m: K| #[trigger] pre.has(m) == (old_.has(m) && pre.ec(m) != SMap::<A, u64>::empty()),
        forall|m: K| !knamed_upto(vs, idx, m) && #[trigger] pre.has(m) ==> pre.val(m) == old_.val(m),
        forall|m: K| #[trigger] post.has(m) == (pre.has(m) && post.ec(m) != SMap::<A, u64>::empty()),
        forall|m: K| !vs[idx].1@.contains(m) && #[trigger] post.has(m) ==> post.val(m) == pre.val(m),
        forall|m: K| !pre.has(m) ==> #[trigger] pre.ec(m) == SMap::<A, u64>::empty(),
        forall|m: K| #[trigger] post.ec(m) == (if vs[idx].1@.contains(m) { vsub(pre.ec(m), vs[idx].0@) } else { pre.ec(m) }),
    ensures
        forall|m: K| #[trigger] post.has(m) == (old_.has(m) && post.ec(m) != SMap::<A, u64>::empty()),
        forall|m: K| !knamed_upto(vs, idx + 1, m) && #[trigger] post.has(m) ==> post.val(m) == old_.val(m),
{
    assert forall|m: K| #[trigger] post.has(m) == (old_.has(m) && post.ec(m) != SMap::<A, u64>::empty()) by {
        if !pre.has(m) { assert(pre.ec(m) == SMap::<A, u64>::empty()); assert(vsub(SMap::<A, u64>::empty(), vs[idx].0@) =~= SMap::<A, u64>::empty()); }
    }
    assert forall|m: K| !knamed_upto(vs, idx + 1, m) && #[trigger] post.has(m) implies post.val(m) == old_.val(m) by {
        if vs[idx].1@.contains(m) { assert(0 <= idx < idx + 1 && vs[idx].1@.contains(m)); }
        if knamed_upto(vs, idx, m) { let j = choose|j: int| 0 <= j < idx && (#[trigger] vs[j]).1@.contains(m); assert(0 <= j < idx + 1 && vs[j].1@.contains(m)); }
    }
}
proof fn lemma_deferred_vals_done<K: Ord, V: Val<A>, A: Ord + Hash>(old_: Map<K, V, A>, post: Map<K, V, A>, vs: Seq<(VClock<A>, BTreeSet<K>)>)
    requires
        forall|i: int| 0 <= i < vs.len() ==> old_.defs().contains_key((#[trigger] vs[i]).0) && old_.defs()[vs[i].0] == vs[i].1,
        forall|m: K| !knamed_upto(vs, vs.len() as int, m) && #[trigger] post.has(m) ==> post.val(m) == old_.val(m),
    ensures forall|m: K| !named_by(old_.defs(), m) && #[trigger] post.has(m) ==> post.val(m) == old_.val(m),
{
    assert forall|m: K| !named_by(old_.defs(), m) && #[trigger] post.has(m) implies post.val(m) == old_.val(m) by {
        if knamed_upto(vs, vs.len() as int, m) {
            let j = choose|j: int| 0 <= j < vs.len() && (#[trigger] vs[j]).1@.contains(m);
            assert(old_.defs().contains_key(vs[j].0) && old_.defs()[vs[j].0]@.contains(m));
        }
    }
}

} // verus!
}
pub use crate::map::Map;
