pub mod map {
use vstd::prelude::*;
use vstd::map::Map as SMap;
use vstd::set::Set as SSet;
use std::cmp::Ordering;
use std::collections::HashMap;
use std::collections::{BTreeMap, BTreeSet};
use std::hash::Hash;
use std::mem;
use vstd::std_specs::hash::*;
use vstd::std_specs::iter::IteratorSpec;
use vstd::std_specs::cmp::{PartialEqSpec, PartialOrdSpec};
use crate::spec::*;
use crate::stdx::*;
use crate::stdx3::*;
use crate::stdx5::*;
use crate::vclock::{pcmp_code, lemma_pcmp_code, dots_of};
use crate::orswot::{c10_vsub_nz, lemma_cnt_vsub, mrg, lemma_common, lemma_unref_to_set, axiom_vclock_key};
use crate::ctx::{AddCtx, ReadCtx, RmCtx};
use crate::{CmRDT, CvRDT, Dot, ResetRemove, VClock};
verus! {

// the marker trait and its blanket impl, as in the crate
pub trait Val<A: Ord>: Clone + Default + ResetRemove<A> + CmRDT {}

impl<A, T> Val<A> for T
where
    A: Ord,
    T: Clone + Default + ResetRemove<A> + CmRDT,
{
}

//@extract struct src/map.rs Map
pub struct Map<K: Ord, V: Val<A>, A: Ord + Hash> {
    // This clock stores the current version of the Map, it should
    // be greator or equal to all Entry.clock's in the Map.
    clock: VClock<A>,
    entries: BTreeMap<K, Entry<V, A>>,
    deferred: HashMap<VClock<A>, BTreeSet<K>>,
}
//@end

//@extract struct src/map.rs Entry
struct Entry<V: Val<A>, A: Ord> {
    // The entry clock tells us which actors edited this entry.
    clock: VClock<A>,

    // The nested CRDT
    val: V,
}
//@end

//@extract enum src/map.rs Op
pub enum Op<K: Ord, V: Val<A>, A: Ord> {
    Rm {
        clock: VClock<A>,
        keyset: BTreeSet<K>,
    },
    Up {
        dot: Dot<A>,
        key: K,
        op: V::Op,
    },
}
//@end

/// Usage hypotheses on a nested value type (discharged for MVReg / Orswot / Map by instance lemmas):
/// its three trait-level invariants coincide, `default()` satisfies them, Clone returns an equal value.
pub open spec fn val_ok<V: Val<A>, A: Ord>() -> bool {
    &&& forall|v: V| #![trigger v.cm_inv()] #![trigger v.rr_inv()] v.cm_inv() <==> v.rr_inv()
    &&& forall|v: V| #[trigger] V::default.ensures((), v) ==> v.cm_inv()
    &&& clone_ok::<V>()
}
pub open spec fn mbase_ok<K: Ord, V: Val<A>, A: Ord + Hash>() -> bool {
    actor_ok::<A>() && actor_ok::<K>() && key_ok::<VClock<A>>() && val_ok::<V, A>()
}

impl<V: Val<A>, A: Ord> Entry<V, A> {
    pub closed spec fn ck(&self) -> SMap<A, u64> { self.clock@ }
    pub closed spec fn vl(&self) -> V { self.val }
}

impl<V: Val<A>, A: Ord> Default for Entry<V, A> {
//@extract fn src/map.rs "Default for Entry" default
    fn default() -> /*@ (r: @*/ Self /*@ ) @*/
    //@ ensures r.ck() == SMap::<A, u64>::empty(), V::default.ensures((), r.vl()),
    {
        Self {
            clock: VClock::default(),
            val: V::default(),
        }
    }
//@end
}

// assumed semantics of #[derive(Clone)] on Entry (field-wise)
impl<V: Val<A>, A: Ord + Clone> Clone for Entry<V, A> {
    #[verifier::external_body]
    fn clone(&self) -> (r: Self)
        ensures actor_ok::<A>() && clone_ok::<A>() ==> r.ck() == self.ck(), cloned(self.vl(), r.vl()), nz(self.ck()) ==> nz(r.ck()),
    {
        Entry { clock: self.clock.clone(), val: self.val.clone() }
    }
}

impl<K: Ord, V: Val<A>, A: Ord + Hash> Map<K, V, A> {
    pub closed spec fn cl(&self) -> SMap<A, u64> { self.clock@ }
    pub closed spec fn has(&self, k: K) -> bool { self.entries@.contains_key(k) }
    /// entry clock of a key; the empty clock stands for "absent"
    pub closed spec fn ec(&self, k: K) -> SMap<A, u64> {
        if self.entries@.contains_key(k) { self.entries@[k].clock@ } else { SMap::<A, u64>::empty() }
    }
    /// the nested value under a present key
    pub closed spec fn val(&self, k: K) -> V { self.entries@[k].val }
    pub closed spec fn keys_dom(&self) -> SSet<K> { self.entries@.dom() }
    pub closed spec fn defs(&self) -> SMap<VClock<A>, BTreeSet<K>> { self.deferred@ }
    pub open spec fn dm(&self, c: VClock<A>) -> SSet<K> {
        if self.defs().contains_key(c) { self.defs()[c]@ } else { SSet::<K>::empty() }
    }
    /// representation invariant (no stored zero, no empty entry clock, nested values well formed)
    pub closed spec fn wf(&self) -> bool {
        &&& nz(self.clock@)
        &&& forall|k: K| self.entries@.contains_key(k) ==> nz(#[trigger] self.entries@[k].clock@) && self.entries@[k].clock@ != SMap::<A, u64>::empty() && self.entries@[k].val.cm_inv()
        &&& forall|c: VClock<A>| #[trigger] self.deferred@.contains_key(c) ==> nz(c@)
    }
    pub proof fn lemma_wf(&self)
        ensures self.wf() ==> nz(self.cl()) && (forall|k: K| #[trigger] self.has(k) ==> nz(self.ec(k)) && self.ec(k) != SMap::<A, u64>::empty() && self.val(k).cm_inv())
            && (forall|c: VClock<A>| #[trigger] self.defs().contains_key(c) ==> nz(c@)),
            forall|k: K| !self.has(k) ==> #[trigger] self.ec(k) == SMap::<A, u64>::empty(),
    {}
}

// #[derive(Clone)] on Map (assumed field-wise)
impl<K: Ord + Clone, V: Val<A>, A: Ord + Hash + Clone> Clone for Map<K, V, A> {
    #[verifier::external_body]
    fn clone(&self) -> (r: Self) ensures actor_ok::<A>() && clone_ok::<A>() ==> r.cl() == self.cl() { Map { clock: self.clock.clone(), entries: self.entries.clone(), deferred: self.deferred.clone() } }
}

impl<K: Ord, V: Val<A>, A: Ord + Hash> Default for Map<K, V, A> {
//@extract fn src/map.rs "Default for Map" default
    fn default() -> /*@ (r: @*/ Self /*@ ) @*/
    //@ ensures r.wf(), r.cl() == SMap::<A, u64>::empty(), forall|k: K| !r.has(k), r.defs() == SMap::<VClock<A>, BTreeSet<K>>::empty(),
    {
        Self {
            clock: Default::default(),
            entries: Default::default(),
            deferred: Default::default(),
        }
    }
//@end
}

/// some pending remove in `d` names key k and covers its dot (a, n)
pub open spec fn kcovered_by<K: Ord, A: Ord>(d: SMap<VClock<A>, BTreeSet<K>>, k: K, a: A, n: u64) -> bool {
    exists|c: VClock<A>| #[trigger] d.contains_key(c) && d[c]@.contains(k) && cnt(c@, a) >= n
}
pub open spec fn named_by<K: Ord, A: Ord>(d: SMap<VClock<A>, BTreeSet<K>>, k: K) -> bool {
    exists|c: VClock<A>| #[trigger] d.contains_key(c) && d[c]@.contains(k)
}

/// effect of applying a key-remove (keyset, clock) -- Map::apply_keyset_rm, Map::apply(Op::Rm)
pub open spec fn keyset_rm_post<K: Ord, V: Val<A>, A: Ord + Hash>(old_: Map<K, V, A>, ks: SSet<K>, clock: VClock<A>, new_: Map<K, V, A>) -> bool {
    &&& new_.cl() == old_.cl()
    // C05: every named key forgets the update dots the remove context covers (and disappears when none is left) ...
    &&& forall|k: K| #[trigger] new_.ec(k) == (if ks.contains(k) { vsub(old_.ec(k), clock@) } else { old_.ec(k) })
    &&& forall|k: K| #[trigger] new_.has(k) == (old_.has(k) && new_.ec(k) != SMap::<A, u64>::empty())
    // ... unnamed keys are untouched, and under a surviving named key the nested value is reset by the same context
    &&& forall|k: K| !ks.contains(k) && #[trigger] new_.has(k) ==> new_.val(k) == old_.val(k)
    &&& forall|k: K| ks.contains(k) && #[trigger] new_.has(k) ==> V::rr_post(&old_.val(k), &clock, &new_.val(k))
    // a remove whose context the map clock does not cover yet is remembered
    &&& new_.defs() == (if vle(clock@, old_.cl()) { old_.defs() } else { old_.defs().insert(clock, new_.defs()[clock]) })
    &&& (!vle(clock@, old_.cl()) ==> new_.defs().contains_key(clock) && new_.defs()[clock]@ == old_.dm(clock).union(ks))
}

/// pending removes after reset_remove(c): every remaining context is a reduced old one and keeps that one's key set ...
#[verifier::opaque]
pub open spec fn rekeyed_from<K: Ord, A: Ord>(d0: SMap<VClock<A>, BTreeSet<K>>, d1: SMap<VClock<A>, BTreeSet<K>>, c: SMap<A, u64>) -> bool {
    forall|k2: VClock<A>| #[trigger] d1.contains_key(k2) ==> exists|k: VClock<A>| #[trigger] d0.contains_key(k) && k2@ == vsub(k@, c) && d1[k2] == d0[k]
}
/// ... and every old context that is not emptied is still present in its reduced form (two contexts that become equal are
/// folded into one entry by `collect`: only one key set survives -- see DESIGN, C18)
#[verifier::opaque]
pub open spec fn rekeyed_onto<K: Ord, A: Ord>(d0: SMap<VClock<A>, BTreeSet<K>>, d1: SMap<VClock<A>, BTreeSet<K>>, c: SMap<A, u64>) -> bool {
    forall|k: VClock<A>| #[trigger] d0.contains_key(k) && vsub(k@, c) != SMap::<A, u64>::empty() ==> exists|k2: VClock<A>| #[trigger] d1.contains_key(k2) && k2@ == vsub(k@, c)
}

/// exact effect of Map::reset_remove (C18)
pub open spec fn rr_post_map<K: Ord, V: Val<A>, A: Ord + Hash>(old_: Map<K, V, A>, clock: VClock<A>, new_: Map<K, V, A>) -> bool {
    let c = clock@;
    &&& new_.cl() == vsub(old_.cl(), c)
    &&& forall|k: K| #[trigger] new_.ec(k) == vsub(old_.ec(k), c)
    &&& forall|k: K| #[trigger] new_.has(k) == (old_.has(k) && new_.ec(k) != SMap::<A, u64>::empty())
    // the nested value of every surviving key is reset by the same clock (this is what gives Map its reset-remove behaviour)
    &&& forall|k: K| #[trigger] new_.has(k) ==> V::rr_post(&old_.val(k), &clock, &new_.val(k))
    &&& rekeyed_from(old_.defs(), new_.defs(), c)
    &&& rekeyed_onto(old_.defs(), new_.defs(), c)
}

spec fn rrm_keep<K, V: Val<A>, A: Ord>(k: K, e: Entry<V, A>, o: Option<(K, Entry<V, A>)>, clock: VClock<A>) -> bool {
    if vsub(e.clock@, clock@) == SMap::<A, u64>::empty() { o is None }
    else { o matches Some(q) && q.0 == k && q.1.clock@ == vsub(e.clock@, clock@) && V::rr_post(&e.val, &clock, &q.1.val) && q.1.val.cm_inv() }
}
spec fn rrm_keep_d<K: Ord, A: Ord>(k: SMap<A, u64>, v: BTreeSet<K>, o: Option<(VClock<A>, BTreeSet<K>)>, c: SMap<A, u64>) -> bool {
    if vsub(k, c) == SMap::<A, u64>::empty() { o is None } else { o matches Some(q) && q.0@ == vsub(k, c) && q.1 == v }
}

impl<K: Ord, V: Val<A>, A: Ord + Hash> ResetRemove<A> for Map<K, V, A> {
    open spec fn rr_inv(&self) -> bool { mbase_ok::<K, V, A>() && self.wf() }
    open spec fn rr_post(old_: &Self, clock: &VClock<A>, new_: &Self) -> bool { rr_post_map(*old_, *clock, *new_) }

//@extract fn src/map.rs "ResetRemove for Map" reset_remove
    fn reset_remove(&mut self, clock: &VClock<A>)
    //@ ensures rr_post_map(*old(self), *clock, *final(self)),
    {
        //@ let ghost e0 = self.entries@;
        //@ proof { old(self).lemma_wf(); assert(ents_ok(e0)); }
        self.entries = /*@ shim_btreemap_filter_map_collect( @*/ mem::take(&mut self.entries)
            /*@<*/ .into_iter()
            .filter_map( /*@>*/ /*@ , @*/ /*@<*/ | /*@>*/ /*@<pat1*/ (key, mut entry) /*@>*/ /*@<*/ | /*@>*/ /*@ |p: (K, Entry<V, A>)| -> (o: Option<(K, Entry<V, A>)>)
                requires actor_ok::<A>(), val_ok::<V, A>(), nz(p.1.clock@), p.1.val.cm_inv(),
                ensures rrm_keep(p.0, p.1, o, *clock)
            { let $pat1 = p; @*/ {
                entry.clock.reset_remove(clock);
                entry.val.reset_remove(clock);
                if entry.clock.is_empty() {
                    None // remove this entry since its been forgotten
                } else {
                    Some((key, entry))
                }
            } /*@ } @*/ )
            /*@<*/ .collect() /*@>*/ ;
        //@ let ghost e1 = self.entries@;
        //@ proof { lemma_rrm_entries(e0, e1, *clock); }

        //@ let ghost d0 = self.deferred@;
        self.deferred = /*@ shim_hashmap_filter_map_collect_rekey( @*/ mem::take(&mut self.deferred)
            /*@<*/ .into_iter()
            .filter_map( /*@>*/ /*@ , @*/ /*@<*/ | /*@>*/ /*@<pat2*/ (mut rm_clock, key) /*@>*/ /*@<*/ | /*@>*/ /*@ |p: (VClock<A>, BTreeSet<K>)| -> (o: Option<(VClock<A>, BTreeSet<K>)>)
                requires actor_ok::<A>(), nz(p.0@),
                ensures rrm_keep_d(p.0@, p.1, o, clock@)
            { let $pat2 = p; @*/ {
                rm_clock.reset_remove(clock);
                if rm_clock.is_empty() {
                    None // this deferred remove has been forgotten
                } else {
                    Some((rm_clock, key))
                }
            } /*@ } @*/ )
            /*@<*/ .collect() /*@>*/ ;
        //@ let ghost d1g = self.deferred@;
        //@ proof { lemma_rrm_deferred_from(d0, d1g, clock@); lemma_rrm_deferred_onto(d0, d1g, clock@); }

        //@ proof { assert(self.clock.rr_inv()); c10_vsub_nz(self.clock@, clock@); }
        self.clock.reset_remove(clock);
        //@ proof { lemma_rrm_done(*old(self), *self, *clock, e0, e1, d0, d1g); }
    }
//@end
}

//@extract enum src/map.rs CmRDTValidation
pub enum CmRDTValidation<V: CmRDT, A> {
    SourceOrder(crate::DotRange<A>),

    Value(V::Validation),
}
//@end

/// exact effect of Map::apply (C05)
pub open spec fn apply_post_map<K: Ord, V: Val<A>, A: Ord + Hash>(old_: Map<K, V, A>, op: Op<K, V, A>, new_: Map<K, V, A>) -> bool {
    // --- Rm: the key-remove semantics
    &&& op is Rm ==> keyset_rm_post(old_, op->keyset@, op->clock, new_)
    // --- Up already seen (duplicate / stale): nothing changes
    &&& ((op is Up && cnt(old_.cl(), op->dot.actor) >= op->dot.counter) ==> new_ == old_)
    // --- new Up: the key's entry and the map clock learn the dot, the nested op is applied to the value under the key
    //     (a fresh default value if the key was absent), then pending key-removes are re-applied
    &&& (op is Up && cnt(old_.cl(), op->dot.actor) < op->dot.counter) ==> {
            let d = op->dot;
            let key = op->key;
            &&& new_.cl() == old_.cl().insert(d.actor, d.counter)
            &&& forall|k: K, a: A| #![trigger cnt(new_.ec(k), a)] cnt(new_.ec(k), a) == ({
                    let e = if k == key { vapp(old_.ec(k), d.actor, d.counter) } else { old_.ec(k) };
                    if kcovered_by(old_.defs(), k, a, cnt(e, a)) { 0 } else { cnt(e, a) } })
            &&& forall|k: K| #[trigger] new_.has(k) == ((old_.has(k) || k == key) && new_.ec(k) != SMap::<A, u64>::empty())
            &&& forall|k: K| k != key && !named_by(old_.defs(), k) && #[trigger] new_.has(k) ==> new_.val(k) == old_.val(k)
            &&& (!named_by(old_.defs(), key) && new_.has(key) ==> exists|v0: V| (if old_.has(key) { v0 == old_.val(key) } else { V::default.ensures((), v0) }) && #[trigger] V::cm_post(&v0, &op->op, &new_.val(key)))
            &&& forall|c: VClock<A>| #![trigger new_.defs().contains_key(c)] new_.defs().contains_key(c) <==> (old_.defs().contains_key(c) && !vle(c@, new_.cl()))
            &&& forall|c: VClock<A>| #![trigger new_.defs()[c]] new_.defs().contains_key(c) ==> new_.defs()[c]@ == old_.defs()[c]@
        }
}

impl<K: Ord, V: Val<A>, A: Ord + Hash + Clone> CmRDT for Map<K, V, A> {
    type Op = Op<K, V, A>;
    type Validation = CmRDTValidation<V, A>;
    open spec fn cm_inv(&self) -> bool { mbase_ok::<K, V, A>() && self.wf() }
    open spec fn cm_pre(&self, op: &Op<K, V, A>) -> bool {
        &&& clone_ok::<A>()
        &&& op is Rm ==> nz(op->clock@)
        &&& op is Up ==> forall|v: V| #[trigger] v.cm_inv() ==> v.cm_pre(&op->op)
    }
    open spec fn cm_post(old_: &Self, op: &Op<K, V, A>, new_: &Self) -> bool { apply_post_map(*old_, *op, *new_) }
    open spec fn cm_vpre(&self, op: &Op<K, V, A>) -> bool { clone_ok::<A>() && (op is Up ==> forall|v: V| #[trigger] v.cm_inv() ==> v.cm_vpre(&op->op)) }
    open spec fn cm_vhyp() -> bool {
        // the nested verdict on a fresh default value does not depend on which default value it is (Default is deterministic)
        V::cm_vhyp() && forall|v1: V, v2: V, o: V::Op| #![trigger V::default.ensures((), v1), v2.cm_vflag(&o)] V::default.ensures((), v1) && V::default.ensures((), v2) ==> v1.cm_vflag(&o) == v2.cm_vflag(&o)
    }
    /// C16: what Map::validate_op rejects: a gap at the map clock or at the key's entry clock (the latter is known finding F16),
    /// else whatever the nested value under the key (a default value when the key is absent) rejects
    open spec fn cm_vflag(&self, op: &Op<K, V, A>) -> bool {
        op is Up && (op->dot.counter > cnt(self.cl(), op->dot.actor) + 1 || op->dot.counter > cnt(self.ec(op->key), op->dot.actor) + 1
            || (if self.has(op->key) { self.val(op->key).cm_vflag(&op->op) } else { forall|v0: V| #[trigger] V::default.ensures((), v0) ==> v0.cm_vflag(&op->op) }))
    }

//@extract fn src/map.rs "CmRDT for Map" validate_op
    fn validate_op(&self, op: &Self::Op) -> /*@ (r: @*/ Result<(), Self::Validation> /*@ ) @*/
    //@ ensures
    //@     // C16: removes are always accepted; an update is rejected with SourceOrder exactly when its dot skips one of
    //@     // its actor's dots at the map clock or at the key's entry clock (the second check is known finding F16-map)
    //@     op is Rm ==> r is Ok,
    //@     op is Up ==> ((r matches Err(CmRDTValidation::SourceOrder(_))) <==> (op->dot.counter > cnt(self.cl(), op->dot.actor) + 1 || op->dot.counter > cnt(self.ec(op->key), op->dot.actor) + 1)),
    //@     // ... otherwise the verdict is the nested value's (trait level: Self::cm_vhyp() ==> (r is Err <==> self.cm_vflag(op)))
    //@     V::cm_vhyp() && op is Up && self.has(op->key) ==> ((r matches Err(CmRDTValidation::Value(_))) <==> (!(op->dot.counter > cnt(self.cl(), op->dot.actor) + 1 || op->dot.counter > cnt(self.ec(op->key), op->dot.actor) + 1) && self.val(op->key).cm_vflag(&op->op))),
    {
        match op {
            Op::Rm { .. } => Ok(()),
            Op::Up { dot, key, op } => {
                self.clock
                    .validate_op(dot)
                    .map_err( /*@ |e: crate::DotRange<A>| -> (o: CmRDTValidation<V, A>) ensures o == CmRDTValidation::<V, A>::SourceOrder(e) { @*/ CmRDTValidation::SourceOrder /*@ (e) } @*/ )?;
                let entry = self.entries.get(key).cloned().unwrap_or_default();
                //@ proof { if self.entries@.contains_key(*key) { assert(nz(self.entries@[*key].clock@) && self.entries@[*key].val.cm_inv()); assert(entry.ck() == self.entries@[*key].ck()); assert(cloned(self.entries@[*key].vl(), entry.vl())); assert(entry.val == self.entries@[*key].val); } else { assert(Entry::<V, A>::default.ensures((), entry)); assert(entry.ck() == SMap::<A, u64>::empty()); assert(V::default.ensures((), entry.vl())); } assert(entry.clock@ == self.ec(*key)); assert(entry.val.cm_inv()); assert(nz(entry.clock@)); }
                entry
                    .clock
                    .validate_op(dot)
                    .map_err( /*@ |e: crate::DotRange<A>| -> (o: CmRDTValidation<V, A>) ensures o == CmRDTValidation::<V, A>::SourceOrder(e) { @*/ CmRDTValidation::SourceOrder /*@ (e) } @*/ )?;
                //@ let nested =
                entry.val.validate_op(op)
                //@ ; proof { if Self::cm_vhyp() { if self.has(*key) { assert(entry.val == self.val(*key)); } else { assert(V::default.ensures((), entry.val)); assert forall|v0: V| #[trigger] V::default.ensures((), v0) implies v0.cm_vflag(op) == entry.val.cm_vflag(op) by { } } } }
                //@ nested
                .map_err( /*@ |e: <V as CmRDT>::Validation| -> (o: CmRDTValidation<V, A>) ensures o == CmRDTValidation::<V, A>::Value(e) { @*/ CmRDTValidation::Value /*@ (e) } @*/ )
            }
        }
    }
//@end

//@extract fn src/map.rs "CmRDT for Map" apply
    fn apply(&mut self, op: Self::Op)
    //@ ensures apply_post_map(*old(self), op, *final(self)),
    {
        match op {
            Op::Rm { clock, keyset } => self.apply_keyset_rm(keyset, clock),
            Op::Up { dot, key, op } => {
                if self.clock.get(&dot.actor) >= dot.counter {
                    // we've seen this op already
                    return;
                }
                //@ let ghost gkey = key;
                //@ let ghost gop = op;
                //@ let ghost pre = *self;
                //@ proof { pre.lemma_wf(); }

                let entry = /*@ shim_btreemap_entry_or_default(&mut @*/ self.entries /*@<*/ .entry( /*@>*/ /*@ , @*/ key) /*@<*/ .or_default() /*@>*/ ;
                //@ let ghost e0 = *entry;
                //@ proof { if pre.entries@.contains_key(gkey) { assert(e0 == pre.entries@[gkey]); assert(nz(pre.entries@[gkey].clock@) && pre.entries@[gkey].val.cm_inv()); } else { assert(Entry::<V, A>::default.ensures((), e0)); assert(e0.ck() == SMap::<A, u64>::empty()); assert(V::default.ensures((), e0.vl())); } assert(e0.val.cm_inv()); assert(nz(e0.clock@)); }

                //@ let dc = dot.clone();
                //@ proof { assert(cloned(dot.actor, dc.actor)); assert(dc.actor == dot.actor); }
                entry.clock.apply( /*@<*/ dot.clone() /*@>*/ /*@ dc @*/ );
                entry.val.apply(op);
                //@ let ghost e1 = *entry;

                //@ proof { assert(self.clock.cm_inv()); }
                self.clock.apply(dot);
                //@ let ghost mid = *self;
                //@ proof { lemma_up_mid(pre, mid, gkey, e0, e1, dot.actor, dot.counter); }
                self.apply_deferred();
                //@ proof { lemma_up_fin(pre, mid, *self, gkey, gop, e0, dot.actor, dot.counter); }
            }
        }
    }
//@end
}

//@extract enum src/map.rs CvRDTValidation
pub enum CvRDTValidation<K, V: CvRDT, A> {
    DoubleSpentDot {
        dot: Dot<A>,
        our_key: K,
        their_key: K,
    },

    Value(V::Validation),
}
//@end

/// usage hypotheses on a nested value type that is also state-replicated
pub open spec fn cval_ok<V: Val<A> + CvRDT, A: Ord>() -> bool {
    &&& forall|v: V| #![trigger v.cm_inv()] #![trigger v.cv_inv()] v.cm_inv() <==> v.cv_inv()
    &&& forall|v: V, w: V| v.cv_inv() && w.cv_inv() ==> #[trigger] v.cv_pre(&w)
}

/// dot (a, n) is a current witness of key k in s and of a different key k2 in o
pub open spec fn kconflict<K: Ord, V: Val<A>, A: Ord + Hash>(s: Map<K, V, A>, o: Map<K, V, A>, k: K, k2: K, a: A) -> bool {
    s.has(k) && o.has(k2) && k != k2 && cnt(s.ec(k), a) != 0 && cnt(s.ec(k), a) == cnt(o.ec(k2), a)
}
pub open spec fn kdouble_spent<K: Ord, V: Val<A>, A: Ord + Hash>(s: Map<K, V, A>, o: Map<K, V, A>) -> bool {
    exists|k: K, k2: K, a: A| #[trigger] kconflict(s, o, k, k2, a)
}

/// value layer of merge for a key that survives and that no pending remove of either side names
pub open spec fn merge_val_post<K: Ord, V: Val<A> + CvRDT, A: Ord + Hash>(old_: Map<K, V, A>, other: Map<K, V, A>, new_: Map<K, V, A>, k: K) -> bool {
    if old_.has(k) && other.has(k) {
        // both sides hold the key: the values are merged, then everything both sides had seen under the key and
        // that is no longer witnessed (entry clocks minus the surviving common clock) is reset
        exists|m1: V, c: VClock<A>, j: SMap<A, u64>| #[trigger] V::cv_post(&old_.val(k), &other.val(k), &m1) && #[trigger] is_join(j, other.ec(k), old_.ec(k))
            && c@ == vsub(j, new_.ec(k)) && #[trigger] V::rr_post(&m1, &c, &new_.val(k))
    } else if old_.has(k) {
        exists|c: VClock<A>| c@ == vsub(other.cl(), new_.ec(k)) && #[trigger] V::rr_post(&old_.val(k), &c, &new_.val(k))
    } else {
        exists|c: VClock<A>| c@ == vsub(old_.cl(), new_.ec(k)) && #[trigger] V::rr_post(&other.val(k), &c, &new_.val(k))
    }
}

/// pass 1 of merge leaves every key that `other` holds untouched (named so that it travels through loop invariants and
/// lemma preconditions without quantifier instantiation)
pub open spec fn pass1_frame<K: Ord, V: Val<A>, A: Ord + Hash>(old_: Map<K, V, A>, other: Map<K, V, A>, s1: Map<K, V, A>) -> bool {
    forall|m: K| other.has(m) ==> #[trigger] s1.ec(m) == old_.ec(m) && s1.has(m) == old_.has(m) && (s1.has(m) ==> s1.val(m) == old_.val(m))
}

/// C17, nested part: key k is present on both sides with CONCURRENT entry clocks and the nested values flag each other
pub open spec fn nflag_at<K: Ord, V: Val<A> + CvRDT, A: Ord + Hash>(s: Map<K, V, A>, o: Map<K, V, A>, k: K) -> bool {
    s.has(k) && o.has(k) && pcmp(s.ec(k), o.ec(k)) is None && s.val(k).cv_flag(&o.val(k))
}

/// exact effect of Map::merge: key layer exactly as Orswot::merge; value layer as merge_val_post
pub open spec fn merge_post_map<K: Ord, V: Val<A> + CvRDT, A: Ord + Hash>(old_: Map<K, V, A>, other: Map<K, V, A>, new_: Map<K, V, A>) -> bool {
    &&& is_join(new_.cl(), old_.cl(), other.cl())
    &&& forall|k: K, a: A| #![trigger cnt(new_.ec(k), a)] cnt(new_.ec(k), a) == ({
            let x = mrg(cnt(old_.ec(k), a), cnt(other.ec(k), a), cnt(old_.cl(), a), cnt(other.cl(), a));
            if kcovered_by(old_.defs(), k, a, x) || kcovered_by(other.defs(), k, a, x) { 0 } else { x } })
    &&& forall|k: K| #[trigger] new_.has(k) == ((old_.has(k) || other.has(k)) && new_.ec(k) != SMap::<A, u64>::empty())
    &&& forall|k: K| !named_by(old_.defs(), k) && !named_by(other.defs(), k) && #[trigger] new_.has(k) ==> merge_val_post(old_, other, new_, k)
    &&& forall|c: VClock<A>| #![trigger new_.defs().contains_key(c)] new_.defs().contains_key(c) <==> ((old_.defs().contains_key(c) || other.defs().contains_key(c)) && !vle(c@, new_.cl()))
    &&& forall|c: VClock<A>| #![trigger new_.defs()[c]] new_.defs().contains_key(c) ==> new_.defs()[c]@ == old_.dm(c).union(other.dm(c))
}

/// pass 1 of merge: what happens to an entry of self (closure result)
spec fn mkeep1<K, V: Val<A>, A: Ord>(p: (K, Entry<V, A>), o: Option<(K, Entry<V, A>)>, other_has: bool, oc: SMap<A, u64>) -> bool {
    if other_has { o == Some(p) }
    else if vle(p.1.clock@, oc) { o is None }
    else { o matches Some(q) && q.0 == p.0 && q.1.clock@ == vsub(p.1.clock@, oc) && q.1.val.cm_inv()
           && exists|c: VClock<A>| c@ == vsub(oc, q.1.clock@) && #[trigger] V::rr_post(&p.1.val, &c, &q.1.val) }
}

impl<K: Ord + Clone, V: Val<A> + CvRDT, A: Ord + Hash + Clone> CvRDT for Map<K, V, A> {
    type Validation = CvRDTValidation<K, V, A>;
    open spec fn cv_inv(&self) -> bool { mbase_ok::<K, V, A>() && cval_ok::<V, A>() && self.wf() }
    open spec fn cv_pre(&self, other: &Self) -> bool { clone_ok::<A>() }
    open spec fn cv_post(old_: &Self, other: &Self, new_: &Self) -> bool { merge_post_map(*old_, *other, *new_) }
    open spec fn cv_vhyp() -> bool { crate::orswot::eq_ok::<K>() && V::cv_vhyp() }
    open spec fn cv_flag(&self, other: &Self) -> bool { kdouble_spent(*self, *other) || exists|k: K| #[trigger] nflag_at(*self, *other, k) }

//@extract fn src/map.rs "CvRDT for Map" validate_merge
    fn validate_merge(&self, other: &Self) -> /*@ (r: @*/ Result<(), Self::Validation> /*@ ) @*/
    //@ ensures
    //@     // C17: a dot that is a current witness of one key here and of a different key there is always flagged
    //@     // (an error of a nested value under a shared key may be reported first), and DoubleSpentDot is raised for nothing else
    //@     crate::orswot::eq_ok::<K>() ==> (kdouble_spent(*self, *other) ==> r is Err),
    //@     crate::orswot::eq_ok::<K>() ==> ((r matches Err(CvRDTValidation::DoubleSpentDot { .. })) ==> kdouble_spent(*self, *other)),
    //@     // ... and the verdict is exact: Err iff a double-spent dot across keys, or a shared key with concurrent entry clocks
    //@     // whose nested values flag each other (trait-level: Self::cv_vhyp() ==> (r is Err <==> self.cv_flag(other)))
    //@     crate::orswot::eq_ok::<K>() && V::cv_vhyp() ==> ((r matches Err(CvRDTValidation::Value(_))) ==> exists|k: K| #[trigger] nflag_at(*self, *other, k)),
    {
        //@ proof { self.lemma_wf(); other.lemma_wf(); }
        //@ let sit = self.entries.iter();
        //@ let ghost ss = sit.remaining();
        for (key, entry) in /*@ it1: sit @*/ /*@<*/ self.entries.iter() /*@>*/
        //@ invariant
        //@     mbase_ok::<K, V, A>(), cval_ok::<V, A>(), self.wf(), other.wf(), it1.seq() == ss,
        //@     forall|i: int| 0 <= i < ss.len() ==> self.entries@.contains_key(*(#[trigger] ss[i]).0) && self.entries@[*ss[i].0] == *ss[i].1,
        //@     forall|k: K| self.entries@.contains_key(k) ==> ss.contains((&k, &self.entries@[k])),
        //@     crate::orswot::eq_ok::<K>() ==> forall|i: int, k2: K, a: A| 0 <= i < it1.index@ ==> !#[trigger] kconflict(*self, *other, *ss[i].0, k2, a),
        //@     crate::orswot::eq_ok::<K>() && V::cv_vhyp() ==> forall|i: int| 0 <= i < it1.index@ ==> !nflag_at(*self, *other, *(#[trigger] ss[i]).0),
        {
            //@ proof { assert(*key == *ss[it1.index@].0 && *entry == *ss[it1.index@].1); assert(self.entries@.contains_key(*key)); assert(self.wf()); assert(nz(self.entries@[*key].clock@)); assert(self.entries@[*key].val.cm_inv()); }
            //@ let oit = other.entries.iter();
            //@ let ghost os = oit.remaining();
            for (other_key, other_entry) in /*@ it2: oit @*/ /*@<*/ other.entries.iter() /*@>*/
            //@ invariant
            //@     mbase_ok::<K, V, A>(), cval_ok::<V, A>(), self.wf(), other.wf(), it2.seq() == os, nz(entry.clock@), entry.val.cm_inv(),
            //@     self.entries@.contains_key(*key), self.entries@[*key] == *entry,
            //@     forall|i: int| 0 <= i < os.len() ==> other.entries@.contains_key(*(#[trigger] os[i]).0) && other.entries@[*os[i].0] == *os[i].1,
            //@     forall|k: K| other.entries@.contains_key(k) ==> os.contains((&k, &other.entries@[k])),
            //@     crate::orswot::eq_ok::<K>() ==> forall|l: int, a: A| 0 <= l < it2.index@ ==> !#[trigger] kconflict(*self, *other, *key, *os[l].0, a),
            //@     crate::orswot::eq_ok::<K>() && V::cv_vhyp() ==> forall|l: int| 0 <= l < it2.index@ ==> !(*(#[trigger] os[l]).0 == *key && nflag_at(*self, *other, *key)),
            {
                //@ proof { assert(*other_key == *os[it2.index@].0 && *other_entry == *os[it2.index@].1); assert(other.entries@.contains_key(*other_key)); assert(other.wf()); assert(nz(other.entries@[*other_key].clock@)); assert(other.entries@[*other_key].val.cm_inv()); }
                for Dot { actor, counter } in /*@ it3: @*/ entry.clock.iter()
                //@ invariant
                //@     it3.iter.obeys_prophetic_iter_laws(), it3.iter.decrease() is Some,
                //@     mbase_ok::<K, V, A>(), nz(entry.clock@),
                //@     self.entries@.contains_key(*key), self.entries@[*key] == *entry,
                //@     other.entries@.contains_key(*other_key), other.entries@[*other_key] == *other_entry,
                //@     dots_of(it3.seq(), entry.clock@, it3.snapshot@.will_return_none()),
                //@     crate::orswot::eq_ok::<K>() ==> forall|e: int| 0 <= e < it3.index@ ==> !(*other_key != *key && cnt(other_entry.clock@, *(#[trigger] it3.seq()[e]).actor) == it3.seq()[e].counter),
                {
                    //@ proof { if crate::orswot::eq_ok::<K>() { crate::orswot::lemma_eq_ok::<K>(*other_key, *key); } }
                    if other_key != key && other_entry.clock.get(actor) == counter {
                        //@ proof { if crate::orswot::eq_ok::<K>() { assert(entry.clock@.contains_key(*actor) && entry.clock@[*actor] == counter && counter > 0); assert(kconflict(*self, *other, *key, *other_key, *actor)); } }
                        return Err(CvRDTValidation::DoubleSpentDot {
                            dot: Dot::new(actor.clone(), counter),
                            our_key: key.clone(),
                            their_key: other_key.clone(),
                        });
                    }
                }
                //@ proof { if crate::orswot::eq_ok::<K>() { assert forall|a: A| !#[trigger] kconflict(*self, *other, *key, *other_key, a) by { if kconflict(*self, *other, *key, *other_key, a) { assert(entry.clock@.contains_key(a)); } } } }

                //@ proof { if crate::orswot::eq_ok::<K>() { crate::orswot::lemma_eq_ok::<K>(*key, *other_key); } lemma_pcmp_code(entry.clock@, other_entry.clock@); }
                if key == other_key && entry.clock.concurrent(&other_entry.clock) {
                    //@ proof { assert(entry.val.cv_inv() && other_entry.val.cv_inv()); }
                    //@ let nested =
                    entry
                        .val
                        .validate_merge(&other_entry.val)
                    //@ ; proof { if crate::orswot::eq_ok::<K>() && V::cv_vhyp() { assert(*key == *other_key); assert(self.has(*key) && other.has(*key)); assert(self.ec(*key) == entry.clock@ && other.ec(*key) == other_entry.clock@); assert(self.val(*key) == entry.val && other.val(*key) == other_entry.val); assert(nested is Err <==> nflag_at(*self, *other, *key)); } }
                    //@ nested
                        .map_err( /*@ |e: <V as CvRDT>::Validation| -> (o: CvRDTValidation<K, V, A>) ensures o == CvRDTValidation::<K, V, A>::Value(e) { @*/ CvRDTValidation::Value /*@ (e) } @*/ )?;
                } /*@ else { proof { if crate::orswot::eq_ok::<K>() && V::cv_vhyp() && *key == *other_key { assert(self.ec(*key) == entry.clock@ && other.ec(*key) == other_entry.clock@); assert(!nflag_at(*self, *other, *key)); } } } @*/
            }
            //@ proof { if crate::orswot::eq_ok::<K>() && V::cv_vhyp() { if nflag_at(*self, *other, *key) { let p = (&*key, &other.entries@[*key]); assert(os.contains(p)); let l = choose|l: int| 0 <= l < os.len() && os[l] == p; assert(*os[l].0 == *key); } } }
            //@ proof { if crate::orswot::eq_ok::<K>() { assert forall|k2: K, a: A| !#[trigger] kconflict(*self, *other, *key, k2, a) by { if kconflict(*self, *other, *key, k2, a) { let p = (&k2, &other.entries@[k2]); assert(os.contains(p)); let l = choose|l: int| 0 <= l < os.len() && os[l] == p; assert(!kconflict(*self, *other, *key, *os[l].0, a)); } } } }
        }
        //@ proof { if crate::orswot::eq_ok::<K>() && V::cv_vhyp() { assert forall|k: K| !#[trigger] nflag_at(*self, *other, k) by { if nflag_at(*self, *other, k) { let p = (&k, &self.entries@[k]); assert(ss.contains(p)); let i = choose|i: int| 0 <= i < ss.len() && ss[i] == p; assert(!nflag_at(*self, *other, *ss[i].0)); } } } }
        //@ proof { if crate::orswot::eq_ok::<K>() { assert(!kdouble_spent(*self, *other)) by { if kdouble_spent(*self, *other) { let (k, k2, a) = choose|k: K, k2: K, a: A| #[trigger] kconflict(*self, *other, k, k2, a); let p = (&k, &self.entries@[k]); assert(ss.contains(p)); let i = choose|i: int| 0 <= i < ss.len() && ss[i] == p; assert(!kconflict(*self, *other, *ss[i].0, k2, a)); } } } }

        Ok(())
    }
//@end

//@extract fn src/map.rs "CvRDT for Map" merge
    fn merge(&mut self, other: Self)
    //@ ensures merge_post_map(*old(self), other, *final(self)),
    {
        //@ proof { old(self).lemma_wf(); other.lemma_wf(); }
        //@ let ghost e0 = self.entries@;
        self.entries = /*@ shim_btreemap_filter_map_collect( @*/ mem::take(&mut self.entries)
            /*@<*/ .into_iter()
            .filter_map( /*@>*/ /*@ , @*/ /*@<*/ | /*@>*/ /*@<pat*/ (key, mut entry) /*@>*/ /*@<*/ | /*@>*/ /*@ |p: (K, Entry<V, A>)| -> (o: Option<(K, Entry<V, A>)>)
                requires actor_ok::<A>(), clone_ok::<A>(), actor_ok::<K>(), val_ok::<V, A>(), nz(p.1.clock@), p.1.val.cm_inv(), nz(other.clock@),
                ensures mkeep1(p, o, other.entries@.contains_key(p.0), other.clock@)
            { let $pat = p; @*/ {
                if !other.entries.contains_key(&key) {
                    // other doesn't contain this entry because it:
                    //  1. has seen it and dropped it
                    //  2. hasn't seen it
                    //@ proof { lemma_pcmp_code(other.clock@, entry.clock@); }
                    if other.clock >= entry.clock {
                        // other has seen this entry and dropped it
                        None
                    } else {
                        // the other map has not seen this version of this
                        // entry, so add it. But first, we have to remove any
                        // information that may have been known at some point
                        // by the other map about this key and was removed.
                        //@ let ghost v0 = entry.val;
                        entry.clock.reset_remove(&other.clock);
                        let mut removed_information = other.clock.clone();
                        removed_information.reset_remove(&entry.clock);
                        entry.val.reset_remove(&removed_information);
                        //@ proof { assert(removed_information@ == vsub(other.clock@, entry.clock@)); assert(V::rr_post(&v0, &removed_information, &entry.val)); }
                        Some((key, entry))
                    }
                } else {
                    Some((key, entry))
                }
            } /*@ } @*/ )
            /*@<*/ .collect() /*@>*/ ;
        //@ let ghost s1 = *self;
        //@ proof { lemma_mmerge_pass1(*old(self), other, s1); }

        //@ let ov = shim_btreemap_into_vec(other.entries);
        //@ let ghost ovs = ov@;
        for (key, mut entry) in /*@ it: ov @*/ /*@<*/ other.entries /*@>*/
        //@ invariant
        //@     mbase_ok::<K, V, A>(), cval_ok::<V, A>(), clone_ok::<A>(), old(self).wf(), other.wf(), self.wf(), s1.wf(), it.seq() == ovs,
        //@     self.cl() == old(self).cl(), self.defs() == old(self).defs(),
        //@     forall|i: int| 0 <= i < ovs.len() ==> other.entries@.contains_key((#[trigger] ovs[i]).0) && other.entries@[ovs[i].0] == ovs[i].1,
        //@     forall|i: int, j: int| 0 <= i < j < ovs.len() ==> (#[trigger] ovs[i]).0 != (#[trigger] ovs[j]).0,
        //@     forall|k: K| other.entries@.contains_key(k) ==> exists|i: int| 0 <= i < ovs.len() && (#[trigger] ovs[i]).0 == k,
        //@     pass1_frame(*old(self), other, s1),
        //@     // keys of `other` already visited are final; the rest is still as pass 1 left it
        //@     forall|m: K, a: A| #![trigger cnt(self.ec(m), a)] cnt(self.ec(m), a) == (
        //@         if exists|j: int| 0 <= j < it.index@ && (#[trigger] ovs[j]).0 == m { mrg(cnt(old(self).ec(m), a), cnt(other.ec(m), a), cnt(old(self).cl(), a), cnt(other.cl(), a)) }
        //@         else { cnt(s1.ec(m), a) }),
        //@     forall|m: K| #[trigger] self.has(m) == (self.ec(m) != SMap::<A, u64>::empty()),
        //@     forall|m: K| !(exists|j: int| 0 <= j < it.index@ && (#[trigger] ovs[j]).0 == m) && #[trigger] self.has(m) ==> s1.has(m) && self.val(m) == s1.val(m),
        //@     forall|m: K| (exists|j: int| 0 <= j < it.index@ && (#[trigger] ovs[j]).0 == m) && #[trigger] self.has(m) ==> merge_val_post(*old(self), other, *self, m),
        {
            //@ let ghost pre = *self;
            //@ let ghost idx = it.index@;
            //@ let ghost oe = entry;
            //@ proof { pre.lemma_wf(); assert(other.entries@.contains_key(ovs[idx].0)); assert(key == ovs[idx].0 && entry == ovs[idx].1); assert(other.has(key) && other.ec(key) == oe.clock@ && other.val(key) == oe.val); assert(nz(oe.clock@) && oe.clock@ != SMap::<A, u64>::empty() && oe.val.cm_inv()); }
            //@ let ghost mut w_m1: Option<V> = None;
            //@ let ghost mut w_c: Option<VClock<A>> = None;
            //@ let ghost mut w_j: SMap<A, u64> = SMap::<A, u64>::empty();
            if let Some(our_entry) = self.entries.get_mut(&key) {
                // SUBTLE: this entry is present in both maps, BUT that doesn't mean we
                // shouldn't drop it!
                // Perfectly possible that an item in both sets should be dropped
                //@ let ghost se = *our_entry;
                //@ proof { assert(pre.entries@.contains_key(key) && se == pre.entries@[key]); assert(pre.wf()); assert(pre.entries@.contains_key(key)); assert(nz(pre.entries@[key].clock@)); assert(pre.entries@[key].val.cm_inv()); assert(nz(se.clock@) && se.val.cm_inv()); assert(se.val.cv_inv() && oe.val.cv_inv() && se.val.rr_inv()); }
                let mut common = VClock::intersection(&entry.clock, &our_entry.clock);
                //@ proof { c10_vsub_nz(entry.clock@, self.clock@); c10_vsub_nz(se.clock@, other.clock@); }
                common.merge(entry.clock.clone_without(&self.clock));
                common.merge(our_entry.clock.clone_without(&other.clock));
                //@ proof { lemma_common(common@, entry.clock@, se.clock@, self.clock@, other.clock@); }
                if common.is_empty() {
                    // both maps had seen each others entry and removed them
                    self.entries.remove(&key).unwrap();
                } else {
                    // we should not drop, as there is information still tracked in
                    // the common clock.
                    our_entry.val.merge(entry.val);
                    //@ let ghost m1 = our_entry.val;

                    let mut information_that_was_deleted = entry.clock.clone();
                    information_that_was_deleted.merge(our_entry.clock.clone());
                    //@ let ghost jn = information_that_was_deleted@;
                    information_that_was_deleted.reset_remove(&common);
                    our_entry.val.reset_remove(&information_that_was_deleted);
                    //@ proof { assert(V::cv_post(&se.val, &oe.val, &m1)); assert(is_join(jn, oe.clock@, se.clock@)); assert(information_that_was_deleted@ == vsub(jn, common@)); assert(V::rr_post(&m1, &information_that_was_deleted, &our_entry.val)); w_m1 = Some(m1); w_c = Some(information_that_was_deleted); w_j = jn; }
                    our_entry.clock = common;
                }
            } else {
                // we don't have this entry, is it because we:
                //  1. have seen it and dropped it
                //  2. have not seen it
                //@ proof { lemma_pcmp_code(self.clock@, entry.clock@); }
                if self.clock >= entry.clock {
                    // We've seen this entry and dropped it, we won't add it back
                } else {
                    // We have not seen this version of this entry, so we add it.
                    // but first, we have to remove the information on this entry
                    // that we have seen and deleted
                    //@ let ghost eo = entry.clock@;
                    entry.clock.reset_remove(&self.clock);
                    //@ proof { c10_vsub_nz(eo, self.clock@); let a = choose|a: A| !(cnt(eo, a) <= cnt(self.clock@, a)); assert(vsub(eo, self.clock@).contains_key(a)); }

                    let mut information_we_deleted = self.clock.clone();
                    information_we_deleted.reset_remove(&entry.clock);
                    entry.val.reset_remove(&information_we_deleted);
                    //@ proof { assert(information_we_deleted@ == vsub(self.clock@, entry.clock@)); assert(V::rr_post(&oe.val, &information_we_deleted, &entry.val)); w_c = Some(information_we_deleted); }
                    self.entries.insert(key, entry);
                }
            }
            //@ proof { lemma_mmerge_pass2_step(*old(self), other, s1, pre, *self, ovs, idx, w_m1, w_c, w_j); }
        }
        //@ let ghost s2 = *self;
        //@ proof { lemma_mmerge_pass2_done(*old(self), other, s1, s2, ovs); }

        // merge deferred removals
        //@ let dv = shim_hashmap_into_vec(other.deferred);
        //@ let ghost dvs = dv@;
        for (rm_clock, keys) in /*@ it: dv @*/ /*@<*/ other.deferred /*@>*/
        //@ invariant
        //@     mbase_ok::<K, V, A>(), cval_ok::<V, A>(), clone_ok::<A>(), old(self).wf(), other.wf(), self.wf(), it.seq() == dvs, self.cl() == old(self).cl(),
        //@     forall|i: int| 0 <= i < dvs.len() ==> other.defs().contains_key((#[trigger] dvs[i]).0) && other.defs()[dvs[i].0] == dvs[i].1,
        //@     forall|i: int, j: int| 0 <= i < j < dvs.len() ==> (#[trigger] dvs[i]).0 != (#[trigger] dvs[j]).0,
        //@     forall|k: VClock<A>| other.defs().contains_key(k) ==> exists|i: int| 0 <= i < dvs.len() && (#[trigger] dvs[i]).0 == k,
        //@     forall|m: K, a: A| #![trigger cnt(self.ec(m), a)] cnt(self.ec(m), a) == (if kcovered_upto(dvs, it.index@, m, a, cnt(s2.ec(m), a)) { 0 } else { cnt(s2.ec(m), a) }),
        //@     forall|m: K| #[trigger] self.has(m) == (s2.has(m) && self.ec(m) != SMap::<A, u64>::empty()),
        //@     forall|m: K| !knamed_upto(dvs, it.index@, m) && #[trigger] self.has(m) ==> self.val(m) == s2.val(m),
        //@     forall|k: VClock<A>| #![trigger self.defs().contains_key(k)] self.defs().contains_key(k) <==> (old(self).defs().contains_key(k) || exists|j: int| 0 <= j < it.index@ && (#[trigger] dvs[j]).0 == k && !vle(k@, self.cl())),
        //@     forall|k: VClock<A>| #![trigger self.dm(k)] self.dm(k) == old(self).dm(k).union(if exists|j: int| 0 <= j < it.index@ && (#[trigger] dvs[j]).0 == k && !vle(k@, self.cl()) { other.dm(k) } else { SSet::<K>::empty() }),
        {
            //@ let ghost pre = *self;
            //@ proof { assert(rm_clock == dvs[it.index@].0); assert(other.defs().contains_key(rm_clock)); other.lemma_wf(); assert(nz(rm_clock@)); pre.lemma_wf(); }
            self.apply_keyset_rm(keys, rm_clock);
            //@ proof { lemma_merge_pass3_step(*old(self), other, s2, pre, *self, dvs, it.index@); lemma_deferred_vals_step(s2, pre, *self, dvs, it.index@); }
        }
        //@ let ghost s3 = *self;

        //@ proof { assert(self.clock.cv_inv() && other.clock.cv_inv()); }
        self.clock.merge(other.clock);
        //@ let ghost s4 = *self;
        //@ proof { lemma_s4_wf(s3, s4); }

        self.apply_deferred();
        //@ proof { lemma_merge_finish(*old(self), other, s2, s3, s4, *self, dvs); lemma_mmerge_vals_finish(*old(self), other, s2, s3, s4, *self, dvs); }
    }
//@end
}

impl<K: Ord, V: Val<A>, A: Ord + Hash + Clone> Map<K, V, A> {
//@extract fn src/map.rs "Map" new
    pub fn new() -> /*@ (r: @*/ Self /*@ ) @*/
    //@ ensures r.wf(), r.cl() == SMap::<A, u64>::empty(), forall|k: K| !r.has(k), r.defs() == SMap::<VClock<A>, BTreeSet<K>>::empty(),
    {
        Default::default()
    }
//@end

//@extract fn src/map.rs "Map" is_empty
    pub fn is_empty(&self) -> /*@ (r: @*/ ReadCtx<bool, A> /*@ ) @*/
    //@ requires actor_ok::<A>(), clone_ok::<A>(), actor_ok::<K>(),
    //@ ensures r.add_clock@ == self.cl(), r.rm_clock@ == self.cl(), r.val == (forall|k: K| !self.has(k)),
    {
        //@ proof { lemma_map_len0(self.entries@); if forall|k: K| !self.has(k) { assert forall|k: K| !self.entries@.contains_key(k) by { assert(!self.has(k)); } } if forall|k: K| !self.entries@.contains_key(k) { assert forall|k: K| !self.has(k) by { assert(!self.entries@.contains_key(k)); } } }
        ReadCtx {
            add_clock: self.clock.clone(),
            rm_clock: self.clock.clone(),
            val: self.entries.is_empty(),
        }
    }
//@end

//@extract fn src/map.rs "Map" len
    pub fn len(&self) -> /*@ (r: @*/ ReadCtx<usize, A> /*@ ) @*/
    //@ requires actor_ok::<A>(), clone_ok::<A>(), actor_ok::<K>(),
    //@ ensures r.add_clock@ == self.cl(), r.rm_clock@ == self.cl(), r.val == self.keys_dom().len(),
    {
        ReadCtx {
            add_clock: self.clock.clone(),
            rm_clock: self.clock.clone(),
            val: self.entries.len(),
        }
    }
//@end

//@extract fn src/map.rs "Map" get
    pub fn get(&self, key: &K) -> /*@ (r: @*/ ReadCtx<Option<V>, A> /*@ ) @*/
    //@ requires actor_ok::<A>(), clone_ok::<A>(), actor_ok::<K>(), clone_ok::<V>(),
    //@ ensures
    //@     // C07: add context = map clock; remove context = exactly the key's entry clock (empty iff absent); the value under the key
    //@     r.add_clock@ == self.cl(), r.rm_clock@ == self.ec(*key),
    //@     r.val is Some <==> self.has(*key), self.has(*key) ==> r.val == Some(self.val(*key)),
    {
        let add_clock = self.clock.clone();
        let entry_opt = self.entries.get(key);
        ReadCtx {
            add_clock,
            rm_clock: entry_opt
                .map(|map_entry /*@ : &Entry<V, A> @*/ | /*@ -> (c: VClock<A>) ensures c@ == map_entry.clock@ { @*/ map_entry.clock.clone() /*@ } @*/ )
                .unwrap_or_default(),
            val: entry_opt.map(|map_entry /*@ : &Entry<V, A> @*/ | /*@ -> (v: V) requires clone_ok::<V>() ensures v == map_entry.val { let v2 = @*/ map_entry.val.clone() /*@ ; proof { assert(cloned(map_entry.val, v2)); } v2 } @*/ ),
        }
    }
//@end

//@extract fn src/map.rs "Map" update
    pub fn update<F>(&self, key: impl Into<K>, ctx: AddCtx<A>, f: F) -> /*@ (r: @*/ Op<K, V, A> /*@ ) @*/
    where
        F: FnOnce(&V, AddCtx<A>) -> V::Op,
    //@ requires actor_ok::<K>(), clone_ok::<A>(), forall|v: &V, c: AddCtx<A>| call_requires(f, (v, c)),
    //@ ensures
    //@     // the op carries exactly the dot of the context handed in, and the nested op the caller's closure built from
    //@     // the current value under the key (a default value if the key is absent)
    //@     r is Up, r->dot.actor == ctx.dot.actor, r->dot.counter == ctx.dot.counter,
    //@     exists|v0: V| (if self.has(r->key) { v0 == self.val(r->key) } else { V::default.ensures((), v0) }) && #[trigger] call_ensures(f, (&v0, ctx), r->op),
    {
        let key = key.into();
        let dot = ctx.dot.clone();
        //@ let ghost mut gv0: V = arbitrary();
        let op = match self.entries.get(&key).map(|e /*@ : &Entry<V, A> @*/ | /*@ -> (o: &V) ensures *o == e.val { @*/ &e.val /*@ } @*/ ) {
            Some(data) => /*@ { proof { gv0 = *data; } @*/ f(data, ctx) /*@ } @*/ ,
            None => /*@ { let dv = V::default(); proof { gv0 = dv; } @*/ f( /*@<*/ &V::default() /*@>*/ /*@ &dv @*/ , ctx) /*@ } @*/ ,
        };
        //@ proof { assert((if self.has(key) { gv0 == self.val(key) } else { V::default.ensures((), gv0) }) && call_ensures(f, (&gv0, ctx), op)); }

        //@ let r =
        Op::Up { dot, key, op }
        //@ ; proof { assert(r->key == key && r->op == op); assert((if self.has(r->key) { gv0 == self.val(r->key) } else { V::default.ensures((), gv0) }) && call_ensures(f, (&gv0, ctx), r->op)); }
        //@ r
    }
//@end

//@extract fn src/map.rs "Map" rm
    pub fn rm(&self, key: impl Into<K>, ctx: RmCtx<A>) -> /*@ (r: @*/ Op<K, V, A> /*@ ) @*/
    //@ requires actor_ok::<K>(),
    //@ ensures r is Rm, r->clock == ctx.clock, r->keyset@.len() == 1,
    {
        let mut keyset = BTreeSet::new();
        keyset.insert(key.into());
        Op::Rm {
            clock: ctx.clock,
            keyset,
        }
    }
//@end

//@extract fn src/map.rs "Map" read_ctx
    pub fn read_ctx(&self) -> /*@ (r: @*/ ReadCtx<(), A> /*@ ) @*/
    //@ requires actor_ok::<A>(), clone_ok::<A>(),
    //@ ensures r.add_clock@ == self.cl(), r.rm_clock@ == self.cl(),
    {
        ReadCtx {
            add_clock: self.clock.clone(),
            rm_clock: self.clock.clone(),
            val: (),
        }
    }
//@end

    // keys / values / iter return `entries.iter().map(move |..| ReadCtx{..})`: verified against the N2 shim for the Map adapter (see
    // VClock::iter); the bounded stand-in `map_iters` still runs.  Per item: add context = map clock, remove context = entry clock.
//@extract fn src/map.rs "Map" keys
    pub fn keys(&self) -> /*@ (r: @*/ impl Iterator<Item = ReadCtx<&K, A>> /*@ ) @*/
    //@ ensures r.obeys_prophetic_iter_laws(), r.decrease() is Some,
    //@     (actor_ok::<K>() && actor_ok::<A>() && clone_ok::<A>()) ==> forall|i: int| 0 <= i < r.remaining().len() ==> { let x = #[trigger] r.remaining()[i]; self.has(*x.val) && x.add_clock@ == self.cl() && x.rm_clock@ == self.ec(*x.val) },
    //@     (actor_ok::<K>() && actor_ok::<A>() && clone_ok::<A>()) ==> forall|k: K| self.has(k) ==> exists|i: int| 0 <= i < r.remaining().len() && *(#[trigger] r.remaining()[i]).val == k,
    {
        //@ let ghost rel = |p: (&K, &Entry<V, A>), x: ReadCtx<&K, A>| x.val == p.0 && ((actor_ok::<K>() && actor_ok::<A>() && clone_ok::<A>()) ==> x.add_clock@ == self.cl() && x.rm_clock@ == p.1.clock@);
        /*@ let it0 = @*/ self.entries.iter() /*@ ; let ghost es = it0.remaining(); proof { crate::stdx5::axiom_btree_iter_finite(&it0); } let r0 = crate::stdx5::shim_iter_map_rel(it0, Ghost(rel), @*/ /*@<*/ .map( /*@>*/ move /*@<*/ | /*@>*/ /*@<pat*/ (k, v) /*@>*/ /*@<*/ | /*@>*/ /*@ |p: (&K, &Entry<V, A>)| -> (o: ReadCtx<&K, A>) ensures rel(p, o) { let $pat = p; @*/ ReadCtx {
            add_clock: self.clock.clone(),
            rm_clock: v.clock.clone(),
            val: k,
        } /*@ } @*/ ) /*@ ; proof { if (actor_ok::<K>() && actor_ok::<A>() && clone_ok::<A>()) { let rs = r0.remaining(); assert forall|i: int| 0 <= i < rs.len() implies ({ let x = #[trigger] rs[i]; self.has(*x.val) && x.add_clock@ == self.cl() && x.rm_clock@ == self.ec(*x.val) }) by { assert(rel(es[i], rs[i])); assert(self.entries@.contains_key(*es[i].0) && self.entries@[*es[i].0] == *es[i].1); } assert forall|k: K| self.has(k) implies exists|i: int| 0 <= i < rs.len() && *(#[trigger] rs[i]).val == k by { assert(es.contains((&k, &self.entries@[k]))); let i = choose|i: int| 0 <= i < es.len() && es[i] == (&k, &self.entries@[k]); assert(rel(es[i], rs[i])); } } } r0 @*/
    }
//@end

//@extract fn src/map.rs "Map" values
    pub fn values(&self) -> /*@ (r: @*/ impl Iterator<Item = ReadCtx<&V, A>> /*@ ) @*/
    //@ ensures r.obeys_prophetic_iter_laws(), r.decrease() is Some,
    //@     (actor_ok::<K>() && actor_ok::<A>() && clone_ok::<A>()) ==> forall|i: int| 0 <= i < r.remaining().len() ==> { let x = #[trigger] r.remaining()[i]; x.add_clock@ == self.cl() && exists|k: K| self.has(k) && #[trigger] self.val(k) == *x.val && x.rm_clock@ == self.ec(k) },
    //@     (actor_ok::<K>() && actor_ok::<A>() && clone_ok::<A>()) ==> r.remaining().len() == self.keys_dom().len(),
    {
        //@ let ghost rel = |p: &Entry<V, A>, x: ReadCtx<&V, A>| *x.val == p.val && ((actor_ok::<K>() && actor_ok::<A>() && clone_ok::<A>()) ==> x.add_clock@ == self.cl() && x.rm_clock@ == p.clock@);
        /*@ let it0 = @*/ self.entries.values() /*@ ; let ghost es = it0.remaining(); proof { crate::stdx5::axiom_btree_values_finite(&it0); } let r0 = crate::stdx5::shim_iter_map_rel(it0, Ghost(rel), @*/ /*@<*/ .map( /*@>*/ move |v /*@ : &Entry<V, A> @*/ | /*@ -> (o: ReadCtx<&V, A>) ensures rel(v, o) { @*/ ReadCtx {
            add_clock: self.clock.clone(),
            rm_clock: v.clock.clone(),
            val: &v.val,
        } /*@ } @*/ ) /*@ ; proof { if (actor_ok::<K>() && actor_ok::<A>() && clone_ok::<A>()) { let rs = r0.remaining(); let m = self.entries@; let ks = choose|ks: Seq<K>| vstd::std_specs::btree::increasing_seq(ks) && ks.to_set() == m.dom() && ks.no_duplicates() && es == ks.map(|i: int, k: K| &m[k]); ks.unique_seq_to_set(); assert forall|i: int| 0 <= i < rs.len() implies ({ let x = #[trigger] rs[i]; x.add_clock@ == self.cl() && exists|k: K| self.has(k) && #[trigger] self.val(k) == *x.val && x.rm_clock@ == self.ec(k) }) by { assert(rel(es[i], rs[i])); assert(*es[i] == m[ks[i]]); assert(ks.to_set().contains(ks[i])); assert(self.has(ks[i]) && self.val(ks[i]) == *rs[i].val && rs[i].rm_clock@ == self.ec(ks[i])); } } } r0 @*/
    }
//@end

//@extract fn src/map.rs "Map" iter
    pub fn iter(&self) -> /*@ (r: @*/ impl Iterator<Item = ReadCtx<(&K, &V), A>> /*@ ) @*/
    //@ ensures r.obeys_prophetic_iter_laws(), r.decrease() is Some,
    //@     (actor_ok::<K>() && actor_ok::<A>() && clone_ok::<A>()) ==> forall|i: int| 0 <= i < r.remaining().len() ==> { let x = #[trigger] r.remaining()[i]; self.has(*x.val.0) && *x.val.1 == self.val(*x.val.0) && x.add_clock@ == self.cl() && x.rm_clock@ == self.ec(*x.val.0) },
    //@     (actor_ok::<K>() && actor_ok::<A>() && clone_ok::<A>()) ==> forall|k: K| self.has(k) ==> exists|i: int| 0 <= i < r.remaining().len() && *(#[trigger] r.remaining()[i]).val.0 == k,
    {
        //@ let ghost rel = |p: (&K, &Entry<V, A>), x: ReadCtx<(&K, &V), A>| x.val.0 == p.0 && *x.val.1 == p.1.val && ((actor_ok::<K>() && actor_ok::<A>() && clone_ok::<A>()) ==> x.add_clock@ == self.cl() && x.rm_clock@ == p.1.clock@);
        /*@ let it0 = @*/ self.entries.iter() /*@ ; let ghost es = it0.remaining(); proof { crate::stdx5::axiom_btree_iter_finite(&it0); } let r0 = crate::stdx5::shim_iter_map_rel(it0, Ghost(rel), @*/ /*@<*/ .map( /*@>*/ move /*@<*/ | /*@>*/ /*@<pat*/ (k, v) /*@>*/ /*@<*/ | /*@>*/ /*@ |p: (&K, &Entry<V, A>)| -> (o: ReadCtx<(&K, &V), A>) ensures rel(p, o) { let $pat = p; @*/ ReadCtx {
            add_clock: self.clock.clone(),
            rm_clock: v.clock.clone(),
            val: (k, &v.val),
        } /*@ } @*/ ) /*@ ; proof { if (actor_ok::<K>() && actor_ok::<A>() && clone_ok::<A>()) { let rs = r0.remaining(); assert forall|i: int| 0 <= i < rs.len() implies ({ let x = #[trigger] rs[i]; self.has(*x.val.0) && *x.val.1 == self.val(*x.val.0) && x.add_clock@ == self.cl() && x.rm_clock@ == self.ec(*x.val.0) }) by { assert(rel(es[i], rs[i])); assert(self.entries@.contains_key(*es[i].0) && self.entries@[*es[i].0] == *es[i].1); } assert forall|k: K| self.has(k) implies exists|i: int| 0 <= i < rs.len() && *(#[trigger] rs[i]).val.0 == k by { assert(es.contains((&k, &self.entries@[k]))); let i = choose|i: int| 0 <= i < es.len() && es[i] == (&k, &self.entries@[k]); assert(rel(es[i], rs[i])); } } } r0 @*/
    }
//@end

//@extract fn src/map.rs "Map" apply_deferred
    fn apply_deferred(&mut self)
    //@ requires mbase_ok::<K, V, A>(), old(self).wf(),
    //@ ensures final(self).wf(), deferred_post(*old(self), *final(self)),
    {
        let deferred = mem::take(&mut self.deferred);
        //@ let ghost d0 = deferred@;
        //@ let v = shim_hashmap_into_vec(deferred);
        //@ let ghost vs = v@;
        for (clock, keys) in /*@ it: v @*/ /*@<*/ deferred /*@>*/
        //@ invariant
        //@     mbase_ok::<K, V, A>(), self.wf(), old(self).wf(), self.cl() == old(self).cl(), it.seq() == vs, d0 == old(self).defs(),
        //@     forall|i: int| 0 <= i < vs.len() ==> d0.contains_key((#[trigger] vs[i]).0) && d0[vs[i].0] == vs[i].1,
        //@     forall|i: int, j: int| 0 <= i < j < vs.len() ==> (#[trigger] vs[i]).0 != (#[trigger] vs[j]).0,
        //@     forall|k: VClock<A>| d0.contains_key(k) ==> exists|i: int| 0 <= i < vs.len() && (#[trigger] vs[i]).0 == k,
        //@     forall|m: K, a: A| #![trigger cnt(self.ec(m), a)] cnt(self.ec(m), a) == (if kcovered_upto(vs, it.index@, m, a, cnt(old(self).ec(m), a)) { 0 } else { cnt(old(self).ec(m), a) }),
        //@     forall|m: K| #[trigger] self.has(m) == (old(self).has(m) && self.ec(m) != SMap::<A, u64>::empty()),
        //@     forall|m: K| !knamed_upto(vs, it.index@, m) && #[trigger] self.has(m) ==> self.val(m) == old(self).val(m),
        //@     forall|k: VClock<A>| #![trigger self.defs().contains_key(k)] self.defs().contains_key(k) <==> (exists|j: int| 0 <= j < it.index@ && (#[trigger] vs[j]).0 == k && !vle(k@, self.cl())),
        //@     forall|j: int| 0 <= j < it.index@ && self.defs().contains_key((#[trigger] vs[j]).0) ==> self.defs()[vs[j].0]@ == vs[j].1@,
        {
            //@ let ghost pre = *self;
            //@ proof { assert(clock == vs[it.index@].0); assert(d0.contains_key(vs[it.index@].0)); assert(old(self).deferred@.contains_key(clock)); assert(nz(clock@)); }
            self.apply_keyset_rm(keys, clock);
            //@ proof { lemma_apply_deferred_step(*old(self), pre, *self, vs, it.index@); lemma_deferred_vals_step(*old(self), pre, *self, vs, it.index@); }
        }
        //@ proof { lemma_apply_deferred_done(*old(self), *self, vs); lemma_deferred_vals_done(*old(self), *self, vs); }
    }
//@end

//@extract fn src/map.rs "Map" apply_keyset_rm
    fn apply_keyset_rm(&mut self, mut keyset: BTreeSet<K>, clock: VClock<A>)
    //@ requires mbase_ok::<K, V, A>(), old(self).wf(), nz(clock@),
    //@ ensures final(self).wf(), keyset_rm_post(*old(self), keyset@, clock, *final(self)),
    {
        //@ let kit = keyset.iter();
        //@ let ghost sq0 = kit.remaining();
        //@ let ghost ks = keyset@;
        for key in /*@ it: kit @*/ /*@<*/ keyset.iter() /*@>*/
        //@ invariant
        //@     mbase_ok::<K, V, A>(), self.wf(), nz(clock@), it.seq() == sq0, sq0.unref().to_set() == ks, keyset@ == ks, sq0.no_duplicates(),
        //@     self.clock@ == old(self).clock@, self.deferred@ == old(self).deferred@,
        //@     forall|k: K| #![trigger self.entries@.contains_key(k)] (exists|j: int| 0 <= j < it.index@ && *sq0[j] == k) || (self.entries@.contains_key(k) == old(self).entries@.contains_key(k) && (self.entries@.contains_key(k) ==> self.entries@[k] == old(self).entries@[k])),
        //@     forall|k: K| (exists|j: int| 0 <= j < it.index@ && *sq0[j] == k) ==> #[trigger] krm_one(old(self).entries@, self.entries@, k, clock),
        {
            //@ let ghost pre = self.entries@;
            //@ let ghost idx = it.index@;
            //@ proof { assert(*key == *sq0[idx]); if pre.contains_key(*key) { assert(pre == self.entries@); assert(self.entries@.contains_key(*key)); assert(nz(self.entries@[*key].clock@)); assert(self.entries@[*key].val.cm_inv()); } assert forall|i: int, j: int| 0 <= i < j < sq0.len() implies *sq0[i] != *sq0[j] by { assert(sq0[i] != sq0[j]); } }
            if let Some(entry) = self.entries.get_mut(key) {
                //@ let ghost e0 = *entry;
                //@ proof { assert(pre.contains_key(*key) && pre[*key] == e0); assert(e0.val.cm_inv() && nz(e0.clock@)); assert(e0.val.rr_inv()); }
                entry.clock.reset_remove(&clock);
                if entry.clock.is_empty() {
                    // The entry clock says we have no info on this entry.
                    // So remove the entry
                    self.entries.remove(key);
                } else {
                    // The entry clock is not empty so this means we still
                    // have some information on this entry, keep it.
                    entry.val.reset_remove(&clock);
                }
            }
            //@ proof { lemma_krm_step(old(self).entries@, pre, self.entries@, *key, clock, sq0, idx); lemma_krm_wf(pre, self.entries@, *key, clock); }
        }
        //@ let ghost mid = *self;
        //@ proof { assert forall|k: K| ks.contains(k) <==> (exists|j: int| 0 <= j < sq0.len() && *sq0[j] == k) by { lemma_unref_to_set(sq0, ks, k); } }

        // now we need to decide wether we should be keeping this
        // remove Op around to remove entries we haven't seen yet.
        //@ proof { lemma_pcmp_code(self.clock@, clock@); }
        match self.clock.partial_cmp(&clock) {
            None | Some(Ordering::Less) => {
                // this remove clock has information we don't have,
                // we need to log this in our deferred remove map, so
                // that we can delete keys that we haven't seen yet but
                // have been seen by this clock
                //@ proof { assert(!vle(clock@, self.clock@)); }
                //@ let ghost d0 = self.deferred@;
                let deferred_set = /*@ shim_hashmap_entry_or_default(&mut @*/ self.deferred /*@<*/ .entry( /*@>*/ /*@ , @*/ clock) /*@<*/ .or_default() /*@>*/ ;
                //@ proof { if !d0.contains_key(clock) { assert(deferred_set@ == SSet::<K>::empty()); } }
                /*@ shim_btreeset_append( @*/ deferred_set /*@<*/ .append( /*@>*/ /*@ , @*/ &mut keyset);
            }
            _ => { /* we've seen all keys this clock has seen */
                //@ proof { assert(vle(clock@, self.clock@)); }
            }
        }
        //@ proof { assert(self.entries@ == mid.entries@); lemma_krm_done(*old(self), *self, ks, clock); }
    }
//@end
}

/// effect of re-applying all pending key-removes (Map::apply_deferred)
pub open spec fn deferred_post<K: Ord, V: Val<A>, A: Ord + Hash>(old_: Map<K, V, A>, new_: Map<K, V, A>) -> bool {
    &&& new_.cl() == old_.cl()
    &&& forall|k: K, a: A| #![trigger cnt(new_.ec(k), a)] cnt(new_.ec(k), a) == (if kcovered_by(old_.defs(), k, a, cnt(old_.ec(k), a)) { 0 } else { cnt(old_.ec(k), a) })
    &&& forall|k: K| #[trigger] new_.has(k) == (old_.has(k) && new_.ec(k) != SMap::<A, u64>::empty())
    // keys no pending remove names are untouched (value layer under pending removes: only the invariant is stated)
    &&& forall|k: K| !named_by(old_.defs(), k) && #[trigger] new_.has(k) ==> new_.val(k) == old_.val(k)
    &&& forall|c: VClock<A>| #![trigger new_.defs().contains_key(c)] new_.defs().contains_key(c) <==> (old_.defs().contains_key(c) && !vle(c@, old_.cl()))
    &&& forall|c: VClock<A>| #![trigger new_.defs()[c]] new_.defs().contains_key(c) ==> new_.defs()[c]@ == old_.defs()[c]@
}

/// what apply_keyset_rm did to one named key k
spec fn krm_one<K, V: Val<A>, A: Ord>(e0: SMap<K, Entry<V, A>>, e1: SMap<K, Entry<V, A>>, k: K, clock: VClock<A>) -> bool {
    if !e0.contains_key(k) { !e1.contains_key(k) }
    else if vsub(e0[k].clock@, clock@) == SMap::<A, u64>::empty() { !e1.contains_key(k) }
    else { e1.contains_key(k) && e1[k].clock@ == vsub(e0[k].clock@, clock@) && V::rr_post(&e0[k].val, &clock, &e1[k].val) && e1[k].val.cm_inv() }
}

proof fn lemma_krm_step<K, V: Val<A>, A: Ord>(e0: SMap<K, Entry<V, A>>, pre: SMap<K, Entry<V, A>>, post: SMap<K, Entry<V, A>>, key: K, clock: VClock<A>, sq: Seq<&K>, idx: int)
    requires
        0 <= idx < sq.len(), *sq[idx] == key,
        forall|k: K| #![trigger pre.contains_key(k)] (exists|j: int| 0 <= j < idx && *sq[j] == k) || (pre.contains_key(k) == e0.contains_key(k) && (pre.contains_key(k) ==> pre[k] == e0[k])),
        forall|k: K| (exists|j: int| 0 <= j < idx && *sq[j] == k) ==> #[trigger] krm_one(e0, pre, k, clock),
        forall|i: int, j: int| 0 <= i < j < sq.len() ==> *sq[i] != *sq[j],
        forall|k: K| #![trigger post.contains_key(k)] k != key ==> (post.contains_key(k) == pre.contains_key(k) && (post.contains_key(k) ==> post[k] == pre[k])),
        krm_one(pre, post, key, clock),
    ensures
        forall|k: K| #![trigger post.contains_key(k)] (exists|j: int| 0 <= j < idx + 1 && *sq[j] == k) || (post.contains_key(k) == e0.contains_key(k) && (post.contains_key(k) ==> post[k] == e0[k])),
        forall|k: K| (exists|j: int| 0 <= j < idx + 1 && *sq[j] == k) ==> #[trigger] krm_one(e0, post, k, clock),
{
    assert forall|k: K| #![trigger post.contains_key(k)] (exists|j: int| 0 <= j < idx + 1 && *sq[j] == k) || (post.contains_key(k) == e0.contains_key(k) && (post.contains_key(k) ==> post[k] == e0[k])) by {
        if k == key { assert(0 <= idx < idx + 1 && *sq[idx] == k); }
        else {
            assert(post.contains_key(k) == pre.contains_key(k));
            if exists|j: int| 0 <= j < idx && *sq[j] == k { let j = choose|j: int| 0 <= j < idx && *sq[j] == k; assert(0 <= j < idx + 1 && *sq[j] == k); }
        }
    }
    assert forall|k: K| (exists|j: int| 0 <= j < idx + 1 && *sq[j] == k) implies #[trigger] krm_one(e0, post, k, clock) by {
        let j = choose|j: int| 0 <= j < idx + 1 && *sq[j] == k;
        if k == key {
            // first visit: keys of the keyset are pairwise different
            assert(!(exists|j2: int| 0 <= j2 < idx && *sq[j2] == k)) by {
                if exists|j2: int| 0 <= j2 < idx && *sq[j2] == k { let j2 = choose|j2: int| 0 <= j2 < idx && *sq[j2] == k; assert(*sq[j2] != *sq[idx]); }
            }
            assert(pre.contains_key(k) == e0.contains_key(k));
        } else {
            assert(j < idx);
            assert(post.contains_key(k) == pre.contains_key(k));
            assert(krm_one(e0, pre, k, clock));
        }
    }
}

spec fn ents_ok<K, V: Val<A>, A: Ord>(e: SMap<K, Entry<V, A>>) -> bool {
    forall|k: K| e.contains_key(k) ==> nz(#[trigger] e[k].clock@) && e[k].clock@ != SMap::<A, u64>::empty() && e[k].val.cm_inv()
}
proof fn lemma_krm_wf<K, V: Val<A>, A: Ord>(pre: SMap<K, Entry<V, A>>, post: SMap<K, Entry<V, A>>, key: K, clock: VClock<A>)
    requires
        ents_ok(pre), krm_one(pre, post, key, clock),
        forall|k: K| #![trigger post.contains_key(k)] k != key ==> (post.contains_key(k) == pre.contains_key(k) && (post.contains_key(k) ==> post[k] == pre[k])),
    ensures ents_ok(post),
{
    assert forall|k: K| post.contains_key(k) implies nz(#[trigger] post[k].clock@) && post[k].clock@ != SMap::<A, u64>::empty() && post[k].val.cm_inv() by {
        if k == key { c10_vsub_nz(pre[k].clock@, clock@); } else { assert(post.contains_key(k) == pre.contains_key(k)); assert(post[k] == pre[k]); }
    }
}

proof fn lemma_krm_done<K: Ord, V: Val<A>, A: Ord + Hash>(old_: Map<K, V, A>, new_: Map<K, V, A>, ks: SSet<K>, clock: VClock<A>)
    requires
        old_.wf(), nz(clock@), nz(new_.clock@), new_.clock@ == old_.clock@,
        forall|k: K| #![trigger new_.entries@.contains_key(k)] ks.contains(k) || (new_.entries@.contains_key(k) == old_.entries@.contains_key(k) && (new_.entries@.contains_key(k) ==> new_.entries@[k] == old_.entries@[k])),
        forall|k: K| ks.contains(k) ==> #[trigger] krm_one(old_.entries@, new_.entries@, k, clock),
        new_.deferred@ == (if vle(clock@, old_.clock@) { old_.deferred@ } else { old_.deferred@.insert(clock, new_.deferred@[clock]) }),
        !vle(clock@, old_.clock@) ==> new_.deferred@.contains_key(clock) && new_.deferred@[clock]@ == old_.dm(clock).union(ks),
    ensures new_.wf(), keyset_rm_post(old_, ks, clock, new_),
{
    assert forall|k: K| new_.entries@.contains_key(k) implies nz(#[trigger] new_.entries@[k].clock@) && new_.entries@[k].clock@ != SMap::<A, u64>::empty() && new_.entries@[k].val.cm_inv() by {
        if ks.contains(k) { assert(krm_one(old_.entries@, new_.entries@, k, clock)); c10_vsub_nz(old_.entries@[k].clock@, clock@); }
        else { assert(new_.entries@[k] == old_.entries@[k]); }
    }
    assert forall|k: K| #[trigger] new_.ec(k) == (if ks.contains(k) { vsub(old_.ec(k), clock@) } else { old_.ec(k) }) by {
        if ks.contains(k) {
            assert(krm_one(old_.entries@, new_.entries@, k, clock));
            if !old_.entries@.contains_key(k) { assert(vsub(SMap::<A, u64>::empty(), clock@) =~= SMap::<A, u64>::empty()); }
        }
    }
    assert forall|k: K| #[trigger] new_.has(k) == (old_.has(k) && new_.ec(k) != SMap::<A, u64>::empty()) by {
        if ks.contains(k) { assert(krm_one(old_.entries@, new_.entries@, k, clock)); }
    }
    assert forall|k: K| ks.contains(k) && #[trigger] new_.has(k) implies V::rr_post(&old_.val(k), &clock, &new_.val(k)) by {
        assert(krm_one(old_.entries@, new_.entries@, k, clock));
    }
}

proof fn lemma_up_mid<K: Ord, V: Val<A>, A: Ord + Hash>(pre: Map<K, V, A>, mid: Map<K, V, A>, key: K, e0: Entry<V, A>, e1: Entry<V, A>, a: A, n: u64)
    requires
        pre.wf(), n > cnt(pre.clock@, a), mid.clock@ == pre.clock@.insert(a, n), mid.deferred@ == pre.deferred@,
        mid.entries@ == pre.entries@.insert(key, e1),
        pre.entries@.contains_key(key) ==> e0 == pre.entries@[key],
        !pre.entries@.contains_key(key) ==> e0.clock@ == SMap::<A, u64>::empty(),
        e1.clock@ == vapp(e0.clock@, a, n), e1.val.cm_inv(), nz(e0.clock@),
    ensures
        mid.wf(),
        mid.ec(key) == vapp(pre.ec(key), a, n), mid.has(key),
        forall|k: K| k != key ==> #[trigger] mid.ec(k) == pre.ec(k),
        forall|k: K| k != key ==> #[trigger] mid.has(k) == pre.has(k),
        forall|k: K| k != key && #[trigger] mid.has(k) ==> mid.val(k) == pre.val(k),
{
    assert forall|k: K| mid.entries@.contains_key(k) implies nz(#[trigger] mid.entries@[k].clock@) && mid.entries@[k].clock@ != SMap::<A, u64>::empty() && mid.entries@[k].val.cm_inv() by {
        if k == key {
            let c1 = vapp(e0.clock@, a, n);
            assert forall|b: A| c1.contains_key(b) implies #[trigger] c1[b] > 0 by { if b != a { assert(e0.clock@.contains_key(b)); } }
            if cnt(e0.clock@, a) < n { assert(c1.contains_key(a)); } else { assert(e0.clock@.contains_key(a)); }
        } else { assert(pre.entries@.contains_key(k)); }
    }
    assert forall|b: A| mid.clock@.contains_key(b) implies #[trigger] mid.clock@[b] > 0 by { if b != a { assert(pre.clock@.contains_key(b)); } }
}

proof fn lemma_up_fin<K: Ord, V: Val<A>, A: Ord + Hash>(pre: Map<K, V, A>, mid: Map<K, V, A>, fin: Map<K, V, A>, key: K, op: V::Op, e0: Entry<V, A>, a: A, n: u64)
    requires
        n > cnt(pre.cl(), a), mid.cl() == pre.cl().insert(a, n), mid.defs() == pre.defs(),
        mid.ec(key) == vapp(pre.ec(key), a, n), mid.has(key),
        forall|k: K| k != key ==> #[trigger] mid.ec(k) == pre.ec(k),
        forall|k: K| k != key ==> #[trigger] mid.has(k) == pre.has(k),
        forall|k: K| k != key && #[trigger] mid.has(k) ==> mid.val(k) == pre.val(k),
        pre.has(key) ==> e0.vl() == pre.val(key),
        !pre.has(key) ==> V::default.ensures((), e0.vl()),
        V::cm_post(&e0.vl(), &op, &mid.val(key)),
        deferred_post(mid, fin),
    ensures
        apply_post_map(pre, Op::Up { dot: Dot { actor: a, counter: n }, key, op }, fin),
{
    let d = Dot { actor: a, counter: n };
    assert forall|k: K, b: A| #![trigger cnt(fin.ec(k), b)] cnt(fin.ec(k), b) == ({
            let e = if k == key { vapp(pre.ec(k), d.actor, d.counter) } else { pre.ec(k) };
            if kcovered_by(pre.defs(), k, b, cnt(e, b)) { 0 } else { cnt(e, b) } }) by {
        assert(cnt(fin.ec(k), b) == (if kcovered_by(mid.defs(), k, b, cnt(mid.ec(k), b)) { 0 } else { cnt(mid.ec(k), b) }));
    }
    assert forall|k: K| #[trigger] fin.has(k) == ((pre.has(k) || k == key) && fin.ec(k) != SMap::<A, u64>::empty()) by {
        assert(fin.has(k) == (mid.has(k) && fin.ec(k) != SMap::<A, u64>::empty()));
    }
    assert forall|k: K| k != key && !named_by(pre.defs(), k) && #[trigger] fin.has(k) implies fin.val(k) == pre.val(k) by {
        assert(fin.has(k) == (mid.has(k) && fin.ec(k) != SMap::<A, u64>::empty()));
        assert(mid.has(k) == pre.has(k));
        assert(fin.val(k) == mid.val(k));
    }
    assert(fin.cl() == pre.cl().insert(d.actor, d.counter));
    assert forall|c: VClock<A>| #![trigger fin.defs().contains_key(c)] fin.defs().contains_key(c) <==> (pre.defs().contains_key(c) && !vle(c@, fin.cl())) by {}
    assert forall|c: VClock<A>| #![trigger fin.defs()[c]] fin.defs().contains_key(c) implies fin.defs()[c]@ == pre.defs()[c]@ by {}
    let o = Op::<K, V, A>::Up { dot: d, key, op };
    assert(o->op == op && o->key == key && o->dot == d);
    if !named_by(pre.defs(), key) && fin.has(key) {
        assert(fin.val(key) == mid.val(key));
        let v0 = e0.vl();
        assert((if pre.has(key) { v0 == pre.val(key) } else { V::default.ensures((), v0) }) && V::cm_post(&v0, &o->op, &fin.val(key)));
    }
    assert(o is Up && cnt(pre.cl(), o->dot.actor) < o->dot.counter);
    assert(apply_post_map(pre, o, fin));
}

proof fn lemma_rrm_entries<K, V: Val<A>, A: Ord>(e0: SMap<K, Entry<V, A>>, e1: SMap<K, Entry<V, A>>, clock: VClock<A>)
    requires
        ents_ok(e0),
        forall|k: K| #[trigger] e1.contains_key(k) ==> e0.contains_key(k) && rrm_keep(k, e0[k], Some((k, e1[k])), clock),
        forall|k: K| #[trigger] e0.contains_key(k) && !e1.contains_key(k) ==> rrm_keep(k, e0[k], None, clock),
    ensures
        ents_ok(e1),
        forall|k: K| #![trigger e1.contains_key(k)] e1.contains_key(k) <==> (e0.contains_key(k) && vsub(e0[k].clock@, clock@) != SMap::<A, u64>::empty()),
        forall|k: K| #[trigger] e1.contains_key(k) ==> e1[k].clock@ == vsub(e0[k].clock@, clock@) && V::rr_post(&e0[k].val, &clock, &e1[k].val),
{
    assert forall|k: K| e1.contains_key(k) implies nz(#[trigger] e1[k].clock@) && e1[k].clock@ != SMap::<A, u64>::empty() && e1[k].val.cm_inv() by {
        assert(e0.contains_key(k)); c10_vsub_nz(e0[k].clock@, clock@);
    }
    assert forall|k: K| #![trigger e1.contains_key(k)] e1.contains_key(k) <==> (e0.contains_key(k) && vsub(e0[k].clock@, clock@) != SMap::<A, u64>::empty()) by {
        if e0.contains_key(k) && !e1.contains_key(k) { assert(rrm_keep(k, e0[k], None::<(K, Entry<V, A>)>, clock)); }
    }
}

proof fn lemma_rrm_deferred_from<K: Ord, A: Ord + Hash>(d0: SMap<VClock<A>, BTreeSet<K>>, d1: SMap<VClock<A>, BTreeSet<K>>, c: SMap<A, u64>)
    requires
        forall|k: VClock<A>| #[trigger] d0.contains_key(k) ==> nz(k@),
        forall|k2: VClock<A>| #[trigger] d1.contains_key(k2) ==> exists|k: VClock<A>| d0.contains_key(k) && #[trigger] rrm_keep_d(k@, d0[k], Some((k2, d1[k2])), c),
    ensures
        forall|k2: VClock<A>| #[trigger] d1.contains_key(k2) ==> nz(k2@),
        rekeyed_from(d0, d1, c),
{
    reveal(rekeyed_from);
    assert forall|k2: VClock<A>| #[trigger] d1.contains_key(k2) implies nz(k2@) && exists|k: VClock<A>| #[trigger] d0.contains_key(k) && k2@ == vsub(k@, c) && d1[k2] == d0[k] by {
        let k = choose|k: VClock<A>| d0.contains_key(k) && #[trigger] rrm_keep_d(k@, d0[k], Some((k2, d1[k2])), c);
        assert(d0.contains_key(k));
        c10_vsub_nz(k@, c);
    }
}
proof fn lemma_rrm_deferred_onto<K: Ord, A: Ord + Hash>(d0: SMap<VClock<A>, BTreeSet<K>>, d1: SMap<VClock<A>, BTreeSet<K>>, c: SMap<A, u64>)
    requires
        forall|k: VClock<A>| #[trigger] d0.contains_key(k) ==> exists|o: Option<(VClock<A>, BTreeSet<K>)>| #[trigger] rrm_keep_d(k@, d0[k], o, c) && (o matches Some(q) ==> d1.contains_key(q.0)),
    ensures rekeyed_onto(d0, d1, c),
{
    reveal(rekeyed_onto);
    assert forall|k: VClock<A>| #[trigger] d0.contains_key(k) && vsub(k@, c) != SMap::<A, u64>::empty() implies exists|k2: VClock<A>| #[trigger] d1.contains_key(k2) && k2@ == vsub(k@, c) by {
        let o = choose|o: Option<(VClock<A>, BTreeSet<K>)>| #[trigger] rrm_keep_d(k@, d0[k], o, c) && (o matches Some(q) ==> d1.contains_key(q.0));
        let q = o->Some_0;
        assert(d1.contains_key(q.0) && q.0@ == vsub(k@, c));
    }
}

proof fn lemma_rrm_done<K: Ord, V: Val<A>, A: Ord + Hash>(old_: Map<K, V, A>, new_: Map<K, V, A>, clock: VClock<A>, e0: SMap<K, Entry<V, A>>, e1: SMap<K, Entry<V, A>>, d0: SMap<VClock<A>, BTreeSet<K>>, d1: SMap<VClock<A>, BTreeSet<K>>)
    requires
        old_.wf(), nz(new_.clock@), new_.clock@ == vsub(old_.clock@, clock@),
        old_.entries@ == e0, new_.entries@ == e1, old_.deferred@ == d0, new_.deferred@ == d1,
        ents_ok(e1),
        forall|k: K| #![trigger e1.contains_key(k)] e1.contains_key(k) <==> (e0.contains_key(k) && vsub(e0[k].clock@, clock@) != SMap::<A, u64>::empty()),
        forall|k: K| #[trigger] e1.contains_key(k) ==> e1[k].clock@ == vsub(e0[k].clock@, clock@) && V::rr_post(&e0[k].val, &clock, &e1[k].val),
        forall|k2: VClock<A>| #[trigger] d1.contains_key(k2) ==> nz(k2@),
        rekeyed_from(d0, d1, clock@), rekeyed_onto(d0, d1, clock@),
    ensures new_.wf(), rr_post_map(old_, clock, new_),
{
    assert forall|k: K| #[trigger] new_.ec(k) == vsub(old_.ec(k), clock@) by {
        if !old_.entries@.contains_key(k) { assert(vsub(SMap::<A, u64>::empty(), clock@) =~= SMap::<A, u64>::empty()); }
        else if !new_.entries@.contains_key(k) { }
    }
    assert forall|k: K| #[trigger] new_.has(k) == (old_.has(k) && new_.ec(k) != SMap::<A, u64>::empty()) by {
        if new_.entries@.contains_key(k) { assert(new_.entries@[k].clock@ != SMap::<A, u64>::empty()); }
    }
    assert forall|k: K| #[trigger] new_.has(k) implies V::rr_post(&old_.val(k), &clock, &new_.val(k)) by {}
    assert(new_.wf()) by {
        assert forall|k2: VClock<A>| #[trigger] new_.deferred@.contains_key(k2) implies nz(k2@) by { assert(new_.defs().contains_key(k2)); }
        assert forall|k: K| new_.entries@.contains_key(k) implies nz(#[trigger] new_.entries@[k].clock@) && new_.entries@[k].clock@ != SMap::<A, u64>::empty() && new_.entries@[k].val.cm_inv() by {}
    }
    let c = clock@;
    assert(new_.cl() == vsub(old_.cl(), c));
    assert(rr_post_map(old_, clock, new_));
}

proof fn lemma_merge_pass3_step<K: Ord, V: Val<A>, A: Ord + Hash>(old_: Map<K, V, A>, other: Map<K, V, A>, s2: Map<K, V, A>, pre: Map<K, V, A>, post: Map<K, V, A>, dvs: Seq<(VClock<A>, BTreeSet<K>)>, idx: int)
    requires
        0 <= idx < dvs.len(), pre.wf(), post.wf(), post.cl() == pre.cl(), pre.cl() == old_.cl(),
        forall|i: int| 0 <= i < dvs.len() ==> other.defs().contains_key((#[trigger] dvs[i]).0) && other.defs()[dvs[i].0] == dvs[i].1,
        forall|i: int, j: int| 0 <= i < j < dvs.len() ==> (#[trigger] dvs[i]).0 != (#[trigger] dvs[j]).0,
        forall|m: K, a: A| #![trigger cnt(pre.ec(m), a)] cnt(pre.ec(m), a) == (if kcovered_upto(dvs, idx, m, a, cnt(s2.ec(m), a)) { 0 } else { cnt(s2.ec(m), a) }),
        forall|k: VClock<A>| #![trigger pre.defs().contains_key(k)] pre.defs().contains_key(k) <==> (old_.defs().contains_key(k) || exists|j: int| 0 <= j < idx && (#[trigger] dvs[j]).0 == k && !vle(k@, pre.cl())),
        forall|k: VClock<A>| #![trigger pre.dm(k)] pre.dm(k) == old_.dm(k).union(if exists|j: int| 0 <= j < idx && (#[trigger] dvs[j]).0 == k && !vle(k@, pre.cl()) { other.dm(k) } else { SSet::<K>::empty() }),
        // apply_rm(dvs[idx].1, dvs[idx].0)
        forall|m: K| #[trigger] post.ec(m) == (if dvs[idx].1@.contains(m) { vsub(pre.ec(m), dvs[idx].0@) } else { pre.ec(m) }),
        post.defs() == (if vle(dvs[idx].0@, pre.cl()) { pre.defs() } else { pre.defs().insert(dvs[idx].0, post.defs()[dvs[idx].0]) }),
        !vle(dvs[idx].0@, pre.cl()) ==> post.defs().contains_key(dvs[idx].0) && post.defs()[dvs[idx].0]@ == pre.dm(dvs[idx].0).union(dvs[idx].1@),
    ensures
        forall|m: K, a: A| #![trigger cnt(post.ec(m), a)] cnt(post.ec(m), a) == (if kcovered_upto(dvs, idx + 1, m, a, cnt(s2.ec(m), a)) { 0 } else { cnt(s2.ec(m), a) }),
        forall|k: VClock<A>| #![trigger post.defs().contains_key(k)] post.defs().contains_key(k) <==> (old_.defs().contains_key(k) || exists|j: int| 0 <= j < idx + 1 && (#[trigger] dvs[j]).0 == k && !vle(k@, post.cl())),
        forall|k: VClock<A>| #![trigger post.dm(k)] post.dm(k) == old_.dm(k).union(if exists|j: int| 0 <= j < idx + 1 && (#[trigger] dvs[j]).0 == k && !vle(k@, post.cl()) { other.dm(k) } else { SSet::<K>::empty() }),
{
    let kc = dvs[idx].0;
    let ks = dvs[idx].1@;
    assert(other.defs().contains_key(kc) && other.defs()[kc] == dvs[idx].1);
    assert(other.dm(kc) == ks);
    assert forall|m: K, a: A| #![trigger cnt(post.ec(m), a)] cnt(post.ec(m), a) == (if kcovered_upto(dvs, idx + 1, m, a, cnt(s2.ec(m), a)) { 0 } else { cnt(s2.ec(m), a) }) by {
        let n = cnt(s2.ec(m), a);
        assert(cnt(pre.ec(m), a) == (if kcovered_upto(dvs, idx, m, a, n) { 0 } else { n }));
        assert(post.ec(m) == (if ks.contains(m) { vsub(pre.ec(m), kc@) } else { pre.ec(m) }));
        lemma_cnt_vsub(pre.ec(m), kc@, a);
        if kcovered_upto(dvs, idx, m, a, n) {
            let j = choose|j: int| 0 <= j < idx && (#[trigger] dvs[j]).1@.contains(m) && cnt(dvs[j].0@, a) >= n;
            assert(0 <= j < idx + 1 && dvs[j].1@.contains(m) && cnt(dvs[j].0@, a) >= n);
        }
        if ks.contains(m) && cnt(kc@, a) >= n {
            assert(0 <= idx < idx + 1 && dvs[idx].1@.contains(m) && cnt(dvs[idx].0@, a) >= n);
        }
        if kcovered_upto(dvs, idx + 1, m, a, n) && !kcovered_upto(dvs, idx, m, a, n) {
            let j = choose|j: int| 0 <= j < idx + 1 && (#[trigger] dvs[j]).1@.contains(m) && cnt(dvs[j].0@, a) >= n;
            assert(j == idx);
        }
    }
    // no earlier step handled the same key
    assert(!(exists|j: int| 0 <= j < idx && (#[trigger] dvs[j]).0 == kc && !vle(kc@, pre.cl()))) by {
        if exists|j: int| 0 <= j < idx && (#[trigger] dvs[j]).0 == kc && !vle(kc@, pre.cl()) {
            let j = choose|j: int| 0 <= j < idx && (#[trigger] dvs[j]).0 == kc && !vle(kc@, pre.cl());
            assert(dvs[j].0 != dvs[idx].0);
        }
    }
    assert forall|k: VClock<A>| #![trigger post.defs().contains_key(k)] post.defs().contains_key(k) <==> (old_.defs().contains_key(k) || exists|j: int| 0 <= j < idx + 1 && (#[trigger] dvs[j]).0 == k && !vle(k@, post.cl())) by {
        if post.defs().contains_key(k) {
            if k == kc && !vle(kc@, pre.cl()) {
                assert(0 <= idx < idx + 1 && dvs[idx].0 == k && !vle(k@, post.cl()));
            } else {
                assert(pre.defs().contains_key(k));
                if !old_.defs().contains_key(k) {
                    let j = choose|j: int| 0 <= j < idx && (#[trigger] dvs[j]).0 == k && !vle(k@, pre.cl());
                    assert(0 <= j < idx + 1 && dvs[j].0 == k && !vle(k@, post.cl()));
                }
            }
        }
        if old_.defs().contains_key(k) { assert(pre.defs().contains_key(k)); }
        if exists|j: int| 0 <= j < idx + 1 && (#[trigger] dvs[j]).0 == k && !vle(k@, post.cl()) {
            let j = choose|j: int| 0 <= j < idx + 1 && (#[trigger] dvs[j]).0 == k && !vle(k@, post.cl());
            if j < idx { assert(pre.defs().contains_key(k)); } else { assert(k == kc); }
        }
    }
    assert forall|k: VClock<A>| #![trigger post.dm(k)] post.dm(k) == old_.dm(k).union(if exists|j: int| 0 <= j < idx + 1 && (#[trigger] dvs[j]).0 == k && !vle(k@, post.cl()) { other.dm(k) } else { SSet::<K>::empty() }) by {
        let pd = pre.dm(k);
        assert(pd == old_.dm(k).union(if exists|j: int| 0 <= j < idx && (#[trigger] dvs[j]).0 == k && !vle(k@, pre.cl()) { other.dm(k) } else { SSet::<K>::empty() }));
        if k == kc {
            if !vle(kc@, pre.cl()) {
                assert(0 <= idx < idx + 1 && dvs[idx].0 == k && !vle(k@, post.cl()));
                assert(post.dm(k) == pre.dm(k).union(ks));
                assert(pre.dm(k) =~= old_.dm(k).union(SSet::<K>::empty()));
                assert(old_.dm(k).union(SSet::<K>::empty()).union(ks) =~= old_.dm(k).union(ks));
            } else {
                assert(post.dm(k) == pre.dm(k));
                assert(!(exists|j: int| 0 <= j < idx + 1 && (#[trigger] dvs[j]).0 == k && !vle(k@, post.cl()))) by {
                    if exists|j: int| 0 <= j < idx + 1 && (#[trigger] dvs[j]).0 == k && !vle(k@, post.cl()) {
                        let j = choose|j: int| 0 <= j < idx + 1 && (#[trigger] dvs[j]).0 == k && !vle(k@, post.cl());
                    }
                }
            }
        } else {
            assert(post.defs().contains_key(k) == pre.defs().contains_key(k));
            if post.defs().contains_key(k) { assert(post.defs()[k] == pre.defs()[k]); }
            assert(post.dm(k) == pre.dm(k));
            if exists|j: int| 0 <= j < idx + 1 && (#[trigger] dvs[j]).0 == k && !vle(k@, post.cl()) {
                let j = choose|j: int| 0 <= j < idx + 1 && (#[trigger] dvs[j]).0 == k && !vle(k@, post.cl());
                assert(j < idx);
                assert(0 <= j < idx && dvs[j].0 == k && !vle(k@, pre.cl()));
            }
            if exists|j: int| 0 <= j < idx && (#[trigger] dvs[j]).0 == k && !vle(k@, pre.cl()) {
                let j = choose|j: int| 0 <= j < idx && (#[trigger] dvs[j]).0 == k && !vle(k@, pre.cl());
                assert(0 <= j < idx + 1 && dvs[j].0 == k && !vle(k@, post.cl()));
            }
        }
    }
}

proof fn lemma_merge_finish<K: Ord, V: Val<A>, A: Ord + Hash>(old_: Map<K, V, A>, other: Map<K, V, A>, s2: Map<K, V, A>, s3: Map<K, V, A>, s4: Map<K, V, A>, fin: Map<K, V, A>, dvs: Seq<(VClock<A>, BTreeSet<K>)>)
    requires
        s3.cl() == old_.cl(), s4.entries@ == s3.entries@, s4.defs() == s3.defs(), is_join(s4.cl(), old_.cl(), other.cl()), fin.cl() == s4.cl(),
        forall|i: int| 0 <= i < dvs.len() ==> other.defs().contains_key((#[trigger] dvs[i]).0) && other.defs()[dvs[i].0] == dvs[i].1,
        forall|k: VClock<A>| other.defs().contains_key(k) ==> exists|i: int| 0 <= i < dvs.len() && (#[trigger] dvs[i]).0 == k,
        forall|m: K, a: A| #![trigger cnt(s2.ec(m), a)] cnt(s2.ec(m), a) == mrg(cnt(old_.ec(m), a), cnt(other.ec(m), a), cnt(old_.cl(), a), cnt(other.cl(), a)),
        forall|m: K, a: A| #![trigger cnt(s3.ec(m), a)] cnt(s3.ec(m), a) == (if kcovered_upto(dvs, dvs.len() as int, m, a, cnt(s2.ec(m), a)) { 0 } else { cnt(s2.ec(m), a) }),
        forall|k: VClock<A>| #![trigger s3.defs().contains_key(k)] s3.defs().contains_key(k) <==> (old_.defs().contains_key(k) || exists|j: int| 0 <= j < dvs.len() && (#[trigger] dvs[j]).0 == k && !vle(k@, s3.cl())),
        forall|k: VClock<A>| #![trigger s3.dm(k)] s3.dm(k) == old_.dm(k).union(if exists|j: int| 0 <= j < dvs.len() && (#[trigger] dvs[j]).0 == k && !vle(k@, s3.cl()) { other.dm(k) } else { SSet::<K>::empty() }),
        // apply_deferred on s4
        forall|m: K, a: A| #![trigger cnt(fin.ec(m), a)] cnt(fin.ec(m), a) == (if kcovered_by(s4.defs(), m, a, cnt(s4.ec(m), a)) { 0 } else { cnt(s4.ec(m), a) }),
        forall|k: VClock<A>| #![trigger fin.defs().contains_key(k)] fin.defs().contains_key(k) <==> (s4.defs().contains_key(k) && !vle(k@, s4.cl())),
        forall|k: VClock<A>| #![trigger fin.defs()[k]] fin.defs().contains_key(k) ==> fin.defs()[k]@ == s4.defs()[k]@,
    ensures
        forall|m: K, a: A| #![trigger cnt(fin.ec(m), a)] cnt(fin.ec(m), a) == ({
            let x = mrg(cnt(old_.ec(m), a), cnt(other.ec(m), a), cnt(old_.cl(), a), cnt(other.cl(), a));
            if kcovered_by(old_.defs(), m, a, x) || kcovered_by(other.defs(), m, a, x) { 0 } else { x } }),
        forall|k: VClock<A>| #![trigger fin.defs().contains_key(k)] fin.defs().contains_key(k) <==> ((old_.defs().contains_key(k) || other.defs().contains_key(k)) && !vle(k@, fin.cl())),
        forall|k: VClock<A>| #![trigger fin.defs()[k]] fin.defs().contains_key(k) ==> fin.defs()[k]@ == old_.dm(k).union(other.dm(k)),
{
    let jc = s4.cl();
    // vle(k, old.cl) ==> vle(k, join)
    assert forall|k: VClock<A>| vle(k@, old_.cl()) implies vle(k@, jc) by {
        assert forall|a: A| cnt(k@, a) <= cnt(jc, a) by { assert(cnt(jc, a) == max64(cnt(old_.cl(), a), cnt(other.cl(), a))); assert(cnt(k@, a) <= cnt(old_.cl(), a)); }
    }
    assert forall|m: K, a: A| #![trigger cnt(fin.ec(m), a)] cnt(fin.ec(m), a) == ({
            let x = mrg(cnt(old_.ec(m), a), cnt(other.ec(m), a), cnt(old_.cl(), a), cnt(other.cl(), a));
            if kcovered_by(old_.defs(), m, a, x) || kcovered_by(other.defs(), m, a, x) { 0 } else { x } }) by {
        let x = mrg(cnt(old_.ec(m), a), cnt(other.ec(m), a), cnt(old_.cl(), a), cnt(other.cl(), a));
        assert(cnt(s2.ec(m), a) == x);
        assert(s4.ec(m) == s3.ec(m));
        let y = cnt(s3.ec(m), a);
        assert(y == (if kcovered_upto(dvs, dvs.len() as int, m, a, x) { 0 } else { x }));
        if kcovered_by(other.defs(), m, a, x) {
            let k = choose|k: VClock<A>| #[trigger] other.defs().contains_key(k) && other.defs()[k]@.contains(m) && cnt(k@, a) >= x;
            let i = choose|i: int| 0 <= i < dvs.len() && (#[trigger] dvs[i]).0 == k;
            assert(dvs[i].1@.contains(m) && cnt(dvs[i].0@, a) >= x);
            assert(y == 0);
        } else {
            if kcovered_upto(dvs, dvs.len() as int, m, a, x) {
                let j = choose|j: int| 0 <= j < dvs.len() && (#[trigger] dvs[j]).1@.contains(m) && cnt(dvs[j].0@, a) >= x;
                assert(other.defs().contains_key(dvs[j].0) && other.defs()[dvs[j].0]@.contains(m));
                assert(false);
            }
            assert(y == x);
            if kcovered_by(old_.defs(), m, a, x) {
                let k = choose|k: VClock<A>| #[trigger] old_.defs().contains_key(k) && old_.defs()[k]@.contains(m) && cnt(k@, a) >= x;
                assert(s3.defs().contains_key(k));
                assert(s3.dm(k).contains(m)) by { assert(old_.dm(k).contains(m)); }
                assert(s4.defs().contains_key(k) && s4.defs()[k]@.contains(m) && cnt(k@, a) >= y);
            } else {
                if kcovered_by(s4.defs(), m, a, y) {
                    let k = choose|k: VClock<A>| #[trigger] s4.defs().contains_key(k) && s4.defs()[k]@.contains(m) && cnt(k@, a) >= y;
                    assert(s3.dm(k).contains(m));
                    if old_.dm(k).contains(m) {
                        assert(old_.defs().contains_key(k) && old_.defs()[k]@.contains(m));
                    } else {
                        assert(other.dm(k).contains(m));
                        assert(other.defs().contains_key(k) && other.defs()[k]@.contains(m));
                    }
                    assert(false);
                }
            }
        }
    }
    assert forall|k: VClock<A>| #![trigger fin.defs().contains_key(k)] fin.defs().contains_key(k) <==> ((old_.defs().contains_key(k) || other.defs().contains_key(k)) && !vle(k@, fin.cl())) by {
        if fin.defs().contains_key(k) {
            assert(s3.defs().contains_key(k));
            if !old_.defs().contains_key(k) {
                let j = choose|j: int| 0 <= j < dvs.len() && (#[trigger] dvs[j]).0 == k && !vle(k@, s3.cl());
                assert(other.defs().contains_key(dvs[j].0));
            }
        }
        if (old_.defs().contains_key(k) || other.defs().contains_key(k)) && !vle(k@, fin.cl()) {
            if !old_.defs().contains_key(k) {
                let i = choose|i: int| 0 <= i < dvs.len() && (#[trigger] dvs[i]).0 == k;
                assert(!vle(k@, old_.cl()));
                assert(0 <= i < dvs.len() && dvs[i].0 == k && !vle(k@, s3.cl()));
            }
            assert(s3.defs().contains_key(k));
        }
    }
    assert forall|k: VClock<A>| #![trigger fin.defs()[k]] fin.defs().contains_key(k) implies fin.defs()[k]@ == old_.dm(k).union(other.dm(k)) by {
        assert(s4.defs().contains_key(k) && !vle(k@, jc));
        assert(!vle(k@, old_.cl()));
        assert(fin.defs()[k]@ == s3.dm(k));
        if other.defs().contains_key(k) {
            let i = choose|i: int| 0 <= i < dvs.len() && (#[trigger] dvs[i]).0 == k;
            assert(0 <= i < dvs.len() && dvs[i].0 == k && !vle(k@, s3.cl()));
        } else {
            assert(other.dm(k) == SSet::<K>::empty());
            assert(old_.dm(k).union(SSet::<K>::empty()) =~= old_.dm(k));
            if exists|j: int| 0 <= j < dvs.len() && (#[trigger] dvs[j]).0 == k && !vle(k@, s3.cl()) {
                let j = choose|j: int| 0 <= j < dvs.len() && (#[trigger] dvs[j]).0 == k && !vle(k@, s3.cl());
                assert(other.defs().contains_key(dvs[j].0));
            }
        }
    }
}

proof fn lemma_mmerge_pass1<K: Ord, V: Val<A>, A: Ord + Hash>(old_: Map<K, V, A>, other: Map<K, V, A>, s1: Map<K, V, A>)
    requires
        old_.wf(), other.wf(), s1.clock@ == old_.clock@, s1.deferred@ == old_.deferred@,
        forall|k: K| #[trigger] s1.entries@.contains_key(k) ==> old_.entries@.contains_key(k) && mkeep1((k, old_.entries@[k]), Some((k, s1.entries@[k])), other.entries@.contains_key(k), other.clock@),
        forall|k: K| #[trigger] old_.entries@.contains_key(k) && !s1.entries@.contains_key(k) ==> mkeep1((k, old_.entries@[k]), None, other.entries@.contains_key(k), other.clock@),
    ensures
        s1.wf(), s1.cl() == old_.cl(), s1.defs() == old_.defs(),
        forall|m: K, a: A| #![trigger cnt(s1.ec(m), a)] cnt(s1.ec(m), a) == (if other.has(m) { cnt(old_.ec(m), a) } else { mrg(cnt(old_.ec(m), a), 0, cnt(old_.cl(), a), cnt(other.cl(), a)) }),
        pass1_frame(old_, other, s1),
        forall|m: K| #[trigger] s1.has(m) ==> old_.has(m),
        forall|m: K| !other.has(m) && #[trigger] s1.has(m) ==> exists|c: VClock<A>| c@ == vsub(other.cl(), s1.ec(m)) && #[trigger] V::rr_post(&old_.val(m), &c, &s1.val(m)),
{
    let oc = other.clock@;
    assert forall|m: K| s1.entries@.contains_key(m) implies nz(#[trigger] s1.entries@[m].clock@) && s1.entries@[m].clock@ != SMap::<A, u64>::empty() && s1.entries@[m].val.cm_inv() by {
        assert(old_.entries@.contains_key(m));
        let e = old_.entries@[m].clock@;
        assert(nz(e) && e != SMap::<A, u64>::empty());
        if !other.entries@.contains_key(m) {
            assert(!vle(e, oc));
            c10_vsub_nz(e, oc);
            let a = choose|a: A| !(cnt(e, a) <= cnt(oc, a));
            assert(vsub(e, oc).contains_key(a));
        }
    }
    assert forall|m: K, a: A| #![trigger cnt(s1.ec(m), a)] cnt(s1.ec(m), a) == (if other.has(m) { cnt(old_.ec(m), a) } else { mrg(cnt(old_.ec(m), a), 0, cnt(old_.cl(), a), cnt(oc, a)) }) by {
        let e = old_.ec(m);
        if old_.entries@.contains_key(m) {
            assert(nz(old_.entries@[m].clock@));
            if s1.entries@.contains_key(m) {
                if !other.entries@.contains_key(m) { lemma_cnt_vsub(e, oc, a); }
            } else {
                assert(mkeep1((m, old_.entries@[m]), None::<(K, Entry<V, A>)>, other.entries@.contains_key(m), oc));
                assert(!other.entries@.contains_key(m) && vle(e, oc));
                assert(cnt(e, a) <= cnt(oc, a));
            }
        } else {
            assert(!s1.entries@.contains_key(m));
        }
    }
    assert forall|m: K| other.has(m) implies #[trigger] s1.ec(m) == old_.ec(m) && s1.has(m) == old_.has(m) && (s1.has(m) ==> s1.val(m) == old_.val(m)) by {
        if old_.entries@.contains_key(m) {
            if !s1.entries@.contains_key(m) { assert(mkeep1((m, old_.entries@[m]), None::<(K, Entry<V, A>)>, true, oc)); }
        }
    }
    assert forall|m: K| !other.has(m) && #[trigger] s1.has(m) implies exists|c: VClock<A>| c@ == vsub(other.cl(), s1.ec(m)) && #[trigger] V::rr_post(&old_.val(m), &c, &s1.val(m)) by {
        assert(mkeep1((m, old_.entries@[m]), Some((m, s1.entries@[m])), false, oc));
        let c = choose|c: VClock<A>| c@ == vsub(oc, s1.entries@[m].clock@) && #[trigger] V::rr_post(&old_.entries@[m].val, &c, &s1.entries@[m].val);
        assert(c@ == vsub(other.cl(), s1.ec(m)) && V::rr_post(&old_.val(m), &c, &s1.val(m)));
    }
}

proof fn lemma_mmerge_pass2_step<K: Ord, V: Val<A> + CvRDT, A: Ord + Hash>(old_: Map<K, V, A>, other: Map<K, V, A>, s1: Map<K, V, A>, pre: Map<K, V, A>, post: Map<K, V, A>, ovs: Seq<(K, Entry<V, A>)>, idx: int, w_m1: Option<V>, w_c: Option<VClock<A>>, w_j: SMap<A, u64>)
    requires
        0 <= idx < ovs.len(), pre.wf(), old_.wf(), other.wf(), s1.wf(),
        forall|i: int| 0 <= i < ovs.len() ==> other.entries@.contains_key((#[trigger] ovs[i]).0) && other.entries@[ovs[i].0] == ovs[i].1,
        forall|i: int, j: int| 0 <= i < j < ovs.len() ==> (#[trigger] ovs[i]).0 != (#[trigger] ovs[j]).0,
        pass1_frame(old_, other, s1),
        forall|m: K, a: A| #![trigger cnt(pre.ec(m), a)] cnt(pre.ec(m), a) == (
            if exists|j: int| 0 <= j < idx && (#[trigger] ovs[j]).0 == m { mrg(cnt(old_.ec(m), a), cnt(other.ec(m), a), cnt(old_.cl(), a), cnt(other.cl(), a)) }
            else { cnt(s1.ec(m), a) }),
        forall|m: K| #[trigger] pre.has(m) == (pre.ec(m) != SMap::<A, u64>::empty()),
        forall|m: K| !(exists|j: int| 0 <= j < idx && (#[trigger] ovs[j]).0 == m) && #[trigger] pre.has(m) ==> s1.has(m) && pre.val(m) == s1.val(m),
        forall|m: K| (exists|j: int| 0 <= j < idx && (#[trigger] ovs[j]).0 == m) && #[trigger] pre.has(m) ==> merge_val_post(old_, other, pre, m),
        post.clock@ == pre.clock@, post.deferred@ == pre.deferred@, pre.clock@ == old_.clock@,
        forall|m: K| #![trigger post.entries@.contains_key(m)] m != ovs[idx].0 ==> (post.entries@.contains_key(m) == pre.entries@.contains_key(m) && (post.entries@.contains_key(m) ==> post.entries@[m] == pre.entries@[m])),
        forall|a: A| #[trigger] cnt(post.ec(ovs[idx].0), a) == mrg(cnt(pre.ec(ovs[idx].0), a), cnt(ovs[idx].1.clock@, a), cnt(old_.cl(), a), cnt(other.cl(), a)),
        post.entries@.contains_key(ovs[idx].0) ==> nz(post.entries@[ovs[idx].0].clock@) && post.entries@[ovs[idx].0].clock@ != SMap::<A, u64>::empty() && post.entries@[ovs[idx].0].val.cm_inv(),
        // value of the visited key, if it survives: the intermediate value / clocks of the loop body are passed as ghost witnesses
        // (w_m1: the merged value, w_c: the clock the value was reset with, w_j: the join of the two entry clocks), so that the
        // solver does not have to find them again at the join point of the branches
        post.entries@.contains_key(ovs[idx].0) ==> (
            if pre.entries@.contains_key(ovs[idx].0) {
                w_m1 is Some && w_c is Some && V::cv_post(&pre.entries@[ovs[idx].0].val, &ovs[idx].1.val, &w_m1->0) && is_join(w_j, ovs[idx].1.clock@, pre.entries@[ovs[idx].0].clock@)
                    && w_c->0@ == vsub(w_j, post.entries@[ovs[idx].0].clock@) && V::rr_post(&w_m1->0, &w_c->0, &post.entries@[ovs[idx].0].val)
            } else {
                w_c is Some && w_c->0@ == vsub(old_.cl(), post.entries@[ovs[idx].0].clock@) && V::rr_post(&ovs[idx].1.val, &w_c->0, &post.entries@[ovs[idx].0].val)
            }),
    ensures
        post.wf(),
        forall|m: K, a: A| #![trigger cnt(post.ec(m), a)] cnt(post.ec(m), a) == (
            if exists|j: int| 0 <= j < idx + 1 && (#[trigger] ovs[j]).0 == m { mrg(cnt(old_.ec(m), a), cnt(other.ec(m), a), cnt(old_.cl(), a), cnt(other.cl(), a)) }
            else { cnt(s1.ec(m), a) }),
        forall|m: K| #[trigger] post.has(m) == (post.ec(m) != SMap::<A, u64>::empty()),
        forall|m: K| !(exists|j: int| 0 <= j < idx + 1 && (#[trigger] ovs[j]).0 == m) && #[trigger] post.has(m) ==> s1.has(m) && post.val(m) == s1.val(m),
        forall|m: K| (exists|j: int| 0 <= j < idx + 1 && (#[trigger] ovs[j]).0 == m) && #[trigger] post.has(m) ==> merge_val_post(old_, other, post, m),
{
    let me = ovs[idx].0;
    assert(other.entries@.contains_key(me) && other.entries@[me] == ovs[idx].1);
    // not visited before: keys are distinct
    assert(!(exists|j: int| 0 <= j < idx && (#[trigger] ovs[j]).0 == me)) by {
        if exists|j: int| 0 <= j < idx && (#[trigger] ovs[j]).0 == me {
            let j = choose|j: int| 0 <= j < idx && (#[trigger] ovs[j]).0 == me;
            assert(ovs[j].0 != ovs[idx].0);
        }
    }
    assert forall|m: K| m != me implies #[trigger] post.ec(m) == pre.ec(m) && post.has(m) == pre.has(m) && (post.has(m) ==> post.val(m) == pre.val(m)) by {
        assert(post.entries@.contains_key(m) == pre.entries@.contains_key(m));
    }
    assert forall|m: K, a: A| #![trigger cnt(post.ec(m), a)] cnt(post.ec(m), a) == (
            if exists|j: int| 0 <= j < idx + 1 && (#[trigger] ovs[j]).0 == m { mrg(cnt(old_.ec(m), a), cnt(other.ec(m), a), cnt(old_.cl(), a), cnt(other.cl(), a)) }
            else { cnt(s1.ec(m), a) }) by {
        if m == me {
            assert(0 <= idx < idx + 1 && ovs[idx].0 == m);
            assert(cnt(pre.ec(m), a) == cnt(s1.ec(m), a));
            assert(s1.ec(m) == old_.ec(m));
            assert(other.ec(m) == ovs[idx].1.clock@);
        } else {
            assert(post.ec(m) == pre.ec(m));
            if exists|j: int| 0 <= j < idx + 1 && (#[trigger] ovs[j]).0 == m {
                let j = choose|j: int| 0 <= j < idx + 1 && (#[trigger] ovs[j]).0 == m;
                assert(j < idx);
            }
        }
    }
    assert forall|m: K| post.entries@.contains_key(m) implies nz(#[trigger] post.entries@[m].clock@) && post.entries@[m].clock@ != SMap::<A, u64>::empty() && post.entries@[m].val.cm_inv() by {
        if m != me { assert(pre.entries@.contains_key(m)); assert(post.entries@[m] == pre.entries@[m]); }
    }
    assert forall|m: K| #[trigger] post.has(m) == (post.ec(m) != SMap::<A, u64>::empty()) by {
        if m != me { assert(post.has(m) == pre.has(m) && post.ec(m) == pre.ec(m)); }
    }
    assert forall|m: K| !(exists|j: int| 0 <= j < idx + 1 && (#[trigger] ovs[j]).0 == m) && #[trigger] post.has(m) implies s1.has(m) && post.val(m) == s1.val(m) by {
        if m == me { assert(0 <= idx < idx + 1 && ovs[idx].0 == m); }
        else {
            if exists|j: int| 0 <= j < idx && (#[trigger] ovs[j]).0 == m { let j = choose|j: int| 0 <= j < idx && (#[trigger] ovs[j]).0 == m; assert(0 <= j < idx + 1 && ovs[j].0 == m); }
        }
    }
    assert forall|m: K| (exists|j: int| 0 <= j < idx + 1 && (#[trigger] ovs[j]).0 == m) && #[trigger] post.has(m) implies merge_val_post(old_, other, post, m) by {
        if m == me {
            assert(other.has(m) && other.val(m) == ovs[idx].1.val && other.ec(m) == ovs[idx].1.clock@);
            assert(pre.has(m) == s1.has(m)) by { if pre.has(m) { } else { assert(pre.ec(m) == SMap::<A, u64>::empty()); assert forall|a: A| cnt(s1.ec(m), a) == 0 by { assert(cnt(pre.ec(m), a) == cnt(s1.ec(m), a)); } if s1.has(m) { assert(s1.entries@.contains_key(m)); lemma_s1_nonempty(s1, m); } } }
            assert(other.has(m));
            assert(s1.ec(m) == old_.ec(m));
            assert(s1.has(m) == old_.has(m));
            if pre.entries@.contains_key(m) {
                assert(pre.has(m));
                assert(s1.has(m) && pre.val(m) == s1.val(m));
                assert(pre.val(m) == s1.val(m) && s1.val(m) == old_.val(m));
                assert(old_.has(m));
                // pre.ec(m) == old.ec(m) as maps
                assert(pre.ec(m) == old_.ec(m)) by {
                    assert forall|a: A| cnt(pre.ec(m), a) == cnt(old_.ec(m), a) by { assert(cnt(pre.ec(m), a) == cnt(s1.ec(m), a)); }
                    pre.lemma_wf(); old_.lemma_wf();
                    lemma_cnt_ext(pre.ec(m), old_.ec(m));
                }
                let (m1, c, j) = (w_m1->0, w_c->0, w_j);
                assert(V::cv_post(&old_.val(m), &other.val(m), &m1) && is_join(j, other.ec(m), old_.ec(m)) && c@ == vsub(j, post.ec(m)) && V::rr_post(&m1, &c, &post.val(m)));
            } else {
                assert(!pre.has(m));
                assert(!old_.has(m));
                let c = w_c->0;
                assert(c@ == vsub(old_.cl(), post.ec(m)) && V::rr_post(&other.val(m), &c, &post.val(m)));
            }
        } else {
            let j = choose|j: int| 0 <= j < idx + 1 && (#[trigger] ovs[j]).0 == m;
            assert(j < idx);
            assert(merge_val_post(old_, other, pre, m));
            assert(post.ec(m) == pre.ec(m) && post.val(m) == pre.val(m));
        }
    }
}

proof fn lemma_s1_nonempty<K: Ord, V: Val<A>, A: Ord + Hash>(s: Map<K, V, A>, m: K)
    requires s.wf(), s.has(m), forall|a: A| cnt(s.ec(m), a) == 0,
    ensures false,
{
    s.lemma_wf();
    let e = s.ec(m);
    assert(e != SMap::<A, u64>::empty());
    assert(e =~= SMap::<A, u64>::empty()) by {
        assert forall|a: A| !e.contains_key(a) by { if e.contains_key(a) { assert(e[a] > 0); assert(cnt(e, a) == 0); } }
    }
}

proof fn lemma_mmerge_pass2_done<K: Ord, V: Val<A> + CvRDT, A: Ord + Hash>(old_: Map<K, V, A>, other: Map<K, V, A>, s1: Map<K, V, A>, s2: Map<K, V, A>, ovs: Seq<(K, Entry<V, A>)>)
    requires
        forall|k: K| other.entries@.contains_key(k) ==> exists|i: int| 0 <= i < ovs.len() && (#[trigger] ovs[i]).0 == k,
        forall|i: int| 0 <= i < ovs.len() ==> other.entries@.contains_key((#[trigger] ovs[i]).0),
        forall|m: K, a: A| #![trigger cnt(s1.ec(m), a)] cnt(s1.ec(m), a) == (if other.has(m) { cnt(old_.ec(m), a) } else { mrg(cnt(old_.ec(m), a), 0, cnt(old_.cl(), a), cnt(other.cl(), a)) }),
        forall|m: K| #[trigger] s1.has(m) ==> old_.has(m),
        forall|m: K| !other.has(m) && #[trigger] s1.has(m) ==> exists|c: VClock<A>| c@ == vsub(other.cl(), s1.ec(m)) && #[trigger] V::rr_post(&old_.val(m), &c, &s1.val(m)),
        forall|m: K, a: A| #![trigger cnt(s2.ec(m), a)] cnt(s2.ec(m), a) == (
            if exists|j: int| 0 <= j < ovs.len() && (#[trigger] ovs[j]).0 == m { mrg(cnt(old_.ec(m), a), cnt(other.ec(m), a), cnt(old_.cl(), a), cnt(other.cl(), a)) }
            else { cnt(s1.ec(m), a) }),
        forall|m: K| !(exists|j: int| 0 <= j < ovs.len() && (#[trigger] ovs[j]).0 == m) && #[trigger] s2.has(m) ==> s1.has(m) && s2.val(m) == s1.val(m),
        forall|m: K| (exists|j: int| 0 <= j < ovs.len() && (#[trigger] ovs[j]).0 == m) && #[trigger] s2.has(m) ==> merge_val_post(old_, other, s2, m),
        s1.wf(), s2.wf(), old_.wf(),
    ensures
        forall|m: K, a: A| #![trigger cnt(s2.ec(m), a)] cnt(s2.ec(m), a) == mrg(cnt(old_.ec(m), a), cnt(other.ec(m), a), cnt(old_.cl(), a), cnt(other.cl(), a)),
        forall|m: K| #[trigger] s2.has(m) ==> merge_val_post(old_, other, s2, m) && (old_.has(m) || other.has(m)),
{
    other.lemma_wf();
    assert forall|m: K, a: A| #![trigger cnt(s2.ec(m), a)] cnt(s2.ec(m), a) == mrg(cnt(old_.ec(m), a), cnt(other.ec(m), a), cnt(old_.cl(), a), cnt(other.cl(), a)) by {
        if other.has(m) {
            let i = choose|i: int| 0 <= i < ovs.len() && (#[trigger] ovs[i]).0 == m;
        } else {
            assert(!(exists|j: int| 0 <= j < ovs.len() && (#[trigger] ovs[j]).0 == m));
            assert(cnt(s2.ec(m), a) == cnt(s1.ec(m), a));
            assert(other.ec(m) == SMap::<A, u64>::empty());
        }
    }
    assert forall|m: K| #[trigger] s2.has(m) implies merge_val_post(old_, other, s2, m) && (old_.has(m) || other.has(m)) by {
        if exists|j: int| 0 <= j < ovs.len() && (#[trigger] ovs[j]).0 == m {
            let j = choose|j: int| 0 <= j < ovs.len() && (#[trigger] ovs[j]).0 == m;
            assert(other.has(m));
        } else {
            assert(!other.has(m));
            assert(s1.has(m) && s2.val(m) == s1.val(m) && old_.has(m));
            assert(s2.ec(m) == s1.ec(m)) by {
                assert forall|a: A| cnt(s2.ec(m), a) == cnt(s1.ec(m), a) by {}
                s1.lemma_wf(); s2.lemma_wf();
                lemma_cnt_ext(s2.ec(m), s1.ec(m));
            }
        }
    }
}

proof fn lemma_s4_wf<K: Ord, V: Val<A>, A: Ord + Hash>(s3: Map<K, V, A>, s4: Map<K, V, A>)
    requires s3.wf(), s4.entries@ == s3.entries@, s4.deferred@ == s3.deferred@, nz(s4.clock@),
    ensures s4.wf(),
{}

proof fn lemma_mmerge_vals_finish<K: Ord, V: Val<A> + CvRDT, A: Ord + Hash>(old_: Map<K, V, A>, other: Map<K, V, A>, s2: Map<K, V, A>, s3: Map<K, V, A>, s4: Map<K, V, A>, fin: Map<K, V, A>, dvs: Seq<(VClock<A>, BTreeSet<K>)>)
    requires
        s2.wf(), fin.wf(), s4.entries@ == s3.entries@, s4.deferred@ == s3.deferred@,
        forall|i: int| 0 <= i < dvs.len() ==> other.defs().contains_key((#[trigger] dvs[i]).0) && other.defs()[dvs[i].0] == dvs[i].1,
        forall|m: K| #[trigger] s2.has(m) ==> merge_val_post(old_, other, s2, m) && (old_.has(m) || other.has(m)),
        forall|m: K, a: A| #![trigger cnt(s2.ec(m), a)] cnt(s2.ec(m), a) == mrg(cnt(old_.ec(m), a), cnt(other.ec(m), a), cnt(old_.cl(), a), cnt(other.cl(), a)),
        forall|m: K| #[trigger] s3.has(m) == (s2.has(m) && s3.ec(m) != SMap::<A, u64>::empty()),
        forall|m: K| !knamed_upto(dvs, dvs.len() as int, m) && #[trigger] s3.has(m) ==> s3.val(m) == s2.val(m),
        forall|k: VClock<A>| #![trigger s3.dm(k)] s3.dm(k) == old_.dm(k).union(if exists|j: int| 0 <= j < dvs.len() && (#[trigger] dvs[j]).0 == k && !vle(k@, s3.cl()) { other.dm(k) } else { SSet::<K>::empty() }),
        deferred_post(s4, fin),
        // key layer of the final state (from lemma_merge_finish)
        forall|m: K, a: A| #![trigger cnt(fin.ec(m), a)] cnt(fin.ec(m), a) == ({
            let x = mrg(cnt(old_.ec(m), a), cnt(other.ec(m), a), cnt(old_.cl(), a), cnt(other.cl(), a));
            if kcovered_by(old_.defs(), m, a, x) || kcovered_by(other.defs(), m, a, x) { 0 } else { x } }),
    ensures
        forall|k: K| #[trigger] fin.has(k) == ((old_.has(k) || other.has(k)) && fin.ec(k) != SMap::<A, u64>::empty()),
        forall|k: K| !named_by(old_.defs(), k) && !named_by(other.defs(), k) && #[trigger] fin.has(k) ==> merge_val_post(old_, other, fin, k),
{
    fin.lemma_wf(); s2.lemma_wf();
    assert forall|k: K| #[trigger] fin.has(k) == ((old_.has(k) || other.has(k)) && fin.ec(k) != SMap::<A, u64>::empty()) by {
        assert(fin.has(k) == (s4.has(k) && fin.ec(k) != SMap::<A, u64>::empty()));
        assert(s4.has(k) == s3.has(k));
        if fin.ec(k) != SMap::<A, u64>::empty() && (old_.has(k) || other.has(k)) {
            // some counter of fin.ec(k) is non-zero, hence the same counter of s2.ec(k), s3.ec(k) is
            let a = choose|a: A| fin.ec(k).contains_key(a);
            assert(fin.ec(k).dom().len() > 0 || fin.ec(k) =~= SMap::<A, u64>::empty());
            lemma_nonempty_has_key(fin.ec(k));
            let a = choose|a: A| fin.ec(k).contains_key(a);
            assert(cnt(fin.ec(k), a) > 0) by { if fin.has(k) { } else { } lemma_ec_nz(fin, k); }
            assert(cnt(s2.ec(k), a) > 0);
            assert(s2.has(k)) by { if !s2.has(k) { assert(s2.ec(k) == SMap::<A, u64>::empty()); } }
            assert(s4.ec(k) == s3.ec(k));
            assert(cnt(fin.ec(k), a) == (if kcovered_by(s4.defs(), k, a, cnt(s4.ec(k), a)) { 0 } else { cnt(s4.ec(k), a) }));
            assert(cnt(s3.ec(k), a) > 0);
            assert(s3.ec(k) != SMap::<A, u64>::empty());
        }
        if fin.has(k) { assert(s3.has(k) && s2.has(k)); }
    }
    assert forall|k: K| !named_by(old_.defs(), k) && !named_by(other.defs(), k) && #[trigger] fin.has(k) implies merge_val_post(old_, other, fin, k) by {
        assert(fin.has(k) == (s4.has(k) && fin.ec(k) != SMap::<A, u64>::empty()));
        assert(s4.has(k) == s3.has(k));
        assert(s4.has(k));
        assert(s3.has(k) == (s2.has(k) && s3.ec(k) != SMap::<A, u64>::empty()));
        assert(s2.has(k));
        // not named by other's pending removes: untouched in pass 3
        assert(!knamed_upto(dvs, dvs.len() as int, k)) by {
            if knamed_upto(dvs, dvs.len() as int, k) {
                let j = choose|j: int| 0 <= j < dvs.len() && (#[trigger] dvs[j]).1@.contains(k);
                assert(other.defs().contains_key(dvs[j].0) && other.defs()[dvs[j].0]@.contains(k));
            }
        }
        assert(s3.val(k) == s2.val(k));
        assert(s4.val(k) == s3.val(k));
        // not named by any pending remove of the merged table: untouched by apply_deferred
        assert(!named_by(s4.defs(), k)) by {
            if named_by(s4.defs(), k) {
                let c = choose|c: VClock<A>| #[trigger] s4.defs().contains_key(c) && s4.defs()[c]@.contains(k);
                assert(s3.dm(c).contains(k));
                if old_.dm(c).contains(k) { assert(old_.defs().contains_key(c) && old_.defs()[c]@.contains(k)); }
                else { assert(other.dm(c).contains(k)); assert(other.defs().contains_key(c) && other.defs()[c]@.contains(k)); }
            }
        }
        assert(fin.val(k) == s4.val(k));
        // and the entry clock is the one pass 2 computed
        assert(fin.ec(k) == s2.ec(k)) by {
            assert forall|a: A| cnt(fin.ec(k), a) == cnt(s2.ec(k), a) by {
                let x = mrg(cnt(old_.ec(k), a), cnt(other.ec(k), a), cnt(old_.cl(), a), cnt(other.cl(), a));
                assert(cnt(s2.ec(k), a) == x);
                if kcovered_by(old_.defs(), k, a, x) { let c = choose|c: VClock<A>| #[trigger] old_.defs().contains_key(c) && old_.defs()[c]@.contains(k) && cnt(c@, a) >= x; assert(named_by(old_.defs(), k)); }
                if kcovered_by(other.defs(), k, a, x) { let c = choose|c: VClock<A>| #[trigger] other.defs().contains_key(c) && other.defs()[c]@.contains(k) && cnt(c@, a) >= x; assert(named_by(other.defs(), k)); }
            }
            lemma_ec_nz(fin, k); lemma_ec_nz(s2, k);
            lemma_cnt_ext(fin.ec(k), s2.ec(k));
        }
        assert(merge_val_post(old_, other, s2, k));
    }
}

proof fn lemma_nonempty_has_key<A>(m: SMap<A, u64>)
    requires m != SMap::<A, u64>::empty(),
    ensures exists|a: A| m.contains_key(a),
{
    if !(exists|a: A| m.contains_key(a)) { assert(m =~= SMap::<A, u64>::empty()); }
}
proof fn lemma_ec_nz<K: Ord, V: Val<A>, A: Ord + Hash>(s: Map<K, V, A>, k: K)
    requires s.wf(),
    ensures nz(s.ec(k)),
{
    s.lemma_wf();
    if !s.has(k) { assert(s.ec(k) == SMap::<A, u64>::empty()); }
}

pub proof fn lemma_map_len0<K, T>(m: SMap<K, T>)
    ensures (m.len() == 0) <==> (forall|k: K| !m.contains_key(k)), m.is_empty() <==> (forall|k: K| !m.contains_key(k)),
{
    if m.is_empty() { assert forall|k: K| !m.contains_key(k) by { assert(!m.dom().contains(k)); } }
    if m.len() == 0 { m.dom().lemma_len0_is_empty(); assert forall|k: K| !m.contains_key(k) by { assert(!m.dom().contains(k)); } }
    if forall|k: K| !m.contains_key(k) { assert(m.dom() =~= SSet::<K>::empty()); }
}

spec fn kcovered_upto<K: Ord, A: Ord>(vs: Seq<(VClock<A>, BTreeSet<K>)>, idx: int, m: K, a: A, n: u64) -> bool {
    exists|j: int| 0 <= j < idx && (#[trigger] vs[j]).1@.contains(m) && cnt(vs[j].0@, a) >= n
}
spec fn knamed_upto<K: Ord, A: Ord>(vs: Seq<(VClock<A>, BTreeSet<K>)>, idx: int, m: K) -> bool {
    exists|j: int| 0 <= j < idx && (#[trigger] vs[j]).1@.contains(m)
}
proof fn lemma_apply_deferred_step<K: Ord, V: Val<A>, A: Ord + Hash>(old_: Map<K, V, A>, pre: Map<K, V, A>, post: Map<K, V, A>, vs: Seq<(VClock<A>, BTreeSet<K>)>, idx: int)
    requires
        0 <= idx < vs.len(), pre.wf(), post.wf(), post.cl() == pre.cl(),
        forall|i: int, j: int| 0 <= i < j < vs.len() ==> (#[trigger] vs[i]).0 != (#[trigger] vs[j]).0,
        forall|m: K, a: A| #![trigger cnt(pre.ec(m), a)] cnt(pre.ec(m), a) == (if kcovered_upto(vs, idx, m, a, cnt(old_.ec(m), a)) { 0 } else { cnt(old_.ec(m), a) }),
        forall|k: VClock<A>| #![trigger pre.defs().contains_key(k)] pre.defs().contains_key(k) <==> (exists|j: int| 0 <= j < idx && (#[trigger] vs[j]).0 == k && !vle(k@, pre.cl())),
        forall|j: int| 0 <= j < idx && pre.defs().contains_key((#[trigger] vs[j]).0) ==> pre.defs()[vs[j].0]@ == vs[j].1@,
        // what apply_rm(vs[idx].1, vs[idx].0) guarantees
        forall|m: K| #[trigger] post.ec(m) == (if vs[idx].1@.contains(m) { vsub(pre.ec(m), vs[idx].0@) } else { pre.ec(m) }),
        post.defs() == (if vle(vs[idx].0@, pre.cl()) { pre.defs() } else { pre.defs().insert(vs[idx].0, post.defs()[vs[idx].0]) }),
        !vle(vs[idx].0@, pre.cl()) ==> post.defs().contains_key(vs[idx].0) && post.defs()[vs[idx].0]@ == pre.dm(vs[idx].0).union(vs[idx].1@),
    ensures
        forall|m: K, a: A| #![trigger cnt(post.ec(m), a)] cnt(post.ec(m), a) == (if kcovered_upto(vs, idx + 1, m, a, cnt(old_.ec(m), a)) { 0 } else { cnt(old_.ec(m), a) }),
        forall|k: VClock<A>| #![trigger post.defs().contains_key(k)] post.defs().contains_key(k) <==> (exists|j: int| 0 <= j < idx + 1 && (#[trigger] vs[j]).0 == k && !vle(k@, post.cl())),
        forall|j: int| 0 <= j < idx + 1 && post.defs().contains_key((#[trigger] vs[j]).0) ==> post.defs()[vs[j].0]@ == vs[j].1@,
{
    let kc = vs[idx].0;
    let ks = vs[idx].1@;
    assert forall|m: K, a: A| #![trigger cnt(post.ec(m), a)] cnt(post.ec(m), a) == (if kcovered_upto(vs, idx + 1, m, a, cnt(old_.ec(m), a)) { 0 } else { cnt(old_.ec(m), a) }) by {
        let n = cnt(old_.ec(m), a);
        assert(cnt(pre.ec(m), a) == (if kcovered_upto(vs, idx, m, a, n) { 0 } else { n }));
        assert(post.ec(m) == (if ks.contains(m) { vsub(pre.ec(m), kc@) } else { pre.ec(m) }));
        if kcovered_upto(vs, idx, m, a, n) {
            let j = choose|j: int| 0 <= j < idx && (#[trigger] vs[j]).1@.contains(m) && cnt(vs[j].0@, a) >= n;
            assert(0 <= j < idx + 1 && vs[j].1@.contains(m) && cnt(vs[j].0@, a) >= n);
        }
        if ks.contains(m) && cnt(kc@, a) >= n {
            assert(0 <= idx < idx + 1 && vs[idx].1@.contains(m) && cnt(vs[idx].0@, a) >= n);
        }
        if kcovered_upto(vs, idx + 1, m, a, n) && !kcovered_upto(vs, idx, m, a, n) {
            let j = choose|j: int| 0 <= j < idx + 1 && (#[trigger] vs[j]).1@.contains(m) && cnt(vs[j].0@, a) >= n;
            assert(j == idx);
        }
    }
    // the key of this step was not pending before (keys are pairwise distinct)
    assert(!pre.defs().contains_key(kc)) by {
        if pre.defs().contains_key(kc) {
            let j = choose|j: int| 0 <= j < idx && (#[trigger] vs[j]).0 == kc && !vle(kc@, pre.cl());
            assert(vs[j].0 != vs[idx].0);
        }
    }
    assert forall|k: VClock<A>| #![trigger post.defs().contains_key(k)] post.defs().contains_key(k) <==> (exists|j: int| 0 <= j < idx + 1 && (#[trigger] vs[j]).0 == k && !vle(k@, post.cl())) by {
        if post.defs().contains_key(k) {
            if k == kc && !vle(kc@, pre.cl()) {
                assert(0 <= idx < idx + 1 && vs[idx].0 == k && !vle(k@, post.cl()));
            } else {
                assert(pre.defs().contains_key(k));
                let j = choose|j: int| 0 <= j < idx && (#[trigger] vs[j]).0 == k && !vle(k@, pre.cl());
                assert(0 <= j < idx + 1 && vs[j].0 == k && !vle(k@, post.cl()));
            }
        }
        if exists|j: int| 0 <= j < idx + 1 && (#[trigger] vs[j]).0 == k && !vle(k@, post.cl()) {
            let j = choose|j: int| 0 <= j < idx + 1 && (#[trigger] vs[j]).0 == k && !vle(k@, post.cl());
            if j < idx { assert(pre.defs().contains_key(k)); } else { assert(k == kc); }
        }
    }
    assert forall|j: int| 0 <= j < idx + 1 && post.defs().contains_key((#[trigger] vs[j]).0) implies post.defs()[vs[j].0]@ == vs[j].1@ by {
        if j == idx {
            assert(pre.dm(kc) =~= SSet::<K>::empty());
            assert(pre.dm(kc).union(ks) =~= ks);
        } else {
            assert(vs[j].0 != vs[idx].0);
            assert(pre.defs().contains_key(vs[j].0));
        }
    }
}

proof fn lemma_apply_deferred_done<K: Ord, V: Val<A>, A: Ord + Hash>(old_: Map<K, V, A>, post: Map<K, V, A>, vs: Seq<(VClock<A>, BTreeSet<K>)>)
    requires
        post.cl() == old_.cl(),
        forall|i: int| 0 <= i < vs.len() ==> old_.defs().contains_key((#[trigger] vs[i]).0) && old_.defs()[vs[i].0] == vs[i].1,
        forall|k: VClock<A>| old_.defs().contains_key(k) ==> exists|i: int| 0 <= i < vs.len() && (#[trigger] vs[i]).0 == k,
        forall|m: K, a: A| #![trigger cnt(post.ec(m), a)] cnt(post.ec(m), a) == (if kcovered_upto(vs, vs.len() as int, m, a, cnt(old_.ec(m), a)) { 0 } else { cnt(old_.ec(m), a) }),
        forall|k: VClock<A>| #![trigger post.defs().contains_key(k)] post.defs().contains_key(k) <==> (exists|j: int| 0 <= j < vs.len() && (#[trigger] vs[j]).0 == k && !vle(k@, post.cl())),
        forall|j: int| 0 <= j < vs.len() && post.defs().contains_key((#[trigger] vs[j]).0) ==> post.defs()[vs[j].0]@ == vs[j].1@,
    ensures
        forall|m: K, a: A| #![trigger cnt(post.ec(m), a)] cnt(post.ec(m), a) == (if kcovered_by(old_.defs(), m, a, cnt(old_.ec(m), a)) { 0 } else { cnt(old_.ec(m), a) }),
        forall|k: VClock<A>| #![trigger post.defs().contains_key(k)] post.defs().contains_key(k) <==> (old_.defs().contains_key(k) && !vle(k@, old_.cl())),
        forall|k: VClock<A>| #![trigger post.defs()[k]] post.defs().contains_key(k) ==> post.defs()[k]@ == old_.defs()[k]@,
{
    let d = old_.defs();
    assert forall|m: K, a: A| #![trigger cnt(post.ec(m), a)] cnt(post.ec(m), a) == (if kcovered_by(d, m, a, cnt(old_.ec(m), a)) { 0 } else { cnt(old_.ec(m), a) }) by {
        let n = cnt(old_.ec(m), a);
        if kcovered_by(d, m, a, n) {
            let k = choose|k: VClock<A>| #[trigger] d.contains_key(k) && d[k]@.contains(m) && cnt(k@, a) >= n;
            let i = choose|i: int| 0 <= i < vs.len() && (#[trigger] vs[i]).0 == k;
            assert(vs[i].1@.contains(m) && cnt(vs[i].0@, a) >= n);
        }
        if kcovered_upto(vs, vs.len() as int, m, a, n) {
            let j = choose|j: int| 0 <= j < vs.len() && (#[trigger] vs[j]).1@.contains(m) && cnt(vs[j].0@, a) >= n;
            assert(d.contains_key(vs[j].0) && d[vs[j].0]@.contains(m));
        }
    }
    assert forall|k: VClock<A>| #![trigger post.defs().contains_key(k)] post.defs().contains_key(k) <==> (d.contains_key(k) && !vle(k@, old_.cl())) by {
        if post.defs().contains_key(k) {
            let j = choose|j: int| 0 <= j < vs.len() && (#[trigger] vs[j]).0 == k && !vle(k@, post.cl());
            assert(d.contains_key(vs[j].0));
        }
        if d.contains_key(k) && !vle(k@, old_.cl()) {
            let i = choose|i: int| 0 <= i < vs.len() && (#[trigger] vs[i]).0 == k;
            assert(0 <= i < vs.len() && vs[i].0 == k && !vle(k@, post.cl()));
        }
    }
    assert forall|k: VClock<A>| #![trigger post.defs()[k]] post.defs().contains_key(k) implies post.defs()[k]@ == d[k]@ by {
        let j = choose|j: int| 0 <= j < vs.len() && (#[trigger] vs[j]).0 == k && !vle(k@, post.cl());
        assert(post.defs().contains_key(vs[j].0));
        assert(d[vs[j].0] == vs[j].1);
    }
}

proof fn lemma_deferred_vals_step<K: Ord, V: Val<A>, A: Ord + Hash>(old_: Map<K, V, A>, pre: Map<K, V, A>, post: Map<K, V, A>, vs: Seq<(VClock<A>, BTreeSet<K>)>, idx: int)
    requires
        0 <= idx < vs.len(),
        forall|m: K| #[trigger] pre.has(m) == (old_.has(m) && pre.ec(m) != SMap::<A, u64>::empty()),
        forall|m: K| !knamed_upto(vs, idx, m) && #[trigger] pre.has(m) ==> pre.val(m) == old_.val(m),
        forall|m: K| #[trigger] post.has(m) == (pre.has(m) && post.ec(m) != SMap::<A, u64>::empty()),
        forall|m: K| !vs[idx].1@.contains(m) && #[trigger] post.has(m) ==> post.val(m) == pre.val(m),
        forall|m: K| !pre.has(m) ==> #[trigger] pre.ec(m) == SMap::<A, u64>::empty(),
        forall|m: K| #[trigger] post.ec(m) == (if vs[idx].1@.contains(m) { vsub(pre.ec(m), vs[idx].0@) } else { pre.ec(m) }),
    ensures
        forall|m: K| #[trigger] post.has(m) == (old_.has(m) && post.ec(m) != SMap::<A, u64>::empty()),
        forall|m: K| !knamed_upto(vs, idx + 1, m) && #[trigger] post.has(m) ==> post.val(m) == old_.val(m),
{
    assert forall|m: K| #[trigger] post.has(m) == (old_.has(m) && post.ec(m) != SMap::<A, u64>::empty()) by {
        if !pre.has(m) { assert(pre.ec(m) == SMap::<A, u64>::empty()); assert(vsub(SMap::<A, u64>::empty(), vs[idx].0@) =~= SMap::<A, u64>::empty()); }
    }
    assert forall|m: K| !knamed_upto(vs, idx + 1, m) && #[trigger] post.has(m) implies post.val(m) == old_.val(m) by {
        if vs[idx].1@.contains(m) { assert(0 <= idx < idx + 1 && vs[idx].1@.contains(m)); }
        if knamed_upto(vs, idx, m) { let j = choose|j: int| 0 <= j < idx && (#[trigger] vs[j]).1@.contains(m); assert(0 <= j < idx + 1 && vs[j].1@.contains(m)); }
    }
}
proof fn lemma_deferred_vals_done<K: Ord, V: Val<A>, A: Ord + Hash>(old_: Map<K, V, A>, post: Map<K, V, A>, vs: Seq<(VClock<A>, BTreeSet<K>)>)
    requires
        forall|i: int| 0 <= i < vs.len() ==> old_.defs().contains_key((#[trigger] vs[i]).0) && old_.defs()[vs[i].0] == vs[i].1,
        forall|m: K| !knamed_upto(vs, vs.len() as int, m) && #[trigger] post.has(m) ==> post.val(m) == old_.val(m),
    ensures forall|m: K| !named_by(old_.defs(), m) && #[trigger] post.has(m) ==> post.val(m) == old_.val(m),
{
    assert forall|m: K| !named_by(old_.defs(), m) && #[trigger] post.has(m) implies post.val(m) == old_.val(m) by {
        if knamed_upto(vs, vs.len() as int, m) {
            let j = choose|j: int| 0 <= j < vs.len() && (#[trigger] vs[j]).1@.contains(m);
            assert(old_.defs().contains_key(vs[j].0) && old_.defs()[vs[j].0]@.contains(m));
        }
    }
}

} // verus!
}
pub use crate::map::Map;
