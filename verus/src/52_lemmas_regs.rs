// Layer L for LWWReg / MaxReg / MinReg / GSet: the state is determined by the set of writes learned.
pub mod lemmas_regs {
use vstd::prelude::*;
use vstd::set::Set as SSet;
use core::cmp::Ordering;
use vstd::std_specs::cmp::{PartialEqSpec, PartialOrdSpec, OrdSpec};
use crate::spec::*;
use crate::lwwreg::{LWWReg, lww_update, lww_conflict};
use crate::maxreg::max_update;
use crate::minreg::min_update;
verus! {

// ---- MaxReg / MinReg ---------------------------------------------------------------------------
/// cur is a largest element of the learned set h (h contains the initial value)
pub open spec fn is_max_val<V: Ord>(cur: V, h: SSet<V>) -> bool {
    h.contains(cur) && forall|v: V| #[trigger] h.contains(v) ==> !gt(v, cur)
}
pub open spec fn is_min_val<V: Ord>(cur: V, h: SSet<V>) -> bool {
    h.contains(cur) && forall|v: V| #[trigger] h.contains(v) ==> !lt(v, cur)
}

pub proof fn c11_maxreg_apply<V: Ord>(cur: V, h: SSet<V>, v: V)
    requires ord_ok::<V>(), is_max_val(cur, h),
    ensures is_max_val(max_update(cur, v), h.insert(v)),
{
    lemma_ord_ok::<V>();
    let n = max_update(cur, v);
    assert forall|w: V| #[trigger] h.insert(v).contains(w) implies !gt(w, n) by {
        if w == v {
            if gt(v, cur) { assert(v.cmp_spec(&v) == Ordering::Equal || !v.eq_spec(&v)); assert(lt(v, v) <==> gt(v, v)); }
        } else {
            assert(h.contains(w));
            if gt(v, cur) && gt(w, v) { assert(gt(w, cur)); }
        }
    }
}
/// two maxima of the same learned set are equivalent under the order (equal for a total order on values)
pub proof fn c11_maxreg_unique<V: Ord>(c1: V, c2: V, h: SSet<V>)
    requires ord_ok::<V>(), is_max_val(c1, h), is_max_val(c2, h),
    ensures eqv(c1, c2),
{
    lemma_ord_ok::<V>();
    assert(!gt(c1, c2) && !gt(c2, c1));
    assert(lt(c1, c2) <==> gt(c2, c1));
}
pub proof fn c11_minreg_apply<V: Ord>(cur: V, h: SSet<V>, v: V)
    requires ord_ok::<V>(), is_min_val(cur, h),
    ensures is_min_val(min_update(cur, v), h.insert(v)),
{
    lemma_ord_ok::<V>();
    let n = min_update(cur, v);
    assert forall|w: V| #[trigger] h.insert(v).contains(w) implies !lt(w, n) by {
        if w == v {
            if lt(v, cur) { assert(lt(v, v) <==> gt(v, v)); }
        } else {
            assert(h.contains(w));
            if lt(v, cur) && lt(w, v) { assert(lt(w, cur)); }
        }
    }
}
pub proof fn c11_minreg_unique<V: Ord>(c1: V, c2: V, h: SSet<V>)
    requires ord_ok::<V>(), is_min_val(c1, h), is_min_val(c2, h),
    ensures eqv(c1, c2),
{
    lemma_ord_ok::<V>();
    assert(!lt(c1, c2) && !lt(c2, c1));
    assert(lt(c2, c1) <==> gt(c1, c2));
}

// ---- LWWReg ------------------------------------------------------------------------------------
/// cur is a write of the learned set h carrying a greatest marker
pub open spec fn is_lww<V, M: Ord>(cur: LWWReg<V, M>, h: SSet<(V, M)>) -> bool {
    h.contains((cur.val, cur.marker)) && forall|v: V, m: M| #[trigger] h.contains((v, m)) ==> !gt(m, cur.marker)
}
/// "unique markers": writes with equivalent markers are the same write
pub open spec fn markers_unique<V, M: Ord>(h: SSet<(V, M)>) -> bool {
    forall|v1: V, m1: M, v2: V, m2: M| #[trigger] h.contains((v1, m1)) && #[trigger] h.contains((v2, m2)) && eqv(m1, m2) ==> v1 == v2 && m1 == m2
}

pub proof fn c11_lww_apply<V, M: Ord>(cur: LWWReg<V, M>, h: SSet<(V, M)>, v: V, m: M)
    requires ord_ok::<M>(), is_lww(cur, h),
    ensures is_lww(lww_update(cur, v, m), h.insert((v, m))),
{
    lemma_ord_ok::<M>();
    let n = lww_update(cur, v, m);
    let h2 = h.insert((v, m));
    assert forall|w: V, k: M| #[trigger] h2.contains((w, k)) implies !gt(k, n.marker) by {
        assert(lt(cur.marker, m) <==> gt(m, cur.marker));
        if (w, k) == (v, m) {
            assert(lt(m, m) <==> gt(m, m));
        } else {
            assert(h.contains((w, k)));
            if lt(cur.marker, m) && gt(k, m) { assert(gt(k, cur.marker)); }
        }
    }
}
/// with unique markers the register content is a function of the learned set: any delivery
/// order, duplication or merge pattern ends in the same (value, marker)
pub proof fn c11_lww_unique<V, M: Ord>(c1: LWWReg<V, M>, c2: LWWReg<V, M>, h: SSet<(V, M)>)
    requires ord_ok::<M>(), is_lww(c1, h), is_lww(c2, h), markers_unique(h),
    ensures c1.val == c2.val, c1.marker == c2.marker,
{
    lemma_ord_ok::<M>();
    assert(!gt(c1.marker, c2.marker) && !gt(c2.marker, c1.marker));
    assert(lt(c1.marker, c2.marker) <==> gt(c2.marker, c1.marker));
    assert(eqv(c1.marker, c2.marker));
    assert(h.contains((c1.val, c1.marker)) && h.contains((c2.val, c2.marker)));
}
/// the conflict verdict: raised exactly for an equal marker carrying a different value, so under
/// unique markers (correct use) it is never raised for a write of the learned set
pub proof fn c16_lww_validate<V: PartialEq, M: Ord>(cur: LWWReg<V, M>, h: SSet<(V, M)>, v: V, m: M)
    requires ord_ok::<M>(), V::obeys_eq_spec(), forall|x: V| #[trigger] x.eq_spec(&x),
             is_lww(cur, h), markers_unique(h.insert((v, m))),
    ensures !lww_conflict(cur, v, m),
{
    lemma_ord_ok::<M>();
    let h2 = h.insert((v, m));
    if eqv(cur.marker, m) {
        assert(h2.contains((cur.val, cur.marker)) && h2.contains((v, m)));
        assert(cur.val == v);
    }
}

} // verus!
}
