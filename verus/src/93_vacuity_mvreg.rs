// Vacuity twins for the MVReg contracts and lemmas: every function here MUST FAIL.
pub mod vacuity {
use vstd::prelude::*;
use vstd::map::Map as SMap;
use vstd::set::Set as SSet;
use crate::spec::*;
use crate::vclock::VClock;
use crate::mvreg::*;
use crate::lemmas_mvreg::*;
verus! {
pub proof fn vac_wf<V, A: Ord>(r: MVReg<V, A>) requires actor_ok::<A>(), r.wf(), r.vs().len() >= 2 ensures false {}
pub proof fn vac_seq_wf<V, A: Ord>(s: Seq<(VClock<A>, V)>) requires seq_wf(s), s.len() >= 2 ensures false {}
pub proof fn vac_repr<V, A: Ord>(s: Seq<(VClock<A>, V)>, h: SSet<W<V, A>>, c: VClock<A>) requires repr(s, h), h_ok(h), nz(c@), c@ != SMap::<A, u64>::empty(), s.len() >= 2, h.len() >= 3 ensures false {}
pub proof fn vac_repr2<V, A: Ord>(s: Seq<(VClock<A>, V)>, o: Seq<(VClock<A>, V)>, h1: SSet<W<V, A>>, h2: SSet<W<V, A>>) requires repr(s, h1), repr(o, h2), h_ok(h1), h_ok(h2), s.len() >= 1, o.len() >= 1 ensures false {}
pub proof fn vac_join<V, A: Ord>(s: Seq<(VClock<A>, V)>, m: SMap<A, u64>) requires is_clocks_join(s, m), nz(m), s.len() >= 1 ensures false {}
pub proof fn vac_rr<V, A: Ord>(s: Seq<(VClock<A>, V)>, c: SMap<A, u64>, r: Seq<(VClock<A>, V)>) requires rr_rel(s, c, r), r.len() >= 1 ensures false {}
}
}
