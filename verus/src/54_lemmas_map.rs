// Instance lemmas: the usage hypotheses Map places on its value type (val_ok / cval_ok) hold for the crate's own
// nestable types, so the generic Map contracts apply to Map<K, MVReg>, Map<K, Orswot>, Map<K, Map<..>> at every depth.
pub mod lemmas_map {
use vstd::prelude::*;
use vstd::map::Map as SMap;
use std::hash::Hash;
use crate::spec::*;
use crate::stdx3::*;
use crate::vclock::VClock;
use crate::mvreg::MVReg;
use crate::orswot::{Orswot, base_ok};
use crate::map::{Map, Val, val_ok, cval_ok, mbase_ok};
use crate::{CmRDT, CvRDT, ResetRemove};
verus! {

pub proof fn lemma_val_ok_mvreg<V: Clone, A: Ord + Clone>()
    requires actor_ok::<A>(), clone_ok::<MVReg<V, A>>(),
    ensures val_ok::<MVReg<V, A>, A>(), cval_ok::<MVReg<V, A>, A>(),
{
    assert forall|v: MVReg<V, A>| #[trigger] MVReg::<V, A>::default.ensures((), v) implies v.cm_inv() by {}
}

pub proof fn lemma_val_ok_orswot<M: Hash + Eq + Clone, A: Ord + Hash + Clone>()
    requires base_ok::<M, A>(), clone_ok::<A>(), clone_ok::<Orswot<M, A>>(),
    ensures val_ok::<Orswot<M, A>, A>(), cval_ok::<Orswot<M, A>, A>(),
{
    assert forall|v: Orswot<M, A>| #[trigger] Orswot::<M, A>::default.ensures((), v) implies v.cm_inv() by {}
}

/// nesting: a Map whose values are fine is itself a fine value
pub proof fn lemma_val_ok_map<K: Ord + Clone, V: Val<A> + CvRDT, A: Ord + Hash + Clone>()
    requires mbase_ok::<K, V, A>(), cval_ok::<V, A>(), clone_ok::<A>(), clone_ok::<Map<K, V, A>>(),
    ensures val_ok::<Map<K, V, A>, A>(),
{
    assert forall|v: Map<K, V, A>| #[trigger] Map::<K, V, A>::default.ensures((), v) implies v.cm_inv() by {}
}

} // verus!
}
