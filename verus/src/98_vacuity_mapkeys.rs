// Vacuity twins for the Map key-layer denotation: every function here MUST FAIL.
pub mod vacuity {
use vstd::prelude::*;
use vstd::map::Map as SMap;
use std::hash::Hash;
use crate::spec::*;
use crate::vclock::VClock;
use crate::map::{Map, Val, Op, apply_post_map, merge_post_map, keyset_rm_post};
use crate::lemmas_orswot::{Know, compat, cov};
use crate::lemmas_mapkeys::*;
use crate::CvRDT;
verus! {
pub proof fn vac_krepr<K: Ord, V: Val<A>, A: Ord + Hash>(s: Map<K, V, A>, k: Know<K, A>, m: K, m2: K, a: A, b: A, c: SMap<A, u64>)
    requires actor_ok::<A>(), krepr(s, k), a != b, m != m2, k.adds.contains((a, 1, m)), k.adds.contains((a, 2, m)), k.adds.contains((b, 1, m2)), k.rms.contains((c, m)), cnt(c, a) == 1, cnt(s.ec(m), a) == 2, cnt(s.ec(m2), b) == 1, s.has(m), s.has(m2)
    ensures false {}
pub proof fn vac_kpending<K: Ord, V: Val<A>, A: Ord + Hash>(s: Map<K, V, A>, k: Know<K, A>, m: K, a: A, c: SMap<A, u64>)
    requires actor_ok::<A>(), krepr(s, k), k.rms.contains((c, m)), !vle(c, s.cl()), kpending(s, c, m), cnt(s.cl(), a) == 3
    ensures false {}
pub proof fn vac_kmerge<K: Ord, V: Val<A> + CvRDT, A: Ord + Hash>(s1: Map<K, V, A>, k1: Know<K, A>, s2: Map<K, V, A>, k2: Know<K, A>, s3: Map<K, V, A>, m: K, a: A)
    requires actor_ok::<A>(), krepr(s1, k1), krepr(s2, k2), compat(k1, s1.cl(), k2, s2.cl()), s3.wf(), merge_post_map(s1, s2, s3), cnt(s3.ec(m), a) == 2, cnt(s1.ec(m), a) == 2, cnt(s2.ec(m), a) == 0, cnt(s2.cl(), a) == 1
    ensures false {}
pub proof fn vac_kapply<K: Ord, V: Val<A>, A: Ord + Hash>(s: Map<K, V, A>, k: Know<K, A>, op: Op<K, V, A>, s2: Map<K, V, A>)
    requires actor_ok::<A>(), krepr(s, k), s2.wf(), op is Up, apply_post_map(s, op, s2), op->dot.counter == cnt(s.cl(), op->dot.actor) + 1, cnt(s.cl(), op->dot.actor) == 4, cnt(s2.ec(op->key), op->dot.actor) == 5
    ensures false {}
pub proof fn vac_krm<K: Ord, V: Val<A>, A: Ord + Hash>(s: Map<K, V, A>, k: Know<K, A>, ks: Set<K>, clock: VClock<A>, s2: Map<K, V, A>, m: K, a: A)
    requires actor_ok::<A>(), krepr(s, k), s2.wf(), nz(clock@), keyset_rm_post(s, ks, clock, s2), ks.contains(m), cnt(s.ec(m), a) == 2, cnt(clock@, a) == 1, !vle(clock@, s.cl()), s2.has(m)
    ensures false {}
}
}
