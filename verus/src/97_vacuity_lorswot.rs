// Vacuity twins for the Orswot Layer-L denotation: every function here MUST FAIL.
pub mod vacuity {
use vstd::prelude::*;
use vstd::map::Map as SMap;
use std::hash::Hash;
use crate::spec::*;
use crate::vclock::VClock;
use crate::orswot::*;
use crate::lemmas_orswot::*;
verus! {
pub proof fn vac_repr<M: Hash + Eq, A: Ord + Hash>(s: Orswot<M, A>, k: Know<M, A>, m: M, m2: M, a: A, b: A, c: SMap<A, u64>)
    requires actor_ok::<A>(), repr(s, k), a != b, m != m2, k.adds.contains((a, 1, m)), k.adds.contains((a, 2, m)), k.adds.contains((b, 1, m2)), k.rms.contains((c, m)), cnt(c, a) == 1, cnt(s.ec(m), a) == 2, cnt(s.ec(m2), b) == 1
    ensures false {}
pub proof fn vac_repr_pending<M: Hash + Eq, A: Ord + Hash>(s: Orswot<M, A>, k: Know<M, A>, m: M, a: A, c: SMap<A, u64>)
    requires actor_ok::<A>(), repr(s, k), k.rms.contains((c, m)), !vle(c, s.cl()), pending(s, c, m), cnt(s.cl(), a) == 3
    ensures false {}
pub proof fn vac_compat<M: Hash + Eq, A: Ord + Hash>(s1: Orswot<M, A>, k1: Know<M, A>, s2: Orswot<M, A>, k2: Know<M, A>, m: M, a: A, b: A)
    requires actor_ok::<A>(), repr(s1, k1), repr(s2, k2), compat(k1, s1.cl(), k2, s2.cl()), a != b,
        k1.adds.contains((a, 2, m)), !k2.adds.contains((a, 2, m)), k2.adds.contains((b, 1, m)), !k1.adds.contains((b, 1, m)), cnt(s1.ec(m), a) == 2, cnt(s2.ec(m), b) == 1, cnt(s2.cl(), a) == 1
    ensures false {}
pub proof fn vac_merge<M: Hash + Eq, A: Ord + Hash>(s1: Orswot<M, A>, k1: Know<M, A>, s2: Orswot<M, A>, k2: Know<M, A>, s3: Orswot<M, A>, m: M, a: A)
    requires actor_ok::<A>(), repr(s1, k1), repr(s2, k2), compat(k1, s1.cl(), k2, s2.cl()), s3.wf(), merge_post(s1, s2, s3), cnt(s3.ec(m), a) == 2, cnt(s1.ec(m), a) == 2, cnt(s2.ec(m), a) == 0, cnt(s2.cl(), a) == 1
    ensures false {}
pub proof fn vac_apply<M: Hash + Eq, A: Ord + Hash>(s: Orswot<M, A>, k: Know<M, A>, op: Op<M, A>, s2: Orswot<M, A>, m: M)
    requires actor_ok::<A>(), repr(s, k), s2.wf(), op is Add, apply_post(s, op, s2), op->Add_dot.counter == cnt(s.cl(), op->Add_dot.actor) + 1, op->Add_members@.contains(m), cnt(s.cl(), op->Add_dot.actor) == 4, cnt(s2.ec(m), op->Add_dot.actor) == 5
    ensures false {}
}
}
