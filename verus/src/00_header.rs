// Generated unit: Verus view of the crdts crate.  Everything between "---- extracted" markers is
// the token text of the current /repo sources (see tools/weave.py); the rest is specification.
#![feature(allocator_api)]
#![allow(unused_imports, dead_code, unused_variables, unused_mut, unused_parens, non_snake_case, unused_braces)]
use vstd::prelude::*;

pub use crate::traits::{Actor, CmRDT, CvRDT, ResetRemove};
