pub mod dot {
use vstd::prelude::*;
use std::cmp::{Ordering, PartialOrd};
use std::hash::{Hash, Hasher};
use vstd::std_specs::cmp::{PartialEqSpecImpl, PartialOrdSpecImpl, PartialEqSpec, PartialOrdSpec, OrdSpec};
verus! {

//@extract struct src/dot.rs Dot
pub struct Dot<A> {
    pub actor: A,
    pub counter: u64,
}
//@end

// #[derive(Clone)] on Dot: field-wise clone (assumed derive semantics).
impl<A: Clone> Clone for Dot<A> {
    #[verifier::external_body]
    fn clone(&self) -> (r: Self)
        ensures cloned(self.actor, r.actor), r.counter == self.counter,
    {
        Dot { actor: self.actor.clone(), counter: self.counter }
    }
}
impl<A: Copy> Copy for Dot<A> {}

impl<A> Dot<A> {
//@extract fn src/dot.rs "Dot" new
    pub fn new(actor: A, counter: u64) -> /*@ (r: @*/ Self /*@ ) @*/
    //@ ensures r.actor == actor, r.counter == counter,
    {
        Self { actor, counter }
    }
//@end

//@extract fn src/dot.rs "Dot" apply_inc
    pub fn apply_inc(&mut self)
    //@ requires old(self).counter < u64::MAX,
    //@ ensures final(self).counter == old(self).counter + 1, final(self).actor == old(self).actor,
    {
        self.counter += 1;
    }
//@end
}

impl<A: Clone> Dot<A> {
//@extract fn src/dot.rs "Dot" inc
    pub fn inc(&self) -> /*@ (r: @*/ Self /*@ ) @*/
    //@ requires self.counter < u64::MAX,
    //@ ensures cloned(self.actor, r.actor), r.counter == self.counter + 1,
    {
        Self {
            actor: self.actor.clone(),
            counter: self.counter + 1,
        }
    }
//@end
}

impl<A: PartialEq> PartialEqSpecImpl for Dot<A> {
    open spec fn obeys_eq_spec() -> bool { A::obeys_eq_spec() }
    open spec fn eq_spec(&self, other: &Self) -> bool {
        self.actor.eq_spec(&other.actor) && self.counter == other.counter
    }
}

impl<A: PartialEq> PartialEq for Dot<A> {
//@extract fn src/dot.rs "PartialEq for Dot" eq
    fn eq(&self, other: &Self) -> bool {
        self.actor == other.actor && self.counter == other.counter
    }
//@end
}

impl<A: Eq> Eq for Dot<A> {}

/// Property C10/dot: dots of different actors are incomparable, dots of one actor are ordered
/// by counter.
pub open spec fn dot_pcmp<A: PartialEq>(x: Dot<A>, y: Dot<A>) -> Option<Ordering> {
    if x.actor.eq_spec(&y.actor) {
        if x.counter < y.counter { Some(Ordering::Less) }
        else if x.counter == y.counter { Some(Ordering::Equal) }
        else { Some(Ordering::Greater) }
    } else { None }
}

impl<A: PartialOrd> PartialOrdSpecImpl for Dot<A> {
    open spec fn obeys_partial_cmp_spec() -> bool { A::obeys_eq_spec() }
    open spec fn partial_cmp_spec(&self, other: &Self) -> Option<Ordering> { dot_pcmp(*self, *other) }
}

impl<A: PartialOrd> PartialOrd for Dot<A> {
//@extract fn src/dot.rs "PartialOrd for Dot" partial_cmp
    fn partial_cmp(&self, other: &Self) -> Option<Ordering> {
        if self.actor == other.actor {
            self.counter.partial_cmp(&other.counter)
        } else {
            None
        }
    }
//@end
}

impl<A> vstd::std_specs::convert::FromSpecImpl<(A, u64)> for Dot<A> {
    open spec fn obeys_from_spec() -> bool { true }
    open spec fn from_spec(v: (A, u64)) -> Self { Dot { actor: v.0, counter: v.1 } }
}
impl<A> From<(A, u64)> for Dot<A> {
//@extract fn src/dot.rs "From<(A,u64)> for Dot<A>" from
    fn from(dot_material: (A, u64)) -> /*@ (r: @*/ Self /*@ ) @*/
    //@ ensures r.actor == dot_material.0, r.counter == dot_material.1,
    {
        let (actor, counter) = dot_material;
        Self { actor, counter }
    }
//@end
}

//@extract struct src/dot.rs OrdDot
pub struct OrdDot<A: Ord> {
    pub actor: A,
    pub counter: u64,
}
//@end

// assumed semantics of #[derive(Clone, PartialEq, Eq, PartialOrd, Ord)] on OrdDot: field-wise clone / equality,
// lexicographic order (actor first, then counter)
impl<A: Ord + Clone> Clone for OrdDot<A> {
    #[verifier::external_body]
    fn clone(&self) -> (r: Self) ensures cloned(self.actor, r.actor), r.counter == self.counter { OrdDot { actor: self.actor.clone(), counter: self.counter } }
}
pub open spec fn orddot_cmp<A: Ord>(x: OrdDot<A>, y: OrdDot<A>) -> Ordering {
    match x.actor.cmp_spec(&y.actor) {
        Ordering::Equal => if x.counter < y.counter { Ordering::Less } else if x.counter == y.counter { Ordering::Equal } else { Ordering::Greater },
        o => o,
    }
}
impl<A: Ord> PartialEqSpecImpl for OrdDot<A> {
    open spec fn obeys_eq_spec() -> bool { vstd::laws_cmp::obeys_cmp::<A>() }
    open spec fn eq_spec(&self, other: &Self) -> bool { orddot_cmp(*self, *other) == Ordering::Equal }
}
impl<A: Ord> PartialEq for OrdDot<A> { #[verifier::external_body] fn eq(&self, other: &Self) -> bool { self.actor == other.actor && self.counter == other.counter } }
impl<A: Ord> Eq for OrdDot<A> {}
impl<A: Ord> PartialOrdSpecImpl for OrdDot<A> {
    open spec fn obeys_partial_cmp_spec() -> bool { vstd::laws_cmp::obeys_cmp::<A>() }
    open spec fn partial_cmp_spec(&self, other: &Self) -> Option<Ordering> { Some(orddot_cmp(*self, *other)) }
}
impl<A: Ord> PartialOrd for OrdDot<A> { #[verifier::external_body] fn partial_cmp(&self, other: &Self) -> Option<Ordering> { Some(self.cmp(other)) } }
impl<A: Ord> vstd::std_specs::cmp::OrdSpecImpl for OrdDot<A> {
    open spec fn obeys_cmp_spec() -> bool { vstd::laws_cmp::obeys_cmp::<A>() }
    open spec fn cmp_spec(&self, other: &Self) -> Ordering { orddot_cmp(*self, *other) }
}
impl<A: Ord> Ord for OrdDot<A> { #[verifier::external_body] fn cmp(&self, other: &Self) -> Ordering { (&self.actor, self.counter).cmp(&(&other.actor, other.counter)) } }

impl<A: Ord> vstd::std_specs::convert::FromSpecImpl<OrdDot<A>> for Dot<A> {
    open spec fn obeys_from_spec() -> bool { true }
    open spec fn from_spec(v: OrdDot<A>) -> Self { Dot { actor: v.actor, counter: v.counter } }
}
impl<A: Ord> From<OrdDot<A>> for Dot<A> {
//@extract fn src/dot.rs "From<OrdDot<A>> for Dot<A>" from
    fn from( /*@<*/ OrdDot { actor, counter } /*@>*/ /*@ od @*/ : OrdDot<A>) -> /*@ (r: @*/ Self /*@ ) @*/
    //@ ensures r.actor == od.actor, r.counter == od.counter,
    {
        //@ let OrdDot { actor, counter } = od;
        Self { actor, counter }
    }
//@end
}

impl<A: Ord> vstd::std_specs::convert::FromSpecImpl<Dot<A>> for OrdDot<A> {
    open spec fn obeys_from_spec() -> bool { true }
    open spec fn from_spec(v: Dot<A>) -> Self { OrdDot { actor: v.actor, counter: v.counter } }
}
impl<A: Ord> From<Dot<A>> for OrdDot<A> {
//@extract fn src/dot.rs "From<Dot<A>> for OrdDot<A>" from
    fn from( /*@<*/ Dot { actor, counter } /*@>*/ /*@ d @*/ : Dot<A>) -> /*@ (r: @*/ Self /*@ ) @*/
    //@ ensures r.actor == d.actor, r.counter == d.counter,
    {
        //@ let Dot { actor, counter } = d;
        Self { actor, counter }
    }
//@end
}

//@extract struct src/dot.rs DotRange
pub struct DotRange<A> {
    pub actor: A,
    pub counter_range: core::ops::Range<u64>,
}
//@end

} // verus!
}
pub use crate::dot::{Dot, DotRange, OrdDot};
