pub mod traits {
use vstd::prelude::*;
use std::hash::Hash;
use crate::VClock;
verus! {

// The crate's traits, with the specification interface every implementation has to provide
// (an invariant, an extra precondition for the mutator) woven in.  `type Validation: Error`
// loses its `Error` bound (Display/Debug/Error impls are not part of the unit).
pub trait Actor: Ord + Clone + Hash {}
impl<A: Ord + Clone + Hash> Actor for A {}

pub trait CvRDT: Sized {
    type Validation;
    spec fn cv_inv(&self) -> bool;
    spec fn cv_pre(&self, other: &Self) -> bool;
    /// the exact effect of `merge` (each implementation's own postcondition), so that generic code (Map) can state
    /// what happened to a nested value
    spec fn cv_post(old_: &Self, other: &Self, new_: &Self) -> bool;

    /// hypotheses on type parameters under which the verdict of validate_merge is exact
    spec fn cv_vhyp() -> bool;
    /// C17: what validate_merge flags
    spec fn cv_flag(&self, other: &Self) -> bool;

    fn validate_merge(&self, other: &Self) -> (r: Result<(), Self::Validation>)
        requires self.cv_inv(), other.cv_inv(),
        ensures Self::cv_vhyp() ==> (r is Err <==> self.cv_flag(other));

    fn merge(&mut self, other: Self)
        requires old(self).cv_inv(), other.cv_inv(), old(self).cv_pre(&other),
        ensures final(self).cv_inv(), Self::cv_post(old(self), &other, final(self));
}

pub trait CmRDT {
    type Op;
    type Validation;
    spec fn cm_inv(&self) -> bool;
    spec fn cm_pre(&self, op: &Self::Op) -> bool;
    spec fn cm_post(old_: &Self, op: &Self::Op, new_: &Self) -> bool;

    /// extra precondition of validate_op (hypotheses on type parameters that the invariant cannot carry)
    spec fn cm_vpre(&self, op: &Self::Op) -> bool;

    /// hypotheses on type parameters under which the verdict of validate_op is exact
    spec fn cm_vhyp() -> bool;
    /// C16: what validate_op rejects
    spec fn cm_vflag(&self, op: &Self::Op) -> bool;

    fn validate_op(&self, op: &Self::Op) -> (r: Result<(), Self::Validation>)
        requires self.cm_inv(), self.cm_vpre(op),
        ensures Self::cm_vhyp() ==> (r is Err <==> self.cm_vflag(op));

    fn apply(&mut self, op: Self::Op)
        requires old(self).cm_inv(), old(self).cm_pre(&op),
        ensures final(self).cm_inv(), Self::cm_post(old(self), &op, final(self));
}

pub trait ResetRemove<A: Ord> {
    spec fn rr_inv(&self) -> bool;
    spec fn rr_post(old_: &Self, clock: &VClock<A>, new_: &Self) -> bool;

    fn reset_remove(&mut self, clock: &VClock<A>)
        requires old(self).rr_inv(),
        ensures final(self).rr_inv(), Self::rr_post(old(self), clock, final(self));
}

} // verus!
}
