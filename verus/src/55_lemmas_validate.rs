// Layer L for C17 (validate_merge): the verdict characterised by the F-contracts (`double_spent`, `kdouble_spent`,
// `lww_conflict`) is symmetric, and it holds exactly when some dot is the current witness of two different
// members / keys across the two states.
pub mod lemmas_validate {
use vstd::prelude::*;
use vstd::map::Map as SMap;
use std::hash::Hash;
use vstd::std_specs::cmp::PartialEqSpec;
use crate::spec::*;
use crate::orswot::{Orswot, conflict, double_spent};
use crate::map::{Map, Val, kconflict, kdouble_spent};
use crate::lwwreg::{LWWReg, lww_conflict};
verus! {

pub proof fn c17_orswot_symmetric<M: Hash + Eq, A: Ord + Hash>(s: Orswot<M, A>, o: Orswot<M, A>)
    ensures double_spent(s, o) <==> double_spent(o, s),
{
    if double_spent(s, o) { let (m, m2, a) = choose|m: M, m2: M, a: A| #[trigger] conflict(s, o, m, m2, a); assert(conflict(o, s, m2, m, a)); }
    if double_spent(o, s) { let (m, m2, a) = choose|m: M, m2: M, a: A| #[trigger] conflict(o, s, m, m2, a); assert(conflict(s, o, m2, m, a)); }
}

pub proof fn c17_map_symmetric<K: Ord, V: Val<A>, A: Ord + Hash>(s: Map<K, V, A>, o: Map<K, V, A>)
    ensures kdouble_spent(s, o) <==> kdouble_spent(o, s),
{
    if kdouble_spent(s, o) { let (m, m2, a) = choose|m: K, m2: K, a: A| #[trigger] kconflict(s, o, m, m2, a); assert(kconflict(o, s, m2, m, a)); }
    if kdouble_spent(o, s) { let (m, m2, a) = choose|m: K, m2: K, a: A| #[trigger] kconflict(o, s, m, m2, a); assert(kconflict(s, o, m2, m, a)); }
}

/// LWWReg: the conflict verdict is symmetric when value equality is (a marker reused with a different value)
pub proof fn c17_lww_symmetric<V: PartialEq, M: Ord>(x: LWWReg<V, M>, y: LWWReg<V, M>)
    requires ord_ok::<M>(), V::obeys_eq_spec(), forall|a: V, b: V| #[trigger] a.eq_spec(&b) == b.eq_spec(&a),
    ensures lww_conflict(x, y.val, y.marker) <==> lww_conflict(y, x.val, x.marker),
{
    lemma_ord_ok::<M>();
    assert(eqv(x.marker, y.marker) <==> eqv(y.marker, x.marker));
}

pub open spec fn witnesses_both<M: Hash + Eq, A: Ord + Hash>(s: Orswot<M, A>, o: Orswot<M, A>, m: M, m2: M, a: A, n: u64) -> bool {
    m != m2 && n > 0 && s.ents().contains_key(m) && o.ents().contains_key(m2) && cnt(s.ec(m), a) == n && cnt(o.ec(m2), a) == n
}
/// what "flagged" means: one dot (a, n), n > 0, witnesses member m in s and a different member m2 in o
pub proof fn c17_orswot_meaning<M: Hash + Eq, A: Ord + Hash>(s: Orswot<M, A>, o: Orswot<M, A>)
    ensures double_spent(s, o) <==> exists|m: M, m2: M, a: A, n: u64| #[trigger] witnesses_both(s, o, m, m2, a, n),
{
    if double_spent(s, o) {
        let (m, m2, a) = choose|m: M, m2: M, a: A| #[trigger] conflict(s, o, m, m2, a);
        assert(witnesses_both(s, o, m, m2, a, cnt(s.ec(m), a)));
    }
    if exists|m: M, m2: M, a: A, n: u64| #[trigger] witnesses_both(s, o, m, m2, a, n) {
        let (m, m2, a, n) = choose|m: M, m2: M, a: A, n: u64| #[trigger] witnesses_both(s, o, m, m2, a, n);
        assert(conflict(s, o, m, m2, a));
    }
}

} // verus!
}
