pub mod glist {
use vstd::prelude::*;
use core::cmp::Ordering;
use core::convert::Infallible;
use std::collections::BTreeSet;
use core::iter::FromIterator;
use vstd::std_specs::iter::IteratorSpec;
use vstd::std_specs::cmp::{PartialEqSpec, PartialOrdSpec, OrdSpec};
use crate::spec::*;
use crate::stdx5::*;
use crate::identifier::{id_cmp, id_order, node_ok, c14_antisymmetric};
use crate::lemmas_idorder::*;
use crate::{CmRDT, CvRDT, Identifier};
verus! {

//@extract enum src/glist.rs Op
pub enum Op<T> {
    Insert {
        id: Identifier<T>,
    },
}
//@end

//@extract struct src/glist.rs GList
pub struct GList<T: Ord> {
    list: BTreeSet<Identifier<T>>,
}
//@end

/// usage hypotheses on the element type of a GList
pub open spec fn glist_ok<T: Ord + Clone>() -> bool {
    node_ok::<T>() && actor_ok::<Identifier<T>>() && crate::identifier::between_ok::<T>()
}

impl<T: Ord> GList<T> {
    pub closed spec fn ls(&self) -> Set<Identifier<T>> { self.list@ }
    /// every stored identifier has a non-empty path (what `between` produces)
    pub open spec fn wf(&self) -> bool { forall|id: Identifier<T>| #[trigger] self.ls().contains(id) ==> id@.len() > 0 }
}

/// what the predecessor / successor lookups of insert_before / insert_after return
pub open spec fn pred_post<T: Ord>(ls: Set<Identifier<T>>, x: Identifier<T>, o: Option<&Identifier<T>>) -> bool {
    &&& (o is Some ==> ls.contains(*o->0) && lt(*o->0, x) && forall|y: Identifier<T>| #[trigger] ls.contains(y) && lt(y, x) ==> le(y, *o->0))
    &&& (o is None ==> forall|y: Identifier<T>| #[trigger] ls.contains(y) ==> !lt(y, x))
}
pub open spec fn succ_post<T: Ord>(ls: Set<Identifier<T>>, x: Identifier<T>, o: Option<&Identifier<T>>) -> bool {
    &&& (o is Some ==> ls.contains(*o->0) && gt(*o->0, x) && forall|y: Identifier<T>| #[trigger] ls.contains(y) && gt(y, x) ==> le(*o->0, y))
    &&& (o is None ==> forall|y: Identifier<T>| #[trigger] ls.contains(y) ==> !gt(y, x))
}

/// index of an identifier in the shown sequence
pub open spec fn at<T: Ord>(s: Seq<Identifier<T>>, id: Identifier<T>, j: int) -> bool { 0 <= j < s.len() && s[j] == id }

impl<T: Ord> Default for GList<T> {
//@extract fn src/glist.rs "Default for GList" default
    fn default() -> /*@ (r: @*/ Self /*@ ) @*/
    //@ ensures r.ls() == Set::<Identifier<T>>::empty(),
    {
        Self {
            list: Default::default(),
        }
    }
//@end
}

impl<T: Ord + Clone> GList<T> {
//@extract fn src/glist.rs "GList" new
    pub fn new() -> /*@ (r: @*/ Self /*@ ) @*/
    //@ ensures r.ls() == Set::<Identifier<T>>::empty(),
    {
        Self::default()
    }
//@end

//@extract fn src/glist.rs "GList" read
    pub fn read<'a, C: FromIterator<&'a T>>(&'a self) -> /*@ (r: @*/ C /*@ ) @*/
    //@ requires glist_ok::<T>(), self.wf(),
    //@ ensures
    //@     // C12/C13 observation: the caller's collector is handed exactly the elements, in increasing identifier order
    //@     exists|s: Seq<Identifier<T>>| #[trigger] id_order(s, self.ls()) && r == from_iter_spec::<C, &T>(s.map_values(|k: Identifier<T>| &k@.last().1)),
    {
        //@ let ghost g = |k: &Identifier<T>| &k@.last().1;
        /*@ let it0 = @*/ self.list.iter() /*@ ; let ghost ks = it0.remaining(); proof { lemma_set_keys_order(ks, self.list@); assert forall|i: int| 0 <= i < ks.len() implies (#[trigger] ks[i])@.len() > 0 by { assert(ks.unref()[i] == *ks[i]); assert(ks.unref().to_set().contains(ks.unref()[i])); assert(self.ls().contains(ks.unref()[i])); } } let r0 = shim_iter_map_collect(it0, Ghost(g), @*/ /*@<*/ .map( /*@>*/ |id /*@ : &Identifier<T> @*/ | /*@ -> (o: &T) requires id@.len() > 0 ensures o == g(id) { @*/ id.value() /*@ } @*/ /*@<*/ ).collect() /*@>*/ /*@ ); proof { let s = ks.unref(); assert(ks.map_values(g) =~= s.map_values(|k: Identifier<T>| &k@.last().1)); assert(id_order(s, self.ls())); assert(r0 == from_iter_spec::<C, &T>(s.map_values(|k: Identifier<T>| &k@.last().1))); } r0 @*/
    }
//@end

//@extract fn src/glist.rs "GList" read_into
    pub fn read_into<C: FromIterator<T>>(self) -> /*@ (r: @*/ C /*@ ) @*/
    //@ requires glist_ok::<T>(), self.wf(),
    //@ ensures
    //@     // C12/C13 observation: as `read`, handing over the owned elements
    //@     exists|s: Seq<Identifier<T>>| #[trigger] id_order(s, self.ls()) && r == from_iter_spec::<C, T>(s.map_values(|k: Identifier<T>| k@.last().1)),
    {
        //@ let ghost g = |k: Identifier<T>| k@.last().1;
        //@ let ghost ls0 = self.list@;
        //@ proof { assert forall|x: Identifier<T>| self.list@.contains(x) implies x@.len() > 0 by { assert(self.ls().contains(x)); } }
        /*@ let r0 = shim_btreeset_into_map_collect( @*/ self.list /*@<*/ .into_iter().map( /*@>*/ /*@ , Ghost(g), @*/ |id /*@ : Identifier<T> @*/ | /*@ -> (o: T) requires id@.len() > 0 ensures o == g(id) { @*/ id.into_value() /*@ } @*/ /*@<*/ ).collect() /*@>*/ /*@ ); proof { let ks = choose|ks: Seq<Identifier<T>>| #[trigger] vstd::std_specs::btree::increasing_seq(ks) && ks.to_set() == ls0 && ks.no_duplicates() && r0 == from_iter_spec::<C, T>(ks.map_values(g)); lemma_set_keys_order_owned(ks, ls0); assert(id_order(ks, self.ls())); } r0 @*/
    }
//@end

//@extract fn src/glist.rs "GList" iter
    pub fn iter(&self) -> /*@ (r: @*/ std::collections::btree_set::Iter<Identifier<T>> /*@ ) @*/
    //@ ensures
    //@     // C12/C13: the replica shows its identifiers in increasing identifier order
    //@     glist_ok::<T>() ==> id_order(r.remaining().unref(), self.ls()) && r.remaining().unref().len() == r.remaining().len() && forall|i: int| 0 <= i < r.remaining().len() ==> #[trigger] r.remaining().unref()[i] == *r.remaining()[i],
    //@     r.obeys_prophetic_iter_laws(),
    {
        //@ let v =
        self.list.iter()
        //@ ; proof { if glist_ok::<T>() { lemma_set_keys_order(v.remaining(), self.list@); } }
        //@ v
    }
//@end

//@extract fn src/glist.rs "GList" get
    pub fn get(&self, idx: usize) -> /*@ (r: @*/ Option<&Identifier<T>> /*@ ) @*/
    //@ requires glist_ok::<T>(),
    //@ ensures
    //@     // C13 observation: the idx-th identifier in identifier order
    //@     exists|s: Seq<Identifier<T>>| #[trigger] id_order(s, self.ls()) && (r is Some <==> idx < s.len()) && (r is Some ==> *r->0 == s[idx as int]),
    {
        //@ broadcast use vstd::std_specs::iter::group_iter_axioms;
        /*@ let it0 = @*/ self.list.iter() /*@ ; proof { lemma_set_keys_order(it0.remaining(), self.list@); assert(id_order(it0.remaining().unref(), self.ls())); } let r0 = shim_iter_nth(it0, idx); r0 @*/ /*@<*/ .nth(idx) /*@>*/
    }
//@end

//@extract fn src/glist.rs "GList" insert
    pub fn insert(&self, idx: usize, elem: T) -> /*@ (r: @*/ Op<T> /*@ ) @*/
    //@ requires glist_ok::<T>(), self.wf(), idx <= self.ls().len(),
    //@ ensures
    //@     // C13: the new identifier lies strictly between the (idx-1)-th and the idx-th element
    //@     r->Insert_id@.len() > 0, r->Insert_id@.last().1 == elem,
    //@     exists|s: Seq<Identifier<T>>| #[trigger] id_order(s, self.ls()) && (idx > 0 ==> idlt(s[idx - 1], r->Insert_id)) && (idx < s.len() ==> idlt(r->Insert_id, s[idx as int])),
    {
        assert!(idx <= self.len());
        //@ proof { vstd::std_specs::btree::axiom_spec_btree_set_len(&self.list); }
        match /*@ { let m0 = @*/ idx.checked_sub(1).and_then(|i /*@ : usize @*/ | /*@ -> (o: Option<&Identifier<T>>) requires glist_ok::<T>() ensures exists|s: Seq<Identifier<T>>| #[trigger] id_order(s, self.ls()) && (o is Some <==> i < s.len()) && (o is Some ==> *o->0 == s[i as int]) { @*/ self.get(i) /*@ } @*/ ) /*@ ; proof { if idx > 0 { let s1 = choose|s: Seq<Identifier<T>>| #[trigger] id_order(s, self.ls()) && (m0 is Some <==> idx - 1 < s.len()) && (m0 is Some ==> *m0->0 == s[idx - 1]); s1.unique_seq_to_set(); assert(m0 is Some); } } m0 } @*/ {
            Some(prev_idx) => /*@ { proof { let s0 = choose|s: Seq<Identifier<T>>| #[trigger] id_order(s, self.ls()) && idx - 1 < s.len() && *prev_idx == s[idx - 1]; assert(self.ls().contains(s0[idx - 1])); if idx < s0.len() { assert(self.ls().contains(s0[idx as int])); } } @*/ self.insert_after(Some(prev_idx), elem) /*@ } @*/ ,
            None => /*@ { let g = @*/ /*@<*/ self.insert_before( /*@>*/ self.get(idx) /*@ ; proof { assert(idx == 0); let s0 = choose|s: Seq<Identifier<T>>| #[trigger] id_order(s, self.ls()) && (g is Some <==> idx < s.len()) && (g is Some ==> *g->0 == s[idx as int]); if g is Some { assert(self.ls().contains(s0[0])); } } self.insert_before(g @*/ , elem) /*@ } @*/ ,
        }
    }
//@end

//@extract fn src/glist.rs "GList" insert_before
    pub fn insert_before(&self, high_id_opt: Option<&Identifier<T>>, elem: T) -> /*@ (r: @*/ Op<T> /*@ ) @*/
    //@ requires glist_ok::<T>(), self.wf(), high_id_opt is Some ==> self.ls().contains(*high_id_opt->0),
    //@ ensures
    //@     // C13: strictly below the identified element and strictly above every element that is below it
    //@     r->Insert_id@.len() > 0, r->Insert_id@.last().1 == elem,
    //@     high_id_opt is Some ==> idlt(r->Insert_id, *high_id_opt->0) && forall|y: Identifier<T>| #[trigger] self.ls().contains(y) && idlt(y, *high_id_opt->0) ==> idlt(y, r->Insert_id),
    {
        let low_id_opt = high_id_opt.and_then(|high_id /*@ : &Identifier<T> @*/ | /*@ -> (o: Option<&Identifier<T>>) requires glist_ok::<T>() ensures pred_post(self.ls(), *high_id, o) @*/ {
            /*@ shim_btreeset_pred(&self.list, high_id) @*/ /*@<*/ self.list
                .range((Unbounded, Excluded(high_id.clone())))
                .rev()
                .find(|id| id < &high_id) /*@>*/
        });
        //@ proof { if high_id_opt is Some && low_id_opt is Some { assert(self.ls().contains(*low_id_opt->0)); assert(idlt(*low_id_opt->0, *high_id_opt->0)); } }
        let id = Identifier::between(low_id_opt, high_id_opt, elem);
        //@ proof { if high_id_opt is Some { let h = *high_id_opt->0; assert forall|y: Identifier<T>| #[trigger] self.ls().contains(y) && idlt(y, h) implies idlt(y, id) by { assert(lt(y, h)); assert(low_id_opt is Some); l_le_lt(y, *low_id_opt->0, id); } } }
        Op::Insert { id }
    }
//@end

//@extract fn src/glist.rs "GList" insert_after
    pub fn insert_after(&self, low_id_opt: Option<&Identifier<T>>, elem: T) -> /*@ (r: @*/ Op<T> /*@ ) @*/
    //@ requires glist_ok::<T>(), self.wf(), low_id_opt is Some ==> self.ls().contains(*low_id_opt->0),
    //@ ensures
    //@     // C13: strictly above the identified element and strictly below every element that is above it
    //@     r->Insert_id@.len() > 0, r->Insert_id@.last().1 == elem,
    //@     low_id_opt is Some ==> idlt(*low_id_opt->0, r->Insert_id) && forall|y: Identifier<T>| #[trigger] self.ls().contains(y) && idlt(*low_id_opt->0, y) ==> idlt(r->Insert_id, y),
    {
        let high_id_opt = low_id_opt.and_then(|low_id /*@ : &Identifier<T> @*/ | /*@ -> (o: Option<&Identifier<T>>) requires glist_ok::<T>() ensures succ_post(self.ls(), *low_id, o) @*/ {
            /*@ shim_btreeset_succ(&self.list, low_id) @*/ /*@<*/ self.list
                .range((Excluded(low_id.clone()), Unbounded))
                .find(|id| id > &low_id) /*@>*/
        });
        //@ proof { if low_id_opt is Some && high_id_opt is Some { assert(self.ls().contains(*high_id_opt->0)); c14_antisymmetric(low_id_opt->0@, high_id_opt->0@); assert(idlt(*low_id_opt->0, *high_id_opt->0)); } }
        let id = Identifier::between(low_id_opt, high_id_opt, elem);
        //@ proof { if low_id_opt is Some { let l = *low_id_opt->0; c14_antisymmetric(l@, l@); assert forall|y: Identifier<T>| #[trigger] self.ls().contains(y) && idlt(l, y) implies idlt(id, y) by { c14_antisymmetric(l@, y@); assert(gt(y, l)); assert(high_id_opt is Some); l_lt_le(id, *high_id_opt->0, y); } } }
        Op::Insert { id }
    }
//@end

//@extract fn src/glist.rs "GList" first
    pub fn first(&self) -> /*@ (r: @*/ Option<&Identifier<T>> /*@ ) @*/
    //@ requires glist_ok::<T>(),
    //@ ensures exists|s: Seq<Identifier<T>>| #[trigger] id_order(s, self.ls()) && (r is Some <==> s.len() > 0) && (r is Some ==> *r->0 == s[0]),
    {
        //@ broadcast use vstd::std_specs::iter::group_iter_axioms;
        /*@ let mut it0 = @*/ self.iter() /*@ ; let ghost es = it0.remaining(); let r0 = it0 @*/ .next()
        //@ ; proof { let s = es.unref(); assert(id_order(s, self.ls())); assert(r0 is Some <==> s.len() > 0); assert(s.len() > 0 ==> *r0->0 == s[0]); }
        //@ r0
    }
//@end

//@extract fn src/glist.rs "GList" last
    pub fn last(&self) -> /*@ (r: @*/ Option<&Identifier<T>> /*@ ) @*/
    //@ requires glist_ok::<T>(),
    //@ ensures exists|s: Seq<Identifier<T>>| #[trigger] id_order(s, self.ls()) && (r is Some <==> s.len() > 0) && (r is Some ==> *r->0 == s.last()),
    {
        //@ broadcast use vstd::std_specs::iter::group_iter_axioms;
        /*@ let mut it0 = @*/ self.iter() /*@ ; let ghost es = it0.remaining(); let r0 = it0 @*/ .next_back()
        //@ ; proof { let s = es.unref(); assert(id_order(s, self.ls())); assert(r0 is Some <==> s.len() > 0); assert(s.len() > 0 ==> *r0->0 == s.last()); }
        //@ r0
    }
//@end

//@extract fn src/glist.rs "GList" len
    pub fn len(&self) -> /*@ (r: @*/ usize /*@ ) @*/
    //@ ensures vstd::std_specs::btree::key_obeys_cmp_spec::<Identifier<T>>() ==> r == self.ls().len(),
    {
        //@ proof { vstd::std_specs::btree::axiom_spec_btree_set_len(&self.list); }
        self.list.len()
    }
//@end

//@extract fn src/glist.rs "GList" is_empty
    pub fn is_empty(&self) -> /*@ (r: @*/ bool /*@ ) @*/
    //@ ensures r == (self.ls().len() == 0),
    {
        self.list.is_empty()
    }
//@end
}

impl<T: Ord> CmRDT for GList<T> {
    type Op = Op<T>;
    type Validation = Infallible;
    open spec fn cm_inv(&self) -> bool { actor_ok::<Identifier<T>>() }
    open spec fn cm_pre(&self, op: &Op<T>) -> bool { true }
    open spec fn cm_post(old_: &Self, op: &Op<T>, new_: &Self) -> bool { new_.ls() == old_.ls().insert(op->Insert_id) }
    open spec fn cm_vpre(&self, op: &Op<T>) -> bool { true }
    open spec fn cm_vhyp() -> bool { true }
    open spec fn cm_vflag(&self, op: &Self::Op) -> bool { false }

//@extract fn src/glist.rs "CmRDT for GList" validate_op
    fn validate_op(&self, /*@ _op @*/ /*@<*/ _ /*@>*/ : &Self::Op) -> /*@ (r: @*/ Result<(), Self::Validation> /*@ ) @*/
    //@ ensures r is Ok,
    {
        Ok(())
    }
//@end

//@extract fn src/glist.rs "CmRDT for GList" apply
    fn apply(&mut self, op: Self::Op)
    //@ ensures
    //@     // C12: insert-if-absent of the op's identifier, nothing else changes
    //@     actor_ok::<Identifier<T>>() ==> final(self).ls() == old(self).ls().insert(op->Insert_id),
    {
        match op {
            Op::Insert { id } => self.list.insert(id),
        };
    }
//@end
}

impl<T: Ord> CvRDT for GList<T> {
    type Validation = Infallible;
    open spec fn cv_inv(&self) -> bool { actor_ok::<Identifier<T>>() }
    open spec fn cv_pre(&self, other: &Self) -> bool { true }
    open spec fn cv_post(old_: &Self, other: &Self, new_: &Self) -> bool { new_.ls() == old_.ls().union(other.ls()) }
    open spec fn cv_vhyp() -> bool { true }
    open spec fn cv_flag(&self, other: &Self) -> bool { false }

//@extract fn src/glist.rs "CvRDT for GList" validate_merge
    fn validate_merge(&self, /*@ _other @*/ /*@<*/ _ /*@>*/ : &Self) -> /*@ (r: @*/ Result<(), Self::Validation> /*@ ) @*/
    //@ ensures r is Ok,
    {
        Ok(())
    }
//@end

//@extract fn src/glist.rs "CvRDT for GList" merge
    fn merge(&mut self, other: Self)
    //@ ensures actor_ok::<Identifier<T>>() ==> final(self).ls() == old(self).ls().union(other.ls()),
    {
        /*@ shim_btreeset_extend(&mut @*/ self.list /*@<*/ .extend( /*@>*/ /*@ , @*/ other.list)
    }
//@end
}

/// the iter() iterator of the BTreeSet enumerates the identifier order
pub proof fn lemma_set_keys_order_owned<T: Ord>(ks: Seq<Identifier<T>>, dom: Set<Identifier<T>>)
    requires vstd::laws_cmp::obeys_cmp::<Identifier<T>>(), ks.to_set() == dom, ks.no_duplicates(), vstd::std_specs::btree::increasing_seq(ks),
    ensures id_order(ks, dom),
{
    vstd::std_specs::btree::axiom_increasing_seq_meaning(ks);
    assert forall|i: int, j: int| 0 <= i < j < ks.len() implies id_cmp((#[trigger] ks[i])@, (#[trigger] ks[j])@) == Ordering::Less by {
        assert(<Identifier<T> as vstd::std_specs::cmp::OrdSpec>::cmp_spec(&ks[i], &ks[j]) is Less);
    }
}
pub proof fn lemma_set_keys_order<T: Ord>(ks: Seq<&Identifier<T>>, dom: Set<Identifier<T>>)
    requires vstd::laws_cmp::obeys_cmp::<Identifier<T>>(), ks.unref().to_set() == dom, ks.no_duplicates(), vstd::std_specs::btree::increasing_seq(ks),
    ensures id_order(ks.unref(), dom), ks.unref().len() == ks.len(), forall|i: int| 0 <= i < ks.len() ==> #[trigger] ks.unref()[i] == *ks[i],
{
    broadcast use vstd::laws_cmp::lemma_ref_obeys_cmp_spec;
    assert(vstd::laws_cmp::obeys_cmp::<&Identifier<T>>());
    vstd::std_specs::btree::axiom_increasing_seq_meaning(ks);
    let s = ks.unref();
    assert forall|i: int, j: int| 0 <= i < j < s.len() implies id_cmp((#[trigger] s[i])@, (#[trigger] s[j])@) == Ordering::Less by {
        assert(<&Identifier<T> as vstd::std_specs::cmp::OrdSpec>::cmp_spec(&ks[i], &ks[j]) is Less);
        assert(id_cmp(ks[i]@, ks[j]@) == Ordering::Less);
    }
    assert forall|i: int, j: int| 0 <= i < s.len() && 0 <= j < s.len() && i != j implies s[i] != s[j] by { assert(ks[i] != ks[j]); }
}

} // verus!
}
pub use crate::glist::GList;
