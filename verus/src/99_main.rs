fn main() {}
