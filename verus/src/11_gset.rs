pub mod gset {
use vstd::prelude::*;
use vstd::set::Set as SSet;
use core::convert::Infallible;
use std::collections::BTreeSet;
use crate::spec::*;
use crate::{CmRDT, CvRDT};
verus! {

//@extract struct src/gset.rs GSet
pub struct GSet<T: Ord> {
    value: BTreeSet<T>,
}
//@end

impl<T: Ord> View for GSet<T> {
    type V = SSet<T>;
    closed spec fn view(&self) -> SSet<T> { self.value@ }
}

impl<T: Ord> Default for GSet<T> {
//@extract fn src/gset.rs "Default for GSet" default
    fn default() -> /*@ (r: @*/ Self /*@ ) @*/
    //@ ensures r@ == SSet::<T>::empty(),
    {
        GSet::new()
    }
//@end
}

impl<T: Ord> vstd::std_specs::convert::FromSpecImpl<GSet<T>> for BTreeSet<T> {
    open spec fn obeys_from_spec() -> bool { false }
    uninterp spec fn from_spec(v: GSet<T>) -> Self;
}
impl<T: Ord> From<GSet<T>> for BTreeSet<T> {
//@extract fn src/gset.rs "From for BTreeSet" from
    fn from(gset: GSet<T>) -> /*@ (r: @*/ BTreeSet<T> /*@ ) @*/
    //@ ensures r@ == gset@,
    {
        gset.value
    }
//@end
}

impl<T: Ord> CvRDT for GSet<T> {
    type Validation = Infallible;
    open spec fn cv_inv(&self) -> bool { true }
    open spec fn cv_pre(&self, other: &Self) -> bool { true }
    open spec fn cv_post(old_: &Self, other: &Self, new_: &Self) -> bool { true }
    open spec fn cv_vhyp() -> bool { true }
    open spec fn cv_flag(&self, other: &Self) -> bool { false }

//@extract fn src/gset.rs "CvRDT for GSet" validate_merge
    fn validate_merge(&self, _other: &Self) -> /*@ (r: @*/ Result<(), Self::Validation> /*@ ) @*/
    //@ ensures r is Ok,
    {
        Ok(())
    }
//@end

    // OUT OF REACH: `for_each` with a closure that mutates a capture.  Contract (set union)
    // assumed; bounded stand-in `gset_merge` in the replay crate.
    #[verifier::external_body]
//@extract fn src/gset.rs "CvRDT for GSet" merge
    fn merge(&mut self, other: Self)
    //@ ensures actor_ok::<T>() ==> final(self)@ == old(self)@.union(other@),
    {
        other.value.into_iter().for_each(|e| self.insert(e))
    }
//@end
}

impl<T: Ord> CmRDT for GSet<T> {
    type Op = T;
    type Validation = Infallible;
    open spec fn cm_inv(&self) -> bool { true }
    open spec fn cm_pre(&self, op: &T) -> bool { true }
    open spec fn cm_post(old_: &Self, op: &T, new_: &Self) -> bool { true }
    open spec fn cm_vpre(&self, op: &T) -> bool { true }
    open spec fn cm_vhyp() -> bool { true }
    open spec fn cm_vflag(&self, op: &Self::Op) -> bool { false }

//@extract fn src/gset.rs "CmRDT for GSet" validate_op
    fn validate_op(&self, _op: &Self::Op) -> /*@ (r: @*/ Result<(), Self::Validation> /*@ ) @*/
    //@ ensures r is Ok,
    {
        Ok(())
    }
//@end

//@extract fn src/gset.rs "CmRDT for GSet" apply
    fn apply(&mut self, op: Self::Op)
    //@ ensures actor_ok::<T>() ==> final(self)@ == old(self)@.insert(op),
    {
        self.insert(op);
    }
//@end
}

impl<T: Ord> GSet<T> {
//@extract fn src/gset.rs "GSet" new
    pub fn new() -> /*@ (r: @*/ Self /*@ ) @*/
    //@ ensures r@ == SSet::<T>::empty(),
    {
        Self {
            value: BTreeSet::new(),
        }
    }
//@end

//@extract fn src/gset.rs "GSet" insert
    pub fn insert(&mut self, element: T)
    //@ ensures actor_ok::<T>() ==> final(self)@ == old(self)@.insert(element),
    {
        self.value.insert(element);
    }
//@end

//@extract fn src/gset.rs "GSet" contains
    pub fn contains(&self, element: &T) -> /*@ (r: @*/ bool /*@ ) @*/
    //@ ensures actor_ok::<T>() ==> r == self@.contains(*element),
    {
        self.value.contains(element)
    }
//@end

//@extract fn src/gset.rs "GSet" read
    pub fn read(&self) -> /*@ (r: @*/ BTreeSet<T> /*@ ) @*/
    where
        T: Clone,
    //@ ensures actor_ok::<T>() && clone_ok::<T>() ==> r@ == self@,
    {
        self.value.clone()
    }
//@end
}

} // verus!
}
pub use crate::gset::GSet;
