pub mod orswot {
use vstd::prelude::*;
use vstd::map::Map as SMap;
use vstd::set::Set as SSet;
use std::cmp::Ordering;
use std::collections::{HashMap, HashSet};
use std::hash::Hash;
use std::mem;
use vstd::std_specs::hash::*;
use vstd::std_specs::iter::IteratorSpec;
use vstd::std_specs::cmp::{PartialEqSpec, PartialOrdSpec};
use crate::spec::*;
use crate::stdx::*;
use crate::stdx3::*;
use crate::vclock::{pcmp_code, lemma_pcmp_code, dots_of};
use crate::ctx::{AddCtx, ReadCtx, RmCtx};
use crate::{CmRDT, CvRDT, Dot, ResetRemove, VClock};
verus! {

//@extract struct src/orswot.rs Orswot
pub struct Orswot<M: Hash + Eq, A: Ord + Hash> {
    pub(crate) clock: VClock<A>,
    pub(crate) entries: HashMap<M, VClock<A>>,
    pub(crate) deferred: HashMap<VClock<A>, HashSet<M>>,
}
//@end

//@extract enum src/orswot.rs Op
pub enum Op<M, A: Ord> {
    Add {
        dot: Dot<A>,
        members: Vec<M>,
    },
    Rm {
        clock: VClock<A>,
        members: Vec<M>,
    },
}
//@end

//@extract enum src/orswot.rs Validation
pub enum Validation<M, A> {
    DoubleSpentDot {
        dot: Dot<A>,
        our_member: M,
        their_member: M,
    },
}
//@end

/// Assumed: derive(Hash, PartialEq, Eq) on VClock gives a lawful HashMap key whose equality is
/// equality of contents, and std BTreeMap values are extensional (equal contents => equal value).
#[verifier::external_body]
pub proof fn axiom_vclock_key<A: Ord + Hash>()
    requires actor_ok::<A>(),
    ensures obeys_key_model::<VClock<A>>(), forall|c1: VClock<A>, c2: VClock<A>| c1@ == c2@ ==> c1 == c2,
{}

/// hypotheses on the type parameters (usage contract of the crate)
pub open spec fn base_ok<M: Hash + Eq, A: Ord + Hash>() -> bool {
    actor_ok::<A>() && key_ok::<M>() && key_ok::<VClock<A>>()
}
pub open spec fn params_ok<M: Hash + Eq, A: Ord + Hash + Clone>() -> bool {
    base_ok::<M, A>() && clone_ok::<A>()
}

impl<M: Hash + Eq, A: Ord + Hash> Orswot<M, A> {
    pub open(crate) spec fn cl(&self) -> SMap<A, u64> { self.clock@ }
    pub open(crate) spec fn ents(&self) -> SMap<M, VClock<A>> { self.entries@ }
    pub open(crate) spec fn defs(&self) -> SMap<VClock<A>, HashSet<M>> { self.deferred@ }
    /// witness clock of a member; the empty clock stands for "absent"
    pub open(crate) spec fn ec(&self, m: M) -> SMap<A, u64> {
        if self.entries@.contains_key(m) { self.entries@[m]@ } else { SMap::<A, u64>::empty() }
    }
    /// pending-remove members recorded under remove-context `c`
    pub open(crate) spec fn dm(&self, c: VClock<A>) -> SSet<M> {
        if self.deferred@.contains_key(c) { self.deferred@[c]@ } else { SSet::<M>::empty() }
    }
    /// representation invariant
    pub open(crate) spec fn wf(&self) -> bool {
        &&& nz(self.clock@)
        &&& forall|m: M| self.entries@.contains_key(m) ==> nz(#[trigger] self.entries@[m]@) && self.entries@[m]@ != SMap::<A, u64>::empty()
        &&& forall|k: VClock<A>| #[trigger] self.deferred@.contains_key(k) ==> nz(k@)
    }
}

// #[derive(Clone)] on Orswot (assumed field-wise)
impl<M: Hash + Eq + Clone, A: Ord + Hash + Clone> Clone for Orswot<M, A> {
    #[verifier::external_body]
    fn clone(&self) -> (r: Self) ensures actor_ok::<A>() && clone_ok::<A>() ==> r.cl() == self.cl() { Orswot { clock: self.clock.clone(), entries: self.entries.clone(), deferred: self.deferred.clone() } }
}

impl<M: Hash + Eq, A: Ord + Hash> Default for Orswot<M, A> {
//@extract fn src/orswot.rs "Default for Orswot" default
    fn default() -> /*@ (r: @*/ Self /*@ ) @*/
    //@ ensures r.cl() == SMap::<A, u64>::empty(), r.ents() == SMap::<M, VClock<A>>::empty(), r.defs() == SMap::<VClock<A>, HashSet<M>>::empty(), r.wf(),
    {
        Orswot {
            clock: Default::default(),
            entries: Default::default(),
            deferred: Default::default(),
        }
    }
//@end
}

/// exact effect of Orswot::apply (C04): see the three cases
pub open spec fn apply_post<M: Hash + Eq, A: Ord + Hash>(old_: Orswot<M, A>, op: Op<M, A>, new_: Orswot<M, A>) -> bool {
        // --- Rm: exactly apply_rm with the named members
        &&& op is Rm ==> {
            &&& new_.cl() == old_.cl()
            &&& forall|m: M| #[trigger] new_.ec(m) == (if op->Rm_members@.contains(m) { vsub(old_.ec(m), op->Rm_clock@) } else { old_.ec(m) })
            &&& new_.defs() == (if vle(op->Rm_clock@, old_.cl()) { old_.defs() } else { old_.defs().insert(op->Rm_clock, new_.defs()[op->Rm_clock]) })
            &&& (!vle(op->Rm_clock@, old_.cl()) ==> new_.defs().contains_key(op->Rm_clock) && new_.defs()[op->Rm_clock]@ == old_.dm(op->Rm_clock).union(op->Rm_members@.to_set()))
        }
        // --- Add already seen (duplicate / stale): nothing changes
        &&& ((op is Add && cnt(old_.cl(), op->Add_dot.actor) >= op->Add_dot.counter) ==> new_ == old_)
        // --- new Add: every named member gains the dot, the clock learns it, pending removes are re-applied
        &&& (op is Add && cnt(old_.cl(), op->Add_dot.actor) < op->Add_dot.counter) ==> {
            let d = op->Add_dot;
            let ms = op->Add_members@;
            &&& new_.cl() == old_.cl().insert(d.actor, d.counter)
            &&& forall|m: M, a: A| #![trigger cnt(new_.ec(m), a)] cnt(new_.ec(m), a) == ({
                    let e = if ms.contains(m) { vapp(old_.ec(m), d.actor, d.counter) } else { old_.ec(m) };
                    if covered_by(old_.defs(), m, a, cnt(e, a)) { 0 } else { cnt(e, a) } })
            &&& forall|k: VClock<A>| #![trigger new_.defs().contains_key(k)] new_.defs().contains_key(k) <==> (old_.defs().contains_key(k) && !vle(k@, new_.cl()))
            &&& forall|k: VClock<A>| #![trigger new_.defs()[k]] new_.defs().contains_key(k) ==> new_.defs()[k]@ == old_.defs()[k]@
        }
}

impl<M: Hash + Clone + Eq, A: Ord + Hash + Clone> CmRDT for Orswot<M, A> {
    type Op = Op<M, A>;
    type Validation = <VClock<A> as CmRDT>::Validation;
    open spec fn cm_inv(&self) -> bool { base_ok::<M, A>() && self.wf() }
    open spec fn cm_pre(&self, op: &Op<M, A>) -> bool { clone_ok::<A>() && (op is Rm ==> nz(op->Rm_clock@)) }
    open spec fn cm_post(old_: &Self, op: &Op<M, A>, new_: &Self) -> bool { apply_post(*old_, *op, *new_) }
    open spec fn cm_vpre(&self, op: &Op<M, A>) -> bool { true }
    open spec fn cm_vhyp() -> bool { true }
    open spec fn cm_vflag(&self, op: &Op<M, A>) -> bool { op is Add && op->Add_dot.counter > cnt(self.cl(), op->Add_dot.actor) + 1 }

//@extract fn src/orswot.rs "CmRDT for Orswot" validate_op
    fn validate_op(&self, op: &Self::Op) -> /*@ (r: @*/ Result<(), Self::Validation> /*@ ) @*/
    //@ ensures
    //@     // C16: an add is accepted iff its dot does not skip one of its actor's updates; removes always
    //@     op is Rm ==> r is Ok,
    //@     op is Add ==> (r is Ok <==> op->Add_dot.counter <= cnt(self.cl(), op->Add_dot.actor) + 1),
    {
        match op {
            Op::Add { dot, .. } => self.clock.validate_op(dot),
            Op::Rm { .. } => Ok(()),
        }
    }
//@end

//@extract fn src/orswot.rs "CmRDT for Orswot" apply
    fn apply(&mut self, op: Self::Op)
    //@ ensures apply_post(*old(self), op, *final(self)),
    {
        match op {
            Op::Add { dot, members } => {
                if self.clock.get(&dot.actor) >= dot.counter {
                    // we've already seen this op
                    return;
                }
                //@ let ghost ms = members@;

                for member in /*@ it: @*/ members
                //@ invariant
                //@     params_ok::<M, A>(), self.wf(), it.seq() == ms, dot.counter > 0,
                //@     self.cl() == old(self).cl(), self.defs() == old(self).defs(),
                //@     forall|m: M| #[trigger] self.ec(m) == (if exists|j: int| 0 <= j < it.index@ && ms[j] == m { vapp(old(self).ec(m), dot.actor, dot.counter) } else { old(self).ec(m) }),
                {
                    //@ let ghost pre = *self;
                    let member_vclock = /*@ shim_hashmap_entry_or_default(&mut @*/ self.entries /*@<*/ .entry( /*@>*/ /*@ , @*/ member) /*@<*/ .or_default() /*@>*/ ;
                    //@ let ghost mv0 = member_vclock@;
                    //@ let dc = dot.clone();
                    //@ proof { assert(cloned(dot.actor, dc.actor)); assert(dc.actor == dot.actor); }
                    member_vclock.apply( /*@<*/ dot.clone() /*@>*/ /*@ dc @*/ );
                    //@ proof { assert(member_vclock@ == vapp(mv0, dot.actor, dot.counter)); lemma_apply_add_step(*old(self), pre, *self, ms, it.index@, dot.actor, dot.counter); }
                }

                //@ let ghost al = *self;
                //@ proof { assert forall|m: M| #[trigger] al.ec(m) == (if ms.contains(m) { vapp(old(self).ec(m), dot.actor, dot.counter) } else { old(self).ec(m) }) by { if ms.contains(m) { let j = choose|j: int| 0 <= j < ms.len() && ms[j] == m; } } }
                //@ proof { assert(self.clock.cm_inv()); }
                self.clock.apply(dot);
                //@ proof { lemma_add_mid_wf(*self); }
                //@ let ghost mid = *self;
                self.apply_deferred();
                //@ proof { assert(mid.ents() == al.ents()); assert forall|m: M| #[trigger] mid.ec(m) == al.ec(m) by {} }
            }
            Op::Rm { clock, members } => {
                self.apply_rm( /*@ shim_vec_collect_hashset( @*/ members /*@<*/ .into_iter().collect() /*@>*/ /*@ ) @*/ , clock);
            }
        }
    }
//@end
}

pub open spec fn rr_keep<M, A: Ord>(m: M, e: SMap<A, u64>, o: Option<(M, VClock<A>)>, c: SMap<A, u64>) -> bool {
    if vsub(e, c) == SMap::<A, u64>::empty() { o is None } else { o matches Some(q) && q.0 == m && q.1@ == vsub(e, c) }
}
pub open spec fn rr_keep_d<M, A: Ord>(k: SMap<A, u64>, v: HashSet<M>, o: Option<(VClock<A>, HashSet<M>)>, c: SMap<A, u64>) -> bool {
    if vsub(k, c) == SMap::<A, u64>::empty() { o is None } else { o matches Some(q) && q.0@ == vsub(k, c) && q.1 == v }
}

pub proof fn lemma_rr_entries<M: Hash + Eq, A: Ord + Hash>(old_: Orswot<M, A>, s1: Orswot<M, A>, c: SMap<A, u64>)
    requires
        old_.wf(), nz(s1.cl()), s1.defs() == old_.defs(),
        forall|k: M| #[trigger] s1.ents().contains_key(k) ==> old_.ents().contains_key(k) && rr_keep(k, old_.ents()[k]@, Some((k, s1.ents()[k])), c),
        forall|k: M| #[trigger] old_.ents().contains_key(k) && !s1.ents().contains_key(k) ==> rr_keep(k, old_.ents()[k]@, None, c),
    ensures
        s1.wf(),
        forall|m: M| #[trigger] s1.ec(m) == vsub(old_.ec(m), c),
{
    assert forall|m: M| s1.ents().contains_key(m) implies nz(#[trigger] s1.ents()[m]@) && s1.ents()[m]@ != SMap::<A, u64>::empty() by {
        assert(old_.ents().contains_key(m)); c10_vsub_nz(old_.ents()[m]@, c);
    }
    assert forall|m: M| #[trigger] s1.ec(m) == vsub(old_.ec(m), c) by {
        if old_.ents().contains_key(m) {
            if !s1.ents().contains_key(m) { assert(rr_keep(m, old_.ents()[m]@, None::<(M, VClock<A>)>, c)); }
        } else {
            assert(!s1.ents().contains_key(m));
            assert(vsub(SMap::<A, u64>::empty(), c) =~= SMap::<A, u64>::empty());
        }
    }
}

pub proof fn lemma_rr_deferred<M: Hash + Eq, A: Ord + Hash>(old_: Orswot<M, A>, s2: Orswot<M, A>, c: SMap<A, u64>)
    requires
        old_.wf(), nz(s2.cl()),
        forall|m: M| s2.ents().contains_key(m) ==> nz(#[trigger] s2.ents()[m]@) && s2.ents()[m]@ != SMap::<A, u64>::empty(),
        forall|k2: VClock<A>| #[trigger] s2.defs().contains_key(k2) ==> exists|k: VClock<A>| old_.defs().contains_key(k) && #[trigger] rr_keep_d(k@, old_.defs()[k], Some((k2, s2.defs()[k2])), c),
        forall|k: VClock<A>| #[trigger] old_.defs().contains_key(k) ==> exists|o: Option<(VClock<A>, HashSet<M>)>| #[trigger] rr_keep_d(k@, old_.defs()[k], o, c) && (o matches Some(q) ==> s2.defs().contains_key(q.0)),
    ensures
        s2.wf(),
        forall|k2: VClock<A>| #[trigger] s2.defs().contains_key(k2) ==> exists|k: VClock<A>| #[trigger] old_.defs().contains_key(k) && k2@ == vsub(k@, c) && s2.defs()[k2] == old_.defs()[k],
        forall|k: VClock<A>| #[trigger] old_.defs().contains_key(k) && vsub(k@, c) != SMap::<A, u64>::empty() ==> exists|k2: VClock<A>| #[trigger] s2.defs().contains_key(k2) && k2@ == vsub(k@, c),
{
    assert forall|k: VClock<A>| #[trigger] old_.defs().contains_key(k) && vsub(k@, c) != SMap::<A, u64>::empty() implies exists|k2: VClock<A>| #[trigger] s2.defs().contains_key(k2) && k2@ == vsub(k@, c) by {
        let o = choose|o: Option<(VClock<A>, HashSet<M>)>| #[trigger] rr_keep_d(k@, old_.defs()[k], o, c) && (o matches Some(q) ==> s2.defs().contains_key(q.0));
        let q = o->Some_0;
        assert(s2.defs().contains_key(q.0) && q.0@ == vsub(k@, c));
    }
    assert forall|k2: VClock<A>| #[trigger] s2.defs().contains_key(k2) implies nz(k2@) && exists|k: VClock<A>| #[trigger] old_.defs().contains_key(k) && k2@ == vsub(k@, c) && s2.defs()[k2] == old_.defs()[k] by {
        let k = choose|k: VClock<A>| old_.defs().contains_key(k) && #[trigger] rr_keep_d(k@, old_.defs()[k], Some((k2, s2.defs()[k2])), c);
        assert(old_.defs().contains_key(k));
        c10_vsub_nz(k@, c);
    }
    assert forall|k2: VClock<A>| #[trigger] s2.deferred@.contains_key(k2) implies nz(k2@) by { assert(s2.defs().contains_key(k2)); }
    assert(nz(s2.clock@));
    assert forall|m: M| s2.entries@.contains_key(m) implies nz(#[trigger] s2.entries@[m]@) && s2.entries@[m]@ != SMap::<A, u64>::empty() by { assert(s2.ents().contains_key(m)); }
}

/// exec `==` on members is spec equality (usage hypothesis on the member type)
pub open spec fn eq_ok<M: PartialEq>() -> bool {
    M::obeys_eq_spec() && forall|x: M, y: M| #[trigger] x.eq_spec(&y) <==> x == y
}
pub proof fn lemma_eq_ok<M: PartialEq>(x: M, y: M) requires eq_ok::<M>() ensures x.eq_spec(&y) <==> x == y {}

/// dot (a, n) is a current witness of member m in s and of a different member m2 in o
pub open spec fn conflict<M: Hash + Eq, A: Ord + Hash>(s: Orswot<M, A>, o: Orswot<M, A>, m: M, m2: M, a: A) -> bool {
    s.ents().contains_key(m) && o.ents().contains_key(m2) && m != m2 && cnt(s.ec(m), a) != 0 && cnt(s.ec(m), a) == cnt(o.ec(m2), a)
}
pub open spec fn double_spent<M: Hash + Eq, A: Ord + Hash>(s: Orswot<M, A>, o: Orswot<M, A>) -> bool {
    exists|m: M, m2: M, a: A| #[trigger] conflict(s, o, m, m2, a)
}

/// per-actor merge of the witness counters of one member: a counter survives when both sides
/// hold it, or one side holds it and the other side has not seen it (its clock does not cover it)
pub open spec fn mrg(es: u64, eo: u64, cs: u64, co: u64) -> u64 {
    max64(max64(if eo == es { es } else { 0 }, if eo > cs { eo } else { 0 }), if es > co { es } else { 0 })
}

/// exact effect of Orswot::merge
pub open spec fn merge_post<M: Hash + Eq, A: Ord + Hash>(old_: Orswot<M, A>, other: Orswot<M, A>, new_: Orswot<M, A>) -> bool {
        &&& is_join(new_.cl(), old_.cl(), other.cl())
        // a witness dot survives the merge iff the per-actor rule `mrg` keeps it and no pending remove of either side covers it
        &&& forall|m: M, a: A| #![trigger cnt(new_.ec(m), a)] cnt(new_.ec(m), a) == ({
            let x = mrg(cnt(old_.ec(m), a), cnt(other.ec(m), a), cnt(old_.cl(), a), cnt(other.cl(), a));
            if covered_by(old_.defs(), m, a, x) || covered_by(other.defs(), m, a, x) { 0 } else { x } })
        // pending removes of both sides travel with the merge, as long as the merged clock does not cover them
        &&& forall|k: VClock<A>| #![trigger new_.defs().contains_key(k)] new_.defs().contains_key(k) <==> ((old_.defs().contains_key(k) || other.defs().contains_key(k)) && !vle(k@, new_.cl()))
        &&& forall|k: VClock<A>| #![trigger new_.defs()[k]] new_.defs().contains_key(k) ==> new_.defs()[k]@ == old_.dm(k).union(other.dm(k))
}

impl<M: Hash + Eq + Clone, A: Ord + Hash + Clone> CvRDT for Orswot<M, A> {
    type Validation = Validation<M, A>;
    open spec fn cv_inv(&self) -> bool { base_ok::<M, A>() && self.wf() }
    open spec fn cv_pre(&self, other: &Self) -> bool { clone_ok::<A>() }
    open spec fn cv_post(old_: &Self, other: &Self, new_: &Self) -> bool { merge_post(*old_, *other, *new_) }
    open spec fn cv_vhyp() -> bool { eq_ok::<M>() }
    open spec fn cv_flag(&self, other: &Self) -> bool { double_spent(*self, *other) }

//@extract fn src/orswot.rs "CvRDT for Orswot" validate_merge
    fn validate_merge(&self, other: &Self) -> /*@ (r: @*/ Result<(), Self::Validation> /*@ ) @*/
    //@ ensures
    //@     // C17: flagged iff some dot is a current witness of one member here and of a different member there
    //@     eq_ok::<M>() ==> (r is Err <==> double_spent(*self, *other)),
    {
        //@ let sit = self.entries.iter();
        //@ let ghost ss = sit.remaining();
        for (member, clock) in /*@ it1: sit @*/ /*@<*/ self.entries.iter() /*@>*/
        //@ invariant
        //@     base_ok::<M, A>(), self.wf(), other.wf(), it1.seq() == ss,
        //@     forall|i: int| 0 <= i < ss.len() ==> self.ents().contains_key(*(#[trigger] ss[i]).0) && self.ents()[*ss[i].0] == *ss[i].1,
        //@     forall|k: M| self.ents().contains_key(k) ==> ss.contains((&k, &self.ents()[k])),
        //@     eq_ok::<M>() ==> forall|i: int, m2: M, a: A| 0 <= i < it1.index@ ==> !#[trigger] conflict(*self, *other, *ss[i].0, m2, a),
        {
            //@ proof { assert(*member == *ss[it1.index@].0 && *clock == *ss[it1.index@].1); assert(self.ents().contains_key(*member)); assert(nz(clock@)); }
            //@ let oit = other.entries.iter();
            //@ let ghost os = oit.remaining();
            for (other_member, other_clock) in /*@ it2: oit @*/ /*@<*/ other.entries.iter() /*@>*/
            //@ invariant
            //@     base_ok::<M, A>(), self.wf(), other.wf(), it2.seq() == os, nz(clock@),
            //@     self.ents().contains_key(*member), self.ents()[*member] == *clock,
            //@     forall|i: int| 0 <= i < os.len() ==> other.ents().contains_key(*(#[trigger] os[i]).0) && other.ents()[*os[i].0] == *os[i].1,
            //@     forall|k: M| other.ents().contains_key(k) ==> os.contains((&k, &other.ents()[k])),
            //@     eq_ok::<M>() ==> forall|l: int, a: A| 0 <= l < it2.index@ ==> !#[trigger] conflict(*self, *other, *member, *os[l].0, a),
            {
                //@ proof { assert(*other_member == *os[it2.index@].0 && *other_clock == *os[it2.index@].1); assert(other.ents().contains_key(*other_member)); }
                for Dot { actor, counter } in /*@ it3: @*/ clock.iter()
                //@ invariant
                //@     it3.iter.obeys_prophetic_iter_laws(), it3.iter.decrease() is Some,
                //@     base_ok::<M, A>(), nz(clock@),
                //@     self.ents().contains_key(*member), self.ents()[*member] == *clock,
                //@     other.ents().contains_key(*other_member), other.ents()[*other_member] == *other_clock,
                //@     dots_of(it3.seq(), clock@, it3.snapshot@.will_return_none()),
                //@     eq_ok::<M>() ==> forall|e: int| 0 <= e < it3.index@ ==> !(*other_member != *member && cnt(other_clock@, *(#[trigger] it3.seq()[e]).actor) == it3.seq()[e].counter),
                {
                    //@ proof { if eq_ok::<M>() { lemma_eq_ok::<M>(*other_member, *member); } }
                    if other_member != member && other_clock.get(actor) == counter {
                        //@ proof { if eq_ok::<M>() { assert(clock@.contains_key(*actor) && clock@[*actor] == counter && counter > 0); assert(conflict(*self, *other, *member, *other_member, *actor)); } }
                        return Err(Validation::DoubleSpentDot {
                            dot: Dot::new(actor.clone(), counter),
                            our_member: member.clone(),
                            their_member: other_member.clone(),
                        });
                    }
                }
                //@ proof { if eq_ok::<M>() { assert forall|a: A| !#[trigger] conflict(*self, *other, *member, *other_member, a) by { if conflict(*self, *other, *member, *other_member, a) { assert(clock@.contains_key(a)); } } } }
            }
            //@ proof { if eq_ok::<M>() { assert forall|m2: M, a: A| !#[trigger] conflict(*self, *other, *member, m2, a) by { if conflict(*self, *other, *member, m2, a) { let p = (&m2, &other.ents()[m2]); assert(os.contains(p)); let l = choose|l: int| 0 <= l < os.len() && os[l] == p; assert(!conflict(*self, *other, *member, *os[l].0, a)); } } } }
        }
        //@ proof { if eq_ok::<M>() { assert(!double_spent(*self, *other)) by { if double_spent(*self, *other) { let (m, m2, a) = choose|m: M, m2: M, a: A| #[trigger] conflict(*self, *other, m, m2, a); let p = (&m, &self.ents()[m]); assert(ss.contains(p)); let i = choose|i: int| 0 <= i < ss.len() && ss[i] == p; assert(!conflict(*self, *other, *ss[i].0, m2, a)); } } } }

        Ok(())
    }
//@end

//@extract fn src/orswot.rs "CvRDT for Orswot" merge
    fn merge(&mut self, other: Self)
    //@ ensures merge_post(*old(self), other, *final(self)),
    {
        //@ proof { assert(old(self).wf() && other.wf() && params_ok::<M, A>()); }
        self.entries = /*@ shim_hashmap_filter_map_collect( @*/ mem::take(&mut self.entries)
            /*@<*/ .into_iter()
            .filter_map( /*@>*/ /*@ , @*/ /*@<*/ | /*@>*/ /*@<pat*/ (entry, mut clock) /*@>*/ /*@<*/ | /*@>*/ /*@ |p: (M, VClock<A>)| -> (o: Option<(M, VClock<A>)>)
                requires actor_ok::<A>(), key_ok::<M>(), nz(p.1@), nz(other.clock@),
                ensures keep1_ok(p, o, other.entries@.contains_key(p.0), other.clock@)
            { let $pat = p; @*/ {
                if !other.entries.contains_key(&entry) {
                    // other doesn't contain this entry because it:
                    //  1. has seen it and dropped it
                    //  2. hasn't seen it
                    //@ proof { lemma_pcmp_code(other.clock@, clock@); }
                    if other.clock >= clock {
                        // other has seen this entry and dropped it
                        None
                    } else {
                        // the other map has not seen this version of this
                        // entry, so add it. But first, we have to remove any
                        // information that may have been known at some point
                        // by the other map about this key and was removed.
                        clock.reset_remove(&other.clock);
                        Some((entry, clock))
                    }
                } else {
                    Some((entry, clock))
                }
            } /*@ } @*/ )
            /*@<*/ .collect() /*@>*/ ;
        //@ let ghost s1 = *self;
        //@ proof { lemma_merge_pass1(*old(self), other, s1); }

        //@ let ov = shim_hashmap_into_vec(other.entries);
        //@ let ghost ovs = ov@;
        for (entry, mut clock) in /*@ it: ov @*/ /*@<*/ other.entries /*@>*/
        //@ invariant
        //@     params_ok::<M, A>(), old(self).wf(), other.wf(), self.wf(), it.seq() == ovs,
        //@     self.cl() == old(self).cl(), self.defs() == old(self).defs(),
        //@     forall|i: int| 0 <= i < ovs.len() ==> other.ents().contains_key((#[trigger] ovs[i]).0) && other.ents()[ovs[i].0] == ovs[i].1,
        //@     forall|i: int, j: int| 0 <= i < j < ovs.len() ==> (#[trigger] ovs[i]).0 != (#[trigger] ovs[j]).0,
        //@     forall|k: M| other.ents().contains_key(k) ==> exists|i: int| 0 <= i < ovs.len() && (#[trigger] ovs[i]).0 == k,
        //@     forall|m: M| other.ents().contains_key(m) ==> #[trigger] s1.ec(m) == old(self).ec(m),
        //@     // members of `other` already visited are final; the rest is still as pass 1 left it
        //@     forall|m: M, a: A| #![trigger cnt(self.ec(m), a)] cnt(self.ec(m), a) == (
        //@         if exists|j: int| 0 <= j < it.index@ && (#[trigger] ovs[j]).0 == m { mrg(cnt(old(self).ec(m), a), cnt(other.ec(m), a), cnt(old(self).cl(), a), cnt(other.cl(), a)) }
        //@         else { cnt(s1.ec(m), a) }),
        {
            //@ let ghost pre = *self;
            //@ let ghost idx = it.index@;
            //@ proof { assert(other.ents().contains_key(ovs[idx].0)); assert(entry == ovs[idx].0 && clock == ovs[idx].1); assert(nz(clock@) && clock@ != SMap::<A, u64>::empty()); }
            if let Some(our_clock) = self.entries.get_mut(&entry) {
                // SUBTLE: this entry is present in both orswots, BUT that doesn't mean we
                // shouldn't drop it!
                // Perfectly possible that an item in both sets should be dropped
                //@ let ghost oc0 = our_clock@;
                //@ proof { assert(pre.ents().contains_key(entry) && oc0 == pre.ents()[entry]@ && nz(oc0)); }
                let mut common = VClock::intersection(&clock, our_clock);
                //@ proof { c10_vsub_nz(clock@, self.clock@); c10_vsub_nz(oc0, other.clock@); }
                common.merge(clock.clone_without(&self.clock));
                common.merge(our_clock.clone_without(&other.clock));
                //@ proof { lemma_common(common@, clock@, oc0, self.clock@, other.clock@); }
                if common.is_empty() {
                    // both maps had seen each others entry and removed them
                    self.entries.remove(&entry).unwrap();
                } else {
                    // we should not drop, as there is information still tracked in
                    // the common clock.
                    *our_clock = common;
                }
            } else {
                // we don't have this entry, is it because we:
                //  1. have seen it and dropped it
                //  2. have not seen it
                //@ proof { lemma_pcmp_code(self.clock@, clock@); }
                if self.clock >= clock {
                    // We've seen this entry and dropped it, we won't add it back
                } else {
                    // We have not seen this version of this entry, so we add it.
                    // but first, we have to remove the information on this entry
                    // that we have seen and deleted
                    //@ let ghost eo = clock@;
                    clock.reset_remove(&self.clock);
                    //@ proof { c10_vsub_nz(eo, self.clock@); let a = choose|a: A| !(cnt(eo, a) <= cnt(self.clock@, a)); assert(vsub(eo, self.clock@).contains_key(a)); }
                    self.entries.insert(entry, clock);
                }
            }
            //@ proof { lemma_merge_pass2_step(*old(self), other, s1, pre, *self, ovs, idx); }
        }
        //@ let ghost s2 = *self;
        //@ proof { lemma_merge_pass2_done(*old(self), other, s1, s2, ovs); }

        // merge deferred removals
        //@ let dv = shim_hashmap_into_vec(other.deferred);
        //@ let ghost dvs = dv@;
        for (rm_clock, members) in /*@ it: dv @*/ /*@<*/ other.deferred /*@>*/
        //@ invariant
        //@     params_ok::<M, A>(), old(self).wf(), other.wf(), self.wf(), it.seq() == dvs, self.cl() == old(self).cl(),
        //@     forall|i: int| 0 <= i < dvs.len() ==> other.defs().contains_key((#[trigger] dvs[i]).0) && other.defs()[dvs[i].0] == dvs[i].1,
        //@     forall|i: int, j: int| 0 <= i < j < dvs.len() ==> (#[trigger] dvs[i]).0 != (#[trigger] dvs[j]).0,
        //@     forall|k: VClock<A>| other.defs().contains_key(k) ==> exists|i: int| 0 <= i < dvs.len() && (#[trigger] dvs[i]).0 == k,
        //@     forall|m: M, a: A| #![trigger cnt(self.ec(m), a)] cnt(self.ec(m), a) == (if covered_upto(dvs, it.index@, m, a, cnt(s2.ec(m), a)) { 0 } else { cnt(s2.ec(m), a) }),
        //@     forall|k: VClock<A>| #![trigger self.defs().contains_key(k)] self.defs().contains_key(k) <==> (old(self).defs().contains_key(k) || exists|j: int| 0 <= j < it.index@ && (#[trigger] dvs[j]).0 == k && !vle(k@, self.cl())),
        //@     forall|k: VClock<A>| #![trigger self.dm(k)] self.dm(k) == old(self).dm(k).union(if exists|j: int| 0 <= j < it.index@ && (#[trigger] dvs[j]).0 == k && !vle(k@, self.cl()) { other.dm(k) } else { SSet::<M>::empty() }),
        {
            //@ let ghost pre = *self;
            //@ proof { assert(rm_clock == dvs[it.index@].0); assert(other.deferred@.contains_key(rm_clock)); assert(nz(rm_clock@)); }
            self.apply_rm(members, rm_clock);
            //@ proof { lemma_merge_pass3_step(*old(self), other, s2, pre, *self, dvs, it.index@); }
        }
        //@ let ghost s3 = *self;

        //@ proof { assert(self.clock.cv_inv() && other.clock.cv_inv()); }
        self.clock.merge(other.clock);
        //@ let ghost s4 = *self;
        //@ proof { lemma_join_nz(s4.cl(), old(self).cl(), other.cl()); assert(s4.wf()); }

        self.apply_deferred();
        //@ proof { lemma_merge_finish(*old(self), other, s2, s3, s4, *self, dvs); }
    }
//@end
}

/// exact effect of Orswot::reset_remove (C18)
pub open spec fn rr_post_orswot<M: Hash + Eq, A: Ord + Hash>(old_: Orswot<M, A>, c: SMap<A, u64>, new_: Orswot<M, A>) -> bool {
        // C18: the replica clock and every member forget exactly the dots the given clock covers
        &&& new_.cl() == vsub(old_.cl(), c)
        &&& forall|m: M| #[trigger] new_.ec(m) == vsub(old_.ec(m), c)
        // pending removes: contexts are reduced the same way, emptied ones are dropped (two contexts that become
        // equal are folded into one entry by `collect`: only one member set survives -- see DESIGN, C18)
        &&& forall|k2: VClock<A>| #[trigger] new_.defs().contains_key(k2) ==> exists|k: VClock<A>| #[trigger] old_.defs().contains_key(k) && k2@ == vsub(k@, c) && new_.defs()[k2] == old_.defs()[k]
        &&& forall|k: VClock<A>| #[trigger] old_.defs().contains_key(k) && vsub(k@, c) != SMap::<A, u64>::empty() ==> exists|k2: VClock<A>| #[trigger] new_.defs().contains_key(k2) && k2@ == vsub(k@, c)
}

impl<M: Hash + Clone + Eq, A: Ord + Hash> ResetRemove<A> for Orswot<M, A> {
    open spec fn rr_inv(&self) -> bool { base_ok::<M, A>() && self.wf() }
    open spec fn rr_post(old_: &Self, clock: &VClock<A>, new_: &Self) -> bool { rr_post_orswot(*old_, clock@, *new_) }

//@extract fn src/orswot.rs "ResetRemove for Orswot" reset_remove
    fn reset_remove(&mut self, clock: &VClock<A>)
    //@ ensures rr_post_orswot(*old(self), clock@, *final(self)),
    {
        //@ proof { assert(self.clock.rr_inv()); c10_vsub_nz(self.clock@, clock@); }
        self.clock.reset_remove(clock);

        self.entries = /*@ shim_hashmap_filter_map_collect( @*/ mem::take(&mut self.entries)
            /*@<*/ .into_iter()
            .filter_map( /*@>*/ /*@ , @*/ /*@<*/ | /*@>*/ /*@<pat1*/ (val, mut val_clock) /*@>*/ /*@<*/ | /*@>*/ /*@ |p: (M, VClock<A>)| -> (o: Option<(M, VClock<A>)>)
                requires actor_ok::<A>(), nz(p.1@),
                ensures rr_keep(p.0, p.1@, o, clock@)
            { let $pat1 = p; @*/ {
                val_clock.reset_remove(clock);
                if val_clock.is_empty() {
                    None
                } else {
                    Some((val, val_clock))
                }
            } /*@ } @*/ )
            /*@<*/ .collect() /*@>*/ ;
        //@ proof { lemma_rr_entries(*old(self), *self, clock@); }
        //@ let ghost s1g = *self;

        self.deferred = /*@ shim_hashmap_filter_map_collect_rekey( @*/ mem::take(&mut self.deferred)
            /*@<*/ .into_iter()
            .filter_map( /*@>*/ /*@ , @*/ /*@<*/ | /*@>*/ /*@<pat2*/ (mut vclock, deferred) /*@>*/ /*@<*/ | /*@>*/ /*@ |p: (VClock<A>, HashSet<M>)| -> (o: Option<(VClock<A>, HashSet<M>)>)
                requires actor_ok::<A>(), nz(p.0@),
                ensures rr_keep_d(p.0@, p.1, o, clock@)
            { let $pat2 = p; @*/ {
                vclock.reset_remove(clock);
                if vclock.is_empty() {
                    None
                } else {
                    Some((vclock, deferred))
                }
            } /*@ } @*/ )
            /*@<*/ .collect() /*@>*/ ;
        //@ proof { lemma_rr_deferred(*old(self), *self, clock@); assert(self.ents() == s1g.ents()); assert forall|m: M| #[trigger] self.ec(m) == vsub(old(self).ec(m), clock@) by { assert(self.ec(m) == s1g.ec(m)); } }
    }
//@end
}

impl<M: Hash + Clone + Eq, A: Ord + Hash + Clone> Orswot<M, A> {
//@extract fn src/orswot.rs "Orswot" new
    pub fn new() -> /*@ (r: @*/ Self /*@ ) @*/
    //@ ensures r.cl() == SMap::<A, u64>::empty(), r.ents() == SMap::<M, VClock<A>>::empty(), r.defs() == SMap::<VClock<A>, HashSet<M>>::empty(), r.wf(),
    {
        Default::default()
    }
//@end

//@extract fn src/orswot.rs "Orswot" clock
    pub fn clock(&self) -> /*@ (r: @*/ VClock<A> /*@ ) @*/
    //@ requires params_ok::<M, A>(),
    //@ ensures r@ == self.cl(),
    {
        self.clock.clone()
    }
//@end

//@extract fn src/orswot.rs "Orswot" add
    pub fn add(&self, member: M, ctx: AddCtx<A>) -> /*@ (r: @*/ Op<M, A> /*@ ) @*/
    //@ ensures r == (Op::Add { dot: ctx.dot, members: r->Add_members }), r->Add_members@ == seq![member],
    {
        Op::Add {
            dot: ctx.dot,
            members: /*@ shim_once_collect_vec( @*/ /*@<*/ std::iter::once( /*@>*/ member ) /*@<*/ .collect() /*@>*/ ,
        }
    }
//@end

//@extract fn src/orswot.rs "Orswot" add_all
    pub fn add_all<I: IntoIterator<Item = M>>(&self, members: I, ctx: AddCtx<A>) -> /*@ (r: @*/ Op<M, A> /*@ ) @*/
    //@ ensures
    //@     // one dot -- the one of the context handed in -- for exactly the members the caller's iterator yields
    //@     r is Add, r->Add_dot == ctx.dot, r->Add_members@ == vstd::std_specs::iter::into_iter_remaining(members),
    {
        Op::Add {
            dot: ctx.dot,
            members: /*@ crate::stdx5::shim_intoiter_collect_vec( @*/ members /*@ ) @*/ /*@<*/ .into_iter().collect() /*@>*/ ,
        }
    }
//@end

//@extract fn src/orswot.rs "Orswot" rm_all
    pub fn rm_all<I: IntoIterator<Item = M>>(&self, members: I, ctx: RmCtx<A>) -> /*@ (r: @*/ Op<M, A> /*@ ) @*/
    //@ ensures r is Rm, r->Rm_clock == ctx.clock, r->Rm_members@ == vstd::std_specs::iter::into_iter_remaining(members),
    {
        Op::Rm {
            clock: ctx.clock,
            members: /*@ crate::stdx5::shim_intoiter_collect_vec( @*/ members /*@ ) @*/ /*@<*/ .into_iter().collect() /*@>*/ ,
        }
    }
//@end

//@extract fn src/orswot.rs "Orswot" rm
    pub fn rm(&self, member: M, ctx: RmCtx<A>) -> /*@ (r: @*/ Op<M, A> /*@ ) @*/
    //@ ensures r == (Op::Rm { clock: ctx.clock, members: r->Rm_members }), r->Rm_members@ == seq![member],
    {
        Op::Rm {
            clock: ctx.clock,
            members: /*@ shim_once_collect_vec( @*/ /*@<*/ std::iter::once( /*@>*/ member ) /*@<*/ .collect() /*@>*/ ,
        }
    }
//@end

//@extract fn src/orswot.rs "Orswot" contains
    pub fn contains(&self, member: &M) -> /*@ (r: @*/ ReadCtx<bool, A> /*@ ) @*/
    //@ requires params_ok::<M, A>(),
    //@ ensures
    //@     // C07: add context = replica clock, remove context = exactly the member's surviving witnesses (empty iff absent)
    //@     r.add_clock@ == self.cl(), r.rm_clock@ == self.ec(*member), r.val == self.ents().contains_key(*member),
    {
        let member_clock_opt = self.entries.get(member);
        let exists = member_clock_opt.is_some();
        ReadCtx {
            add_clock: self.clock.clone(),
            rm_clock: member_clock_opt.cloned().unwrap_or_default(),
            val: exists,
        }
    }
//@end

//@extract fn src/orswot.rs "Orswot" read
    pub fn read(&self) -> /*@ (r: @*/ ReadCtx<HashSet<M>, A> /*@ ) @*/
    //@ requires params_ok::<M, A>(), clone_ok::<M>(),
    //@ ensures r.add_clock@ == self.cl(), r.rm_clock@ == self.cl(), r.val@ == self.ents().dom(),
    {
        ReadCtx {
            add_clock: self.clock.clone(),
            rm_clock: self.clock.clone(),
            val: /*@ shim_hashmap_keys_cloned_collect(& @*/ self.entries /*@<*/ .keys().cloned().collect() /*@>*/ /*@ ) @*/ ,
        }
    }
//@end

//@extract fn src/orswot.rs "Orswot" read_ctx
    pub fn read_ctx(&self) -> /*@ (r: @*/ ReadCtx<(), A> /*@ ) @*/
    //@ requires params_ok::<M, A>(),
    //@ ensures r.add_clock@ == self.cl(), r.rm_clock@ == self.cl(),
    {
        ReadCtx {
            add_clock: self.clock.clone(),
            rm_clock: self.clock.clone(),
            val: (),
        }
    }
//@end

    // `entries.iter().map(move |..| ReadCtx{..})`: verified against the N2 shim for the Map adapter (see VClock::iter); the bounded
    // stand-in `orswot_iter` still runs.
//@extract fn src/orswot.rs "Orswot" iter
    pub fn iter(&self) -> /*@ (r: @*/ impl Iterator<Item = ReadCtx<&M, A>> /*@ ) @*/
    //@ ensures r.obeys_prophetic_iter_laws(), r.decrease() is Some,
    //@     // C07: one item per present member, each carrying the set clock as add context and the member's own clock as remove context
    //@     params_ok::<M, A>() ==> forall|i: int| 0 <= i < r.remaining().len() ==> {
    //@         let x = #[trigger] r.remaining()[i];
    //@         self.ents().contains_key(*x.val) && x.add_clock@ == self.cl() && x.rm_clock@ == self.ec(*x.val) },
    //@     params_ok::<M, A>() ==> forall|k: M| self.ents().contains_key(k) ==> exists|i: int| 0 <= i < r.remaining().len() && *(#[trigger] r.remaining()[i]).val == k,
    {
        //@ let ghost rel = |p: (&M, &VClock<A>), x: ReadCtx<&M, A>| x.val == p.0 && (params_ok::<M, A>() ==> x.add_clock@ == self.cl() && x.rm_clock@ == p.1@);
        /*@ let it0 = @*/ self.entries.iter() /*@ ; let ghost es = it0.remaining(); proof { crate::stdx5::axiom_hash_iter_finite(&it0); } let r0 = crate::stdx5::shim_iter_map_rel(it0, Ghost(rel), @*/ /*@<*/ .map( /*@>*/ move /*@<*/ | /*@>*/ /*@<pat*/ (m, clock) /*@>*/ /*@<*/ | /*@>*/ /*@ |p: (&M, &VClock<A>)| -> (o: ReadCtx<&M, A>) ensures rel(p, o) { let $pat = p; @*/ ReadCtx {
            add_clock: self.clock.clone(),
            rm_clock: clock.clone(),
            val: m,
        } /*@ } @*/ ) /*@ ; proof { if params_ok::<M, A>() { let rs = r0.remaining(); assert forall|i: int| 0 <= i < rs.len() implies ({ let x = #[trigger] rs[i]; self.ents().contains_key(*x.val) && x.add_clock@ == self.cl() && x.rm_clock@ == self.ec(*x.val) }) by { assert(rel(es[i], rs[i])); assert(self.ents().contains_key(*es[i].0)); } assert forall|k: M| self.ents().contains_key(k) implies exists|i: int| 0 <= i < rs.len() && *(#[trigger] rs[i]).val == k by { assert(es.contains((&k, &self.ents()[k]))); let i = choose|i: int| 0 <= i < es.len() && es[i] == (&k, &self.ents()[k]); assert(rel(es[i], rs[i])); } } } r0 @*/
    }
//@end

//@extract fn src/orswot.rs "Orswot" apply_rm
    fn apply_rm(&mut self, members: HashSet<M>, clock: VClock<A>)
    //@ requires params_ok::<M, A>(), old(self).wf(), nz(clock@),
    //@ ensures
    //@     final(self).wf(),
    //@     final(self).cl() == old(self).cl(),
    //@     // every named member forgets the dots the remove context covers (and disappears when none is left)
    //@     forall|m: M| #[trigger] final(self).ec(m) == (if members@.contains(m) { vsub(old(self).ec(m), clock@) } else { old(self).ec(m) }),
    //@     // a remove whose context is not yet covered by the replica clock is remembered
    //@     final(self).defs() == (if vle(clock@, old(self).cl()) { old(self).defs() } else { old(self).defs().insert(clock, final(self).defs()[clock]) }),
    //@     !vle(clock@, old(self).cl()) ==> final(self).defs().contains_key(clock) && final(self).defs()[clock]@ == old(self).dm(clock).union(members@),
    {
        //@ let mit = members.iter();
        //@ let ghost sq0 = mit.remaining();
        for member in /*@ it: mit @*/ /*@<*/ members.iter() /*@>*/
        //@ invariant
        //@     params_ok::<M, A>(), self.wf(), nz(clock@), it.seq() == sq0,
        //@     self.cl() == old(self).cl(), self.defs() == old(self).defs(),
        //@     it.seq().unref().to_set() == members@,
        //@     forall|m: M| #[trigger] self.ec(m) == (if exists|j: int| 0 <= j < it.index@ && *it.seq()[j] == m { vsub(old(self).ec(m), clock@) } else { old(self).ec(m) }),
        {
            //@ let ghost pre = *self;
            //@ let ghost idx = it.index@;
            //@ let ghost sq = it.seq();
            if let Some(member_clock) = self.entries.get_mut(member) {
                //@ let ghost mc0 = member_clock@;
                //@ proof { assert(pre.ents().contains_key(*member)); assert(mc0 == pre.ents()[*member]@); }
                member_clock.reset_remove(&clock);
                //@ proof { assert(member_clock@ == vsub(mc0, clock@)); c10_vsub_nz(mc0, clock@); }
                if member_clock.is_empty() {
                    self.entries.remove(member);
                }
            }
            //@ proof { lemma_apply_rm_step(pre, *self, *old(self), *member, clock@, sq, idx); }
        }

        //@ proof { assert forall|m: M| #[trigger] self.ec(m) == (if members@.contains(m) { vsub(old(self).ec(m), clock@) } else { old(self).ec(m) }) by { lemma_unref_to_set(sq0, members@, m); } }
        //@ let ghost mid = *self;
        //@ proof { lemma_pcmp_code(clock@, self.clock@); }
        match clock.partial_cmp(&self.clock) {
            None | Some(Ordering::Greater) => {
                //@ proof { assert(!vle(clock@, self.clock@)); }
                if let Some(existing_deferred) = self.deferred.get_mut(&clock) {
                    /*@ shim_hashset_extend( @*/ existing_deferred /*@<*/ .extend( /*@>*/ /*@ , @*/ members);
                } else {
                    self.deferred.insert(clock, members);
                }
            }
            _ => { /* we've already seen this remove */
                //@ proof { assert(vle(clock@, self.clock@)); }
            }
        }
        //@ proof { assert(self.ents() == mid.ents()); assert forall|m: M| #[trigger] self.ec(m) == mid.ec(m) by {} }
    }
//@end

//@extract fn src/orswot.rs "Orswot" apply_deferred
    fn apply_deferred(&mut self)
    //@ requires params_ok::<M, A>(), old(self).wf(),
    //@ ensures
    //@     final(self).wf(), final(self).cl() == old(self).cl(),
    //@     // every pending remove is re-applied: a witness dot survives iff no pending remove naming the member covers it
    //@     forall|m: M, a: A| #![trigger cnt(final(self).ec(m), a)] cnt(final(self).ec(m), a) == (if covered_by(old(self).defs(), m, a, cnt(old(self).ec(m), a)) { 0 } else { cnt(old(self).ec(m), a) }),
    //@     // and exactly the removes not yet covered by the replica clock stay pending
    //@     forall|k: VClock<A>| #![trigger final(self).defs().contains_key(k)] final(self).defs().contains_key(k) <==> (old(self).defs().contains_key(k) && !vle(k@, old(self).cl())),
    //@     forall|k: VClock<A>| #![trigger final(self).defs()[k]] final(self).defs().contains_key(k) ==> final(self).defs()[k]@ == old(self).defs()[k]@,
    {
        let deferred = mem::take(&mut self.deferred);
        //@ let ghost d0 = deferred@;
        //@ let v = shim_hashmap_into_vec(deferred);
        //@ let ghost vs = v@;
        for (clock, entries) in /*@ it: v @*/ /*@<*/ deferred.into_iter() /*@>*/
        //@ invariant
        //@     params_ok::<M, A>(), self.wf(), old(self).wf(), self.cl() == old(self).cl(), it.seq() == vs, d0 == old(self).defs(),
        //@     forall|i: int| 0 <= i < vs.len() ==> d0.contains_key((#[trigger] vs[i]).0) && d0[vs[i].0] == vs[i].1,
        //@     forall|i: int, j: int| 0 <= i < j < vs.len() ==> (#[trigger] vs[i]).0 != (#[trigger] vs[j]).0,
        //@     forall|k: VClock<A>| d0.contains_key(k) ==> exists|i: int| 0 <= i < vs.len() && (#[trigger] vs[i]).0 == k,
        //@     forall|m: M, a: A| #![trigger cnt(self.ec(m), a)] cnt(self.ec(m), a) == (if covered_upto(vs, it.index@, m, a, cnt(old(self).ec(m), a)) { 0 } else { cnt(old(self).ec(m), a) }),
        //@     forall|k: VClock<A>| #![trigger self.defs().contains_key(k)] self.defs().contains_key(k) <==> (exists|j: int| 0 <= j < it.index@ && (#[trigger] vs[j]).0 == k && !vle(k@, self.cl())),
        //@     forall|j: int| 0 <= j < it.index@ && self.defs().contains_key((#[trigger] vs[j]).0) ==> self.defs()[vs[j].0]@ == vs[j].1@,
        {
            //@ let ghost pre = *self;
            //@ proof { assert(clock == vs[it.index@].0); assert(d0.contains_key(vs[it.index@].0)); assert(old(self).deferred@.contains_key(clock)); assert(old(self).wf()); assert(nz(clock@)); }
            self.apply_rm(entries, clock)
            //@ ; proof { lemma_apply_deferred_step(*old(self), pre, *self, vs, it.index@); }
        }
        //@ proof { lemma_apply_deferred_done(*old(self), *self, vs); }
    }
//@end
}


pub proof fn lemma_unref_to_set<M>(sq: Seq<&M>, s: SSet<M>, m: M)
    requires sq.unref().to_set() == s,
    ensures s.contains(m) <==> (exists|j: int| 0 <= j < sq.len() && *sq[j] == m),
{
    let u = sq.unref();
    if s.contains(m) {
        assert(u.to_set().contains(m));
        assert(u.contains(m));
        let j = choose|j: int| 0 <= j < u.len() && u[j] == m;
        assert(*sq[j] == m);
    }
    if exists|j: int| 0 <= j < sq.len() && *sq[j] == m {
        let j = choose|j: int| 0 <= j < sq.len() && *sq[j] == m;
        assert(u[j] == m);
        assert(u.contains(m));
    }
}

/// some pending remove in `d` names member m and covers its dot (a, n)
pub open spec fn covered_by<M, A: Ord>(d: SMap<VClock<A>, HashSet<M>>, m: M, a: A, n: u64) -> bool {
    exists|k: VClock<A>| #[trigger] d.contains_key(k) && d[k]@.contains(m) && cnt(k@, a) >= n
}
pub open spec fn covered_upto<M, A: Ord>(vs: Seq<(VClock<A>, HashSet<M>)>, idx: int, m: M, a: A, n: u64) -> bool {
    exists|j: int| 0 <= j < idx && (#[trigger] vs[j]).1@.contains(m) && cnt(vs[j].0@, a) >= n
}

pub proof fn lemma_apply_deferred_step<M: Hash + Eq, A: Ord + Hash>(old_: Orswot<M, A>, pre: Orswot<M, A>, post: Orswot<M, A>, vs: Seq<(VClock<A>, HashSet<M>)>, idx: int)
    requires
        0 <= idx < vs.len(), pre.wf(), post.wf(), post.cl() == pre.cl(),
        forall|i: int, j: int| 0 <= i < j < vs.len() ==> (#[trigger] vs[i]).0 != (#[trigger] vs[j]).0,
        forall|m: M, a: A| #![trigger cnt(pre.ec(m), a)] cnt(pre.ec(m), a) == (if covered_upto(vs, idx, m, a, cnt(old_.ec(m), a)) { 0 } else { cnt(old_.ec(m), a) }),
        forall|k: VClock<A>| #![trigger pre.defs().contains_key(k)] pre.defs().contains_key(k) <==> (exists|j: int| 0 <= j < idx && (#[trigger] vs[j]).0 == k && !vle(k@, pre.cl())),
        forall|j: int| 0 <= j < idx && pre.defs().contains_key((#[trigger] vs[j]).0) ==> pre.defs()[vs[j].0]@ == vs[j].1@,
        // what apply_rm(vs[idx].1, vs[idx].0) guarantees
        forall|m: M| #[trigger] post.ec(m) == (if vs[idx].1@.contains(m) { vsub(pre.ec(m), vs[idx].0@) } else { pre.ec(m) }),
        post.defs() == (if vle(vs[idx].0@, pre.cl()) { pre.defs() } else { pre.defs().insert(vs[idx].0, post.defs()[vs[idx].0]) }),
        !vle(vs[idx].0@, pre.cl()) ==> post.defs().contains_key(vs[idx].0) && post.defs()[vs[idx].0]@ == pre.dm(vs[idx].0).union(vs[idx].1@),
    ensures
        forall|m: M, a: A| #![trigger cnt(post.ec(m), a)] cnt(post.ec(m), a) == (if covered_upto(vs, idx + 1, m, a, cnt(old_.ec(m), a)) { 0 } else { cnt(old_.ec(m), a) }),
        forall|k: VClock<A>| #![trigger post.defs().contains_key(k)] post.defs().contains_key(k) <==> (exists|j: int| 0 <= j < idx + 1 && (#[trigger] vs[j]).0 == k && !vle(k@, post.cl())),
        forall|j: int| 0 <= j < idx + 1 && post.defs().contains_key((#[trigger] vs[j]).0) ==> post.defs()[vs[j].0]@ == vs[j].1@,
{
    let kc = vs[idx].0;
    let ks = vs[idx].1@;
    assert forall|m: M, a: A| #![trigger cnt(post.ec(m), a)] cnt(post.ec(m), a) == (if covered_upto(vs, idx + 1, m, a, cnt(old_.ec(m), a)) { 0 } else { cnt(old_.ec(m), a) }) by {
        let n = cnt(old_.ec(m), a);
        assert(cnt(pre.ec(m), a) == (if covered_upto(vs, idx, m, a, n) { 0 } else { n }));
        assert(post.ec(m) == (if ks.contains(m) { vsub(pre.ec(m), kc@) } else { pre.ec(m) }));
        if covered_upto(vs, idx, m, a, n) {
            let j = choose|j: int| 0 <= j < idx && (#[trigger] vs[j]).1@.contains(m) && cnt(vs[j].0@, a) >= n;
            assert(0 <= j < idx + 1 && vs[j].1@.contains(m) && cnt(vs[j].0@, a) >= n);
        }
        if ks.contains(m) && cnt(kc@, a) >= n {
            assert(0 <= idx < idx + 1 && vs[idx].1@.contains(m) && cnt(vs[idx].0@, a) >= n);
        }
        if covered_upto(vs, idx + 1, m, a, n) && !covered_upto(vs, idx, m, a, n) {
            let j = choose|j: int| 0 <= j < idx + 1 && (#[trigger] vs[j]).1@.contains(m) && cnt(vs[j].0@, a) >= n;
            assert(j == idx);
        }
    }
    // the key of this step was not pending before (keys are pairwise distinct)
    assert(!pre.defs().contains_key(kc)) by {
        if pre.defs().contains_key(kc) {
            let j = choose|j: int| 0 <= j < idx && (#[trigger] vs[j]).0 == kc && !vle(kc@, pre.cl());
            assert(vs[j].0 != vs[idx].0);
        }
    }
    assert forall|k: VClock<A>| #![trigger post.defs().contains_key(k)] post.defs().contains_key(k) <==> (exists|j: int| 0 <= j < idx + 1 && (#[trigger] vs[j]).0 == k && !vle(k@, post.cl())) by {
        if post.defs().contains_key(k) {
            if k == kc && !vle(kc@, pre.cl()) {
                assert(0 <= idx < idx + 1 && vs[idx].0 == k && !vle(k@, post.cl()));
            } else {
                assert(pre.defs().contains_key(k));
                let j = choose|j: int| 0 <= j < idx && (#[trigger] vs[j]).0 == k && !vle(k@, pre.cl());
                assert(0 <= j < idx + 1 && vs[j].0 == k && !vle(k@, post.cl()));
            }
        }
        if exists|j: int| 0 <= j < idx + 1 && (#[trigger] vs[j]).0 == k && !vle(k@, post.cl()) {
            let j = choose|j: int| 0 <= j < idx + 1 && (#[trigger] vs[j]).0 == k && !vle(k@, post.cl());
            if j < idx { assert(pre.defs().contains_key(k)); } else { assert(k == kc); }
        }
    }
    assert forall|j: int| 0 <= j < idx + 1 && post.defs().contains_key((#[trigger] vs[j]).0) implies post.defs()[vs[j].0]@ == vs[j].1@ by {
        if j == idx {
            assert(pre.dm(kc) =~= SSet::<M>::empty());
            assert(pre.dm(kc).union(ks) =~= ks);
        } else {
            assert(vs[j].0 != vs[idx].0);
            assert(pre.defs().contains_key(vs[j].0));
        }
    }
}

pub proof fn lemma_apply_deferred_done<M: Hash + Eq, A: Ord + Hash>(old_: Orswot<M, A>, post: Orswot<M, A>, vs: Seq<(VClock<A>, HashSet<M>)>)
    requires
        post.cl() == old_.cl(),
        forall|i: int| 0 <= i < vs.len() ==> old_.defs().contains_key((#[trigger] vs[i]).0) && old_.defs()[vs[i].0] == vs[i].1,
        forall|k: VClock<A>| old_.defs().contains_key(k) ==> exists|i: int| 0 <= i < vs.len() && (#[trigger] vs[i]).0 == k,
        forall|m: M, a: A| #![trigger cnt(post.ec(m), a)] cnt(post.ec(m), a) == (if covered_upto(vs, vs.len() as int, m, a, cnt(old_.ec(m), a)) { 0 } else { cnt(old_.ec(m), a) }),
        forall|k: VClock<A>| #![trigger post.defs().contains_key(k)] post.defs().contains_key(k) <==> (exists|j: int| 0 <= j < vs.len() && (#[trigger] vs[j]).0 == k && !vle(k@, post.cl())),
        forall|j: int| 0 <= j < vs.len() && post.defs().contains_key((#[trigger] vs[j]).0) ==> post.defs()[vs[j].0]@ == vs[j].1@,
    ensures
        forall|m: M, a: A| #![trigger cnt(post.ec(m), a)] cnt(post.ec(m), a) == (if covered_by(old_.defs(), m, a, cnt(old_.ec(m), a)) { 0 } else { cnt(old_.ec(m), a) }),
        forall|k: VClock<A>| #![trigger post.defs().contains_key(k)] post.defs().contains_key(k) <==> (old_.defs().contains_key(k) && !vle(k@, old_.cl())),
        forall|k: VClock<A>| #![trigger post.defs()[k]] post.defs().contains_key(k) ==> post.defs()[k]@ == old_.defs()[k]@,
{
    let d = old_.defs();
    assert forall|m: M, a: A| #![trigger cnt(post.ec(m), a)] cnt(post.ec(m), a) == (if covered_by(d, m, a, cnt(old_.ec(m), a)) { 0 } else { cnt(old_.ec(m), a) }) by {
        let n = cnt(old_.ec(m), a);
        if covered_by(d, m, a, n) {
            let k = choose|k: VClock<A>| #[trigger] d.contains_key(k) && d[k]@.contains(m) && cnt(k@, a) >= n;
            let i = choose|i: int| 0 <= i < vs.len() && (#[trigger] vs[i]).0 == k;
            assert(vs[i].1@.contains(m) && cnt(vs[i].0@, a) >= n);
        }
        if covered_upto(vs, vs.len() as int, m, a, n) {
            let j = choose|j: int| 0 <= j < vs.len() && (#[trigger] vs[j]).1@.contains(m) && cnt(vs[j].0@, a) >= n;
            assert(d.contains_key(vs[j].0) && d[vs[j].0]@.contains(m));
        }
    }
    assert forall|k: VClock<A>| #![trigger post.defs().contains_key(k)] post.defs().contains_key(k) <==> (d.contains_key(k) && !vle(k@, old_.cl())) by {
        if post.defs().contains_key(k) {
            let j = choose|j: int| 0 <= j < vs.len() && (#[trigger] vs[j]).0 == k && !vle(k@, post.cl());
            assert(d.contains_key(vs[j].0));
        }
        if d.contains_key(k) && !vle(k@, old_.cl()) {
            let i = choose|i: int| 0 <= i < vs.len() && (#[trigger] vs[i]).0 == k;
            assert(0 <= i < vs.len() && vs[i].0 == k && !vle(k@, post.cl()));
        }
    }
    assert forall|k: VClock<A>| #![trigger post.defs()[k]] post.defs().contains_key(k) implies post.defs()[k]@ == d[k]@ by {
        let j = choose|j: int| 0 <= j < vs.len() && (#[trigger] vs[j]).0 == k && !vle(k@, post.cl());
        assert(post.defs().contains_key(vs[j].0));
        assert(d[vs[j].0] == vs[j].1);
    }
}

pub proof fn lemma_apply_add_step<M: Hash + Eq, A: Ord + Hash>(old_: Orswot<M, A>, pre: Orswot<M, A>, post: Orswot<M, A>, ms: Seq<M>, idx: int, a: A, n: u64)
    requires
        0 <= idx < ms.len(), pre.wf(), n > 0,
        forall|m: M| #[trigger] pre.ec(m) == (if exists|j: int| 0 <= j < idx && ms[j] == m { vapp(old_.ec(m), a, n) } else { old_.ec(m) }),
        post.cl() == pre.cl(), post.defs() == pre.defs(),
        post.ents().contains_key(ms[idx]), post.ents()[ms[idx]]@ == vapp(pre.ec(ms[idx]), a, n),
        forall|m: M| #![trigger post.ents().contains_key(m)] m != ms[idx] ==> (post.ents().contains_key(m) == pre.ents().contains_key(m)),
        forall|m: M| #![trigger post.ents()[m]] m != ms[idx] && post.ents().contains_key(m) ==> post.ents()[m] == pre.ents()[m],
    ensures
        post.wf(),
        forall|m: M| #[trigger] post.ec(m) == (if exists|j: int| 0 <= j < idx + 1 && ms[j] == m { vapp(old_.ec(m), a, n) } else { old_.ec(m) }),
{
    let member = ms[idx];
    assert forall|m: M| #[trigger] post.ec(m) == (if exists|j: int| 0 <= j < idx + 1 && ms[j] == m { vapp(old_.ec(m), a, n) } else { old_.ec(m) }) by {
        if m == member {
            assert(0 <= idx < idx + 1 && ms[idx] == m);
            assert(post.ec(m) == vapp(pre.ec(m), a, n));
            if exists|j: int| 0 <= j < idx && ms[j] == m {
                assert(pre.ec(m) == vapp(old_.ec(m), a, n));
                assert(vapp(vapp(old_.ec(m), a, n), a, n) =~= vapp(old_.ec(m), a, n));
            } else {
                assert(pre.ec(m) == old_.ec(m));
            }
        } else {
            assert(post.ents().contains_key(m) == pre.ents().contains_key(m));
            if post.ents().contains_key(m) { assert(post.ents()[m] == pre.ents()[m]); }
            assert(post.ec(m) == pre.ec(m));
            if exists|j: int| 0 <= j < idx + 1 && ms[j] == m {
                let j = choose|j: int| 0 <= j < idx + 1 && ms[j] == m;
                assert(j < idx);
            }
        }
    }
    assert forall|m: M| post.ents().contains_key(m) implies nz(#[trigger] post.ents()[m]@) && post.ents()[m]@ != SMap::<A, u64>::empty() by {
        if m != member { assert(pre.ents().contains_key(m)); assert(post.ents()[m] == pre.ents()[m]); }
        else {
            let e = pre.ec(member);
            let e2 = vapp(e, a, n);
            assert(nz(e)) by { if pre.ents().contains_key(member) { assert(nz(pre.ents()[member]@)); } }
            assert forall|b: A| e2.contains_key(b) implies #[trigger] e2[b] > 0 by { if b != a { assert(e.contains_key(b)); } }
            if cnt(e, a) < n { assert(e2.contains_key(a)); } else { assert(e.contains_key(a)); }
        }
    }
}

pub proof fn lemma_add_mid_wf<M: Hash + Eq, A: Ord + Hash>(s: Orswot<M, A>)
    ensures true,
{}

/// result relation of the pass-1 closure of merge
pub open spec fn keep1_ok<M, A: Ord>(p: (M, VClock<A>), o: Option<(M, VClock<A>)>, other_has: bool, oc: SMap<A, u64>) -> bool {
    if other_has { o == Some(p) }
    else if vle(p.1@, oc) { o is None }
    else { o matches Some(q) && q.0 == p.0 && q.1@ == vsub(p.1@, oc) }
}

pub proof fn lemma_cnt_vsub<A>(x: SMap<A, u64>, c: SMap<A, u64>, a: A)
    ensures cnt(vsub(x, c), a) == (if cnt(x, a) > cnt(c, a) { cnt(x, a) } else if x.contains_key(a) && x[a] > cnt(c, a) { x[a] } else { 0 }),
{}

pub proof fn lemma_merge_pass1<M: Hash + Eq, A: Ord + Hash>(old_: Orswot<M, A>, other: Orswot<M, A>, s1: Orswot<M, A>)
    requires
        old_.wf(), other.wf(), s1.cl() == old_.cl(), s1.defs() == old_.defs(),
        forall|k: M| #[trigger] s1.ents().contains_key(k) ==> old_.ents().contains_key(k) && keep1_ok((k, old_.ents()[k]), Some((k, s1.ents()[k])), other.ents().contains_key(k), other.cl()),
        forall|k: M| #[trigger] old_.ents().contains_key(k) && !s1.ents().contains_key(k) ==> keep1_ok((k, old_.ents()[k]), None, other.ents().contains_key(k), other.cl()),
    ensures
        s1.wf(),
        forall|m: M, a: A| #![trigger cnt(s1.ec(m), a)] cnt(s1.ec(m), a) == (if other.ents().contains_key(m) { cnt(old_.ec(m), a) } else { mrg(cnt(old_.ec(m), a), 0, cnt(old_.cl(), a), cnt(other.cl(), a)) }),
        forall|m: M| other.ents().contains_key(m) ==> #[trigger] s1.ec(m) == old_.ec(m) && s1.ents().contains_key(m) == old_.ents().contains_key(m),
{
    let oc = other.cl();
    assert forall|m: M| s1.ents().contains_key(m) implies nz(#[trigger] s1.ents()[m]@) && s1.ents()[m]@ != SMap::<A, u64>::empty() by {
        assert(old_.ents().contains_key(m));
        let e = old_.ents()[m]@;
        assert(nz(e) && e != SMap::<A, u64>::empty());
        if !other.ents().contains_key(m) {
            assert(!vle(e, oc));
            c10_vsub_nz(e, oc);
            // some entry of e exceeds oc, so the difference is not empty
            let a = choose|a: A| !(cnt(e, a) <= cnt(oc, a));
            assert(vsub(e, oc).contains_key(a));
        }
    }
    assert forall|m: M, a: A| #![trigger cnt(s1.ec(m), a)] cnt(s1.ec(m), a) == (if other.ents().contains_key(m) { cnt(old_.ec(m), a) } else { mrg(cnt(old_.ec(m), a), 0, cnt(old_.cl(), a), cnt(oc, a)) }) by {
        let e = old_.ec(m);
        if old_.ents().contains_key(m) {
            assert(nz(old_.ents()[m]@));
            if s1.ents().contains_key(m) {
                if !other.ents().contains_key(m) { lemma_cnt_vsub(e, oc, a); }
            } else {
                assert(keep1_ok((m, old_.ents()[m]), None::<(M, VClock<A>)>, other.ents().contains_key(m), oc));
                assert(!other.ents().contains_key(m) && vle(e, oc));
                assert(cnt(e, a) <= cnt(oc, a));
            }
        } else {
            assert(!s1.ents().contains_key(m));
        }
    }
    assert forall|m: M| other.ents().contains_key(m) implies #[trigger] s1.ec(m) == old_.ec(m) && s1.ents().contains_key(m) == old_.ents().contains_key(m) by {
        if old_.ents().contains_key(m) {
            if !s1.ents().contains_key(m) { assert(keep1_ok((m, old_.ents()[m]), None::<(M, VClock<A>)>, true, oc)); }
        }
    }
}

/// the "common" clock computed for a member present on both sides is the per-actor rule `mrg`
pub proof fn lemma_common<A>(common: SMap<A, u64>, eo: SMap<A, u64>, es: SMap<A, u64>, cs: SMap<A, u64>, co: SMap<A, u64>)
    requires
        nz(eo), nz(es), nz(common),
        exists|i1: SMap<A, u64>| #[trigger] is_join(i1, vinter(eo, es), vsub(eo, cs)) && is_join(common, i1, vsub(es, co)),
    ensures
        forall|a: A| #[trigger] cnt(common, a) == mrg(cnt(es, a), cnt(eo, a), cnt(cs, a), cnt(co, a)),
{
    let i1 = choose|i1: SMap<A, u64>| #[trigger] is_join(i1, vinter(eo, es), vsub(eo, cs)) && is_join(common, i1, vsub(es, co));
    assert forall|a: A| #[trigger] cnt(common, a) == mrg(cnt(es, a), cnt(eo, a), cnt(cs, a), cnt(co, a)) by {
        assert(cnt(common, a) == max64(cnt(i1, a), cnt(vsub(es, co), a)));
        assert(cnt(i1, a) == max64(cnt(vinter(eo, es), a), cnt(vsub(eo, cs), a)));
        lemma_cnt_vsub(es, co, a);
        lemma_cnt_vsub(eo, cs, a);
        if eo.contains_key(a) { assert(eo[a] > 0); }
        if es.contains_key(a) { assert(es[a] > 0); }
    }
}

pub proof fn lemma_join_nz<A>(z: SMap<A, u64>, x: SMap<A, u64>, y: SMap<A, u64>)
    requires is_join(z, x, y),
    ensures true,
{}

pub proof fn lemma_merge_pass2_step<M: Hash + Eq, A: Ord + Hash>(old_: Orswot<M, A>, other: Orswot<M, A>, s1: Orswot<M, A>, pre: Orswot<M, A>, post: Orswot<M, A>, ovs: Seq<(M, VClock<A>)>, idx: int)
    requires
        0 <= idx < ovs.len(), pre.wf(), old_.wf(), other.wf(),
        forall|i: int| 0 <= i < ovs.len() ==> other.ents().contains_key((#[trigger] ovs[i]).0) && other.ents()[ovs[i].0] == ovs[i].1,
        forall|i: int, j: int| 0 <= i < j < ovs.len() ==> (#[trigger] ovs[i]).0 != (#[trigger] ovs[j]).0,
        forall|m: M| other.ents().contains_key(m) ==> #[trigger] s1.ec(m) == old_.ec(m),
        forall|m: M, a: A| #![trigger cnt(pre.ec(m), a)] cnt(pre.ec(m), a) == (
            if exists|j: int| 0 <= j < idx && (#[trigger] ovs[j]).0 == m { mrg(cnt(old_.ec(m), a), cnt(other.ec(m), a), cnt(old_.cl(), a), cnt(other.cl(), a)) }
            else { cnt(s1.ec(m), a) }),
        post.cl() == pre.cl(), post.defs() == pre.defs(),
        forall|m: M| #![trigger post.ents().contains_key(m)] m != ovs[idx].0 ==> (post.ents().contains_key(m) == pre.ents().contains_key(m)),
        forall|m: M| #![trigger post.ents()[m]] m != ovs[idx].0 && post.ents().contains_key(m) ==> post.ents()[m] == pre.ents()[m],
        forall|a: A| #[trigger] cnt(post.ec(ovs[idx].0), a) == mrg(cnt(pre.ec(ovs[idx].0), a), cnt(ovs[idx].1@, a), cnt(old_.cl(), a), cnt(other.cl(), a)),
        post.ents().contains_key(ovs[idx].0) ==> nz(post.ents()[ovs[idx].0]@) && post.ents()[ovs[idx].0]@ != SMap::<A, u64>::empty(),
    ensures
        post.wf(),
        forall|m: M, a: A| #![trigger cnt(post.ec(m), a)] cnt(post.ec(m), a) == (
            if exists|j: int| 0 <= j < idx + 1 && (#[trigger] ovs[j]).0 == m { mrg(cnt(old_.ec(m), a), cnt(other.ec(m), a), cnt(old_.cl(), a), cnt(other.cl(), a)) }
            else { cnt(s1.ec(m), a) }),
{
    let me = ovs[idx].0;
    assert(other.ents().contains_key(me) && other.ents()[me] == ovs[idx].1);
    assert forall|m: M, a: A| #![trigger cnt(post.ec(m), a)] cnt(post.ec(m), a) == (
            if exists|j: int| 0 <= j < idx + 1 && (#[trigger] ovs[j]).0 == m { mrg(cnt(old_.ec(m), a), cnt(other.ec(m), a), cnt(old_.cl(), a), cnt(other.cl(), a)) }
            else { cnt(s1.ec(m), a) }) by {
        if m == me {
            assert(0 <= idx < idx + 1 && ovs[idx].0 == m);
            // not visited before: keys are distinct
            assert(!(exists|j: int| 0 <= j < idx && (#[trigger] ovs[j]).0 == m)) by {
                if exists|j: int| 0 <= j < idx && (#[trigger] ovs[j]).0 == m {
                    let j = choose|j: int| 0 <= j < idx && (#[trigger] ovs[j]).0 == m;
                    assert(ovs[j].0 != ovs[idx].0);
                }
            }
            assert(cnt(pre.ec(m), a) == cnt(s1.ec(m), a));
            assert(s1.ec(m) == old_.ec(m));
            assert(other.ec(m) == ovs[idx].1@);
        } else {
            assert(post.ents().contains_key(m) == pre.ents().contains_key(m));
            if post.ents().contains_key(m) { assert(post.ents()[m] == pre.ents()[m]); }
            assert(post.ec(m) == pre.ec(m));
            if exists|j: int| 0 <= j < idx + 1 && (#[trigger] ovs[j]).0 == m {
                let j = choose|j: int| 0 <= j < idx + 1 && (#[trigger] ovs[j]).0 == m;
                assert(j < idx);
            }
        }
    }
    assert forall|m: M| post.ents().contains_key(m) implies nz(#[trigger] post.ents()[m]@) && post.ents()[m]@ != SMap::<A, u64>::empty() by {
        if m != me { assert(pre.ents().contains_key(m)); assert(post.ents()[m] == pre.ents()[m]); }
    }
}

pub proof fn lemma_merge_pass2_done<M: Hash + Eq, A: Ord + Hash>(old_: Orswot<M, A>, other: Orswot<M, A>, s1: Orswot<M, A>, s2: Orswot<M, A>, ovs: Seq<(M, VClock<A>)>)
    requires
        forall|k: M| other.ents().contains_key(k) ==> exists|i: int| 0 <= i < ovs.len() && (#[trigger] ovs[i]).0 == k,
        forall|i: int| 0 <= i < ovs.len() ==> other.ents().contains_key((#[trigger] ovs[i]).0),
        forall|m: M, a: A| #![trigger cnt(s1.ec(m), a)] cnt(s1.ec(m), a) == (if other.ents().contains_key(m) { cnt(old_.ec(m), a) } else { mrg(cnt(old_.ec(m), a), 0, cnt(old_.cl(), a), cnt(other.cl(), a)) }),
        forall|m: M, a: A| #![trigger cnt(s2.ec(m), a)] cnt(s2.ec(m), a) == (
            if exists|j: int| 0 <= j < ovs.len() && (#[trigger] ovs[j]).0 == m { mrg(cnt(old_.ec(m), a), cnt(other.ec(m), a), cnt(old_.cl(), a), cnt(other.cl(), a)) }
            else { cnt(s1.ec(m), a) }),
    ensures
        forall|m: M, a: A| #![trigger cnt(s2.ec(m), a)] cnt(s2.ec(m), a) == mrg(cnt(old_.ec(m), a), cnt(other.ec(m), a), cnt(old_.cl(), a), cnt(other.cl(), a)),
{
    assert forall|m: M, a: A| #![trigger cnt(s2.ec(m), a)] cnt(s2.ec(m), a) == mrg(cnt(old_.ec(m), a), cnt(other.ec(m), a), cnt(old_.cl(), a), cnt(other.cl(), a)) by {
        if other.ents().contains_key(m) {
            let i = choose|i: int| 0 <= i < ovs.len() && (#[trigger] ovs[i]).0 == m;
        } else {
            assert(!(exists|j: int| 0 <= j < ovs.len() && (#[trigger] ovs[j]).0 == m));
            assert(cnt(s2.ec(m), a) == cnt(s1.ec(m), a));
            assert(other.ec(m) == SMap::<A, u64>::empty());
        }
    }
}

pub proof fn lemma_merge_pass3_step<M: Hash + Eq, A: Ord + Hash>(old_: Orswot<M, A>, other: Orswot<M, A>, s2: Orswot<M, A>, pre: Orswot<M, A>, post: Orswot<M, A>, dvs: Seq<(VClock<A>, HashSet<M>)>, idx: int)
    requires
        0 <= idx < dvs.len(), pre.wf(), post.wf(), post.cl() == pre.cl(), pre.cl() == old_.cl(),
        forall|i: int| 0 <= i < dvs.len() ==> other.defs().contains_key((#[trigger] dvs[i]).0) && other.defs()[dvs[i].0] == dvs[i].1,
        forall|i: int, j: int| 0 <= i < j < dvs.len() ==> (#[trigger] dvs[i]).0 != (#[trigger] dvs[j]).0,
        forall|m: M, a: A| #![trigger cnt(pre.ec(m), a)] cnt(pre.ec(m), a) == (if covered_upto(dvs, idx, m, a, cnt(s2.ec(m), a)) { 0 } else { cnt(s2.ec(m), a) }),
        forall|k: VClock<A>| #![trigger pre.defs().contains_key(k)] pre.defs().contains_key(k) <==> (old_.defs().contains_key(k) || exists|j: int| 0 <= j < idx && (#[trigger] dvs[j]).0 == k && !vle(k@, pre.cl())),
        forall|k: VClock<A>| #![trigger pre.dm(k)] pre.dm(k) == old_.dm(k).union(if exists|j: int| 0 <= j < idx && (#[trigger] dvs[j]).0 == k && !vle(k@, pre.cl()) { other.dm(k) } else { SSet::<M>::empty() }),
        // apply_rm(dvs[idx].1, dvs[idx].0)
        forall|m: M| #[trigger] post.ec(m) == (if dvs[idx].1@.contains(m) { vsub(pre.ec(m), dvs[idx].0@) } else { pre.ec(m) }),
        post.defs() == (if vle(dvs[idx].0@, pre.cl()) { pre.defs() } else { pre.defs().insert(dvs[idx].0, post.defs()[dvs[idx].0]) }),
        !vle(dvs[idx].0@, pre.cl()) ==> post.defs().contains_key(dvs[idx].0) && post.defs()[dvs[idx].0]@ == pre.dm(dvs[idx].0).union(dvs[idx].1@),
    ensures
        forall|m: M, a: A| #![trigger cnt(post.ec(m), a)] cnt(post.ec(m), a) == (if covered_upto(dvs, idx + 1, m, a, cnt(s2.ec(m), a)) { 0 } else { cnt(s2.ec(m), a) }),
        forall|k: VClock<A>| #![trigger post.defs().contains_key(k)] post.defs().contains_key(k) <==> (old_.defs().contains_key(k) || exists|j: int| 0 <= j < idx + 1 && (#[trigger] dvs[j]).0 == k && !vle(k@, post.cl())),
        forall|k: VClock<A>| #![trigger post.dm(k)] post.dm(k) == old_.dm(k).union(if exists|j: int| 0 <= j < idx + 1 && (#[trigger] dvs[j]).0 == k && !vle(k@, post.cl()) { other.dm(k) } else { SSet::<M>::empty() }),
{
    let kc = dvs[idx].0;
    let ks = dvs[idx].1@;
    assert(other.defs().contains_key(kc) && other.defs()[kc] == dvs[idx].1);
    assert(other.dm(kc) == ks);
    assert forall|m: M, a: A| #![trigger cnt(post.ec(m), a)] cnt(post.ec(m), a) == (if covered_upto(dvs, idx + 1, m, a, cnt(s2.ec(m), a)) { 0 } else { cnt(s2.ec(m), a) }) by {
        let n = cnt(s2.ec(m), a);
        assert(cnt(pre.ec(m), a) == (if covered_upto(dvs, idx, m, a, n) { 0 } else { n }));
        assert(post.ec(m) == (if ks.contains(m) { vsub(pre.ec(m), kc@) } else { pre.ec(m) }));
        lemma_cnt_vsub(pre.ec(m), kc@, a);
        if covered_upto(dvs, idx, m, a, n) {
            let j = choose|j: int| 0 <= j < idx && (#[trigger] dvs[j]).1@.contains(m) && cnt(dvs[j].0@, a) >= n;
            assert(0 <= j < idx + 1 && dvs[j].1@.contains(m) && cnt(dvs[j].0@, a) >= n);
        }
        if ks.contains(m) && cnt(kc@, a) >= n {
            assert(0 <= idx < idx + 1 && dvs[idx].1@.contains(m) && cnt(dvs[idx].0@, a) >= n);
        }
        if covered_upto(dvs, idx + 1, m, a, n) && !covered_upto(dvs, idx, m, a, n) {
            let j = choose|j: int| 0 <= j < idx + 1 && (#[trigger] dvs[j]).1@.contains(m) && cnt(dvs[j].0@, a) >= n;
            assert(j == idx);
        }
    }
    // no earlier step handled the same key
    assert(!(exists|j: int| 0 <= j < idx && (#[trigger] dvs[j]).0 == kc && !vle(kc@, pre.cl()))) by {
        if exists|j: int| 0 <= j < idx && (#[trigger] dvs[j]).0 == kc && !vle(kc@, pre.cl()) {
            let j = choose|j: int| 0 <= j < idx && (#[trigger] dvs[j]).0 == kc && !vle(kc@, pre.cl());
            assert(dvs[j].0 != dvs[idx].0);
        }
    }
    assert forall|k: VClock<A>| #![trigger post.defs().contains_key(k)] post.defs().contains_key(k) <==> (old_.defs().contains_key(k) || exists|j: int| 0 <= j < idx + 1 && (#[trigger] dvs[j]).0 == k && !vle(k@, post.cl())) by {
        if post.defs().contains_key(k) {
            if k == kc && !vle(kc@, pre.cl()) {
                assert(0 <= idx < idx + 1 && dvs[idx].0 == k && !vle(k@, post.cl()));
            } else {
                assert(pre.defs().contains_key(k));
                if !old_.defs().contains_key(k) {
                    let j = choose|j: int| 0 <= j < idx && (#[trigger] dvs[j]).0 == k && !vle(k@, pre.cl());
                    assert(0 <= j < idx + 1 && dvs[j].0 == k && !vle(k@, post.cl()));
                }
            }
        }
        if old_.defs().contains_key(k) { assert(pre.defs().contains_key(k)); }
        if exists|j: int| 0 <= j < idx + 1 && (#[trigger] dvs[j]).0 == k && !vle(k@, post.cl()) {
            let j = choose|j: int| 0 <= j < idx + 1 && (#[trigger] dvs[j]).0 == k && !vle(k@, post.cl());
            if j < idx { assert(pre.defs().contains_key(k)); } else { assert(k == kc); }
        }
    }
    assert forall|k: VClock<A>| #![trigger post.dm(k)] post.dm(k) == old_.dm(k).union(if exists|j: int| 0 <= j < idx + 1 && (#[trigger] dvs[j]).0 == k && !vle(k@, post.cl()) { other.dm(k) } else { SSet::<M>::empty() }) by {
        let pd = pre.dm(k);
        assert(pd == old_.dm(k).union(if exists|j: int| 0 <= j < idx && (#[trigger] dvs[j]).0 == k && !vle(k@, pre.cl()) { other.dm(k) } else { SSet::<M>::empty() }));
        if k == kc {
            if !vle(kc@, pre.cl()) {
                assert(0 <= idx < idx + 1 && dvs[idx].0 == k && !vle(k@, post.cl()));
                assert(post.dm(k) == pre.dm(k).union(ks));
                assert(pre.dm(k) =~= old_.dm(k).union(SSet::<M>::empty()));
                assert(old_.dm(k).union(SSet::<M>::empty()).union(ks) =~= old_.dm(k).union(ks));
            } else {
                assert(post.dm(k) == pre.dm(k));
                assert(!(exists|j: int| 0 <= j < idx + 1 && (#[trigger] dvs[j]).0 == k && !vle(k@, post.cl()))) by {
                    if exists|j: int| 0 <= j < idx + 1 && (#[trigger] dvs[j]).0 == k && !vle(k@, post.cl()) {
                        let j = choose|j: int| 0 <= j < idx + 1 && (#[trigger] dvs[j]).0 == k && !vle(k@, post.cl());
                    }
                }
            }
        } else {
            assert(post.defs().contains_key(k) == pre.defs().contains_key(k));
            if post.defs().contains_key(k) { assert(post.defs()[k] == pre.defs()[k]); }
            assert(post.dm(k) == pre.dm(k));
            if exists|j: int| 0 <= j < idx + 1 && (#[trigger] dvs[j]).0 == k && !vle(k@, post.cl()) {
                let j = choose|j: int| 0 <= j < idx + 1 && (#[trigger] dvs[j]).0 == k && !vle(k@, post.cl());
                assert(j < idx);
                assert(0 <= j < idx && dvs[j].0 == k && !vle(k@, pre.cl()));
            }
            if exists|j: int| 0 <= j < idx && (#[trigger] dvs[j]).0 == k && !vle(k@, pre.cl()) {
                let j = choose|j: int| 0 <= j < idx && (#[trigger] dvs[j]).0 == k && !vle(k@, pre.cl());
                assert(0 <= j < idx + 1 && dvs[j].0 == k && !vle(k@, post.cl()));
            }
        }
    }
}

pub proof fn lemma_merge_finish<M: Hash + Eq, A: Ord + Hash>(old_: Orswot<M, A>, other: Orswot<M, A>, s2: Orswot<M, A>, s3: Orswot<M, A>, s4: Orswot<M, A>, fin: Orswot<M, A>, dvs: Seq<(VClock<A>, HashSet<M>)>)
    requires
        s3.cl() == old_.cl(), s4.ents() == s3.ents(), s4.defs() == s3.defs(), is_join(s4.cl(), old_.cl(), other.cl()), fin.cl() == s4.cl(),
        forall|i: int| 0 <= i < dvs.len() ==> other.defs().contains_key((#[trigger] dvs[i]).0) && other.defs()[dvs[i].0] == dvs[i].1,
        forall|k: VClock<A>| other.defs().contains_key(k) ==> exists|i: int| 0 <= i < dvs.len() && (#[trigger] dvs[i]).0 == k,
        forall|m: M, a: A| #![trigger cnt(s2.ec(m), a)] cnt(s2.ec(m), a) == mrg(cnt(old_.ec(m), a), cnt(other.ec(m), a), cnt(old_.cl(), a), cnt(other.cl(), a)),
        forall|m: M, a: A| #![trigger cnt(s3.ec(m), a)] cnt(s3.ec(m), a) == (if covered_upto(dvs, dvs.len() as int, m, a, cnt(s2.ec(m), a)) { 0 } else { cnt(s2.ec(m), a) }),
        forall|k: VClock<A>| #![trigger s3.defs().contains_key(k)] s3.defs().contains_key(k) <==> (old_.defs().contains_key(k) || exists|j: int| 0 <= j < dvs.len() && (#[trigger] dvs[j]).0 == k && !vle(k@, s3.cl())),
        forall|k: VClock<A>| #![trigger s3.dm(k)] s3.dm(k) == old_.dm(k).union(if exists|j: int| 0 <= j < dvs.len() && (#[trigger] dvs[j]).0 == k && !vle(k@, s3.cl()) { other.dm(k) } else { SSet::<M>::empty() }),
        // apply_deferred on s4
        forall|m: M, a: A| #![trigger cnt(fin.ec(m), a)] cnt(fin.ec(m), a) == (if covered_by(s4.defs(), m, a, cnt(s4.ec(m), a)) { 0 } else { cnt(s4.ec(m), a) }),
        forall|k: VClock<A>| #![trigger fin.defs().contains_key(k)] fin.defs().contains_key(k) <==> (s4.defs().contains_key(k) && !vle(k@, s4.cl())),
        forall|k: VClock<A>| #![trigger fin.defs()[k]] fin.defs().contains_key(k) ==> fin.defs()[k]@ == s4.defs()[k]@,
    ensures
        forall|m: M, a: A| #![trigger cnt(fin.ec(m), a)] cnt(fin.ec(m), a) == ({
            let x = mrg(cnt(old_.ec(m), a), cnt(other.ec(m), a), cnt(old_.cl(), a), cnt(other.cl(), a));
            if covered_by(old_.defs(), m, a, x) || covered_by(other.defs(), m, a, x) { 0 } else { x } }),
        forall|k: VClock<A>| #![trigger fin.defs().contains_key(k)] fin.defs().contains_key(k) <==> ((old_.defs().contains_key(k) || other.defs().contains_key(k)) && !vle(k@, fin.cl())),
        forall|k: VClock<A>| #![trigger fin.defs()[k]] fin.defs().contains_key(k) ==> fin.defs()[k]@ == old_.dm(k).union(other.dm(k)),
{
    let jc = s4.cl();
    // vle(k, old.cl) ==> vle(k, join)
    assert forall|k: VClock<A>| vle(k@, old_.cl()) implies vle(k@, jc) by {
        assert forall|a: A| cnt(k@, a) <= cnt(jc, a) by { assert(cnt(jc, a) == max64(cnt(old_.cl(), a), cnt(other.cl(), a))); assert(cnt(k@, a) <= cnt(old_.cl(), a)); }
    }
    assert forall|m: M, a: A| #![trigger cnt(fin.ec(m), a)] cnt(fin.ec(m), a) == ({
            let x = mrg(cnt(old_.ec(m), a), cnt(other.ec(m), a), cnt(old_.cl(), a), cnt(other.cl(), a));
            if covered_by(old_.defs(), m, a, x) || covered_by(other.defs(), m, a, x) { 0 } else { x } }) by {
        let x = mrg(cnt(old_.ec(m), a), cnt(other.ec(m), a), cnt(old_.cl(), a), cnt(other.cl(), a));
        assert(cnt(s2.ec(m), a) == x);
        assert(s4.ec(m) == s3.ec(m));
        let y = cnt(s3.ec(m), a);
        assert(y == (if covered_upto(dvs, dvs.len() as int, m, a, x) { 0 } else { x }));
        if covered_by(other.defs(), m, a, x) {
            let k = choose|k: VClock<A>| #[trigger] other.defs().contains_key(k) && other.defs()[k]@.contains(m) && cnt(k@, a) >= x;
            let i = choose|i: int| 0 <= i < dvs.len() && (#[trigger] dvs[i]).0 == k;
            assert(dvs[i].1@.contains(m) && cnt(dvs[i].0@, a) >= x);
            assert(y == 0);
        } else {
            if covered_upto(dvs, dvs.len() as int, m, a, x) {
                let j = choose|j: int| 0 <= j < dvs.len() && (#[trigger] dvs[j]).1@.contains(m) && cnt(dvs[j].0@, a) >= x;
                assert(other.defs().contains_key(dvs[j].0) && other.defs()[dvs[j].0]@.contains(m));
                assert(false);
            }
            assert(y == x);
            if covered_by(old_.defs(), m, a, x) {
                let k = choose|k: VClock<A>| #[trigger] old_.defs().contains_key(k) && old_.defs()[k]@.contains(m) && cnt(k@, a) >= x;
                assert(s3.defs().contains_key(k));
                assert(s3.dm(k).contains(m)) by { assert(old_.dm(k).contains(m)); }
                assert(s4.defs().contains_key(k) && s4.defs()[k]@.contains(m) && cnt(k@, a) >= y);
            } else {
                if covered_by(s4.defs(), m, a, y) {
                    let k = choose|k: VClock<A>| #[trigger] s4.defs().contains_key(k) && s4.defs()[k]@.contains(m) && cnt(k@, a) >= y;
                    assert(s3.dm(k).contains(m));
                    if old_.dm(k).contains(m) {
                        assert(old_.defs().contains_key(k) && old_.defs()[k]@.contains(m));
                    } else {
                        assert(other.dm(k).contains(m));
                        assert(other.defs().contains_key(k) && other.defs()[k]@.contains(m));
                    }
                    assert(false);
                }
            }
        }
    }
    assert forall|k: VClock<A>| #![trigger fin.defs().contains_key(k)] fin.defs().contains_key(k) <==> ((old_.defs().contains_key(k) || other.defs().contains_key(k)) && !vle(k@, fin.cl())) by {
        if fin.defs().contains_key(k) {
            assert(s3.defs().contains_key(k));
            if !old_.defs().contains_key(k) {
                let j = choose|j: int| 0 <= j < dvs.len() && (#[trigger] dvs[j]).0 == k && !vle(k@, s3.cl());
                assert(other.defs().contains_key(dvs[j].0));
            }
        }
        if (old_.defs().contains_key(k) || other.defs().contains_key(k)) && !vle(k@, fin.cl()) {
            if !old_.defs().contains_key(k) {
                let i = choose|i: int| 0 <= i < dvs.len() && (#[trigger] dvs[i]).0 == k;
                assert(!vle(k@, old_.cl()));
                assert(0 <= i < dvs.len() && dvs[i].0 == k && !vle(k@, s3.cl()));
            }
            assert(s3.defs().contains_key(k));
        }
    }
    assert forall|k: VClock<A>| #![trigger fin.defs()[k]] fin.defs().contains_key(k) implies fin.defs()[k]@ == old_.dm(k).union(other.dm(k)) by {
        assert(s4.defs().contains_key(k) && !vle(k@, jc));
        assert(!vle(k@, old_.cl()));
        assert(fin.defs()[k]@ == s3.dm(k));
        if other.defs().contains_key(k) {
            let i = choose|i: int| 0 <= i < dvs.len() && (#[trigger] dvs[i]).0 == k;
            assert(0 <= i < dvs.len() && dvs[i].0 == k && !vle(k@, s3.cl()));
        } else {
            assert(other.dm(k) == SSet::<M>::empty());
            assert(old_.dm(k).union(SSet::<M>::empty()) =~= old_.dm(k));
            if exists|j: int| 0 <= j < dvs.len() && (#[trigger] dvs[j]).0 == k && !vle(k@, s3.cl()) {
                let j = choose|j: int| 0 <= j < dvs.len() && (#[trigger] dvs[j]).0 == k && !vle(k@, s3.cl());
                assert(other.defs().contains_key(dvs[j].0));
            }
        }
    }
}

/// vsub of an nz clock is nz
pub proof fn c10_vsub_nz<A>(x: SMap<A, u64>, c: SMap<A, u64>)
    requires nz(x),
    ensures nz(vsub(x, c)),
{
    assert forall|a: A| vsub(x, c).contains_key(a) implies #[trigger] vsub(x, c)[a] > 0 by { assert(x.contains_key(a)); }
}

/// one iteration of the member loop of apply_rm
pub proof fn lemma_apply_rm_step<M: Hash + Eq, A: Ord + Hash>(pre: Orswot<M, A>, post: Orswot<M, A>, old_: Orswot<M, A>, member: M, clock: SMap<A, u64>, sq: Seq<&M>, idx: int)
    requires
        0 <= idx < sq.len(), *sq[idx] == member, pre.wf(),
        forall|m: M| #[trigger] pre.ec(m) == (if exists|j: int| 0 <= j < idx && *sq[j] == m { vsub(old_.ec(m), clock) } else { old_.ec(m) }),
        post.cl() == pre.cl(), post.defs() == pre.defs(),
        post.ec(member) =~= vsub(pre.ec(member), clock),
        forall|m: M| #![trigger post.ents().contains_key(m)] m != member ==> (post.ents().contains_key(m) == pre.ents().contains_key(m)),
        forall|m: M| #![trigger post.ents()[m]] m != member && post.ents().contains_key(m) ==> post.ents()[m] == pre.ents()[m],
        post.ents().contains_key(member) ==> nz(post.ents()[member]@) && post.ents()[member]@ != SMap::<A, u64>::empty(),
    ensures
        post.wf(),
        forall|m: M| #[trigger] post.ec(m) == (if exists|j: int| 0 <= j < idx + 1 && *sq[j] == m { vsub(old_.ec(m), clock) } else { old_.ec(m) }),
{
    assert forall|m: M| #[trigger] post.ec(m) == (if exists|j: int| 0 <= j < idx + 1 && *sq[j] == m { vsub(old_.ec(m), clock) } else { old_.ec(m) }) by {
        if m == member {
            assert(0 <= idx < idx + 1 && *sq[idx] == m);
            if exists|j: int| 0 <= j < idx && *sq[j] == m {
                assert(pre.ec(m) == vsub(old_.ec(m), clock));
                assert(vsub(vsub(old_.ec(m), clock), clock) =~= vsub(old_.ec(m), clock));
            }
        } else {
            assert(post.ents().contains_key(m) == pre.ents().contains_key(m));
            if post.ents().contains_key(m) { assert(post.ents()[m] == pre.ents()[m]); }
            assert(post.ec(m) == pre.ec(m));
            if exists|j: int| 0 <= j < idx + 1 && *sq[j] == m {
                let j = choose|j: int| 0 <= j < idx + 1 && *sq[j] == m;
                assert(j < idx);
            }
        }
    }
    assert forall|m: M| post.ents().contains_key(m) implies nz(#[trigger] post.ents()[m]@) && post.ents()[m]@ != SMap::<A, u64>::empty() by {
        if m != member { assert(pre.ents().contains_key(m)); assert(post.ents()[m] == pre.ents()[m]); }
    }
}

} // verus!
}
pub use crate::orswot::Orswot;
