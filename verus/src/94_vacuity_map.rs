// Vacuity twins for the Map contracts: every function here MUST FAIL.
pub mod vacuity {
use vstd::prelude::*;
use vstd::map::Map as SMap;
use vstd::set::Set as SSet;
use std::collections::BTreeSet;
use std::hash::Hash;
use crate::spec::*;
use crate::vclock::VClock;
use crate::map::{Val, Op, mbase_ok, cval_ok, kdouble_spent, named_by, kcovered_by};
use crate::{CmRDT, CvRDT, ResetRemove};
verus! {
pub proof fn vac_base<K: Ord, V: Val<A> + CvRDT, A: Ord + Hash + Clone>() requires mbase_ok::<K, V, A>(), cval_ok::<V, A>(), clone_ok::<A>(), crate::orswot::eq_ok::<K>() ensures false {}
pub proof fn vac_wf<K: Ord, V: Val<A>, A: Ord + Hash>(m: crate::map::Map<K, V, A>, k: K, c: VClock<A>) requires mbase_ok::<K, V, A>(), m.wf(), m.has(k), m.defs().contains_key(c), m.defs()[c]@.contains(k) ensures false { m.lemma_wf(); }
pub proof fn vac_two<K: Ord, V: Val<A> + CvRDT, A: Ord + Hash>(m: crate::map::Map<K, V, A>, o: crate::map::Map<K, V, A>, k: K) requires mbase_ok::<K, V, A>(), cval_ok::<V, A>(), m.wf(), o.wf(), m.has(k), o.has(k), m.ec(k) != o.ec(k) ensures false { m.lemma_wf(); o.lemma_wf(); }
pub proof fn vac_double<K: Ord, V: Val<A>, A: Ord + Hash>(m: crate::map::Map<K, V, A>, o: crate::map::Map<K, V, A>) requires m.wf(), o.wf(), kdouble_spent(m, o) ensures false {}
pub proof fn vac_named<K: Ord, V: Val<A>, A: Ord + Hash>(m: crate::map::Map<K, V, A>, k: K, a: A) requires m.wf(), named_by(m.defs(), k), kcovered_by(m.defs(), k, a, cnt(m.ec(k), a)), cnt(m.ec(k), a) > 0 ensures false {}
pub proof fn vac_cm_pre<K: Ord, V: Val<A>, A: Ord + Hash + Clone>(m: crate::map::Map<K, V, A>, op: Op<K, V, A>) requires m.cm_inv(), m.cm_pre(&op), op is Up ensures false {}
}
}
