pub mod gcounter {
use vstd::prelude::*;
use vstd::map::Map as SMap;
use core::convert::Infallible;
use vstd::std_specs::iter::IteratorSpec;
use crate::num::bigint::BigUint;
use crate::spec::*;
use crate::stdx::*;
use crate::stdx2::*;
use crate::vclock::dots_of;
use crate::{CmRDT, CvRDT, Dot, ResetRemove, VClock};
verus! {

//@extract struct src/gcounter.rs GCounter
pub struct GCounter<A: Ord> {
    inner: VClock<A>,
}
//@end

impl<A: Ord> View for GCounter<A> {
    type V = SMap<A, u64>;
    closed spec fn view(&self) -> SMap<A, u64> { self.inner@ }
}

/// sum of the counters of an enumeration of dots
pub open spec fn dsum<A>(en: Seq<Dot<&A>>) -> nat decreases en.len() {
    if en.len() == 0 { 0 } else { dsum(en.drop_last()) + en.last().counter as nat }
}
/// n is the sum, over the actors of clock m, of their counters (along a duplicate-free, complete
/// enumeration of m; lemmas_counters::lemma_total_enum shows the value does not depend on it)
pub open spec fn is_total<A>(n: nat, m: SMap<A, u64>) -> bool {
    exists|en: Seq<Dot<&A>>| dots_of(en, m, true) && n == #[trigger] dsum(en)
}

impl<A: Ord> Default for GCounter<A> {
//@extract fn src/gcounter.rs "Default for GCounter" default
    fn default() -> /*@ (r: @*/ Self /*@ ) @*/
    //@ ensures r@ == SMap::<A, u64>::empty(),
    {
        Self {
            inner: Default::default(),
        }
    }
//@end
}

impl<A: Ord + Clone> CmRDT for GCounter<A> {
    type Op = Dot<A>;
    type Validation = Infallible;
    closed spec fn cm_inv(&self) -> bool { self.inner.cm_inv() }
    open spec fn cm_pre(&self, op: &Dot<A>) -> bool { true }
    open spec fn cm_post(old_: &Self, op: &Dot<A>, new_: &Self) -> bool { true }
    open spec fn cm_vpre(&self, op: &Dot<A>) -> bool { true }
    open spec fn cm_vhyp() -> bool { true }
    open spec fn cm_vflag(&self, op: &Self::Op) -> bool { false }

//@extract fn src/gcounter.rs "CmRDT for GCounter" validate_op
    fn validate_op(&self, _op: &Self::Op) -> /*@ (r: @*/ Result<(), Self::Validation> /*@ ) @*/
    //@ ensures r is Ok,
    {
        Ok(())
    }
//@end

//@extract fn src/gcounter.rs "CmRDT for GCounter" apply
    fn apply(&mut self, op: Self::Op)
    //@ ensures actor_ok::<A>() ==> final(self)@ == (if cnt(old(self)@, op.actor) < op.counter { old(self)@.insert(op.actor, op.counter) } else { old(self)@ }),
    {
        self.inner.apply(op)
    }
//@end
}

impl<A: Ord + Clone> CvRDT for GCounter<A> {
    type Validation = Infallible;
    closed spec fn cv_inv(&self) -> bool { self.inner.cv_inv() }
    open spec fn cv_pre(&self, other: &Self) -> bool { true }
    open spec fn cv_post(old_: &Self, other: &Self, new_: &Self) -> bool { true }
    open spec fn cv_vhyp() -> bool { true }
    open spec fn cv_flag(&self, other: &Self) -> bool { false }

//@extract fn src/gcounter.rs "CvRDT for GCounter" validate_merge
    fn validate_merge(&self, _other: &Self) -> /*@ (r: @*/ Result<(), Self::Validation> /*@ ) @*/
    //@ ensures r is Ok,
    {
        Ok(())
    }
//@end

//@extract fn src/gcounter.rs "CvRDT for GCounter" merge
    fn merge(&mut self, other: Self)
    //@ ensures actor_ok::<A>() ==> is_join(final(self)@, old(self)@, other@),
    {
        self.inner.merge(other.inner);
    }
//@end
}

impl<A: Ord> ResetRemove<A> for GCounter<A> {
    closed spec fn rr_inv(&self) -> bool { self.inner.rr_inv() }
    open spec fn rr_post(old_: &Self, clock: &VClock<A>, new_: &Self) -> bool { true }

//@extract fn src/gcounter.rs "ResetRemove for GCounter" reset_remove
    fn reset_remove(&mut self, clock: &VClock<A>)
    //@ ensures actor_ok::<A>() ==> final(self)@ == vsub(old(self)@, clock@),
    {
        self.inner.reset_remove(clock);
    }
//@end
}

impl<A: Ord + Clone> GCounter<A> {
    /// representation invariant as seen from outside: no stored zero
    pub closed spec fn wf(&self) -> bool { nz(self.inner@) }
    pub proof fn lemma_wf(&self)
        ensures self.wf() ==> (self.cm_inv() && self.cv_inv() && self.rr_inv() && nz(self@)),
                (actor_ok::<A>() && self.cm_inv()) ==> self.wf(),
    {}

//@extract fn src/gcounter.rs "GCounter" new
    pub fn new() -> /*@ (r: @*/ Self /*@ ) @*/
    //@ ensures r@ == SMap::<A, u64>::empty(), r.wf(),
    {
        Default::default()
    }
//@end

//@extract fn src/gcounter.rs "GCounter" inc
    pub fn inc(&self, actor: A) -> /*@ (r: @*/ Dot<A> /*@ ) @*/
    //@ requires actor_ok::<A>(), cnt(self@, actor) < u64::MAX,
    //@ ensures cloned(actor, r.actor), r.counter == cnt(self@, actor) + 1,
    {
        self.inner.inc(actor)
    }
//@end

//@extract fn src/gcounter.rs "GCounter" inc_many
    pub fn inc_many(&self, actor: A, steps: u64) -> /*@ (r: @*/ Dot<A> /*@ ) @*/
    //@ requires actor_ok::<A>(),
    //@     // carve-out of known finding F11-incmany-overflow: the per-actor running total must fit u64
    //@     steps + cnt(self@, actor) <= u64::MAX,
    //@ ensures r.actor == actor, r.counter == cnt(self@, actor) + steps,
    {
        let steps = steps + self.inner.get(&actor);
        Dot::new(actor, steps)
    }
//@end

//@extract fn src/gcounter.rs "GCounter" read
    pub fn read(&self) -> /*@ (r: @*/ BigUint /*@ ) @*/
    //@ requires actor_ok::<A>(),
    //@ ensures is_total(r@, self@),
    {
        /*@ let it = @*/ self.inner.iter() /*@ ; let ghost en = it.remaining(); let r = shim_map_sum_biguint(it @*/ /*@<*/ .map( /*@>*/ /*@ , @*/ /*@<*/ |dot| /*@>*/ /*@ |dot: Dot<&A>| -> (c: u64) ensures c == dot.counter { @*/ dot.counter /*@ } @*/ ) /*@<*/ .sum() /*@>*/
        //@ ;
        //@ proof { let s = choose|s: Seq<u64>| s.len() == en.len() && (forall|i: int| 0 <= i < s.len() ==> (#[trigger] s[i]) == en[i].counter) && r@ == seq_sum(s); lemma_dsum(en, s); }
        //@ r
    }
//@end
}

pub proof fn lemma_dsum<A>(en: Seq<Dot<&A>>, s: Seq<u64>)
    requires s.len() == en.len(), forall|i: int| 0 <= i < s.len() ==> (#[trigger] s[i]) == en[i].counter,
    ensures seq_sum(s) == dsum(en),
    decreases s.len(),
{
    if s.len() > 0 {
        lemma_dsum(en.drop_last(), s.drop_last());
    }
}

} // verus!
}
pub use crate::gcounter::GCounter;
