// Vacuity twins for the MerkleReg contracts and lemmas: every function here MUST FAIL.
pub mod vacuity {
use vstd::prelude::*;
use vstd::map::Map as SMap;
use crate::merkle_reg::*;
use crate::lemmas_merkle::*;
verus! {
pub proof fn vac_inv<T>(s: MerkleReg<T>) requires s.inv(), s.dg().len() >= 2, s.orp().len() >= 1, s.rts().len() >= 1 ensures false {}
pub proof fn vac_apply<T>(a: MerkleReg<T>, n: Node<T>, b: MerkleReg<T>) requires a.inv(), b.inv(), apply_post_mk(a, n, b), !a.recv().contains_key(nhash(n)), n.children@.len() >= 1, a.orp().len() >= 1 ensures false {}
pub proof fn vac_merge<T>(a: MerkleReg<T>, o: MerkleReg<T>, b: MerkleReg<T>) requires a.inv(), o.inv(), b.inv(), merge_post_mk(a, o, b), o.recv().len() >= 1, a.recv().len() >= 1 ensures false {}
pub proof fn vac_acyclic<T>(s: MerkleReg<T>, rank: spec_fn(Hash) -> nat) requires s.inv(), acyclic(s.recv(), rank), s.dg().len() >= 2, exists|h: Hash| s.dg().contains_key(h) && s.dg()[h].children@.len() >= 1 ensures false {}
pub proof fn vac_received<T>(s: MerkleReg<T>, ns: Set<Node<T>>) requires s.inv(), received(s, ns), distinct_hashes(ns), exists|a: Node<T>, b: Node<T>| a != b && ns.contains(a) && ns.contains(b) ensures false {}
pub proof fn vac_hash_ok() requires hash_ok() ensures false {}
}
}
