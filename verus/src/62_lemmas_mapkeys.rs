// Layer L for the KEY layer of Map (C05 and the key-layer rows of C01/C02/C03/C08/C09): which keys are present, with
// which entry clocks, and which key removes are pending, is the denotation of the key-level knowledge set (updates read
// as adds of their key, key removes as removes) -- the Orswot theorem of lemmas_orswot, ported to Map's contracts
// (apply_post_map / keyset_rm_post / merge_post_map have the same key-layer shape).  NOTHING is claimed about the nested
// values: the value layer violates the properties on the current tree (known findings F01, F03, F20).
// Nothing here is extracted from /repo.
pub mod lemmas_mapkeys {
use vstd::prelude::*;
use vstd::map::Map as SMap;
use vstd::set::Set as SSet;
use std::hash::Hash;
use std::collections::BTreeSet;
use crate::spec::*;
use crate::vclock::VClock;
use crate::orswot::mrg;
use crate::map::*;
use crate::map::Map;
use crate::lemmas_orswot::{Know, k_ok, cov, k_empty, k_union, compat, axiom_vclock_key_eq};
use vstd::iset::ISet;
verus! {

/// learning the update op (dot (a, n), key)
pub open spec fn kk_up<K, A>(k: Know<K, A>, a: A, n: u64, key: K) -> Know<K, A> {
    Know { dots: k.dots.insert((a, n)), adds: k.adds.insert((a, n, key)), rmc: k.rmc, rms: k.rms }
}
/// learning the key-remove op (context c, key set ks)
pub open spec fn kk_rm<K, A>(k: Know<K, A>, c: SMap<A, u64>, ks: SSet<K>) -> Know<K, A> {
    Know { dots: k.dots, adds: k.adds, rmc: k.rmc.insert(c), rms: k.rms.union(ISet::new(|t: (SMap<A, u64>, K)| t.0 == c && ks.contains(t.1))) }
}

/// THE DENOTATION.  The replica clock is the greatest learned dot per actor; a member's witness for actor a is the
/// greatest learned add dot of a naming it, unless a learned remove of the member has observed that dot (then none);
/// the pending removes are exactly the learned removes whose context the replica clock does not yet cover.
pub open spec fn krepr<K: Ord, V: Val<A>, A: Ord + Hash>(s: Map<K, V, A>, k: Know<K, A>) -> bool {
    &&& s.wf()
    &&& k_ok(k)
    &&& forall|a: A| #![trigger cnt(s.cl(), a)] (cnt(s.cl(), a) > 0 ==> k.dots.contains((a, cnt(s.cl(), a))))
    &&& forall|a: A, n: u64| #[trigger] k.dots.contains((a, n)) ==> n <= cnt(s.cl(), a)
    &&& forall|m: K, a: A| #![trigger cnt(s.ec(m), a)] (cnt(s.ec(m), a) > 0 ==> k.adds.contains((a, cnt(s.ec(m), a), m)) && !cov(k, m, a, cnt(s.ec(m), a)))
    &&& forall|m: K, a: A, n: u64| #[trigger] k.adds.contains((a, n, m)) ==> (if cnt(s.ec(m), a) > 0 { n <= cnt(s.ec(m), a) } else { cov(k, m, a, n) })
    &&& forall|c: SMap<A, u64>| #[trigger] kpending_key(s, c) <==> k.rmc.contains(c) && !vle(c, s.cl())
    &&& forall|c: SMap<A, u64>, m: K| #[trigger] kpending(s, c, m) <==> k.rms.contains((c, m)) && !vle(c, s.cl())
}

/// the replica holds a pending remove with context c / naming member m under context c
pub open spec fn kpending_key<K: Ord, V: Val<A>, A: Ord + Hash>(s: Map<K, V, A>, c: SMap<A, u64>) -> bool {
    exists|cc: VClock<A>| cc@ == c && #[trigger] s.defs().contains_key(cc)
}
pub open spec fn kpending<K: Ord, V: Val<A>, A: Ord + Hash>(s: Map<K, V, A>, c: SMap<A, u64>, m: K) -> bool {
    exists|cc: VClock<A>| cc@ == c && #[trigger] s.dm(cc).contains(m)
}

pub proof fn lk_new<K: Ord, V: Val<A>, A: Ord + Hash>(s: Map<K, V, A>)
    requires s.wf(), s.cl() == SMap::<A, u64>::empty(), forall|k: K| !s.has(k), s.defs() == SMap::<VClock<A>, BTreeSet<K>>::empty(),
    ensures krepr(s, k_empty::<K, A>()),
{
    let k = k_empty::<K, A>();
    s.lemma_wf();
    assert forall|m: K, a: A| cnt(s.ec(m), a) == 0 by { assert(!s.has(m)); }
}

/// L.rm: learning a remove -- early (then it is also remembered as pending), late or duplicated
pub proof fn lk_apply_rm<K: Ord, V: Val<A>, A: Ord + Hash>(s: Map<K, V, A>, k: Know<K, A>, ks: SSet<K>, clock: VClock<A>, s2: Map<K, V, A>)
    requires actor_ok::<A>(), krepr(s, k), s2.wf(), nz(clock@), keyset_rm_post(s, ks, clock, s2),
    ensures krepr(s2, kk_rm(k, clock@, ks)),
{
    let c = clock@;
    let k2 = kk_rm(k, c, ks);
    s.lemma_wf(); s2.lemma_wf();
    assert(k_ok(k2));
    assert forall|m: K, a: A, n: u64| cov(k, m, a, n) implies cov(k2, m, a, n) by {
        let c0 = choose|c0: SMap<A, u64>| #[trigger] k.rms.contains((c0, m)) && cnt(c0, a) >= n;
        assert(k2.rms.contains((c0, m)));
    }
    assert forall|m: K, a: A| #![trigger cnt(s2.ec(m), a)] (cnt(s2.ec(m), a) > 0 ==> k2.adds.contains((a, cnt(s2.ec(m), a), m)) && !cov(k2, m, a, cnt(s2.ec(m), a))) by {
        let e2 = cnt(s2.ec(m), a);
        if e2 > 0 {
            assert(s2.ec(m) == (if ks.contains(m) { vsub(s.ec(m), c) } else { s.ec(m) }));
            assert(e2 == cnt(s.ec(m), a));
            if cov(k2, m, a, e2) {
                let c0 = choose|c0: SMap<A, u64>| #[trigger] k2.rms.contains((c0, m)) && cnt(c0, a) >= e2;
                if k.rms.contains((c0, m)) { assert(cov(k, m, a, e2)); } else { assert(c0 == c && ks.contains(m)); assert(cnt(vsub(s.ec(m), c), a) == 0 || cnt(s.ec(m), a) > cnt(c, a)); }
            }
        }
    }
    assert forall|m: K, a: A, n: u64| #[trigger] k2.adds.contains((a, n, m)) implies (if cnt(s2.ec(m), a) > 0 { n <= cnt(s2.ec(m), a) } else { cov(k2, m, a, n) }) by {
        assert(s2.ec(m) == (if ks.contains(m) { vsub(s.ec(m), c) } else { s.ec(m) }));
        let e = cnt(s.ec(m), a);
        let e2 = cnt(s2.ec(m), a);
        if e2 > 0 { assert(e2 == e); }
        else if e == 0 { assert(cov(k, m, a, n)); }
        else {
            // dropped by this remove: it observed e, hence every smaller learned add of (a, m)
            assert(ks.contains(m) && cnt(c, a) >= e);
            assert(n <= e);
            assert(k2.rms.contains((c, m)));
        }
    }
    let rc = clock;
    assert forall|c1: SMap<A, u64>| #[trigger] kpending_key(s2, c1) <==> k2.rmc.contains(c1) && !vle(c1, s2.cl()) by {
        if kpending_key(s2, c1) {
            let cc = choose|cc: VClock<A>| cc@ == c1 && #[trigger] s2.defs().contains_key(cc);
            if s.defs().contains_key(cc) { assert(kpending_key(s, c1)); } else { assert(cc == rc); }
        }
        if k2.rmc.contains(c1) && !vle(c1, s2.cl()) {
            if c1 == c { assert(s2.defs().contains_key(rc)); }
            else { assert(kpending_key(s, c1)); let cc = choose|cc: VClock<A>| cc@ == c1 && #[trigger] s.defs().contains_key(cc); assert(s2.defs().contains_key(cc)); }
        }
    }
    assert forall|c1: SMap<A, u64>, m: K| #[trigger] kpending(s2, c1, m) <==> k2.rms.contains((c1, m)) && !vle(c1, s2.cl()) by {
        if kpending(s2, c1, m) {
            let cc = choose|cc: VClock<A>| cc@ == c1 && #[trigger] s2.dm(cc).contains(m);
            if cc == rc && !vle(c, s.cl()) { assert(s2.dm(cc) == s.dm(cc).union(ks)); if s.dm(cc).contains(m) { assert(kpending(s, c1, m)); } else { assert(ks.contains(m)); assert(ks.contains(m)); } }
            else { assert(s2.dm(cc) == s.dm(cc)); assert(kpending(s, c1, m)); }
        }
        if k2.rms.contains((c1, m)) && !vle(c1, s2.cl()) {
            if k.rms.contains((c1, m)) {
                assert(kpending(s, c1, m));
                let cc = choose|cc: VClock<A>| cc@ == c1 && #[trigger] s.dm(cc).contains(m);
                if cc == rc && !vle(c, s.cl()) { assert(s2.dm(cc) == s.dm(cc).union(ks)); } else { axiom_vclock_key_eq::<A>(cc, rc); assert(s2.dm(cc) == s.dm(cc)); }
                assert(s2.dm(cc).contains(m));
            } else {
                assert(c1 == c && ks.contains(m));
                assert(s2.dm(rc) == s.dm(rc).union(ks));
                assert(ks.contains(m));
                assert(s2.dm(rc).contains(m));
            }
        }
    }
}

/// L.add: learning an add whose dot is its actor's next (per-actor issue order) or one already learned (re-delivery:
/// the dot names the op, so the knowledge set already holds exactly its members)
pub proof fn lk_apply_up<K: Ord, V: Val<A>, A: Ord + Hash>(s: Map<K, V, A>, k: Know<K, A>, op: Op<K, V, A>, s2: Map<K, V, A>)
    requires actor_ok::<A>(), krepr(s, k), s2.wf(), op is Up, apply_post_map(s, op, s2),
        op->dot.counter >= 1, op->dot.counter <= cnt(s.cl(), op->dot.actor) + 1,
        cnt(s.cl(), op->dot.actor) >= op->dot.counter ==> k.dots.contains((op->dot.actor, op->dot.counter)) && (forall|m: K| m == op->key <==> #[trigger] k.adds.contains((op->dot.actor, op->dot.counter, m))),
    ensures krepr(s2, kk_up(k, op->dot.actor, op->dot.counter, op->key)),
{
    let a0 = op->dot.actor;
    let n0 = op->dot.counter;
    let key = op->key;
    let k2 = kk_up(k, a0, n0, key);
    s.lemma_wf(); s2.lemma_wf();
    if cnt(s.cl(), a0) >= n0 {
        assert(s2 == s);
        assert(k2.dots =~= k.dots);
        assert(k2.adds =~= k.adds);
        assert(k2 == k);
    } else {
        assert(n0 == cnt(s.cl(), a0) + 1);
        assert(k_ok(k2));
        assert(k2.rms == k.rms);
        assert forall|m: K, a: A, n: u64| cov(k, m, a, n) == cov(k2, m, a, n) by { }
        // a pending remove covers a dot above the old clock exactly when some learned remove does
        assert forall|m: K, a: A, e: u64| e > cnt(s.cl(), a) implies (kcovered_by(s.defs(), m, a, e) <==> cov(k, m, a, e)) by {
            if kcovered_by(s.defs(), m, a, e) {
                let kk = choose|kk: VClock<A>| #[trigger] s.defs().contains_key(kk) && s.defs()[kk]@.contains(m) && cnt(kk@, a) >= e;
                assert(s.dm(kk).contains(m));
                assert(kpending(s, kk@, m));
                assert(k.rms.contains((kk@, m)));
            }
            if cov(k, m, a, e) {
                let c0 = choose|c0: SMap<A, u64>| #[trigger] k.rms.contains((c0, m)) && cnt(c0, a) >= e;
                assert(!vle(c0, s.cl())) by { if vle(c0, s.cl()) { assert(cnt(c0, a) <= cnt(s.cl(), a)); } }
                assert(kpending(s, c0, m));
                let kk = choose|kk: VClock<A>| kk@ == c0 && #[trigger] s.dm(kk).contains(m);
                assert(s.defs().contains_key(kk) && s.defs()[kk]@.contains(m));
            }
        }
        // and never a dot the old clock covers and the entry still shows
        assert forall|m: K, a: A| #![trigger cnt(s.ec(m), a)] cnt(s.ec(m), a) > 0 implies !kcovered_by(s.defs(), m, a, cnt(s.ec(m), a)) by {
            if kcovered_by(s.defs(), m, a, cnt(s.ec(m), a)) {
                let kk = choose|kk: VClock<A>| #[trigger] s.defs().contains_key(kk) && s.defs()[kk]@.contains(m) && cnt(kk@, a) >= cnt(s.ec(m), a);
                assert(s.dm(kk).contains(m));
                assert(kpending(s, kk@, m));
                assert(k.rms.contains((kk@, m)));
                assert(cov(k, m, a, cnt(s.ec(m), a)));
            }
        }
        assert forall|m: K, a: A| #![trigger cnt(s2.ec(m), a)] (cnt(s2.ec(m), a) > 0 ==> k2.adds.contains((a, cnt(s2.ec(m), a), m)) && !cov(k2, m, a, cnt(s2.ec(m), a))) by {
            let e = if m == key { vapp(s.ec(m), a0, n0) } else { s.ec(m) };
            assert(cnt(s2.ec(m), a) == (if kcovered_by(s.defs(), m, a, cnt(e, a)) { 0 } else { cnt(e, a) }));
            if cnt(s2.ec(m), a) > 0 {
                if m == key && a == a0 {
                    lk_entry_below_clock(s, k, m, a0);
                    assert(cnt(e, a) == n0);
                    assert(k2.adds.contains((a0, n0, m)));
                } else {
                    assert(cnt(e, a) == cnt(s.ec(m), a));
                }
            }
        }
        assert forall|m: K, a: A, n: u64| #[trigger] k2.adds.contains((a, n, m)) implies (if cnt(s2.ec(m), a) > 0 { n <= cnt(s2.ec(m), a) } else { cov(k2, m, a, n) }) by {
            let e = if m == key { vapp(s.ec(m), a0, n0) } else { s.ec(m) };
            assert(cnt(s2.ec(m), a) == (if kcovered_by(s.defs(), m, a, cnt(e, a)) { 0 } else { cnt(e, a) }));
            lk_entry_below_clock(s, k, m, a);
            if m == key && a == a0 {
                assert(cnt(e, a) == n0);
                if k.adds.contains((a, n, m)) { assert(k.dots.contains((a, n))); assert(n <= cnt(s.cl(), a)); }
                if cnt(s2.ec(m), a) == 0 {
                    // the new dot is covered by a pending remove, whose context then covers every smaller dot
                    assert(cov(k, m, a, n0));
                    let c0 = choose|c0: SMap<A, u64>| #[trigger] k.rms.contains((c0, m)) && cnt(c0, a) >= n0;
                    assert(k2.rms.contains((c0, m)) && cnt(c0, a) >= n);
                }
            } else {
                assert(k.adds.contains((a, n, m)));
                assert(cnt(e, a) == cnt(s.ec(m), a));
            }
        }
        assert forall|a: A| #![trigger cnt(s2.cl(), a)] (cnt(s2.cl(), a) > 0 ==> k2.dots.contains((a, cnt(s2.cl(), a)))) by { if a != a0 { assert(cnt(s2.cl(), a) == cnt(s.cl(), a)); } }
        assert forall|a: A, n: u64| #[trigger] k2.dots.contains((a, n)) implies n <= cnt(s2.cl(), a) by { if a != a0 { assert(cnt(s2.cl(), a) == cnt(s.cl(), a)); } if k.dots.contains((a, n)) { assert(n <= cnt(s.cl(), a)); } }
        assert forall|c1: SMap<A, u64>| vle(c1, s.cl()) implies vle(c1, s2.cl()) by {
            assert forall|a: A| cnt(c1, a) <= cnt(s2.cl(), a) by { assert(cnt(c1, a) <= cnt(s.cl(), a)); if a != a0 { assert(cnt(s2.cl(), a) == cnt(s.cl(), a)); } }
        }
        assert forall|c1: SMap<A, u64>| #[trigger] kpending_key(s2, c1) <==> k2.rmc.contains(c1) && !vle(c1, s2.cl()) by {
            if kpending_key(s2, c1) { let cc = choose|cc: VClock<A>| cc@ == c1 && #[trigger] s2.defs().contains_key(cc); assert(s.defs().contains_key(cc)); assert(kpending_key(s, c1)); }
            if k2.rmc.contains(c1) && !vle(c1, s2.cl()) { assert(kpending_key(s, c1)); let cc = choose|cc: VClock<A>| cc@ == c1 && #[trigger] s.defs().contains_key(cc); assert(s2.defs().contains_key(cc)); }
        }
        assert forall|c1: SMap<A, u64>, m: K| #[trigger] kpending(s2, c1, m) <==> k2.rms.contains((c1, m)) && !vle(c1, s2.cl()) by {
            if kpending(s2, c1, m) { let cc = choose|cc: VClock<A>| cc@ == c1 && #[trigger] s2.dm(cc).contains(m); assert(s2.defs().contains_key(cc)); assert(s.defs().contains_key(cc)); assert(s2.defs()[cc]@ == s.defs()[cc]@); assert(s.dm(cc).contains(m)); assert(kpending(s, c1, m)); }
            if k2.rms.contains((c1, m)) && !vle(c1, s2.cl()) { assert(kpending(s, c1, m)); let cc = choose|cc: VClock<A>| cc@ == c1 && #[trigger] s.dm(cc).contains(m); assert(s.defs().contains_key(cc)); assert(s2.defs().contains_key(cc)); assert(s2.defs()[cc]@ == s.defs()[cc]@); assert(s2.dm(cc).contains(m)); }
        }
    }
}

/// what merge computes for member m and actor a (the F-contract merge_post): the riak rule, then the pending removes of both sides
pub open spec fn kmerged_at<K: Ord, V: Val<A>, A: Ord + Hash>(s1: Map<K, V, A>, s2: Map<K, V, A>, m: K, a: A) -> u64 {
    let x = mrg(cnt(s1.ec(m), a), cnt(s2.ec(m), a), cnt(s1.cl(), a), cnt(s2.cl(), a));
    if kcovered_by(s1.defs(), m, a, x) || kcovered_by(s2.defs(), m, a, x) { 0 } else { x }
}

/// a pending remove of the replica covering (m, a, e) is a learned remove doing so
proof fn lk_covered_is_learned<K: Ord, V: Val<A>, A: Ord + Hash>(s: Map<K, V, A>, k: Know<K, A>, m: K, a: A, e: u64)
    requires krepr(s, k), kcovered_by(s.defs(), m, a, e),
    ensures cov(k, m, a, e),
{
    let kk = choose|kk: VClock<A>| #[trigger] s.defs().contains_key(kk) && s.defs()[kk]@.contains(m) && cnt(kk@, a) >= e;
    assert(s.dm(kk).contains(m));
    assert(kpending(s, kk@, m));
    assert(k.rms.contains((kk@, m)));
}
/// a learned remove covering a dot above the replica clock is pending at the replica
proof fn lk_learned_above_clock_is_pending<K: Ord, V: Val<A>, A: Ord + Hash>(s: Map<K, V, A>, k: Know<K, A>, m: K, a: A, e: u64, c0: SMap<A, u64>)
    requires krepr(s, k), k.rms.contains((c0, m)), cnt(c0, a) >= e, !vle(c0, s.cl()),
    ensures kcovered_by(s.defs(), m, a, e),
{
    assert(kpending(s, c0, m));
    let kk = choose|kk: VClock<A>| kk@ == c0 && #[trigger] s.dm(kk).contains(m);
    assert(s.defs().contains_key(kk) && s.defs()[kk]@.contains(m));
}

/// the riak merge rule, point by point: under the denotations of both sides, the merged witness of (m, a) is the
/// witness the union of the two knowledge sets denotes
proof fn lk_merge_point<K: Ord, V: Val<A>, A: Ord + Hash>(s1: Map<K, V, A>, k1: Know<K, A>, s2: Map<K, V, A>, k2: Know<K, A>, m: K, a: A)
    requires krepr(s1, k1), krepr(s2, k2), compat(k1, s1.cl(), k2, s2.cl()),
    ensures ({
        let ku = k_union(k1, k2);
        let r = kmerged_at(s1, s2, m, a);
        &&& (r > 0 ==> ku.adds.contains((a, r, m)) && !cov(ku, m, a, r))
        &&& forall|n: u64| #[trigger] ku.adds.contains((a, n, m)) ==> (if r > 0 { n <= r } else { cov(ku, m, a, n) })
    }),
{
    let ku = k_union(k1, k2);
    let e1 = cnt(s1.ec(m), a); let e2 = cnt(s2.ec(m), a); let c1 = cnt(s1.cl(), a); let c2 = cnt(s2.cl(), a);
    let x = mrg(e1, e2, c1, c2);
    let r = kmerged_at(s1, s2, m, a);
    lk_entry_below_clock(s1, k1, m, a);
    lk_entry_below_clock(s2, k2, m, a);
    assert(x == e1 || x == e2 || x == 0);
    // cov is monotone in the knowledge set and downward closed in the dot
    assert forall|n: u64| cov(k1, m, a, n) implies cov(ku, m, a, n) by { let c0 = choose|c0: SMap<A, u64>| #[trigger] k1.rms.contains((c0, m)) && cnt(c0, a) >= n; assert(ku.rms.contains((c0, m))); }
    assert forall|n: u64| cov(k2, m, a, n) implies cov(ku, m, a, n) by { let c0 = choose|c0: SMap<A, u64>| #[trigger] k2.rms.contains((c0, m)) && cnt(c0, a) >= n; assert(ku.rms.contains((c0, m))); }
    assert forall|n: u64, n2: u64| n <= n2 && cov(ku, m, a, n2) implies cov(ku, m, a, n) by { let c0 = choose|c0: SMap<A, u64>| #[trigger] ku.rms.contains((c0, m)) && cnt(c0, a) >= n2; assert(ku.rms.contains((c0, m)) && cnt(c0, a) >= n); }
    // each side's top dot known to the other side's clock is known to the other side
    if e1 > 0 && e1 <= c2 { assert(k1.adds.contains((a, e1, m))); assert(k2.adds.contains((a, e1, m))); }
    if e2 > 0 && e2 <= c1 { assert(k2.adds.contains((a, e2, m))); assert(k1.adds.contains((a, e2, m))); }
    // N: every learned add of (a, m) is at most x, when x > 0
    if x > 0 {
        assert forall|n: u64| #[trigger] ku.adds.contains((a, n, m)) implies n <= x by {
            if k1.adds.contains((a, n, m)) {
                assert(k1.dots.contains((a, n)));
                if e1 > 0 { assert(n <= e1); } else { assert(n <= c1); }
            } else {
                assert(k2.adds.contains((a, n, m)));
                assert(k2.dots.contains((a, n)));
                if e2 > 0 { assert(n <= e2); } else { assert(n <= c2); }
            }
        }
    }
    if r > 0 {
        assert(r == x);
        assert(ku.adds.contains((a, r, m))) by { if x == e1 { assert(k1.adds.contains((a, e1, m))); } else { assert(k2.adds.contains((a, e2, m))); } }
        if cov(ku, m, a, r) {
            let c0 = choose|c0: SMap<A, u64>| #[trigger] ku.rms.contains((c0, m)) && cnt(c0, a) >= r;
            if k1.rms.contains((c0, m)) {
                if !vle(c0, s1.cl()) { lk_learned_above_clock_is_pending(s1, k1, m, a, r, c0); }
                else { assert(cnt(c0, a) <= c1); assert(cov(k1, m, a, r)); if x == e1 { } else { assert(k1.adds.contains((a, e2, m))); } }
            } else {
                assert(k2.rms.contains((c0, m)));
                if !vle(c0, s2.cl()) { lk_learned_above_clock_is_pending(s2, k2, m, a, r, c0); }
                else { assert(cnt(c0, a) <= c2); assert(cov(k2, m, a, r)); if x == e2 { } else { assert(k2.adds.contains((a, e1, m))); } }
            }
            assert(false);
        }
    } else if x > 0 {
        // covered by a pending remove of one side, which then covers every learned add of (a, m)
        if kcovered_by(s1.defs(), m, a, x) { lk_covered_is_learned(s1, k1, m, a, x); } else { lk_covered_is_learned(s2, k2, m, a, x); }
        assert(cov(ku, m, a, x));
    } else {
        assert forall|n: u64| #[trigger] ku.adds.contains((a, n, m)) implies cov(ku, m, a, n) by {
            if k1.adds.contains((a, n, m)) {
                if e1 == 0 { assert(cov(k1, m, a, n)); }
                else { assert(n <= e1); assert(e2 == 0); assert(k2.adds.contains((a, e1, m))); assert(cov(k2, m, a, e1)); assert(cov(ku, m, a, e1)); }
            } else {
                assert(k2.adds.contains((a, n, m)));
                if e2 == 0 { assert(cov(k2, m, a, n)); }
                else { assert(n <= e2); assert(e1 == 0); assert(k1.adds.contains((a, e2, m))); assert(cov(k1, m, a, e2)); assert(cov(ku, m, a, e2)); }
            }
        }
    }
}

/// L.merge: merging two replicas gives the denotation of the union of what they know -- pending removes included
pub proof fn lk_merge<K: Ord, V: Val<A> + crate::CvRDT, A: Ord + Hash>(s1: Map<K, V, A>, k1: Know<K, A>, s2: Map<K, V, A>, k2: Know<K, A>, s3: Map<K, V, A>)
    requires actor_ok::<A>(), krepr(s1, k1), krepr(s2, k2), compat(k1, s1.cl(), k2, s2.cl()), s3.wf(), merge_post_map(s1, s2, s3),
    ensures krepr(s3, k_union(k1, k2)),
{
    let ku = k_union(k1, k2);
    assert(k_ok(ku));
    assert forall|a: A| #![trigger cnt(s3.cl(), a)] (cnt(s3.cl(), a) > 0 ==> ku.dots.contains((a, cnt(s3.cl(), a)))) by {
        assert(cnt(s3.cl(), a) == max64(cnt(s1.cl(), a), cnt(s2.cl(), a)));
    }
    assert forall|a: A, n: u64| #[trigger] ku.dots.contains((a, n)) implies n <= cnt(s3.cl(), a) by {
        assert(cnt(s3.cl(), a) == max64(cnt(s1.cl(), a), cnt(s2.cl(), a)));
        if k1.dots.contains((a, n)) { assert(n <= cnt(s1.cl(), a)); } else { assert(k2.dots.contains((a, n))); assert(n <= cnt(s2.cl(), a)); }
    }
    assert forall|m: K, a: A| #![trigger cnt(s3.ec(m), a)] (cnt(s3.ec(m), a) > 0 ==> ku.adds.contains((a, cnt(s3.ec(m), a), m)) && !cov(ku, m, a, cnt(s3.ec(m), a))) by {
        lk_merge_point(s1, k1, s2, k2, m, a);
        assert(cnt(s3.ec(m), a) == kmerged_at(s1, s2, m, a));
    }
    assert forall|m: K, a: A, n: u64| #[trigger] ku.adds.contains((a, n, m)) implies (if cnt(s3.ec(m), a) > 0 { n <= cnt(s3.ec(m), a) } else { cov(ku, m, a, n) }) by {
        lk_merge_point(s1, k1, s2, k2, m, a);
        assert(cnt(s3.ec(m), a) == kmerged_at(s1, s2, m, a));
    }
    assert forall|c1: SMap<A, u64>| (vle(c1, s1.cl()) || vle(c1, s2.cl())) implies vle(c1, s3.cl()) by {
        assert forall|a: A| cnt(c1, a) <= cnt(s3.cl(), a) by { assert(cnt(s3.cl(), a) == max64(cnt(s1.cl(), a), cnt(s2.cl(), a))); if vle(c1, s1.cl()) { assert(cnt(c1, a) <= cnt(s1.cl(), a)); } else { assert(cnt(c1, a) <= cnt(s2.cl(), a)); } }
    }
    assert forall|c1: SMap<A, u64>| #[trigger] kpending_key(s3, c1) <==> ku.rmc.contains(c1) && !vle(c1, s3.cl()) by {
        if kpending_key(s3, c1) {
            let cc = choose|cc: VClock<A>| cc@ == c1 && #[trigger] s3.defs().contains_key(cc);
            if s1.defs().contains_key(cc) { assert(kpending_key(s1, c1)); } else { assert(s2.defs().contains_key(cc)); assert(kpending_key(s2, c1)); }
        }
        if ku.rmc.contains(c1) && !vle(c1, s3.cl()) {
            if k1.rmc.contains(c1) { assert(kpending_key(s1, c1)); let cc = choose|cc: VClock<A>| cc@ == c1 && #[trigger] s1.defs().contains_key(cc); assert(s3.defs().contains_key(cc)); }
            else { assert(k2.rmc.contains(c1)); assert(kpending_key(s2, c1)); let cc = choose|cc: VClock<A>| cc@ == c1 && #[trigger] s2.defs().contains_key(cc); assert(s3.defs().contains_key(cc)); }
        }
    }
    assert forall|c1: SMap<A, u64>, m: K| #[trigger] kpending(s3, c1, m) <==> ku.rms.contains((c1, m)) && !vle(c1, s3.cl()) by {
        if kpending(s3, c1, m) {
            let cc = choose|cc: VClock<A>| cc@ == c1 && #[trigger] s3.dm(cc).contains(m);
            assert(s3.defs().contains_key(cc));
            assert(s3.defs()[cc]@ == s1.dm(cc).union(s2.dm(cc)));
            if s1.dm(cc).contains(m) { assert(kpending(s1, c1, m)); } else { assert(s2.dm(cc).contains(m)); assert(kpending(s2, c1, m)); }
        }
        if ku.rms.contains((c1, m)) && !vle(c1, s3.cl()) {
            if k1.rms.contains((c1, m)) {
                assert(kpending(s1, c1, m));
                let cc = choose|cc: VClock<A>| cc@ == c1 && #[trigger] s1.dm(cc).contains(m);
                assert(s1.defs().contains_key(cc)); assert(s3.defs().contains_key(cc)); assert(s3.defs()[cc]@ == s1.dm(cc).union(s2.dm(cc))); assert(s3.dm(cc).contains(m));
            } else {
                assert(k2.rms.contains((c1, m)));
                assert(kpending(s2, c1, m));
                let cc = choose|cc: VClock<A>| cc@ == c1 && #[trigger] s2.dm(cc).contains(m);
                assert(s2.defs().contains_key(cc)); assert(s3.defs().contains_key(cc)); assert(s3.defs()[cc]@ == s1.dm(cc).union(s2.dm(cc))); assert(s3.dm(cc).contains(m));
            }
        }
    }
}

/// L.unique: the denotation determines the state -- clock, every member's witnesses (hence membership and every read
/// context), and the pending removes
pub proof fn lk_unique<K: Ord, V: Val<A>, A: Ord + Hash>(s: Map<K, V, A>, t: Map<K, V, A>, k: Know<K, A>)
    requires actor_ok::<A>(), krepr(s, k), krepr(t, k),
    ensures s.cl() == t.cl(), forall|m: K| #[trigger] s.ec(m) == t.ec(m), forall|m: K| #[trigger] s.has(m) == t.has(m),
        forall|cc: VClock<A>| #[trigger] s.defs().contains_key(cc) == t.defs().contains_key(cc),
        forall|cc: VClock<A>| #[trigger] s.dm(cc) == t.dm(cc),
{
    s.lemma_wf(); t.lemma_wf();
    assert forall|a: A| cnt(s.cl(), a) == cnt(t.cl(), a) by {
        if cnt(s.cl(), a) > 0 { assert(k.dots.contains((a, cnt(s.cl(), a)))); }
        if cnt(t.cl(), a) > 0 { assert(k.dots.contains((a, cnt(t.cl(), a)))); }
    }
    lemma_cnt_ext(s.cl(), t.cl());
    assert forall|m: K| #[trigger] s.ec(m) == t.ec(m) by {
        assert forall|a: A| cnt(s.ec(m), a) == cnt(t.ec(m), a) by {
            let e = cnt(s.ec(m), a); let f = cnt(t.ec(m), a);
            if e > 0 { assert(k.adds.contains((a, e, m)) && !cov(k, m, a, e)); }
            if f > 0 { assert(k.adds.contains((a, f, m)) && !cov(k, m, a, f)); }
        }
        assert(nz(s.ec(m))) by { if s.has(m) { } else { assert(s.ec(m) == SMap::<A, u64>::empty()); } }
        assert(nz(t.ec(m))) by { if t.has(m) { } else { assert(t.ec(m) == SMap::<A, u64>::empty()); } }
        lemma_cnt_ext(s.ec(m), t.ec(m));
    }
    s.lemma_wf(); t.lemma_wf();
    assert forall|m: K| #[trigger] s.has(m) == t.has(m) by { assert(s.ec(m) == t.ec(m)); }
    assert forall|cc: VClock<A>| #[trigger] s.defs().contains_key(cc) == t.defs().contains_key(cc) by {
        if s.defs().contains_key(cc) { assert(kpending_key(s, cc@)); assert(kpending_key(t, cc@)); let c2 = choose|c2: VClock<A>| c2@ == cc@ && #[trigger] t.defs().contains_key(c2); axiom_vclock_key_eq::<A>(c2, cc); }
        if t.defs().contains_key(cc) { assert(kpending_key(t, cc@)); assert(kpending_key(s, cc@)); let c2 = choose|c2: VClock<A>| c2@ == cc@ && #[trigger] s.defs().contains_key(c2); axiom_vclock_key_eq::<A>(c2, cc); }
    }
    assert forall|cc: VClock<A>| #[trigger] s.dm(cc) == t.dm(cc) by {
        assert forall|m: K| s.dm(cc).contains(m) == t.dm(cc).contains(m) by {
            if s.dm(cc).contains(m) { assert(kpending(s, cc@, m)); assert(kpending(t, cc@, m)); let c2 = choose|c2: VClock<A>| c2@ == cc@ && #[trigger] t.dm(c2).contains(m); axiom_vclock_key_eq::<A>(c2, cc); }
            if t.dm(cc).contains(m) { assert(kpending(t, cc@, m)); assert(kpending(s, cc@, m)); let c2 = choose|c2: VClock<A>| c2@ == cc@ && #[trigger] s.dm(c2).contains(m); axiom_vclock_key_eq::<A>(c2, cc); }
        }
        assert(s.dm(cc) =~= t.dm(cc));
    }
}

// ---------------------------------------------------------------------------------------------------------------
// what the denotation means for the properties

/// C05: a key is present iff some learned add of it has not been observed by a learned remove of it
pub proof fn c05_key_present_iff<K: Ord, V: Val<A>, A: Ord + Hash>(s: Map<K, V, A>, k: Know<K, A>, m: K)
    requires krepr(s, k),
    ensures s.has(m) <==> exists|a: A, n: u64| #[trigger] k.adds.contains((a, n, m)) && !cov(k, m, a, n),
{
    s.lemma_wf();
    if s.has(m) {
        let c = s.ec(m);
        assert(c != SMap::<A, u64>::empty());
        assert(exists|a: A| c.contains_key(a)) by { if forall|a: A| !c.contains_key(a) { assert(c =~= SMap::<A, u64>::empty()); } }
        let a = choose|a: A| c.contains_key(a);
        assert(cnt(s.ec(m), a) > 0);
        assert(k.adds.contains((a, cnt(s.ec(m), a), m)) && !cov(k, m, a, cnt(s.ec(m), a)));
    }
    if exists|a: A, n: u64| #[trigger] k.adds.contains((a, n, m)) && !cov(k, m, a, n) {
        let (a, n) = choose|a: A, n: u64| #[trigger] k.adds.contains((a, n, m)) && !cov(k, m, a, n);
        assert(cnt(s.ec(m), a) > 0);
    }
}


/// a key's entry clock never exceeds the map clock
pub proof fn lk_entry_below_clock<K: Ord, V: Val<A>, A: Ord + Hash>(s: Map<K, V, A>, k: Know<K, A>, m: K, a: A)
    requires krepr(s, k),
    ensures cnt(s.ec(m), a) <= cnt(s.cl(), a),
{
    if cnt(s.ec(m), a) > 0 { assert(k.adds.contains((a, cnt(s.ec(m), a), m))); assert(k.dots.contains((a, cnt(s.ec(m), a)))); }
}

} // verus!
}
