pub mod lwwreg {
use vstd::prelude::*;
use core::cmp::Ordering;
use vstd::std_specs::cmp::{PartialEqSpec, PartialOrdSpec, OrdSpec};
use crate::spec::*;
use crate::{CmRDT, CvRDT};
verus! {

//@extract struct src/lwwreg.rs LWWReg
pub struct LWWReg<V, M> {
    pub val: V,
    pub marker: M,
}
//@end

//@extract enum src/lwwreg.rs Validation
pub enum Validation {
    ConflictingMarker,
}
//@end

/// register state after learning a write (val, marker): the greater marker wins, ties keep the
/// current pair (C11: "reads the value written with the greatest marker")
pub open spec fn lww_update<V, M: Ord>(cur: LWWReg<V, M>, val: V, marker: M) -> LWWReg<V, M> {
    if lt(cur.marker, marker) { LWWReg { val, marker } } else { cur }
}
/// an equal marker with a different value is a conflict, and nothing else is
pub open spec fn lww_conflict<V: PartialEq, M: Ord>(cur: LWWReg<V, M>, val: V, marker: M) -> bool {
    eqv(cur.marker, marker) && !val.eq_spec(&cur.val)
}
pub open spec fn lww_ok<V: PartialEq, M: Ord>() -> bool { ord_ok::<M>() && V::obeys_eq_spec() }

impl<V: Default, M: Default> Default for LWWReg<V, M> {
//@extract fn src/lwwreg.rs "Default for LWWReg" default
    fn default() -> /*@ (r: @*/ Self /*@ ) @*/
    //@ ensures V::default.ensures((), r.val), M::default.ensures((), r.marker),
    {
        Self {
            val: V::default(),
            marker: M::default(),
        }
    }
//@end
}

impl<V: PartialEq, M: Ord> CvRDT for LWWReg<V, M> {
    type Validation = Validation;
    open spec fn cv_inv(&self) -> bool { lww_ok::<V, M>() }
    open spec fn cv_pre(&self, other: &Self) -> bool { true }
    open spec fn cv_post(old_: &Self, other: &Self, new_: &Self) -> bool { true }
    open spec fn cv_vhyp() -> bool { true }
    open spec fn cv_flag(&self, other: &Self) -> bool { lww_conflict(*self, other.val, other.marker) }

//@extract fn src/lwwreg.rs "CvRDT for LWWReg" validate_merge
    fn validate_merge(&self, other: &Self) -> /*@ (r: @*/ Result<(), Self::Validation> /*@ ) @*/
    //@ ensures r is Err <==> lww_conflict(*self, other.val, other.marker),
    {
        self.validate_update(&other.val, &other.marker)
    }
//@end

//@extract fn src/lwwreg.rs "CvRDT for LWWReg" merge
    fn merge(&mut self, /*@<*/ LWWReg { val, marker } /*@>*/ /*@ other @*/ : Self)
    //@ ensures *final(self) == lww_update(*old(self), other.val, other.marker),
    {
        //@ let LWWReg { val, marker } = other;
        self.update(val, marker)
    }
//@end
}

impl<V: PartialEq, M: Ord> CmRDT for LWWReg<V, M> {
    type Op = Self;
    type Validation = Validation;
    open spec fn cm_inv(&self) -> bool { lww_ok::<V, M>() }
    open spec fn cm_pre(&self, op: &Self) -> bool { true }
    open spec fn cm_post(old_: &Self, op: &Self, new_: &Self) -> bool { true }
    open spec fn cm_vpre(&self, op: &Self) -> bool { true }
    open spec fn cm_vhyp() -> bool { true }
    open spec fn cm_vflag(&self, op: &Self) -> bool { lww_conflict(*self, op.val, op.marker) }

//@extract fn src/lwwreg.rs "CmRDT for LWWReg" validate_op
    fn validate_op(&self, op: &Self::Op) -> /*@ (r: @*/ Result<(), Self::Validation> /*@ ) @*/
    //@ ensures r is Err <==> lww_conflict(*self, op.val, op.marker),
    {
        self.validate_update(&op.val, &op.marker)
    }
//@end

//@extract fn src/lwwreg.rs "CmRDT for LWWReg" apply
    fn apply(&mut self, op: Self::Op)
    //@ ensures *final(self) == lww_update(*old(self), op.val, op.marker),
    {
        self.merge(op)
    }
//@end
}

impl<V: PartialEq, M: Ord> LWWReg<V, M> {
//@extract fn src/lwwreg.rs "LWWReg" new
    pub fn new(val: V, marker: M) -> /*@ (r: @*/ Self /*@ ) @*/
    //@ ensures r.val == val, r.marker == marker,
    {
        LWWReg { val, marker }
    }
//@end

//@extract fn src/lwwreg.rs "LWWReg" update
    pub fn update(&mut self, val: V, marker: M)
    //@ requires ord_ok::<M>(),
    //@ ensures *final(self) == lww_update(*old(self), val, marker),
    {
        //@ proof { lemma_ord_ok::<M>(); }
        if self.marker < marker {
            self.val = val;
            self.marker = marker;
        }
    }
//@end

//@extract fn src/lwwreg.rs "LWWReg" validate_update
    pub fn validate_update(&self, val: &V, marker: &M) -> /*@ (r: @*/ Result<(), Validation> /*@ ) @*/
    //@ requires lww_ok::<V, M>(),
    //@ ensures r is Err <==> lww_conflict(*self, *val, *marker),
    {
        //@ proof { lemma_ord_ok::<M>(); }
        if &self.marker == marker && val != &self.val {
            Err(Validation::ConflictingMarker)
        } else {
            Ok(())
        }
    }
//@end
}

} // verus!
}
pub use crate::lwwreg::LWWReg;
