// Vacuity twins for the C11 contracts and lemmas: every function here MUST FAIL.
pub mod vacuity {
use vstd::prelude::*;
use vstd::map::Map as SMap;
use vstd::set::Set as SSet;
use crate::spec::*;
use crate::dot::Dot;
use crate::vclock::*;
use crate::gcounter::*;
use crate::lwwreg::*;
use crate::lemmas_counters::*;
use crate::lemmas_regs::*;
verus! {
pub proof fn vac_ord_ok<V: Ord>() requires ord_ok::<V>() ensures false { lemma_ord_ok::<V>(); }
pub proof fn vac_lww_ok<V: PartialEq, M: Ord>(cur: LWWReg<V, M>, h: SSet<(V, M)>, v: V, m: M)
    requires lww_ok::<V, M>(), is_lww(cur, h), markers_unique(h.insert((v, m))), h.len() > 1 ensures false { lemma_ord_ok::<M>(); }
pub proof fn vac_is_max_of<A>(s: SMap<A, u64>, h: SSet<(A, u64)>, d: Dot<A>) requires is_max_of(s, h), h.contains((d.actor, d.counter)), d.counter > 0 ensures false {}
pub proof fn vac_merge<A>(z: SMap<A, u64>, s1: SMap<A, u64>, s2: SMap<A, u64>, h1: SSet<(A, u64)>, h2: SSet<(A, u64)>)
    requires is_max_of(s1, h1), is_max_of(s2, h2), is_join(z, s1, s2), nz(z), h1.len() > 0, h2.len() > 0 ensures false {}
pub proof fn vac_is_total<A>(n: nat, m: SMap<A, u64>) requires is_total(n, m), n > 0 ensures false {}
pub proof fn vac_incmany<A: Ord>(m: SMap<A, u64>, a: A, steps: u64) requires actor_ok::<A>(), steps + cnt(m, a) <= u64::MAX, steps > 0, cnt(m, a) > 0 ensures false {}
pub proof fn vac_maxval<V: Ord>(cur: V, h: SSet<V>, v: V) requires ord_ok::<V>(), is_max_val(cur, h), is_min_val(v, h), h.len() > 1 ensures false { lemma_ord_ok::<V>(); }
pub proof fn vac_dots_total<A>(en: Seq<Dot<&A>>, m: SMap<A, u64>) requires dots_of(en, m, true), en.len() > 1 ensures false {}
}
}
