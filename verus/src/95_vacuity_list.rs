// Vacuity twins for the List / Identifier contracts and lemmas: every function here MUST FAIL.
pub mod vacuity {
use vstd::prelude::*;
use vstd::map::Map as SMap;
use crate::spec::*;
use crate::identifier::*;
use crate::list::*;
use crate::lemmas_list::*;
use crate::{Dot, OrdDot};
verus! {
pub proof fn vac_order<A: Ord, T>(s: Seq<Id<A>>, m: SMap<Id<A>, T>) requires node_ok::<OrdDot<A>>(), is_order(s, m), s.len() >= 3 ensures false {}
pub proof fn vac_list_ok<A: Ord + Clone>() requires list_ok::<A>() ensures false {}
pub proof fn vac_history<T, A: Ord + Clone + Eq>(u: Set<Op<T, A>>, d: Set<Op<T, A>>, c: SMap<A, u64>, m: SMap<Id<A>, T>, o1: Op<T, A>, o2: Op<T, A>)
    requires history_ok(u), delivered(d, u, c), denotes(m, d), causal_closed(d), d.contains(o1), d.contains(o2), o1 is Insert, o2 is Delete, o1->Insert_id != o2->Delete_id, m.contains_key(o1->Insert_id) ensures false {}
pub proof fn vac_apply<T, A: Ord + Clone + Eq>(a: List<T, A>, op: Op<T, A>, b: List<T, A>) requires apply_post_list(a, op, b), op.dot_spec().counter == cnt(a.cl(), op.dot_spec().actor) + 1, a.sq().len() >= 2, op is Insert ensures false {}
pub proof fn vac_glist_ok<T: Ord + Clone>() requires crate::glist::glist_ok::<T>() ensures false {}
pub proof fn vac_glist_wf<T: Ord + Clone>(g: crate::glist::GList<T>) requires crate::glist::glist_ok::<T>(), g.wf(), g.ls().len() >= 2 ensures false {}
pub proof fn vac_between_ok<T: Ord + Clone>() requires between_ok::<T>() ensures false {}
pub proof fn vac_between_post<T: Ord + Clone>(l: crate::Identifier<T>, h: crate::Identifier<T>, m: T, r: crate::Identifier<T>) requires between_ok::<T>(), id_cmp(l@, h@) == core::cmp::Ordering::Less, between_post(Some(&l), Some(&h), m, r), l@.len() >= 2, h@.len() >= 2 ensures false {}
pub proof fn vac_position_entry<A: Ord + Clone, T>(s: Seq<Id<A>>, m: SMap<Id<A>, T>, id: Id<A>, r: Option<usize>) requires list_ok::<A>(), is_order(s, m), s.len() >= 2, position_entry_post(s, id, r), r is Some ensures false {}
pub proof fn vac_wf<T, A: Ord + Clone + Eq>(a: List<T, A>) requires a.wf(), a.sq().len() >= 2 ensures false {}
}
}
