// Assumed specifications for std items vstd does not specify, and chain shims (normalisation N2).
// Every item here is an assumption and is listed in the evidence (assumption scan).
pub mod stdx {
use vstd::prelude::*;
use std::collections::BTreeMap;
use vstd::std_specs::btree::key_obeys_cmp_spec;
verus! {

pub assume_specification<T: Default>[ core::mem::take::<T> ](dest: &mut T) -> (r: T)
    ensures r == *old(dest), T::default.ensures((), *final(dest));

pub assume_specification<T: Ord>[ core::cmp::min::<T> ](a: T, b: T) -> (r: T)
    ensures vstd::std_specs::cmp::OrdSpec::cmp_spec(&a, &b) == core::cmp::Ordering::Greater ==> r == b,
            vstd::std_specs::cmp::OrdSpec::cmp_spec(&a, &b) != core::cmp::Ordering::Greater ==> r == a;

/// N2 chain shim: the body is exactly the source chain `SRC.into_iter().filter_map(F).collect()`
/// for BTreeMap -> BTreeMap.  Contract: the result holds f(k, v) for every source pair that f maps
/// to Some; sound because f is required to be key-preserving and functional on the source pairs
/// (otherwise `collect`'s last-wins behaviour would matter).
#[verifier::external_body]
pub fn shim_btreemap_filter_map_collect<K: Ord, V, F: FnMut((K, V)) -> Option<(K, V)>>(src: BTreeMap<K, V>, f: F) -> (r: BTreeMap<K, V>)
    requires
        forall|k: K| src@.contains_key(k) ==> call_requires(f, ((k, #[trigger] src@[k]),)),
        forall|k: K, o: Option<(K, V)>| src@.contains_key(k) && #[trigger] call_ensures(f, ((k, src@[k]),), o) ==> (o matches Some(p) ==> p.0 == k),
        forall|k: K, o1: Option<(K, V)>, o2: Option<(K, V)>| src@.contains_key(k) && #[trigger] call_ensures(f, ((k, src@[k]),), o1) && #[trigger] call_ensures(f, ((k, src@[k]),), o2) ==> o1 == o2,
    ensures
        forall|k: K| #[trigger] r@.contains_key(k) ==> src@.contains_key(k) && call_ensures(f, ((k, src@[k]),), Some((k, r@[k]))),
        forall|k: K| #[trigger] src@.contains_key(k) && !r@.contains_key(k) ==> call_ensures(f, ((k, src@[k]),), None),
{
    src.into_iter().filter_map(f).collect()
}

} // verus!
}
pub use crate::stdx::*;
pub mod stdx2 {
use vstd::prelude::*;
use vstd::std_specs::iter::IteratorSpec;
use crate::num::bigint::BigUint;
verus! {
pub open spec fn seq_sum(s: Seq<u64>) -> nat decreases s.len() {
    if s.len() == 0 { 0 } else { seq_sum(s.drop_last()) + s.last() as nat }
}
/// N2 chain shim: `IT.map(F).sum()` into a BigUint.  The iterator is consumed to completion
/// (so its prophecy `will_return_none` holds) and the result is the exact sum of f over what it yields.
#[verifier::external_body]
pub fn shim_map_sum_biguint<I: Iterator, F: FnMut(I::Item) -> u64>(it: I, f: F) -> (r: BigUint)
    requires
        it.obeys_prophetic_iter_laws(),
        forall|i: int| 0 <= i < it.remaining().len() ==> call_requires(f, (#[trigger] it.remaining()[i],)),
    ensures
        it.will_return_none(),
        exists|s: Seq<u64>| s.len() == it.remaining().len()
            && (forall|i: int| 0 <= i < s.len() ==> call_ensures(f, (it.remaining()[i],), #[trigger] s[i]))
            && r@ == seq_sum(s),
{
    unimplemented!() // it.map(f).sum()  -- needs the num crate; see DESIGN §3.2
}
}
}
pub use crate::stdx2::*;
