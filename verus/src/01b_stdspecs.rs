// Assumed specifications for std items vstd does not specify, and chain shims (normalisation N2).
// Every item here is an assumption and is listed in the evidence (assumption scan).
pub mod stdx {
use vstd::prelude::*;
use std::collections::BTreeMap;
use vstd::std_specs::btree::key_obeys_cmp_spec;
verus! {

pub assume_specification<T: Default>[ core::mem::take::<T> ](dest: &mut T) -> (r: T)
    ensures r == *old(dest), T::default.ensures((), *final(dest));

pub assume_specification<T, F: FnOnce() -> Option<T>>[ Option::<T>::or_else ](o: Option<T>, f: F) -> (r: Option<T>)
    requires o is None ==> call_requires(f, ()),
    ensures o is Some ==> r == o, o is None ==> call_ensures(f, (), r);

pub assume_specification<T: Ord>[ core::cmp::min::<T> ](a: T, b: T) -> (r: T)
    ensures vstd::std_specs::cmp::OrdSpec::cmp_spec(&a, &b) == core::cmp::Ordering::Greater ==> r == b,
            vstd::std_specs::cmp::OrdSpec::cmp_spec(&a, &b) != core::cmp::Ordering::Greater ==> r == a;

/// N2 chain shim: the body is exactly the source chain `SRC.into_iter().filter_map(F).collect()`
/// for BTreeMap -> BTreeMap.  Contract: the result holds what f returned for every source pair that f mapped
/// to Some; sound because f is required to be key-preserving (then no two results collide in `collect`).
#[verifier::external_body]
pub fn shim_btreemap_filter_map_collect<K: Ord, V, F: FnMut((K, V)) -> Option<(K, V)>>(src: BTreeMap<K, V>, f: F) -> (r: BTreeMap<K, V>)
    requires
        forall|k: K| src@.contains_key(k) ==> call_requires(f, ((k, #[trigger] src@[k]),)),
        forall|k: K, o: Option<(K, V)>| src@.contains_key(k) && #[trigger] call_ensures(f, ((k, src@[k]),), o) ==> (o matches Some(p) ==> p.0 == k),
    ensures
        forall|k: K| #[trigger] r@.contains_key(k) ==> src@.contains_key(k) && call_ensures(f, ((k, src@[k]),), Some((k, r@[k]))),
        forall|k: K| #[trigger] src@.contains_key(k) && !r@.contains_key(k) ==> call_ensures(f, ((k, src@[k]),), None),
{
    src.into_iter().filter_map(f).collect()
}

} // verus!
}
pub use crate::stdx::*;
pub mod stdx3 {
use vstd::prelude::*;
use std::collections::{HashMap, HashSet};
use std::hash::Hash;
use vstd::std_specs::hash::*;
verus! {

/// hypotheses about a key type used in HashMap / HashSet (Hash consistent with Eq, Eq is spec equality)
pub open spec fn key_ok<K: ?Sized>() -> bool {
    obeys_key_model::<K>() && builds_valid_hashers::<std::hash::RandomState>()
}

/// "stored key kk is the one the borrowed key k denotes" (for Q == K this is kk == *k by vstd's deref axioms)
pub open spec fn borrow_matches<K, Q: ?Sized>(kk: K, k: &Q) -> bool {
    maps_borrowed_key_to_value(Map::<K, ()>::empty().insert(kk, ()), k, ())
}

pub assume_specification<'a, K, V, S, A, Q> [std::collections::HashMap::<K, V, S, A>::get_mut] (m: &'a mut std::collections::HashMap<K, V, S, A>, k: &Q) -> (r: std::option::Option<&'a mut V>)
   where
   A: std::alloc::Allocator,
   K: std::cmp::Eq + std::hash::Hash + std::borrow::Borrow<Q>,
   Q: std::marker::MetaSized + std::hash::Hash + std::cmp::Eq + ?Sized,
   S: std::hash::BuildHasher,
   ensures
     obeys_key_model::<K>() && builds_valid_hashers::<S>() ==> match r {
        Some(v) => exists|kk: K| #[trigger] borrow_matches(kk, k) && old(m)@.contains_key(kk) && *v == old(m)@[kk]
                    && final(m)@ == old(m)@.insert(kk, *final(v)),
        None => !contains_borrowed_key(old(m)@, k) && final(m)@ == old(m)@,
     };

/// N2 chain shim `SRC.into_iter().filter_map(F).collect()` HashMap -> HashMap; F must be key-preserving
/// (then no two results collide in `collect`).
#[verifier::external_body]
pub fn shim_hashmap_filter_map_collect<K: Eq + Hash, V, F: FnMut((K, V)) -> Option<(K, V)>>(src: HashMap<K, V>, f: F) -> (r: HashMap<K, V>)
    requires
        forall|k: K| src@.contains_key(k) ==> call_requires(f, ((k, #[trigger] src@[k]),)),
        forall|k: K, o: Option<(K, V)>| src@.contains_key(k) && #[trigger] call_ensures(f, ((k, src@[k]),), o) ==> (o matches Some(p) ==> p.0 == k),
    ensures
        forall|k: K| #[trigger] r@.contains_key(k) ==> src@.contains_key(k) && call_ensures(f, ((k, src@[k]),), Some((k, r@[k]))),
        forall|k: K| #[trigger] src@.contains_key(k) && !r@.contains_key(k) ==> call_ensures(f, ((k, src@[k]),), None),
{
    src.into_iter().filter_map(f).collect()
}

/// N2 chain shim `SRC.into_iter().filter_map(F).collect()` HashMap -> HashMap where F may CHANGE the key.
/// Two sources mapped to the same key collide in `collect` (an unspecified one wins), so the contract only
/// says: every result pair is F of some source pair, and every key F produces is present.
#[verifier::external_body]
pub fn shim_hashmap_filter_map_collect_rekey<K: Eq + Hash, V, F: FnMut((K, V)) -> Option<(K, V)>>(src: HashMap<K, V>, f: F) -> (r: HashMap<K, V>)
    requires
        forall|k: K| src@.contains_key(k) ==> call_requires(f, ((k, #[trigger] src@[k]),)),
    ensures
        forall|k2: K| #[trigger] r@.contains_key(k2) ==> exists|k: K| src@.contains_key(k) && #[trigger] call_ensures(f, ((k, src@[k]),), Some((k2, r@[k2]))),
        forall|k: K| #[trigger] src@.contains_key(k) ==> exists|o: Option<(K, V)>| #[trigger] call_ensures(f, ((k, src@[k]),), o) && (o matches Some(q) ==> r@.contains_key(q.0)),
{
    src.into_iter().filter_map(f).collect()
}

/// N4 shim: `for PAT in MAP` over an owned HashMap visits each pair exactly once; modelled as a loop
/// over the Vec of its pairs (vstd has no spec for hash_map::IntoIter).
#[verifier::external_body]
pub fn shim_hashmap_into_vec<K: Eq + Hash, V>(m: HashMap<K, V>) -> (r: Vec<(K, V)>)
    ensures
        forall|i: int| 0 <= i < r@.len() ==> m@.contains_key((#[trigger] r@[i]).0) && m@[r@[i].0] == r@[i].1,
        forall|i: int, j: int| 0 <= i < j < r@.len() ==> (#[trigger] r@[i]).0 != (#[trigger] r@[j]).0,
        forall|k: K| m@.contains_key(k) ==> exists|i: int| 0 <= i < r@.len() && (#[trigger] r@[i]).0 == k,
{
    m.into_iter().collect()
}

/// N2 shim for `MAP.entry(K).or_default()`
#[verifier::external_body]
pub fn shim_hashmap_entry_or_default<'a, K: Eq + Hash, V: Default>(m: &'a mut HashMap<K, V>, k: K) -> (r: &'a mut V)
    ensures
        key_ok::<K>() ==> {
            &&& (old(m)@.contains_key(k) ==> *r == old(m)@[k])
            &&& (!old(m)@.contains_key(k) ==> V::default.ensures((), *r))
            &&& final(m)@ == old(m)@.insert(k, *final(r))
        },
{
    m.entry(k).or_default()
}

/// N2 shim for `VEC.into_iter().collect()` into a HashSet
#[verifier::external_body]
pub fn shim_vec_collect_hashset<T: Eq + Hash>(v: Vec<T>) -> (r: HashSet<T>)
    ensures key_ok::<T>() ==> r@ == v@.to_set(),
{
    v.into_iter().collect()
}

/// N2 shim for `std::iter::once(X).collect()` into a Vec
#[verifier::external_body]
pub fn shim_once_collect_vec<T>(x: T) -> (r: Vec<T>)
    ensures r@ == seq![x],
{
    std::iter::once(x).collect()
}

/// N2 shim for `MAP.keys().cloned().collect()` into a HashSet
#[verifier::external_body]
pub fn shim_hashmap_keys_cloned_collect<K: Eq + Hash + Clone, V>(m: &HashMap<K, V>) -> (r: HashSet<K>)
    ensures key_ok::<K>() && crate::spec::clone_ok::<K>() ==> r@ == m@.dom(),
{
    m.keys().cloned().collect()
}

pub assume_specification<T, S, A, I> [<std::collections::HashSet<T, S, A> as std::iter::Extend<T>>::extend] (s: &mut std::collections::HashSet<T, S, A>, it: I)
   where
   A: std::alloc::Allocator,
   I: std::iter::IntoIterator<Item = T>,
   S: std::hash::BuildHasher,
   T: std::cmp::Eq + std::hash::Hash,
;
/// `SET.extend(OTHER_SET)`; the generic `Extend::extend` gets no contract, this wrapper states the one used
#[verifier::external_body]
pub fn shim_hashset_extend<T: Eq + Hash>(s: &mut HashSet<T>, other: HashSet<T>)
    ensures key_ok::<T>() ==> final(s)@ == old(s)@.union(other@),
{
    s.extend(other)
}

} // verus!
}
pub use crate::stdx3::*;
pub mod stdx5 {
use vstd::prelude::*;
use std::collections::{BTreeMap, BTreeSet};
verus! {
/// N4 shim: `for PAT in MAP` over an owned BTreeMap (vstd has no spec for btree_map::IntoIter)
#[verifier::external_body]
pub fn shim_btreemap_into_vec<K: Ord, V>(m: BTreeMap<K, V>) -> (r: Vec<(K, V)>)
    ensures
        forall|i: int| 0 <= i < r@.len() ==> m@.contains_key((#[trigger] r@[i]).0) && m@[r@[i].0] == r@[i].1,
        forall|i: int, j: int| 0 <= i < j < r@.len() ==> (#[trigger] r@[i]).0 != (#[trigger] r@[j]).0,
        forall|k: K| m@.contains_key(k) ==> exists|i: int| 0 <= i < r@.len() && (#[trigger] r@[i]).0 == k,
{
    m.into_iter().collect()
}
/// N2 shim for `MAP.entry(K).or_default()` on a BTreeMap
#[verifier::external_body]
pub fn shim_btreemap_entry_or_default<'a, K: Ord, V: Default>(m: &'a mut BTreeMap<K, V>, k: K) -> (r: &'a mut V)
    ensures
        crate::spec::actor_ok::<K>() ==> {
            &&& (old(m)@.contains_key(k) ==> *r == old(m)@[k])
            &&& (!old(m)@.contains_key(k) ==> V::default.ensures((), *r))
            &&& final(m)@ == old(m)@.insert(k, *final(r))
        },
{
    m.entry(k).or_default()
}
/// N2 shim for `MAP.entry(K).or_insert(V)` on a BTreeMap (result reference unused by the crate)
#[verifier::external_body]
pub fn shim_btreemap_entry_or_insert<K: Ord, V>(m: &mut BTreeMap<K, V>, k: K, v: V)
    ensures vstd::laws_cmp::obeys_cmp::<K>() ==> final(m)@ == (if old(m)@.contains_key(k) { old(m)@ } else { old(m)@.insert(k, v) }),
{
    m.entry(k).or_insert(v);
}
/// N2 shim for `IT.nth(N)`: the n-th of what the iterator yields
#[verifier::external_body]
pub fn shim_iter_nth<I: Iterator>(it: I, n: usize) -> (r: Option<I::Item>)
    requires vstd::std_specs::iter::IteratorSpec::obeys_prophetic_iter_laws(&it),
    ensures
        // n+1 calls of `next` under vstd's prophetic law for next (front of `remaining`, None once it is empty)
        r == (if n < vstd::std_specs::iter::IteratorSpec::remaining(&it).len() { Some(vstd::std_specs::iter::IteratorSpec::remaining(&it)[n as int]) } else { None }),
{
    let mut it = it;
    it.nth(n)
}
/// std fact vstd states only under the key-order law: iterating a BTreeMap / HashMap always ends (the maps are finite whatever `Ord` / `Hash` do)
#[verifier::external_body]
pub proof fn axiom_btree_iter_finite<'a, K, V>(it: &std::collections::btree_map::Iter<'a, K, V>)
    ensures vstd::std_specs::iter::IteratorSpec::decrease(it) is Some,
{}
/// N2 shim for `IT.map(F)` where the adapter itself is returned to the caller (`impl Iterator`): F (which computes `g`) is applied to
/// every item, in order; the adapter ends when IT ends.  (vstd specifies `Iterator::map`, but its lemmas do not fire for closures of a
/// function that is generic in a type the item mentions -- design_probes/p9 -- so the adapter's semantics are restated here.)
#[verifier::external_body]
pub fn shim_iter_map<I: Iterator, B, F: FnMut(I::Item) -> B>(it: I, Ghost(g): Ghost<spec_fn(I::Item) -> B>, f: F) -> (r: impl Iterator<Item = B>)
    requires
        vstd::std_specs::iter::IteratorSpec::obeys_prophetic_iter_laws(&it),
        forall|i: int| 0 <= i < vstd::std_specs::iter::IteratorSpec::remaining(&it).len() ==> call_requires(f, (#[trigger] vstd::std_specs::iter::IteratorSpec::remaining(&it)[i],)),
        forall|x: I::Item, o: B| #[trigger] call_ensures(f, (x,), o) ==> o == g(x),
    ensures
        vstd::std_specs::iter::IteratorSpec::obeys_prophetic_iter_laws(&r),
        vstd::std_specs::iter::IteratorSpec::remaining(&r) == vstd::std_specs::iter::IteratorSpec::remaining(&it).map_values(g),
        vstd::std_specs::iter::IteratorSpec::will_return_none(&r) == vstd::std_specs::iter::IteratorSpec::will_return_none(&it),
        vstd::std_specs::iter::IteratorSpec::decrease(&r) == vstd::std_specs::iter::IteratorSpec::decrease(&it),
{
    it.map(f)
}
/// the same adapter for a closure whose result is only related to its argument (it clones): `rel(item, output)` holds position by position
#[verifier::external_body]
pub fn shim_iter_map_rel<I: Iterator, B, F: FnMut(I::Item) -> B>(it: I, Ghost(rel): Ghost<spec_fn(I::Item, B) -> bool>, f: F) -> (r: impl Iterator<Item = B>)
    requires
        vstd::std_specs::iter::IteratorSpec::obeys_prophetic_iter_laws(&it),
        forall|i: int| 0 <= i < vstd::std_specs::iter::IteratorSpec::remaining(&it).len() ==> call_requires(f, (#[trigger] vstd::std_specs::iter::IteratorSpec::remaining(&it)[i],)),
        forall|x: I::Item, o: B| #[trigger] call_ensures(f, (x,), o) ==> rel(x, o),
    ensures
        vstd::std_specs::iter::IteratorSpec::obeys_prophetic_iter_laws(&r),
        vstd::std_specs::iter::IteratorSpec::remaining(&r).len() == vstd::std_specs::iter::IteratorSpec::remaining(&it).len(),
        forall|i: int| 0 <= i < vstd::std_specs::iter::IteratorSpec::remaining(&it).len() ==> rel(vstd::std_specs::iter::IteratorSpec::remaining(&it)[i], #[trigger] vstd::std_specs::iter::IteratorSpec::remaining(&r)[i]),
        vstd::std_specs::iter::IteratorSpec::will_return_none(&r) == vstd::std_specs::iter::IteratorSpec::will_return_none(&it),
        vstd::std_specs::iter::IteratorSpec::decrease(&r) == vstd::std_specs::iter::IteratorSpec::decrease(&it),
{
    it.map(f)
}
#[verifier::external_body]
pub proof fn axiom_btree_values_finite<'a, K, V>(it: &std::collections::btree_map::Values<'a, K, V>)
    ensures vstd::std_specs::iter::IteratorSpec::decrease(it) is Some,
{}
#[verifier::external_body]
pub proof fn axiom_hash_iter_finite<'a, K, V>(it: &std::collections::hash_map::Iter<'a, K, V>)
    ensures vstd::std_specs::iter::IteratorSpec::decrease(it) is Some,
{}
/// N2 shim for `IT.copied()` where the adapter is returned to the caller: every `&X` item dereferenced, in order
#[verifier::external_body]
pub fn shim_iter_copied<'a, X: Copy + 'a, I: Iterator<Item = &'a X>>(it: I) -> (r: impl Iterator<Item = X>)
    requires vstd::std_specs::iter::IteratorSpec::obeys_prophetic_iter_laws(&it),
    ensures
        vstd::std_specs::iter::IteratorSpec::obeys_prophetic_iter_laws(&r),
        vstd::std_specs::iter::IteratorSpec::remaining(&r) == vstd::std_specs::iter::IteratorSpec::remaining(&it).map_values(|x: &X| *x),
        vstd::std_specs::iter::IteratorSpec::will_return_none(&r) == vstd::std_specs::iter::IteratorSpec::will_return_none(&it),
        vstd::std_specs::iter::IteratorSpec::decrease(&r) == vstd::std_specs::iter::IteratorSpec::decrease(&it),
{
    it.copied()
}
/// What `C::from_iter` builds from the sequence of items it is handed.  `FromIterator` is implemented by the caller's
/// container; the only thing assumed about it is that the result is a function of the yielded sequence.
pub uninterp spec fn from_iter_spec<C, X>(s: Seq<X>) -> C;
/// N2 shim for `IT.collect()` into a caller-chosen container
#[verifier::external_body]
pub fn shim_iter_collect<I: Iterator, C: core::iter::FromIterator<I::Item>>(it: I) -> (r: C)
    requires vstd::std_specs::iter::IteratorSpec::obeys_prophetic_iter_laws(&it),
    ensures r == from_iter_spec::<C, I::Item>(vstd::std_specs::iter::IteratorSpec::remaining(&it)),
{
    it.collect()
}
/// N2 shim for `IT.map(F).collect()` into a caller-chosen container: F (which computes `g`) is applied to every item, in order
#[verifier::external_body]
pub fn shim_iter_map_collect<I: Iterator, B, F: FnMut(I::Item) -> B, C: core::iter::FromIterator<B>>(it: I, Ghost(g): Ghost<spec_fn(I::Item) -> B>, f: F) -> (r: C)
    requires
        vstd::std_specs::iter::IteratorSpec::obeys_prophetic_iter_laws(&it),
        forall|i: int| 0 <= i < vstd::std_specs::iter::IteratorSpec::remaining(&it).len() ==> call_requires(f, (#[trigger] vstd::std_specs::iter::IteratorSpec::remaining(&it)[i],)),
        forall|x: I::Item, o: B| #[trigger] call_ensures(f, (x,), o) ==> o == g(x),
    ensures
        r == from_iter_spec::<C, B>(vstd::std_specs::iter::IteratorSpec::remaining(&it).map_values(g)),
{
    it.map(f).collect()
}
/// N2 shim for `MAP.into_values().collect()` (owned BTreeMap; vstd has no spec for btree_map::IntoValues): the values in
/// increasing key order
#[verifier::external_body]
pub fn shim_btreemap_into_values_collect<K: Ord, V, C: core::iter::FromIterator<V>>(m: BTreeMap<K, V>) -> (r: C)
    ensures
        vstd::std_specs::btree::key_obeys_cmp_spec::<K>() ==> exists|ks: Seq<K>| #[trigger] vstd::std_specs::btree::increasing_seq(ks) && ks.to_set() == m@.dom() && ks.no_duplicates()
            && r == from_iter_spec::<C, V>(ks.map(|i: int, k: K| m@[k])),
{
    m.into_values().collect()
}
/// N2 shim for `SET.into_iter().map(F).collect()` (owned BTreeSet; vstd has no spec for btree_set::IntoIter): F (which
/// computes `g`) applied to the elements in increasing order
#[verifier::external_body]
pub fn shim_btreeset_into_map_collect<T: Ord, B, F: FnMut(T) -> B, C: core::iter::FromIterator<B>>(s: BTreeSet<T>, Ghost(g): Ghost<spec_fn(T) -> B>, f: F) -> (r: C)
    requires
        forall|x: T| s@.contains(x) ==> call_requires(f, (x,)),
        forall|x: T, o: B| #[trigger] call_ensures(f, (x,), o) ==> o == g(x),
    ensures
        vstd::std_specs::btree::key_obeys_cmp_spec::<T>() ==> exists|ks: Seq<T>| #[trigger] vstd::std_specs::btree::increasing_seq(ks) && ks.to_set() == s@ && ks.no_duplicates()
            && r == from_iter_spec::<C, B>(ks.map_values(g)),
{
    s.into_iter().map(f).collect()
}
/// `find_map` ran F on a prefix of the `total` items: every result but the last is None; it stopped at the first Some, or ran out
pub open spec fn find_map_run<B>(outs: Seq<Option<B>>, total: int, r: Option<B>) -> bool {
    let n = outs.len() as int;
    &&& n <= total
    &&& forall|i: int| 0 <= i < n - 1 ==> (#[trigger] outs[i]) is None
    &&& (r is Some ==> n > 0 && outs[n - 1] == r)
    &&& (r is None ==> n == total && (n > 0 ==> outs[n - 1] is None))
}
/// N2 shim for `IT.enumerate().find_map(F)`: the first index whose item F maps to Some
#[verifier::external_body]
pub fn shim_iter_enumerate_find_map<I: Iterator, B, F: FnMut((usize, I::Item)) -> Option<B>>(it: I, f: F) -> (r: Option<B>)
    requires
        vstd::std_specs::iter::IteratorSpec::obeys_prophetic_iter_laws(&it),
        forall|i: int| 0 <= i < vstd::std_specs::iter::IteratorSpec::remaining(&it).len() ==> call_requires(f, ((i as usize, #[trigger] vstd::std_specs::iter::IteratorSpec::remaining(&it)[i]),)),
    ensures
        exists|outs: Seq<Option<B>>| #[trigger] find_map_run(outs, vstd::std_specs::iter::IteratorSpec::remaining(&it).len() as int, r)
            && (forall|i: int| 0 <= i < outs.len() ==> call_ensures(f, ((i as usize, vstd::std_specs::iter::IteratorSpec::remaining(&it)[i]),), #[trigger] outs[i])),
{
    it.enumerate().find_map(f)
}
/// N2 shim for `SET.range((Unbounded, Excluded(X.clone()))).rev().find(|id| id < &X)`: the greatest element below X
#[verifier::external_body]
pub fn shim_btreeset_pred<'a, T: Ord + Clone>(s: &'a BTreeSet<T>, x: &T) -> (r: Option<&'a T>)
    ensures crate::spec::actor_ok::<T>() ==> {
        &&& (r is Some ==> s@.contains(*r->0) && crate::spec::lt(*r->0, *x) && forall|y: T| #[trigger] s@.contains(y) && crate::spec::lt(y, *x) ==> crate::spec::le(y, *r->0))
        &&& (r is None ==> forall|y: T| #[trigger] s@.contains(y) ==> !crate::spec::lt(y, *x))
    },
{
    use core::ops::Bound::*;
    s.range((Unbounded, Excluded(x.clone()))).rev().find(|id| id < &x)
}
/// N2 shim for `SET.range((Excluded(X.clone()), Unbounded)).find(|id| id > &X)`: the least element above X
#[verifier::external_body]
pub fn shim_btreeset_succ<'a, T: Ord + Clone>(s: &'a BTreeSet<T>, x: &T) -> (r: Option<&'a T>)
    ensures crate::spec::actor_ok::<T>() ==> {
        &&& (r is Some ==> s@.contains(*r->0) && crate::spec::gt(*r->0, *x) && forall|y: T| #[trigger] s@.contains(y) && crate::spec::gt(y, *x) ==> crate::spec::le(*r->0, y))
        &&& (r is None ==> forall|y: T| #[trigger] s@.contains(y) ==> !crate::spec::gt(y, *x))
    },
{
    use core::ops::Bound::*;
    s.range((Excluded(x.clone()), Unbounded)).find(|id| id > &x)
}
/// N2 shim for `SET.extend(OTHER)` with OTHER an owned BTreeSet
#[verifier::external_body]
pub fn shim_btreeset_extend<T: Ord>(s: &mut BTreeSet<T>, other: BTreeSet<T>)
    ensures crate::spec::actor_ok::<T>() ==> final(s)@ == old(s)@.union(other@),
{
    s.extend(other)
}
/// N2 shim for `MAP.iter().filter(F).map(|(k, _)| k).copied().collect::<Vec<_>>()`: the keys whose entry satisfies F
#[verifier::external_body]
pub fn shim_btreemap_iter_filter_keys_collect<K: Ord + Copy, V, F: FnMut(&(&K, &V)) -> bool>(m: &BTreeMap<K, V>, Ghost(p): Ghost<spec_fn(K, V) -> bool>, f: F) -> (r: Vec<K>)
    requires
        forall|k: K| m@.contains_key(k) ==> call_requires(f, (&(&k, &#[trigger] m@[k]),)),
        forall|k: K, b: bool| m@.contains_key(k) && #[trigger] call_ensures(f, (&(&k, &m@[k]),), b) ==> b == p(k, m@[k]),
    ensures
        forall|k: K| #[trigger] r@.contains(k) <==> m@.contains_key(k) && p(k, m@[k]),
{
    m.iter().filter(f).map(|(k, _)| k).copied().collect::<Vec<_>>()
}
/// N2 shim for `SET.iter().copied().filter_map(F).collect()` into a BTreeMap, F key-preserving
#[verifier::external_body]
pub fn shim_btreeset_copied_filter_map_collect<K: Ord + Copy, V, F: FnMut(K) -> Option<(K, V)>>(s: &BTreeSet<K>, f: F) -> (r: BTreeMap<K, V>)
    requires
        forall|k: K| #[trigger] s@.contains(k) ==> call_requires(f, (k,)),
        forall|k: K, o: Option<(K, V)>| s@.contains(k) && #[trigger] call_ensures(f, (k,), o) ==> (o matches Some(q) ==> q.0 == k),
    ensures
        forall|k: K| #[trigger] r@.contains_key(k) ==> s@.contains(k) && call_ensures(f, (k,), Some((k, r@[k]))),
        forall|k: K| #[trigger] s@.contains(k) && !r@.contains_key(k) ==> call_ensures(f, (k,), None),
{
    s.iter().copied().filter_map(f).collect()
}
/// N2 shim for `MAP.iter().filter_map(F).collect()` into a BTreeMap, F key-preserving
#[verifier::external_body]
pub fn shim_btreemap_iter_filter_map_collect<'a, K: Ord + Copy, V, W, F: FnMut((&'a K, &'a V)) -> Option<(K, W)>>(m: &'a BTreeMap<K, V>, f: F) -> (r: BTreeMap<K, W>)
    requires
        forall|k: K| m@.contains_key(k) ==> call_requires(f, ((&k, &#[trigger] m@[k]),)),
        forall|k: K, o: Option<(K, W)>| m@.contains_key(k) && #[trigger] call_ensures(f, ((&k, &m@[k]),), o) ==> (o matches Some(q) ==> q.0 == k),
    ensures
        forall|k: K| #[trigger] r@.contains_key(k) ==> m@.contains_key(k) && call_ensures(f, ((&k, &m@[k]),), Some((k, r@[k]))),
        forall|k: K| #[trigger] m@.contains_key(k) && !r@.contains_key(k) ==> call_ensures(f, ((&k, &m@[k]),), None),
{
    m.iter().filter_map(f).collect()
}
/// `OPTION.unwrap_or_default()` for an Option<BTreeMap>
#[verifier::external_body]
pub fn shim_option_btreemap_unwrap_or_default<K: Ord, V>(o: Option<BTreeMap<K, V>>) -> (r: BTreeMap<K, V>)
    ensures o is Some ==> r == o->0, o is None ==> r@ == vstd::map::Map::<K, V>::empty(),
{
    o.unwrap_or_default()
}
/// N2 shim for `SET.iter().all(F)`
#[verifier::external_body]
pub fn shim_btreeset_iter_all<K: Ord, F: FnMut(&K) -> bool>(s: &BTreeSet<K>, Ghost(p): Ghost<spec_fn(K) -> bool>, f: F) -> (r: bool)
    requires
        forall|k: K| #[trigger] s@.contains(k) ==> call_requires(f, (&k,)),
        forall|k: K, b: bool| s@.contains(k) && #[trigger] call_ensures(f, (&k,), b) ==> b == p(k),
    ensures r == (forall|k: K| #[trigger] s@.contains(k) ==> p(k)),
{
    s.iter().all(f)
}
/// N2 shim for `MAP.keys().copied().collect()` into a BTreeSet
#[verifier::external_body]
pub fn shim_btreemap_keys_copied_collect<K: Ord + Copy, V>(m: &BTreeMap<K, V>) -> (r: BTreeSet<K>)
    ensures r@ == m@.dom(),
{
    m.keys().copied().collect()
}
/// N2 shim for `ITER.into_iter().collect()` into a Vec from a caller-chosen IntoIterator, also used as N4 shim for
/// `for X in ITER` over such an iterator (nothing is known about an arbitrary iterator, not even that it terminates: the loop
/// is run over the collected items).  The items are vstd's `into_iter_remaining(ITER)`: what the iterator will yield.
#[verifier::external_body]
pub fn shim_intoiter_collect_vec<I: IntoIterator>(it: I) -> (r: Vec<I::Item>)
    ensures r@ == vstd::std_specs::iter::into_iter_remaining(it),
{
    it.into_iter().collect()
}
/// N7: stands for `Box<dyn Iterator<Item = &'a X> + 'a>` (trait objects are outside Verus): an iterator over borrowed
/// elements, viewed as the sequence of elements it will still yield.  `over(v)` replaces `Box::new(v.iter())`, `empty()`
/// replaces `Box::new(std::iter::empty())`; `next` is the trait object's `next`.
#[verifier::external_body]
#[verifier::reject_recursive_types(X)]
pub struct DynIter<'a, X> { it: Box<dyn Iterator<Item = &'a X> + 'a> }
impl<'a, X> DynIter<'a, X> {
    pub uninterp spec fn rest(&self) -> Seq<X>;
    #[verifier::external_body]
    pub fn over(v: &'a Vec<X>) -> (r: Self)
        ensures r.rest() == v@,
    { DynIter { it: Box::new(v.iter()) } }
    #[verifier::external_body]
    pub fn empty() -> (r: Self)
        ensures r.rest() == Seq::<X>::empty(),
    { DynIter { it: Box::new(std::iter::empty()) } }
    #[verifier::external_body]
    pub fn next(&mut self) -> (r: Option<&'a X>)
        ensures
            old(self).rest().len() > 0 ==> r is Some && *r->0 == old(self).rest()[0] && final(self).rest() == old(self).rest().drop_first(),
            old(self).rest().len() == 0 ==> r is None && final(self).rest() == old(self).rest(),
    { self.it.next() }
}
/// `SET.append(&mut OTHER)` for BTreeSets
#[verifier::external_body]
pub fn shim_btreeset_append<T: Ord>(s: &mut BTreeSet<T>, other: &mut BTreeSet<T>)
    ensures crate::spec::actor_ok::<T>() ==> final(s)@ == old(s)@.union(old(other)@),
{
    s.append(other)
}
}
}
pub use crate::stdx5::*;
pub mod stdx4 {
use vstd::prelude::*;
verus! {
// ---- Vec iterator-chain shims (N2).  Each takes the closure of the replaced chain plus a ghost
// predicate / function `p` that the closure must compute (checked at the call site through the
// closure's `ensures`), so the contract can be stated with vstd's Seq::filter / map_values.

/// `V.iter().filter(F).count()`
#[verifier::external_body]
pub fn shim_vec_iter_filter_count<T, F: FnMut(&&T) -> bool>(v: &Vec<T>, Ghost(p): Ghost<spec_fn(T) -> bool>, f: F) -> (r: usize)
    requires
        forall|i: int| 0 <= i < v@.len() ==> call_requires(f, (&&#[trigger] v@[i],)),
        forall|i: int, b: bool| 0 <= i < v@.len() && call_ensures(f, (&&#[trigger] v@[i],), b) ==> b == p(v@[i]),
    ensures r == v@.filter(p).len(),
{
    v.iter().filter(f).count()
}

/// same, for closures whose contract only holds under a type-level hypothesis `cond`
#[verifier::external_body]
pub fn shim_vec_iter_filter_count_if<T, F: FnMut(&&T) -> bool>(v: &Vec<T>, Ghost(cond): Ghost<bool>, Ghost(p): Ghost<spec_fn(T) -> bool>, f: F) -> (r: usize)
    requires
        forall|i: int| 0 <= i < v@.len() ==> call_requires(f, (&&#[trigger] v@[i],)),
        cond ==> forall|i: int, b: bool| 0 <= i < v@.len() && call_ensures(f, (&&#[trigger] v@[i],), b) ==> b == p(v@[i]),
    ensures cond ==> r == v@.filter(p).len(),
{
    v.iter().filter(f).count()
}

/// `V.into_iter().filter(F).collect()` into a Vec
#[verifier::external_body]
pub fn shim_vec_into_filter_collect<T, F: FnMut(&T) -> bool>(v: Vec<T>, Ghost(p): Ghost<spec_fn(T) -> bool>, f: F) -> (r: Vec<T>)
    requires
        forall|i: int| 0 <= i < v@.len() ==> call_requires(f, (&#[trigger] v@[i],)),
        forall|i: int, b: bool| 0 <= i < v@.len() && call_ensures(f, (&#[trigger] v@[i],), b) ==> b == p(v@[i]),
    ensures r@ == v@.filter(p),
{
    v.into_iter().filter(f).collect()
}

/// `V.into_iter().filter(F1).filter(F2).collect::<Vec<_>>()`
#[verifier::external_body]
pub fn shim_vec_into_filter2_collect<T, F1: FnMut(&T) -> bool, F2: FnMut(&T) -> bool>(v: Vec<T>, Ghost(p1): Ghost<spec_fn(T) -> bool>, f1: F1, Ghost(p2): Ghost<spec_fn(T) -> bool>, f2: F2) -> (r: Vec<T>)
    requires
        forall|i: int| 0 <= i < v@.len() ==> call_requires(f1, (&#[trigger] v@[i],)) && call_requires(f2, (&v@[i],)),
        forall|i: int, b: bool| 0 <= i < v@.len() && call_ensures(f1, (&#[trigger] v@[i],), b) ==> b == p1(v@[i]),
        forall|i: int, b: bool| 0 <= i < v@.len() && call_ensures(f2, (&#[trigger] v@[i],), b) ==> b == p2(v@[i]),
    ensures r@ == v@.filter(p1).filter(p2),
{
    v.into_iter().filter(f1).filter(f2).collect::<Vec<_>>()
}

/// `V.retain(F)`
#[verifier::external_body]
pub fn shim_vec_retain<T, F: FnMut(&T) -> bool>(v: &mut Vec<T>, Ghost(p): Ghost<spec_fn(T) -> bool>, f: F)
    requires
        forall|i: int| 0 <= i < old(v)@.len() ==> call_requires(f, (&#[trigger] old(v)@[i],)),
        forall|i: int, b: bool| 0 <= i < old(v)@.len() && call_ensures(f, (&#[trigger] old(v)@[i],), b) ==> b == p(old(v)@[i]),
    ensures final(v)@ == old(v)@.filter(p),
{
    v.retain(f)
}

/// `V.extend(W)` for two Vecs
#[verifier::external_body]
pub fn shim_vec_extend<T>(v: &mut Vec<T>, w: Vec<T>)
    ensures final(v)@ == old(v)@ + w@,
{
    v.extend(w)
}

/// `V.into_iter().filter_map(F).collect()` into a Vec; relational contract: the result is the
/// concatenation, in order, of the `Some` outputs F produced
pub open spec fn fm_rel<T>(src: Seq<T>, outs: Seq<Option<T>>, r: Seq<T>) -> bool
    decreases src.len(),
{
    if src.len() == 0 { outs.len() == 0 && r.len() == 0 }
    else if outs.len() != src.len() { false }
    else { match outs.last() {
        Some(x) => r.len() > 0 && r.last() == x && fm_rel(src.drop_last(), outs.drop_last(), r.drop_last()),
        None => fm_rel(src.drop_last(), outs.drop_last(), r),
    } }
}
#[verifier::external_body]
pub fn shim_vec_into_filter_map_collect<T, F: FnMut(T) -> Option<T>>(v: Vec<T>, f: F) -> (r: Vec<T>)
    requires forall|i: int| 0 <= i < v@.len() ==> call_requires(f, (#[trigger] v@[i],)),
    ensures exists|outs: Seq<Option<T>>| outs.len() == v@.len() && (forall|i: int| 0 <= i < v@.len() ==> call_ensures(f, (v@[i],), #[trigger] outs[i])) && fm_rel(v@, outs, r@),
{
    v.into_iter().filter_map(f).collect()
}

/// `V.iter().fold(INIT, F)`: the result is reached through the chain of accumulators F produced
pub open spec fn fold_chain<T, B>(acc: Seq<B>, n: int, init: B, r: B) -> bool {
    acc.len() == n + 1 && acc[0] == init && acc[n] == r
}
#[verifier::external_body]
pub fn shim_vec_iter_fold<T, B, F: FnMut(B, &T) -> B>(v: &Vec<T>, init: B, Ghost(inv): Ghost<spec_fn(int, B) -> bool>, f: F) -> (r: B)
    requires
        inv(0, init),
        forall|i: int, b: B| 0 <= i < v@.len() && inv(i, b) ==> call_requires(f, (b, &#[trigger] v@[i])),
        forall|i: int, b: B, b2: B| 0 <= i < v@.len() && inv(i, b) && call_ensures(f, (b, &#[trigger] v@[i]), b2) ==> inv(i + 1, b2),
    ensures inv(v@.len() as int, r),
{
    v.iter().fold(init, f)
}

/// "y is what `x.clone()` returned" for an arbitrary Clone type (vstd's `cloned` is not available for tuples)
pub uninterp spec fn clone_rel<T>(x: T, y: T) -> bool;
/// Assumed: Clone for pairs is component-wise.
#[verifier::external_body]
pub proof fn axiom_clone_pair<K: Clone, V: Clone>(x: (K, V), y: (K, V))
    requires clone_rel(x, y),
    ensures cloned(x.0, y.0), cloned(x.1, y.1),
{}

/// `V.iter().cloned().map(F).collect()` into a Vec
#[verifier::external_body]
pub fn shim_vec_iter_cloned_map_collect<T: Clone, U, F: FnMut(T) -> U>(v: &Vec<T>, f: F) -> (r: Vec<U>)
    requires forall|x: T| call_requires(f, (x,)),
    ensures r@.len() == v@.len(), forall|i: int| #![trigger r@[i]] 0 <= i < v@.len() ==> exists|x: T| #[trigger] clone_rel(v@[i], x) && call_ensures(f, (x,), r@[i]),
{
    v.iter().cloned().map(f).collect()
}

} // verus!
}
pub use crate::stdx4::*;
pub mod stdx2 {
use vstd::prelude::*;
use vstd::std_specs::iter::IteratorSpec;
use crate::num::bigint::BigUint;
verus! {
pub open spec fn seq_sum(s: Seq<u64>) -> nat decreases s.len() {
    if s.len() == 0 { 0 } else { seq_sum(s.drop_last()) + s.last() as nat }
}
/// N2 chain shim: `IT.map(F).sum()` into a BigUint.  The iterator is consumed to completion
/// (so its prophecy `will_return_none` holds) and the result is the exact sum of f over what it yields.
#[verifier::external_body]
pub fn shim_map_sum_biguint<I: Iterator, F: FnMut(I::Item) -> u64>(it: I, f: F) -> (r: BigUint)
    requires
        it.obeys_prophetic_iter_laws(),
        forall|i: int| 0 <= i < it.remaining().len() ==> call_requires(f, (#[trigger] it.remaining()[i],)),
    ensures
        it.will_return_none(),
        exists|s: Seq<u64>| s.len() == it.remaining().len()
            && (forall|i: int| 0 <= i < s.len() ==> call_ensures(f, (it.remaining()[i],), #[trigger] s[i]))
            && r@ == seq_sum(s),
{
    unimplemented!() // it.map(f).sum()  -- needs the num crate; see DESIGN §3.2
}
}
}
pub use crate::stdx2::*;
