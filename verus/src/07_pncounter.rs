pub mod pncounter {
use vstd::prelude::*;
use vstd::map::Map as SMap;
use crate::num::bigint::{BigInt, bigint_sub};
use crate::spec::*;
use crate::gcounter::is_total;
use crate::traits::{CmRDT, CvRDT, ResetRemove};
use crate::{Dot, GCounter, VClock};
verus! {

//@extract struct src/pncounter.rs PNCounter
pub struct PNCounter<A: Ord> {
    p: GCounter<A>,
    n: GCounter<A>,
}
//@end

//@extract enum src/pncounter.rs Dir
pub enum Dir {
    Pos,
    Neg,
}
//@end

//@extract struct src/pncounter.rs Op
pub struct Op<A: Ord> {
    pub dot: Dot<A>,
    pub dir: Dir,
}
//@end

impl<A: Ord> PNCounter<A> {
    pub closed spec fn pos(&self) -> SMap<A, u64> { self.p@ }
    pub closed spec fn neg(&self) -> SMap<A, u64> { self.n@ }
}

impl<A: Ord> Default for PNCounter<A> {
//@extract fn src/pncounter.rs "Default for PNCounter" default
    fn default() -> /*@ (r: @*/ Self /*@ ) @*/
    //@ ensures r.pos() == SMap::<A, u64>::empty(), r.neg() == SMap::<A, u64>::empty(),
    {
        Self {
            p: Default::default(),
            n: Default::default(),
        }
    }
//@end
}

pub open spec fn app<A>(x: SMap<A, u64>, d: Dot<A>) -> SMap<A, u64> {
    if cnt(x, d.actor) < d.counter { x.insert(d.actor, d.counter) } else { x }
}

impl<A: Ord + Clone> CmRDT for PNCounter<A> {
    type Op = Op<A>;
    type Validation = <GCounter<A> as CmRDT>::Validation;
    closed spec fn cm_inv(&self) -> bool { self.p.cm_inv() && self.n.cm_inv() }
    open spec fn cm_pre(&self, op: &Op<A>) -> bool { true }
    open spec fn cm_post(old_: &Self, op: &Op<A>, new_: &Self) -> bool { true }
    open spec fn cm_vpre(&self, op: &Op<A>) -> bool { true }
    open spec fn cm_vhyp() -> bool { true }
    open spec fn cm_vflag(&self, op: &Self::Op) -> bool { false }

//@extract fn src/pncounter.rs "CmRDT for PNCounter" validate_op
    fn validate_op(&self, op: &Self::Op) -> /*@ (r: @*/ Result<(), Self::Validation> /*@ ) @*/
    //@ ensures r is Ok,
    {
        match op {
            Op { dot, dir: Dir::Pos } => self.p.validate_op(dot),
            Op { dot, dir: Dir::Neg } => self.n.validate_op(dot),
        }
    }
//@end

//@extract fn src/pncounter.rs "CmRDT for PNCounter" apply
    fn apply(&mut self, op: Self::Op)
    //@ ensures
    //@     actor_ok::<A>() ==> final(self).pos() == (if op.dir is Pos { app(old(self).pos(), op.dot) } else { old(self).pos() }),
    //@     actor_ok::<A>() ==> final(self).neg() == (if op.dir is Neg { app(old(self).neg(), op.dot) } else { old(self).neg() }),
    {
        match op {
            Op { dot, dir: Dir::Pos } => self.p.apply(dot),
            Op { dot, dir: Dir::Neg } => self.n.apply(dot),
        }
    }
//@end
}

impl<A: Ord + Clone> CvRDT for PNCounter<A> {
    type Validation = <GCounter<A> as CvRDT>::Validation;
    closed spec fn cv_inv(&self) -> bool { self.p.cv_inv() && self.n.cv_inv() }
    open spec fn cv_pre(&self, other: &Self) -> bool { true }
    open spec fn cv_post(old_: &Self, other: &Self, new_: &Self) -> bool { true }
    open spec fn cv_vhyp() -> bool { true }
    open spec fn cv_flag(&self, other: &Self) -> bool { false }

//@extract fn src/pncounter.rs "CvRDT for PNCounter" validate_merge
    fn validate_merge(&self, other: &Self) -> /*@ (r: @*/ Result<(), Self::Validation> /*@ ) @*/
    //@ ensures r is Ok,
    {
        self.p.validate_merge(&other.p)?;
        self.n.validate_merge(&other.n)
    }
//@end

//@extract fn src/pncounter.rs "CvRDT for PNCounter" merge
    fn merge(&mut self, other: Self)
    //@ ensures actor_ok::<A>() ==> is_join(final(self).pos(), old(self).pos(), other.pos()) && is_join(final(self).neg(), old(self).neg(), other.neg()),
    {
        self.p.merge(other.p);
        self.n.merge(other.n);
    }
//@end
}

impl<A: Ord> ResetRemove<A> for PNCounter<A> {
    closed spec fn rr_inv(&self) -> bool { self.p.rr_inv() && self.n.rr_inv() }
    open spec fn rr_post(old_: &Self, clock: &VClock<A>, new_: &Self) -> bool { true }

//@extract fn src/pncounter.rs "ResetRemove for PNCounter" reset_remove
    fn reset_remove(&mut self, clock: &VClock<A>)
    //@ ensures actor_ok::<A>() ==> final(self).pos() == vsub(old(self).pos(), clock@) && final(self).neg() == vsub(old(self).neg(), clock@),
    {
        self.p.reset_remove(clock);
        self.n.reset_remove(clock);
    }
//@end
}

impl<A: Ord + Clone> PNCounter<A> {
//@extract fn src/pncounter.rs "PNCounter" new
    pub fn new() -> /*@ (r: @*/ Self /*@ ) @*/
    //@ ensures r.pos() == SMap::<A, u64>::empty(), r.neg() == SMap::<A, u64>::empty(),
    {
        Default::default()
    }
//@end

//@extract fn src/pncounter.rs "PNCounter" inc
    pub fn inc(&self, actor: A) -> /*@ (r: @*/ Op<A> /*@ ) @*/
    //@ requires actor_ok::<A>(), cnt(self.pos(), actor) < u64::MAX,
    //@ ensures r.dir is Pos, cloned(actor, r.dot.actor), r.dot.counter == cnt(self.pos(), actor) + 1,
    {
        Op {
            dot: self.p.inc(actor),
            dir: Dir::Pos,
        }
    }
//@end

//@extract fn src/pncounter.rs "PNCounter" dec
    pub fn dec(&self, actor: A) -> /*@ (r: @*/ Op<A> /*@ ) @*/
    //@ requires actor_ok::<A>(), cnt(self.neg(), actor) < u64::MAX,
    //@ ensures r.dir is Neg, cloned(actor, r.dot.actor), r.dot.counter == cnt(self.neg(), actor) + 1,
    {
        Op {
            dot: self.n.inc(actor),
            dir: Dir::Neg,
        }
    }
//@end

//@extract fn src/pncounter.rs "PNCounter" inc_many
    pub fn inc_many(&self, actor: A, steps: u64) -> /*@ (r: @*/ Op<A> /*@ ) @*/
    //@ requires actor_ok::<A>(), steps + cnt(self.pos(), actor) <= u64::MAX,
    //@ ensures r.dir is Pos, r.dot.actor == actor, r.dot.counter == cnt(self.pos(), actor) + steps,
    {
        Op {
            dot: self.p.inc_many(actor, steps),
            dir: Dir::Pos,
        }
    }
//@end

//@extract fn src/pncounter.rs "PNCounter" dec_many
    pub fn dec_many(&self, actor: A, steps: u64) -> /*@ (r: @*/ Op<A> /*@ ) @*/
    //@ requires actor_ok::<A>(), steps + cnt(self.neg(), actor) <= u64::MAX,
    //@ ensures r.dir is Neg, r.dot.actor == actor, r.dot.counter == cnt(self.neg(), actor) + steps,
    {
        Op {
            dot: self.n.inc_many(actor, steps),
            dir: Dir::Neg,
        }
    }
//@end

//@extract fn src/pncounter.rs "PNCounter" read
    pub fn read(&self) -> /*@ (r: @*/ BigInt /*@ ) @*/
    //@ requires actor_ok::<A>(),
    //@ ensures exists|p: nat, n: nat| is_total(p, self.pos()) && is_total(n, self.neg()) && r@ == p - n,
    {
        let p: BigInt = self.p.read().into();
        let n: BigInt = self.n.read().into();
        //@ proof { assert(is_total(p@ as nat, self.pos())); assert(is_total(n@ as nat, self.neg())); }
        /*@ bigint_sub( @*/ p /*@<*/ - /*@>*/ /*@ , @*/ n /*@ ) @*/
    }
//@end
}

} // verus!
}
pub use crate::pncounter::PNCounter;
