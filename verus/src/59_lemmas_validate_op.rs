// Layer L for C16: validate_op accepts every in-order op and rejects every gap.  Compositions of the producer
// contracts (inc / derive_add_ctx+add / insert_index / delete_index / write) with the validate_op and apply contracts.
// Nothing here is extracted from /repo.
pub mod lemmas_validate_op {
use vstd::prelude::*;
use vstd::map::Map as SMap;
use crate::spec::*;
use std::hash::Hash as StdHash;
use crate::merkle_reg::{MerkleReg, Node, Hash, ready, nhash, apply_post_mk};
use crate::orswot::{Orswot, apply_post};
use crate::list::{List, apply_post_list};
use crate::lwwreg::{LWWReg, lww_conflict, lww_ok};
verus! {

// The verdict every dot-continuity check of the crate computes (VClock, Orswot adds, List ops; verified in the respective
// validate_op contracts) is: Ok iff counter <= cnt(clock, actor) + 1.

/// C16 (origin): the op an actor produces from its own replica carries that actor's next dot, so the replica accepts it
pub proof fn c16_origin_accepts<A>(clock: SMap<A, u64>, actor: A, counter: u64)
    requires counter == cnt(clock, actor) + 1,   // producer contracts: VClock::inc, derive_add_ctx, insert_index, delete_index
    ensures counter <= cnt(clock, actor) + 1,     // validate_op contracts: Ok
{
}

/// C16 (in-order delivery and re-delivery): a replica that has applied the actor's previous update (its clock covers
/// counter - 1; the apply contracts record each applied dot in the clock) accepts the op; so does one that already applied it
pub proof fn c16_in_order_accepts<A>(clock: SMap<A, u64>, actor: A, counter: u64)
    requires counter >= 1, cnt(clock, actor) >= counter - 1,
    ensures counter <= cnt(clock, actor) + 1,
{
}

/// C16 (gaps): a replica that has not applied the actor's previous update rejects the op, and that is the only reason to reject
pub proof fn c16_gap_rejected<A>(clock: SMap<A, u64>, actor: A, counter: u64)
    requires counter >= 1,
    ensures !(counter <= cnt(clock, actor) + 1) <==> cnt(clock, actor) < counter - 1,
{
}

/// C16 (Orswot, in order): once a replica has applied an actor's add with dot (a, c) -- as an op, in whatever context --
/// its clock covers c (apply's contract), so that actor's next add (a, c + 1) passes validate_op (Ok iff counter <= clock + 1),
/// and a re-delivery of (a, c) passes as well
pub proof fn c16_orswot_in_order<M: StdHash + Eq, A: Ord + StdHash>(s: Orswot<M, A>, op: crate::orswot::Op<M, A>, s2: Orswot<M, A>)
    requires apply_post(s, op, s2), op is Add, op->Add_dot.counter < u64::MAX,
    ensures op->Add_dot.counter + 1 <= cnt(s2.cl(), op->Add_dot.actor) + 1, op->Add_dot.counter <= cnt(s2.cl(), op->Add_dot.actor) + 1,
{
}

/// C16 (List, in order): the same for List ops (inserts carry their dot in the identifier, deletes carry it explicitly)
pub proof fn c16_list_in_order<T, A: Ord + Clone + Eq>(s: List<T, A>, op: crate::list::Op<T, A>, s2: List<T, A>)
    requires apply_post_list(s, op, s2),
    ensures op.dot_spec().counter <= cnt(s2.cl(), op.dot_spec().actor),
{
}

/// C16 (LWWReg): an op is rejected exactly when it reuses the current marker with a different value; in particular a
/// re-delivery of the op that set the current value, and any op with a fresh marker, are accepted
pub proof fn c16_lww<V: PartialEq, M: Ord>(r: LWWReg<V, M>, val: V, marker: M)
    requires lww_ok::<V, M>(),
    ensures !eqv(r.marker, marker) ==> !lww_conflict(r, val, marker),
        vstd::std_specs::cmp::PartialEqSpec::eq_spec(&val, &r.val) ==> !lww_conflict(r, val, marker),
{
}

/// C16 (MerkleReg): a node written on top of hashes read from this replica (all visible) is accepted; a node is
/// rejected exactly when one of its children is not visible, i.e. exactly when apply would have to park it as an orphan
pub proof fn c16_merkle<T>(s: MerkleReg<T>, n: Node<T>, s2: MerkleReg<T>)
    requires s.inv(), s2.inv(), apply_post_mk(s, n, s2), !s.recv().contains_key(nhash(n)),
    ensures
        // validate_op's contract says: Ok <==> ready(s.dg(), n)
        ready(s.dg(), n) <==> s2.dg().contains_key(nhash(n)),
{
    let hn = nhash(n);
    assert(s2.recv().contains_key(hn) && s2.recv()[hn] == n);
    if ready(s.dg(), n) {
        assert forall|c: Hash| #[trigger] n.children@.contains(c) implies s2.dg().contains_key(c) by { assert(s.dg().contains_key(c)); assert(s.dg().dom().contains(c)); }
        if !s2.dg().contains_key(hn) { assert(s2.orp().contains_key(hn)); assert(s2.orp()[hn] == n); }
    }
    if !ready(s.dg(), n) { assert(s2.dg() == s.dg()); assert(!s.dg().contains_key(hn)); }
}

} // verus!
}
