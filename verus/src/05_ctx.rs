pub mod ctx {
use vstd::prelude::*;
use vstd::map::Map as SMap;
use crate::spec::*;
use crate::{CmRDT, Dot, VClock};
verus! {

//@extract struct src/ctx.rs ReadCtx
pub struct ReadCtx<V, A: Ord> {
    pub add_clock: VClock<A>,

    pub rm_clock: VClock<A>,

    pub val: V,
}
//@end

//@extract struct src/ctx.rs AddCtx
pub struct AddCtx<A: Ord> {
    pub clock: VClock<A>,

    pub dot: Dot<A>,
}
//@end

//@extract struct src/ctx.rs RmCtx
pub struct RmCtx<A: Ord> {
    pub clock: VClock<A>,
}
//@end

// `Debug` is dropped from the bounds (Display/Debug impls are not part of the unit)
impl<V, A: Ord + Clone> ReadCtx<V, A> {
//@extract fn src/ctx.rs "ReadCtx" derive_add_ctx
    pub fn derive_add_ctx(self, actor: A) -> /*@ (r: @*/ AddCtx<A> /*@ ) @*/
    //@ requires actor_ok::<A>(), clone_ok::<A>(), nz(self.add_clock@), cnt(self.add_clock@, actor) < u64::MAX,
    //@ ensures
    //@     // C07: the derived dot is the actor's next unused dot, and the context clock is the add
    //@     // clock advanced by exactly that dot
    //@     r.dot.actor == actor, r.dot.counter == cnt(self.add_clock@, actor) + 1,
    //@     r.clock@ == self.add_clock@.insert(actor, r.dot.counter), nz(r.clock@),
    {
        let mut clock = self.add_clock;
        let dot = clock.inc(actor);
        //@ let dc = dot.clone();
        clock.apply( /*@<*/ dot.clone() /*@>*/ /*@ dc @*/ );
        AddCtx { clock, dot }
    }
//@end

//@extract fn src/ctx.rs "ReadCtx" derive_rm_ctx
    pub fn derive_rm_ctx(self) -> /*@ (r: @*/ RmCtx<A> /*@ ) @*/
    //@ ensures r.clock == self.rm_clock,
    {
        RmCtx {
            clock: self.rm_clock,
        }
    }
//@end

//@extract fn src/ctx.rs "ReadCtx" split
    pub fn split(self) -> /*@ (r: @*/ (V, ReadCtx<(), A>) /*@ ) @*/
    //@ ensures r.0 == self.val, r.1.add_clock == self.add_clock, r.1.rm_clock == self.rm_clock,
    {
        (
            self.val,
            ReadCtx {
                add_clock: self.add_clock,
                rm_clock: self.rm_clock,
                val: (),
            },
        )
    }
//@end
}

} // verus!
}
