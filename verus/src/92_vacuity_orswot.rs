// Vacuity twins for the Orswot contracts: every function here MUST FAIL.
pub mod vacuity {
use vstd::prelude::*;
use vstd::map::Map as SMap;
use vstd::set::Set as SSet;
use std::collections::HashSet;
use std::hash::Hash;
use crate::spec::*;
use crate::stdx3::*;
use crate::vclock::VClock;
use crate::orswot::*;
verus! {
pub proof fn vac_params<M: Hash + Eq, A: Ord + Hash + Clone>() requires params_ok::<M, A>(), eq_ok::<M>() ensures false {}
pub proof fn vac_wf<M: Hash + Eq, A: Ord + Hash + Clone>(s: Orswot<M, A>, m: M, k: VClock<A>) requires params_ok::<M, A>(), s.wf(), s.ents().contains_key(m), s.defs().contains_key(k), !vle(k@, s.cl()) ensures false {}
pub proof fn vac_two<M: Hash + Eq, A: Ord + Hash + Clone>(s: Orswot<M, A>, o: Orswot<M, A>, m: M) requires params_ok::<M, A>(), s.wf(), o.wf(), s.ents().contains_key(m), o.ents().contains_key(m), s.ec(m) != o.ec(m) ensures false {}
pub proof fn vac_double<M: Hash + Eq, A: Ord + Hash + Clone>(s: Orswot<M, A>, o: Orswot<M, A>) requires params_ok::<M, A>(), s.wf(), o.wf(), double_spent(s, o) ensures false {}
pub proof fn vac_covered<M: Hash + Eq, A: Ord + Hash + Clone>(s: Orswot<M, A>, m: M, a: A) requires s.wf(), covered_by(s.defs(), m, a, cnt(s.ec(m), a)), cnt(s.ec(m), a) > 0 ensures false {}
pub proof fn vac_axiom<A: Ord + Hash>() requires actor_ok::<A>() ensures false { axiom_vclock_key::<A>(); }
}
}
