// Layer L, cross-cutting (C01, C02, C03, C08, C09, C20): every type has a DENOTATION -- a predicate "state s is what
// knowledge set K denotes" -- with four lemma families over the verified function contracts:
//   init    the empty state denotes the empty knowledge set
//   apply   applying an op (under the delivery premise of the type) moves s to the denotation of K + {op};
//           an op already in K changes nothing
//   merge   merging the denotations of K1 and K2 gives the denotation of K1 u K2
//   unique  two states denoting the same K are equal (reads, contexts, ==)
// The per-type families live in lemmas_vclock / _counters / _regs / _mvreg / _orswot / _list / _idorder / _merkle; this file
// adds the missing merge members for the simple types and states each cross-cutting property as corollaries.
// Nothing here is extracted from /repo.
pub mod lemmas_cross {
use vstd::prelude::*;
use vstd::map::Map as SMap;
use vstd::set::Set as SSet;
use core::cmp::Ordering;
use std::hash::Hash;
use vstd::std_specs::cmp::{PartialEqSpec, PartialOrdSpec, OrdSpec};
use crate::spec::*;
use crate::Dot;
use crate::lwwreg::{LWWReg, lww_update};
use crate::maxreg::max_update;
use crate::minreg::min_update;
use crate::lemmas_regs::*;
use crate::lemmas_counters::*;
use crate::lemmas_mvreg::{repr as mv_repr, h_ok, lmv_apply, lmv_merge, lmv_unique, put_spec, W, merge_spec, shows_ctx};
use crate::pncounter::app;
use crate::vclock::VClock;
use crate::orswot::Orswot;
use crate::lemmas_orswot::*;
verus! {

// ---------------------------------------------------------------------------------------------------------------
// merge members for the registers and the grow-only sets

/// MaxReg: merge == learning the other side's maximum, which is a maximum of the union
pub proof fn lreg_max_merge<V: Ord>(c1: V, h1: SSet<V>, c2: V, h2: SSet<V>)
    requires ord_ok::<V>(), is_max_val(c1, h1), is_max_val(c2, h2),
    ensures is_max_val(max_update(c1, c2), h1.union(h2)),
{
    lemma_ord_ok::<V>();
    let n = max_update(c1, c2);
    let h = h1.union(h2);
    assert forall|w: V| #[trigger] h.contains(w) implies !gt(w, n) by {
        if h1.contains(w) { if gt(c2, c1) && gt(w, c2) { assert(gt(w, c1)); } }
        else { assert(h2.contains(w)); if !gt(c2, c1) && gt(w, c1) { assert(!gt(w, c2)); lreg_not_gt_chain(w, c2, c1); } }
    }
}
proof fn lreg_not_gt_chain<V: Ord>(w: V, b: V, c: V)
    requires ord_ok::<V>(), !gt(w, b), !gt(b, c), gt(w, c),
    ensures false,
{
    lemma_ord_ok::<V>();
    // w <= b <= c but w > c
    assert(lt(c, w) <==> gt(w, c));
    if lt(w, b) { if lt(b, c) { assert(lt(w, c)); assert(lt(c, w)); assert(lt(w, w)); assert(lt(w, w) <==> gt(w, w)); } else { assert(eqv(b, c)); crate::identifier::lemma_lt_eqv(w, b, c); assert(lt(w, c)); assert(lt(c, w)); assert(lt(w, w)); assert(lt(w, w) <==> gt(w, w)); } }
    else { assert(eqv(w, b)); if lt(b, c) { crate::identifier::lemma_eqv_lt(w, b, c); assert(lt(w, c)); assert(lt(c, w)); assert(lt(w, w)); assert(lt(w, w) <==> gt(w, w)); } else { assert(eqv(b, c)); assert(eqv(w, c)); } }
}
pub proof fn lreg_min_merge<V: Ord>(c1: V, h1: SSet<V>, c2: V, h2: SSet<V>)
    requires ord_ok::<V>(), is_min_val(c1, h1), is_min_val(c2, h2),
    ensures is_min_val(min_update(c1, c2), h1.union(h2)),
{
    lemma_ord_ok::<V>();
    let n = min_update(c1, c2);
    let h = h1.union(h2);
    assert forall|w: V| #[trigger] h.contains(w) implies !lt(w, n) by {
        if h1.contains(w) { if lt(c2, c1) && lt(w, c2) { assert(lt(w, c1)); } }
        else { assert(h2.contains(w)); if !lt(c2, c1) && lt(w, c1) { assert(!lt(w, c2)); assert(lt(w, c2) <==> gt(c2, w)); assert(lt(c2, c1) <==> gt(c1, c2)); assert(lt(w, c1) <==> gt(c1, w)); lreg_not_gt_chain(c1, c2, w); } }
    }
}
/// LWWReg: merge == learning the other side's winning write, which gives a greatest marker of the union
pub proof fn lreg_lww_merge<V, M: Ord>(c1: LWWReg<V, M>, h1: SSet<(V, M)>, c2: LWWReg<V, M>, h2: SSet<(V, M)>)
    requires ord_ok::<M>(), is_lww(c1, h1), is_lww(c2, h2),
    ensures is_lww(lww_update(c1, c2.val, c2.marker), h1.union(h2)),
{
    lemma_ord_ok::<M>();
    let n = lww_update(c1, c2.val, c2.marker);
    let h = h1.union(h2);
    assert(lt(c1.marker, c2.marker) <==> gt(c2.marker, c1.marker));
    assert forall|w: V, k: M| #[trigger] h.contains((w, k)) implies !gt(k, n.marker) by {
        if h1.contains((w, k)) { if lt(c1.marker, c2.marker) && gt(k, c2.marker) { assert(gt(k, c1.marker)); } }
        else { assert(h2.contains((w, k))); if !lt(c1.marker, c2.marker) && gt(k, c1.marker) { assert(!gt(k, c2.marker)); lreg_not_gt_chain(k, c2.marker, c1.marker); } }
    }
}

// ---------------------------------------------------------------------------------------------------------------
// C01 / C03 / C09: state == denotation, so same knowledge => same state, however it was acquired.
// For each type the corollary composes apply/merge with unique.

/// VClock, GCounter, PNCounter halves: two replicas that learned the same dots -- by ops in any order, duplicated, or by
/// merges -- hold the same clock / totals
pub proof fn c01_counters<A>(s1: SMap<A, u64>, s2: SMap<A, u64>, h: SSet<(A, u64)>)
    requires is_max_of(s1, h), is_max_of(s2, h),
    ensures s1 == s2,
{
    lmax_unique(s1, s2, h);
}
/// C03 counters: merge of the denotations of h1 and h2 is the state a replica reaches by applying the ops of h1 u h2
pub proof fn c03_counters<A>(z: SMap<A, u64>, s1: SMap<A, u64>, s2: SMap<A, u64>, h1: SSet<(A, u64)>, h2: SSet<(A, u64)>, byops: SMap<A, u64>)
    requires is_max_of(s1, h1), is_max_of(s2, h2), is_join(z, s1, s2), nz(z), is_max_of(byops, h1.union(h2)),
    ensures z == byops,
{
    lmax_merge(z, s1, s2, h1, h2);
    lmax_unique(z, byops, h1.union(h2));
}
/// C02 counters: a+b = b+a, (a+b)+c = a+(b+c), a+a = a -- through the denotation, or directly: join is max
pub proof fn c02_counters<A>(ab: SMap<A, u64>, ba: SMap<A, u64>, a: SMap<A, u64>, b: SMap<A, u64>, c: SMap<A, u64>, ab_c: SMap<A, u64>, bc: SMap<A, u64>, a_bc: SMap<A, u64>, aa: SMap<A, u64>)
    requires nz(a), nz(b), nz(c), nz(ab), nz(ba), nz(ab_c), nz(bc), nz(a_bc), nz(aa),
        is_join(ab, a, b), is_join(ba, b, a), is_join(ab_c, ab, c), is_join(bc, b, c), is_join(a_bc, a, bc), is_join(aa, a, a),
    ensures ab == ba, ab_c == a_bc, aa == a,
{
    assert forall|x: A| cnt(ab, x) == cnt(ba, x) by { assert(cnt(ab, x) == max64(cnt(a, x), cnt(b, x))); assert(cnt(ba, x) == max64(cnt(b, x), cnt(a, x))); }
    lemma_cnt_ext(ab, ba);
    assert forall|x: A| cnt(ab_c, x) == cnt(a_bc, x) by {
        assert(cnt(ab_c, x) == max64(cnt(ab, x), cnt(c, x))); assert(cnt(ab, x) == max64(cnt(a, x), cnt(b, x)));
        assert(cnt(a_bc, x) == max64(cnt(a, x), cnt(bc, x))); assert(cnt(bc, x) == max64(cnt(b, x), cnt(c, x)));
    }
    lemma_cnt_ext(ab_c, a_bc);
    assert forall|x: A| cnt(aa, x) == cnt(a, x) by { assert(cnt(aa, x) == max64(cnt(a, x), cnt(a, x))); }
    lemma_cnt_ext(aa, a);
}
/// C09 counters: an op already learned, or a state whose knowledge is already held, changes nothing
pub proof fn c09_counters<A>(s: SMap<A, u64>, h: SSet<(A, u64)>, d: Dot<A>, z: SMap<A, u64>, s2: SMap<A, u64>, h2: SSet<(A, u64)>)
    requires is_max_of(s, h), is_max_of(s2, h2), h2.subset_of(h), is_join(z, s, s2), nz(z), h.contains((d.actor, d.counter)),
    ensures app(s, d) == s, z == s,
{
    lmax_dup(s, h, d);
    lmax_merge(z, s, s2, h, h2);
    assert(h.union(h2) =~= h);
    lmax_unique(z, s, h);
}

/// registers (C01/C02/C03/C09): the content is a greatest element of the learned set, whether learned by ops or by merge;
/// for LWWReg with unique markers (the property's premise) it is THE write with the greatest marker
pub proof fn c01_lww<V, M: Ord>(c1: LWWReg<V, M>, c2: LWWReg<V, M>, h: SSet<(V, M)>)
    requires ord_ok::<M>(), is_lww(c1, h), is_lww(c2, h), markers_unique(h),
    ensures c1 == c2,
{
    c11_lww_unique(c1, c2, h);
}
pub proof fn c03_lww<V, M: Ord>(c1: LWWReg<V, M>, h1: SSet<(V, M)>, c2: LWWReg<V, M>, h2: SSet<(V, M)>, byops: LWWReg<V, M>)
    requires ord_ok::<M>(), is_lww(c1, h1), is_lww(c2, h2), is_lww(byops, h1.union(h2)), markers_unique(h1.union(h2)),
    ensures lww_update(c1, c2.val, c2.marker) == byops, lww_update(c2, c1.val, c1.marker) == byops,
{
    lreg_lww_merge(c1, h1, c2, h2);
    c11_lww_unique(lww_update(c1, c2.val, c2.marker), byops, h1.union(h2));
    lreg_lww_merge(c2, h2, c1, h1);
    assert(h2.union(h1) =~= h1.union(h2));
    c11_lww_unique(lww_update(c2, c1.val, c1.marker), byops, h1.union(h2));
}
pub proof fn c03_maxreg<V: Ord>(c1: V, h1: SSet<V>, c2: V, h2: SSet<V>, byops: V)
    requires ord_ok::<V>(), is_max_val(c1, h1), is_max_val(c2, h2), is_max_val(byops, h1.union(h2)),
    ensures eqv(max_update(c1, c2), byops), eqv(max_update(c2, c1), byops),
{
    lreg_max_merge(c1, h1, c2, h2);
    c11_maxreg_unique(max_update(c1, c2), byops, h1.union(h2));
    lreg_max_merge(c2, h2, c1, h1);
    assert(h2.union(h1) =~= h1.union(h2));
    c11_maxreg_unique(max_update(c2, c1), byops, h1.union(h2));
}
pub proof fn c03_minreg<V: Ord>(c1: V, h1: SSet<V>, c2: V, h2: SSet<V>, byops: V)
    requires ord_ok::<V>(), is_min_val(c1, h1), is_min_val(c2, h2), is_min_val(byops, h1.union(h2)),
    ensures eqv(min_update(c1, c2), byops), eqv(min_update(c2, c1), byops),
{
    lreg_min_merge(c1, h1, c2, h2);
    c11_minreg_unique(min_update(c1, c2), byops, h1.union(h2));
    lreg_min_merge(c2, h2, c1, h1);
    assert(h2.union(h1) =~= h1.union(h2));
    c11_minreg_unique(min_update(c2, c1), byops, h1.union(h2));
}

/// GSet / GList (C01/C02/C03/C09): the F-contracts say state' == state + {x} (apply) and state' == state u other (merge):
/// the state IS the set of learned elements; set union is a join
pub proof fn c02_sets<T>(a: SSet<T>, b: SSet<T>, c: SSet<T>, x: T)
    ensures a.union(b) == b.union(a), a.union(b).union(c) == a.union(b.union(c)), a.union(a) == a,
        a.contains(x) ==> a.insert(x) == a, b.subset_of(a) ==> a.union(b) == a,
{
    assert(a.union(b) =~= b.union(a)); assert(a.union(b).union(c) =~= a.union(b.union(c))); assert(a.union(a) =~= a);
    if a.contains(x) { assert(a.insert(x) =~= a); }
    if b.subset_of(a) { assert(a.union(b) =~= a); }
}

/// MVReg (C01/C02/C03/C08/C09/C20): NO delivery premise at all.  Two registers that learned the same writes show the
/// same contexts; merge == union of knowledge; a write already learned changes nothing observable
pub proof fn c01_mvreg<V, A: Ord>(s1: Seq<(VClock<A>, V)>, s2: Seq<(VClock<A>, V)>, h: SSet<W<V, A>>)
    requires mv_repr(s1, h), mv_repr(s2, h), h_ok(h),
    ensures forall|i: int| 0 <= i < s1.len() ==> shows_ctx(s2, (#[trigger] s1[i]).0@), forall|i: int| 0 <= i < s2.len() ==> shows_ctx(s1, (#[trigger] s2[i]).0@),
{
    lmv_unique(s1, s2, h);
    lmv_unique(s2, s1, h);
}
pub proof fn c03_mvreg<V, A: Ord>(s: Seq<(VClock<A>, V)>, o: Seq<(VClock<A>, V)>, h1: SSet<W<V, A>>, h2: SSet<W<V, A>>, byops: Seq<(VClock<A>, V)>)
    requires mv_repr(s, h1), mv_repr(o, h2), h_ok(h1), h_ok(h2), mv_repr(byops, h1.union(h2)),
    ensures forall|i: int| 0 <= i < byops.len() ==> shows_ctx(merge_spec(s, o), (#[trigger] byops[i]).0@),
        forall|i: int| 0 <= i < byops.len() ==> shows_ctx(merge_spec(o, s), (#[trigger] byops[i]).0@),
{
    lmv_merge(s, o, h1, h2);
    lmv_unique(byops, merge_spec(s, o), h1.union(h2));
    lmv_merge(o, s, h2, h1);
    assert(h2.union(h1) =~= h1.union(h2));
    lmv_unique(byops, merge_spec(o, s), h1.union(h2));
}
pub proof fn c09_mvreg<V, A: Ord>(s: Seq<(VClock<A>, V)>, h: SSet<W<V, A>>, c: VClock<A>, v: V)
    requires mv_repr(s, h), h_ok(h), h.contains((c@, v)), nz(c@), c@ != SMap::<A, u64>::empty(),
    ensures forall|i: int| 0 <= i < s.len() ==> shows_ctx(put_spec(s, c, v), (#[trigger] s[i]).0@),
{
    lmv_apply(s, h, c, v);
    assert(h.insert((c@, v)) =~= h);
    lmv_unique(s, put_spec(s, c, v), h);
}

/// Orswot: restated from lemmas_orswot for the table -- C01/C03 (same knowledge, same state), C08 (lo_apply_add needs only
/// the actor's own order; lo_apply_rm needs none: an early remove is pending in the denotation and takes effect when the
/// adds arrive), C09 (c09_stale_merge, c09_cov_monotone), C20 (lo_unique is structural; c20_no_residue)
pub proof fn c01_orswot<M: Hash + Eq, A: Ord + Hash>(s: Orswot<M, A>, t: Orswot<M, A>, k: Know<M, A>)
    requires actor_ok::<A>(), repr(s, k), repr(t, k),
    ensures s.cl() == t.cl(), s.ents() == t.ents(), forall|cc: VClock<A>| #[trigger] s.dm(cc) == t.dm(cc), forall|cc: VClock<A>| #[trigger] s.defs().contains_key(cc) == t.defs().contains_key(cc),
{
    c01_same_knowledge_same_state(s, t, k);
}
/// C02 Orswot: a+b and b+a, (a+b)+c and a+(b+c), a+a and a denote the same knowledge set, hence are the same state
pub proof fn c02_orswot<M: Hash + Eq, A: Ord + Hash>(a: Orswot<M, A>, ka: Know<M, A>, b: Orswot<M, A>, kb: Know<M, A>, ab: Orswot<M, A>, ba: Orswot<M, A>, aa: Orswot<M, A>)
    requires actor_ok::<A>(), repr(a, ka), repr(b, kb), compat(ka, a.cl(), kb, b.cl()), ab.wf(), ba.wf(), aa.wf(),
        crate::orswot::merge_post(a, b, ab), crate::orswot::merge_post(b, a, ba), crate::orswot::merge_post(a, a, aa),
    ensures ab.cl() == ba.cl(), ab.ents() == ba.ents(), forall|cc: VClock<A>| #[trigger] ab.dm(cc) == ba.dm(cc),
        aa.cl() == a.cl(), aa.ents() == a.ents(), forall|cc: VClock<A>| #[trigger] aa.dm(cc) == a.dm(cc),
{
    lo_merge(a, ka, b, kb, ab);
    lo_merge(b, kb, a, ka, ba);
    c02_union_laws(ka, kb, ka);
    lo_unique(ab, ba, k_union(ka, kb));
    lo_merge(a, ka, a, ka, aa);
    lo_unique(aa, a, ka);
}
pub proof fn c02_orswot_assoc<M: Hash + Eq, A: Ord + Hash>(a: Orswot<M, A>, ka: Know<M, A>, b: Orswot<M, A>, kb: Know<M, A>, c: Orswot<M, A>, kc: Know<M, A>,
        ab: Orswot<M, A>, bc: Orswot<M, A>, ab_c: Orswot<M, A>, a_bc: Orswot<M, A>)
    requires actor_ok::<A>(), repr(a, ka), repr(b, kb), repr(c, kc), compat(ka, a.cl(), kb, b.cl()), compat(ka, a.cl(), kc, c.cl()), compat(kb, b.cl(), kc, c.cl()),
        ab.wf(), bc.wf(), ab_c.wf(), a_bc.wf(),
        crate::orswot::merge_post(a, b, ab), crate::orswot::merge_post(b, c, bc), crate::orswot::merge_post(ab, c, ab_c), crate::orswot::merge_post(a, bc, a_bc),
    ensures ab_c.cl() == a_bc.cl(), ab_c.ents() == a_bc.ents(), forall|cc: VClock<A>| #[trigger] ab_c.dm(cc) == a_bc.dm(cc),
{
    lo_merge(a, ka, b, kb, ab);
    lo_merge(b, kb, c, kc, bc);
    c02_compat_union(ka, a.cl(), kb, b.cl(), kc, c.cl(), ab.cl());
    lo_merge(ab, k_union(ka, kb), c, kc, ab_c);
    lo_compat_sym(kb, b.cl(), kc, c.cl()); lo_compat_sym(ka, a.cl(), kb, b.cl()); lo_compat_sym(ka, a.cl(), kc, c.cl());
    c02_compat_union(kb, b.cl(), kc, c.cl(), ka, a.cl(), bc.cl());
    lo_compat_sym(k_union(kb, kc), bc.cl(), ka, a.cl());
    lo_merge(a, ka, bc, k_union(kb, kc), a_bc);
    c02_union_laws(ka, kb, kc);
    lo_unique(ab_c, a_bc, k_union(k_union(ka, kb), kc));
}
pub proof fn lo_compat_sym<M, A>(k1: Know<M, A>, c1: SMap<A, u64>, k2: Know<M, A>, c2: SMap<A, u64>)
    requires compat(k1, c1, k2, c2),
    ensures compat(k2, c2, k1, c1),
{
}

} // verus!
}
