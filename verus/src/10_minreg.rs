pub mod minreg {
use vstd::prelude::*;
use core::cmp::Ordering;
use std::convert::Infallible;
use vstd::std_specs::cmp::{PartialEqSpec, PartialOrdSpec, OrdSpec};
use crate::spec::*;
use crate::traits::{CmRDT, CvRDT};
verus! {

//@extract struct src/minreg.rs MinReg
pub struct MinReg<V> {
    pub val: V,
}
//@end

/// C11: the register keeps the smallest value ever applied (ties keep the current one)
pub open spec fn min_update<V: Ord>(cur: V, val: V) -> V { if lt(val, cur) { val } else { cur } }

impl<V: Default> Default for MinReg<V> {
//@extract fn src/minreg.rs "Default for MinReg" default
    fn default() -> /*@ (r: @*/ Self /*@ ) @*/
    //@ ensures V::default.ensures((), r.val),
    {
        Self { val: V::default() }
    }
//@end
}

impl<V: Ord> CvRDT for MinReg<V> {
    type Validation = Infallible;
    open spec fn cv_inv(&self) -> bool { ord_ok::<V>() }
    open spec fn cv_pre(&self, other: &Self) -> bool { true }
    open spec fn cv_post(old_: &Self, other: &Self, new_: &Self) -> bool { true }
    open spec fn cv_vhyp() -> bool { true }
    open spec fn cv_flag(&self, other: &Self) -> bool { false }

//@extract fn src/minreg.rs "CvRDT for MinReg" validate_merge
    fn validate_merge(&self, _other: &Self) -> /*@ (r: @*/ Result<(), Self::Validation> /*@ ) @*/
    //@ ensures r is Ok,
    {
        Ok(())
    }
//@end

//@extract fn src/minreg.rs "CvRDT for MinReg" merge
    fn merge(&mut self, /*@<*/ MinReg { val } /*@>*/ /*@ other @*/ : Self)
    //@ ensures final(self).val == min_update(old(self).val, other.val),
    {
        //@ let MinReg { val } = other;
        self.update(val)
    }
//@end
}

impl<V: Ord> CmRDT for MinReg<V> {
    type Op = V;
    type Validation = Infallible;
    open spec fn cm_inv(&self) -> bool { ord_ok::<V>() }
    open spec fn cm_pre(&self, op: &V) -> bool { true }
    open spec fn cm_post(old_: &Self, op: &V, new_: &Self) -> bool { true }
    open spec fn cm_vpre(&self, op: &V) -> bool { true }
    open spec fn cm_vhyp() -> bool { true }
    open spec fn cm_vflag(&self, op: &Self::Op) -> bool { false }

//@extract fn src/minreg.rs "CmRDT for MinReg" validate_op
    fn validate_op(&self, _op: &Self::Op) -> /*@ (r: @*/ Result<(), Self::Validation> /*@ ) @*/
    //@ ensures r is Ok,
    {
        Ok(())
    }
//@end

//@extract fn src/minreg.rs "CmRDT for MinReg" apply
    fn apply(&mut self, op: Self::Op)
    //@ ensures final(self).val == min_update(old(self).val, op),
    {
        // Since type Op = V, we need to wrap MinReg around op.
        // If more fields are added to the MinReg struct, change Op to Self
        self.update(op)
    }
//@end
}

impl<V: Ord> MinReg<V> {
//@extract fn src/minreg.rs "MinReg" new
    pub fn new(&mut self, val: V) -> /*@ (r: @*/ Self /*@ ) @*/
    //@ ensures r.val == val, *final(self) == *old(self),
    {
        MinReg { val }
    }
//@end

//@extract fn src/minreg.rs "MinReg" update
    pub fn update(&mut self, val: V)
    //@ requires ord_ok::<V>(),
    //@ ensures final(self).val == min_update(old(self).val, val),
    {
        //@ proof { lemma_ord_ok::<V>(); }
        if val < self.val {
            self.val = val
        }
    }
//@end

//@extract fn src/minreg.rs "MinReg" write
    pub fn write(&self, val: V) -> /*@ (r: @*/ <MinReg<V> as CmRDT>::Op /*@ ) @*/
    //@ ensures r == val,
    {
        val
    }
//@end

//@extract fn src/minreg.rs "MinReg" read
    pub fn read(&self) -> /*@ (r: @*/ &V /*@ ) @*/
    //@ ensures *r == self.val,
    {
        &self.val
    }
//@end
}

} // verus!
}
pub use crate::minreg::MinReg;
