pub mod mvreg {
use vstd::prelude::*;
use vstd::map::Map as SMap;
use core::cmp::Ordering;
use core::convert::Infallible;
use core::mem;
use vstd::std_specs::cmp::{PartialEqSpec, PartialOrdSpec, PartialEqSpecImpl};
use crate::spec::*;
use crate::stdx::*;
use crate::stdx4::*;
use crate::vclock::{pcmp_code, lemma_pcmp_code};
use crate::ctx::{AddCtx, ReadCtx};
use crate::{CmRDT, CvRDT, ResetRemove, VClock};
verus! {

//@extract struct src/mvreg.rs MVReg
pub struct MVReg<V, A: Ord> {
    vals: Vec<(VClock<A>, V)>,
}
//@end

//@extract enum src/mvreg.rs Op
pub enum Op<V, A: Ord> {
    Put {
        clock: VClock<A>,
        val: V,
    },
}
//@end

/// strict domination between write contexts: x < y  (x is observed / superseded by y)
pub open spec fn clt<A>(x: SMap<A, u64>, y: SMap<A, u64>) -> bool { x != y && vle(x, y) }

impl<V, A: Ord> MVReg<V, A> {
    pub closed spec fn vs(&self) -> Seq<(VClock<A>, V)> { self.vals@ }
    /// basic invariant kept by every operation incl. reset_remove: contexts are non-empty and store no zero
    pub open spec fn basic(&self) -> bool {
        forall|i: int| 0 <= i < self.vs().len() ==> nz((#[trigger] self.vs()[i]).0@) && self.vs()[i].0@ != SMap::<A, u64>::empty()
    }
    /// representation invariant: contexts are non-empty, store no zero, and form an antichain
    /// (pairwise concurrent) -- so `read` shows exactly the causally maximal writes
    pub open spec fn wf(&self) -> bool {
        &&& forall|i: int| 0 <= i < self.vs().len() ==> nz((#[trigger] self.vs()[i]).0@) && self.vs()[i].0@ != SMap::<A, u64>::empty()
        &&& forall|i: int, j: int| 0 <= i < self.vs().len() && 0 <= j < self.vs().len() && i != j ==> !vle((#[trigger] self.vs()[i]).0@, (#[trigger] self.vs()[j]).0@)
    }
}

/// equality of stored writes: same context, equal value
pub open spec fn teq<V: PartialEq, A: Ord>(x: (VClock<A>, V), y: (VClock<A>, V)) -> bool { x.0@ == y.0@ && x.1.eq_spec(&y.1) }
pub open spec fn teq_to<V: PartialEq, A: Ord>(y: (VClock<A>, V)) -> spec_fn((VClock<A>, V)) -> bool { |x: (VClock<A>, V)| teq(x, y) }
pub open spec fn has_match<V: PartialEq, A: Ord>(o: Seq<(VClock<A>, V)>, x: (VClock<A>, V)) -> bool {
    exists|j: int| 0 <= j < o.len() && teq(#[trigger] o[j], x)
}
pub open spec fn matched_upto<V: PartialEq, A: Ord>(s: Seq<(VClock<A>, V)>, o: Seq<(VClock<A>, V)>, n: int) -> bool {
    forall|i: int| 0 <= i < n && i < s.len() ==> has_match(o, #[trigger] s[i])
}
/// C20: two registers are `==` iff they hold the same set of writes (order is irrelevant)
pub open spec fn mv_eq<V: PartialEq, A: Ord>(s: Seq<(VClock<A>, V)>, o: Seq<(VClock<A>, V)>) -> bool {
    matched_upto(s, o, s.len() as int) && matched_upto(o, s, o.len() as int)
}
/// a filter-count of 0 / >0 against `teq_to(x)` decides has_match
pub proof fn lemma_count_match<V: PartialEq, A: Ord>(o: Seq<(VClock<A>, V)>, x: (VClock<A>, V))
    ensures (o.filter(teq_to(x)).len() == 0) <==> !has_match(o, x),
{
    lemma_filter_len0(o, teq_to(x));
    if has_match(o, x) { let j = choose|j: int| 0 <= j < o.len() && teq(#[trigger] o[j], x); assert(teq_to(x)(o[j])); }
    if o.filter(teq_to(x)).len() != 0 { let j = choose|j: int| 0 <= j < o.len() && teq_to(x)(#[trigger] o[j]); assert(teq(o[j], x)); }
}

impl<V: PartialEq, A: Ord> PartialEqSpecImpl for MVReg<V, A> {
    open spec fn obeys_eq_spec() -> bool { actor_ok::<A>() && V::obeys_eq_spec() }
    open spec fn eq_spec(&self, other: &Self) -> bool { mv_eq(self.vs(), other.vs()) }
}

impl<V: PartialEq, A: Ord> PartialEq for MVReg<V, A> {
//@extract fn src/mvreg.rs "PartialEq for MVReg" eq
    fn eq(&self, other: &Self) -> bool {
        //@ let ghost ok = actor_ok::<A>() && V::obeys_eq_spec();
        //@ let ghost sv = self.vals@;
        //@ let ghost ov = other.vals@;
        for dot in /*@ it: @*/ self.vals.iter()
        //@ invariant
        //@     sv == self.vals@, ov == other.vals@, ok == (actor_ok::<A>() && V::obeys_eq_spec()),
        //@     it.seq().len() == sv.len(), forall|i: int| 0 <= i < sv.len() ==> *(#[trigger] it.seq()[i]) == sv[i],
        //@     ok ==> matched_upto(sv, ov, it.index@),
        {
            //@ proof { assert(*dot == sv[it.index@]); lemma_count_match(ov, *dot); }
            let num_found = /*@ shim_vec_iter_filter_count_if(& @*/ other.vals /*@<*/ .iter().filter( /*@>*/ /*@ , Ghost(ok), Ghost(teq_to(*dot)), @*/ |d| /*@ -> (b: bool) ensures ok ==> b == teq(**d, *dot) { @*/ d == &dot /*@ } @*/ ) /*@<*/ .count() /*@>*/ ;

            if num_found == 0 {
                //@ proof { if ok { assert(!has_match(ov, sv[it.index@])); assert(!matched_upto(sv, ov, sv.len() as int)); } }
                return false;
            }
            // sanity check
            /*@<*/ assert_eq!(num_found, 1); /*@>*/
            //@ proof { if ok { assert(has_match(ov, sv[it.index@])); assert(matched_upto(sv, ov, it.index@ + 1)); } }
        }
        for dot in /*@ it: @*/ other.vals.iter()
        //@ invariant
        //@     sv == self.vals@, ov == other.vals@, ok == (actor_ok::<A>() && V::obeys_eq_spec()),
        //@     it.seq().len() == ov.len(), forall|i: int| 0 <= i < ov.len() ==> *(#[trigger] it.seq()[i]) == ov[i],
        //@     ok ==> matched_upto(sv, ov, sv.len() as int),
        //@     ok ==> matched_upto(ov, sv, it.index@),
        {
            //@ proof { assert(*dot == ov[it.index@]); lemma_count_match(sv, *dot); }
            let num_found = /*@ shim_vec_iter_filter_count_if(& @*/ self.vals /*@<*/ .iter().filter( /*@>*/ /*@ , Ghost(ok), Ghost(teq_to(*dot)), @*/ |d| /*@ -> (b: bool) ensures ok ==> b == teq(**d, *dot) { @*/ d == &dot /*@ } @*/ ) /*@<*/ .count() /*@>*/ ;

            if num_found == 0 {
                //@ proof { if ok { assert(!has_match(sv, ov[it.index@])); assert(!matched_upto(ov, sv, ov.len() as int)); } }
                return false;
            }
            // sanity check
            /*@<*/ assert_eq!(num_found, 1); /*@>*/
            //@ proof { if ok { assert(has_match(sv, ov[it.index@])); assert(matched_upto(ov, sv, it.index@ + 1)); } }
        }
        true
    }
//@end
}

// #[derive(Clone)] on MVReg (assumed; only needed so that MVReg can be a Map value)
impl<V: Clone, A: Ord + Clone> Clone for MVReg<V, A> {
    #[verifier::external_body]
    fn clone(&self) -> (r: Self) ensures r.vs().len() == self.vs().len() { MVReg { vals: self.vals.clone() } }
}

impl<V, A: Ord> Default for MVReg<V, A> {
//@extract fn src/mvreg.rs "Default for MVReg" default
    fn default() -> /*@ (r: @*/ Self /*@ ) @*/
    //@ ensures r.vs() == Seq::<(VClock<A>, V)>::empty(), r.wf(),
    {
        Self { vals: Vec::new() }
    }
//@end
}

/// values kept when a write with context c arrives: those it did not observe
pub open spec fn keep_put<V, A: Ord>(c: SMap<A, u64>) -> spec_fn((VClock<A>, V)) -> bool { |p: (VClock<A>, V)| !vle(p.0@, c) }
/// the new write is shown unless a kept value strictly dominates (has observed) it
pub open spec fn put_adds<V, A: Ord>(kept: Seq<(VClock<A>, V)>, c: SMap<A, u64>) -> bool {
    forall|i: int| 0 <= i < kept.len() ==> !clt(c, (#[trigger] kept[i]).0@)
}

/// m is the join (least upper bound) of the contexts of the first i values of s
pub open spec fn join_upto<V, A: Ord>(s: Seq<(VClock<A>, V)>, i: int, m: SMap<A, u64>) -> bool {
    &&& forall|j: int, a: A| 0 <= j < i && j < s.len() ==> cnt((#[trigger] s[j]).0@, a) <= #[trigger] cnt(m, a)
    &&& forall|a: A| #[trigger] cnt(m, a) > 0 ==> exists|j: int| 0 <= j < i && j < s.len() && cnt((#[trigger] s[j]).0@, a) == cnt(m, a)
}
pub open spec fn is_clocks_join<V, A: Ord>(s: Seq<(VClock<A>, V)>, m: SMap<A, u64>) -> bool { join_upto(s, s.len() as int, m) }

/// some value of s strictly dominates (has observed) context c
pub open spec fn dominated<V, A: Ord>(c: SMap<A, u64>, s: Seq<(VClock<A>, V)>) -> bool {
    exists|j: int| 0 <= j < s.len() && clt(c, (#[trigger] s[j]).0@)
}
pub open spec fn undominated<V, A: Ord>(s: Seq<(VClock<A>, V)>) -> spec_fn((VClock<A>, V)) -> bool { |q: (VClock<A>, V)| !dominated(q.0@, s) }
pub open spec fn fresh_ctx<V, A: Ord>(s: Seq<(VClock<A>, V)>) -> spec_fn((VClock<A>, V)) -> bool { |q: (VClock<A>, V)| forall|j: int| 0 <= j < s.len() ==> (#[trigger] s[j]).0@ != q.0@ }
pub open spec fn dom_by<V, A: Ord>(c: SMap<A, u64>) -> spec_fn((VClock<A>, V)) -> bool { |w: (VClock<A>, V)| clt(c, w.0@) }

pub proof fn lemma_filter_len0<T>(s: Seq<T>, p: spec_fn(T) -> bool)
    ensures (s.filter(p).len() == 0) <==> (forall|j: int| 0 <= j < s.len() ==> !p(#[trigger] s[j])),
{
    lemma_filter_sub(s, p);
    if s.filter(p).len() == 0 {
        assert forall|j: int| 0 <= j < s.len() implies !p(#[trigger] s[j]) by {
            if p(s[j]) { s.lemma_filter_contains(p, j); assert(s.filter(p).contains(s[j])); }
        }
    } else {
        let x = s.filter(p)[0];
        assert(p(x) && s.contains(x));
    }
}

/// exact effect of MVReg::merge: the undominated values of both sides, a value held by both (same context) once
pub open spec fn merge_post_mv<V, A: Ord>(old_: MVReg<V, A>, other: MVReg<V, A>, new_: MVReg<V, A>) -> bool {
    &&& ({ let s1 = old_.vs().filter(undominated(other.vs()));
           let o1 = other.vs().filter(undominated(s1)).filter(fresh_ctx(s1));
           new_.vs() == s1 + o1 })
    &&& (old_.wf() && other.wf() ==> new_.wf())
}

impl<V, A: Ord> CvRDT for MVReg<V, A> {
    type Validation = Infallible;
    open spec fn cv_inv(&self) -> bool { actor_ok::<A>() && self.basic() }
    open spec fn cv_pre(&self, other: &Self) -> bool { true }
    open spec fn cv_post(old_: &Self, other: &Self, new_: &Self) -> bool { merge_post_mv(*old_, *other, *new_) }
    open spec fn cv_vhyp() -> bool { true }
    open spec fn cv_flag(&self, other: &Self) -> bool { false }

//@extract fn src/mvreg.rs "CvRDT for MVReg" validate_merge
    fn validate_merge(&self, _other: &Self) -> /*@ (r: @*/ Result<(), Self::Validation> /*@ ) @*/
    //@ ensures r is Ok,
    {
        Ok(())
    }
//@end

//@extract fn src/mvreg.rs "CvRDT for MVReg" merge
    fn merge(&mut self, other: Self)
    //@ ensures merge_post_mv(*old(self), other, *final(self)),
    {
        //@ let ghost sv = self.vals@;
        //@ let ghost ov = other.vals@;
        //@ proof { assert(old(self).basic() && other.basic()); assert(seq_basic(sv)) by { assert forall|i: int| 0 <= i < sv.len() implies nz((#[trigger] sv[i]).0@) && sv[i].0@ != SMap::<A, u64>::empty() by { assert(sv[i] == old(self).vs()[i]); } } assert(seq_basic(ov)) by { assert forall|i: int| 0 <= i < ov.len() implies nz((#[trigger] ov[i]).0@) && ov[i].0@ != SMap::<A, u64>::empty() by { assert(ov[i] == other.vs()[i]); } } }
        self.vals = /*@ shim_vec_into_filter_collect( @*/ mem::take(&mut self.vals)
            /*@<*/ .into_iter()
            .filter( /*@>*/ /*@ , Ghost(undominated(ov)), @*/ /*@<*/ | /*@>*/ /*@<pa*/ (clock, _) /*@>*/ /*@<*/ | /*@>*/ /*@ |q: &(VClock<A>, V)| -> (b: bool)
                requires actor_ok::<A>(), nz(q.0@), seq_basic(other.vals@), ov == other.vals@,
                ensures b == undominated(ov)(*q)
            { let $pa = q; proof { lemma_filter_len0(ov, dom_by::<V, A>(clock@)); } @*/ /*@ shim_vec_iter_filter_count(& @*/ other.vals /*@<*/ .iter().filter( /*@>*/ /*@ , Ghost(dom_by::<V, A>(clock@)), @*/ /*@<*/ | /*@>*/ /*@<pb*/ (c, _) /*@>*/ /*@<*/ | /*@>*/ /*@ |w: &&(VClock<A>, V)| -> (b2: bool)
                requires actor_ok::<A>(), nz(w.0@), nz(clock@),
                ensures b2 == clt(clock@, w.0@)
            { let $pb = w; proof { lemma_pcmp_code(clock@, c@); } @*/ clock < c /*@ } @*/ ) /*@<*/ .count() /*@>*/ == 0 /*@ } @*/ )
            /*@<*/ .collect() /*@>*/ ;
        //@ let ghost s1 = self.vals@;
        //@ proof { lemma_filter_basic(sv, undominated(ov)); }

        /*@ let add = shim_vec_into_filter2_collect( @*/ /*@<*/ self.vals.extend( /*@>*/
            other
                .vals
                /*@<*/ .into_iter()
                .filter( /*@>*/ /*@ , Ghost(undominated(s1)), @*/ /*@<*/ | /*@>*/ /*@<pc*/ (clock, _) /*@>*/ /*@<*/ | /*@>*/ /*@ |q: &(VClock<A>, V)| -> (b: bool)
                    requires actor_ok::<A>(), nz(q.0@), seq_basic(self.vals@), s1 == self.vals@,
                    ensures b == undominated(s1)(*q)
                { let $pc = q; proof { lemma_filter_len0(s1, dom_by::<V, A>(clock@)); } @*/ /*@ shim_vec_iter_filter_count(& @*/ self.vals /*@<*/ .iter().filter( /*@>*/ /*@ , Ghost(dom_by::<V, A>(clock@)), @*/ /*@<*/ | /*@>*/ /*@<pd*/ (c, _) /*@>*/ /*@<*/ | /*@>*/ /*@ |w: &&(VClock<A>, V)| -> (b2: bool)
                    requires actor_ok::<A>(), nz(w.0@), nz(clock@),
                    ensures b2 == clt(clock@, w.0@)
                { let $pd = w; proof { lemma_pcmp_code(clock@, c@); } @*/ clock < c /*@ } @*/ ) /*@<*/ .count() /*@>*/ == 0 /*@ } @*/ /*@<*/ )
                .filter( /*@>*/ /*@ , Ghost(fresh_ctx(s1)), @*/ /*@<*/ | /*@>*/ /*@<pe*/ (clock, _) /*@>*/ /*@<*/ | /*@>*/ /*@ |q: &(VClock<A>, V)| -> (b: bool)
                    requires actor_ok::<A>(), s1 == self.vals@,
                    ensures b == fresh_ctx(s1)(*q)
                { let $pe = q; let r0 = @*/ self.vals.iter().all( /*@<*/ | /*@>*/ /*@<pf*/ (c, _) /*@>*/ /*@<*/ | /*@>*/ /*@ |w: &(VClock<A>, V)| -> (b2: bool)
                    requires actor_ok::<A>(),
                    ensures b2 == (clock@ != w.0@)
                { let $pf = w; @*/ clock != c /*@ } @*/ ) /*@ ; proof { if r0 { assert forall|j: int| 0 <= j < s1.len() implies (#[trigger] s1[j]).0@ != q.0@ by { let e = s1.as_ref()[j]; assert(*e == s1[j]); } } } r0 } @*/ )
                /*@<*/ .collect::<Vec<_>>(), /*@>*/
        /*@<*/ ) /*@>*/ ;
        //@ shim_vec_extend(&mut self.vals, add);
        //@ proof { lemma_filter_basic(ov, undominated(s1)); lemma_filter_basic(ov.filter(undominated(s1)), fresh_ctx(s1)); assert(self.basic()) by { assert forall|i: int| 0 <= i < self.vs().len() implies nz((#[trigger] self.vs()[i]).0@) && self.vs()[i].0@ != SMap::<A, u64>::empty() by { assert(self.vs()[i] == self.vals@[i]); if i < s1.len() { assert(self.vals@[i] == s1[i]); } else { assert(self.vals@[i] == add@[i - s1.len()]); } } } if old(self).wf() && other.wf() { lemma_wf_seq(*old(self)); lemma_wf_seq(other); lemma_merge_wf(sv, ov, s1, add@, self.vals@); lemma_seq_wf(*self); } }
    }
//@end
}

pub open spec fn rrv_ok<V, A: Ord>(p: (VClock<A>, V), o: Option<(VClock<A>, V)>, c: SMap<A, u64>) -> bool {
    if vsub(p.0@, c) == SMap::<A, u64>::empty() { o is None } else { o matches Some(q) && q.1 == p.1 && q.0@ == vsub(p.0@, c) }
}
/// r is src with every context reduced by c, emptied values dropped, order kept
pub open spec fn rr_rel<V, A: Ord>(src: Seq<(VClock<A>, V)>, c: SMap<A, u64>, r: Seq<(VClock<A>, V)>) -> bool
    decreases src.len(),
{
    if src.len() == 0 { r.len() == 0 }
    else {
        let l = src.last();
        if vsub(l.0@, c) == SMap::<A, u64>::empty() { rr_rel(src.drop_last(), c, r) }
        else { r.len() > 0 && r.last().1 == l.1 && r.last().0@ == vsub(l.0@, c) && rr_rel(src.drop_last(), c, r.drop_last()) }
    }
}
pub proof fn lemma_rr_rel<V, A: Ord>(src: Seq<(VClock<A>, V)>, outs: Seq<Option<(VClock<A>, V)>>, r: Seq<(VClock<A>, V)>, c: SMap<A, u64>)
    requires fm_rel(src, outs, r), outs.len() == src.len(), forall|i: int| 0 <= i < src.len() ==> rrv_ok(src[i], #[trigger] outs[i], c),
             forall|i: int| 0 <= i < src.len() ==> nz((#[trigger] src[i]).0@),
    ensures rr_rel(src, c, r), forall|i: int| 0 <= i < r.len() ==> nz((#[trigger] r[i]).0@) && r[i].0@ != SMap::<A, u64>::empty(),
    decreases src.len(),
{
    if src.len() > 0 {
        let n = src.len() - 1;
        assert(rrv_ok(src[n], outs[n], c));
        assert(outs.last() == outs[n] && src.last() == src[n]);
        assert forall|i: int| 0 <= i < src.drop_last().len() implies rrv_ok(src.drop_last()[i], #[trigger] outs.drop_last()[i], c) by { assert(outs.drop_last()[i] == outs[i]); }
        assert forall|i: int| 0 <= i < src.drop_last().len() implies nz((#[trigger] src.drop_last()[i]).0@) by { assert(src.drop_last()[i] == src[i]); }
        match outs.last() {
            Some(x) => {
                lemma_rr_rel(src.drop_last(), outs.drop_last(), r.drop_last(), c);
                crate::orswot::c10_vsub_nz(src[n].0@, c);
                assert forall|i: int| 0 <= i < r.len() implies nz((#[trigger] r[i]).0@) && r[i].0@ != SMap::<A, u64>::empty() by {
                    if i < r.len() - 1 { assert(r[i] == r.drop_last()[i]); } else { assert(r[i] == r.last()); }
                }
            },
            None => { lemma_rr_rel(src.drop_last(), outs.drop_last(), r, c); },
        }
    }
}

impl<V, A: Ord> ResetRemove<A> for MVReg<V, A> {
    open spec fn rr_inv(&self) -> bool { actor_ok::<A>() && self.basic() }
    open spec fn rr_post(old_: &Self, clock: &VClock<A>, new_: &Self) -> bool { rr_rel(old_.vs(), clock@, new_.vs()) }

//@extract fn src/mvreg.rs "ResetRemove for MVReg" reset_remove
    fn reset_remove(&mut self, clock: &VClock<A>)
    //@ ensures
    //@     // C18: every value forgets the dots `clock` covers; a value none of whose dots is left disappears
    //@     rr_rel(old(self).vs(), clock@, final(self).vs()),
    {
        //@ let ghost sv = self.vals@;
        //@ proof { assert forall|i: int| 0 <= i < sv.len() implies nz((#[trigger] sv[i]).0@) by { assert(sv[i] == old(self).vs()[i]); } }
        self.vals = /*@ shim_vec_into_filter_map_collect( @*/ mem::take(&mut self.vals)
            /*@<*/ .into_iter()
            .filter_map( /*@>*/ /*@ , @*/ /*@<*/ | /*@>*/ /*@<pat*/ (mut val_clock, val) /*@>*/ /*@<*/ | /*@>*/ /*@ |p: (VClock<A>, V)| -> (o: Option<(VClock<A>, V)>)
                requires actor_ok::<A>(), nz(p.0@),
                ensures rrv_ok(p, o, clock@)
            { let $pat = p; @*/ {
                val_clock.reset_remove(clock);
                if val_clock.is_empty() {
                    None // remove this value from the register
                } else {
                    Some((val_clock, val))
                }
            } /*@ } @*/ )
            /*@<*/ .collect() /*@>*/
        //@ ;
        //@ proof { let outs = choose|outs: Seq<Option<(VClock<A>, V)>>| outs.len() == sv.len() && (forall|i: int| 0 <= i < sv.len() ==> rrv_ok(sv[i], #[trigger] outs[i], clock@)) && fm_rel(sv, outs, self.vals@); lemma_rr_rel(sv, outs, self.vals@, clock@); assert forall|i: int| 0 <= i < self.vs().len() implies nz((#[trigger] self.vs()[i]).0@) && self.vs()[i].0@ != SMap::<A, u64>::empty() by { assert(self.vs()[i] == self.vals@[i]); } }
    }
//@end
}

/// exact effect of MVReg::apply (C06): a write replaces exactly the values whose context it covers; it is shown
/// unless an applied write has already superseded it; nothing else changes (equal values are never merged);
/// the pairwise-concurrent invariant is kept
pub open spec fn apply_post_mv<V, A: Ord>(old_: MVReg<V, A>, op: Op<V, A>, new_: MVReg<V, A>) -> bool {
    &&& op->clock@ == SMap::<A, u64>::empty() ==> new_.vs() == old_.vs()
    &&& op->clock@ != SMap::<A, u64>::empty() ==> ({
            let kept = old_.vs().filter(keep_put::<V, A>(op->clock@));
            new_.vs() == (if put_adds(kept, op->clock@) { kept.push((op->clock, op->val)) } else { kept }) })
    &&& (old_.wf() ==> new_.wf())
}

impl<V, A: Ord> CmRDT for MVReg<V, A> {
    type Op = Op<V, A>;
    type Validation = Infallible;
    open spec fn cm_inv(&self) -> bool { actor_ok::<A>() && self.basic() }
    open spec fn cm_pre(&self, op: &Op<V, A>) -> bool { nz(op->clock@) }
    open spec fn cm_post(old_: &Self, op: &Op<V, A>, new_: &Self) -> bool { apply_post_mv(*old_, *op, *new_) }
    open spec fn cm_vpre(&self, op: &Op<V, A>) -> bool { true }
    open spec fn cm_vhyp() -> bool { true }
    open spec fn cm_vflag(&self, op: &Self::Op) -> bool { false }

//@extract fn src/mvreg.rs "CmRDT for MVReg" validate_op
    fn validate_op(&self, _op: &Self::Op) -> /*@ (r: @*/ Result<(), Self::Validation> /*@ ) @*/
    //@ ensures r is Ok,
    {
        Ok(())
    }
//@end

//@extract fn src/mvreg.rs "CmRDT for MVReg" apply
    fn apply(&mut self, op: Self::Op)
    //@ ensures apply_post_mv(*old(self), op, *final(self)),
    {
        match op {
            Op::Put { clock, val } => {
                if clock.is_empty() {
                    return;
                }
                // first filter out all values that are dominated by the Op clock
                //@ let ghost pr = keep_put::<V, A>(clock@);
                //@ let ghost v0 = self.vals@;
                //@ proof { assert(old(self).basic()); assert forall|i: int| 0 <= i < v0.len() implies nz((#[trigger] v0[i]).0@) && v0[i].0@ != SMap::<A, u64>::empty() by { assert(v0[i] == old(self).vs()[i]); } }
                /*@ shim_vec_retain(&mut @*/ self.vals /*@<*/ .retain( /*@>*/ /*@ , Ghost(pr), @*/ /*@<*/ | /*@>*/ /*@<pat*/ (val_clock, _) /*@>*/ /*@<*/ | /*@>*/ /*@ |p: &(VClock<A>, V)| -> (b: bool)
                    requires actor_ok::<A>(), nz(p.0@), nz(clock@)
                    ensures b == !vle(p.0@, clock@)
                { let $pat = p; proof { lemma_pcmp_code(val_clock@, clock@); } @*/ {
                    matches!(
                        val_clock.partial_cmp(&clock),
                        None | Some(Ordering::Greater)
                    )
                } /*@ } @*/ );
                //@ let ghost kept = self.vals@;
                //@ proof { lemma_filter_sub(v0, pr); assert forall|i: int| 0 <= i < kept.len() implies nz((#[trigger] kept[i]).0@) by { assert(v0.contains(kept[i])); let j = choose|j: int| 0 <= j < v0.len() && v0[j] == kept[i]; assert(nz(v0[j].0@)); } }

                // TAI: in the case were the Op has a context that already was present,
                //      the above line would remove that value, the next lines would
                //      keep the val from the Op, so.. a malformed Op could break
                //      commutativity.

                // now check if we've already seen this op
                let mut should_add = true;
                for (existing_clock, _) in /*@ it: @*/ self.vals.iter()
                //@ invariant
                //@     actor_ok::<A>(), nz(clock@), self.vals@ == kept, it.seq() == kept.map_values(|x: (VClock<A>, V)| &x) || true,
                //@     forall|i: int| 0 <= i < it.seq().len() ==> *(#[trigger] it.seq()[i]) == kept[i],
                //@     it.seq().len() == kept.len(),
                //@     forall|i: int| 0 <= i < kept.len() ==> nz((#[trigger] kept[i]).0@),
                //@     should_add == (forall|i: int| 0 <= i < it.index@ ==> !clt(clock@, (#[trigger] kept[i]).0@)),
                {
                    //@ proof { lemma_pcmp_code(existing_clock@, clock@); assert(*it.seq()[it.index@] == kept[it.index@]); }
                    if existing_clock > &clock {
                        // we've found an entry that dominates this op
                        should_add = false;
                    }
                }

                if should_add {
                    self.vals.push((clock, val));
                }
                //@ proof { lemma_put_basic(v0, kept, self.vals@, clock@); assert(self.basic()) by { assert forall|i: int| 0 <= i < self.vs().len() implies nz((#[trigger] self.vs()[i]).0@) && self.vs()[i].0@ != SMap::<A, u64>::empty() by { assert(self.vs()[i] == self.vals@[i]); } } if old(self).wf() { lemma_wf_seq(*old(self)); lemma_put_wf(v0, kept, self.vals@, clock@); lemma_seq_wf(*self); } }
            }
        }
    }
//@end
}

impl<V, A: Ord + Clone> MVReg<V, A> {
//@extract fn src/mvreg.rs "MVReg" new
    pub fn new() -> /*@ (r: @*/ Self /*@ ) @*/
    //@ ensures r.vs() == Seq::<(VClock<A>, V)>::empty(), r.wf(),
    {
        Default::default()
    }
//@end

//@extract fn src/mvreg.rs "MVReg" read
    pub fn read(&self) -> /*@ (r: @*/ ReadCtx<Vec<V>, A> /*@ ) @*/
    where
        V: Clone,
    //@ requires actor_ok::<A>(), clone_ok::<A>(), self.basic(),
    //@ ensures
    //@     // C06/C07: exactly one value per stored (causally maximal) write, in order; both contexts are the join of their clocks
    //@     r.val@.len() == self.vs().len(), forall|i: int| 0 <= i < self.vs().len() ==> cloned(self.vs()[i].1, #[trigger] r.val@[i]),
    //@     is_clocks_join(self.vs(), r.add_clock@), r.rm_clock@ == r.add_clock@,
    {
        let clock = self.clock();
        let concurrent_vals = /*@ shim_vec_iter_cloned_map_collect(& @*/ self.vals /*@<*/ .iter().cloned().map( /*@>*/ /*@ , @*/ /*@<*/ | /*@>*/ /*@<pat*/ (_, v) /*@>*/ /*@<*/ | /*@>*/ /*@ |p: (VClock<A>, V)| -> (o: V) ensures o == p.1 { let $pat = p; @*/ v /*@ } @*/ ) /*@<*/ .collect() /*@>*/ ;
        //@ proof { assert forall|i: int| 0 <= i < self.vs().len() implies cloned(self.vs()[i].1, #[trigger] concurrent_vals@[i]) by { let x = choose|x: (VClock<A>, V)| #[trigger] clone_rel(self.vals@[i], x) && x.1 == concurrent_vals@[i]; axiom_clone_pair(self.vals@[i], x); } }

        ReadCtx {
            add_clock: clock.clone(),
            rm_clock: clock,
            val: concurrent_vals,
        }
    }
//@end

//@extract fn src/mvreg.rs "MVReg" read_ctx
    pub fn read_ctx(&self) -> /*@ (r: @*/ ReadCtx<(), A> /*@ ) @*/
    //@ requires actor_ok::<A>(), clone_ok::<A>(), self.basic(),
    //@ ensures is_clocks_join(self.vs(), r.add_clock@), r.rm_clock@ == r.add_clock@,
    {
        let clock = self.clock();
        ReadCtx {
            add_clock: clock.clone(),
            rm_clock: clock,
            val: (),
        }
    }
//@end

//@extract fn src/mvreg.rs "MVReg" clock
    fn clock(&self) -> /*@ (r: @*/ VClock<A> /*@ ) @*/
    //@ requires actor_ok::<A>(), clone_ok::<A>(), self.basic(),
    //@ ensures is_clocks_join(self.vs(), r@), nz(r@),
    {
        //@ let ghost sv = self.vals@;
        //@ proof { assert forall|i: int| 0 <= i < sv.len() implies nz((#[trigger] sv[i]).0@) by { assert(sv[i] == self.vs()[i]); } }
        /*@ shim_vec_iter_fold(& @*/ self.vals
            /*@<*/ .iter()
            .fold( /*@>*/ /*@ , @*/ VClock::new(), /*@ Ghost(|i: int, b: VClock<A>| nz(b@) && join_upto(sv, i, b@)), @*/ /*@<*/ | /*@>*/ /*@<p1*/ mut accum_clock /*@>*/ /*@<*/ , /*@>*/ /*@<p2*/ (c, _) /*@>*/ /*@<*/ | /*@>*/ /*@ |acc0: VClock<A>, w: &(VClock<A>, V)| -> (o: VClock<A>)
                requires actor_ok::<A>(), clone_ok::<A>(), nz(acc0@), nz(w.0@),
                ensures is_join(o@, acc0@, w.0@), nz(o@)
            { let $p1 = acc0; let $p2 = w; @*/ {
                //@ let cc = c.clone();
                accum_clock.merge( /*@<*/ c.clone() /*@>*/ /*@ cc @*/ );
                accum_clock
            } /*@ } @*/ )
    }
//@end

//@extract fn src/mvreg.rs "MVReg" write
    pub fn write(&self, val: V, ctx: AddCtx<A>) -> /*@ (r: @*/ Op<V, A> /*@ ) @*/
    //@ ensures r == (Op::Put { clock: ctx.clock, val }),
    {
        Op::Put {
            clock: ctx.clock,
            val,
        }
    }
//@end
}

pub proof fn lemma_filter_sub<T>(s: Seq<T>, p: spec_fn(T) -> bool)
    ensures
        forall|i: int| 0 <= i < s.filter(p).len() ==> p(#[trigger] s.filter(p)[i]) && s.contains(s.filter(p)[i]),
        s.filter(p).len() <= s.len(),
{
    s.lemma_filter_len(p);  
    assert forall|i: int| 0 <= i < s.filter(p).len() implies p(#[trigger] s.filter(p)[i]) && s.contains(s.filter(p)[i]) by {
        s.lemma_filter_pred(p, i);
        s.lemma_filter_contains_rev(p, s.filter(p)[i]);
    }
}

/// R holds between any two elements at different positions
pub open spec fn pairwise<T>(s: Seq<T>, r: spec_fn(T, T) -> bool) -> bool {
    forall|i: int, j: int| 0 <= i < s.len() && 0 <= j < s.len() && i != j ==> r(#[trigger] s[i], #[trigger] s[j])
}
/// filtering keeps a pairwise property (a filtered sequence is a subsequence)
pub proof fn lemma_filter_pairwise<T>(s: Seq<T>, p: spec_fn(T) -> bool, r: spec_fn(T, T) -> bool)
    requires pairwise(s, r),
    ensures pairwise(s.filter(p), r),
    decreases s.len(),
{
    reveal(Seq::filter);
    if s.len() > 0 {
        let d = s.drop_last();
        assert(pairwise(d, r)) by {
            assert forall|i: int, j: int| 0 <= i < d.len() && 0 <= j < d.len() && i != j implies r(#[trigger] d[i], #[trigger] d[j]) by { assert(d[i] == s[i] && d[j] == s[j]); }
        }
        lemma_filter_pairwise(d, p, r);
        let sub = d.filter(p);
        lemma_filter_sub(d, p);
        if p(s.last()) {
            let f = sub.push(s.last());
            assert(s.filter(p) == f);
            assert forall|i: int, j: int| 0 <= i < f.len() && 0 <= j < f.len() && i != j implies r(#[trigger] f[i], #[trigger] f[j]) by {
                if i < sub.len() && j < sub.len() {
                    assert(f[i] == sub[i] && f[j] == sub[j]);
                } else if i < sub.len() {
                    assert(d.contains(sub[i]));
                    let k = choose|k: int| 0 <= k < d.len() && d[k] == sub[i];
                    assert(r(s[k], s[s.len() - 1]));
                } else {
                    assert(d.contains(sub[j]));
                    let k = choose|k: int| 0 <= k < d.len() && d[k] == sub[j];
                    assert(r(s[s.len() - 1], s[k]));
                }
            }
        } else {
            assert(s.filter(p) == sub);
        }
    }
}

pub open spec fn incomparable<V, A: Ord>() -> spec_fn((VClock<A>, V), (VClock<A>, V)) -> bool {
    |x: (VClock<A>, V), y: (VClock<A>, V)| !vle(x.0@, y.0@)
}
pub open spec fn seq_wf<V, A: Ord>(s: Seq<(VClock<A>, V)>) -> bool {
    &&& forall|i: int| 0 <= i < s.len() ==> nz((#[trigger] s[i]).0@) && s[i].0@ != SMap::<A, u64>::empty()
    &&& pairwise(s, incomparable::<V, A>())
}

pub open spec fn seq_basic<V, A: Ord>(s: Seq<(VClock<A>, V)>) -> bool {
    forall|i: int| 0 <= i < s.len() ==> nz((#[trigger] s[i]).0@) && s[i].0@ != SMap::<A, u64>::empty()
}
pub proof fn lemma_filter_basic<V, A: Ord>(s: Seq<(VClock<A>, V)>, p: spec_fn((VClock<A>, V)) -> bool)
    requires seq_basic(s),
    ensures seq_basic(s.filter(p)),
{
    lemma_filter_sub(s, p);
    let f = s.filter(p);
    assert forall|i: int| 0 <= i < f.len() implies nz((#[trigger] f[i]).0@) && f[i].0@ != SMap::<A, u64>::empty() by {
        assert(s.contains(f[i]));
        let j = choose|j: int| 0 <= j < s.len() && s[j] == f[i];
        assert(nz(s[j].0@));
    }
}
pub proof fn lemma_put_basic<V, A: Ord>(v0: Seq<(VClock<A>, V)>, kept: Seq<(VClock<A>, V)>, fin: Seq<(VClock<A>, V)>, c: SMap<A, u64>)
    requires
        seq_basic(v0), kept == v0.filter(keep_put::<V, A>(c)), nz(c), c != SMap::<A, u64>::empty(),
        fin =~= kept || (fin.len() == kept.len() + 1 && fin.drop_last() =~= kept && fin.last().0@ == c),
    ensures seq_basic(fin),
{
    lemma_filter_basic(v0, keep_put::<V, A>(c));
    if !(fin =~= kept) {
        assert forall|i: int| 0 <= i < fin.len() implies nz((#[trigger] fin[i]).0@) && fin[i].0@ != SMap::<A, u64>::empty() by {
            if i < kept.len() { assert(fin[i] == fin.drop_last()[i]); } else { assert(fin[i] == fin.last()); }
        }
    }
}
pub proof fn lemma_wf_seq<V, A: Ord>(r: MVReg<V, A>)
    requires r.wf(),
    ensures seq_wf(r.vs()),
{
    let s = r.vs();
    assert forall|i: int, j: int| 0 <= i < s.len() && 0 <= j < s.len() && i != j implies incomparable::<V, A>()(#[trigger] s[i], #[trigger] s[j]) by {}
}
pub proof fn lemma_seq_wf<V, A: Ord>(r: MVReg<V, A>)
    requires seq_wf(r.vs()),
    ensures r.wf(),
{
    let s = r.vs();
    assert forall|i: int, j: int| 0 <= i < s.len() && 0 <= j < s.len() && i != j implies !vle((#[trigger] s[i]).0@, (#[trigger] s[j]).0@) by { assert(incomparable::<V, A>()(s[i], s[j])); }
}
pub proof fn lemma_filter_wf<V, A: Ord>(s: Seq<(VClock<A>, V)>, p: spec_fn((VClock<A>, V)) -> bool)
    requires seq_wf(s),
    ensures seq_wf(s.filter(p)),
{
    lemma_filter_pairwise(s, p, incomparable::<V, A>());
    lemma_filter_sub(s, p);
    let f = s.filter(p);
    assert forall|i: int| 0 <= i < f.len() implies nz((#[trigger] f[i]).0@) && f[i].0@ != SMap::<A, u64>::empty() by {
        assert(s.contains(f[i]));
        let j = choose|j: int| 0 <= j < s.len() && s[j] == f[i];
        assert(nz(s[j].0@));
    }
}
pub proof fn lemma_merge_wf<V, A: Ord>(sv: Seq<(VClock<A>, V)>, ov: Seq<(VClock<A>, V)>, s1: Seq<(VClock<A>, V)>, o1: Seq<(VClock<A>, V)>, fin: Seq<(VClock<A>, V)>)
    requires
        seq_wf(sv), seq_wf(ov), s1 == sv.filter(undominated(ov)), o1 == ov.filter(undominated(s1)).filter(fresh_ctx(s1)), fin == s1 + o1,
    ensures seq_wf(fin),
{
    lemma_filter_wf(sv, undominated(ov));
    lemma_filter_wf(ov, undominated(s1));
    let o0 = ov.filter(undominated(s1));
    lemma_filter_wf(o0, fresh_ctx(s1));
    lemma_filter_sub(sv, undominated(ov));
    lemma_filter_sub(ov, undominated(s1));
    lemma_filter_sub(o0, fresh_ctx(s1));
    assert forall|i: int| 0 <= i < fin.len() implies nz((#[trigger] fin[i]).0@) && fin[i].0@ != SMap::<A, u64>::empty() by {
        if i < s1.len() { assert(fin[i] == s1[i]); } else { assert(fin[i] == o1[i - s1.len()]); }
    }
    assert forall|i: int, j: int| 0 <= i < fin.len() && 0 <= j < fin.len() && i != j implies incomparable::<V, A>()(#[trigger] fin[i], #[trigger] fin[j]) by {
        if i < s1.len() && j < s1.len() {
            assert(fin[i] == s1[i] && fin[j] == s1[j]);
            assert(incomparable::<V, A>()(s1[i], s1[j]));
        } else if i >= s1.len() && j >= s1.len() {
            assert(fin[i] == o1[i - s1.len()] && fin[j] == o1[j - s1.len()]);
            assert(incomparable::<V, A>()(o1[i - s1.len()], o1[j - s1.len()]));
        } else {
            // one from s1, one from o1: x in s1 is not dominated by any of ov, y in o1 is not dominated by any of s1 and has a fresh context
            let (x, y) = if i < s1.len() { (fin[i], fin[j]) } else { (fin[j], fin[i]) };
            let (xi, yi) = if i < s1.len() { (i, j - s1.len()) } else { (j, i - s1.len()) };
            assert(x == s1[xi] && y == o1[yi]);
            assert(fresh_ctx(s1)(y) && o0.contains(y));
            let k = choose|k: int| 0 <= k < o0.len() && o0[k] == y;
            assert(undominated(s1)(o0[k]) && ov.contains(o0[k]));
            let ko = choose|ko: int| 0 <= ko < ov.len() && ov[ko] == y;
            assert(undominated(ov)(x));
            assert(!clt(x.0@, ov[ko].0@));
            assert(!clt(y.0@, s1[xi].0@));
            assert(s1[xi].0@ != y.0@);
        }
    }
}

pub proof fn lemma_put_wf<V, A: Ord>(v0: Seq<(VClock<A>, V)>, kept: Seq<(VClock<A>, V)>, fin: Seq<(VClock<A>, V)>, c: SMap<A, u64>)
    requires
        seq_wf(v0), kept == v0.filter(keep_put::<V, A>(c)), nz(c), c != SMap::<A, u64>::empty(),
        fin =~= kept || (put_adds(kept, c) && fin.len() == kept.len() + 1 && fin.drop_last() =~= kept && fin.last().0@ == c),
    ensures seq_wf(fin),
{
    let p = keep_put::<V, A>(c);
    lemma_filter_pairwise(v0, p, incomparable::<V, A>());
    lemma_filter_sub(v0, p);
    assert forall|i: int| 0 <= i < kept.len() implies nz((#[trigger] kept[i]).0@) && kept[i].0@ != SMap::<A, u64>::empty() by {
        assert(v0.contains(kept[i]));
        let j = choose|j: int| 0 <= j < v0.len() && v0[j] == kept[i];
        assert(nz(v0[j].0@));
    }
    if fin != kept {
        assert forall|i: int| 0 <= i < fin.len() implies nz((#[trigger] fin[i]).0@) && fin[i].0@ != SMap::<A, u64>::empty() by {
            if i < kept.len() { assert(fin[i] == fin.drop_last()[i]); }
        }
        assert forall|i: int, j: int| 0 <= i < fin.len() && 0 <= j < fin.len() && i != j implies incomparable::<V, A>()(#[trigger] fin[i], #[trigger] fin[j]) by {
            if i < kept.len() && j < kept.len() {
                assert(fin[i] == fin.drop_last()[i] && fin[j] == fin.drop_last()[j]);
                assert(incomparable::<V, A>()(kept[i], kept[j]));
            } else if i < kept.len() {
                assert(fin[i] == fin.drop_last()[i]);
                assert(p(kept[i]));     // !vle(kept[i], c)
            } else {
                assert(fin[j] == fin.drop_last()[j]);
                assert(p(kept[j]));
                assert(!clt(c, kept[j].0@));
            }
        }
    }
}

} // verus!
}
pub use crate::mvreg::MVReg;
