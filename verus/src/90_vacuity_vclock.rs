// Vacuity twins: every function here has the hypotheses of a group of C10 contracts and claims
// `false`.  Each one MUST FAIL; one that verifies means a contradictory (vacuous) precondition.
pub mod vacuity {
use vstd::prelude::*;
use vstd::map::Map as SMap;
use crate::spec::*;
use crate::vclock::*;
use crate::dot::Dot;
verus! {
pub proof fn vac_actor_ok<A: Ord + Clone>() requires actor_ok::<A>(), clone_ok::<A>() ensures false {}
pub proof fn vac_nz_pair<A>(x: SMap<A, u64>, y: SMap<A, u64>) requires nz(x), nz(y), vle(x, y) ensures false {}
pub proof fn vac_nz_nonempty<A>(x: SMap<A, u64>, a: A) requires nz(x), x.contains_key(a), cnt(x, a) < u64::MAX ensures false {}
pub proof fn vac_join<A>(j: SMap<A, u64>, c1: SMap<A, u64>, c2: SMap<A, u64>, x: SMap<A, u64>) requires nz(x), is_join(j, c1, c2), nz(j), nz(c1), nz(c2) ensures false {}
pub proof fn vac_meet<A>(j: SMap<A, u64>, c1: SMap<A, u64>, c2: SMap<A, u64>) requires is_meet(j, c1, c2), nz(j) ensures false {}
pub proof fn vac_dots_of<A: Ord>(rem: Seq<Dot<&A>>, m: SMap<A, u64>) requires actor_ok::<A>(), nz(m), dots_of(rem, m, true), rem.len() > 0 ensures false {}
pub proof fn vac_odots_of<A: Ord>(rem: Seq<Dot<A>>, m: SMap<A, u64>) requires actor_ok::<A>(), nz(m), odots_of(rem, m, true), rem.len() > 0 ensures false {}
pub proof fn vac_concurrent<A>(x: SMap<A, u64>, y: SMap<A, u64>) requires nz(x), nz(y), pcmp(x, y) is None ensures false {}
}
}
