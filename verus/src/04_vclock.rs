pub mod vclock {
use vstd::prelude::*;
use vstd::map::Map as SMap;
use core::cmp::{self, Ordering};
use core::convert::Infallible;
use core::mem;
use std::collections::{btree_map, BTreeMap};
use vstd::std_specs::btree::key_obeys_cmp_spec;
use vstd::std_specs::iter::IteratorSpec;
use vstd::std_specs::cmp::{PartialEqSpecImpl, PartialOrdSpecImpl, PartialEqSpec, PartialOrdSpec};
use crate::spec::*;
use crate::stdx::*;
use crate::{CmRDT, CvRDT, Dot, DotRange, ResetRemove};
verus! {

//@extract struct src/vclock.rs VClock
pub struct VClock<A: Ord> {
    pub dots: BTreeMap<A, u64>,
}
//@end

impl<A: Ord> View for VClock<A> {
    type V = SMap<A, u64>;
    open spec fn view(&self) -> SMap<A, u64> { self.dots@ }
}

// ---- assumed semantics of #[derive(Clone, PartialEq, Eq)] on VClock (field-wise) ----
impl<A: Ord + Clone> Clone for VClock<A> {
    #[verifier::external_body]
    fn clone(&self) -> (r: Self)
        ensures actor_ok::<A>() && clone_ok::<A>() ==> r@ == self@,
            nz(self@) ==> nz(r@),   // counters are copied bit for bit
    {
        VClock { dots: self.dots.clone() }
    }
}
impl<A: Ord> PartialEqSpecImpl for VClock<A> {
    open spec fn obeys_eq_spec() -> bool { actor_ok::<A>() }
    open spec fn eq_spec(&self, other: &Self) -> bool { self@ == other@ }
}
impl<A: Ord> PartialEq for VClock<A> {
    #[verifier::external_body]
    fn eq(&self, other: &Self) -> (r: bool)
    {
        self.dots == other.dots
    }
}
impl<A: Ord> Eq for VClock<A> {}
impl<A: Ord + core::hash::Hash> core::hash::Hash for VClock<A> {
    #[verifier::external_body]
    fn hash<H: core::hash::Hasher>(&self, state: &mut H) { self.dots.hash(state) }
}

impl<A: Ord> Default for VClock<A> {
//@extract fn src/vclock.rs "Default for VClock" default
    fn default() -> /*@ (r: @*/ Self /*@ ) @*/
    //@ ensures r@ == SMap::<A, u64>::empty(),
    {
        Self {
            dots: BTreeMap::new(),
        }
    }
//@end
}

/// What the comparison code computes on *arbitrary* maps (structural equality first).  On
/// clocks without stored zeros it is the pointwise comparison `pcmp` (lemma_pcmp_code).
pub open spec fn pcmp_code<A>(x: SMap<A, u64>, y: SMap<A, u64>) -> Option<Ordering> {
    if x == y { Some(Ordering::Equal) }
    else if vle(y, x) { Some(Ordering::Greater) }
    else if vle(x, y) { Some(Ordering::Less) }
    else { None }
}

pub proof fn lemma_pcmp_code<A>(x: SMap<A, u64>, y: SMap<A, u64>)
    requires nz(x), nz(y),
    ensures pcmp_code(x, y) == pcmp(x, y),
{
    if vle(x, y) && vle(y, x) {
        assert forall|a: A| cnt(x, a) == cnt(y, a) by {
            assert(cnt(x, a) <= cnt(y, a) && cnt(y, a) <= cnt(x, a));
        }
        lemma_cnt_ext(x, y);
    }
}

impl<A: Ord> PartialOrdSpecImpl for VClock<A> {
    open spec fn obeys_partial_cmp_spec() -> bool { actor_ok::<A>() }
    open spec fn partial_cmp_spec(&self, other: &Self) -> Option<Ordering> { pcmp_code(self@, other@) }
}

impl<A: Ord> PartialOrd for VClock<A> {
//@extract fn src/vclock.rs "PartialOrd for VClock" partial_cmp
    fn partial_cmp(&self, other: &VClock<A>) -> Option<Ordering> {
        if self == other {
            Some(Ordering::Equal)
        } else if other.dots.iter().all( /*@<*/ | /*@>*/ /*@<pat1*/ (w, c) /*@>*/ /*@<*/ | /*@>*/ /*@ |p: (&A, &u64)| -> (b: bool) ensures actor_ok::<A>() ==> b == (cnt(self@, *p.0) >= *p.1) { let $pat1 = p; @*/ self.get(w) >= *c /*@ } @*/ ) {
            //@ proof { if actor_ok::<A>() { assert forall|a: A| cnt(other@, a) <= cnt(self@, a) by { if other@.contains_key(a) {} } } }
            Some(Ordering::Greater)
        } else if self.dots.iter().all( /*@<*/ | /*@>*/ /*@<pat2*/ (w, c) /*@>*/ /*@<*/ | /*@>*/ /*@ |p: (&A, &u64)| -> (b: bool) ensures actor_ok::<A>() ==> b == (cnt(other@, *p.0) >= *p.1) { let $pat2 = p; @*/ other.get(w) >= *c /*@ } @*/ ) {
            //@ proof { if actor_ok::<A>() { assert forall|a: A| cnt(self@, a) <= cnt(other@, a) by { if self@.contains_key(a) {} } } }
            Some(Ordering::Less)
        } else {
            //@ proof { if actor_ok::<A>() { assert(!vle(other@, self@)); assert(!vle(self@, other@)); } }
            None
        }
    }
//@end
}

/// `rem` (what a dot iterator will yield) enumerates entries of clock `m`, each actor at most
/// once; if `full` (the iterator runs to completion) every entry of `m` is enumerated.
pub open spec fn dots_of<A>(rem: Seq<Dot<&A>>, m: SMap<A, u64>, full: bool) -> bool {
    &&& forall|i: int| 0 <= i < rem.len() ==> m.contains_key(*(#[trigger] rem[i]).actor) && m[*rem[i].actor] == rem[i].counter
    &&& forall|i: int, j: int| 0 <= i < j < rem.len() ==> *(#[trigger] rem[i]).actor != *(#[trigger] rem[j]).actor
    &&& full ==> forall|a: A| m.contains_key(a) ==> exists|i: int| 0 <= i < rem.len() && *(#[trigger] rem[i]).actor == a
}
/// the entries a BTreeMap iterator yields, mapped to dots, enumerate the clock
pub proof fn lemma_iter_dots_of<A: Ord>(es: Seq<(&A, &u64)>, m: SMap<A, u64>, g: spec_fn((&A, &u64)) -> Dot<&A>, rem: Seq<Dot<&A>>, full: bool)
    requires
        actor_ok::<A>(),
        forall|p: (&A, &u64)| #[trigger] g(p) == (Dot { actor: p.0, counter: *p.1 }),
        rem == es.map_values(g),
        forall|j: int| 0 <= j < es.len() ==> m.contains_key(*(#[trigger] es[j]).0) && m[*es[j].0] == *es[j].1,
        forall|k: A| m.contains_key(k) ==> es.contains((&k, &m[k])),
        exists|kr: Seq<A>| #[trigger] vstd::std_specs::btree::increasing_seq(kr) && kr.len() == es.len() && forall|i: int| 0 <= i < es.len() ==> #[trigger] kr[i] == *es[i].0,
    ensures dots_of(rem, m, full),
{
    let kr = choose|kr: Seq<A>| #[trigger] vstd::std_specs::btree::increasing_seq(kr) && kr.len() == es.len() && forall|i: int| 0 <= i < es.len() ==> #[trigger] kr[i] == *es[i].0;
    vstd::std_specs::btree::axiom_increasing_seq_meaning(kr);
    lemma_ord_ok::<A>();
    assert forall|i: int| 0 <= i < rem.len() implies m.contains_key(*(#[trigger] rem[i]).actor) && m[*rem[i].actor] == rem[i].counter by {
        assert(rem[i] == g(es[i]));
    }
    assert forall|i: int, j: int| 0 <= i < j < rem.len() implies *(#[trigger] rem[i]).actor != *(#[trigger] rem[j]).actor by {
        assert(rem[i] == g(es[i]) && rem[j] == g(es[j]));
        assert(kr[i] == *es[i].0 && kr[j] == *es[j].0);
        assert(<A as vstd::std_specs::cmp::OrdSpec>::cmp_spec(&kr[i], &kr[j]) is Less);
    }
    assert forall|a: A| m.contains_key(a) implies exists|i: int| 0 <= i < rem.len() && *(#[trigger] rem[i]).actor == a by {
        assert(es.contains((&a, &m[a])));
        let i = choose|i: int| 0 <= i < es.len() && es[i] == (&a, &m[a]);
        assert(rem[i] == g(es[i]));
    }
}
/// same for the owning iterator
pub open spec fn odots_of<A>(rem: Seq<Dot<A>>, m: SMap<A, u64>, full: bool) -> bool {
    &&& forall|i: int| 0 <= i < rem.len() ==> m.contains_key((#[trigger] rem[i]).actor) && m[rem[i].actor] == rem[i].counter
    &&& forall|i: int, j: int| 0 <= i < j < rem.len() ==> (#[trigger] rem[i]).actor != (#[trigger] rem[j]).actor
    &&& full ==> forall|a: A| m.contains_key(a) ==> exists|i: int| 0 <= i < rem.len() && (#[trigger] rem[i]).actor == a
}

impl<A: Ord> ResetRemove<A> for VClock<A> {
    open spec fn rr_inv(&self) -> bool { actor_ok::<A>() ==> nz(self@) }
    open spec fn rr_post(old_: &Self, clock: &VClock<A>, new_: &Self) -> bool { true }

//@extract fn src/vclock.rs "ResetRemove for VClock" reset_remove
    fn reset_remove(&mut self, other: &Self)
    //@ ensures actor_ok::<A>() ==> final(self)@ == vsub(old(self)@, other@),
    {
        for Dot { actor, counter } in /*@ it: @*/ other.iter()
        //@ invariant
        //@     it.iter.obeys_prophetic_iter_laws(), it.iter.decrease() is Some,
        //@     actor_ok::<A>() ==> nz(old(self)@),
        //@     actor_ok::<A>() ==> dots_of(it.seq(), other@, it.snapshot@.will_return_none()),
        //@     actor_ok::<A>() ==> forall|a: A| #![trigger self@.contains_key(a)] self@.contains_key(a) <==> (old(self)@.contains_key(a) && !(exists|j: int| 0 <= j < it.index@ && *(#[trigger] it.seq()[j]).actor == a && it.seq()[j].counter >= old(self)@[a])),
        //@     actor_ok::<A>() ==> forall|a: A| self@.contains_key(a) ==> #[trigger] self@[a] == old(self)@[a],
        {
            //@ let ghost pre = self@;
            if counter >= self.get(actor) {
                self.dots.remove(actor);
            }
            //@ proof { if actor_ok::<A>() { lemma_rr_step(old(self)@, pre, self@, it.seq(), it.index@, *actor, counter); } }
        }
        //@ proof { if actor_ok::<A>() { assert(self@ =~= vsub(old(self)@, other@)); } }
    }
//@end
}

/// One iteration of the reset_remove loop preserves its invariant.
pub proof fn lemma_rr_step<A>(old_: SMap<A, u64>, pre: SMap<A, u64>, post: SMap<A, u64>, sq: Seq<Dot<&A>>, i: int, actor: A, counter: u64)
    requires
        0 <= i < sq.len(), *sq[i].actor == actor, sq[i].counter == counter,
        forall|x: int, y: int| 0 <= x < y < sq.len() ==> *(#[trigger] sq[x]).actor != *(#[trigger] sq[y]).actor,
        forall|a: A| #![trigger pre.contains_key(a)] pre.contains_key(a) <==> (old_.contains_key(a) && !(exists|j: int| 0 <= j < i && *(#[trigger] sq[j]).actor == a && sq[j].counter >= old_[a])),
        forall|a: A| pre.contains_key(a) ==> #[trigger] pre[a] == old_[a],
        post == (if counter >= cnt(pre, actor) { pre.remove(actor) } else { pre }),
    ensures
        forall|a: A| #![trigger post.contains_key(a)] post.contains_key(a) <==> (old_.contains_key(a) && !(exists|j: int| 0 <= j < i + 1 && *(#[trigger] sq[j]).actor == a && sq[j].counter >= old_[a])),
        forall|a: A| post.contains_key(a) ==> #[trigger] post[a] == old_[a],
{
    assert forall|a: A| #![trigger post.contains_key(a)] post.contains_key(a) <==> (old_.contains_key(a) && !(exists|j: int| 0 <= j < i + 1 && *(#[trigger] sq[j]).actor == a && sq[j].counter >= old_[a])) by {
        if a == actor {
            if old_.contains_key(a) {
                assert(forall|j: int| 0 <= j < i ==> *(#[trigger] sq[j]).actor != a);
                assert(pre.contains_key(a));
            }
        } else {
            assert(post.contains_key(a) == pre.contains_key(a));
            assert(*sq[i].actor != a);
        }
    }
}

impl<A: Ord + Clone> CmRDT for VClock<A> {
    type Op = Dot<A>;
    type Validation = DotRange<A>;
    open spec fn cm_inv(&self) -> bool { actor_ok::<A>() ==> nz(self@) }
    open spec fn cm_pre(&self, op: &Dot<A>) -> bool { true }
    open spec fn cm_post(old_: &Self, op: &Dot<A>, new_: &Self) -> bool { true }
    open spec fn cm_vpre(&self, op: &Dot<A>) -> bool { true }
    open spec fn cm_vhyp() -> bool { actor_ok::<A>() }
    open spec fn cm_vflag(&self, op: &Dot<A>) -> bool { op.counter > cnt(self@, op.actor) + 1 }

//@extract fn src/vclock.rs "CmRDT for VClock" validate_op
    fn validate_op(&self, dot: &Self::Op) -> /*@ (r: @*/ Result<(), Self::Validation> /*@ ) @*/
    //@ ensures
    //@     // C10/C16: accepts a dot iff it does not skip a counter; the error names the gap
    //@     actor_ok::<A>() ==> (r is Ok <==> dot.counter <= cnt(self@, dot.actor) + 1),
    //@     actor_ok::<A>() ==> (r matches Err(e) ==> cloned(dot.actor, e.actor) && e.counter_range.start == cnt(self@, dot.actor) + 1 && e.counter_range.end == dot.counter),
    {
        let next_counter = self.get(&dot.actor).saturating_add(1);
        if dot.counter > next_counter {
            Err(DotRange {
                actor: dot.actor.clone(),
                counter_range: next_counter..dot.counter,
            })
        } else {
            Ok(())
        }
    }
//@end

//@extract fn src/vclock.rs "CmRDT for VClock" apply
    fn apply(&mut self, dot: Self::Op)
    //@ ensures
    //@     // insert iff strictly newer; everything else untouched; never stores a zero
    //@     actor_ok::<A>() ==> final(self)@ == (if cnt(old(self)@, dot.actor) < dot.counter { old(self)@.insert(dot.actor, dot.counter) } else { old(self)@ }),
    {
        if self.get(&dot.actor) < dot.counter {
            self.dots.insert(dot.actor, dot.counter);
        }
    }
//@end
}

impl<A: Ord + Clone> CvRDT for VClock<A> {
    type Validation = Infallible;
    open spec fn cv_inv(&self) -> bool { actor_ok::<A>() ==> nz(self@) }
    open spec fn cv_pre(&self, other: &Self) -> bool { true }
    open spec fn cv_post(old_: &Self, other: &Self, new_: &Self) -> bool { true }
    open spec fn cv_vhyp() -> bool { true }
    open spec fn cv_flag(&self, other: &Self) -> bool { false }

//@extract fn src/vclock.rs "CvRDT for VClock" validate_merge
    fn validate_merge(&self, _other: &Self) -> /*@ (r: @*/ Result<(), Self::Validation> /*@ ) @*/
    //@ ensures r is Ok,
    {
        Ok(())
    }
//@end

//@extract fn src/vclock.rs "CvRDT for VClock" merge
    fn merge(&mut self, other: Self)
    //@ ensures actor_ok::<A>() ==> is_join(final(self)@, old(self)@, other@),
    {
        for dot in /*@ it: @*/ other.into_iter()
        //@ invariant
        //@     it.iter.obeys_prophetic_iter_laws(), it.iter.decrease() is Some,
        //@     actor_ok::<A>() ==> nz(self@) && nz(other@),
        //@     actor_ok::<A>() ==> odots_of(it.seq(), other@, it.snapshot@.will_return_none()),
        //@     actor_ok::<A>() ==> forall|a: A| #![trigger cnt(self@, a)] cnt(self@, a) == (if exists|j: int| 0 <= j < it.index@ && (#[trigger] it.seq()[j]).actor == a { max64(cnt(old(self)@, a), cnt(other@, a)) } else { cnt(old(self)@, a) }),
        {
            //@ let ghost pre = self@;
            self.apply(dot);
            //@ proof { if actor_ok::<A>() { lemma_merge_step(old(self)@, other@, pre, self@, it.seq(), it.index@); } }
        }
        //@ proof { if actor_ok::<A>() { assert forall|a: A| #[trigger] cnt(self@, a) == max64(cnt(old(self)@, a), cnt(other@, a)) by { if other@.contains_key(a) { } else { assert(cnt(other@, a) == 0); } } } }
    }
//@end
}

pub proof fn lemma_merge_step<A>(old_: SMap<A, u64>, other: SMap<A, u64>, pre: SMap<A, u64>, post: SMap<A, u64>, sq: Seq<Dot<A>>, i: int)
    requires
        0 <= i < sq.len(), nz(pre), nz(other),
        odots_of(sq, other, false),
        forall|a: A| #![trigger cnt(pre, a)] cnt(pre, a) == (if exists|j: int| 0 <= j < i && (#[trigger] sq[j]).actor == a { max64(cnt(old_, a), cnt(other, a)) } else { cnt(old_, a) }),
        post == (if cnt(pre, sq[i].actor) < sq[i].counter { pre.insert(sq[i].actor, sq[i].counter) } else { pre }),
    ensures
        nz(post),
        forall|a: A| #![trigger cnt(post, a)] cnt(post, a) == (if exists|j: int| 0 <= j < i + 1 && (#[trigger] sq[j]).actor == a { max64(cnt(old_, a), cnt(other, a)) } else { cnt(old_, a) }),
{
    let d = sq[i];
    assert(other.contains_key(d.actor) && other[d.actor] == d.counter);
    assert forall|a: A| #![trigger cnt(post, a)] cnt(post, a) == (if exists|j: int| 0 <= j < i + 1 && (#[trigger] sq[j]).actor == a { max64(cnt(old_, a), cnt(other, a)) } else { cnt(old_, a) }) by {
        if a == d.actor {
            assert(sq[i].actor == a);
            assert(forall|j: int| 0 <= j < i ==> (#[trigger] sq[j]).actor != a);
            assert(cnt(pre, a) == cnt(old_, a));
        } else {
            assert(cnt(post, a) == cnt(pre, a));
            if exists|j: int| 0 <= j < i + 1 && (#[trigger] sq[j]).actor == a {
                let j = choose|j: int| 0 <= j < i + 1 && (#[trigger] sq[j]).actor == a;
                assert(j < i);
            }
        }
    }
    assert forall|a: A| post.contains_key(a) implies #[trigger] post[a] > 0 by {
        if a == d.actor { } else { assert(pre.contains_key(a)); }
    }
}

impl<A: Ord> VClock<A> {
//@extract fn src/vclock.rs "VClock" new
    pub fn new() -> /*@ (r: @*/ Self /*@ ) @*/
    //@ ensures r@ == SMap::<A, u64>::empty(),
    {
        Default::default()
    }
//@end

//@extract fn src/vclock.rs "VClock" clone_without
    pub fn clone_without(&self, base_clock: &VClock<A>) -> /*@ (r: @*/ VClock<A> /*@ ) @*/
    where
        A: Clone,
    //@ requires nz(self@),
    //@ ensures actor_ok::<A>() && clone_ok::<A>() ==> r@ == vsub(self@, base_clock@) && nz(r@),
    {
        let mut cloned = self.clone();
        cloned.reset_remove(base_clock);
        cloned
    }
//@end

//@extract fn src/vclock.rs "VClock" inc
    pub fn inc(&self, actor: A) -> /*@ (r: @*/ Dot<A> /*@ ) @*/
    where
        A: Clone,
    //@ requires actor_ok::<A>(), cnt(self@, actor) < u64::MAX,
    //@ ensures cloned(actor, r.actor), r.counter == cnt(self@, actor) + 1,
    {
        self.dot(actor).inc()
    }
//@end

//@extract fn src/vclock.rs "VClock" get
    pub fn get(&self, actor: &A) -> /*@ (r: @*/ u64 /*@ ) @*/
    //@ ensures actor_ok::<A>() ==> r == cnt(self@, *actor),
    {
        self.dots.get(actor).cloned().unwrap_or(0)
    }
//@end

//@extract fn src/vclock.rs "VClock" dot
    pub fn dot(&self, actor: A) -> /*@ (r: @*/ Dot<A> /*@ ) @*/
    //@ ensures r.actor == actor, actor_ok::<A>() ==> r.counter == cnt(self@, actor),
    {
        let counter = self.get(&actor);
        Dot::new(actor, counter)
    }
//@end

//@extract fn src/vclock.rs "VClock" concurrent
    pub fn concurrent(&self, other: &VClock<A>) -> /*@ (r: @*/ bool /*@ ) @*/
    //@ ensures actor_ok::<A>() ==> r == (pcmp_code(self@, other@) is None),
    {
        self.partial_cmp(other).is_none()
    }
//@end

//@extract fn src/vclock.rs "VClock" is_empty
    pub fn is_empty(&self) -> /*@ (r: @*/ bool /*@ ) @*/
    //@ ensures r == (self@.len() == 0), r == (self@ == SMap::<A, u64>::empty()),
    {
        //@ proof { if self@.len() == 0 { self@.dom().lemma_len0_is_empty(); assert(self@ =~= SMap::<A, u64>::empty()); } }
        self.dots.is_empty()
    }
//@end

//@extract fn src/vclock.rs "VClock" intersection
    pub fn intersection(left: &VClock<A>, right: &VClock<A>) -> /*@ (r: @*/ VClock<A> /*@ ) @*/
    where
        A: Clone,
    //@ requires actor_ok::<A>(), clone_ok::<A>(),
    //@ ensures r@ == vinter(left@, right@), nz(left@) ==> nz(r@),
    {
        let mut dots = BTreeMap::new();
        for (left_actor, left_counter) in /*@ it: @*/ left.dots.iter()
        //@ invariant
        //@     actor_ok::<A>(), clone_ok::<A>(),
        //@     forall|a: A| #![trigger dots@.contains_key(a)] dots@.contains_key(a) <==> (exists|j: int| 0 <= j < it.index@ && *(#[trigger] it.seq()[j]).0 == a && cnt(right@, a) == *it.seq()[j].1),
        //@     forall|a: A| dots@.contains_key(a) ==> left@.contains_key(a) && #[trigger] dots@[a] == left@[a],
        //@     forall|j: int| 0 <= j < it.seq().len() ==> left@.contains_key(*(#[trigger] it.seq()[j]).0) && left@[*it.seq()[j].0] == *it.seq()[j].1,
        //@     forall|k: A| left@.contains_key(k) ==> it.seq().contains((&k, &left@[k])),
        {
            let right_counter = right.get(left_actor);
            //@ let ghost pre = dots@;
            if right_counter == *left_counter {
                //@ let k = left_actor.clone();
                //@ proof { assert(cloned(*left_actor, k)); assert(k == *left_actor); }
                dots.insert( /*@<*/ left_actor.clone() /*@>*/ /*@ k @*/ , *left_counter);
            }
            //@ proof { lemma_inter_step(left@, right@, pre, dots@, it.seq(), it.index@); }
        }
        //@ proof { assert(dots@ =~= vinter(left@, right@)); if nz(left@) { assert forall|a: A| dots@.contains_key(a) implies #[trigger] dots@[a] > 0 by { assert(left@[a] > 0); } } }
        Self { dots }
    }
//@end
}


impl<A: Ord> VClock<A> {
//@extract fn src/vclock.rs "VClock" glb
    pub fn glb(&mut self, other: &Self)
    //@ requires actor_ok::<A>(),
    //@ ensures is_meet(final(self)@, old(self)@, other@), nz(final(self)@),
    {
        self.dots = /*@ shim_btreemap_filter_map_collect( @*/ mem::take(&mut self.dots)
            /*@<*/ .into_iter()
            .filter_map( /*@>*/ /*@ , @*/ /*@<*/ | /*@>*/ /*@<pat*/ (actor, count) /*@>*/ /*@<*/ | /*@>*/ /*@ |p: (A, u64)| -> (o: Option<(A, u64)>) ensures o == (if min64(p.1, cnt(other@, p.0)) == 0 { None } else { Some((p.0, min64(p.1, cnt(other@, p.0)))) }) { let $pat = p; @*/ {
                // Since an actor missing from the dots map has an implied
                // counter of 0 we can save some memory, and remove the actor.
                let min_count = cmp::min(count, other.get(&actor));
                match min_count {
                    0 => None,
                    _ => Some((actor, min_count)),
                }
            } /*@ } @*/ )
            /*@<*/ .collect() /*@>*/ ;
        //@ proof { assert forall|a: A| #[trigger] cnt(self@, a) == min64(cnt(old(self)@, a), cnt(other@, a)) by { if old(self)@.contains_key(a) { if self@.contains_key(a) {} else {} } else { if self@.contains_key(a) {} } } }
    }
//@end
}

impl<A: Ord + Clone> vstd::std_specs::convert::FromSpecImpl<Dot<A>> for VClock<A> {
    open spec fn obeys_from_spec() -> bool { false }
    uninterp spec fn from_spec(v: Dot<A>) -> Self;
}
impl<A: Ord + Clone> From<Dot<A>> for VClock<A> {
//@extract fn src/vclock.rs "From for VClock" from
    fn from(dot: Dot<A>) -> /*@ (r: @*/ Self /*@ ) @*/
    //@ ensures actor_ok::<A>() ==> r@ == (if dot.counter > 0 { SMap::<A, u64>::empty().insert(dot.actor, dot.counter) } else { SMap::<A, u64>::empty() }),
    {
        let mut clock = VClock::default();
        clock.apply(dot);
        clock
    }
//@end
}

/// C10: learning a sequence of dots one after the other (`apply` each): the pointwise maximum, zero counters never stored
pub open spec fn dots_fold<A>(ds: Seq<Dot<A>>, n: int) -> SMap<A, u64>
    decreases n,
{
    if n <= 0 { SMap::<A, u64>::empty() } else { vapp(dots_fold(ds, n - 1), ds[n - 1].actor, ds[n - 1].counter) }
}

// vstd states the postcondition of every `FromIterator::from_iter` through this trait: `from_iter_ensures(items the iterator yields, result)`
impl<A: Ord + Clone + core::fmt::Debug> vstd::std_specs::iter::FromIteratorSpecImpl<Dot<A>> for VClock<A> {
    open spec fn from_iter_ensures(s: Seq<Dot<A>>, r: Self) -> bool { actor_ok::<A>() ==> r@ == dots_fold(s, s.len() as int) }
}
impl<A: Ord + Clone + core::fmt::Debug> core::iter::FromIterator<Dot<A>> for VClock<A> {
//@extract fn src/vclock.rs "FromIterator for VClock" from_iter
    // N8: the type parameter `I` is spelled `T` (this Verus generates ill-typed AIR for the inherited trait postcondition unless the
    // impl uses the trait declaration's own parameter name)
    fn from_iter< /*@<*/ I /*@>*/ /*@ T @*/ : IntoIterator<Item = Dot<A>>>(iter: /*@<*/ I /*@>*/ /*@ T @*/ ) -> Self
    {
        let mut clock = VClock::default();

        //@ let dv = crate::stdx5::shim_intoiter_collect_vec(iter);
        //@ let ghost ds = dv@;
        for dot in /*@ it: dv @*/ /*@<*/ iter /*@>*/
        //@ invariant it.seq() == ds, actor_ok::<A>() ==> nz(clock@) && clock@ == dots_fold(ds, it.index@ as int),
        {
            clock.apply(dot);
        }

        clock
    }
//@end
}

// ---------------------------------------------------------------------------------------------
// OUT OF REACH (assumed contracts, bounded stand-in in the replay crate: `standin vclock_iter`).
//  * VClock::iter returns `self.dots.iter().map(closure)`.  vstd specifies the Map adapter, but its
//    broadcast lemma does not fire for closures of a function that is generic in the key type
//    (design_probes/p9), so the 5-line adapter's contract "yields exactly the dots, each actor once"
//    is assumed.  The token text below is still extracted (and compared) so that an edit is noticed.
//  * vclock::IntoIter / VClock::into_iter: a crate-defined Iterator can only satisfy vstd's
//    prophetic iterator laws with a ghost prophecy field the real struct does not have.
// ---------------------------------------------------------------------------------------------
impl<A: Ord> VClock<A> {
//@extract fn src/vclock.rs "VClock" iter
    pub fn iter(&self) -> /*@ (r: @*/ impl Iterator<Item = Dot<&A>> /*@ ) @*/
    //@ ensures r.obeys_prophetic_iter_laws(), r.decrease() is Some,
    //@     actor_ok::<A>() ==> dots_of(r.remaining(), self@, r.will_return_none()),
    {
        //@ let ghost g = |p: (&A, &u64)| Dot { actor: p.0, counter: *p.1 };
        /*@ let it0 = @*/ self.dots.iter() /*@ ; let ghost es = it0.remaining(); proof { crate::stdx5::axiom_btree_iter_finite(&it0); } let r0 = crate::stdx5::shim_iter_map(it0, Ghost(g), @*/ /*@<*/ .map( /*@>*/ /*@<*/ | /*@>*/ /*@<pat*/ (a, c) /*@>*/ /*@<*/ | /*@>*/ /*@ |p: (&A, &u64)| -> (o: Dot<&A>) ensures o == g(p) { let $pat = p; @*/ Dot {
            actor: a,
            counter: *c,
        } /*@ } @*/ ) /*@ ; proof { if actor_ok::<A>() { lemma_iter_dots_of(es, self.dots@, g, r0.remaining(), r0.will_return_none()); } } r0 @*/
    }
//@end
}

#[verifier::external_body]
#[verifier::reject_recursive_types(A)]
//@extract struct src/vclock.rs IntoIter
pub struct IntoIter<A: Ord> {
    btree_iter: btree_map::IntoIter<A, u64>,
}
//@end

impl<A: Ord> vstd::std_specs::iter::IteratorSpecImpl for IntoIter<A> {
    open spec fn obeys_prophetic_iter_laws(&self) -> bool { true }
    uninterp spec fn remaining(&self) -> Seq<Dot<A>>;
    uninterp spec fn will_return_none(&self) -> bool;
    uninterp spec fn decrease(&self) -> Option<nat>;
    uninterp spec fn peek(&self, i: int) -> Option<Dot<A>>;
}

impl<A: Ord> std::iter::Iterator for IntoIter<A> {
    type Item = Dot<A>;

    #[verifier::external_body]
//@extract fn src/vclock.rs "Iterator for IntoIter" next
    fn next(&mut self) -> Option<Dot<A>> {
        self.btree_iter
            .next()
            .map(|(actor, counter)| Dot::new(actor, counter))
    }
//@end
}

impl<A: Ord> std::iter::IntoIterator for VClock<A> {
    type Item = Dot<A>;
    type IntoIter = IntoIter<A>;

    #[verifier::external_body]
//@extract fn src/vclock.rs "IntoIterator for VClock" into_iter
    fn into_iter(self) -> /*@ (r: @*/ Self::IntoIter /*@ ) @*/
    //@ ensures r.decrease() is Some,
    //@     actor_ok::<A>() ==> odots_of(r.remaining(), self@, r.will_return_none()),
    {
        IntoIter {
            btree_iter: self.dots.into_iter(),
        }
    }
//@end
}


pub proof fn lemma_inter_step<A>(left: SMap<A, u64>, right: SMap<A, u64>, pre: SMap<A, u64>, post: SMap<A, u64>, sq: Seq<(&A, &u64)>, i: int)
    requires
        0 <= i < sq.len(),
        forall|a: A| #![trigger pre.contains_key(a)] pre.contains_key(a) <==> (exists|j: int| 0 <= j < i && *(#[trigger] sq[j]).0 == a && cnt(right, a) == *sq[j].1),
        forall|a: A| pre.contains_key(a) ==> left.contains_key(a) && #[trigger] pre[a] == left[a],
        forall|j: int| 0 <= j < sq.len() ==> left.contains_key(*(#[trigger] sq[j]).0) && left[*sq[j].0] == *sq[j].1,
        post == (if cnt(right, *sq[i].0) == *sq[i].1 { pre.insert(*sq[i].0, *sq[i].1) } else { pre }),
    ensures
        forall|a: A| #![trigger post.contains_key(a)] post.contains_key(a) <==> (exists|j: int| 0 <= j < i + 1 && *(#[trigger] sq[j]).0 == a && cnt(right, a) == *sq[j].1),
        forall|a: A| post.contains_key(a) ==> left.contains_key(a) && #[trigger] post[a] == left[a],
{
    assert forall|a: A| #![trigger post.contains_key(a)] post.contains_key(a) <==> (exists|j: int| 0 <= j < i + 1 && *(#[trigger] sq[j]).0 == a && cnt(right, a) == *sq[j].1) by {
        if post.contains_key(a) {
            if pre.contains_key(a) {
                let j = choose|j: int| 0 <= j < i && *(#[trigger] sq[j]).0 == a && cnt(right, a) == *sq[j].1;
                assert(0 <= j < i + 1 && *sq[j].0 == a && cnt(right, a) == *sq[j].1);
            } else {
                assert(*sq[i].0 == a && cnt(right, a) == *sq[i].1);
            }
        }
        if exists|j: int| 0 <= j < i + 1 && *(#[trigger] sq[j]).0 == a && cnt(right, a) == *sq[j].1 {
            let j = choose|j: int| 0 <= j < i + 1 && *(#[trigger] sq[j]).0 == a && cnt(right, a) == *sq[j].1;
            if j < i { assert(pre.contains_key(a)); } else { assert(j == i); }
        }
    }
}

pub proof fn lemma_inter_done<A>(left: SMap<A, u64>, right: SMap<A, u64>, dots: SMap<A, u64>, sq: Seq<(&A, &u64)>)
    requires
        forall|a: A| #![trigger dots.contains_key(a)] dots.contains_key(a) <==> (exists|j: int| 0 <= j < sq.len() && *(#[trigger] sq[j]).0 == a && cnt(right, a) == *sq[j].1),
        forall|a: A| dots.contains_key(a) ==> left.contains_key(a) && #[trigger] dots[a] == left[a],
        forall|j: int| 0 <= j < sq.len() ==> left.contains_key(*(#[trigger] sq[j]).0) && left[*sq[j].0] == *sq[j].1,
        forall|k: A| left.contains_key(k) ==> sq.contains((&k, &left[k])),
    ensures dots == vinter(left, right), nz(left) ==> nz(dots),
{
    let v = vinter(left, right);
    assert forall|a: A| #![trigger dots.contains_key(a)] #![trigger v.contains_key(a)] dots.contains_key(a) == v.contains_key(a) by {
        if dots.contains_key(a) {
            let j = choose|j: int| 0 <= j < sq.len() && *(#[trigger] sq[j]).0 == a && cnt(right, a) == *sq[j].1;
            assert(left[a] == *sq[j].1);
        }
        if v.contains_key(a) {
            assert(left.contains_key(a) && cnt(right, a) == left[a]);
            let p = (&a, &left[a]);
            assert(sq.contains(p));
            let j = choose|j: int| 0 <= j < sq.len() && sq[j] == p;
            assert(*sq[j].0 == a && cnt(right, a) == *sq[j].1);
        }
    }
    assert(dots =~= v);
    if nz(left) { assert forall|a: A| dots.contains_key(a) implies #[trigger] dots[a] > 0 by { assert(left[a] > 0); } }
}

} // verus!
}
pub use crate::vclock::VClock;
