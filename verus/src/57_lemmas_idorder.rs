// Layer L for the identifier order shared by List and GList (C12, C13): sorted enumerations of identifier sets.
// Nothing here is extracted from /repo: lemmas over the spec vocabulary (id_cmp, id_order) of the contracts.
pub mod lemmas_idorder {
use vstd::prelude::*;
use vstd::std_specs::cmp::{PartialEqSpec, PartialOrdSpec, OrdSpec};
use core::cmp::Ordering;
use crate::spec::*;
use crate::identifier::*;
use crate::Identifier;
verus! {

pub open spec fn idlt<M: Ord>(a: Identifier<M>, b: Identifier<M>) -> bool { id_cmp(a@, b@) == Ordering::Less }

/// the identifier order is irreflexive
pub proof fn l_irreflexive<M: Ord>(a: Identifier<M>)
    requires node_ok::<M>(),
    ensures !idlt(a, a),
{
    c14_antisymmetric(a@, a@);
}

/// C12 (one sequence per state): the sequence a replica shows is determined by its identifier map
pub proof fn c12_order_unique<M: Ord>(s: Seq<Identifier<M>>, t: Seq<Identifier<M>>, dom: Set<Identifier<M>>)
    requires node_ok::<M>(), id_order(s, dom), id_order(t, dom),
    ensures s == t,
{
    s.unique_seq_to_set();
    t.unique_seq_to_set();
    l_order_prefix(s, t, dom, s.len() as int);
    assert(s =~= t);
}

proof fn l_order_prefix<M: Ord>(s: Seq<Identifier<M>>, t: Seq<Identifier<M>>, dom: Set<Identifier<M>>, n: int)
    requires node_ok::<M>(), id_order(s, dom), id_order(t, dom), s.len() == t.len(), 0 <= n <= s.len(),
    ensures forall|k: int| 0 <= k < n ==> s[k] == t[k],
    decreases n,
{
    if n > 0 {
        l_order_prefix(s, t, dom, n - 1);
        let i = n - 1;
        // s[i] occurs in t at some j, t[i] occurs in s at some l
        assert(s.to_set().contains(s[i]));
        assert(t.to_set().contains(s[i]));
        let j = choose|j: int| 0 <= j < t.len() && t[j] == s[i];
        assert(t.to_set().contains(t[i]));
        assert(s.to_set().contains(t[i]));
        let l = choose|l: int| 0 <= l < s.len() && s[l] == t[i];
        if j < i { assert(s[j] == t[j]); assert(s[j] == s[i]); assert(false); }
        if l < i { assert(s[l] == t[l]); assert(t[l] == t[i]); assert(false); }
        if j > i && l > i {
            assert(idlt(t[i], t[j]));
            assert(idlt(s[i], s[l]));
            c14_transitive(s[i]@, t[i]@, s[i]@);
            l_irreflexive(s[i]);
            assert(false);
        }
    }
}

/// C12 (single global order): whatever the two replicas hold, two identifiers they both show appear in the same
/// relative order, namely the identifier order, which does not depend on the replica or on time
pub proof fn c12_relative_order_is_global<M: Ord>(s: Seq<Identifier<M>>, dom: Set<Identifier<M>>, i: int, j: int)
    requires node_ok::<M>(), id_order(s, dom), 0 <= i < s.len(), 0 <= j < s.len(),
    ensures i < j <==> idlt(s[i], s[j]),
{
    if i < j { assert(idlt(s[i], s[j])); }
    else if j < i { assert(idlt(s[j], s[i])); if idlt(s[i], s[j]) { c14_transitive(s[i]@, s[j]@, s[i]@); l_irreflexive(s[i]); } }
    else { l_irreflexive(s[i]); }
}

/// C13 (insert lands at the requested index): an identifier strictly between the (i-1)-th and the i-th element is
/// new, and adding it makes it the i-th element while all other elements keep their relative order
pub proof fn c13_insert_lands<M: Ord>(s: Seq<Identifier<M>>, dom: Set<Identifier<M>>, id: Identifier<M>, i: int)
    requires node_ok::<M>(), id_order(s, dom), 0 <= i <= s.len(),
        i > 0 ==> idlt(s[i - 1], id), i < s.len() ==> idlt(id, s[i]),
    ensures !dom.contains(id), id_order(s.insert(i, id), dom.insert(id)), s.insert(i, id)[i] == id,
{
    let s2 = s.insert(i, id);
    assert forall|k: int| 0 <= k < i implies idlt(#[trigger] s[k], id) by {
        if k < i - 1 { assert(idlt(s[k], s[i - 1])); c14_transitive(s[k]@, s[i - 1]@, id@); }
    }
    assert forall|k: int| i <= k < s.len() implies idlt(id, #[trigger] s[k]) by {
        if k > i { assert(idlt(s[i], s[k])); c14_transitive(id@, s[i]@, s[k]@); }
    }
    l_irreflexive(id);
    if dom.contains(id) {
        assert(s.to_set().contains(id));
        let k = choose|k: int| 0 <= k < s.len() && s[k] == id;
        if k < i { assert(idlt(s[k], id)); } else { assert(idlt(id, s[k])); }
        assert(false);
    }
    assert forall|a: int, b: int| 0 <= a < b < s2.len() implies id_cmp((#[trigger] s2[a])@, (#[trigger] s2[b])@) == Ordering::Less by {
        let sa = if a < i { a } else { a - 1 };
        let sb = if b < i { b } else { b - 1 };
        if a == i { assert(s2[b] == s[b - 1]); assert(idlt(id, s[b - 1])); }
        else if b == i { assert(s2[a] == s[a]); assert(idlt(s[a], id)); }
        else { assert(s2[a] == s[sa] && s2[b] == s[sb]); assert(idlt(s[sa], s[sb])); }
    }
    assert forall|a: int, b: int| 0 <= a < s2.len() && 0 <= b < s2.len() && a != b implies s2[a] != s2[b] by {
        let (lo, hi) = if a < b { (a, b) } else { (b, a) };
        assert(idlt(s2[lo], s2[hi]));
        l_irreflexive(s2[lo]);
    }
    assert(s2.to_set() =~= dom.insert(id)) by {
        assert forall|k: Identifier<M>| s2.to_set().contains(k) <==> dom.insert(id).contains(k) by {
            if s2.to_set().contains(k) {
                let a = choose|a: int| 0 <= a < s2.len() && s2[a] == k;
                if a != i { let sa = if a < i { a } else { a - 1 }; assert(s2[a] == s[sa]); assert(s.to_set().contains(s[sa])); }
            }
            if dom.insert(id).contains(k) {
                if k == id { assert(s2[i] == id); }
                else { assert(s.to_set().contains(k)); let a = choose|a: int| 0 <= a < s.len() && s[a] == k; if a < i { assert(s2[a] == k); } else { assert(s2[a + 1] == k); } }
            }
        }
    }
}

/// C13 (delete removes exactly the i-th element): the rest keeps its order
pub proof fn c13_delete_lands<M: Ord>(s: Seq<Identifier<M>>, dom: Set<Identifier<M>>, i: int)
    requires node_ok::<M>(), id_order(s, dom), 0 <= i < s.len(),
    ensures id_order(s.remove(i), dom.remove(s[i])),
{
    let s2 = s.remove(i);
    assert forall|a: int, b: int| 0 <= a < b < s2.len() implies id_cmp((#[trigger] s2[a])@, (#[trigger] s2[b])@) == Ordering::Less by {
        let sa = if a < i { a } else { a + 1 };
        let sb = if b < i { b } else { b + 1 };
        assert(s2[a] == s[sa] && s2[b] == s[sb]);
        assert(idlt(s[sa], s[sb]));
    }
    assert forall|a: int, b: int| 0 <= a < s2.len() && 0 <= b < s2.len() && a != b implies s2[a] != s2[b] by {
        let sa = if a < i { a } else { a + 1 };
        let sb = if b < i { b } else { b + 1 };
        assert(s2[a] == s[sa] && s2[b] == s[sb]);
    }
    assert(s2.to_set() =~= dom.remove(s[i])) by {
        assert forall|k: Identifier<M>| s2.to_set().contains(k) <==> dom.remove(s[i]).contains(k) by {
            if s2.to_set().contains(k) {
                let a = choose|a: int| 0 <= a < s2.len() && s2[a] == k;
                let sa = if a < i { a } else { a + 1 };
                assert(s2[a] == s[sa]);
                assert(s.to_set().contains(s[sa]));
            }
            if dom.remove(s[i]).contains(k) {
                assert(s.to_set().contains(k));
                let a = choose|a: int| 0 <= a < s.len() && s[a] == k;
                if a < i { assert(s2[a] == k); } else { assert(s2[a - 1] == k); }
            }
        }
    }
}

/// C14 (density): for two distinct identifiers low < high and any marker, `between` (its verified contract) returns an
/// identifier strictly between them that ends in the marker -- so a new identifier fits between any two neighbours, and
/// identifiers produced for different markers (dots) differ
pub proof fn c14_dense<M: Ord + Clone>(low: Identifier<M>, high: Identifier<M>, marker: M, r: Identifier<M>)
    requires between_ok::<M>(), idlt(low, high), between_post(Some(&low), Some(&high), marker, r),
    ensures idlt(low, r), idlt(r, high), r@.len() > 0, r@.last().1 == marker,
{
    c14_antisymmetric(low@, high@);
}

/// a < b <= c gives a < c, and a <= b < c gives a < c, in the identifier order
pub proof fn l_lt_le<M: Ord>(a: Identifier<M>, b: Identifier<M>, c: Identifier<M>)
    requires node_ok::<M>(), ord_ok::<Identifier<M>>(), idlt(a, b), le(b, c),
    ensures idlt(a, c),
{
    c14_total(b@, c@);
    if id_cmp(b@, c@) == Ordering::Less { c14_transitive(a@, b@, c@); }
    else { assert(lt(a, b) && eqv(b, c)); lemma_lt_eqv(a, b, c); }
}
pub proof fn l_le_lt<M: Ord>(a: Identifier<M>, b: Identifier<M>, c: Identifier<M>)
    requires node_ok::<M>(), ord_ok::<Identifier<M>>(), le(a, b), idlt(b, c),
    ensures idlt(a, c),
{
    c14_total(a@, b@);
    if id_cmp(a@, b@) == Ordering::Less { c14_transitive(a@, b@, c@); }
    else { assert(eqv(a, b) && lt(b, c)); lemma_eqv_lt(a, b, c); }
}

} // verus!
}
