// Dependency stub: the `num` crate is not available to single-file Verus.  BigUint / BigInt are
// opaque here; their view is a mathematical nat / int and the three operations the crate uses
// (Sum<u64> through the chain shim, From<BigUint> for BigInt, Sub) are assumed to be exact.
pub mod num {
pub use self::rational::BigRational;
pub mod bigint {
use vstd::prelude::*;
verus! {
#[verifier::external_body]
pub struct BigUint { _p: () }
impl View for BigUint { type V = nat; uninterp spec fn view(&self) -> nat; }

#[verifier::external_body]
pub struct BigInt { _p: () }
impl View for BigInt { type V = int; uninterp spec fn view(&self) -> int; }

impl vstd::std_specs::convert::FromSpecImpl<BigUint> for BigInt {
    open spec fn obeys_from_spec() -> bool { false }
    uninterp spec fn from_spec(v: BigUint) -> Self;
}
impl From<BigUint> for BigInt {
    #[verifier::external_body]
    fn from(u: BigUint) -> (r: BigInt) ensures r@ == u@ as int { unimplemented!() }
}
/// stands for `impl Sub for BigInt` (`p - n`)
#[verifier::external_body]
pub fn bigint_sub(p: BigInt, n: BigInt) -> (r: BigInt) ensures r@ == p@ - n@ { unimplemented!() }
}
}
pub mod rational {
use vstd::prelude::*;
use core::cmp::Ordering;
use vstd::std_specs::cmp::{PartialEqSpecImpl, PartialOrdSpecImpl, OrdSpecImpl};
verus! {
/// stands for num::BigRational: an opaque value viewed as a mathematical rational (ordered by `rat_cmp`);
/// the crate only compares rationals and computes l + 1, h - 1 and (l + h) / 2.
#[verifier::external_body]
pub struct BigRational { _p: () }

pub uninterp spec fn rat_cmp(a: BigRational, b: BigRational) -> Ordering;

impl PartialEqSpecImpl for BigRational {
    open spec fn obeys_eq_spec() -> bool { true }
    open spec fn eq_spec(&self, other: &Self) -> bool { rat_cmp(*self, *other) == Ordering::Equal }
}
impl PartialEq for BigRational { #[verifier::external_body] fn eq(&self, other: &Self) -> bool { unimplemented!() } }
impl Eq for BigRational {}
impl PartialOrdSpecImpl for BigRational {
    open spec fn obeys_partial_cmp_spec() -> bool { true }
    open spec fn partial_cmp_spec(&self, other: &Self) -> Option<Ordering> { Some(rat_cmp(*self, *other)) }
}
impl PartialOrd for BigRational { #[verifier::external_body] fn partial_cmp(&self, other: &Self) -> Option<Ordering> { unimplemented!() } }
impl OrdSpecImpl for BigRational {
    open spec fn obeys_cmp_spec() -> bool { true }
    open spec fn cmp_spec(&self, other: &Self) -> Ordering { rat_cmp(*self, *other) }
}
impl Ord for BigRational { #[verifier::external_body] fn cmp(&self, other: &Self) -> Ordering { unimplemented!() } }
impl Clone for BigRational { #[verifier::external_body] fn clone(&self) -> (r: Self) ensures r == *self { unimplemented!() } }

/// Assumed: the order on rationals is a lawful total order whose equivalence is equality of values.
#[verifier::external_body]
pub proof fn axiom_rational_order()
    ensures vstd::laws_cmp::obeys_cmp::<BigRational>(),
        forall|a: BigRational, b: BigRational| rat_cmp(a, b) == Ordering::Equal <==> a == b,
{}

#[verifier::external_body]
pub fn rat_zero() -> (r: BigRational) { unimplemented!() }
/// `x + BigRational::one()`
#[verifier::external_body]
pub fn rat_add_one(x: &BigRational) -> (r: BigRational) ensures rat_cmp(*x, r) == Ordering::Less { unimplemented!() }
/// `x - BigRational::one()`
#[verifier::external_body]
pub fn rat_sub_one(x: &BigRational) -> (r: BigRational) ensures rat_cmp(r, *x) == Ordering::Less { unimplemented!() }
/// `(l + h) / 2`
#[verifier::external_body]
pub fn rat_mid(l: &BigRational, h: &BigRational) -> (r: BigRational)
    ensures rat_cmp(*l, *h) == Ordering::Less ==> rat_cmp(*l, r) == Ordering::Less && rat_cmp(r, *h) == Ordering::Less,
            rat_cmp(*h, *l) == Ordering::Less ==> rat_cmp(*h, r) == Ordering::Less && rat_cmp(r, *l) == Ordering::Less,
            *l == *h ==> r == *l,
{ unimplemented!() }
}
}
}
