// Dependency stub: the `num` crate is not available to single-file Verus.  BigUint / BigInt are
// opaque here; their view is a mathematical nat / int and the three operations the crate uses
// (Sum<u64> through the chain shim, From<BigUint> for BigInt, Sub) are assumed to be exact.
pub mod num {
pub mod bigint {
use vstd::prelude::*;
verus! {
#[verifier::external_body]
pub struct BigUint { _p: () }
impl View for BigUint { type V = nat; uninterp spec fn view(&self) -> nat; }

#[verifier::external_body]
pub struct BigInt { _p: () }
impl View for BigInt { type V = int; uninterp spec fn view(&self) -> int; }

impl vstd::std_specs::convert::FromSpecImpl<BigUint> for BigInt {
    open spec fn obeys_from_spec() -> bool { false }
    uninterp spec fn from_spec(v: BigUint) -> Self;
}
impl From<BigUint> for BigInt {
    #[verifier::external_body]
    fn from(u: BigUint) -> (r: BigInt) ensures r@ == u@ as int { unimplemented!() }
}
/// stands for `impl Sub for BigInt` (`p - n`)
#[verifier::external_body]
pub fn bigint_sub(p: BigInt, n: BigInt) -> (r: BigInt) ensures r@ == p@ - n@ { unimplemented!() }
}
}
}
