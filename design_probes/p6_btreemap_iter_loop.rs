use vstd::prelude::*;
use std::collections::BTreeMap;
use vstd::std_specs::iter::IteratorSpec;
verus! {
fn g(m: &BTreeMap<u8, u64>) -> (r: bool)
  ensures r == (forall|k: u8| m@.contains_key(k) ==> m@[k] >= 5)
{
    let mut ok = true;
    let mit = m.iter();
    let ghost rem = mit.remaining();
    for (k, v) in it: mit
        invariant 
          it.seq() == rem,
          ok == (forall|i: int| 0 <= i < it.index@ ==> *(#[trigger] it.seq()[i]).1 >= 5)
    {
        if *v < 5 { ok = false; }
    }
    assert(forall|i: int| 0 <= i < rem.len() ==> m@.contains_pair(*(#[trigger] rem[i]).0, *rem[i].1));
    assert(forall|k: u8| m@.contains_key(k) ==> exists|i: int| 0 <= i < rem.len() && *(#[trigger] rem[i]).0 == k);
    ok
}
} // verus!
fn main() {}
