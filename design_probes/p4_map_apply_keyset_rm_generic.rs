#![feature(allocator_api)]
use vstd::prelude::*;
use vstd::map::Map as SMap;
use std::collections::{BTreeMap, BTreeSet, HashMap};
use core::cmp::Ordering;
use std::hash::Hash;
use vstd::std_specs::btree::key_obeys_cmp_spec;
use vstd::std_specs::hash::obeys_key_model;
verus! {

#[derive(PartialEq, Eq, Hash)]
pub struct VClock<A: Ord> {
    pub dots: BTreeMap<A,u64>,
}
impl<A: Ord> View for VClock<A> { type V = SMap<A,u64>; open spec fn view(&self) -> SMap<A,u64> { self.dots@ } }
impl<A: Ord> Default for VClock<A> { fn default() -> Self { Self { dots: BTreeMap::new() } } }
impl<A: Ord + Clone> Clone for VClock<A> { #[verifier::external_body] fn clone(&self) -> (r: Self) ensures r@ == self@ { unimplemented!() } }

pub open spec fn cnt<A>(m: SMap<A,u64>, a: A) -> u64 { if m.contains_key(a) { m[a] } else { 0 } }
pub open spec fn vle<A>(x: SMap<A,u64>, y: SMap<A,u64>) -> bool { forall|a: A| cnt(x, a) <= cnt(y, a) }
pub open spec fn rr<A>(x: SMap<A,u64>, c: SMap<A,u64>) -> SMap<A,u64> { x.restrict(x.dom().filter(|a: A| x[a] > cnt(c,a))) }

pub trait ResetRemove<A: Ord>: Sized {
    spec fn rr_spec(self, clock: SMap<A,u64>) -> Self;
    fn reset_remove(&mut self, clock: &VClock<A>)
        ensures *final(self) == old(self).rr_spec(clock@);
}

impl<A: Ord> ResetRemove<A> for VClock<A> {
    closed spec fn rr_spec(self, clock: SMap<A,u64>) -> Self;
    #[verifier::external_body]
    fn reset_remove(&mut self, other: &Self) 
    { unimplemented!() }
}
impl<A: Ord> VClock<A> {
    #[verifier::external_body]
    pub fn is_empty(&self) -> (r: bool) ensures r == (self@.len() == 0) { unimplemented!() }
    #[verifier::external_body]
    fn partial_cmp(&self, other: &VClock<A>) -> (r: Option<Ordering>) 
    { unimplemented!() }
}

pub trait Val<A: Ord>: Clone + Default + ResetRemove<A> {}

pub struct Map<K: Ord, V: Val<A>, A: Ord + Hash> {
    clock: VClock<A>,
    entries: BTreeMap<K, Entry<V, A>>,
    deferred: HashMap<VClock<A>, BTreeSet<K>>,
}

struct Entry<V: Val<A>, A: Ord> {
    clock: VClock<A>,
    val: V,
}

impl<K: Ord, V: Val<A>, A: Ord + Hash + Clone> Map<K, V, A> {
    fn apply_keyset_rm(&mut self, mut keyset: BTreeSet<K>, clock: VClock<A>) 
    {
        for key in keyset.iter() {
            if let Some(entry) = self.entries.get_mut(key) {
                entry.clock.reset_remove(&clock);
                if entry.clock.is_empty() {
                    self.entries.remove(key);
                } else {
                    entry.val.reset_remove(&clock);
                }
            }
        }
        match self.clock.partial_cmp(&clock) {
            None | Some(Ordering::Less) => {
                let deferred_set = self.deferred.entry(clock).or_default();
                deferred_set.append(&mut keyset);
            }
            _ => { /* we've seen all keys this clock has seen */ }
        }
    }
}

} // verus!
fn main() {}
