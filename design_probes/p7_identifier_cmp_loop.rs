use vstd::prelude::*;
use core::cmp::Ordering;
verus! {

#[verifier::external_body]
pub struct BigRational { _p: u8 }

impl Clone for BigRational { #[verifier::external_body] fn clone(&self) -> Self { unimplemented!() } }
impl PartialEq for BigRational { #[verifier::external_body] fn eq(&self, o: &Self) -> bool { unimplemented!() } }
impl Eq for BigRational {}
impl PartialOrd for BigRational { #[verifier::external_body] fn partial_cmp(&self, o: &Self) -> Option<Ordering> { unimplemented!() } }
impl Ord for BigRational { #[verifier::external_body] fn cmp(&self, o: &Self) -> Ordering { unimplemented!() } }

pub struct Identifier<T>(pub Vec<(BigRational, T)>);

impl<T: Ord> Identifier<T> {
    fn cmp(&self, other: &Self) -> Ordering {
        let mut self_path = self.0.iter();
        let mut other_path = other.0.iter();
        loop {
            match (self_path.next(), other_path.next()) {
                (Some(self_node), Some(other_node)) => match self_node.cmp(other_node) {
                    Ordering::Equal => continue,
                    ord => return ord,
                },
                (None, Some(_)) => return Ordering::Greater,
                (Some(_), None) => return Ordering::Less,
                (None, None) => return Ordering::Equal,
            }
        }
    }
}

} // verus!
fn main() {}
