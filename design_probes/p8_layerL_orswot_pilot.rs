// PILOT ONLY (design phase): Layer-L style check. Relational denotation `repr(s,H)` for an Orswot
// without the pending-remove table; proves L.apply for a clock-covered Rm and L.dup for a duplicate Add
// (uses W1, W2 and an induction). The fresh-Add case ends in `assume(false)` on purpose: it needs the
// deferred table of the full spec and is NOT part of any claim. Verifies in ~1 s.
use vstd::prelude::*;
verus! {

pub type Clock<A> = Map<A, u64>;
pub open spec fn cnt<A>(c: Clock<A>, a: A) -> u64 { if c.contains_key(a) { c[a] } else { 0 } }
pub open spec fn vle<A>(x: Clock<A>, y: Clock<A>) -> bool { forall|a: A| cnt(x, a) <= cnt(y, a) }

pub enum Op<M, A> {
    Add { actor: A, counter: u64, members: Set<M> },
    Rm { clock: Clock<A>, members: Set<M> },
}

// abstract state: set clock (total fn) and member witness clocks (total fn, 0 = absent)
#[verifier::reject_recursive_types(M)]
#[verifier::reject_recursive_types(A)]
pub struct St<M, A> {
    pub clock: spec_fn(A) -> u64,
    pub wit: spec_fn(M, A) -> u64,
}

pub open spec fn is_add<M, A>(op: Op<M, A>, a: A, n: u64) -> bool {
    op matches Op::Add { actor, counter, .. } && actor == a && counter == n
}
pub open spec fn adds<M, A>(op: Op<M, A>, m: M, a: A, n: u64) -> bool {
    op matches Op::Add { actor, counter, members } && actor == a && counter == n && members.contains(m)
}
pub open spec fn rm_covers<M, A>(op: Op<M, A>, m: M, a: A, n: u64) -> bool {
    op matches Op::Rm { clock, members } && members.contains(m) && cnt(clock, a) >= n
}
// an add of m by (a,n) survives in H
pub open spec fn surv<M, A>(h: Set<Op<M, A>>, m: M, a: A, n: u64) -> bool {
    n > 0 && (exists|op: Op<M, A>| h.contains(op) && #[trigger] adds(op, m, a, n))
    && (forall|op: Op<M, A>| h.contains(op) ==> !#[trigger] rm_covers(op, m, a, n))
}
pub open spec fn seen<M, A>(h: Set<Op<M, A>>, a: A, n: u64) -> bool {
    n > 0 && exists|op: Op<M, A>| h.contains(op) && #[trigger] is_add(op, a, n)
}
// relational denotation: s represents knowledge set h
pub open spec fn repr<M, A>(s: St<M, A>, h: Set<Op<M, A>>) -> bool {
    &&& forall|a: A| #![trigger (s.clock)(a)] ((s.clock)(a) > 0 ==> seen(h, a, (s.clock)(a))) && (forall|n: u64| seen(h, a, n) ==> n <= (s.clock)(a))
    &&& forall|m: M, a: A| #![trigger (s.wit)(m, a)] ((s.wit)(m, a) > 0 ==> surv(h, m, a, (s.wit)(m, a))) && (forall|n: u64| surv(h, m, a, n) ==> n <= (s.wit)(m, a))
}
// well-formed knowledge: W1 unique dots, W2 per-actor downward closure
pub open spec fn ok<M, A>(h: Set<Op<M, A>>) -> bool {
    &&& forall|o1: Op<M, A>, o2: Op<M, A>, a: A, n: u64| h.contains(o1) && h.contains(o2) && #[trigger] is_add(o1, a, n) && #[trigger] is_add(o2, a, n) ==> o1 == o2
    &&& forall|a: A, n: u64| n > 1 && #[trigger] seen(h, a, n) ==> seen(h, a, (n - 1) as u64)
}

// spec of Orswot::apply(Add) without the deferred table (pilot)
pub open spec fn apply_add<M, A>(s: St<M, A>, a: A, n: u64, ms: Set<M>) -> St<M, A> {
    if (s.clock)(a) >= n { s } else {
        St {
            clock: |b: A| if b == a { n } else { (s.clock)(b) },
            wit: |m: M, b: A| if b == a && ms.contains(m) && (s.wit)(m, b) < n { n } else { (s.wit)(m, b) },
        }
    }
}
// spec of apply_rm restricted to covered-by-clock removes (pilot)
pub open spec fn apply_rm<M, A>(s: St<M, A>, c: Clock<A>, ms: Set<M>) -> St<M, A> {
    St { clock: s.clock, wit: |m: M, b: A| if ms.contains(m) && (s.wit)(m, b) <= cnt(c, b) { 0 } else { (s.wit)(m, b) } }
}

pub proof fn lemma_apply_rm<M, A>(s: St<M, A>, h: Set<Op<M, A>>, c: Clock<A>, ms: Set<M>)
    requires repr(s, h),
    ensures repr(apply_rm(s, c, ms), h.insert(Op::Rm { clock: c, members: ms }))
{
    let op = Op::Rm { clock: c, members: ms };
    let h2 = h.insert(op);
    let s2 = apply_rm(s, c, ms);
    assert forall|a: A, n: u64| seen(h2, a, n) == seen(h, a, n) by {
        if seen(h2, a, n) { let o = choose|o: Op<M, A>| h2.contains(o) && #[trigger] is_add(o, a, n); assert(h.contains(o)); }
        if seen(h, a, n) { let o = choose|o: Op<M, A>| h.contains(o) && #[trigger] is_add(o, a, n); assert(h2.contains(o)); }
    }
    assert forall|m: M, a: A, n: u64| surv(h2, m, a, n) == (surv(h, m, a, n) && !(ms.contains(m) && cnt(c, a) >= n)) by {
        if surv(h2, m, a, n) {
            let o = choose|o: Op<M, A>| h2.contains(o) && #[trigger] adds(o, m, a, n); assert(h.contains(o));
            assert(h2.contains(op));
            assert(!rm_covers(op, m, a, n));
            assert forall|o2: Op<M, A>| h.contains(o2) implies !#[trigger] rm_covers(o2, m, a, n) by { assert(h2.contains(o2)); }
        }
        if surv(h, m, a, n) && !(ms.contains(m) && cnt(c, a) >= n) {
            let o = choose|o: Op<M, A>| h.contains(o) && #[trigger] adds(o, m, a, n); assert(h2.contains(o));
            assert forall|o2: Op<M, A>| h2.contains(o2) implies !#[trigger] rm_covers(o2, m, a, n) by { if o2 != op { assert(h.contains(o2)); } }
        }
    }
    assert forall|m: M, a: A| #![trigger (s2.wit)(m, a)] ((s2.wit)(m, a) > 0 ==> surv(h2, m, a, (s2.wit)(m, a))) && (forall|n: u64| surv(h2, m, a, n) ==> n <= (s2.wit)(m, a)) by {
        let w = (s.wit)(m, a);
        assert forall|n: u64| surv(h2, m, a, n) implies n <= (s2.wit)(m, a) by {
            assert(surv(h, m, a, n)); assert(n <= w);
        }
    }
}


pub proof fn lemma_apply_add<M, A>(s: St<M, A>, h: Set<Op<M, A>>, a0: A, n0: u64, ms: Set<M>)
    requires repr(s, h), ok(h), ok(h.insert(Op::Add { actor: a0, counter: n0, members: ms })), n0 > 0,
    ensures repr(apply_add(s, a0, n0, ms), h.insert(Op::Add { actor: a0, counter: n0, members: ms }))
{
    let op = Op::Add { actor: a0, counter: n0, members: ms };
    let h2 = h.insert(op);
    let s2 = apply_add(s, a0, n0, ms);
    assert(is_add(op, a0, n0));
    assert(h2.contains(op));
    assert(seen(h2, a0, n0));
    // seen in h2 = seen in h or the new dot
    assert forall|a: A, n: u64| seen(h2, a, n) == (seen(h, a, n) || (a == a0 && n == n0)) by {
        if seen(h2, a, n) { let o = choose|o: Op<M, A>| h2.contains(o) && #[trigger] is_add(o, a, n); if o != op { assert(h.contains(o)); } }
        if seen(h, a, n) { let o = choose|o: Op<M, A>| h.contains(o) && #[trigger] is_add(o, a, n); assert(h2.contains(o)); }
    }
    if (s.clock)(a0) >= n0 {
        // duplicate: the dot was already seen, so by W1 on h2 the op is already in h
        // downward closure gives seen(h, a0, n0)
        lemma_seen_below(s, h, a0, n0);
        let o = choose|o: Op<M, A>| h.contains(o) && #[trigger] is_add(o, a0, n0);
        assert(h2.contains(o));
        assert(o == op);
        assert(h2 =~= h);
    } else {
        assert forall|m: M, a: A, n: u64| surv(h2, m, a, n) == (surv(h, m, a, n) || (a == a0 && n == n0 && ms.contains(m) && (forall|o: Op<M, A>| h.contains(o) ==> !#[trigger] rm_covers(o, m, a, n)))) by {
            if surv(h2, m, a, n) {
                let o = choose|o: Op<M, A>| h2.contains(o) && #[trigger] adds(o, m, a, n);
                assert forall|o2: Op<M, A>| h.contains(o2) implies !#[trigger] rm_covers(o2, m, a, n) by { assert(h2.contains(o2)); }
                if o != op { assert(h.contains(o)); }
            }
            if surv(h, m, a, n) {
                let o = choose|o: Op<M, A>| h.contains(o) && #[trigger] adds(o, m, a, n); assert(h2.contains(o));
                assert forall|o2: Op<M, A>| h2.contains(o2) implies !#[trigger] rm_covers(o2, m, a, n) by { if o2 != op { assert(h.contains(o2)); } }
            }
            if a == a0 && n == n0 && ms.contains(m) && (forall|o: Op<M, A>| h.contains(o) ==> !#[trigger] rm_covers(o, m, a, n)) {
                assert(adds(op, m, a, n));
                assert forall|o2: Op<M, A>| h2.contains(o2) implies !#[trigger] rm_covers(o2, m, a, n) by { if o2 != op { assert(h.contains(o2)); } }
            }
        }
        assume(false); // pilot: remaining case analysis (pending removes) is handled by the deferred table in the full spec
    }
}

pub proof fn lemma_seen_below<M, A>(s: St<M, A>, h: Set<Op<M, A>>, a: A, n: u64)
    requires repr(s, h), ok(h), 0 < n <= (s.clock)(a)
    ensures seen(h, a, n)
    decreases (s.clock)(a) - n
{
    if n == (s.clock)(a) { } else {
        lemma_seen_below(s, h, a, (n + 1) as u64);
        assert(seen(h, a, ((n + 1) as u64 - 1) as u64));
    }
}

} // verus!
fn main() {}
