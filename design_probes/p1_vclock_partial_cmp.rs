use vstd::prelude::*;
use std::collections::BTreeMap;
use core::cmp::Ordering;
use vstd::std_specs::iter::IteratorSpec;
use vstd::std_specs::btree::key_obeys_cmp_spec;
verus! {

// ---- shim (trusted): UFCS form of Iterator::all
#[verifier::external_body]
pub fn shim_all<I: Iterator, F: FnMut(I::Item) -> bool>(it: I, f: F) -> (r: bool)
    requires
        it.obeys_prophetic_iter_laws(),
        forall|i: int| 0 <= i < it.remaining().len() ==> call_requires(f, (#[trigger] it.remaining()[i],)),
    ensures
        r ==> forall|i: int| 0 <= i < it.remaining().len() ==> call_ensures(f, (#[trigger] it.remaining()[i],), true),
        !r ==> exists|i: int| 0 <= i < it.remaining().len() && call_ensures(f, (#[trigger] it.remaining()[i],), false),
{
    let mut it = it;
    it.all(f)
}

pub struct VClock<A: Ord> {
    pub dots: BTreeMap<A, u64>,
}

pub open spec fn cnt<A>(m: Map<A,u64>, a: A) -> u64 { if m.contains_key(a) { m[a] } else { 0 } }
pub open spec fn vle<A>(x: Map<A,u64>, y: Map<A,u64>) -> bool { forall|a: A| cnt(x, a) <= cnt(y, a) }

impl<A: Ord> vstd::std_specs::cmp::PartialEqSpecImpl for VClock<A> {
    open spec fn obeys_eq_spec() -> bool { true }
    open spec fn eq_spec(&self, other: &Self) -> bool { self@ == other@ }
}
impl<A: Ord> PartialEq for VClock<A> {
    #[verifier::external_body]
    fn eq(&self, other: &Self) -> (r: bool)
    { self.dots == other.dots }
}


pub open spec fn mwf<A>(m: Map<A,u64>) -> bool { forall|a: A| m.contains_key(a) ==> m[a] > 0 }
pub proof fn lemma_vle_eq<A>(x: Map<A,u64>, y: Map<A,u64>)
    requires mwf(x), mwf(y)
    ensures (vle(x,y) && vle(y,x)) <==> x == y
{
    if vle(x,y) && vle(y,x) {
        assert forall|a: A| x.contains_key(a) == y.contains_key(a) && (x.contains_key(a) ==> x[a] == y[a]) by {
            assert(cnt(x,a) <= cnt(y,a) && cnt(y,a) <= cnt(x,a));
        }
        assert(x =~= y);
    }
}
pub open spec fn seq_covers<A>(s: Seq<(&A,&u64)>, m: Map<A,u64>) -> bool {
    (forall|i: int| 0 <= i < s.len() ==> m.contains_pair(*(#[trigger] s[i]).0, *s[i].1))
    && (forall|k: A| m.contains_key(k) ==> exists|i: int| 0 <= i < s.len() && *(#[trigger] s[i]).0 == k)
}
pub proof fn lemma_all_ge<A>(s: Seq<(&A,&u64)>, m: Map<A,u64>, big: Map<A,u64>)
    requires seq_covers(s, m)
    ensures vle(m, big) <==> (forall|i: int| 0 <= i < s.len() ==> cnt(big, *(#[trigger] s[i]).0) >= *s[i].1)
{
    if forall|i: int| 0 <= i < s.len() ==> cnt(big, *(#[trigger] s[i]).0) >= *s[i].1 {
        assert forall|a: A| cnt(m, a) <= cnt(big, a) by {
            if m.contains_key(a) {
                let i = choose|i: int| 0 <= i < s.len() && *(#[trigger] s[i]).0 == a;
                assert(m.contains_pair(*s[i].0, *s[i].1));
            }
        }
    }
    if vle(m, big) {
        assert forall|i: int| 0 <= i < s.len() implies cnt(big, *(#[trigger] s[i]).0) >= *s[i].1 by {
            assert(m.contains_pair(*s[i].0, *s[i].1));
            assert(cnt(m, *s[i].0) <= cnt(big, *s[i].0));
        }
    }
}
impl<A: Ord> VClock<A> {
    pub open spec fn view(&self) -> Map<A, u64> { self.dots@ }
    pub open spec fn wf(&self) -> bool { forall|a: A| self@.contains_key(a) ==> self@[a] > 0 }

    pub fn get(&self, actor: &A) -> (r: u64)
        requires key_obeys_cmp_spec::<A>(),
        ensures r == cnt(self@, *actor)
    {
        self.dots.get(actor).cloned().unwrap_or(0)
    }

    fn partial_cmp(&self, other: &VClock<A>) -> (r: Option<Ordering>) 
        requires key_obeys_cmp_spec::<A>(), self.wf(), other.wf(),
        ensures 
           r == Some(Ordering::Equal) <==> (vle(self@, other@) && vle(other@, self@)),
           r == Some(Ordering::Greater) <==> (vle(other@, self@) && !vle(self@, other@)),
           r == Some(Ordering::Less) <==> (vle(self@, other@) && !vle(other@, self@)),
    {
        proof {
            lemma_vle_eq(self@, other@);
        }
        if self == other {
            Some(Ordering::Equal)
        } else if shim_all(other.dots.iter(), |p: (&A, &u64)| -> (b: bool) requires key_obeys_cmp_spec::<A>() ensures b == (cnt(self@, *p.0) >= *p.1) { let (w, c) = p; self.get(w) >= *c }) {
            proof { assert forall|a: A| cnt(other@, a) <= cnt(self@, a) by { if other@.contains_key(a) {} } }
            Some(Ordering::Greater)
        } else if shim_all(self.dots.iter(), |p: (&A, &u64)| -> (b: bool) requires key_obeys_cmp_spec::<A>() ensures b == (cnt(other@, *p.0) >= *p.1) { let (w, c) = p; other.get(w) >= *c }) {
            proof { assert forall|a: A| cnt(self@, a) <= cnt(other@, a) by { if self@.contains_key(a) {} } }
            Some(Ordering::Less)
        } else {
            None
        }
    }
}

} // verus!
fn main() {}
