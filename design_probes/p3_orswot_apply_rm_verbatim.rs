#![feature(allocator_api)]
use vstd::prelude::*;
use std::collections::{BTreeMap, HashMap, HashSet};
use core::cmp::Ordering;
use std::hash::Hash;
use vstd::std_specs::iter::IteratorSpec;
use vstd::std_specs::btree::key_obeys_cmp_spec;
use vstd::std_specs::hash::obeys_key_model;
verus! {

#[derive(PartialEq, Eq, Hash)]
pub struct VClock<A: Ord> {
    pub dots: BTreeMap<A, u64>,
}
impl<A: Ord> View for VClock<A> { type V = Map<A,u64>; open spec fn view(&self) -> Map<A, u64> { self.dots@ } }

pub open spec fn cnt<A>(m: Map<A,u64>, a: A) -> u64 { if m.contains_key(a) { m[a] } else { 0 } }
pub open spec fn vle<A>(x: Map<A,u64>, y: Map<A,u64>) -> bool { forall|a: A| cnt(x, a) <= cnt(y, a) }
pub open spec fn rr<A>(x: Map<A,u64>, c: Map<A,u64>) -> Map<A,u64> { x.restrict(x.dom().filter(|a: A| x[a] > cnt(c,a))) }

impl<A: Ord> VClock<A> {
    #[verifier::external_body]
    fn reset_remove(&mut self, other: &Self) 
        ensures final(self)@ == rr(old(self)@, other@)
    { unimplemented!() }
    #[verifier::external_body]
    pub fn is_empty(&self) -> (r: bool) ensures r == (self@.len() == 0) { unimplemented!() }
    #[verifier::external_body]
    fn partial_cmp(&self, other: &VClock<A>) -> (r: Option<Ordering>) 
        ensures 
           r == Some(Ordering::Equal) <==> (vle(self@, other@) && vle(other@, self@)),
           r == Some(Ordering::Greater) <==> (vle(other@, self@) && !vle(self@, other@)),
           r == Some(Ordering::Less) <==> (vle(self@, other@) && !vle(other@, self@)),
    { unimplemented!() }
}


pub assume_specification<'a, K, V, S, A, Q> [std::collections::HashMap::<K, V, S, A>::get_mut] (m: &'a mut std::collections::HashMap<K, V, S, A>, k: &Q) -> (r: std::option::Option<&'a mut V>)
   where
   A: std::alloc::Allocator,
   K: std::cmp::Eq + std::hash::Hash + std::borrow::Borrow<Q>,
   Q: std::marker::MetaSized + std::hash::Hash + std::cmp::Eq + ?Sized,
   S: std::hash::BuildHasher,
   ensures
     obeys_key_model::<K>() && vstd::std_specs::hash::builds_valid_hashers::<S>() ==> match r {
        Some(v) => vstd::std_specs::hash::contains_borrowed_key(old(m)@, k) && vstd::std_specs::hash::maps_borrowed_key_to_value(old(m)@, k, *v)
                    && final(m)@.dom() == old(m)@.dom()
                    && (forall|kk: K| old(m)@.contains_key(kk) && !vstd::std_specs::hash::maps_borrowed_key_to_value(old(m)@, k, old(m)@[kk]) ==> final(m)@[kk] == old(m)@[kk])
                    && vstd::std_specs::hash::maps_borrowed_key_to_value(final(m)@, k, *final(v)),
        None => !vstd::std_specs::hash::contains_borrowed_key(old(m)@, k) && final(m)@ == old(m)@,
     };

pub assume_specification<T, S, A, I> [<std::collections::HashSet<T, S, A> as std::iter::Extend<T>>::extend] (s: &mut std::collections::HashSet<T, S, A>, it: I)
   where
   A: std::alloc::Allocator,
   I: std::iter::IntoIterator<Item = T>,
   S: std::hash::BuildHasher,
   T: std::cmp::Eq + std::hash::Hash,
;

pub struct Orswot<M: Hash + Eq, A: Ord + Hash> {
    pub clock: VClock<A>,
    pub entries: HashMap<M, VClock<A>>,
    pub deferred: HashMap<VClock<A>, HashSet<M>>,
}

impl<M: Hash + Clone + Eq, A: Ord + Hash + Clone> Orswot<M, A> {
    fn apply_rm(&mut self, members: HashSet<M>, clock: VClock<A>) 
       requires obeys_key_model::<M>(), obeys_key_model::<VClock<A>>(),
    {
        for member in members.iter() {
            if let Some(member_clock) = self.entries.get_mut(member) {
                member_clock.reset_remove(&clock);
                if member_clock.is_empty() {
                    self.entries.remove(member);
                }
            }
        }

        match clock.partial_cmp(&self.clock) {
            None | Some(Ordering::Greater) => {
                if let Some(existing_deferred) = self.deferred.get_mut(&clock) {
                    existing_deferred.extend(members);
                } else {
                    self.deferred.insert(clock, members);
                }
            }
            _ => { /* we've already seen this remove */ }
        }
    }
}

} // verus!
fn main() {}
