use vstd::prelude::*;
use core::cmp::Ordering;
use vstd::std_specs::cmp::*;
verus! {
pub struct P { pub a: u64, pub b: u64 }
pub open spec fn ple(x: P, y: P) -> bool { x.a <= y.a && x.b <= y.b }
impl PartialEqSpecImpl for P {
    open spec fn obeys_eq_spec() -> bool { true }
    open spec fn eq_spec(&self, o: &P) -> bool { self.a == o.a && self.b == o.b }
}
impl PartialEq for P { fn eq(&self, o: &P) -> bool { self.a == o.a && self.b == o.b } }
impl PartialOrdSpecImpl for P {
    open spec fn obeys_partial_cmp_spec() -> bool { true }
    open spec fn partial_cmp_spec(&self, o: &P) -> Option<Ordering> {
        if ple(*self,*o) && ple(*o,*self) { Some(Ordering::Equal) } else if ple(*o,*self) { Some(Ordering::Greater) } else if ple(*self,*o) { Some(Ordering::Less) } else { None }
    }
}
impl PartialOrd for P {
    fn partial_cmp(&self, o: &P) -> Option<Ordering> {
        if self == o { Some(Ordering::Equal) }
        else if self.a >= o.a && self.b >= o.b { Some(Ordering::Greater) }
        else if self.a <= o.a && self.b <= o.b { Some(Ordering::Less) }
        else { None }
    }
}
fn t(x: &P, y: &P) -> (r: bool) ensures r == ple(*y, *x) {
    x >= y
}
fn t2(x: P, y: P) -> (r: bool) ensures r == (ple(y, x) && !ple(x,y)) {
    x > y
}
}
fn main() {}
