use vstd::prelude::*;
use vstd::map::Map as SMap;
use std::collections::BTreeMap;
use core::cmp;
use core::mem;
use vstd::std_specs::btree::key_obeys_cmp_spec;
verus! {

pub assume_specification<T: Default>[ core::mem::take::<T> ](dest: &mut T) -> (r: T)
    ensures r == *old(dest), T::default.ensures((), *final(dest));

pub assume_specification<T: Ord>[ core::cmp::min::<T> ](a: T, b: T) -> (r: T)
    ensures vstd::std_specs::cmp::OrdSpec::cmp_spec(&a, &b) == core::cmp::Ordering::Greater ==> r == b,
            vstd::std_specs::cmp::OrdSpec::cmp_spec(&a, &b) != core::cmp::Ordering::Greater ==> r == a;

// trusted chain shim: body is exactly the source chain  X.into_iter().filter_map(F).collect()
#[verifier::external_body]
pub fn shim_btreemap_filter_map_collect<K: Ord, V, F: FnMut((K, V)) -> Option<(K, V)>>(src: BTreeMap<K, V>, f: F) -> (r: BTreeMap<K, V>)
    requires
        key_obeys_cmp_spec::<K>(),
        forall|k: K| src@.contains_key(k) ==> call_requires(f, ((k, #[trigger] src@[k]),)),
        // f is key-preserving and functional on the source pairs
        forall|k: K, o: Option<(K, V)>| src@.contains_key(k) && #[trigger] call_ensures(f, ((k, src@[k]),), o) ==> (o matches Some(p) ==> p.0 == k),
        forall|k: K, o1: Option<(K, V)>, o2: Option<(K, V)>| src@.contains_key(k) && #[trigger] call_ensures(f, ((k, src@[k]),), o1) && #[trigger] call_ensures(f, ((k, src@[k]),), o2) ==> o1 == o2,
    ensures
        forall|k: K| #[trigger] r@.contains_key(k) ==> src@.contains_key(k) && call_ensures(f, ((k, src@[k]),), Some((k, r@[k]))),
        forall|k: K| #[trigger] src@.contains_key(k) && !r@.contains_key(k) ==> call_ensures(f, ((k, src@[k]),), None),
{
    src.into_iter().filter_map(f).collect()
}

pub struct VClock<A: Ord> {
    pub dots: BTreeMap<A, u64>,
}
pub open spec fn cnt<A>(m: SMap<A,u64>, a: A) -> u64 { if m.contains_key(a) { m[a] } else { 0 } }
pub open spec fn min64(a: u64, b: u64) -> u64 { if a <= b { a } else { b } }

impl<A: Ord> VClock<A> {
    pub open spec fn view(&self) -> SMap<A, u64> { self.dots@ }
    pub fn get(&self, actor: &A) -> (r: u64)
        requires key_obeys_cmp_spec::<A>(),
        ensures r == cnt(self@, *actor)
    {
        self.dots.get(actor).cloned().unwrap_or(0)
    }

    pub fn glb(&mut self, other: &Self) 
        requires key_obeys_cmp_spec::<A>(),
        ensures forall|a: A| cnt(final(self)@, a) == min64(cnt(old(self)@, a), cnt(other@, a)),
                forall|a: A| final(self)@.contains_key(a) ==> final(self)@[a] > 0,
    {
        self.dots = shim_btreemap_filter_map_collect(mem::take(&mut self.dots),
            |p: (A, u64)| -> (o: Option<(A, u64)>) 
                requires key_obeys_cmp_spec::<A>()
                ensures o == (if min64(p.1, cnt(other@, p.0)) == 0 { None } else { Some((p.0, min64(p.1, cnt(other@, p.0)))) })
            { let (actor, count) = p;
                let min_count = cmp::min(count, other.get(&actor));
                match min_count {
                    0 => None,
                    _ => Some((actor, min_count)),
                }
            });
        proof {
            assert forall|a: A| cnt(self@, a) == min64(cnt(old(self)@, a), cnt(other@, a)) by {
                if old(self)@.contains_key(a) {
                    if self@.contains_key(a) {} else {}
                } else {
                    if self@.contains_key(a) {}
                }
            }
        }
    }
}
} // verus!
fn main() {}
