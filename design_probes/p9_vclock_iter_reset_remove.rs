use vstd::prelude::*;
use vstd::map::Map as SMap;
use std::collections::BTreeMap;
use vstd::std_specs::iter::IteratorSpec;
use vstd::std_specs::btree::key_obeys_cmp_spec;
verus!{
pub struct Dot<A> { pub actor: A, pub counter: u64 }
pub struct VClock<A: Ord> { pub dots: BTreeMap<A,u64> }
pub open spec fn cnt<A>(m: SMap<A, u64>, a: A) -> u64 { if m.contains_key(a) { m[a] } else { 0 } }
pub open spec fn vsub<A>(x: SMap<A, u64>, c: SMap<A, u64>) -> SMap<A, u64> {
    x.restrict(x.dom().filter(|a: A| x[a] > cnt(c, a)))
}
pub open spec fn nz<A>(m: SMap<A, u64>) -> bool {
    forall|a: A| m.contains_key(a) ==> #[trigger] m[a] > 0
}

/// `rem` (what a dot iterator will yield) enumerates entries of clock `m`, each actor at most once;
/// if `full`, every entry of `m` is enumerated.
pub open spec fn dots_of<A>(rem: Seq<Dot<&A>>, m: SMap<A, u64>, full: bool) -> bool {
    &&& forall|i: int| 0 <= i < rem.len() ==> m.contains_key(*(#[trigger] rem[i]).actor) && m[*rem[i].actor] == rem[i].counter
    &&& forall|i: int, j: int| 0 <= i < j < rem.len() ==> *(#[trigger] rem[i]).actor != *(#[trigger] rem[j]).actor
    &&& full ==> forall|a: A| m.contains_key(a) ==> exists|i: int| 0 <= i < rem.len() && *(#[trigger] rem[i]).actor == a
}

impl<A: Ord> VClock<A> {
    pub open spec fn view(&self) -> SMap<A,u64> { self.dots@ }
    pub fn get(&self, actor: &A) -> (r: u64)
      ensures key_obeys_cmp_spec::<A>() ==> r == cnt(self@, *actor),
    {
        self.dots.get(actor).cloned().unwrap_or(0)
    }
    #[verifier::external_body]
    pub fn iter(&self) -> (r: impl Iterator<Item = Dot<&A>>)
      ensures r.obeys_prophetic_iter_laws(), r.decrease() is Some,
        key_obeys_cmp_spec::<A>() ==> dots_of(r.remaining(), self@, r.will_return_none()),
    {
        self.dots.iter().map(|(a, c)| Dot {
            actor: a,
            counter: *c,
        })
    }

    fn reset_remove(&mut self, other: &Self)
        requires nz(old(self)@),
        ensures key_obeys_cmp_spec::<A>() ==> final(self)@ == vsub(old(self)@, other@)
    {
        for Dot { actor, counter } in it: other.iter() 
          invariant 
             it.iter.obeys_prophetic_iter_laws(), it.iter.decrease() is Some,
             key_obeys_cmp_spec::<A>() ==> dots_of(it.seq(), other@, it.snapshot@.will_return_none()),
             key_obeys_cmp_spec::<A>() ==> forall|a: A| #![trigger self@.contains_key(a)] self@.contains_key(a) <==> (old(self)@.contains_key(a) && !(exists|j: int| 0 <= j < it.index@ && *(#[trigger] it.seq()[j]).actor == a && it.seq()[j].counter >= old(self)@[a])),
             key_obeys_cmp_spec::<A>() ==> forall|a: A| self@.contains_key(a) ==> #[trigger] self@[a] == old(self)@[a],
        {
            let ghost pre = self@;
            if counter >= self.get(actor) {
                self.dots.remove(actor);
            }
            proof {
                if key_obeys_cmp_spec::<A>() {
                    let i = it.index@;
                    let sq = it.seq();
                    assert(sq[i].actor == actor && sq[i].counter == counter);
                    assert(pre.contains_key(*actor) ==> pre[*actor] == old(self)@[*actor]);
                    assert forall|a: A| #![trigger self@.contains_key(a)] self@.contains_key(a) <==> (old(self)@.contains_key(a) && !(exists|j: int| 0 <= j < i + 1 && *(#[trigger] sq[j]).actor == a && sq[j].counter >= old(self)@[a])) by {
                        if a == *actor {
                            if old(self)@.contains_key(a) {
                                // no earlier j has this actor (distinctness)
                                assert(forall|j: int| 0 <= j < i ==> *(#[trigger] sq[j]).actor != a);
                                assert(pre.contains_key(a));
                            }
                        } else {
                            assert(self@.contains_key(a) == pre.contains_key(a));
                            assert(*sq[i].actor != a);
                        }
                    }
                }
            }
        }
        proof {
            if key_obeys_cmp_spec::<A>() {
                assert(self@ =~= vsub(old(self)@, other@));
            }
        }
    }
}
}
fn main(){}
