#!/usr/bin/env python3
"""developer aid: re-list the obligations of every props/*.json from a run on the current (unchanged) tree.
Refuses to write when any listed function fails."""
import json, subprocess, glob, sys, os
ROOT = os.path.dirname(os.path.dirname(os.path.abspath(__file__)))
ids = sys.argv[1:] or [os.path.basename(p)[:-5] for p in sorted(glob.glob(os.path.join(ROOT, 'props', '*.json')))]
for pid in ids:
    p = os.path.join(ROOT, 'props', pid + '.json')
    d = json.load(open(p))
    out = subprocess.run(['python3', os.path.join(ROOT, 'tools', 'check.py'), pid, '--list-obligations'], capture_output=True, text=True).stdout
    rows = [l.split() for l in out.split('\n') if l.strip() and l.split()[-1] in ('True', 'False') and len(l.split()) == 2]
    bad = [r[0] for r in rows if r[1] == 'False']
    if bad or not rows:
        print(pid, 'NOT refreshed; failing/none:', bad, out[-800:]); continue
    old = set(d['obligations']); new = [r[0] for r in rows]
    d['obligations'] = new
    json.dump(d, open(p, 'w'), indent=1)
    print(pid, len(new), 'added', sorted(set(new) - old)[:6], 'removed', sorted(old - set(new))[:6])
