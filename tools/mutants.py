#!/usr/bin/env python3
"""developer aid (not a registered check): systematic mutants of the functions under contract.

For every extracted function (the //@extract regions of the templates) generate one-token / one-statement mutants of
the CURRENT /repo source, apply each to a scratch copy of the repository (never to /repo), make sure it still compiles
(`cargo check`), run the quick check of the property that owns the file against the copy (VERIF_REPO) and record the
exit code.  Survivors (exit 0) point at weak contracts or at equivalent mutants and are listed for review.

usage: mutants.py <worker-id> <file> [<file> ...]      e.g.  mutants.py 1 src/vclock.rs src/dot.rs
Scratch copies live under /tmp/mrepo_<worker-id> and are removed at the end.  Results: /verif/.build/mutants/<file>.jsonl
"""
import json, os, re, shutil, subprocess, sys, time

ROOT = "/verif"
OWNER = {"src/vclock.rs": "C10", "src/dot.rs": "C10", "src/gcounter.rs": "C11", "src/pncounter.rs": "C11", "src/lwwreg.rs": "C11",
         "src/maxreg.rs": "C11", "src/minreg.rs": "C11", "src/gset.rs": "C11", "src/orswot.rs": "C04", "src/mvreg.rs": "C06",
         "src/map.rs": "C05", "src/ctx.rs": "C07", "src/identifier.rs": "C14", "src/list.rs": "C12", "src/glist.rs": "C13",
         "src/merkle_reg.rs": "C15"}
# a second property whose check sees the file through other contracts (used when the owner lets a mutant survive)
SECOND = {"src/map.rs": "C17", "src/orswot.rs": "C18", "src/vclock.rs": "C16", "src/list.rs": "C13", "src/mvreg.rs": "C18",
          "src/lwwreg.rs": "C16", "src/merkle_reg.rs": "C16", "src/ctx.rs": "C04", "src/gcounter.rs": "C18", "src/pncounter.rs": "C18"}

OPS2 = [(r"\bself\.", "other."), (r"\bother\.", "self."), (r"\b0\b", "1"), (r"\b1\b", "0"), (r"\)\?;", ").ok();"), 
        (r"\bour_entry\b", "entry"), (r"\bentry\b", "our_entry"), (r"&mut ", "&mut *&mut "), (r"\.glb\(", ".merge("), (r"\.dominating_vclock\(", ".clone_without("),
        (r"\bSome\(([a-z_]+)\)", "None"), (r"\.unwrap_or_default\(\)", ".unwrap()"), (r"\.keys\(\)", ".values()"),
        (r"\.is_some\(\)", ".is_none()"), (r"\.is_none\(\)", ".is_some()"), (r"\.is_ok\(\)", ".is_err()"), (r"\.any\(", ".all("), (r"\.all\(", ".any(")]
OPS = [(r" < ", " <= "), (r" <= ", " < "), (r" > ", " >= "), (r" >= ", " > "), (r" == ", " != "), (r" != ", " == "),
       (r" && ", " || "), (r" \|\| ", " && "), (r" \+ 1\b", " + 2"), (r"saturating_add\(1\)", "saturating_add(2)"),
       (r"\bif !", "if "), (r"\.is_empty\(\)", ".is_empty() == false"), (r"\bSome\(Ordering::Less\)", "Some(Ordering::Greater)"),
       (r"\bOrdering::Greater\b", "Ordering::Less"), (r"\.min\(", ".max("), (r"\bcontinue;", "break;"),
       (r"\btrue\b", "false"), (r"\bfalse\b", "true"), (r"\bOrdering::Less\b", "Ordering::Greater"), (r"\bOrdering::Equal\b", "Ordering::Less"),
       (r" - 1\b", " - 2"), (r"\.0\b", ".1"), (r"\bSome\(Ordering::Greater\)", "None"), (r" >= ", " == "), (r" <= ", " == "), (r" > ", " != "), (r" < ", " != ")]


def item_ranges(rel):
    """line ranges of the extracted fn items of file `rel` (from the weaver's report on the current tree)"""
    sys.path.insert(0, os.path.join(ROOT, "tools"))
    import weave as W
    files = json.load(open(os.path.join(ROOT, "props", "C01.json")))["unit"]
    rep = W.weave_unit("/repo", os.path.join(ROOT, "verus", "src"), files, "/tmp/mutants_unit_%d.rs" % os.getpid(), None)
    os.remove("/tmp/mutants_unit_%d.rs" % os.getpid())
    return [(it["item"], it["lines"][0], it["lines"][1]) for it in rep["items"] if it["file"] == rel and it["kind"] == "fn" and it["lines"][0] > 0]


def harmless_of(rel):
    """behaviour-preserving edits (MUT_SET=H): every `let`-bound local renamed throughout its function; `a < b` written as `b > a`.
    Expected verdict: exit 0 (or 2), never 1."""
    src = open("/repo/" + rel).read().split("\n")
    out = []
    for item, lo, hi in item_ranges(rel):
        body = src[lo - 1:hi]
        names = []
        for l in body:
            m = re.match(r"\s*let (?:mut )?([a-z_][a-z0-9_]*)\b\s*(?::|=)", l.split("//")[0])
            if m and m.group(1) not in names and m.group(1) != "_":
                names.append(m.group(1))
        for nm in names:
            new = [re.sub(r"(?<![A-Za-z0-9_.])%s(?![A-Za-z0-9_])" % re.escape(nm), nm + "_renamed", l) if not l.lstrip().startswith("//") else l for l in body]
            if new != body:
                out.append({"item": item, "line": lo, "kind": "rename local %s" % nm, "old": nm, "new": nm + "_renamed", "block": (lo, hi, new)})
        for k, l in enumerate(body):
            code = l.split("//")[0]
            m = re.search(r"\b([a-z_][a-z0-9_.]*(?:\(\))?) (<|>|<=|>=) ([a-z_&*][a-z0-9_.&*]*(?:\(\))?)(?=[ ){]|$)", code)
            if m and ln_ok(code):
                flip = {"<": ">", ">": "<", "<=": ">=", ">=": "<="}[m.group(2)]
                nl = l[:m.start()] + "%s %s %s" % (m.group(3), flip, m.group(1)) + l[m.end():]
                nb = list(body); nb[k] = nl
                out.append({"item": item, "line": lo + k, "kind": "flip comparison", "old": l.strip(), "new": nl.strip(), "block": (lo, hi, nb)})
    return out


def ln_ok(code):
    return "fn " not in code and "impl" not in code and "->" not in code and "::<" not in code


def mutants_of(rel):
    if os.environ.get("MUT_SET") == "H":
        return harmless_of(rel)
    src = open("/repo/" + rel).read().split("\n")
    out = []
    for item, lo, hi in item_ranges(rel):
        for ln in range(lo, hi + 1):
            line = src[ln - 1]
            code = line.split("//")[0]
            if not code.strip() or ln == lo and "fn " in code:
                continue
            for pat, rep in ([(r' \+= ', ' -= '), (r'\.saturating_add\(', '.wrapping_add('), (r'\.checked_sub\(1\)', '.checked_sub(0)'), (r'Ordering::Less => ', 'Ordering::Greater => ')] if os.environ.get('MUT_SET') == '3' else OPS2 if os.environ.get('MUT_SET') == '2' else OPS):
                for m in re.finditer(pat, code):
                    new = line[:m.start()] + rep + line[m.end():]
                    out.append({"item": item, "line": ln, "kind": "%s -> %s" % (pat.strip(), rep.strip()), "old": line.strip(), "new": new.strip(), "text": new})
            s = code.strip()
            if os.environ.get('MUT_SET') == '3':
                if s.endswith(';') and re.match(r'^[A-Za-z_][A-Za-z0-9_.\[\]*]* [-+|&]?= ', s) and not s.startswith('let '):
                    out.append({'item': item, 'line': ln, 'kind': 'delete assignment', 'old': s, 'new': '', 'text': ''})
                continue
            # statement deletion: a plain call statement
            if os.environ.get('MUT_SET') != '2' and s.endswith(";") and not s.startswith(("let ", "return", "use ", "//", "}", "break", "continue")) and "=" not in s.split("(")[0] and s.count("(") >= 1:
                out.append({"item": item, "line": ln, "kind": "delete statement", "old": s, "new": "", "text": ""})
    return out


def sh(cmd, cwd=None, env=None, timeout=1800):
    p = subprocess.run(cmd, cwd=cwd, env=env, capture_output=True, text=True, timeout=timeout)
    return p.returncode, p.stdout + p.stderr


def main():
    wid = sys.argv[1]
    files = sys.argv[2:]
    scratch = "/tmp/mrepo_%s" % wid
    shutil.rmtree(scratch, ignore_errors=True)
    sh(["git", "clone", "-q", "/repo", scratch])
    os.makedirs(os.path.join(ROOT, ".build", "mutants"), exist_ok=True)
    env = dict(os.environ)
    env.update({"CARGO_NET_OFFLINE": "true", "VERIF_REPO": scratch, "CARGO_TARGET_DIR": "/tmp/mtarget_%s" % wid, "VERIF_WD_SUFFIX": "_w%s" % wid})
    for rel in files:
        outp = os.path.join(ROOT, ".build", "mutants", rel.replace("/", "_") + os.environ.get("MUT_SET", "") + os.environ.get("MUT_TAG", os.environ.get("MUT_LINES", "")) + ".jsonl")
        done = set()
        if os.path.exists(outp):
            for l in open(outp):
                d = json.loads(l); done.add((d["line"], d["kind"], d["old"]))
        orig = open("/repo/" + rel).read()
        ms = mutants_of(rel)
        if os.environ.get("MUT_LINES"):
            if "," in os.environ["MUT_LINES"] or "-" not in os.environ["MUT_LINES"]:
                want_ = set(int(x) for x in os.environ["MUT_LINES"].split(",")); ms = [m for m in ms if m["line"] in want_]
            else:
                lo_, hi_ = map(int, os.environ["MUT_LINES"].split("-")); ms = [m for m in ms if lo_ <= m["line"] <= hi_]
        print("%s: %d mutants" % (rel, len(ms)), flush=True)
        for k, m in enumerate(ms):
            if (m["line"], m["kind"], m["old"]) in done:
                continue
            lines = orig.split("\n")
            if "block" in m:
                lo_, hi_, nb_ = m["block"]
                lines[lo_ - 1:hi_] = nb_
            else:
                lines[m["line"] - 1] = m["text"]
            open(os.path.join(scratch, rel), "w").write("\n".join(lines))
            rc, log = sh(["cargo", "check", "--offline", "--lib", "--quiet"], cwd=scratch, env=env, timeout=600)
            rec = {k2: m[k2] for k2 in ("item", "line", "kind", "old", "new")}
            if rc != 0:
                rec["result"] = "does-not-compile"
            else:
                t0 = time.time()
                pid = OWNER[rel]
                rc, log = sh([os.path.join(ROOT, "bin", "check"), pid], env=env, timeout=3000)
                rec["check"] = pid; rec["exit"] = rc; rec["wall_s"] = round(time.time() - t0, 1)
                v = [l for l in log.split("\n") if l.startswith(("VIOLATION", "UNDECIDED", "FAILED-OBLIGATION"))]
                rec["lines"] = [x[:200] for x in v[:3]]
                if rc == 0 and rel in SECOND and os.environ.get("MUT_SECOND"):
                    rc2, log2 = sh([os.path.join(ROOT, "bin", "check"), SECOND[rel]], env=env, timeout=3000)
                    rec["second_check"] = SECOND[rel]; rec["second_exit"] = rc2
                rec["result"] = {0: "SURVIVED", 1: "killed", 2: "undecided"}.get(rc if rec.get("second_exit", 0) == 0 or rc != 0 else rec["second_exit"], "exit %d" % rc)
                if rc == 0 and rec.get("second_exit") in (1, 2):
                    rec["result"] = {1: "killed", 2: "undecided"}[rec["second_exit"]] + " (by second check)"
            open(outp, "a").write(json.dumps(rec) + "\n")
            print("  [%d/%d] line %d %s: %s" % (k + 1, len(ms), m["line"], m["kind"], rec["result"]), flush=True)
        open(os.path.join(scratch, rel), "w").write(orig)
    shutil.rmtree(scratch, ignore_errors=True)
    shutil.rmtree("/tmp/mtarget_%s" % wid, ignore_errors=True)


if __name__ == "__main__":
    main()
