#!/usr/bin/env python3
"""Developer aid (not part of any check): print the spec of a vstd/std function from a Verus
`--log vir` dump, since vstd's source is not on disk.  usage: virspec.py crate.vir <substring>"""
import sys, re

def parse(s):
    i, n = 0, len(s)
    stack = [[]]
    while i < n:
        c = s[i]
        if c in ' \t\n\r': i += 1; continue
        if c == '(':
            stack.append([]); i += 1; continue
        if c == ')':
            x = stack.pop(); stack[-1].append(x); i += 1; continue
        if c == '"':
            j = i + 1
            while s[j] != '"':
                j += 2 if s[j] == '\\' else 1
            stack[-1].append(s[i:j+1]); i = j + 1; continue
        j = i
        while j < n and s[j] not in ' \t\n\r()': j += 1
        stack[-1].append(s[i:j]); i = j
    return stack[0]

def strip(x):
    if isinstance(x, list):
        if len(x) >= 3 and x[0] in ('@', '@@') and isinstance(x[1], str) and x[1].startswith('"'):
            return strip(x[2] if len(x) == 3 else x[2:])
        return [strip(y) for y in x]
    return x

def path(x):
    # (Fun :path a::b) / (Dt Path a::b)
    if isinstance(x, list):
        for k, y in enumerate(x):
            if y == ':path' and k + 1 < len(x): return x[k+1]
        if len(x) == 3 and x[0] == 'Dt': return x[2]
    return None

def kw(x, key):
    for k, y in enumerate(x):
        if y == key and k + 1 < len(x): return x[k+1]
    return None

def target(t):
    if isinstance(t, list):
        if t and t[0] == 'CallTarget':
            res = None
            for y in t:
                if isinstance(y, list) and y and y[0] == 'CallTargetKind' and ':resolved' in y:
                    res = kw(y, ':resolved')
            for y in t:
                if isinstance(y, list) and y and y[0] == 'Fun':
                    return str(res if isinstance(res, str) else (path(y) if isinstance(path(y), str) else r(res))).replace('vstd::std_specs::', '').replace('vstd::', '')
            return ' '.join(r(y) for y in t[1:])
        if t and t[0] == 'BuiltinSpecFun': return t[1]
    return r(t)

def r(x, d=0):
    if not isinstance(x, list): return x
    if not x: return '()'
    # typed expression [[">", Kind, ...], typ]
    if len(x) == 2 and isinstance(x[0], list) and x[0] and x[0][0] == '>':
        return r(x[0])
    if x[0] == '>':
        k = x[1]
        if k == 'Call':
            args = kw(x, ':args') or []
            return target(kw(x, ':target')) + '(' + ', '.join(r(a) for a in args) + ')'
        if k == 'ReadPlace': return r(x[2])
        if k in ('Var', 'VarLoc', 'VarAt'): return r(x[2])
        if k == 'Const':
            c = x[2]
            return str(c[-1]) if isinstance(c, list) else str(c)
        if k == 'Binary':
            op = x[2]
            o = op[-1] if isinstance(op, list) else op
            if isinstance(o, list): o = o[-1]
            return '(' + r(x[3]) + ' ' + str(o) + ' ' + r(x[4]) + ')'
        if k == 'Logical':
            o = x[2][-1]
            return '(' + r(x[3]) + ' ' + str(o) + ' ' + r(x[4]) + ')'
        if k == 'Unary':
            op = x[2]
            name = op[1] if isinstance(op, list) and len(op) > 1 else str(op)
            if name in ('Trigger',): return '#[t]' + r(x[3])
            return str(name) + '(' + r(x[3]) + ')'
        if k == 'UnaryOpr':
            return r(x[2]) + '(' + r(x[3]) + ')'
        if k == 'Quant':
            binders = ' '.join(str(b[1]) for b in x[3] if isinstance(b, list))
            return str(x[2][0]) + '|' + binders + '| ' + r(x[4])
        if k == 'Multi':
            ops = [o[-1][-1] if isinstance(o[-1], list) else o[-1] for o in x[2][2]]
            es = [r(e) for e in x[3]]
            out = es[0]
            for o, e in zip(ops, es[1:]): out += ' ' + str(o) + ' ' + e
            return '(' + out + ')'
        if k == 'If':
            return 'if ' + r(x[2]) + ' {' + r(x[3]) + '} else {' + (r(x[4]) if len(x) > 4 else '') + '}'
        if k == 'Block':
            return '{' + ' '.join(r(y) for y in x[2:]) + '}'
        if k == 'Ctor':
            return str(path(x[2]) or r(x[2])) + '::' + str(x[3]) + '{' + ', '.join(str(b[1]) + ': ' + r(b[2]) for b in x[4] if isinstance(b, list) and len(b) > 2) + '}'
        if k in ('Match',):
            return 'match ' + ' '.join(r(y) for y in x[2:])
        return '<' + str(k) + ' ' + ' '.join(r(y) for y in x[2:]) + '>'
    h = x[0]
    if h == 'Place':
        if x[1] == 'Local': return r(x[2])
        if x[1] == 'Temporary': return r(x[2])
        if x[1] == 'Field': return r(x[3]) + '.' + str(kw(x[2], ':field') if isinstance(x[2], list) else x[2])
        if x[1] == 'DerefMut' or x[1] == 'Deref': return '*' + r(x[2])
        return ' '.join(r(y) for y in x[1:])
    if h == 'VarIdent': return x[1].strip('"')
    if h == 'Fun': return path(x) or 'Fun?'
    if h == 'Typ': return ''
    if h == 'CallTargetAttrs': return ''
    if h in ('UnfinalizedReadKind', 'ReadKind'): return ''
    if h == 'Dt': return str(x[-1])
    if h == 'Param':
        return r(kw(x, ':name'))
    if h == 'UnaryOpr' or h == 'UnaryOp': return ' '.join(str(y) if not isinstance(y, list) else r(y) for y in x[1:])
    items = []
    skip = False
    for k, y in enumerate(x):
        if skip: skip = False; continue
        if y in (':typ', ':typs', ':impl_paths', ':autospec_usage', ':resolved_method', ':is_trait_default', ':post_args', ':erase'):
            skip = True; continue
        items.append(r(y, d+1))
    return '(' + ' '.join(i for i in items if i != '') + ')'

def main():
    s = open(sys.argv[1]).read()
    pat = sys.argv[2]
    # split top-level forms cheaply by scanning for '\n(@ ' at column 0
    starts = [m.start() for m in re.finditer(r'^\(@ ', s, re.M)]
    starts.append(len(s))
    for a, b in zip(starts, starts[1:]):
        blk = s[a:b]
        m = re.search(r'\(Function\s+:name \(Fun :path (\S+?)\)', blk[:600])
        if not m or pat not in m.group(1): continue
        t = strip(parse(blk))
        # find Function node
        def find(x):
            if isinstance(x, list):
                if x and x[0] == 'Function': return x
                for y in x:
                    z = find(y)
                    if z: return z
        f = find(t)
        print('=== ', m.group(1))
        keys = [':typ_params', ':params', ':ret', ':require', ':ensure', ':returns', ':body', ':mode', ':kind', ':decrease']
        for k, y in enumerate(f):
            if y in keys and k + 1 < len(f):
                v = f[k+1]
                if y in (':require', ':ensure') and isinstance(v, list):
                    def istyped(e): return isinstance(e, list) and len(e) == 2 and isinstance(e[0], list) and e[0] and e[0][0] == '>'
                    es = []
                    def flat(z):
                        if istyped(z): es.append(z)
                        elif isinstance(z, list):
                            for w in z: flat(w)
                    flat(v)
                    out = '\n       ' + '\n       '.join(r(e) for e in es)
                else:
                    out = r(v)
                print('  ', y, out[:int(sys.argv[3]) if len(sys.argv) > 3 else 2500])
main()
