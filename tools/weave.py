#!/usr/bin/env python3
"""vxtract/weave: build a Verus unit from the *current* /repo sources.

A unit is an ordered list of template files (verus/src/*.rs).  A template is Verus source text
in which every item that is taken from /repo is written between

    //@extract fn <src-file> "<impl key>" <fn-name>
    ...item text, annotations inside  /*@ ... @*/  or on  //@ ...  lines,
       exec tokens that Verus must not see (normalisations N1/N2) between /*@<*/ and /*@>*/ ...
    //@end

(also `//@extract struct <src-file> <Name>` and `enum`).  For each such region the weaver

  1. finds the item in the current /repo source (lexer + brace matching, tools/rustlex.py),
  2. compares the region's exec tokens (annotations erased, hidden tokens included) with the
     item's tokens.  Equal: the region is emitted with its annotations activated.
     Different (the source was edited since the annotations were written): the token-level diff
     is transplanted into the region, annotations stay attached to the surviving neighbours;
     a hunk that touches hidden (normalised) tokens cannot be transplanted -> ANCHOR-LOST,
  3. asserts (G1) that the exec tokens it emitted + the hidden ones are exactly the tokens of
     the /repo item, and records file, line span, token hash, normalisations, transplanted hunks.

Attributes (#[derive], #[serde], #[inline]) and doc comments of an item are dropped; this is the
only thing the extraction drops inside an item.  Everything outside //@extract regions is
specification text (spec fns, lemmas, assumed std specs) and is copied unchanged.
"""
import sys, os, re, json, hashlib, difflib, argparse
sys.path.insert(0, os.path.dirname(os.path.abspath(__file__)))
import rustlex
from rustlex import Tok


class WeaveError(Exception):
    pass


_repo_cache = {}


def repo_items(repo, rel):
    if rel not in _repo_cache:
        path = os.path.join(repo, rel)
        if not os.path.exists(path):
            raise WeaveError("source file missing: %s" % rel)
        toks = rustlex.lex(open(path).read())
        _repo_cache[rel] = (toks, rustlex.find_items(toks))
    return _repo_cache[rel]


def find_item(repo, rel, kind, key, name):
    toks, items = repo_items(repo, rel)
    cands = [it for it in items if it.kind == kind and it.name == name and (kind != "fn" or key in it.key.split("|") or it.key == key)]
    if not cands:
        raise WeaveError("ANCHOR-LOST item not found: %s %s \"%s\" %s" % (kind, rel, key, name))
    if len(cands) > 1:
        raise WeaveError("ANCHOR-LOST ambiguous item: %s %s \"%s\" %s (%d matches)" % (kind, rel, key, name, len(cands)))
    it = cands[0]
    body = toks[it.start:it.end]
    # drop attributes inside struct/enum bodies (#[serde(..)] on fields)
    if kind in ("struct", "enum"):
        out, i = [], 0
        while i < len(body):
            if body[i].text == "#" and i + 1 < len(body) and body[i + 1].text == "[":
                i = rustlex.match_close(body, i + 1) + 1
                continue
            out.append(body[i])
            i += 1
        body = out
    return it, body


def sha(tokens):
    return hashlib.sha256("\x1f".join(tokens).encode()).hexdigest()[:16]


def emit(elems):
    out = []
    for e in elems:
        if e.kind == "ins":
            out.append(e.pre if e.pre else " ")
            out.append(e.text)
            out.append(" ")
        elif not e.deleted:
            out.append(e.pre)
            out.append(e.text)
    return "".join(out)


FORCE_DEGRADE = set()   # fn names (last path segment) whose changed text Verus could not process: weave them as assumed


def weave_region(repo, header, lines, start_line, tmpl_name, report):
    try:
        m0 = re.match(r'//@extract\s+fn\s+(\S+)\s+"([^"]*)"\s+(\S+)\s*$', header)
        if m0 and m0.group(3) in FORCE_DEGRADE:
            probe = {'items': []}
            _weave_region(repo, header, lines, start_line, tmpl_name, probe)
            if probe['items'] and not probe['items'][-1].get('identical_to_annotated_baseline', True):
                raise WeaveError('ANCHOR-LOST (forced): the edited body of %s is outside the subset Verus accepts with the existing annotations' % m0.group(3))
        return _weave_region(repo, header, lines, start_line, tmpl_name, report)
    except WeaveError as e:
        m = re.match(r'//@extract\s+fn\s+(\S+)\s+"([^"]*)"\s+(\S+)\s*$', header)
        if not m or 'ANCHOR-LOST' not in str(e) or 'item not found' in str(e) or 'ambiguous' in str(e):
            raise
        rel, key, name = m.groups()
        # degrade: keep the annotated baseline text as an *assumed* (external_body) item so that the rest of the unit
        # still verifies; the obligation of this function is reported as undecided (never as discharged)
        elems = rustlex.lex("\n".join(lines), template=True)
        named = {}
        for el in elems:
            if el.kind == 'tok' and el.deleted and el.region and el.region[1]:
                named.setdefault(el.region[1], []).append(el.text)
        for el in elems:
            if el.kind == 'ins' and '$' in el.text:
                for nm, toks_ in named.items():
                    el.text = el.text.replace('$' + nm, ' '.join(toks_))
        typ = key.split(' for ')[-1] if key else ''
        stem = os.path.splitext(os.path.basename(rel))[0]
        report['items'].append({'item': '%s::%s%s' % (rel, (key + '::') if key else '', name), 'kind': 'fn', 'file': rel, 'lines': [0, 0], 'tokens': 0,
                                'token_sha': '', 'identical_to_annotated_baseline': False, 'normalisations': [], 'transplanted_hunks': [],
                                'template': '%s:%d' % (tmpl_name, start_line), 'anchor_lost': str(e),
                                'obligation': '::'.join(x for x in (stem, typ, name) if x)})
        # keep signature + contract, drop the body (it may use loop ghost state that does not exist in a stub).  The stub
        # stays an ordinary exec fn whose body is `assume(false); unreached()`: marking it external_body instead changes
        # the order in which Verus processes trait-impl axioms and made UNRELATED obligations fail (Identifier::cmp, met
        # in the build).  The obligation of the stubbed function is reported undecided, never discharged.
        depth, cut = 0, None
        for idx, el in enumerate(elems):
            if el.kind != 'tok' or el.deleted:
                continue
            if el.text in ('(', '['):
                depth += 1
            elif el.text in (')', ']'):
                depth -= 1
            elif el.text == '{' and depth == 0:
                cut = idx
                break
        head = elems[:cut] if cut is not None else elems
        sig = emit(head)
        tag = '// ---- ANCHOR LOST (body not verified, obligation undecided): %s\n' % str(e).replace('\n', ' ')[:300]
        if re.search(r'->[^{;]*\bimpl\b', sig):
            # opaque return type: a diverging stub does not type-check; keep the real (erased) body as external code
            body = [el for el in (elems[cut:] if cut is not None else []) if el.kind == 'tok']
            for el in body:
                el.deleted = False
            return tag + '#[verifier::external_body]\n' + sig.lstrip('\n') + emit(body) + '\n'
        return tag + sig.lstrip('\n') + '\n    { proof { assume(false); } vstd::pervasive::unreached() }  // STUB\n'


def _weave_region(repo, header, lines, start_line, tmpl_name, report):
    m = re.match(r'//@extract\s+(fn)\s+(\S+)\s+"([^"]*)"\s+(\S+)\s*$', header) or \
        re.match(r'//@extract\s+(struct|enum)\s+(\S+)\s+()(\S+)\s*$', header)
    if not m:
        raise WeaveError("%s:%d bad directive: %s" % (tmpl_name, start_line, header))
    kind, rel, key, name = m.groups()
    elems = rustlex.lex("\n".join(lines), template=True)
    item, rtoks = find_item(repo, rel, kind, key, name)
    E = [e for e in elems if e.kind == "tok"]
    Etxt = [e.text for e in E]
    Rtxt = [t.text for t in rtoks]
    rec = {
        "item": "%s::%s%s" % (rel, (key + "::") if key else "", name), "kind": kind, "file": rel,
        "lines": [rtoks[0].line, rtoks[-1].line], "tokens": len(Rtxt), "token_sha": sha(Rtxt),
        "identical_to_annotated_baseline": Etxt == Rtxt, "normalisations": [], "transplanted_hunks": [],
        "template": "%s:%d" % (tmpl_name, start_line),
    }
    # record normalisations (hidden exec tokens and the annotation text around them)
    i = 0
    while i < len(elems):
        if elems[i].kind == "tok" and elems[i].deleted:
            j = i
            while j < len(elems) and elems[j].kind == "tok" and elems[j].deleted:
                j += 1
            before = elems[i - 1].text if i > 0 and elems[i - 1].kind == "ins" else ""
            after = elems[j].text if j < len(elems) and elems[j].kind == "ins" else ""
            rec["normalisations"].append({"hidden_exec_tokens": " ".join(e.text for e in elems[i:j]),
                                          "annotation_before": before[:400], "annotation_after": after[:400]})
            i = j
        else:
            i += 1
    if Etxt != Rtxt:
        sm = difflib.SequenceMatcher(a=Etxt, b=Rtxt, autojunk=False)
        # a local that was renamed consistently (old name gone from the item, new name fresh) is renamed in the
        # annotations of the item as well: contracts talk about the code's variables, a rename is not a change of behaviour
        ren, bad_ren = {}, set()
        for tag, i1, i2, j1, j2 in sm.get_opcodes():
            if tag == "replace" and i2 - i1 == j2 - j1:
                for a_, b_ in zip(Etxt[i1:i2], Rtxt[j1:j2]):
                    if a_ != b_ and rustlex.IDENT.fullmatch(a_) and rustlex.IDENT.fullmatch(b_):
                        if ren.get(a_, b_) != b_:
                            bad_ren.add(a_)
                        ren[a_] = b_
        def free_occ(seq, name):
            # occurrences that are not a field / method name (`x.name`)
            return [k for k, t in enumerate(seq) if t == name and not (k > 0 and seq[k - 1] == ".")]
        ren = {a_: b_ for a_, b_ in ren.items() if a_ not in bad_ren and not free_occ(Rtxt, a_) and not free_occ(Etxt, b_)
               and a_ not in ("self", "Self") and b_ not in ("self", "Self")}
        if ren:
            prev = None
            for e in elems:
                if e.kind == "ins":
                    for a_, b_ in ren.items():
                        e.text = re.sub(r"(?<![A-Za-z0-9_.])%s(?![A-Za-z0-9_])" % re.escape(a_), b_, e.text)
                else:
                    if e.text in ren and not (prev is not None and prev.text == "."):
                        e.text = ren[e.text]          # visible and hidden exec tokens alike
                    prev = e
            rec["renamed_locals"] = ren
            Etxt = [e.text for e in E]
            sm = difflib.SequenceMatcher(a=Etxt, b=Rtxt, autojunk=False)
        # position of each exec token in elems
        pos = [k for k, e in enumerate(elems) if e.kind == "tok"]
        # size of every hidden region
        rsize = {}
        for e in E:
            if e.region:
                rsize[e.region[0]] = rsize.get(e.region[0], 0) + 1
        new = []
        cursor = 0  # index into elems

        def flush_to(k):
            nonlocal cursor
            new.extend(elems[cursor:k])
            cursor = k
        def n_ins(a, b):
            return sum(1 for k in range(pos[a], pos[b - 1] + 1) if elems[k].kind == "ins")
        for tag, i1, i2, j1, j2 in sm.get_opcodes():
            if tag == "equal":
                continue
            if tag == "delete" and n_ins(i1, i2) > 0:
                # a deletion in a run of similar tokens can be placed in several equivalent ways (`a ; a . f ( ) ; a . g`):
                # take the placement that keeps the annotations between the surviving tokens (none strictly inside)
                best = (n_ins(i1, i2), 0)
                for sgn in (-1, 1):
                    a_, b_ = i1, i2
                    while (a_ > 0 and Etxt[a_ - 1] == Etxt[b_ - 1]) if sgn < 0 else (b_ < len(Etxt) and Etxt[a_] == Etxt[b_]):
                        a_, b_ = a_ + sgn, b_ + sgn
                        if any(E[k].deleted for k in range(a_, b_)):
                            break
                        c = n_ins(a_, b_)
                        if c < best[0]:
                            best = (c, a_ - i1)
                i1, i2 = i1 + best[1], i2 + best[1]
            hunk = {"op": tag, "old": " ".join(Etxt[i1:i2]), "new": " ".join(Rtxt[j1:j2]),
                    "src_line": rtoks[min(j1, len(rtoks) - 1)].line}
            rec["transplanted_hunks"].append(hunk)
            # how does the hunk relate to hidden (normalised) regions?
            touched = {}
            for k in range(i1, i2):
                if E[k].deleted:
                    touched[E[k].region[0]] = touched.get(E[k].region[0], 0) + 1
            inside_named = None      # hunk lies entirely inside one *named* hidden region: allowed, stays hidden
            if tag == "insert":
                if 0 < i1 < len(E) and E[i1 - 1].deleted and E[i1].deleted and E[i1 - 1].region == E[i1].region:
                    if E[i1].region[1]:
                        inside_named = E[i1].region
                    else:
                        touched[E[i1].region[0]] = 0
            elif len(touched) == 1 and all(E[k].deleted for k in range(i1, i2)) and E[i1].region[1] \
                    and touched[E[i1].region[0]] < rsize[E[i1].region[0]]:
                inside_named = E[i1].region
            partial = [r for r, n in touched.items() if n < rsize[r]]
            if not inside_named and partial:
                raise WeaveError("ANCHOR-LOST %s: source edit touches a normalised region (%s -> %s) at %s:%d"
                                 % (rec["item"], hunk["old"], hunk["new"], rel, hunk["src_line"]))
            newtoks = [Tok(t.text, t.pre if t.pre else "", t.line) for t in rtoks[j1:j2]]
            if newtoks and not newtoks[0].pre:
                newtoks[0].pre = " "
            if inside_named:
                for t in newtoks:
                    t.deleted = True
                    t.region = inside_named
                hunk["inside_named_region"] = inside_named[1]
            if tag == "insert":
                # right after the previous exec token (before annotations that follow it)
                at = (pos[i1 - 1] + 1) if i1 > 0 else 0
                flush_to(at)
                new.extend(newtoks)
            else:
                flush_to(pos[i1])
                new.extend(newtoks)
                # the old exec tokens go; annotations strictly between them annotated code that no longer
                # exists (this includes the insertions of a normalisation whose hidden tokens all went)
                dropped = [elems[k].text for k in range(pos[i1], pos[i2 - 1] + 1) if elems[k].kind == "ins"]
                if dropped:
                    hunk["dropped_annotations"] = [d[:120] for d in dropped]
                cursor = pos[i2 - 1] + 1
        flush_to(len(elems))
        elems = new
    # $name in an annotation stands for the current tokens of the hidden region of that name
    named = {}
    for e in elems:
        if e.kind == "tok" and e.deleted and e.region and e.region[1]:
            named.setdefault(e.region[1], []).append(e.text)
    if named:
        for e in elems:
            if e.kind == "ins" and "$" in e.text:
                for nm, toks_ in named.items():
                    e.text = e.text.replace("$" + nm, " ".join(toks_))
    got = [e.text for e in elems if e.kind == "tok"]
    if got != Rtxt:
        raise WeaveError("G1 failed for %s: emitted exec tokens differ from the source item" % rec["item"])
    report["items"].append(rec)
    head = "// ---- extracted: %s lines %d-%d sha=%s%s\n" % (
        rec["item"], rec["lines"][0], rec["lines"][1], rec["token_sha"],
        "" if rec["identical_to_annotated_baseline"] else " [source differs from annotated baseline: %d hunk(s) transplanted]" % len(rec["transplanted_hunks"]))
    return head + emit(elems).lstrip("\n") + "\n"


def weave_template(repo, path, report):
    name = os.path.basename(path)
    out = []
    lines = open(path).read().split("\n")
    i = 0
    while i < len(lines):
        ln = lines[i]
        s = ln.strip()
        if s.startswith("//@extract"):
            j = i + 1
            while j < len(lines) and lines[j].strip() != "//@end":
                if lines[j].strip().startswith("//@extract"):
                    raise WeaveError("%s:%d nested //@extract" % (name, j + 1))
                j += 1
            if j >= len(lines):
                raise WeaveError("%s:%d //@extract without //@end" % (name, i + 1))
            out.append(weave_region(repo, s, lines[i + 1:j], i + 1, name, report))
            i = j + 1
        else:
            out.append(ln + "\n")
            i += 1
    return "".join(out)


def weave_unit(repo, verus_dir, files, out_path, report_path):
    report = {"repo": repo, "templates": files, "items": [], "dropped": [
        "doc comments and ordinary comments", "item attributes (#[derive], #[serde], #[cfg(feature)], #[inline])",
        "items without an //@extract region (Display/Debug/Error impls, Arbitrary impls, tests, serde helpers)"]}
    parts = []
    for f in files:
        parts.append("// ======== template %s ========\n" % f)
        parts.append(weave_template(repo, os.path.join(verus_dir, f), report))
    text = "".join(parts)
    os.makedirs(os.path.dirname(out_path), exist_ok=True)
    open(out_path, "w").write(text)
    report["unit_sha"] = hashlib.sha256(text.encode()).hexdigest()[:16]
    if report_path:
        json.dump(report, open(report_path, "w"), indent=1)
    return report


def main():
    ap = argparse.ArgumentParser()
    ap.add_argument("--repo", default="/repo")
    ap.add_argument("--verus-dir", default=os.path.join(os.path.dirname(os.path.abspath(__file__)), "..", "verus", "src"))
    ap.add_argument("--out", required=True)
    ap.add_argument("--report")
    ap.add_argument("files", nargs="+")
    a = ap.parse_args()
    try:
        rep = weave_unit(a.repo, a.verus_dir, a.files, a.out, a.report)
    except (WeaveError, rustlex.LexError) as e:
        print("WEAVE-ERROR: %s" % e)
        sys.exit(2)
    n = len(rep["items"])
    changed = [r["item"] for r in rep["items"] if not r["identical_to_annotated_baseline"]]
    print("woven %d items into %s (%d differ from baseline%s)" % (n, a.out, len(changed), (": " + ", ".join(changed)) if changed else ""))


if __name__ == "__main__":
    main()
