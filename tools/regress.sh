#!/bin/sh
# developer aid: run every seeded change (seeded/<Cxx-...>/patch.diff against the check of property Cxx) and every harmless
# patch (harmless/*.diff against the checks named in harmless/MAP) and write seeded/RESULTS.md.  /repo is restored after
# each run; evidence files are preserved (tools/mutest.sh).  Takes about an hour.
cd /verif
OUT=seeded/RESULTS.md
echo "# Seeded changes and harmless edits against the checks ($(date -u +%FT%TZ), /verif $(git rev-parse --short HEAD))" > $OUT
echo "" >> $OUT; echo "| change | check | exit | verdict line |" >> $OUT; echo "|---|---|---|---|" >> $OUT
for d in seeded/C*/; do
  n=$(basename $d); id=$(echo $n | cut -c1-3)
  res=$(tools/mutest.sh /verif/$d/patch.diff $id)
  ex=$(echo "$res" | grep -o "exit=[0-9]*" | head -1)
  v=$(echo "$res" | grep -E "^VIOLATION" | head -1 | cut -c1-110); [ -z "$v" ] && v=$(echo "$res" | grep -E "^UNDECIDED" | head -1 | cut -c1-110)
  ob=$(echo "$res" | grep -E "^FAILED-OBLIGATION" | head -1 | cut -c1-90)
  echo "| $n | $id | $ex | $ob / $v |" >> $OUT
done
while read name id; do
  [ -z "$name" ] && continue
  res=$(tools/mutest.sh /verif/harmless/$name.diff $id)
  ex=$(echo "$res" | grep -o "exit=[0-9]*" | head -1)
  v=$(echo "$res" | grep -E "^VIOLATION" | head -1 | cut -c1-110); [ -z "$v" ] && v=$(echo "$res" | grep -E "^UNDECIDED" | head -1 | cut -c1-110)
  echo "| harmless/$name | $id | $ex | $v |" >> $OUT
done < harmless/MAP
git -C /repo status --short >> $OUT
echo REGRESS-DONE >> $OUT
