#!/usr/bin/env python3
"""developer aid: tools/regress.sh in parallel.  Every seeded change (seeded/<Cxx-...>/patch.diff, check Cxx) and every harmless
patch (harmless/*.diff, checks from harmless/MAP) is applied to a scratch clone of /repo (/tmp/rrepo_<n>, removed at the end;
/repo itself is not touched) and checked with VERIF_REPO pointing at the clone.  Writes seeded/RESULTS.md.  Evidence files are
restored from git afterwards (run tools/runall.sh on the clean tree before committing evidence).
usage: regress_par.py [workers=6]"""
import os, subprocess, sys, shutil, time, threading, queue, re

ROOT = os.path.dirname(os.path.dirname(os.path.abspath(__file__)))   # the tree this script lives in (a `vp run` snapshot works too)
N = int(sys.argv[1]) if len(sys.argv) > 1 else 6
jobs = []
for d in sorted(os.listdir(os.path.join(ROOT, "seeded"))):
    p = os.path.join(ROOT, "seeded", d, "patch.diff")
    if os.path.exists(p):
        jobs.append((d, d[:3], p))
for ln in open(os.path.join(ROOT, "harmless", "MAP")):
    ln = ln.split()
    if len(ln) >= 2:
        jobs.append(("harmless/" + ln[0], ln[1], os.path.join(ROOT, "harmless", ln[0] + ".diff")))
ONLY = os.environ.get("REGRESS_ONLY")          # regex on the seed name: run a subset, do not rewrite RESULTS.md
if ONLY:
    jobs = [j for j in jobs if re.search(ONLY, j[0])]
# long (whole-unit) properties first
jobs.sort(key=lambda j: 0 if j[1] in ("C01", "C02", "C03", "C08", "C09", "C20") else 1)
q = queue.Queue()
for j in jobs:
    q.put(j)
results = {}


def worker(k):
    clone = "/tmp/rrepo_%d_%d" % (os.getpid(), k)     # unique per invocation: concurrent runs must not share (or remove) clones
    shutil.rmtree(clone, ignore_errors=True)
    subprocess.run(["git", "clone", "-q", "/repo", clone], check=True)
    env = dict(os.environ)
    env.update({"CARGO_NET_OFFLINE": "true", "VERIF_REPO": clone, "VERIF_WD_SUFFIX": "_r%d" % k})
    while True:
        try:
            name, pid, patch = q.get_nowait()
        except queue.Empty:
            break
        subprocess.run(["git", "-C", clone, "checkout", "-q", "--", "."])
        a = subprocess.run(["git", "-C", clone, "apply", patch], capture_output=True, text=True)
        if a.returncode != 0:
            results[name] = (pid, "patch does not apply", "", "")
            continue
        t0 = time.time()
        p = subprocess.run([os.path.join(ROOT, "bin", "check"), pid], env=env, capture_output=True, text=True)
        out = p.stdout + p.stderr
        vio = [l for l in out.split("\n") if l.startswith("VIOLATION")]
        und = [l for l in out.split("\n") if l.startswith("UNDECIDED")]
        ob = [l for l in out.split("\n") if l.startswith("FAILED-OBLIGATION")]
        v = (vio or und or [""])[0]
        v = re.sub(r"replay=\S+", "replay=...", v)[:110]
        results[name] = (pid, "exit=%d" % p.returncode, (ob or [""])[0][:90], v)
        print("%-55s %s exit=%d %4.0fs %s" % (name, pid, p.returncode, time.time() - t0, "no-input" if "no-failing-input-found" in v else ""), flush=True)
    shutil.rmtree(clone, ignore_errors=True)


ths = [threading.Thread(target=worker, args=(k,)) for k in range(N)]
[t.start() for t in ths]
[t.join() for t in ths]
head = subprocess.run(["git", "-C", ROOT, "rev-parse", "--short", "HEAD"], capture_output=True, text=True).stdout.strip()
with open(os.path.join(ROOT, "seeded", "RESULTS.md") if not ONLY else "/tmp/regress_subset.md", "w") as f:
    f.write("# Seeded changes and harmless edits against the checks (%s, /verif %s)\n\n" % (time.strftime("%FT%TZ", time.gmtime()), head))
    f.write("Each patch was applied to a scratch clone of /repo and checked with `VERIF_REPO=<clone> bin/check <ID>` (tools/regress_par.py).\n\n")
    f.write("| change | check | exit | verdict line |\n|---|---|---|---|\n")
    for name in sorted(results, key=lambda n: (n.startswith("harmless"), n)):
        pid, ex, ob, v = results[name]
        f.write("| %s | %s | %s | %s / %s |\n" % (name, pid, ex, ob, v))
    seeds = [r for n, r in results.items() if not n.startswith("harmless")]
    harm = [r for n, r in results.items() if n.startswith("harmless")]
    f.write("\nseeded: %d, VIOLATION %d (without replayed input: %d), exit 2: %d, exit 0: %d\n" % (
        len(seeds), sum(1 for r in seeds if r[1] == "exit=1"), sum(1 for r in seeds if "no-failing-input-found" in r[3]),
        sum(1 for r in seeds if r[1] == "exit=2"), sum(1 for r in seeds if r[1] == "exit=0")))
    f.write("harmless: %d, exit 0: %d, exit 2: %d, exit 1: %d\n" % (len(harm), sum(1 for r in harm if r[1] == "exit=0"),
            sum(1 for r in harm if r[1] == "exit=2"), sum(1 for r in harm if r[1] == "exit=1")))
subprocess.run(["git", "-C", ROOT, "checkout", "--", "evidence"])
print("REGRESS-DONE")
