#!/bin/sh
# developer aid: run every claimed check (quick) in parallel and print one line each
cd /verif
ids=$(python3 -c "import json;print(' '.join(c['property_id'] for c in json.load(open('MANIFEST.json'))['checks']))")
for id in $ids; do ( bin/check $id > /tmp/runall.$id.out 2>&1; echo "$id exit=$? $(grep -c KNOWN-FINDING /tmp/runall.$id.out) known; $(head -1 /tmp/runall.$id.out | cut -c1-150)" ) & done; wait
