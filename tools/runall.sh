#!/bin/sh
# developer aid: run every claimed check (default tier quick; pass "thorough" as $1) 4 at a time on the current tree and
# print one line each.  Run this on the UNCHANGED tree before committing evidence.
cd /verif
TIER=${1:-quick}
ids=$(python3 -c "import json;print(' '.join(c['property_id'] for c in json.load(open('MANIFEST.json'))['checks']))")
echo $ids | tr ' ' '\n' | xargs -P 4 -I{} sh -c 'bin/check {} --tier '$TIER' > /tmp/runall.{}.out 2>&1; echo "{} exit=$? $(grep -c KNOWN-FINDING /tmp/runall.{}.out) known; $(head -1 /tmp/runall.{}.out | cut -c1-150)"'
