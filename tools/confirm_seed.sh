#!/bin/sh
# tools/confirm_seed.sh <seed-out-dir> <scratch-worktree> <dest-name>
# Confirms a seeded defect independently: patch applies + compiles, demo fails with / passes without,
# existing suite passes with the patch.  On success copies it to /verif/seeded/<dest-name>/.
OUT="$1"; WT="$2"; NAME="$3"
LOG=/tmp/confirm_$NAME.log
: > $LOG
cd "$WT" || exit 2
git checkout -q -- . ; rm -rf tests/seeded_demo.rs
mkdir -p tests && cp "$OUT/demo.rs" tests/seeded_demo.rs
export CARGO_NET_OFFLINE=true
cargo test --offline --test seeded_demo >>$LOG 2>&1; without=$?
git apply "$OUT/patch.diff" >>$LOG 2>&1 || { echo "$NAME: patch does not apply"; exit 1; }
cargo test --offline --test seeded_demo >>$LOG 2>&1; with=$?
rm -f tests/seeded_demo.rs; rmdir tests 2>/dev/null
cargo test --workspace --no-fail-fast --offline -- --skip prop_op_reordering_converges >>$LOG 2>&1; suite=$?
git checkout -q -- .
echo "$NAME: demo without patch exit=$without (want 0), with patch exit=$with (want !=0), suite with patch exit=$suite (want 0)"
if [ $without -eq 0 ] && [ $with -ne 0 ] && [ $suite -eq 0 ]; then
  mkdir -p /verif/seeded/$NAME && cp "$OUT/patch.diff" "$OUT/demo.rs" "$OUT/meta.json" /verif/seeded/$NAME/
  python3 - "$NAME" <<'PY'
import json,sys
p='/verif/seeded/%s/meta.json'%sys.argv[1]
m=json.load(open(p))
m['confirmed_by_main_session']={"demo_without_patch":"pass","demo_with_patch":"fail","existing_suite_with_patch":"pass (cargo test --workspace --no-fail-fast --offline -- --skip prop_op_reordering_converges)"}
json.dump(m,open(p,'w'),indent=1)
PY
  echo "$NAME: CONFIRMED"
else
  echo "$NAME: NOT CONFIRMED (see $LOG)"
fi
