#!/usr/bin/env python3
"""developer aid: which functions under contract does each small-scope search / stand-in of the replay crate execute?

Builds the replay crate with `-C instrument-coverage` (nightly toolchain: it ships llvm-profdata / llvm-cov), runs every search and
stand-in once on the UNCHANGED /repo, and maps the executed source lines of /repo/src to the extracted items of the Verus unit.
Writes props/reach.json: { "<search or stand-in>": [ "<obligation name>", ... ] }.

tools/check.py uses the table for one decision only: a failed obligation of an EDITED function for which no failing input was found
is reported as VIOLATION ... no-failing-input-found when none of the property's searches executes that function (nothing could have
exonerated it), and as UNDECIDED when a search that ran to completion does execute it (a proof that no longer fits edited code is not
a violation).  Re-run after changing replay/src:  python3 tools/reach.py [quick|thorough]
"""
import json, os, re, subprocess, sys, glob, shutil

ROOT = "/verif"
sys.path.insert(0, os.path.join(ROOT, "tools"))
import weave as W

tier = sys.argv[1] if len(sys.argv) > 1 else "quick"
tc = os.path.expanduser("~/.rustup/toolchains/nightly-x86_64-unknown-linux-gnu/lib/rustlib/x86_64-unknown-linux-gnu/bin")
crate = "/tmp/reach-crate"
target = "/tmp/reach-target"
shutil.rmtree(crate, ignore_errors=True)
os.makedirs(crate)
shutil.copytree(os.path.join(ROOT, "replay", "src"), os.path.join(crate, "src"))
shutil.copy(os.path.join(ROOT, "replay", "Cargo.lock"), os.path.join(crate, "Cargo.lock"))
open(os.path.join(crate, "Cargo.toml"), "w").write(open(os.path.join(ROOT, "replay", "Cargo.toml.in")).read().replace("@REPO@", "/repo"))
env = dict(os.environ, RUSTFLAGS="-C instrument-coverage", CARGO_TARGET_DIR=target, CARGO_NET_OFFLINE="true",
           LLVM_PROFILE_FILE="/tmp/reach-build-%p.profraw")   # instrumented proc-macros / build scripts would otherwise drop default_*.profraw into the package dirs (/repo!)
subprocess.run(["cargo", "+nightly", "build", "--release", "--offline", "--quiet"], cwd=crate, env=env, check=True)
binp = os.path.join(target, "release", "replay")

# extracted items: file, line range, obligation name (same naming as tools/check.py)
files = json.load(open(os.path.join(ROOT, "props", "C01.json")))["unit"]
rep = W.weave_unit("/repo", os.path.join(ROOT, "verus", "src"), files, "/tmp/reach_unit.rs", None)
os.remove("/tmp/reach_unit.rs")


def ob_name(it_):
    rel_, rest = it_["item"].split("::", 1)
    parts = rest.rsplit("::", 1)
    key_, fn_ = (parts[0], parts[1]) if len(parts) == 2 else ("", parts[0])
    typ_ = re.sub(r"<.*$", "", key_.split(" for ")[-1]).strip()
    stem_ = os.path.splitext(os.path.basename(rel_))[0]
    return "::".join(x for x in (stem_, typ_, fn_) if x)


items = [(it["file"], it["lines"][0], it["lines"][1], it.get("obligation") or ob_name(it)) for it in rep["items"] if it["kind"] == "fn"]
searches, standins = set(), set()
for f in glob.glob(os.path.join(ROOT, "props", "C*.json")):
    d = json.load(open(f))
    x = d.get("search") or []
    searches |= set([x] if isinstance(x, str) else x)
    standins |= set(d.get("standins", []))
out = {}
for kind, names in (("search", sorted(searches)), ("standin", sorted(standins))):
    for nm in names:
        raw = "/tmp/reach_%s.profraw" % nm
        subprocess.run([binp, kind, nm, tier, "1"], env=dict(os.environ, LLVM_PROFILE_FILE=raw), capture_output=True, timeout=7200)
        subprocess.run([os.path.join(tc, "llvm-profdata"), "merge", "-sparse", raw, "-o", raw + ".data"], check=True)
        lcov = subprocess.run([os.path.join(tc, "llvm-cov"), "export", binp, "-instr-profile=" + raw + ".data", "-format=lcov"], capture_output=True, text=True).stdout
        hit = {}
        cur = None
        for ln in lcov.split("\n"):
            if ln.startswith("SF:"):
                cur = ln[3:]
            elif ln.startswith("DA:") and cur and cur.startswith("/repo/src/"):
                a, b = ln[3:].split(",")[:2]
                if int(b) > 0:
                    hit.setdefault(cur[len("/repo/"):], set()).add(int(a))
        # a function counts as executed when a line strictly inside its body ran (or its only line, for one-liners)
        reached = sorted(set(ob for (f, lo, hi, ob) in items if any(l in hit.get(f, ()) for l in (range(lo + 1, hi + 1) if hi > lo else [lo]))))
        out[nm] = reached
        print("%-20s executes %d of %d functions under contract" % (nm, len(reached), len(items)), flush=True)
        os.remove(raw); os.remove(raw + ".data")
json.dump(out, open(os.path.join(ROOT, "props", "reach.json"), "w"), indent=1, sort_keys=True)
shutil.rmtree(crate, ignore_errors=True)
shutil.rmtree(target, ignore_errors=True)
for f in glob.glob("/tmp/reach-build-*.profraw") + glob.glob("/repo/default_*.profraw"):
    os.remove(f)
