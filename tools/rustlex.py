"""Minimal Rust lexer + item finder used by the extractor/weaver (tools/weave.py).

It is deliberately small: it only has to (a) split Rust source into tokens so that two texts can
be compared token by token, ignoring white space and comments, and (b) find `fn`, `struct`,
`enum` items and the `impl` block that encloses them.  It never interprets the code.
"""
import re

IDENT = re.compile(r"(?:r#)?[A-Za-z_][A-Za-z0-9_]*")
STRSTART = re.compile(r'(b|br|r)?(#*)"')
NUM = re.compile(r"[0-9][0-9A-Za-z_]*(?:\.[0-9][0-9A-Za-z_]*)?")
PUNCT3 = ("<<=", ">>=", "...", "..=")
PUNCT2 = ("::", "->", "=>", "==", "!=", "<=", ">=", "&&", "||", "+=", "-=", "*=", "/=", "%=",
          "^=", "&=", "|=", "..")


class Tok:
    __slots__ = ("text", "pre", "line", "kind", "deleted", "region")

    def __init__(self, text, pre, line, kind="tok", deleted=False, region=None):
        self.region = region  # template only: (id, name) of the hidden region the token belongs to
        self.text = text      # token text (or annotation text for kind == 'ins')
        self.pre = pre        # white space that preceded it ('' or ' ' or '\n   ')
        self.line = line
        self.kind = kind      # 'tok' | 'ins'
        self.deleted = deleted  # template only: exec token hidden from Verus (normalisation)

    def __repr__(self):
        return "Tok(%r,%s%s)" % (self.text, self.kind, ",del" if self.deleted else "")


class LexError(Exception):
    pass


def lex(src, template=False):
    """Return list of Tok.  In template mode the annotation comments are kept:
         /*@ text @*/      -> Tok(kind='ins')
         //@ text          -> Tok(kind='ins')  (to end of line)
         /*@<*/ ... /*@>*/ -> the exec tokens in between get deleted=True
       All other comments are white space.
    """
    toks = []
    i, n, line = 0, len(src), 1
    pre = ""
    deleted = False
    region = None
    region_id = 0
    while i < n:
        c = src[i]
        if c in " \t\r\n":
            j = i
            while j < n and src[j] in " \t\r\n":
                j += 1
            ws = src[i:j]
            line += ws.count("\n")
            pre += ws
            i = j
            continue
        if src.startswith("//", i):
            j = src.find("\n", i)
            if j < 0:
                j = n
            body = src[i:j]
            if template and (body.startswith("//@ ") or body.startswith("//@\t") or body == "//@"):
                toks.append(Tok(body[3:].strip(), pre, line, "ins"))
                pre = ""
            else:
                pre += " " if not pre else ""
            i = j
            continue
        if src.startswith("/*", i):
            mh = re.match(r"/\*@<([A-Za-z_][A-Za-z0-9_]*)?\*/", src[i:i + 60]) if template else None
            if mh:
                if deleted:
                    raise LexError("nested /*@<*/ at line %d" % line)
                deleted = True
                region_id += 1
                region = (region_id, mh.group(1))
                i += len(mh.group(0))
                continue
            if template and src.startswith("/*@>*/", i):
                if not deleted:
                    raise LexError("unmatched /*@>*/ at line %d" % line)
                deleted = False
                region = None
                i += 6
                continue
            if template and src.startswith("/*@", i):
                j = src.find("@*/", i)
                if j < 0:
                    raise LexError("unterminated /*@ at line %d" % line)
                body = src[i + 3:j]
                toks.append(Tok(body.strip(), pre, line, "ins"))
                line += body.count("\n")
                pre = ""
                i = j + 3
                continue
            depth, j = 1, i + 2
            while j < n and depth:
                if src.startswith("/*", j):
                    depth += 1
                    j += 2
                elif src.startswith("*/", j):
                    depth -= 1
                    j += 2
                else:
                    j += 1
            line += src[i:j].count("\n")
            pre += " " if not pre else ""
            i = j
            continue
        # string-like literals
        m = None
        sm = STRSTART.match(src, i) if c in 'br"' else None
        if sm and (sm.group(2) == "" or "r" in (sm.group(1) or "")):
            raw = "r" in (sm.group(1) or "")
            hashes = len(sm.group(2))
            j = sm.end()
            if raw:
                end = '"' + "#" * hashes
                k = src.find(end, j)
                if k < 0:
                    raise LexError("unterminated raw string at line %d" % line)
                j = k + len(end)
            else:
                while j < n and src[j] != '"':
                    j += 2 if src[j] == "\\" else 1
                j += 1
            text = src[i:j]
        elif c == "'":
            # char literal or lifetime
            m = re.match(r"'(?:\\(?:x[0-9a-fA-F]{2}|u\{[0-9a-fA-F_]+\}|.)|[^\\'])'", src[i:i + 14])
            if m:
                text = m.group(0)
            else:
                m = IDENT.match(src, i + 1)
                if not m:
                    raise LexError("bad ' at line %d" % line)
                text = "'" + m.group(0)
        elif c == "b" and src.startswith("b'", i):
            m = re.match(r"b'(?:\\.|[^\\'])+'", src[i:i + 10])
            text = m.group(0) if m else None
            if text is None:
                text = IDENT.match(src, i).group(0)
        elif c.isdigit():
            m = NUM.match(src, i)
            text = m.group(0)
            # `0..5` must not swallow the first dot
            if "." in text and src.startswith("..", i + text.index(".")):
                text = text[:text.index(".")]
        elif c.isalpha() or c == "_":
            text = IDENT.match(src, i).group(0)
        else:
            text = None
            for p in PUNCT3:
                if src.startswith(p, i):
                    text = p
                    break
            if text is None:
                for p in PUNCT2:
                    if src.startswith(p, i):
                        text = p
                        break
            if text is None:
                text = c
        toks.append(Tok(text, pre, line, "tok", deleted, region))
        line += text.count("\n")
        pre = ""
        i += len(text)
    if deleted:
        raise LexError("unterminated /*@<*/")
    return toks


OPEN = {"{": "}", "(": ")", "[": "]"}
CLOSE = {"}", ")", "]"}


def match_close(toks, i):
    """toks[i] is an opening bracket; return index of the matching close."""
    depth = 0
    j = i
    while j < len(toks):
        t = toks[j].text
        if t in OPEN:
            depth += 1
        elif t in CLOSE:
            depth -= 1
            if depth == 0:
                return j
        j += 1
    raise LexError("unbalanced bracket from line %d" % toks[i].line)


def skip_attrs(toks, i):
    while i + 1 < len(toks) and toks[i].text == "#" and toks[i + 1].text in ("[", "!"):
        k = i + 1
        if toks[k].text == "!":
            k += 1
        i = match_close(toks, k) + 1
    return i


def _strip_generics(seq):
    out, depth = [], 0
    for t in seq:
        if t == "<":
            depth += 1
        elif t == ">":
            depth -= 1
        elif t == ">>":
            depth -= 2
        elif depth == 0:
            out.append(t)
    return out


def _last_segment(seq):
    seq = _strip_generics(seq)
    seq = [t for t in seq if t not in ("&", "mut", "dyn")]
    if "::" in seq:
        idx = len(seq) - 1 - seq[::-1].index("::")
        seq = seq[idx + 1:]
    return " ".join(seq)


def impl_key(header):
    """header: token texts between `impl` and `{`. -> 'Trait for Type' | 'Type'."""
    h = list(header)
    if h and h[0] == "<":
        depth, k = 0, 0
        while k < len(h):
            if h[k] == "<":
                depth += 1
            elif h[k] == ">":
                depth -= 1
            elif h[k] == ">>":
                depth -= 2
            k += 1
            if depth <= 0:
                break
        h = h[k:]
    # cut where-clause (top level)
    depth = 0
    for k, t in enumerate(h):
        if t == "<":
            depth += 1
        elif t == ">":
            depth -= 1
        elif t == ">>":
            depth -= 2
        elif t == "where" and depth == 0:
            h = h[:k]
            break
    depth = 0
    for k, t in enumerate(h):
        if t == "<":
            depth += 1
        elif t == ">":
            depth -= 1
        elif t == ">>":
            depth -= 2
        elif t == "for" and depth == 0:
            short = _last_segment(h[:k]) + " for " + _last_segment(h[k + 1:])
            return short + "|" + "".join(h[:k]) + " for " + "".join(h[k + 1:])
    return _last_segment(h) + "|" + "".join(h)


class Item:
    def __init__(self, kind, key, name, start, end, toks):
        self.kind, self.key, self.name = kind, key, name
        self.start, self.end = start, end      # token indices [start, end)
        self.toks = toks


def find_items(toks):
    """Return list of Item for fn/struct/enum/trait items (fn items carry the key of the enclosing
    impl/trait, '' for free functions).  `#[cfg(test)] mod` bodies are skipped."""
    items = []

    def scan(lo, hi, ctx):
        i = lo
        while i < hi:
            a0 = i
            i = skip_attrs(toks, i)
            if i >= hi:
                break
            attrs = " ".join(t.text for t in toks[a0:i])
            start = i
            # find the item's introducing keyword
            j = i
            kw = None
            while j < hi:
                t = toks[j].text
                if t in ("fn", "struct", "enum", "impl", "trait", "mod", "use", "type", "const",
                         "static", "macro_rules", "extern"):
                    if t == "const" and j + 1 < hi and toks[j + 1].text in ("fn", "unsafe"):
                        j += 1
                        continue
                    if t == "extern" and j + 1 < hi and toks[j + 1].text != "crate":
                        j += 1
                        if toks[j].text.startswith('"'):
                            j += 1
                        continue
                    kw = t
                    break
                if t in ("pub", "unsafe", "async", "default"):
                    j += 1
                    if toks[j].text == "(" and t == "pub":
                        j = match_close(toks, j) + 1
                    continue
                break
            if kw is None:
                # unknown token: skip to next ; or balanced {}
                k = i
                while k < hi and toks[k].text not in (";", "{"):
                    k += 1
                i = (match_close(toks, k) + 1) if k < hi and toks[k].text == "{" else k + 1
                continue
            # find end of item
            k = j
            depth_angle = 0
            while k < hi:
                t = toks[k].text
                if t in ("(", "["):
                    k = match_close(toks, k) + 1
                    continue
                if t == "{" or t == ";":
                    break
                k += 1
            if k < hi and toks[k].text == "{":
                body_open = k
                end = match_close(toks, k) + 1
                # tuple/unit structs and some items end with ';' after the group - not here
            else:
                body_open = None
                end = k + 1
            name = toks[j + 1].text if j + 1 < hi else ""
            if kw == "fn":
                items.append(Item("fn", ctx, name, start, end, toks))
            elif kw in ("struct", "enum"):
                items.append(Item(kw, "", name, start, end, toks))
            elif kw == "trait":
                items.append(Item("trait", "", name, start, end, toks))
                if body_open is not None:
                    scan(body_open + 1, end - 1, "trait " + name)
            elif kw == "impl":
                if body_open is not None:
                    key = impl_key([t.text for t in toks[j + 1:body_open]])
                    scan(body_open + 1, end - 1, key)
            elif kw == "mod":
                if body_open is not None and "cfg ( test" not in attrs and "cfg ( all ( test" not in attrs:
                    scan(body_open + 1, end - 1, ctx)
            i = end

    scan(0, len(toks), "")
    return items
