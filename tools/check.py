#!/usr/bin/env python3
"""bin/check <ID> [--tier quick|thorough] : decide one property on the current /repo tree.

Pipeline (DESIGN §3, §7, §9):
  1. weave the property's unit from /repo's *current* sources (tools/weave.py; fidelity guard G1)
  2. run Verus on it; every obligation listed in props/<ID>.json must be reported as discharged
  3. vacuity unit: every function in it must FAIL (a contradictory precondition would verify)
  4. assumption scan of the generated unit
  5. replay crate (built against /repo by path): bounded stand-ins for assumed contracts, replays of
     the recorded known findings, and -- only when an obligation failed or could not be decided --
     a small-scope counterexample search on the real code
  6. evidence/<ID>.json, exit code 0 / 1 (+ VIOLATION line) / 2 (undecided, never an alarm)
"""
import sys, os, re, json, time, subprocess, hashlib, argparse, shutil

ROOT = os.path.dirname(os.path.dirname(os.path.abspath(__file__)))
sys.path.insert(0, os.path.join(ROOT, "tools"))
import weave as W
import rustlex

REPO = os.environ.get("VERIF_REPO", "/repo")
BUILD = os.path.join(ROOT, ".build")
CRATE = "crdts_vx"


def sh(cmd, timeout=None, cwd=None, env=None):
    t0 = time.time()
    p = subprocess.run(cmd, stdout=subprocess.PIPE, stderr=subprocess.PIPE, text=True, timeout=timeout, cwd=cwd, env=env)
    return p.returncode, p.stdout, p.stderr, time.time() - t0


def fn_starts(unit_text):
    """(line, name) of every `fn name` in the unit, for mapping diagnostics to functions."""
    out = []
    mods = []
    for n, ln in enumerate(unit_text.split("\n"), 1):
        m = re.search(r"\bfn\s+([A-Za-z_][A-Za-z0-9_]*)", ln)
        if m and not ln.lstrip().startswith("//"):
            out.append((n, m.group(1)))
    return out


def parse_diagnostics(stderr, unit_name, starts):
    """Split rustc-style diagnostics into blocks; attach the enclosing function name."""
    blocks = []
    cur = None
    for ln in stderr.split("\n"):
        if re.match(r"^(error|warning|note)(\[[A-Z0-9]+\])?:", ln):
            if cur:
                blocks.append(cur)
            cur = {"head": ln, "lines": [ln]}
        elif cur is not None:
            cur["lines"].append(ln)
    if cur:
        blocks.append(cur)
    res = []
    for b in blocks:
        if not b["head"].startswith("error"):
            continue
        text = "\n".join(b["lines"])
        locs = [int(x) for x in re.findall(r"%s:(\d+):\d+" % re.escape(unit_name), text)]
        fns = set()
        for l in locs:
            name = None
            for (s, nme) in starts:
                if s <= l:
                    name = nme
                else:
                    break
            if name:
                fns.add(name)
        res.append({"head": b["head"], "text": text[:3000], "lines": locs, "fns": sorted(fns),
                    "rlimit": ("rlimit" in text or "Resource limit" in text)})
    return res


def run_verus(unit_path, modules, rlimit, seed, extra=None, functions=None):
    cmd = ["verus", unit_path, "--output-json", "--time", "--triggers-mode", "silent",
           "--rlimit", str(rlimit), "--smt-option", "smt.random_seed=%d" % (seed % 1000000), "--multiple-errors", "3"]
    for m in modules or []:
        cmd += ["--verify-module", m]
    if extra:
        cmd += extra
    rc, out, err, wall = sh(cmd, timeout=3600, cwd=os.path.dirname(unit_path))
    res = {"cmd": " ".join(cmd), "rc": rc, "wall_s": round(wall, 2), "stderr": err, "json_ok": False,
           "breakdown": {}, "compile_error": False, "smt_ms": 0}
    try:
        d = json.loads(out)
        res["json_ok"] = True
        vr = d.get("verification-results", {})
        res["verified"] = vr.get("verified", 0)
        res["errors"] = vr.get("errors", 0)
        res["success"] = vr.get("success", False)
        tm = d.get("times-ms", {})
        smt = tm.get("smt", {})
        res["smt_ms"] = smt.get("smt-run", 0)
        res["verus_version"] = d.get("verus", {}).get("version", "")
        for m in smt.get("smt-run-module-times", []):
            for f in m.get("function-breakdown", []):
                name = f["function"]
                if name.startswith(CRATE + "::"):
                    name = name[len(CRATE) + 2:]
                prev = res["breakdown"].get(name)
                ent = {"success": bool(f["success"]), "ms": f.get("time", 0), "rlimit": f.get("rlimit", 0), "mode": f.get("mode:", "")}
                if prev:
                    ent["success"] = ent["success"] and prev["success"]
                    ent["ms"] += prev["ms"]
                    ent["rlimit"] += prev["rlimit"]
                res["breakdown"][name] = ent
        if vr.get("encountered-vir-error") or (vr.get("encountered-error") and not res["breakdown"]):
            res["compile_error"] = True
    except Exception as e:
        res["compile_error"] = True
        res["parse_error"] = str(e)
    return res


ASSUME_PATTERNS = [
    ("external_body", r"#\[verifier::external_body\]"),
    ("assume_specification", r"\bassume_specification\b"),
    ("uninterp", r"\buninterp\s+spec\s+fn\b"),
    ("admit", r"\badmit\s*\("),
    ("assume", r"\bassume\s*\("),
    ("no_decreases", r"exec_allows_no_decreases_clause"),
    ("external", r"#\[verifier::external\]"),
]


def assumption_scan(unit_text):
    hits = []
    lines = unit_text.split("\n")
    for n, ln in enumerate(lines, 1):
        code = ln.split("//")[0]
        for kind, pat in ASSUME_PATTERNS:
            if re.search(pat, code):
                # name the item that follows
                nxt = ""
                for k in range(n - 1, min(n + 6, len(lines))):
                    m = re.search(r"\b(fn|struct|assume_specification)\b[^\n]*", lines[k])
                    if m:
                        nxt = m.group(0).strip()[:140]
                        break
                if "// STUB" in ln:
                    kind = "stub (edited function the weaver could not keep under its annotations; obligation undecided)"
                hits.append({"kind": kind, "line": n, "item": nxt})
    return hits


def build_replay(tag="x"):
    """cargo build of the replay crate against /repo (path dependency); returns (binary path | None, log, wall).
    Checks may run concurrently: the shared crate copy / target dir are used under a file lock and the binary is copied
    to a per-check location."""
    import fcntl
    src = os.path.join(ROOT, "replay")
    crate = os.path.join(BUILD, "replay-crate")
    os.makedirs(BUILD, exist_ok=True)
    lock = open(os.path.join(BUILD, "replay.lock"), "w")
    fcntl.flock(lock, fcntl.LOCK_EX)
    try:
        shutil.rmtree(crate, ignore_errors=True)
        os.makedirs(crate)
        shutil.copytree(os.path.join(src, "src"), os.path.join(crate, "src"))
        shutil.copy(os.path.join(src, "Cargo.lock"), os.path.join(crate, "Cargo.lock"))
        open(os.path.join(crate, "Cargo.toml"), "w").write(open(os.path.join(src, "Cargo.toml.in")).read().replace("@REPO@", REPO))
        target = os.path.join(BUILD, "replay-target")
        env = dict(os.environ)
        env["CARGO_NET_OFFLINE"] = "true"
        env["CARGO_TARGET_DIR"] = target
        env["VERIF_REPO_PATH"] = REPO
        rc, out, err, wall = sh(["cargo", "build", "--release", "--offline", "--quiet"], cwd=crate, env=env, timeout=3600)
        binp = os.path.join(target, "release", "replay")
        if rc != 0 or not os.path.exists(binp):
            return None, (out + err)[-4000:], wall
        mine = os.path.join(BUILD, "replay-bin", tag)
        os.makedirs(mine, exist_ok=True)
        shutil.copy2(binp, os.path.join(mine, "replay"))
        return os.path.join(mine, "replay"), "", wall
    finally:
        fcntl.flock(lock, fcntl.LOCK_UN)
        lock.close()


def run_replay(binp, args, timeout=3600):
    try:
        rc, out, err, wall = sh([binp] + args, timeout=timeout)
    except subprocess.TimeoutExpired:
        # a changed Ord / loop can make the real code run forever; that is reported as "no answer", never as a crash of the check
        return {"error": "did not terminate within %d s (on the unchanged tree this run takes seconds)" % timeout, "timeout": True}, float(timeout)
    try:
        return json.loads(out), wall
    except Exception:
        return {"error": "replay produced no JSON", "rc": rc, "stdout": out[-2000:], "stderr": err[-2000:]}, wall


def load_known(pid):
    path = os.path.join(ROOT, "KNOWN_FINDINGS.txt")
    findings, fixed = [], []
    if os.path.exists(path):
        for ln in open(path):
            ln = ln.strip()
            if not ln or ln.startswith("#"):
                continue
            m = re.match(r"finding:\s+property=(\S+)\s+id=(\S+)\s+(.*)$", ln)
            if m and m.group(1) == pid:
                findings.append({"id": m.group(2), "what": m.group(3)})
            m = re.match(r"fixed:\s+property=(\S+)\s+(\S+)\s+(.*)$", ln)
            if m and m.group(1) == pid:
                fixed.append({"commit": m.group(2), "what": m.group(3)})
    return findings, fixed


def main():
    ap = argparse.ArgumentParser()
    ap.add_argument("pid")
    ap.add_argument("--tier", default=os.environ.get("VERIF_TIER", "quick"))
    ap.add_argument("--replay")
    ap.add_argument("--list-obligations", action="store_true")
    a = ap.parse_args()
    pid = a.pid
    tier = a.tier if a.tier in ("quick", "thorough") else "quick"
    seed = int(os.environ.get("VERIF_SEED", "0") or 0)
    t_start = time.time()
    prop = json.load(open(os.path.join(ROOT, "props", pid + ".json")))
    ev_path = os.path.join(ROOT, "evidence", pid + ".json")
    os.makedirs(os.path.dirname(ev_path), exist_ok=True)
    wd = os.path.join(BUILD, "unit", pid + os.environ.get("VERIF_WD_SUFFIX", ""))   # suffix: developer aid (parallel mutant runs of one property)
    shutil.rmtree(wd, ignore_errors=True)
    os.makedirs(wd, exist_ok=True)
    replay_dir = os.path.join(ROOT, "replays", "out")
    os.makedirs(replay_dir, exist_ok=True)
    unit_path = os.path.join(wd, CRATE + ".rs")
    verus_src = os.path.join(ROOT, "verus", "src")

    if a.replay:
        binp, log, _ = build_replay("replayfile")
        if not binp:
            print("UNDECIDED replay crate does not build against the current tree:\n" + log)
            sys.exit(2)
        r, _ = run_replay(binp, ["replay", a.replay])
        print(json.dumps(r, indent=1))
        sys.exit(1 if r.get("reproduced") else 0)

    undecided = []     # reasons (never an alarm)
    violations = []    # dicts {obligation, why, messages}
    notes = []

    # ---- 1. weave -------------------------------------------------------------------------
    weave_report = None
    weave_error = None
    try:
        W._repo_cache.clear()
        weave_report = W.weave_unit(REPO, verus_src, prop["unit"], unit_path, os.path.join(wd, "extract.json"))
    except (W.WeaveError, rustlex.LexError) as e:
        weave_error = str(e)
        undecided.append("weave: " + weave_error)

    verus = None
    vac = None
    scan = []
    obligations = list(prop["obligations"])
    discharged = []
    failed_real, failed_undecided, missing = [], [], []
    if weave_report is not None:
        unit_text = open(unit_path).read()
        starts = fn_starts(unit_text)
        scan = assumption_scan(unit_text)
        bad = [h for h in scan if h["kind"] in ("assume", "admit")]
        if bad:
            undecided.append("assumption scan: assume()/admit() present in the unit: %s" % bad)
        # ---- 2. Verus ---------------------------------------------------------------------
        rl = 20 if tier == "quick" else 40
        verus = run_verus(unit_path, prop.get("verify_modules"), rl, seed)
        if a.list_obligations:
            for k in sorted(verus["breakdown"]):
                print(k, verus["breakdown"][k]["success"])
            print(verus["stderr"][-3000:] if not verus["json_ok"] or verus["compile_error"] else "")
            return
        diags = parse_diagnostics(verus["stderr"], CRATE + ".rs", starts) if verus["stderr"] else []
        if (verus["compile_error"] or not verus["json_ok"]) and weave_report is not None:
            # the edited text of a changed function may be outside what Verus accepts with the existing annotations:
            # weave exactly those functions as assumed (obligation undecided) so that everything else is still decided
            changed_fns = set(it_["item"].split("::")[-1] for it_ in weave_report.get("items", []) if it_.get("kind") == "fn" and not it_.get("identical_to_annotated_baseline", True))
            blame = set(f for d in diags for f in d["fns"]) & changed_fns
            if blame:
                try:
                    W.FORCE_DEGRADE = set(blame)
                    W._repo_cache.clear()
                    weave_report = W.weave_unit(REPO, verus_src, prop["unit"], unit_path, os.path.join(wd, "extract.json"))
                    unit_text = open(unit_path).read()
                    starts = fn_starts(unit_text)
                    scan = assumption_scan(unit_text)
                    first_heads = [d["head"] for d in diags][:3]
                    verus = run_verus(unit_path, prop.get("verify_modules"), rl, seed)
                    diags = parse_diagnostics(verus["stderr"], CRATE + ".rs", starts) if verus["stderr"] else []
                    notes.append("edited function(s) %s not processable by Verus in place (%s); woven as assumed, obligation undecided" % (", ".join(sorted(blame)), "; ".join(first_heads)))
                except (W.WeaveError, rustlex.LexError) as e:
                    undecided.append("re-weave with degraded functions: " + str(e))
                # FORCE_DEGRADE stays set for the vacuity units of this run (one process per check)
        # ---- 2b. proof hints that no longer fit an edited function -------------------------
        # `assert(e)` inside an annotation is a hint for the solver, not a contract.  After an edit (reordered match arms, a
        # moved statement) a hint may sit next to code it was not written for and fail although requires / ensures / invariants
        # still hold.  Such hints are replaced by `assert(true)` (in the woven unit only) and the function is verified again:
        # its contract must then be proved without them.  Contract-level failures are never touched.
        if not verus["compile_error"] and verus["json_ok"] and weave_report is not None:
            changed_fns2 = set(it_["item"].split("::")[-1] for it_ in weave_report.get("items", []) if it_.get("kind") == "fn" and not it_.get("identical_to_annotated_baseline", True))
            dropped_hints = []
            for _round in range(4):
                cand = [d for d in diags if d["head"].startswith("error: assertion failed") and set(d["fns"]) & changed_fns2]
                if not cand:
                    break
                ulines = unit_text.split("\n")
                edits = []
                for d in cand:
                    m = re.search(r"--> [^\n]*?:(\d+):(\d+)\n[^\n]*\n[^\n]*\n\s*\|(\s*)(\^+)", d["text"])
                    if not m:
                        continue
                    ln_, col_, n_ = int(m.group(1)), int(m.group(2)), len(m.group(4))
                    if not (1 <= ln_ <= len(ulines)):
                        continue
                    L = ulines[ln_ - 1]
                    a_, b_ = col_ - 1, col_ - 1 + n_
                    if re.search(r"\bassert\s*\(\s*$", L[:a_]) and L[b_:].lstrip().startswith(")"):
                        edits.append((ln_, a_, b_, L[a_:b_]))
                if not edits:
                    break
                for ln_, a_, b_, txt in sorted(set(edits), key=lambda e: (e[0], -e[1])):
                    L = ulines[ln_ - 1]
                    ulines[ln_ - 1] = L[:a_] + "true" + " " * max(0, (b_ - a_) - 4) + L[b_:]
                    dropped_hints.append({"line": ln_, "hint": txt[:200]})
                unit_text = "\n".join(ulines)
                open(unit_path, "w").write(unit_text)
                verus = run_verus(unit_path, prop.get("verify_modules"), rl, seed)
                diags = parse_diagnostics(verus["stderr"], CRATE + ".rs", starts) if verus["stderr"] else []
                if verus["compile_error"] or not verus["json_ok"]:
                    break
            if dropped_hints:
                notes.append("proof hints (assert) of the edited function(s) %s did not hold for the edited text and were dropped; the contracts were re-verified without them: %s" % (", ".join(sorted(changed_fns2)), json.dumps(dropped_hints)[:1500]))
        if verus["compile_error"] or not verus["json_ok"]:
            heads = [d["head"] + " @" + ",".join(d["fns"]) for d in diags][:8]
            undecided.append("verus could not process the unit (edited code outside the supported subset, or a renamed item): " + "; ".join(heads))
            verus["diag"] = [d["text"] for d in diags][:6]
        else:
            bd = verus["breakdown"]
            for ob in obligations:
                ent = bd.get(ob)
                if ent is None:
                    missing.append(ob)
                elif ent["success"]:
                    discharged.append(ob)
                else:
                    short = ob.split("::")[-1]
                    mine = [d for d in diags if short in d["fns"]]
                    if mine and all(d["rlimit"] for d in mine):
                        failed_undecided.append(ob)
                    else:
                        failed_real.append({"obligation": ob, "messages": [d["text"] for d in mine][:4]})
            # thorough: two more solver seeds; an obligation whose verdict depends on the seed is unstable => undecided
            if tier == "thorough":
                for extra_seed in (seed + 1, seed + 2):
                    vx = run_verus(unit_path, prop.get("verify_modules"), rl, extra_seed)
                    verus.setdefault("extra_seeds", []).append({"seed": extra_seed, "wall_s": vx["wall_s"], "smt_ms": vx.get("smt_ms", 0)})
                    for ob in list(discharged):
                        ex = vx["breakdown"].get(ob)
                        if ex is not None and not ex["success"]:
                            discharged.remove(ob)
                            failed_undecided.append(ob)
                            notes.append("obligation %s is seed-dependent (fails with smt.random_seed=%d)" % (ob, extra_seed))
            for it_ in weave_report.get("items", []):
                if it_.get("anchor_lost"):
                    ob = it_.get("obligation")
                    undecided.append("anchor lost, body not verified: " + it_["anchor_lost"][:300])
                    if ob in discharged:
                        discharged.remove(ob)
                    if ob in missing:
                        missing.remove(ob)
                    if ob in obligations and ob not in failed_undecided:
                        failed_undecided.append(ob)
            # Modularity: the body of a function can only affect that function's own obligation (callers see its contract,
            # which the weaver never changes).  A failing obligation whose source item is token-identical to the annotated
            # baseline is therefore not evidence about the code: solver instability or a verifier context effect => UNDECIDED.
            # (A changed struct/enum legitimately affects its users, so the rule is off when a type definition changed.)
            def ob_name(it_):
                rel_, rest = it_["item"].split("::", 1)
                parts = rest.rsplit("::", 1)
                key_, fn_ = (parts[0], parts[1]) if len(parts) == 2 else ("", parts[0])
                typ_ = re.sub(r"<.*$", "", key_.split(" for ")[-1]).strip()
                stem_ = os.path.splitext(os.path.basename(rel_))[0]
                return "::".join(x for x in (stem_, typ_, fn_) if x)
            type_changed = any(it_.get("kind") in ("struct", "enum") and not it_.get("identical_to_annotated_baseline", True) for it_ in weave_report.get("items", []))
            changed_obs = set(it_.get("obligation") or ob_name(it_) for it_ in weave_report.get("items", []) if it_.get("kind") == "fn" and not it_.get("identical_to_annotated_baseline", True))
            if not type_changed:
                for fr in list(failed_real):
                    if fr["obligation"] not in changed_obs:
                        failed_real.remove(fr)
                        failed_undecided.append(fr["obligation"])
                        notes.append("obligation %s failed although its source item is unchanged (not attributable to the code): %s" % (fr["obligation"], (fr["messages"][0][:200] if fr["messages"] else "")))
            # Retry what is not attributable to the code (resource limit, or a failure of an UNCHANGED function): other solver
            # seeds and a larger budget.  A proof found under any seed is a proof; only what never verifies stays undecided.
            lost_now = set(it_.get("obligation") for it_ in weave_report.get("items", []) if it_.get("anchor_lost"))
            for k_, (mult_, sd_) in enumerate(((4, seed + 7919), (2, seed + 104729), (4, seed + 1299709))):
                # (an EDITED function that fails gets two of these retries as well before it is blamed: a flaky proof must not
                #  turn a harmless edit into an alarm, and a real violation fails under every seed)
                todo = [ob for ob in failed_undecided if ob not in lost_now] + ([fr["obligation"] for fr in failed_real] if k_ < 2 else [])
                if not todo:
                    break
                v2 = run_verus(unit_path, prop.get("verify_modules"), rl * mult_, sd_)
                verus.setdefault("retries", []).append({"seed": sd_, "rlimit": rl * mult_, "wall_s": v2["wall_s"]})
                for ob in todo:
                    e2 = v2["breakdown"].get(ob)
                    if e2 and e2["success"]:
                        if ob in failed_undecided:
                            failed_undecided.remove(ob)
                        failed_real[:] = [fr for fr in failed_real if fr["obligation"] != ob]
                        discharged.append(ob)
                        notes.append("obligation %s: discharged with smt.random_seed=%d, rlimit x%d (not with the first seed)" % (ob, sd_ % 1000000, mult_))
            if missing:
                undecided.append("obligations not reported by Verus (item renamed or removed?): " + ", ".join(missing))
            lost_obs = [it_.get("obligation") for it_ in weave_report.get("items", []) if it_.get("anchor_lost")]
            for ob in failed_undecided:
                if ob not in lost_obs:
                    undecided.append("obligation not decided (resource limit, seed dependence, or failure of an unchanged function): " + ob)
        # ---- 3. vacuity -------------------------------------------------------------------
        if prop.get("vacuity") and not verus["compile_error"]:
            vfiles = prop["vacuity"] if isinstance(prop["vacuity"], list) else [prop["vacuity"]]
            vac = {"functions": 0, "failed_as_required": 0, "unexpectedly_verified": [], "wall_s": 0.0}
            for vi, vf in enumerate(vfiles):
                vunit = os.path.join(wd, CRATE + "_vac%d.rs" % vi)
                try:
                    W._repo_cache.clear()
                    files = [f for f in prop["unit"] if f != "99_main.rs"] + [vf, "99_main.rs"]
                    W.weave_unit(REPO, verus_src, files, vunit, None)
                    # the vacuity unit is a different crate file name; keep module names
                    vr = run_verus(vunit, ["vacuity"], 5, seed)
                    names = {k: v for k, v in vr["breakdown"].items()}
                    vfail = [k for k, v in names.items() if not v["success"]]
                    vpass = [k for k, v in names.items() if v["success"]]
                    vac["functions"] += len(names); vac["failed_as_required"] += len(vfail); vac["unexpectedly_verified"] += vpass; vac["wall_s"] += vr["wall_s"]
                    if vr["compile_error"] or not names:
                        undecided.append("vacuity unit %s did not run" % vf)
                    elif vpass:
                        undecided.append("VACUOUS precondition: these must-fail twins verified: " + ", ".join(vpass))
                except (W.WeaveError, rustlex.LexError) as e:
                    undecided.append("vacuity weave: " + str(e))

    # ---- 5. replay crate ------------------------------------------------------------------
    findings, fixed = load_known(pid)
    replay_res = {}
    # thorough: the small-scope searches run at their deep bounds whatever the verdict (bounded exploration on top of the proof)
    need_search = bool(failed_real or undecided) or tier == "thorough"
    wants_replay = prop.get("standins") or findings or prop.get("search") or need_search
    known_lines = []
    new_violation_from_replay = []
    standin_res = []
    search_res = None
    if wants_replay and os.path.isdir(os.path.join(ROOT, "replay")):
        binp, log, bw = build_replay(pid + os.environ.get("VERIF_WD_SUFFIX", ""))
        replay_res["build_wall_s"] = round(bw, 1)
        if not binp:
            undecided.append("replay crate does not build against the current tree: " + log[-600:])
        else:
            for s in prop.get("standins", []):
                r, w = run_replay(binp, ["standin", s, tier], timeout=300 if tier == "quick" else 1800)
                r["wall_s"] = round(w, 2)
                r["label"] = "bounded (exercises an assumed / not-under-contract item on the real crate within the stated bound; not counted as proved)"
                standin_res.append(r)
                if r.get("error"):
                    undecided.append("stand-in %s: %s" % (s, r["error"]))
                elif r.get("failures", 0) > 0:
                    new_violation_from_replay.append({"obligation": "bounded stand-in " + s + " (run on the real crate: " + r.get("for", "?") + ")",
                                                      "counterexample": r.get("first_failure"), "messages": []})
            for f in findings:
                r, w = run_replay(binp, ["finding", f["id"]], timeout=600)
                f["result"] = r
                if r.get("error"):
                    undecided.append("finding replay %s: %s" % (f["id"], r["error"]))
                elif r.get("reproduced"):
                    known_lines.append("KNOWN-FINDING: property=%s %s [%s]" % (pid, f["what"], f["id"]))
                else:
                    notes.append("recorded finding %s no longer reproduces on this tree" % f["id"])
            if need_search and prop.get("search"):
                names = prop["search"] if isinstance(prop["search"], list) else [prop["search"]]
                for nm in names:
                    r, w = run_replay(binp, ["search", nm, "thorough", str(seed)], timeout=1800)
                    r["wall_s"] = round(w, 2)
                    if isinstance(r.get("first_failure"), dict):
                        r["first_failure"]["seed"] = seed
                    if search_res is None or (r.get("failures", 0) > 0 and not search_res.get("failures", 0)):
                        prev = search_res
                        search_res = r
                        if prev:
                            search_res.setdefault("also_ran", []).append({"name": prev.get("name"), "cases": prev.get("cases"), "failures": prev.get("failures")})
                    else:
                        search_res.setdefault("also_ran", []).append({"name": r.get("name"), "cases": r.get("cases"), "failures": r.get("failures")})
                    if search_res.get("failures", 0) > 0:
                        break
    elif wants_replay:
        notes.append("replay crate not present")

    # ---- decide ---------------------------------------------------------------------------
    cex = None
    if search_res and search_res.get("failures", 0) > 0:
        cex = search_res.get("first_failure")
        # exclude counterexamples that are exactly a recorded known finding
        if cex and cex.get("finding_id") and any(f["id"] == cex.get("finding_id") for f in findings):
            cex = None
    # A failed obligation of an EDITED function without a failing input: was there a search that could have produced one?
    # props/reach.json (tools/reach.py, coverage of every search on the unchanged tree) lists the functions each search executes.
    # If a search of this property ran to completion, executes the function and found nothing, the check cannot tell code that
    # breaks the contract from a proof script that no longer fits the edited text (moved hints, a local whose meaning was
    # inverted): UNDECIDED.  If no search executes the function nothing could have exonerated it: VIOLATION (no-failing-input-found).
    if failed_real and not cex and not new_violation_from_replay:
        try:
            reach_tab = json.load(open(os.path.join(ROOT, "props", "reach.json")))
        except Exception:
            reach_tab = {}
        ran = []
        if search_res and not search_res.get("error"):
            ran.append(search_res.get("name"))
            ran += [x.get("name") for x in search_res.get("also_ran", []) if x.get("cases")]
        ran = [x for x in ran if x]
        for fr in list(failed_real):
            by = [nm for nm in ran if fr["obligation"] in reach_tab.get(nm, [])]
            if by:
                failed_real.remove(fr)
                undecided.append("obligation %s of an edited function failed, but the bounded search%s %s execute%s it and found no failing input in %s cases: not attributable to the code (proof script vs. edited text)" % (
                    fr["obligation"], "" if len(by) == 1 else "es", ", ".join(by), "s" if len(by) == 1 else "", search_res.get("cases")))
                notes.append("verifier output for %s: %s" % (fr["obligation"], (fr["messages"][0][:600] if fr["messages"] else "")))
    for fr in failed_real:
        violations.append(fr)
    for v in new_violation_from_replay:
        violations.append(v)
    if not violations and undecided and cex:
        violations.append({"obligation": "(undecided by the verifier: %s) -- bounded search on the real code" % "; ".join(undecided)[:300], "messages": []})

    exit_code = 0
    vio_line = None
    if violations:
        exit_code = 1
        rp = os.path.join(replay_dir, "%s-%d.json" % (pid, int(time.time())))
        rep = {"property": pid, "failed_obligations": violations,
               "counterexample": cex if cex else (new_violation_from_replay[0]["counterexample"] if new_violation_from_replay else None),
               "verifier": "verus " + (verus or {}).get("verus_version", ""),
               "verus_cmd": (verus or {}).get("cmd"),
               "source_items": [{"item": r["item"], "lines": r["lines"], "sha": r["token_sha"], "changed": not r["identical_to_annotated_baseline"],
                                 "hunks": r["transplanted_hunks"]} for r in (weave_report or {}).get("items", []) if not r["identical_to_annotated_baseline"]],
               "search": search_res, "undecided": undecided,
               "how_to_replay": "bin/check --replay <this file>  (re-runs the counterexample, if any, against the real crate)"}
        json.dump(rep, open(rp, "w"), indent=1)
        has_cex = rep["counterexample"] is not None
        vio_line = "VIOLATION property=%s replay=%s%s" % (pid, rp, "" if has_cex else " no-failing-input-found")
    elif undecided:
        exit_code = 2

    # ---- evidence -------------------------------------------------------------------------
    wall = time.time() - t_start
    samples = []
    if verus and verus.get("breakdown"):
        for ob in obligations[:400]:
            e = verus["breakdown"].get(ob)
            if e:
                samples.append({"obligation": ob, "discharged": ob in discharged, "smt_ms": e["ms"], "rlimit": e["rlimit"], "mode": e["mode"]})
    items = (weave_report or {}).get("items", [])
    trusted = list(prop.get("trusted_base", [])) + [
        "Verus %s (VIR/AIR encoding, Z3), rustc front end" % ((verus or {}).get("verus_version", "")),
        "vstd specifications of std collections/iterators/Option/cmp",
        "tools/weave.py + tools/rustlex.py: extraction of item token text (guard G1 checked on this run)",
    ]
    evidence = {
        "property_id": pid, "tier": tier, "seed": seed, "level": "proof",
        "coverage": {
            "obligations": len(obligations), "discharged": len(discharged),
            "checker_cmd": (verus or {}).get("cmd", "verus (not run: %s)" % "; ".join(undecided)[:200]),
            "trusted_base": trusted,
            "samples": samples[:60] if samples else [{"note": "no obligation was run", "why": undecided}],
            "explanation": prop.get("explanation", ""),
            "functions_under_contract": [{"item": r["item"], "file": r["file"], "lines": r["lines"], "token_sha": r["token_sha"],
                                          "identical_to_annotated_baseline": r["identical_to_annotated_baseline"]} for r in items if r["kind"] == "fn"],
            "normalisations": [{"item": r["item"], "n": r["normalisations"]} for r in items if r["normalisations"]],
            "assumed_contracts": prop.get("assumed", []),
            "assumption_scan": scan,
            "not_discharged": [v["obligation"] for v in violations] + failed_undecided + missing,
            "undecided": undecided,
            "vacuity": vac,
            "bounded_standins": standin_res,
            "known_findings": [{"id": f["id"], "what": f["what"], "reproduced": f.get("result", {}).get("reproduced")} for f in findings],
            "fixed_findings": fixed,
            "counterexample_search": search_res,
            "solver_time_s": round((verus or {}).get("smt_ms", 0) / 1000.0, 3),
            "verus_wall_s": (verus or {}).get("wall_s"),
            "back_end": "Z3 (bundled with Verus)",
            "unit_sha": (weave_report or {}).get("unit_sha"),
            "notes": notes,
        },
        "assumptions": prop.get("assumptions", []) + ["%s: %s" % (x["item"], x["why"]) for x in prop.get("assumed", [])],
        "wall_s": round(wall, 2),
        "violations": len(violations),
    }
    json.dump(evidence, open(ev_path, "w"), indent=1)

    # ---- report ---------------------------------------------------------------------------
    print("property %s tier=%s: %d/%d obligations discharged (verus %.1fs, smt %.2fs)%s" % (
        pid, tier, len(discharged), len(obligations), (verus or {}).get("wall_s") or 0, ((verus or {}).get("smt_ms") or 0) / 1000.0,
        "" if not vac else "; vacuity twins failing as required: %d/%d" % (vac["failed_as_required"], vac["functions"])))
    for s in standin_res:
        print("  bounded stand-in %s: %s cases, %s failures (bound: %s)" % (s.get("name"), s.get("cases"), s.get("failures"), s.get("bound")))
    for n in notes:
        print("  note: " + n)
    for kl in known_lines:
        print(kl)
    for u in undecided:
        print("UNDECIDED " + u)
    for v in violations:
        print("FAILED-OBLIGATION " + v["obligation"])
        for m in v.get("messages", [])[:2]:
            print("    " + m.replace("\n", "\n    ")[:1500])
    if vio_line:
        print(vio_line)
    sys.exit(exit_code)


if __name__ == "__main__":
    main()
