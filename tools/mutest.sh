#!/bin/sh
# developer aid: tools/mutest.sh <patch.diff> <ID>...  -- apply a patch to /repo, run the checks, undo it.
# Evidence files are written by every run; the ones of the unchanged tree are saved and restored here, so that a
# mutated run never ends up as committed evidence.
P="$1"; shift
git -C /repo apply "$P" || { echo "patch does not apply"; exit 3; }
for id in "$@"; do
  cp /verif/evidence/$id.json /tmp/mutest.$id.evidence.keep 2>/dev/null
  /verif/bin/check "$id" > /tmp/mutest.$id.out 2>&1; rc=$?
  cp /tmp/mutest.$id.evidence.keep /verif/evidence/$id.json 2>/dev/null
  echo "== $id exit=$rc"; grep -E "^(VIOLATION|UNDECIDED|FAILED-OBLIGATION|KNOWN-FINDING|property)" /tmp/mutest.$id.out | cut -c1-300
done
git -C /repo checkout -- .
