#!/bin/sh
# developer aid: tools/mutest.sh <patch.diff> <ID>...  -- apply a patch to /repo, run the checks, undo it
P="$1"; shift
git -C /repo apply "$P" || { echo "patch does not apply"; exit 3; }
for id in "$@"; do
  /verif/bin/check "$id" > /tmp/mutest.$id.out 2>&1; rc=$?
  echo "== $id exit=$rc"; grep -E "^(VIOLATION|UNDECIDED|FAILED-OBLIGATION|KNOWN-FINDING|property)" /tmp/mutest.$id.out | cut -c1-300
done
git -C /repo checkout -- .
