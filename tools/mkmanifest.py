#!/usr/bin/env python3
"""Regenerates MANIFEST.json from props/*.json + tools/manifest_text.json (texts per property)."""
import json, os, glob
ROOT = os.path.dirname(os.path.dirname(os.path.abspath(__file__)))
texts = json.load(open(os.path.join(ROOT, "tools", "manifest_text.json")))
props = [json.loads(l) for l in open(os.path.join(ROOT, "properties.jsonl"))]
checks, na = [], []
for p in props:
    pid = p["id"]
    t = texts.get(pid, {})
    if os.path.exists(os.path.join(ROOT, "props", pid + ".json")) and t.get("claimed"):
        checks.append({
            "property_id": pid,
            "quick_cmd": "bin/check %s --tier quick" % pid,
            "thorough_cmd": "bin/check %s --tier thorough" % pid,
            "evidence_file": "/verif/evidence/%s.json" % pid,
            "replay_cmd_template": "bin/check %s --replay {path}" % pid,
            "engine": "verus-contracts",
            "level_claimed": {"category": "proof", "text": t["text"], "design_ref": t.get("design_ref", "DESIGN.md §6")},
            "level_note": t["note"],
            "technique": t.get("technique", "contract-based deductive verification (Verus) of functions extracted from /repo on every run"),
        })
    else:
        na.append({"property_id": pid, "reason": t.get("na_reason", "check not built yet in this round (see DESIGN.md §12.2 work order)")})
m = {
    "version": 1,
    "setup_cmd": "bin/setup",
    "hooks": {"guard": "crdts_verif", "enable": "none needed: Verus works on text extracted from /repo/src, the replay crate uses the public API (path dependency on /repo)",
              "baseline_off_cmd": "cd /repo && cargo test --workspace --no-fail-fast --offline", "source_commits": [], "add_only": True},
    "engines": [
        {"name": "verus-contracts", "path": "tools/check.py + tools/weave.py + verus/src/*.rs", "serves_properties": [c["property_id"] for c in checks],
         "kind_free_text": "function contracts woven into items extracted from /repo/src on every run, discharged by Verus/Z3; spec-level lemmas derive the listed properties from the contracts"},
        {"name": "replay", "path": "replay/", "serves_properties": [c["property_id"] for c in checks],
         "kind_free_text": "Rust crate built against /repo: bounded stand-ins for assumed contracts, replays of known findings, small-scope counterexample search after a failed obligation"},
    ],
    "checks": checks,
    "not_applicable": na,
    "notes": "Exit codes of bin/check: 0 all obligations discharged (KNOWN-FINDING lines for recorded defects); 1 + VIOLATION line: the obligation of an edited function, discharged on the unchanged tree, failed -- with the failing input found by the property's small-scope search replayed on the real crate, or ending in no-failing-input-found where no search executes that function (props/reach.json); a failed bounded stand-in; or an undecided obligation plus a concrete counterexample. 2 UNDECIDED (tool limit, lost anchor, resource limit, failure of an unchanged function, or a failed obligation whose function a completed search exercised without finding a failing input) -- never an alarm. Fix commits in /repo and recorded findings: KNOWN_FINDINGS.txt; decision rule: DESIGN.md section 7.",
}
json.dump(m, open(os.path.join(ROOT, "MANIFEST.json"), "w"), indent=1)
print("checks:", [c["property_id"] for c in checks], "n/a:", [x["property_id"] for x in na])
