//! C11: counters, LWW/Max/Min registers, GSet against their exact aggregates (small scope).
use crate::report::Report;
use crdts::{CmRDT, CvRDT, Dot, GCounter, GSet, LWWReg, MaxReg, MinReg, PNCounter};
use num::bigint::{BigInt, BigUint};

pub fn standin_gset_merge(r: &mut Report) {
    r.target = "GSet::merge: final == old ∪ other".into();
    r.bound = "all pairs of subsets of {0,1,2,3} (256 pairs)".into();
    for x in 0u32..16 { for y in 0u32..16 {
        let mut a = GSet::new(); let mut b = GSet::new();
        for i in 0..4u8 { if x >> i & 1 == 1 { a.insert(i); } if y >> i & 1 == 1 { b.insert(i); } }
        a.merge(b);
        let got: u32 = (0..4u8).map(|i| if a.contains(&i) { 1 << i } else { 0 }).sum();
        r.case("gset.merge", got == (x | y) && a.read().len() == (x | y).count_ones() as usize, &|| format!("{:04b} {:04b}", x, y), &|| format!("got {:04b}", got));
    } }
}

/// all sequences over `n` symbols with length 0..=len
fn seqs(n: usize, len: usize) -> Vec<Vec<usize>> {
    let mut out = vec![vec![]];
    let mut cur = vec![vec![]];
    for _ in 0..len {
        let mut nxt = Vec::new();
        for s in &cur { for k in 0..n { let mut t: Vec<usize> = s.clone(); t.push(k); nxt.push(t); } }
        out.extend(nxt.iter().cloned());
        cur = nxt;
    }
    out
}

pub fn search(r: &mut Report, tier: &str, _seed: u64) {
    let deep = tier == "thorough";
    r.target = "C11 statements on the real GCounter/PNCounter/LWWReg/MaxReg/MinReg/GSet".into();
    r.bound = format!("generator programs of <= 3 inc/inc_many/dec ops over actors {{0,1}}, steps {{1,2}}; every delivery sequence (with duplicates, any order) of length <= {} ; pairwise merges; registers: all sequences of <= 3 writes over 4 values / 3 markers", if deep { 4 } else { 3 });
    // ---- GCounter / PNCounter ---------------------------------------------------------------
    // generator choices: (actor, steps, neg)
    let gens: Vec<(u8, u64, bool)> = vec![(0, 1, false), (0, 2, false), (1, 1, false), (1, 2, true), (0, 1, true)];
    let dlen = if deep { 4 } else { 3 };
    for prog in seqs(gens.len(), 3) {
        if prog.is_empty() { continue; }
        // origin replicas (one GCounter using only non-neg ops, one PNCounter)
        let mut g = GCounter::new();
        let mut p = PNCounter::new();
        let mut gops: Vec<Dot<u8>> = Vec::new();
        let mut pops = Vec::new();
        for k in &prog {
            let (a, s, neg) = gens[*k];
            if !neg {
                let op = if s == 1 { g.inc(a) } else { g.inc_many(a, s) };
                g.apply(op.clone());
                gops.push(op);
            }
            let op = match (neg, s) { (false, 1) => p.inc(a), (false, _) => p.inc_many(a, s), (true, 1) => p.dec(a), (true, _) => p.dec_many(a, s) };
            p.apply(op.clone());
            pops.push((op, a, s, neg));
        }
        // at the origin: sum of all increments
        let want_g: u64 = prog.iter().filter(|k| !gens[**k].2).map(|k| gens[*k].1).sum();
        r.case("gcounter.origin", g.read() == BigUint::from(want_g), &|| format!("{:?}", prog), &|| format!("read {}", g.read()));
        let want_p: i64 = prog.iter().map(|k| if gens[*k].2 { -(gens[*k].1 as i64) } else { gens[*k].1 as i64 }).sum();
        r.case("pncounter.origin", p.read() == BigInt::from(want_p), &|| format!("{:?}", prog), &|| format!("read {}", p.read()));
        // any delivery sequence of the ops (dups, reordering): read == sum over actors of the max learned total
        for d in seqs(gops.len().max(1), dlen) {
            if gops.is_empty() { break; }
            let mut rep = GCounter::new();
            let mut mx = [0u64; 2];
            let mut prev = BigUint::from(0u8);
            let mut mono = true;
            for i in &d { rep.apply(gops[*i].clone()); let o = &gops[*i]; mx[o.actor as usize] = mx[o.actor as usize].max(o.counter);
                let now = rep.read(); if now < prev { mono = false; } prev = now; }
            r.case("gcounter.delivery", rep.read() == BigUint::from(mx[0] + mx[1]) && mono, &|| format!("prog {:?} delivery {:?}", prog, d), &|| format!("read {} want {}", rep.read(), mx[0] + mx[1]));
        }
        for d in seqs(pops.len(), dlen) {
            let mut rep = PNCounter::new();
            let mut mp = [0u64; 2]; let mut mn = [0u64; 2];
            for i in &d { let (op, a, _, neg) = &pops[*i]; rep.apply(op.clone());
                if *neg { mn[*a as usize] = mn[*a as usize].max(op.dot.counter); } else { mp[*a as usize] = mp[*a as usize].max(op.dot.counter); } }
            let want = (mp[0] + mp[1]) as i64 - (mn[0] + mn[1]) as i64;
            r.case("pncounter.delivery", rep.read() == BigInt::from(want), &|| format!("prog {:?} delivery {:?}", prog, d), &|| format!("read {} want {}", rep.read(), want));
        }
        // merge of two partial replicas == union of knowledge
        if !gops.is_empty() {
            let subs = seqs(gops.len(), 2);
            for d1 in &subs { for d2 in &subs {
                let mut r1 = GCounter::new(); let mut r2 = GCounter::new(); let mut mx = [0u64; 2];
                for i in d1 { r1.apply(gops[*i].clone()); let o = &gops[*i]; mx[o.actor as usize] = mx[o.actor as usize].max(o.counter); }
                for i in d2 { r2.apply(gops[*i].clone()); let o = &gops[*i]; mx[o.actor as usize] = mx[o.actor as usize].max(o.counter); }
                r1.merge(r2);
                r.case("gcounter.merge", r1.read() == BigUint::from(mx[0] + mx[1]), &|| format!("prog {:?} {:?} + {:?}", prog, d1, d2), &|| format!("read {}", r1.read()));
            } }
        }
    }
    // ---- PNCounter: merge of two partial replicas == union of knowledge, on the positive AND the negative side ----
    {
        let gens2: Vec<(u8, u64, bool)> = vec![(0, 1, false), (1, 2, true), (0, 1, true), (1, 1, false)];
        for prog in seqs(gens2.len(), 3) {
            if prog.is_empty() { continue; }
            let mut p = PNCounter::new();
            let mut pops = Vec::new();
            for k in &prog {
                let (a, s, neg) = gens2[*k];
                let op = match (neg, s) { (false, 1) => p.inc(a), (false, _) => p.inc_many(a, s), (true, 1) => p.dec(a), (true, _) => p.dec_many(a, s) };
                p.apply(op.clone()); pops.push((op, a, neg));
            }
            let subs = seqs(pops.len(), 2);
            for d1 in &subs { for d2 in &subs {
                let (mut r1, mut r2) = (PNCounter::new(), PNCounter::new());
                let mut mp = [0u64; 2]; let mut mn = [0u64; 2];
                for (d, rep) in [(d1, &mut r1), (d2, &mut r2)] { for i in d { let (op, a, neg) = &pops[*i]; rep.apply(op.clone());
                    if *neg { mn[*a as usize] = mn[*a as usize].max(op.dot.counter); } else { mp[*a as usize] = mp[*a as usize].max(op.dot.counter); } } }
                let mut m12 = r1.clone(); m12.merge(r2.clone());
                let mut m21 = r2.clone(); m21.merge(r1.clone());
                let want = (mp[0] + mp[1]) as i64 - (mn[0] + mn[1]) as i64;
                r.case("pncounter.merge", m12.read() == BigInt::from(want) && m21.read() == BigInt::from(want) && m12 == m21, &|| format!("prog {:?} {:?} + {:?}", prog, d1, d2), &|| format!("read {} / {} want {}", m12.read(), m21.read(), want));
            } }
        }
    }
    // ---- edge values: zero steps, totals near u64::MAX on several actors (the SUM exceeds u64; per-actor totals do not) ----
    {
        let big = u64::MAX - 10;
        for steps in [0u64, 1, 7, big] {
            // an actor this counter has no entry for (zero steps: an empty batch counts nothing)
            let mut f = GCounter::new();
            let op = f.inc(1u8); f.apply(op);
            let op = f.inc_many(5u8, steps);
            r.case("gcounter.inc_many_dot_fresh_actor", op.counter == steps, &|| format!("inc(1); inc_many(5, {})", steps), &|| format!("dot {:?}", op));
            f.apply(op);
            r.case("gcounter.read_fresh_actor", f.read() == BigUint::from(1u8) + BigUint::from(steps), &|| format!("inc(1); inc_many(5, {})", steps), &|| format!("read {}", f.read()));
            let mut pf = PNCounter::new();
            let op = pf.inc_many(5u8, 9); pf.apply(op);
            let op = pf.dec_many(5u8, steps.min(1u64 << 40)); pf.apply(op);
            let op = pf.inc_many(6u8, steps.min(1u64 << 40)); pf.apply(op);
            r.case("pncounter.read_fresh_side", pf.read() == BigInt::from(9), &|| format!("inc_many(5,9); dec_many(5,{0}); inc_many(6,{0})", steps.min(1u64 << 40)), &|| format!("read {}", pf.read()));
            let mut g = GCounter::new();
            let op = g.inc(0u8); g.apply(op);
            let op = g.inc_many(0u8, steps);
            r.case("gcounter.inc_many_dot", op.counter as u128 == 1u128 + steps as u128, &|| format!("inc; inc_many(0, {})", steps), &|| format!("dot {:?}", op));
            g.apply(op);
            r.case("gcounter.read_edge", g.read() == BigUint::from(1u8) + BigUint::from(steps), &|| format!("inc; inc_many(0, {})", steps), &|| format!("read {}", g.read()));
            let mut h = GCounter::new();
            let op = h.inc_many(1u8, big); h.apply(op);
            g.merge(h);
            r.case("gcounter.read_beyond_u64", g.read() == BigUint::from(1u8) + BigUint::from(steps) + BigUint::from(big), &|| format!("inc; inc_many(0, {}); merge inc_many(1, MAX-10)", steps), &|| format!("read {}", g.read()));
            let mut p = PNCounter::new();
            let op = p.inc_many(0u8, steps); p.apply(op);
            let op = p.dec_many(1u8, steps); p.apply(op);
            let op = p.inc_many(2u8, big); p.apply(op);
            let op = p.inc(0u8); p.apply(op);
            let mut q = PNCounter::new();
            let op = q.inc_many(3u8, big); q.apply(op);
            p.merge(q);
            r.case("pncounter.read_edge", p.read() == BigInt::from(1) + BigInt::from(big) + BigInt::from(big), &|| format!("inc_many(0,{0}); dec_many(1,{0}); inc_many(2,MAX-10); inc(0); merge inc_many(3,MAX-10)", steps), &|| format!("read {}", p.read()));
        }
    }
    // ---- LWWReg -----------------------------------------------------------------------------
    let writes: Vec<(u8, u8)> = vec![(10, 1), (20, 2), (10, 3), (20, 3), (10, 2), (20, 1)]; // (val, marker)
    for d in seqs(writes.len(), 3) {
        // correct use: a marker identifies one write (unique markers)
        let mut by_marker = std::collections::BTreeMap::new();
        let mut unique = true;
        for i in &d { let (v, m) = writes[*i]; if *by_marker.entry(m).or_insert(v) != v { unique = false; } }
        if !unique { continue; }
        for via in 0..3 {
            let mut reg = LWWReg { val: 10u8, marker: 0u8 };
            let mut best = (10u8, 0u8);
            for i in &d {
                let (v, m) = writes[*i];
                match via { 0 => reg.update(v, m), 1 => reg.apply(LWWReg { val: v, marker: m }), _ => reg.merge(LWWReg { val: v, marker: m }) }
                if m > best.1 { best = (v, m); }
            }
            r.case("lwwreg.greatest_marker", (reg.val, reg.marker) == best, &|| format!("init (10,0); writes {:?} via {}", d.iter().map(|i| writes[*i]).collect::<Vec<_>>(), ["update", "apply", "merge"][via]), &|| format!("got {:?} want {:?}", (reg.val, reg.marker), best));
        }
    }
    for (v, m) in &writes { for (v2, m2) in &writes {
        let reg = LWWReg { val: *v, marker: *m };
        let conflict = m == m2 && v != v2;
        r.case("lwwreg.validate", reg.validate_update(v2, m2).is_err() == conflict && reg.validate_op(&LWWReg { val: *v2, marker: *m2 }).is_err() == conflict
               && reg.validate_merge(&LWWReg { val: *v2, marker: *m2 }).is_err() == conflict, &|| format!("{:?} vs {:?}", (v, m), (v2, m2)), &|| String::new());
    } }
    // ---- MaxReg / MinReg ----------------------------------------------------------------------
    for d in seqs(4, 3) {
        for via in 0..3 {
            let mut mx = MaxReg { val: 1u8 }; let mut mn = MinReg { val: 2u8 };
            let (mut wmx, mut wmn) = (1u8, 2u8);
            for i in &d { let v = *i as u8;
                match via { 0 => { mx.update(v); mn.update(v) } 1 => { mx.apply(v); mn.apply(v) } _ => { mx.merge(MaxReg { val: v }); mn.merge(MinReg { val: v }) } }
                wmx = wmx.max(v); wmn = wmn.min(v); }
            r.case("maxreg", *mx.read() == wmx, &|| format!("{:?} via {}", d, via), &|| format!("got {}", mx.read()));
            r.case("minreg", *mn.read() == wmn, &|| format!("{:?} via {}", d, via), &|| format!("got {}", mn.read()));
        }
    }
    // ---- GSet ------------------------------------------------------------------------------------
    for d in seqs(3, 3) {
        let mut s = GSet::new(); let mut want = std::collections::BTreeSet::new();
        for i in &d { s.apply(*i as u8); want.insert(*i as u8); }
        r.case("gset.apply", s.read() == want && (0..3u8).all(|e| s.contains(&e) == want.contains(&e)), &|| format!("{:?}", d), &|| format!("{:?}", s.read()));
    }
}

/// known finding F11-incmany-overflow
pub fn finding_incmany_overflow() -> (bool, String) {
    let res = std::panic::catch_unwind(|| {
        let mut g: GCounter<u8> = GCounter::new();
        g.apply(g.inc_many(0, u64::MAX));
        let op = g.inc_many(0, 1);
        g.apply(op.clone());
        (g.read(), op)
    });
    match res {
        Err(_) => (true, "inc_many(0,u64::MAX) then inc_many(0,1): arithmetic overflow panic".into()),
        Ok((read, op)) => {
            let want = BigUint::from(u64::MAX) + BigUint::from(1u8);
            (read != want, format!("inc_many(0,u64::MAX) then inc_many(0,1): op {:?}, read {} (sum of increments is {})", op, read, want))
        }
    }
}
