//! Replay engine (DESIGN §7): runs against the *real* crate (path dependency on /repo, rebuilt on
//! every check).  It never decides a property on its own; it provides
//!   standin <name> <tier>        bounded stand-ins for contracts the Verus units assume
//!   finding <id>                 replays of the recorded known findings
//!   search  <name> <tier> <seed> small-scope counterexample search, used only after an obligation
//!                                failed or could not be decided, to attach a concrete input
//!   replay  <file>               re-run the counterexample stored in a replay file
mod report;
mod c10;
mod c11;
mod c04;
mod c06;
mod c05;
mod c12;
mod c15;
mod c17;
mod findings;

use report::Report;

/// A panic of the real code in the middle of a search (a debug assertion, an `unwrap`, an arithmetic overflow introduced by a
/// change) is a failing case like any other: it is caught, reported with message and location, and reproduces on replay because the
/// enumeration is deterministic.  On the unchanged tree no search or stand-in panics.
static PANIC_MSG: std::sync::Mutex<String> = std::sync::Mutex::new(String::new());
fn install_panic_hook() {
    std::panic::set_hook(Box::new(|info| {
        let loc = info.location().map(|l| format!("{}:{}", l.file(), l.line())).unwrap_or_default();
        let msg = if let Some(s) = info.payload().downcast_ref::<&str>() { s.to_string() } else if let Some(s) = info.payload().downcast_ref::<String>() { s.clone() } else { "panic".to_string() };
        if let Ok(mut g) = PANIC_MSG.lock() { if g.is_empty() { *g = format!("panicked at {}: {}", loc, msg); } }
    }));
}
fn guarded(r: &mut Report, f: &mut dyn FnMut(&mut Report) -> bool) -> bool {
    let res = std::panic::catch_unwind(std::panic::AssertUnwindSafe(|| f(r)));
    match res {
        Ok(k) => k,
        Err(_) => {
            let n = r.cases + 1;
            let msg = PANIC_MSG.lock().map(|g| g.clone()).unwrap_or_default();
            r.case("no_panic", false, &|| format!("case #{} of the deterministic enumeration (the code under test panicked while this case was being run)", n), &|| msg.clone());
            true
        }
    }
}

fn main() {
    let args: Vec<String> = std::env::args().collect();
    if args.len() < 3 {
        println!("{{\"error\": \"usage: replay standin|finding|search|replay <name> [tier] [seed]\"}}");
        return;
    }
    install_panic_hook();
    let tier = args.get(3).map(|s| s.as_str()).unwrap_or("quick").to_string();
    let seed: u64 = args.get(4).and_then(|s| s.parse().ok()).unwrap_or(0);
    let out = match args[1].as_str() {
        "standin" => run_named(&args[2], &tier, seed, true),
        "search" => run_named(&args[2], &tier, seed, false),
        "finding" => findings::run(&args[2]),
        "explore" => format!("{:?}", c05::explore_mo(args[2].parse().unwrap_or(4), args.get(3).map(|s| s == "eq").unwrap_or(false))),
        "replay" => replay_file(&args[2]),
        _ => "{\"error\": \"unknown command\"}".to_string(),
    };
    println!("{}", out);
}

fn run_named(name: &str, tier: &str, seed: u64, standin: bool) -> String {
    let mut r = Report::new(name);
    let known = guarded(&mut r, &mut |r: &mut Report| { let mut r = r; match (standin, name) {
        (true, "vclock_iter") => { c10::standin_vclock_iter(&mut r); true }
        (false, "c10") => { c10::search(&mut r, tier, seed); true }
        (true, "gset_merge") => { c11::standin_gset_merge(&mut r); true }
        (false, "c11") => { c11::search(&mut r, tier, seed); true }
        (false, "c04") => { c04::search(&mut r, tier, seed); true }
        (false, "c06") => { c06::search(&mut r, tier, seed); true }
        (false, "c05") => { c05::search(&mut r, tier, seed); true }
        (false, "c05mo") => { c05::search_mo(&mut r, tier, seed); true }
        (false, "c05v") => { c05::search_val(&mut r, tier, seed); true }
        (true, "map_iters") => { c05::standin_map_iters(&mut r); true }
        (true, "orswot_iter") => { c04::standin_orswot_iter(&mut r); true }
        (true, "identifier_between") => { c12::standin_identifier_between(&mut r, tier); true }
        (true, "list_reads") => { c12::standin_list_reads(&mut r); true }
        (false, "c12") => { c12::search(&mut r, tier, seed); true }
        (true, "merkle_hash") => { c15::standin_merkle_hash(&mut r); true }
        (true, "merkle_reads") => { c15::standin_merkle_reads(&mut r); true }
        (false, "c15") => { c15::search(&mut r, tier, seed); true }
        (false, "c17") => { c17::search_c17(&mut r, tier); true }
        (false, "c18") => { c17::search_c18(&mut r, tier); true }
        (false, "c07") => { c17::search_c07(&mut r, tier); true }
        _ => false,
    } });
    if !known {
        return format!("{{\"error\": \"unknown {} {}\"}}", if standin { "standin" } else { "search" }, name);
    }
    r.to_json()
}

fn replay_file(path: &str) -> String {
    let text = match std::fs::read_to_string(path) { Ok(t) => t, Err(e) => return format!("{{\"error\": \"cannot read {}: {}\"}}", path, e) };
    let v: serde_json::Value = match serde_json::from_str(&text) { Ok(v) => v, Err(e) => return format!("{{\"error\": \"bad json: {}\"}}", e) };
    let cex = &v["counterexample"];
    if cex.is_null() {
        return "{\"reproduced\": false, \"detail\": \"replay file carries no counterexample (no-failing-input-found); it names the failed obligation and the verifier output\"}".to_string();
    }
    let search = cex["search"].as_str().unwrap_or("");
    let check = cex["check"].as_str().unwrap_or("");
    let input = cex["input"].as_str().unwrap_or("");
    let mut r = Report::new(search);
    r.want = Some((check.to_string(), input.to_string()));
    let sd = cex["seed"].as_u64().unwrap_or(0);
    let known = guarded(&mut r, &mut |r: &mut Report| { let mut r = r; match search {
        "c10" => { c10::search(&mut r, "thorough", sd); true }
        "c11" => { c11::search(&mut r, "thorough", sd); true }
        "c04" => { c04::search(&mut r, "thorough", sd); true }
        "c06" => { c06::search(&mut r, "thorough", sd); true }
        "c05" => { c05::search(&mut r, "thorough", cex["seed"].as_u64().unwrap_or(0)); true }
        "c05mo" => { c05::search_mo(&mut r, "thorough", cex["seed"].as_u64().unwrap_or(0)); true }
        "c05v" => { c05::search_val(&mut r, "thorough", cex["seed"].as_u64().unwrap_or(0)); true }
        "map_iters" => { c05::standin_map_iters(&mut r); true }
        "orswot_iter" => { c04::standin_orswot_iter(&mut r); true }
        "gset_merge" => { c11::standin_gset_merge(&mut r); true }
        "vclock_iter" => { c10::standin_vclock_iter(&mut r); true }
        "c12" => { c12::search(&mut r, "thorough", cex["seed"].as_u64().unwrap_or(0)); true }
        "identifier_between" => { c12::standin_identifier_between(&mut r, "thorough"); true }
        "list_reads" => { c12::standin_list_reads(&mut r); true }
        "c15" => { c15::search(&mut r, "thorough", cex["seed"].as_u64().unwrap_or(0)); true }
        "merkle_hash" => { c15::standin_merkle_hash(&mut r); true }
        "merkle_reads" => { c15::standin_merkle_reads(&mut r); true }
        "c17" => { c17::search_c17(&mut r, "thorough"); true }
        "c18" => { c17::search_c18(&mut r, "thorough"); true }
        "c07" => { c17::search_c07(&mut r, "thorough"); true }
        _ => false,
    } });
    if !known { return format!("{{\"error\": \"unknown search {}\"}}", search); }
    format!("{{\"reproduced\": {}, \"check\": {:?}, \"input\": {:?}, \"detail\": {:?}}}", r.want_hit.is_some(), check, input, r.want_hit.unwrap_or_default())
}
