//! Orswot small-scope search: programs of API-generated ops over 2-3 replicas executed on the real
//! crate and compared with the knowledge-set denotation taken from the property statement
//! ("present iff some applied add is not covered by an applied remove of that member").
use crate::report::Report;
use crdts::ctx::ReadCtx;
use crdts::orswot::{Op, Orswot};
use crdts::{CmRDT, CvRDT, Dot, VClock};
use std::collections::{BTreeMap, BTreeSet, HashSet};

pub type O = Orswot<u8, u8>;
static STOP: std::sync::atomic::AtomicBool = std::sync::atomic::AtomicBool::new(false);

/// denotation: members present and their witness clocks, from the set of applied ops
fn den(ops: &[Op<u8, u8>]) -> (BTreeMap<u8, u64>, BTreeMap<u8, BTreeMap<u8, u64>>) {
    let mut clock: BTreeMap<u8, u64> = BTreeMap::new();
    let mut ent: BTreeMap<u8, BTreeMap<u8, u64>> = BTreeMap::new();
    for op in ops {
        if let Op::Add { dot, members } = op {
            let c = clock.entry(dot.actor).or_insert(0);
            if dot.counter > *c { *c = dot.counter; }
            for m in members {
                let covered = ops.iter().any(|r| match r { Op::Rm { clock, members: ms } => ms.contains(m) && clock.get(&dot.actor) >= dot.counter, _ => false });
                if !covered {
                    let e = ent.entry(*m).or_default().entry(dot.actor).or_insert(0);
                    if dot.counter > *e { *e = dot.counter; }
                }
            }
        }
    }
    (clock, ent)
}

pub fn state(o: &O) -> (BTreeMap<u8, u64>, BTreeMap<u8, BTreeMap<u8, u64>>) {
    let clock: BTreeMap<u8, u64> = o.clock().dots.clone();
    let mut ent = BTreeMap::new();
    for m in o.read().val {
        ent.insert(m, o.contains(&m).rm_clock.dots.clone());
    }
    (clock, ent)
}

fn check_ctx(r: &mut Report, o: &O, what: &dyn Fn() -> String) {
    // C07 on this state: add ctx == clock; rm ctx of a member == its witnesses, never exceeding the add ctx; empty iff absent
    let rc: ReadCtx<HashSet<u8>, u8> = o.read();
    for m in 0..3u8 {
        let c = o.contains(&m);
        let ok = c.add_clock == rc.add_clock && c.val == rc.val.contains(&m) && (c.rm_clock.is_empty() == !c.val) && c.rm_clock <= c.add_clock;
        r.case("orswot.read_ctx", ok, what, &|| format!("member {} ctx {:?}", m, c));
    }
    let n = o.iter().count();
    r.case("orswot.iter", n == rc.val.len() && o.iter().all(|x| rc.val.contains(x.val) && x.rm_clock == o.contains(x.val).rm_clock && x.add_clock == rc.add_clock), what, &|| "iter disagrees with read/contains".into());
}

pub fn standin_orswot_iter(r: &mut Report) {
    r.target = "Orswot::iter (verified against the Map-adapter shim; this exercises the shim on the real crate): yields each present member once with (replica clock, member witness clock)".into();
    r.bound = "all states reached by <= 3 generated ops over members {0,1,2}, actors {1,2}".into();
    let mut seen = 0;
    gen_programs(3, &mut |reps: &Vec<O>, _h: &Vec<Vec<Op<u8, u8>>>, desc: &String| {
        for o in reps { check_ctx(r, o, &|| desc.clone()); }
        seen += 1;
    });
}

/// enumerate programs: at each step some replica (actor = index+1) performs add(m) / rm(m) / add_all or
/// receives an op / merges a peer.  Calls `f` on every reached configuration.
pub fn gen_programs(depth: usize, f: &mut dyn FnMut(&Vec<O>, &Vec<Vec<Op<u8, u8>>>, &String)) { gen_programs_n(2, depth, f) }
pub fn gen_programs_n(nrep: usize, depth: usize, f: &mut dyn FnMut(&Vec<O>, &Vec<Vec<Op<u8, u8>>>, &String) -> ()) {
    fn rec(reps: Vec<O>, known: Vec<Vec<Op<u8, u8>>>, all_ops: Vec<Op<u8, u8>>, desc: String, depth: usize, f: &mut dyn FnMut(&Vec<O>, &Vec<Vec<Op<u8, u8>>>, &String)) {
        f(&reps, &known, &desc);
        if depth == 0 || STOP.load(std::sync::atomic::Ordering::Relaxed) { return; }
        let n = reps.len();
        for i in 0..n {
            let actor = (i + 1) as u8;
            for m in 0..2u8 {
                // local add
                let mut r2 = reps.clone(); let mut k2 = known.clone(); let mut a2 = all_ops.clone();
                let op = r2[i].add(m, r2[i].read().derive_add_ctx(actor));
                r2[i].apply(op.clone()); k2[i].push(op.clone()); a2.push(op);
                rec(r2, k2, a2, format!("{} r{}:add({})", desc, i, m), depth - 1, f);
                // local rm with the context read
                let mut r2 = reps.clone(); let mut k2 = known.clone(); let mut a2 = all_ops.clone();
                let op = r2[i].rm(m, r2[i].contains(&m).derive_rm_ctx());
                r2[i].apply(op.clone()); k2[i].push(op.clone()); a2.push(op);
                rec(r2, k2, a2, format!("{} r{}:rm({})", desc, i, m), depth - 1, f);
            }
            {
                // one add_all of both members (a single dot witnessing two members)
                let mut r2 = reps.clone(); let mut k2 = known.clone(); let mut a2 = all_ops.clone();
                let op = r2[i].add_all(vec![0u8, 1u8], r2[i].read().derive_add_ctx(actor));
                r2[i].apply(op.clone()); k2[i].push(op.clone()); a2.push(op);
                rec(r2, k2, a2, format!("{} r{}:add_all(0,1)", desc, i), depth - 1, f);
            }
            // deliver any op (any order, duplicates allowed; per-actor order is enforced below)
            for (j, op) in all_ops.iter().enumerate() {
                if let Op::Add { dot, .. } = op {
                    // per-actor issue order: deliver only when the previous dot of that actor is known (or it is a duplicate)
                    if reps[i].clock().get(&dot.actor) + 1 < dot.counter { continue; }
                }
                let mut r2 = reps.clone(); let mut k2 = known.clone();
                r2[i].apply(op.clone()); k2[i].push(op.clone());
                rec(r2, k2, all_ops.clone(), format!("{} r{}<-op{}", desc, i, j), depth - 1, f);
            }
            for j in 0..n {
                if i == j { continue; }
                let mut r2 = reps.clone(); let mut k2 = known.clone();
                let other = r2[j].clone();
                r2[i].merge(other);
                let kj = k2[j].clone(); k2[i].extend(kj);
                rec(r2, k2, all_ops.clone(), format!("{} r{}<-merge(r{})", desc, i, j), depth - 1, f);
            }
        }
    }
    let reps: Vec<O> = (0..nrep).map(|_| O::new()).collect();
    rec(reps.clone(), vec![vec![]; nrep], vec![], String::new(), depth, f);
}

/// C04 (builder clause): `rm(member, ctx)` asks for the removal of exactly `member` under exactly the context the caller observed
fn check_rm_op(r: &mut Report, op: &Op<u8, u8>, m: u8, seen: &VClock<u8>, desc: &dyn Fn() -> String) {
    let ok = match op { Op::Rm { clock, members } => clock == seen && members.len() == 1 && members.contains(&m), _ => false };
    r.case("orswot.rm_op_is_the_observed_context", ok, desc, &|| format!("rm({}) under context {:?} built {:?}", m, seen, op));
}
fn lcg(s: &mut u64) -> u64 { *s = s.wrapping_mul(6364136223846793005).wrapping_add(1442695040888963407); *s >> 33 }

/// random programs (3 replicas, members {0,1,2}): longer histories than the exhaustive phase reaches, e.g. several
/// removes sharing one context that overtake the adds they observed
fn random_walks(r: &mut Report, n: usize, len: usize, seed: u64) {
    r.bound.push_str(&format!("; then {} random programs of {} steps over 3 replicas, members {{0,1,2}} (seed {})", n, len, seed));
    let mut s = seed.wrapping_add(0xabcdef12345);
    for _ in 0..n {
        let mut reps: Vec<O> = vec![O::new(), O::new(), O::new()];
        let mut known: Vec<Vec<Op<u8, u8>>> = vec![vec![]; 3];
        let mut all: Vec<Op<u8, u8>> = vec![];
        let mut desc = String::new();
        for _ in 0..len {
            let i = (lcg(&mut s) % 3) as usize;
            let actor = (i + 1) as u8;
            match lcg(&mut s) % 8 {
                0 | 1 => { let m = (lcg(&mut s) % 3) as u8; let op = reps[i].add(m, reps[i].read().derive_add_ctx(actor)); reps[i].apply(op.clone()); known[i].push(op.clone()); all.push(op); desc.push_str(&format!(" r{}:add({})", i, m)); }
                2 => { let m = (lcg(&mut s) % 3) as u8; let seen = reps[i].contains(&m).derive_rm_ctx().clock; let op = reps[i].rm(m, reps[i].contains(&m).derive_rm_ctx()); check_rm_op(r, &op, m, &seen, &|| format!("{} r{}:rm({})", desc, i, m)); reps[i].apply(op.clone()); known[i].push(op.clone()); all.push(op); desc.push_str(&format!(" r{}:rm({})", i, m)); }
                3 => {
                    // two removes from ONE read context (same clock, different members)
                    let ops: Vec<Op<u8, u8>> = (0..2u8).map(|m| reps[i].rm(m, reps[i].read().derive_rm_ctx())).collect();
                    let seen = reps[i].read().derive_rm_ctx().clock;
                    for (m, op) in ops.iter().enumerate() { check_rm_op(r, op, m as u8, &seen, &|| format!("{} r{}:rm({})@read", desc, i, m)); }
                    for op in ops { reps[i].apply(op.clone()); known[i].push(op.clone()); all.push(op); }
                    desc.push_str(&format!(" r{}:rm(0),rm(1)@read", i));
                }
                4 | 5 | 6 => {
                    if all.is_empty() { continue; }
                    let j = (lcg(&mut s) as usize) % all.len();
                    if let Op::Add { dot, .. } = &all[j] { if reps[i].clock().get(&dot.actor) + 1 < dot.counter { continue; } }
                    reps[i].apply(all[j].clone()); known[i].push(all[j].clone()); desc.push_str(&format!(" r{}<-op{}", i, j));
                }
                _ => { let j = (i + 1 + (lcg(&mut s) % 2) as usize) % 3; let o = reps[j].clone(); reps[i].merge(o); let kj = known[j].clone(); known[i].extend(kj); desc.push_str(&format!(" r{}<-merge(r{})", i, j)); }
            }
            for (q, o) in reps.iter().enumerate() {
                let want = den(&known[q]); let got = state(o);
                r.case("orswot.den", want == got, &|| format!("{} @r{}", desc, q), &|| format!("state {:?} want {:?}", got, want));
            }
            // C16: the verdict on EVERY op of the history at every replica is "an add must not skip a counter of its actor"
            for (q, o) in reps.iter().enumerate() {
                for (j, op) in all.iter().enumerate() {
                    let want_ok = match op { Op::Add { dot, .. } => dot.counter <= o.clock().get(&dot.actor) + 1, Op::Rm { .. } => true };
                    let got = o.validate_op(op);
                    r.case("orswot.validate_op_verdict", got.is_ok() == want_ok, &|| format!("{} @r{} validate_op(op{})", desc, q, j), &|| format!("got {:?}, want ok = {}", got, want_ok));
                }
            }
            for a in 0..3 { for b in 0..a {
                let ka: BTreeSet<String> = known[a].iter().map(|o| format!("{:?}", o)).collect();
                let kb: BTreeSet<String> = known[b].iter().map(|o| format!("{:?}", o)).collect();
                if ka == kb { r.case("orswot.same_knowledge_eq", reps[a] == reps[b], &|| desc.clone(), &|| format!("r{} {:?} != r{} {:?}", a, reps[a], b, reps[b])); }
            } }
            if r.failures > 0 { return; }
        }
    }
}

pub fn search(r: &mut Report, tier: &str, _seed: u64) {
    let depth = if tier == "thorough" { 5 } else { 4 };
    r.target = "Orswot (C04/C07 and the Orswot rows of C01-C03, C08, C09): reads == knowledge-set denotation".into();
    r.bound = format!("all programs of <= {} steps over 2 replicas (actors 1,2), members {{0,1}}: local add/rm with read contexts, delivery of any generated op in per-actor order with duplicates, merges", depth);
    gen_programs(depth, &mut |reps: &Vec<O>, known: &Vec<Vec<Op<u8, u8>>>, desc: &String| {
        for (i, o) in reps.iter().enumerate() {
            let want = den(&known[i]);
            let got = state(o);
            r.case("orswot.den", want == got, &|| format!("{} @r{}", desc, i), &|| format!("state {:?} want {:?}", got, want));
        }
        // equal knowledge => equal reads (C01/C03)
        let k0: BTreeSet<String> = known[0].iter().map(|o| format!("{:?}", o)).collect();
        let k1: BTreeSet<String> = known[1].iter().map(|o| format!("{:?}", o)).collect();
        if k0 == k1 {
            r.case("orswot.same_knowledge_same_read", state(&reps[0]) == state(&reps[1]), &|| desc.clone(), &|| format!("{:?} vs {:?}", state(&reps[0]), state(&reps[1])));
            // C20: equal knowledge gives structurally equal state (pending removes included)
            r.case("orswot.same_knowledge_eq", reps[0] == reps[1], &|| desc.clone(), &|| format!("{:?} != {:?}", reps[0], reps[1]));
        }
    });
    if r.failures == 0 { random_walks(r, if tier == "thorough" { 200000 } else { 20000 }, 12, _seed); }
    // deeper: three replicas (only reached when the two-replica space showed nothing; stops at the first failure)
    if r.failures == 0 && tier != "quick-noextra" {
        let d3 = if tier == "thorough" { 5 } else { 4 };
        r.bound.push_str(&format!("; then all programs of <= {} steps over 3 replicas incl. add_all", d3));
        gen_programs_n(3, d3, &mut |reps: &Vec<O>, known: &Vec<Vec<Op<u8, u8>>>, desc: &String| {
            for (i, o) in reps.iter().enumerate() {
                let want = den(&known[i]);
                let got = state(o);
                let ok = want == got;
                r.case("orswot.den3", ok, &|| format!("{} @r{}", desc, i), &|| format!("state {:?} want {:?}", got, want));
                if !ok { STOP.store(true, std::sync::atomic::Ordering::Relaxed); }
            }
        });
    }
    // read contexts on a sample of states
    gen_programs(3, &mut |reps: &Vec<O>, _k, desc: &String| { for o in reps { check_ctx(r, o, &|| desc.clone()); } });
    // validate_op (C16): in-order op accepted at origin and at any replica that has the predecessors; gap rejected
    let mut a = O::new();
    let op1 = a.add(0, a.read().derive_add_ctx(1)); a.apply(op1.clone());
    let op2 = a.add(1, a.read().derive_add_ctx(1));
    let b = O::new();
    r.case("orswot.validate_op", a.validate_op(&op2).is_ok() && b.validate_op(&op1).is_ok() && b.validate_op(&op2).is_err() && a.validate_op(&op1).is_ok(), &|| "add,add by actor 1".into(), &|| String::new());
    let _ = (Dot::new(0u8, 0), VClock::<u8>::new());
}
