//! Map: key-layer search (presence / entry clocks == knowledge-set denotation, as for Orswot with
//! Up(dot,key,_) read as Add(dot,{key})) and the recorded known findings of the value layer.
use crate::report::Report;
use crdts::map::{Map, Op};
use crdts::mvreg::{self, MVReg};
use crdts::orswot::{self, Orswot};
use crdts::{CmRDT, CvRDT, Dot, VClock};
use std::collections::{BTreeMap, BTreeSet};

type MM = Map<u8, MVReg<u8, u8>, u8>;

/// C05 (builder clause): `rm(key, ctx)` asks for the removal of exactly `key` under exactly the context the caller observed
fn check_rm_op(r: &mut Report, op: &Op<u8, MVReg<u8, u8>, u8>, k: u8, seen: &VClock<u8>, desc: &dyn Fn() -> String) {
    let ok = match op { Op::Rm { clock, keyset } => clock == seen && keyset.len() == 1 && keyset.contains(&k), _ => false };
    r.case("map.rm_op_is_the_observed_context", ok, desc, &|| format!("rm({}) under context {:?} built {:?}", k, seen, op));
}
type MO = Map<u8, Orswot<u8, u8>, u8>;

fn den_keys(ops: &[Op<u8, MVReg<u8, u8>, u8>]) -> (BTreeMap<u8, u64>, BTreeMap<u8, BTreeMap<u8, u64>>) {
    let mut clock: BTreeMap<u8, u64> = BTreeMap::new();
    let mut ent: BTreeMap<u8, BTreeMap<u8, u64>> = BTreeMap::new();
    for op in ops {
        if let Op::Up { dot, key, .. } = op {
            let c = clock.entry(dot.actor).or_insert(0);
            if dot.counter > *c { *c = dot.counter; }
            let covered = ops.iter().any(|r| match r { Op::Rm { clock, keyset } => keyset.contains(key) && clock.get(&dot.actor) >= dot.counter, _ => false });
            if !covered {
                let e = ent.entry(*key).or_default().entry(dot.actor).or_insert(0);
                if dot.counter > *e { *e = dot.counter; }
            }
        }
    }
    (clock, ent)
}
fn state_keys(m: &MM) -> (BTreeMap<u8, u64>, BTreeMap<u8, BTreeMap<u8, u64>>) {
    let clock = m.read_ctx().add_clock.dots.clone();
    let mut ent = BTreeMap::new();
    for k in 0..3u8 {
        let g = m.get(&k);
        if g.val.is_some() { ent.insert(k, g.rm_clock.dots.clone()); }
    }
    (clock, ent)
}

static STOP: std::sync::atomic::AtomicBool = std::sync::atomic::AtomicBool::new(false);

fn rec(reps: Vec<MM>, known: Vec<Vec<Op<u8, MVReg<u8, u8>, u8>>>, all: Vec<Op<u8, MVReg<u8, u8>, u8>>, desc: String, depth: usize, nv: u8, r: &mut Report) {
    for (i, m) in reps.iter().enumerate() {
        let want = den_keys(&known[i]);
        let got = state_keys(m);
        let ok = want == got;
        r.case("map.keys_den", ok, &|| format!("{} @r{}", desc, i), &|| format!("state {:?} want {:?}", got, want));
        // read contexts (C07) and iterator reads agree with get()
        let n = m.keys().count();
        let ctx_ok = n == got.1.len() && m.len().val == n && m.is_empty().val == (n == 0)
            && m.keys().all(|x| x.add_clock == m.read_ctx().add_clock && x.rm_clock == m.get(x.val).rm_clock)
            && m.iter().all(|x| x.add_clock == m.read_ctx().add_clock && x.rm_clock == m.get(x.val.0).rm_clock && Some(x.val.1.clone()) == m.get(x.val.0).val)
            && m.values().count() == n && m.values().all(|x| x.add_clock == m.read_ctx().add_clock);
        r.case("map.read_ctx", ctx_ok, &|| format!("{} @r{}", desc, i), &|| "keys/iter/values/len disagree with get".into());
        if !ok || !ctx_ok { STOP.store(true, std::sync::atomic::Ordering::Relaxed); }
    }
    if depth == 0 || STOP.load(std::sync::atomic::Ordering::Relaxed) { return; }
    let n = reps.len();
    for i in 0..n {
        let actor = (i + 1) as u8;
        for k in 0..2u8 {
            let mut r2 = reps.clone(); let mut k2 = known.clone(); let mut a2 = all.clone();
            let ctx = r2[i].read_ctx().derive_add_ctx(actor);
            let op = r2[i].update(k, ctx, |reg, c| reg.write(nv, c));
            r2[i].apply(op.clone()); k2[i].push(op.clone()); a2.push(op);
            rec(r2, k2, a2, format!("{} r{}:up({})", desc, i, k), depth - 1, nv + 1, r);
            let mut r2 = reps.clone(); let mut k2 = known.clone(); let mut a2 = all.clone();
            let seen = r2[i].get(&k).derive_rm_ctx().clock;
            let op = r2[i].rm(k, r2[i].get(&k).derive_rm_ctx());
            check_rm_op(r, &op, k, &seen, &|| format!("{} r{}:rm({})", desc, i, k));
            let seen_all = r2[i].read_ctx().derive_rm_ctx().clock;
            let op_all = r2[i].rm(k, r2[i].read_ctx().derive_rm_ctx());
            check_rm_op(r, &op_all, k, &seen_all, &|| format!("{} r{}:rm({})@read_ctx (built only)", desc, i, k));
            r2[i].apply(op.clone()); k2[i].push(op.clone()); a2.push(op);
            rec(r2, k2, a2, format!("{} r{}:rm({})", desc, i, k), depth - 1, nv, r);
        }
        for (j, op) in all.iter().enumerate() {
            if let Op::Up { dot, .. } = op { if reps[i].read_ctx().add_clock.get(&dot.actor) + 1 < dot.counter { continue; } }
            let mut r2 = reps.clone(); let mut k2 = known.clone();
            r2[i].apply(op.clone()); k2[i].push(op.clone());
            rec(r2, k2, all.clone(), format!("{} r{}<-op{}", desc, i, j), depth - 1, nv, r);
        }
        for j in 0..n { if i != j {
            let mut r2 = reps.clone(); let mut k2 = known.clone();
            let other = r2[j].clone(); r2[i].merge(other);
            let kj = k2[j].clone(); k2[i].extend(kj);
            rec(r2, k2, all.clone(), format!("{} r{}<-merge(r{})", desc, i, j), depth - 1, nv, r);
        } }
    }
}

pub fn search(r: &mut Report, tier: &str, _seed: u64) {
    let d2 = if tier == "thorough" { 5 } else { 4 };
    r.target = "Map<u8, MVReg> key layer (C05 presence, C07 contexts): keys and entry clocks == knowledge-set denotation".into();
    r.bound = format!("all programs of <= {} steps over 2 replicas, keys {{0,1}}: update/rm with read contexts, per-actor-ordered delivery with duplicates, merges (value layer excluded: known findings)", d2);
    STOP.store(false, std::sync::atomic::Ordering::Relaxed);
    rec(vec![MM::new(), MM::new()], vec![vec![], vec![]], vec![], String::new(), d2, 1, r);
    if r.failures == 0 { random_walks(r, if tier == "thorough" { 100000 } else { 10000 }, 12, _seed); }
}

fn lcg(s: &mut u64) -> u64 { *s = s.wrapping_mul(6364136223846793005).wrapping_add(1442695040888963407); *s >> 33 }

/// random programs (3 replicas, keys {0,1,2}): longer histories than the exhaustive phase reaches, e.g. several key
/// removes issued under ONE read context that overtake the updates they observed, and merges of replicas each holding one
fn random_walks(r: &mut Report, n: usize, len: usize, seed: u64) {
    r.bound.push_str(&format!("; then {} random programs of {} steps over 3 replicas, keys {{0,1,2}} (seed {})", n, len, seed));
    let mut s = seed.wrapping_add(0x77aa55);
    for _ in 0..n {
        let mut reps: Vec<MM> = vec![MM::new(), MM::new(), MM::new()];
        let mut known: Vec<Vec<Op<u8, MVReg<u8, u8>, u8>>> = vec![vec![]; 3];
        let mut all: Vec<Op<u8, MVReg<u8, u8>, u8>> = vec![];
        let mut desc = String::new();
        let mut nv = 1u8;
        for _ in 0..len {
            let i = (lcg(&mut s) % 3) as usize;
            let actor = (i + 1) as u8;
            match lcg(&mut s) % 8 {
                0 | 1 => { let k = (lcg(&mut s) % 3) as u8; let ctx = reps[i].read_ctx().derive_add_ctx(actor); let v = nv; nv = nv.wrapping_add(1); let op = reps[i].update(k, ctx, |reg, c| reg.write(v, c)); reps[i].apply(op.clone()); known[i].push(op.clone()); all.push(op); desc.push_str(&format!(" r{}:up({})", i, k)); }
                2 => { let k = (lcg(&mut s) % 3) as u8; let seen = reps[i].get(&k).derive_rm_ctx().clock; let op = reps[i].rm(k, reps[i].get(&k).derive_rm_ctx()); check_rm_op(r, &op, k, &seen, &|| format!("{} r{}:rm({})", desc, i, k)); reps[i].apply(op.clone()); known[i].push(op.clone()); all.push(op); desc.push_str(&format!(" r{}:rm({})", i, k)); }
                3 => {
                    // 'clear what I can see': removes of two keys from ONE read context (same clock)
                    let ops: Vec<Op<u8, MVReg<u8, u8>, u8>> = (0..2u8).map(|k| reps[i].rm(k, reps[i].read_ctx().derive_rm_ctx())).collect();
                    let seen = reps[i].read_ctx().derive_rm_ctx().clock;
                    for (k, op) in ops.iter().enumerate() { check_rm_op(r, op, k as u8, &seen, &|| format!("{} r{}:rm({})@read_ctx", desc, i, k)); }
                    for op in ops { reps[i].apply(op.clone()); known[i].push(op.clone()); all.push(op); }
                    desc.push_str(&format!(" r{}:rm(0),rm(1)@read_ctx", i));
                }
                4 | 5 | 6 => {
                    if all.is_empty() { continue; }
                    let j = (lcg(&mut s) as usize) % all.len();
                    if let Op::Up { dot, .. } = &all[j] { if reps[i].read_ctx().add_clock.get(&dot.actor) + 1 < dot.counter { continue; } }
                    reps[i].apply(all[j].clone()); known[i].push(all[j].clone()); desc.push_str(&format!(" r{}<-op{}", i, j));
                }
                _ => { let j = (i + 1 + (lcg(&mut s) % 2) as usize) % 3; let o = reps[j].clone(); reps[i].merge(o); let kj = known[j].clone(); known[i].extend(kj); desc.push_str(&format!(" r{}<-merge(r{})", i, j)); }
            }
            for (q, m) in reps.iter().enumerate() {
                let want = den_keys(&known[q]); let got = state_keys(m);
                r.case("map.keys_den", want == got, &|| format!("{} @r{}", desc, q), &|| format!("state {:?} want {:?}", got, want));
                // C16: the verdict of validate_op on every op of the history: removes accepted; an update rejected exactly on a gap at
                // the map clock or at the key's entry clock (the latter is known finding F16; MVReg values never reject)
                for (j, op) in all.iter().enumerate() {
                    let want_ok = match op { Op::Up { dot, key, .. } => dot.counter <= m.read_ctx().add_clock.get(&dot.actor) + 1 && dot.counter <= m.get(key).rm_clock.get(&dot.actor) + 1, Op::Rm { .. } => true };
                    let gotv = m.validate_op(op);
                    r.case("map.validate_op_verdict", gotv.is_ok() == want_ok, &|| format!("{} @r{} validate_op(op{})", desc, q, j), &|| format!("got {:?}, want ok = {}", gotv, want_ok));
                }
            }
            if r.failures > 0 { return; }
        }
    }
}

/// all Map<u8, MVReg> states the generator reaches in `depth` steps over 2 replicas (deduplicated), pending removes included
pub fn map_states(depth: usize) -> Vec<(MM, String)> {
    fn go(reps: Vec<MM>, all: Vec<Op<u8, MVReg<u8, u8>, u8>>, desc: String, depth: usize, nv: u8, seen: &mut BTreeSet<String>, out: &mut Vec<(MM, String)>) {
        for m in &reps { let key = format!("{:?}", m); if seen.insert(key) { out.push((m.clone(), desc.clone())); } }
        if depth == 0 { return; }
        for i in 0..reps.len() {
            let actor = (i + 1) as u8;
            for k in 0..2u8 {
                let mut r2 = reps.clone(); let mut a2 = all.clone();
                let ctx = r2[i].read_ctx().derive_add_ctx(actor);
                let op = r2[i].update(k, ctx, |reg, c| reg.write(nv, c)); r2[i].apply(op.clone()); a2.push(op);
                go(r2, a2, format!("{} r{}:up({})", desc, i, k), depth - 1, nv + 1, seen, out);
                let mut r2 = reps.clone(); let mut a2 = all.clone();
                let op = r2[i].rm(k, r2[i].get(&k).derive_rm_ctx()); r2[i].apply(op.clone()); a2.push(op);
                go(r2, a2, format!("{} r{}:rm({})", desc, i, k), depth - 1, nv, seen, out);
            }
            for (j, op) in all.iter().enumerate() {
                if let Op::Up { dot, .. } = op { if reps[i].read_ctx().add_clock.get(&dot.actor) + 1 < dot.counter { continue; } }
                let mut r2 = reps.clone(); r2[i].apply(op.clone());
                go(r2, all.clone(), format!("{} r{}<-op{}", desc, i, j), depth - 1, nv, seen, out);
            }
        }
    }
    let mut seen = BTreeSet::new(); let mut out = vec![];
    go(vec![MM::new(), MM::new()], vec![], String::new(), depth, 1, &mut seen, &mut out);
    out
}

pub fn standin_map_iters(r: &mut Report) {
    r.target = "Map::keys / values / iter (verified against the Map-adapter shim; this exercises the shim on the real crate): one item per present key with (map clock, entry clock)".into();
    r.bound = "all states reached by <= 3 steps over 2 replicas, keys {0,1}".into();
    STOP.store(false, std::sync::atomic::Ordering::Relaxed);
    rec(vec![MM::new(), MM::new()], vec![vec![], vec![]], vec![], String::new(), 3, 1, r);
}

// ---------------------------------------------------------------- recorded known findings
/// F03: merging a state is not the same as receiving the ops behind it (Map::merge "deleted information")
pub fn finding_merge_deleted_info() -> (bool, String) {
    let mut a: Map<&str, Orswot<&str, u8>, u8> = Map::new();
    let op1 = a.update("bob", a.read_ctx().derive_add_ctx(1), |s, c| s.add("janet", c));
    a.apply(op1.clone());
    let mut b = a.clone();
    let op2 = a.update("bob", a.read_ctx().derive_add_ctx(1), |s, c| s.add("erik", c));
    a.apply(op2.clone());
    let rm = b.rm("bob", b.get(&"bob").derive_rm_ctx());
    b.apply(rm.clone());
    // op exchange
    let (mut a_ops, mut b_ops) = (a.clone(), b.clone());
    a_ops.apply(rm.clone());
    b_ops.apply(op2.clone());
    // state merge
    let mut a_mrg = a.clone();
    a_mrg.merge(b.clone());
    let via_ops: BTreeSet<&str> = a_ops.get(&"bob").val.map(|s| s.read().val.into_iter().collect()).unwrap_or_default();
    let via_mrg: BTreeSet<&str> = a_mrg.get(&"bob").val.map(|s| s.read().val.into_iter().collect()).unwrap_or_default();
    let via_ops_b: BTreeSet<&str> = b_ops.get(&"bob").val.map(|s| s.read().val.into_iter().collect()).unwrap_or_default();
    (via_ops != via_mrg, format!("A: add janet under bob (1.1); B := clone; A: add erik (1.2); B: rm bob with ctx {{1:1}}.  op exchange: A={:?} B={:?}; merge(A,B)={:?}", via_ops, via_ops_b, via_mrg))
}

/// F01: Map<_, MVReg>: a value written after seeing another key's update survives an observed key remove
pub fn finding_mvreg_foreign_dots() -> (bool, String) {
    let (mut a, mut b, mut c): (MM, MM, MM) = (Map::new(), Map::new(), Map::new());
    let o0 = a.update(1u8, a.read_ctx().derive_add_ctx(1), |r, cx| r.write(10, cx)); a.apply(o0.clone());
    c.apply(o0.clone()); b.apply(o0.clone());
    let o1 = c.update(0u8, c.read_ctx().derive_add_ctx(3), |r, cx| r.write(20, cx)); c.apply(o1.clone());
    let o2 = c.rm(0u8, c.get(&0).derive_rm_ctx()); c.apply(o2.clone());
    let o3 = b.update(0u8, b.read_ctx().derive_add_ctx(2), |r, cx| r.write(30, cx)); b.apply(o3.clone());
    let o4 = b.update(0u8, b.get(&0).derive_add_ctx(2), |r, cx| r.write(31, cx)); b.apply(o4.clone());
    // replica A: #1 #3 #4 #2 ; replica C: (#0 #1 #2 own) #3 #4  -- both causal, same set
    for o in [&o1, &o3, &o4, &o2] { a.apply((*o).clone()); }
    for o in [&o3, &o4] { c.apply((*o).clone()); }
    let ra = a.get(&0).val.map(|r| { let mut v = r.read().val; v.sort(); v });
    let rc = c.get(&0).val.map(|r| { let mut v = r.read().val; v.sort(); v });
    (ra != rc, format!("same 5 ops, causal delivery: replica A reads key 0 = {:?}, replica C reads {:?}; A == C: {}", ra, rc, a == c))
}

/// F20b: ONE key, ops only, causal delivery: the same four ops give equal reads but different hidden value clocks (a key remove
/// trims the clock of a surviving value only where the value was already there when the remove was applied), so `==` differs
pub fn finding_mvreg_hidden_clock() -> (bool, String) {
    let (mut r0, mut r1): (MM, MM) = (Map::new(), Map::new());
    let w1 = r1.update(0u8, r1.read_ctx().derive_add_ctx(2), |r, c| r.write(1, c)); r1.apply(w1.clone());
    let w3 = r0.update(0u8, r0.read_ctx().derive_add_ctx(1), |r, c| r.write(3, c)); r0.apply(w3.clone());
    r0.apply(w1.clone());
    let w4 = r0.update(0u8, r0.read_ctx().derive_add_ctx(1), |r, c| r.write(4, c)); r0.apply(w4.clone());
    let rm = r1.rm(0u8, r1.get(&0).derive_rm_ctx()); r1.apply(rm.clone());
    r0.apply(rm.clone());
    r1.apply(w3.clone()); r1.apply(w4.clone());
    let rd = |m: &MM| m.get(&0).val.map(|r| { let mut v = r.read().val; v.sort(); v });
    (rd(&r0) == rd(&r1) && r0 != r1, format!("r1: write 1 (B1); r0: write 3 (A1); r0<-B1; r0: write 4 (A2, context {{A2,B1}}); r1: rm key (context {{B1}}); r0<-rm; r1<-A1; r1<-A2.  same 4 ops, reads r0={:?} r1={:?}, r0 == r1: {}; r0 = {:?}; r1 = {:?}", rd(&r0), rd(&r1), r0 == r1, r0, r1))
}

/// F01b: the F01 mechanism on ONE key: a value whose clock still carries the dot of an earlier, already removed write of the same
/// key survives a later remove that observed it (the remove subtracts the entry clock, which no longer holds that dot)
pub fn finding_mvreg_removed_dot_in_value_clock() -> (bool, String) {
    let (mut r0, mut r1, mut r2): (MM, MM, MM) = (Map::new(), Map::new(), Map::new());
    let w1 = r0.update(0u8, r0.read_ctx().derive_add_ctx(1), |r, c| r.write(1, c)); r0.apply(w1.clone());
    r1.apply(w1.clone()); r2.apply(w1.clone());
    let w2 = r1.update(0u8, r1.read_ctx().derive_add_ctx(2), |r, c| r.write(2, c)); r1.apply(w2.clone());
    let rm1 = r2.rm(0u8, r2.get(&0).derive_rm_ctx()); r2.apply(rm1.clone());
    r0.apply(rm1.clone());
    let w3 = r0.update(0u8, r0.read_ctx().derive_add_ctx(1), |r, c| r.write(3, c)); r0.apply(w3.clone());
    r2.apply(w2.clone());
    let rm2 = r2.rm(0u8, r2.get(&0).derive_rm_ctx()); r2.apply(rm2.clone());
    r0.apply(w2.clone());
    r0.apply(rm2.clone());
    let got = r0.get(&0).val.map(|r| { let mut v = r.read().val; v.sort(); v });
    (got == Some(vec![2, 3]), format!("r0: write 1 (A1); r1<-A1, r2<-A1; r1: write 2 (B1, context {{A1,B1}}); r2: rm key {{A1}}; r0<-rm; r0: write 3 (A2); r2<-B1; r2: rm key {{B1}} (it has seen write 2); r0<-B1; r0<-second rm (causal).  r0 reads {:?}; write 2 was observed by the second remove and must be gone: want [3]", got))
}

/// F17b: Map::validate_merge looks at nested values only where the two entry clocks are concurrent: one actor used at two replicas
/// under the SAME key of two equal maps is accepted in both directions, and the merge silently loses both members
pub fn finding_nested_double_spend_unflagged() -> (bool, String) {
    let (mut r1, mut r2): (MO, MO) = (Map::new(), Map::new());
    let o = r1.update(7u8, r1.read_ctx().derive_add_ctx(1), |s, c| s.add(10, c)); r1.apply(o);
    let o = r2.update(7u8, r2.read_ctx().derive_add_ctx(1), |s, c| s.add(11, c)); r2.apply(o);
    let (v12, v21) = (r1.validate_merge(&r2), r2.validate_merge(&r1));
    let mut m = r1.clone(); m.merge(r2.clone());
    let left: Vec<u8> = m.get(&7).val.map(|s| s.read().val.into_iter().collect()).unwrap_or_default();
    (v12.is_ok() && v21.is_ok() && left.is_empty(), format!("actor 1 adds 10 under key 7 at r1 and 11 under key 7 at r2 (dot 1.1 witnesses different members; both entry clocks are {{1:1}}): validate_merge {:?} / {:?}; after merge key 7 holds {:?} (a flat Orswot reports DoubleSpentDot for the same misuse)", v12, v21, left))
}

/// F16: Map::validate_op rejects an in-order update of a second key at its own origin
pub fn finding_map_validate_op() -> (bool, String) {
    let mut m: MM = Map::new();
    let o1 = m.update(1u8, m.read_ctx().derive_add_ctx(7), |r, c| r.write(1, c)); m.apply(o1);
    let o2 = m.update(2u8, m.read_ctx().derive_add_ctx(7), |r, c| r.write(2, c));
    let v = m.validate_op(&o2);
    (v.is_err(), format!("actor 7 updates key 1 then key 2; validate_op of the second op at its origin: {:?}", v))
}

/// F17: add_all with >= 2 members makes validate_merge flag a replica against its own clone
pub fn finding_addall_validate_merge() -> (bool, String) {
    let mut s: Orswot<u8, u8> = Orswot::new();
    let op = s.add_all(vec![1u8, 2u8], s.read_ctx().derive_add_ctx(1)); s.apply(op);
    let v = s.validate_merge(&s.clone());
    (v.is_err(), format!("add_all([1,2]) with one dot; validate_merge(self, clone): {:?}", v))
}

/// F20: equal knowledge, equal reads, but `==` differs: a pending remove stays inside a nested, otherwise empty Orswot
pub fn finding_nested_pending_residue() -> (bool, String) {
    let (mut r0, mut r1): (MO, MO) = (Map::new(), Map::new());
    let op0 = r0.update(0u8, r0.read_ctx().derive_add_ctx(1), |s, c| s.add(1, c)); r0.apply(op0.clone());
    let op1 = r0.update(0u8, r0.read_ctx().derive_add_ctx(1), |s, _c| s.rm(1, s.contains(&1).derive_rm_ctx())); r0.apply(op1.clone());
    r1.apply(op0.clone());
    let op2 = r1.rm(0u8, r1.get(&0).derive_rm_ctx()); r1.apply(op2.clone());
    r0.apply(op2.clone());
    r1.apply(op1.clone());
    let rd = |m: &MO| -> Vec<(u8, Vec<u8>)> { (0..2u8).filter_map(|k| m.get(&k).val.map(|s| { let mut v: Vec<u8> = s.read().val.into_iter().collect(); v.sort(); (k, v) })).collect() };
    (rd(&r0) == rd(&r1) && r0 != r1, format!("r0: add 1 under key 0 (A1); r0: nested rm 1 (A2); r1<-A1; r1: rm key 0 with ctx {{A1}}; r0<-rm; r1<-A2.  same 3 ops, reads r0={:?} r1={:?}, r0 == r1: {}; r1 keeps a pending remove inside the nested set: {:?}", rd(&r0), rd(&r1), r0 == r1, r1))
}

/// small exploration over Map<u8, Orswot>: first history where two replicas with equal knowledge differ
pub fn explore_mo(depth: usize, eq_only: bool) -> Option<String> {
    fn key_of(o: &Op<u8, Orswot<u8, u8>, u8>) -> String { format!("{:?}", o) }
    fn go(reps: Vec<MO>, known: Vec<BTreeSet<String>>, all: Vec<Op<u8, Orswot<u8, u8>, u8>>, desc: String, depth: usize, eq_only: bool) -> Option<String> {
        if known[0] == known[1] && !known[0].is_empty() {
            let rd = |m: &MO| -> Vec<(u8, Vec<u8>)> { (0..2u8).filter_map(|k| m.get(&k).val.map(|s| { let mut v: Vec<u8> = s.read().val.into_iter().collect(); v.sort(); (k, v) })).collect() };
            let same_reads = rd(&reps[0]) == rd(&reps[1]);
            if (eq_only && same_reads && reps[0] != reps[1]) || (!eq_only && !same_reads) {
                return Some(format!("{} | reads r0={:?} r1={:?} | r0==r1: {} | r0={:?} | r1={:?}", desc, rd(&reps[0]), rd(&reps[1]), reps[0] == reps[1], reps[0], reps[1]));
            }
        }
        if depth == 0 { return None; }
        for i in 0..2 {
            let actor = (i + 1) as u8;
            let k = 0u8;
            for which in 0..3 {
                let mut r2 = reps.clone(); let mut k2 = known.clone(); let mut a2 = all.clone();
                let op = match which {
                    0 => { let c = r2[i].read_ctx().derive_add_ctx(actor); r2[i].update(k, c, |s, c| s.add(1, c)) }
                    1 => { let c = r2[i].read_ctx().derive_add_ctx(actor); r2[i].update(k, c, |s, c| s.rm(1, s.contains(&1).derive_rm_ctx()).clone_with(c)) }
                    _ => r2[i].rm(k, r2[i].get(&k).derive_rm_ctx()),
                };
                r2[i].apply(op.clone()); k2[i].insert(key_of(&op)); a2.push(op);
                if let Some(d) = go(r2, k2, a2, format!("{} r{}:{}", desc, i, ["add1", "rm1", "rmkey"][which]), depth - 1, eq_only) { return Some(d); }
            }
            for (j, op) in all.iter().enumerate() {
                if known[i].contains(&key_of(op)) { continue; }
                if let Op::Up { dot, .. } = op { if reps[i].read_ctx().add_clock.get(&dot.actor) + 1 != dot.counter { continue; } }
                let mut r2 = reps.clone(); let mut k2 = known.clone();
                r2[i].apply(op.clone()); k2[i].insert(key_of(op));
                if let Some(d) = go(r2, k2, all.clone(), format!("{} r{}<-op{}", desc, i, j), depth - 1, eq_only) { return Some(d); }
            }
        }
        None
    }
    trait CloneWith { fn clone_with(self, c: crdts::ctx::AddCtx<u8>) -> orswot::Op<u8, u8>; }
    impl CloneWith for orswot::Op<u8, u8> { fn clone_with(self, _c: crdts::ctx::AddCtx<u8>) -> orswot::Op<u8, u8> { self } }
    go(vec![MO::new(), MO::new()], vec![BTreeSet::new(), BTreeSet::new()], vec![], String::new(), depth, eq_only)
}
#[allow(dead_code)]
fn _unused() { let _ = (Dot::new(0u8, 0), VClock::<u8>::new(), mvreg::Op::Put { clock: VClock::<u8>::new(), val: 0u8 }); }

// ---------------------------------------------------------------- Map<_, Orswot>: reads under causal op delivery
/// Map<u8, Orswot<u8,u8>, u8>, ops only, causal delivery (each replica forwards its applied ops in its own order):
/// replicas with the same delivered set show the same keys, the same members under each key and the same contexts.
/// (Merges are excluded here: mixing them in runs into known finding F03; `==` is not compared: known finding F20.)
fn mo_reads(m: &MO) -> Vec<(u8, Vec<(u8, Vec<(u8, u64)>)>, Vec<(u8, u64)>)> {
    // per present key: its members with their witness contexts, and the key's own context
    (0..3u8).filter_map(|k| { let g = m.get(&k); g.val.map(|s| {
        let mut v: Vec<u8> = s.read().val.into_iter().collect(); v.sort();
        let ms: Vec<(u8, Vec<(u8, u64)>)> = v.into_iter().map(|x| (x, s.contains(&x).rm_clock.dots.iter().map(|(a, n)| (*a, *n)).collect())).collect();
        (k, ms, g.rm_clock.dots.iter().map(|(a, n)| (*a, *n)).collect()) }) }).collect()
}

pub fn search_mo(r: &mut Report, tier: &str, seed: u64) {
    let (n, len) = if tier == "thorough" { (300000, 14) } else { (30000, 12) };
    r.target = "Map<u8, Orswot<u8,u8>, u8> value layer under causal OP delivery (C01, C08, C09 rows of Map): same delivered ops => same keys, members and key contexts; a re-delivered op changes nothing".into();
    r.bound = format!("{} random programs of {} steps over 3 replicas, keys {{0,1}}, members {{0,1,2}}: nested add / nested rm / key rm with read contexts, causal delivery, re-delivery (seed {}); merges excluded (known finding F03), == not compared (known finding F20)", n, len, seed);
    let mut s = seed.wrapping_add(0x3141592653);
    for _ in 0..n {
        let mut reps: Vec<MO> = vec![MO::new(), MO::new(), MO::new()];
        let mut log: Vec<Vec<usize>> = vec![vec![]; 3];
        let mut ops: Vec<Op<u8, Orswot<u8, u8>, u8>> = vec![];
        let mut desc = String::new();
        for _ in 0..len {
            let i = (lcg(&mut s) % 3) as usize;
            let actor = (i + 1) as u8;
            let k = (lcg(&mut s) % 2) as u8;
            let mb = (lcg(&mut s) % 3) as u8;
            match lcg(&mut s) % 9 {
                0 | 1 | 2 => { let ctx = reps[i].read_ctx().derive_add_ctx(actor); let op = reps[i].update(k, ctx, |set, c| set.add(mb, c)); reps[i].apply(op.clone()); ops.push(op); log[i].push(ops.len() - 1); desc.push_str(&format!(" r{}:add({},{})", i, k, mb)); }
                3 => { let ctx = reps[i].read_ctx().derive_add_ctx(actor); let op = reps[i].update(k, ctx, |set, _c| set.rm(mb, set.contains(&mb).derive_rm_ctx())); reps[i].apply(op.clone()); ops.push(op); log[i].push(ops.len() - 1); desc.push_str(&format!(" r{}:nrm({},{})", i, k, mb)); }
                4 => { let op = reps[i].rm(k, reps[i].get(&k).derive_rm_ctx()); reps[i].apply(op.clone()); ops.push(op); log[i].push(ops.len() - 1); desc.push_str(&format!(" r{}:rmkey({})", i, k)); }
                5 | 6 | 7 => {
                    let j = (i + 1 + (lcg(&mut s) % 2) as usize) % 3;
                    let have: BTreeSet<usize> = log[i].iter().copied().collect();
                    if let Some(&o) = log[j].iter().find(|o| !have.contains(o)) { reps[i].apply(ops[o].clone()); log[i].push(o); desc.push_str(&format!(" r{}<-op{}", i, o)); }
                }
                _ => {
                    if log[i].is_empty() { continue; }
                    let o = log[i][(lcg(&mut s) as usize) % log[i].len()];
                    let before = mo_reads(&reps[i]);
                    reps[i].apply(ops[o].clone());
                    desc.push_str(&format!(" r{}<-dup(op{})", i, o));
                    let after = mo_reads(&reps[i]);
                    r.case("map_orswot.redelivery_changes_nothing", before == after, &|| desc.clone(), &|| format!("before {:?} after {:?}", before, after));
                }
            }
            for a in 0..3 { for b in 0..a {
                let sa: BTreeSet<usize> = log[a].iter().copied().collect(); let sb: BTreeSet<usize> = log[b].iter().copied().collect();
                if sa == sb { let (ra, rb) = (mo_reads(&reps[a]), mo_reads(&reps[b])); r.case("map_orswot.same_ops_same_reads", ra == rb, &|| desc.clone(), &|| format!("r{} reads {:?}, r{} reads {:?}", a, ra, b, rb)); }
            } }
            if r.failures > 0 { return; }
        }
    }
}

/// Map<u8, MVReg> VALUE layer against the specification taken from the property ("the value under a key reflects exactly the
/// nested updates that survive"): a write survives iff its dot is covered neither by an applied remove of the key nor by the
/// context of another applied write.  The two recorded value-layer defects are kept out by construction, not by loosening the
/// oracle: F01 needs a second key (single key here); F03 needs a merge after one actor updated the key twice (phase 1 has no
/// merges, phase 2 has merges but at most one update per actor).
pub fn search_val(r: &mut Report, tier: &str, seed: u64) {
    let (n, len) = if tier == "thorough" { (200000, 12) } else { (20000, 10) };
    r.target = "Map<u8, MVReg<u8,u8>, u8> value layer on one key (C05 'the value reflects exactly the surviving nested updates', C09 no resurrection, C01/C08 same knowledge => same read): read of the key == values of the writes not covered by an applied remove nor by another applied write's context".into();
    r.bound = format!("{} random programs of {} steps over 3 replicas, one key: one remove per program, which may overtake the writes it observed: family 0 write / rm / causal op delivery / re-delivery (no merges); family 1 the same plus merges, each actor writing at most once (seed {}); outside these families the recorded findings F01 / F03 apply (a second remove meets the F01 mechanism even on one key)", n, len, seed);
    let mut s = seed.wrapping_add(0x2718281828);
    for round in 0..n {
        let family = round % 2;           // 0: ops only; 1: merges, one write per actor
        let with_merges = family != 0;
        let mut rm_issued = false;        // one remove per program: a second one meets the recorded F01 mechanism even on one key
        let mut reps: Vec<MM> = vec![MM::new(), MM::new(), MM::new()];
        let mut know: Vec<BTreeSet<usize>> = vec![BTreeSet::new(); 3];
        let mut log: Vec<Vec<usize>> = vec![vec![]; 3];
        let mut ops: Vec<Op<u8, MVReg<u8, u8>, u8>> = vec![];
        let mut updated = [false; 3];
        let mut desc = String::new();
        let mut nv = 1u8;
        for _ in 0..len {
            let i = (lcg(&mut s) % 3) as usize;
            let actor = (i + 1) as u8;
            match lcg(&mut s) % 10 {
                0 | 1 | 2 => {
                    if family == 1 && updated[i] { continue; }
                    updated[i] = true;
                    let ctx = reps[i].read_ctx().derive_add_ctx(actor); let v = nv; nv += 1;
                    let op = reps[i].update(0u8, ctx, |reg, c| reg.write(v, c));
                    reps[i].apply(op.clone()); ops.push(op); log[i].push(ops.len() - 1); know[i].insert(ops.len() - 1);
                    desc.push_str(&format!(" r{}:write({})", i, v));
                }
                3 | 4 => {
                    if rm_issued { continue; }
                    rm_issued = true;
                    let op = reps[i].rm(0u8, reps[i].get(&0).derive_rm_ctx());
                    reps[i].apply(op.clone()); ops.push(op); log[i].push(ops.len() - 1); know[i].insert(ops.len() - 1);
                    desc.push_str(&format!(" r{}:rmkey", i));
                }
                5 | 6 | 7 => {
                    let j = (i + 1 + (lcg(&mut s) % 2) as usize) % 3;
                    if with_merges && lcg(&mut s) % 2 == 0 {
                        let o = reps[j].clone(); reps[i].merge(o);
                        let kj = know[j].clone(); know[i].extend(kj.iter().copied());
                        // the merged-in ops count as delivered for later causal op delivery
                        let lj = log[j].clone(); for o in lj { if !log[i].contains(&o) { log[i].push(o); } }
                        desc.push_str(&format!(" r{}<-merge(r{})", i, j));
                    } else if let Some(&o) = log[j].iter().find(|o| !know[i].contains(o)) {
                        reps[i].apply(ops[o].clone()); log[i].push(o); know[i].insert(o); desc.push_str(&format!(" r{}<-op{}", i, o));
                    }
                }
                8 => {
                    // a remove may overtake the writes it observed (it is parked until they arrive)
                    // (only writes are overtaken: every remove that precedes it at its origin has been delivered here)
                    let rms: Vec<usize> = (0..ops.len()).filter(|&o| matches!(ops[o], Op::Rm { .. }) && !know[i].contains(&o) && (0..3).any(|j| {
                        log[j].iter().position(|x| *x == o).map_or(false, |p| log[j][..p].iter().all(|x| !matches!(ops[*x], Op::Rm { .. }) || know[i].contains(x))) })).collect();
                    if rms.is_empty() { continue; }
                    let o = rms[(lcg(&mut s) as usize) % rms.len()];
                    reps[i].apply(ops[o].clone()); know[i].insert(o); desc.push_str(&format!(" r{}<-early-rm(op{})", i, o));
                }
                _ => {
                    if log[i].is_empty() { continue; }
                    let o = log[i][(lcg(&mut s) as usize) % log[i].len()];
                    reps[i].apply(ops[o].clone());
                    desc.push_str(&format!(" r{}<-dup(op{})", i, o));
                }
            }
            // C20, second half: once a remove and everything it observed have arrived, no pending remove is kept (the `deferred`
            // table is private; the derived Debug output shows it).  `==` between replicas is NOT compared here: on the unchanged
            // tree it fails for Map<_, MVReg> even on one key (recorded finding F20b: hidden value clocks)
            for q in 0..3 {
                let all_arrived = know[q].iter().all(|&b| match &ops[b] { Op::Rm { clock, .. } => *clock <= reps[q].read_ctx().add_clock, _ => true });
                if all_arrived {
                    let dbg = format!("{:?}", reps[q]);
                    r.case("map_mvreg.no_pending_remove_residue", dbg.contains("deferred: {}"), &|| format!("{} @r{}", desc, q), &|| format!("every applied remove is covered by the map clock, yet a pending remove is kept: {}", dbg));
                }
            }
            for q in 0..3 {
                let mut want: Vec<u8> = vec![];
                for &a in &know[q] {
                    if let Op::Up { dot, op: mvreg::Op::Put { val, .. }, .. } = &ops[a] {
                        let removed = know[q].iter().any(|&b| matches!(&ops[b], Op::Rm { clock, .. } if clock.get(&dot.actor) >= dot.counter));
                        let overwritten = know[q].iter().any(|&b| b != a && matches!(&ops[b], Op::Up { op: mvreg::Op::Put { clock, .. }, .. } if clock.get(&dot.actor) >= dot.counter));
                        if !removed && !overwritten { want.push(*val); }
                    }
                }
                want.sort();
                let mut got: Vec<u8> = reps[q].get(&0).val.map(|reg| reg.read().val).unwrap_or_default();
                got.sort();
                r.case("map_mvreg.value_is_surviving_writes", got == want, &|| format!("{} @r{}", desc, q), &|| format!("read {:?}, surviving writes {:?}", got, want));
            }
            if r.failures > 0 { return; }
        }
    }
}
