//! Identifier / List / GList (C12, C13, C14): bounded stand-in for the assumed contract of `Identifier::between`
//! and small-scope search over causal-delivery histories of the real List and GList.
use crate::report::Report;
use crdts::glist::GList;
use crdts::list::{List, Op};
use crdts::{CmRDT, CvRDT, Identifier, OrdDot};
use num::{BigInt, BigRational};
use std::cmp::Ordering;
use std::collections::{BTreeMap, BTreeSet};

type Node = (BigRational, u8);

fn rat(n: i64, d: i64) -> BigRational { BigRational::new(BigInt::from(n), BigInt::from(d)) }

/// an identifier with an arbitrary path (the public API only builds single-node ones and `between` results; the
/// type is `serde(transparent)` over its path)
fn ident(path: &[Node]) -> Identifier<u8> {
    let v = serde_json::to_value(path.to_vec()).expect("serialise path");
    serde_json::from_value(v).expect("deserialise identifier")
}
fn path_of(id: &Identifier<u8>) -> Vec<Node> {
    serde_json::from_value(serde_json::to_value(id).expect("serialise identifier")).expect("deserialise path")
}
fn show(id: &Identifier<u8>) -> String {
    path_of(id).iter().map(|(r, m)| format!("{}:{}", r, m)).collect::<Vec<_>>().join("/")
}

fn all_ids(depth: usize, rats: &[BigRational], markers: &[u8]) -> Vec<Identifier<u8>> {
    let mut nodes = vec![];
    for r in rats { for m in markers { nodes.push((r.clone(), *m)); } }
    let mut paths: Vec<Vec<Node>> = vec![vec![]];
    let mut out = vec![];
    for _ in 0..depth {
        let mut next = vec![];
        for p in &paths { for n in &nodes { let mut q = p.clone(); q.push(n.clone()); next.push(q); } }
        for p in &next { out.push(ident(p)); }
        paths = next;
    }
    out
}

/// the lexicographic order with the prefix rule, written from the property statement
fn spec_cmp(a: &[Node], b: &[Node]) -> Ordering {
    let mut i = 0;
    loop {
        match (a.get(i), b.get(i)) {
            (Some(x), Some(y)) => match x.cmp(y) { Ordering::Equal => { i += 1; } o => return o },
            (None, Some(_)) => return Ordering::Greater,
            (Some(_), None) => return Ordering::Less,
            (None, None) => return Ordering::Equal,
        }
    }
}

pub fn standin_identifier_between(r: &mut Report, tier: &str) {
    let depth = 3;
    let thorough = tier == "thorough";
    r.target = "Identifier::between run on the real crate (its contract between_post is verified in 15_identifier.rs modulo the DynIter stand-in): strictly between two distinct bounds in either argument order, strictly beyond a single non-empty bound, last marker == the given marker; Identifier::cmp == lexicographic order with prefix rule".into();
    r.bound = format!("all identifiers of path depth <= {} over rationals {} and markers {{1, 3, 5}}; every ordered pair as (low, high) with every marker in 0..=6 (below, equal to, between and above the stored markers)", depth, if thorough { "{-1, 0, 1/2, 1}" } else { "{0, 1/2, 1}" });
    let rats: Vec<BigRational> = if thorough { vec![rat(-1, 1), rat(0, 1), rat(1, 2), rat(1, 1)] } else { vec![rat(0, 1), rat(1, 2), rat(1, 1)] };
    let ids = all_ids(depth, &rats, &[1, 3, 5]);
    let ids2 = ids.clone();
    let markers: [u8; 7] = [0, 1, 2, 3, 4, 5, 6];
    for a in &ids2 {
        let pa = path_of(a);
        for b in &ids2 {
            let pb = path_of(b);
            let want = spec_cmp(&pa, &pb);
            let got = a.cmp(b);
            r.case("identifier.cmp_is_lexicographic", got == want && (got == Ordering::Equal) == (a == b) && a.partial_cmp(b) == Some(got),
                   &|| format!("cmp({}, {})", show(a), show(b)), &|| format!("cmp {:?} want {:?} eq {}", got, want, a == b));
            if want == Ordering::Equal { continue; }
            for m in markers {
                let c = Identifier::between(Some(a), Some(b), m);
                let (lo, hi) = if want == Ordering::Less { (a, b) } else { (b, a) };
                let ok = lo < &c && &c < hi && *c.value() == m;
                r.case("identifier.between_two_bounds", ok, &|| format!("between({}, {}, {})", show(a), show(b), m), &|| format!("got {}", show(&c)));
            }
        }
        r.case("identifier.into_value_is_value", a.clone().into_value() == *a.value(), &|| show(a), &|| "into_value() differs from value()".into());
        for m in markers {
            let c = Identifier::between(Some(a), None, m);
            r.case("identifier.between_low_only", a < &c && *c.value() == m, &|| format!("between({}, None, {})", show(a), m), &|| format!("got {}", show(&c)));
            let c = Identifier::between(None, Some(a), m);
            r.case("identifier.between_high_only", &c < a && *c.value() == m, &|| format!("between(None, {}, {})", show(a), m), &|| format!("got {}", show(&c)));
        }
    }
    if thorough {
        // random deep identifiers: arbitrary paths of depth <= 7 and identifiers reached by iterating `between`
        r.bound.push_str("; thorough: 400000 random triples over arbitrary paths of depth <= 7 (rationals k/4, k in -8..=8, markers 0..=6) and over identifiers reached by 3000 rounds of `between` on a growing pool");
        let mut s: u64 = 0x5eed1234;
        let mut pool: Vec<Identifier<u8>> = vec![];
        for _ in 0..4000 {
            let d = 1 + (lcg(&mut s) % 7) as usize;
            let p: Vec<Node> = (0..d).map(|_| (rat((lcg(&mut s) % 17) as i64 - 8, 4), (lcg(&mut s) % 7) as u8)).collect();
            pool.push(ident(&p));
        }
        for _ in 0..3000 {
            let a = pool[(lcg(&mut s) as usize) % pool.len()].clone();
            let b = pool[(lcg(&mut s) as usize) % pool.len()].clone();
            if a != b { pool.push(Identifier::between(Some(&a), Some(&b), (lcg(&mut s) % 7) as u8)); }
        }
        for _ in 0..400000 {
            let a = &pool[(lcg(&mut s) as usize) % pool.len()];
            let b = &pool[(lcg(&mut s) as usize) % pool.len()];
            let m = (lcg(&mut s) % 7) as u8;
            let want = spec_cmp(&path_of(a), &path_of(b));
            r.case("identifier.cmp_is_lexicographic", a.cmp(b) == want, &|| format!("cmp({}, {})", show(a), show(b)), &|| format!("got {:?} want {:?}", a.cmp(b), want));
            if want == Ordering::Equal { continue; }
            let c = Identifier::between(Some(a), Some(b), m);
            let (lo, hi) = if want == Ordering::Less { (a, b) } else { (b, a) };
            r.case("identifier.between_two_bounds", lo < &c && &c < hi && *c.value() == m, &|| format!("between({}, {}, {})", show(a), show(b), m), &|| format!("got {}", show(&c)));
        }
    }
    let c = Identifier::between(None, None, 9u8);
    r.case("identifier.between_no_bound", *c.value() == 9 && path_of(&c).len() == 1, &|| "between(None, None, 9)".into(), &|| format!("got {}", show(&c)));
    // order laws on all triples of the shallow identifiers
    let small = &ids[..ids.len().min(90)];
    for a in small { for b in small {
        let ab = a.cmp(b);
        r.case("identifier.antisymmetric", ab == b.cmp(a).reverse(), &|| format!("{} ? {}", show(a), show(b)), &|| format!("{:?} vs {:?}", ab, b.cmp(a)));
        if ab != Ordering::Less { continue; }
        for c in small { if b < c { r.case("identifier.transitive", a < c, &|| format!("{} < {} < {}", show(a), show(b), show(c)), &|| "a !< c".into()); } }
    } }
}

// ------------------------------------------------------------------------------------------------------------------
// List: causal-delivery histories

type L = List<u8, u8>;

#[derive(Clone)]
struct World {
    reps: Vec<L>,
    /// ops applied at each replica, in application order (a causal order); duplicates are not recorded twice
    log: Vec<Vec<usize>>,
    ops: Vec<Op<u8, u8>>,
    desc: String,
    next_val: u8,
}

fn entries(l: &L) -> Vec<(Identifier<OrdDot<u8>>, u8)> { l.iter_entries().map(|(i, v)| (i.clone(), *v)).collect() }

fn check_world(w: &World, r: &mut Report) -> bool {
    let mut ok_all = true;
    // the global order: all identifiers ever inserted, by the identifier order
    let mut global: BTreeMap<Identifier<OrdDot<u8>>, u8> = BTreeMap::new();
    for op in &w.ops { if let Op::Insert { id, val } = op { global.insert(id.clone(), *val); } }
    for (k, l) in w.reps.iter().enumerate() {
        let mut ins = BTreeSet::new();
        let mut del = BTreeSet::new();
        for &j in &w.log[k] { match &w.ops[j] { Op::Insert { id, .. } => { ins.insert(id.clone()); } Op::Delete { id, .. } => { del.insert(id.clone()); } } }
        let want: Vec<(Identifier<OrdDot<u8>>, u8)> = global.iter().filter(|(id, _)| ins.contains(*id) && !del.contains(*id)).map(|(i, v)| (i.clone(), *v)).collect();
        let got = entries(l);
        let ok = got == want;
        r.case("list.restriction_of_global_order", ok, &|| format!("{} @r{}", w.desc, k), &|| format!("shows {:?} want {:?}", got.iter().map(|x| x.1 as char).collect::<String>(), want.iter().map(|x| x.1 as char).collect::<String>()));
        let vals: Vec<u8> = l.iter().copied().collect();
        let read: Vec<u8> = l.read::<Vec<&u8>>().into_iter().copied().collect();
        let by_pos: Vec<u8> = (0..l.len()).map(|i| *l.position(i).unwrap()).collect();
        let ok2 = vals == read && vals == by_pos && l.len() == got.len() && l.is_empty() == got.is_empty() && l.position(l.len()).is_none()
            && l.first() == vals.first() && l.last() == vals.last()
            && got.iter().enumerate().all(|(i, (id, v))| l.position_entry(id) == Some(i) && l.get(id) == Some(v))
            && l.clone().read_into::<Vec<u8>>() == vals && l.clone().into_iter().collect::<Vec<u8>>() == vals;
        r.case("list.read_entry_points_agree", ok2, &|| format!("{} @r{}", w.desc, k), &|| format!("iter {:?} read {:?} position {:?}", vals, read, by_pos));
        let uniq: BTreeSet<_> = got.iter().map(|x| x.0.clone()).collect();
        r.case("list.each_element_once", uniq.len() == got.len(), &|| format!("{} @r{}", w.desc, k), &|| "identifier shown twice".into());
        ok_all &= ok && ok2;
        // C16: the verdict on EVERY op of the history (deliverable, applied, out of order) is "no skipped counter"
        let applied: BTreeMap<u8, u64> = w.log[k].iter().fold(BTreeMap::new(), |mut m, &j| { let d = w.ops[j].dot(); let e = m.entry(d.actor).or_insert(0); if d.counter > *e { *e = d.counter; } m });
        for (j, op) in w.ops.iter().enumerate() {
            let d = op.dot();
            let want_ok = d.counter <= applied.get(&d.actor).copied().unwrap_or(0) + 1;
            let got = l.validate_op(op);
            let ok3 = got.is_ok() == want_ok && match &got { Err(e) => e.actor == d.actor && e.counter_range == (applied.get(&d.actor).copied().unwrap_or(0) + 1..d.counter), Ok(()) => true };
            r.case("list.validate_op_verdict", ok3, &|| format!("{} @r{} validate_op(op{})", w.desc, k, j), &|| format!("got {:?}, want ok = {}", got, want_ok));
            ok_all &= ok3;
        }
    }
    for i in 0..w.reps.len() { for j in 0..i {
        let a: BTreeSet<usize> = w.log[i].iter().copied().collect();
        let b: BTreeSet<usize> = w.log[j].iter().copied().collect();
        if a == b {
            let ok = entries(&w.reps[i]) == entries(&w.reps[j]);
            r.case("list.same_delivered_same_sequence", ok, &|| w.desc.clone(), &|| format!("r{} and r{} differ", i, j));
            ok_all &= ok;
        }
    } }
    ok_all
}

/// all successor worlds (causal delivery only: an op is delivered to b from a's log in a's order)
fn successors(w: &World, r: &mut Report, out: &mut Vec<World>) {
    let n = w.reps.len();
    for i in 0..n {
        let actor = (i + 1) as u8;
        let before: Vec<u8> = w.reps[i].iter().copied().collect();
        for ix in 0..=before.len() + 1 {
            let mut w2 = w.clone();
            let op = w2.reps[i].insert_index(ix, w.next_val, actor);
            let valid = w2.reps[i].validate_op(&op).is_ok();
            w2.reps[i].apply(op.clone());
            w2.ops.push(op); w2.log[i].push(w2.ops.len() - 1);
            w2.desc = format!("{} r{}:ins({},{})", w.desc, i, ix, w.next_val as char);
            w2.next_val += 1;
            let mut model = before.clone(); model.insert(ix.min(before.len()), w.next_val);
            let after: Vec<u8> = w2.reps[i].iter().copied().collect();
            r.case("list.insert_index_lands", after == model && valid, &|| w2.desc.clone(), &|| format!("shows {:?} vec model {:?} validate_op ok {}", after, model, valid));
            out.push(w2);
        }
        for ix in 0..before.len() + 1 {
            let mut w2 = w.clone();
            let op = w2.reps[i].delete_index(ix, actor);
            w2.desc = format!("{} r{}:del({})", w.desc, i, ix);
            match op {
                None => { r.case("list.delete_index_lands", ix >= before.len(), &|| w2.desc.clone(), &|| "delete_index returned None for a valid index".into()); }
                Some(op) => {
                    let valid = w2.reps[i].validate_op(&op).is_ok();
                    w2.reps[i].apply(op.clone());
                    w2.ops.push(op); w2.log[i].push(w2.ops.len() - 1);
                    let mut model = before.clone(); let okix = ix < model.len(); if okix { model.remove(ix); }
                    let after: Vec<u8> = w2.reps[i].iter().copied().collect();
                    r.case("list.delete_index_lands", okix && after == model && valid, &|| w2.desc.clone(), &|| format!("shows {:?} vec model {:?}", after, model));
                    out.push(w2);
                }
            }
        }
        for j in 0..n { if i != j {
            // next op of r_j's log that r_i has not applied (causal), and one re-delivery of an applied one
            let have: BTreeSet<usize> = w.log[i].iter().copied().collect();
            if let Some(&k) = w.log[j].iter().find(|k| !have.contains(k)) {
                let mut w2 = w.clone();
                let valid = w2.reps[i].validate_op(&w.ops[k]).is_ok();
                w2.reps[i].apply(w.ops[k].clone()); w2.log[i].push(k);
                w2.desc = format!("{} r{}<-op{}", w.desc, i, k);
                r.case("list.validate_op_accepts_causal", valid, &|| w2.desc.clone(), &|| "validate_op rejected a causally ready op".into());
                out.push(w2);
            }
            for &k in w.log[j].iter().filter(|k| have.contains(k)).take(2) {
                let mut w2 = w.clone();
                w2.reps[i].apply(w.ops[k].clone());
                w2.desc = format!("{} r{}<-dup(op{})", w.desc, i, k);
                out.push(w2);
            }
        } }
    }
}

fn lcg(s: &mut u64) -> u64 { *s = s.wrapping_mul(6364136223846793005).wrapping_add(1442695040888963407); *s >> 33 }

pub fn search(r: &mut Report, tier: &str, seed: u64) {
    let (d_ex, walks, wlen) = if tier == "thorough" { (4, 60000, 16) } else { (3, 6000, 14) };
    r.target = "List (C12, C13 and the List rows of C16): every replica shows the restriction of one global identifier order to inserted-and-not-deleted elements; same delivered set => same sequence; insert_index/delete_index behave like Vec; read entry points agree".into();
    r.bound = format!("3 replicas: all causal-delivery programs of <= {} steps (local insert at every index 0..=len+1, delete at every index, causal delivery, re-delivery), then {} random programs of {} steps (seed {}); GList: all programs of <= {} steps over 2 replicas", d_ex, walks, wlen, seed, d_ex + 1);
    let w0 = World { reps: vec![L::new(), L::new(), L::new()], log: vec![vec![]; 3], ops: vec![], desc: String::new(), next_val: b'a' };
    let mut frontier = vec![w0.clone()];
    'outer: for _ in 0..d_ex {
        let mut next = vec![];
        for w in &frontier {
            let mut succ = vec![];
            successors(w, r, &mut succ);
            for w2 in succ { if !check_world(&w2, r) || r.failures > 0 { break 'outer; } next.push(w2); }
        }
        frontier = next;
    }
    let mut s = seed.wrapping_add(0x9e3779b97f4a7c15);
    if r.failures == 0 {
        'walks: for _ in 0..walks {
            let mut w = w0.clone();
            for _ in 0..wlen {
                let mut succ = vec![];
                successors(&w, r, &mut succ);
                if succ.is_empty() { break; }
                // bias towards deliveries so that replicas interleave
                let deliveries: Vec<usize> = succ.iter().enumerate().filter(|(_, x)| x.desc.rsplit(' ').next().map_or(false, |t| t.contains("<-"))).map(|(i, _)| i).collect();
                let pick = if !deliveries.is_empty() && lcg(&mut s) % 3 != 0 { deliveries[(lcg(&mut s) as usize) % deliveries.len()] } else { (lcg(&mut s) as usize) % succ.len() };
                w = succ.swap_remove(pick);
                if !check_world(&w, r) || r.failures > 0 { break 'walks; }
            }
        }
    }
    if r.failures == 0 { glist_search(r, d_ex + 1); }
}

// ------------------------------------------------------------------------------------------------------------------
// GList: index / neighbour inserts against the Vec model, any delivery order, merges

type G = GList<u8>;
fn gread(g: &G) -> Vec<u8> { g.read::<Vec<&u8>>().into_iter().copied().collect() }

fn glist_rec(reps: Vec<G>, ops: Vec<crdts::glist::Op<u8>>, desc: String, depth: usize, next: u8, r: &mut Report) {
    // replicas holding the same identifiers show the same sequence; sequence is sorted by identifier; entry points agree
    for (k, g) in reps.iter().enumerate() {
        let ids: Vec<Identifier<u8>> = g.iter().cloned().collect();
        let sorted = ids.windows(2).all(|w| w[0] < w[1]);
        let vals = gread(g);
        let ok = sorted && vals == ids.iter().map(|i| *i.value()).collect::<Vec<u8>>() && g.len() == ids.len() && g.is_empty() == ids.is_empty()
            && (0..ids.len()).all(|i| g.get(i) == Some(&ids[i])) && g.get(ids.len()).is_none() && g.first() == ids.first() && g.last() == ids.last()
            && g.clone().read_into::<Vec<u8>>() == vals;
        r.case("glist.reads_in_identifier_order", ok, &|| format!("{} @g{}", desc, k), &|| format!("shows {:?}", vals));
    }
    if reps.len() > 1 {
        let a: Vec<Identifier<u8>> = reps[0].iter().cloned().collect();
        let b: Vec<Identifier<u8>> = reps[1].iter().cloned().collect();
        let sa: BTreeSet<_> = a.iter().cloned().collect(); let sb: BTreeSet<_> = b.iter().cloned().collect();
        if sa == sb { r.case("glist.same_delivered_same_sequence", a == b, &|| desc.clone(), &|| "differ".into()); }
        // relative order of common elements agrees
        let ca: Vec<_> = a.iter().filter(|x| sb.contains(*x)).collect(); let cb: Vec<_> = b.iter().filter(|x| sa.contains(*x)).collect();
        r.case("glist.relative_order_global", ca == cb, &|| desc.clone(), &|| "common elements in different order".into());
    }
    if depth == 0 || r.failures > 0 { return; }
    for i in 0..reps.len() {
        let before = gread(&reps[i]);
        let ids: Vec<Identifier<u8>> = reps[i].iter().cloned().collect();
        for ix in 0..=before.len() {
            let mut r2 = reps.clone(); let mut o2 = ops.clone();
            let op = r2[i].insert(ix, next);
            r2[i].apply(op.clone()); o2.push(op);
            let mut model = before.clone(); model.insert(ix, next);
            let d = format!("{} g{}:insert({},{})", desc, i, ix, next);
            r.case("glist.insert_lands", gread(&r2[i]) == model, &|| d.clone(), &|| format!("shows {:?} vec model {:?}", gread(&r2[i]), model));
            glist_rec(r2, o2, d, depth - 1, next + 1, r);
        }
        for (j, id) in ids.iter().enumerate() {
            {
                let mut r2 = reps.clone(); let mut o2 = ops.clone();
                let op = r2[i].insert_after(Some(id), next);
                r2[i].apply(op.clone()); o2.push(op);
                let mut model = before.clone(); model.insert(j + 1, next);
                let d = format!("{} g{}:insert_after(#{},{})", desc, i, j, next);
                r.case("glist.insert_after_lands", gread(&r2[i]) == model, &|| d.clone(), &|| format!("shows {:?} vec model {:?}", gread(&r2[i]), model));
                glist_rec(r2, o2, d, depth - 1, next + 1, r);
            }
            {
                let mut r2 = reps.clone(); let mut o2 = ops.clone();
                let op = r2[i].insert_before(Some(id), next);
                r2[i].apply(op.clone()); o2.push(op);
                let mut model = before.clone(); model.insert(j, next);
                let d = format!("{} g{}:insert_before(#{},{})", desc, i, j, next);
                r.case("glist.insert_before_lands", gread(&r2[i]) == model, &|| d.clone(), &|| format!("shows {:?} vec model {:?}", gread(&r2[i]), model));
                glist_rec(r2, o2, d, depth - 1, next + 1, r);
            }
        }
        for (k, op) in ops.iter().enumerate() {
            let mut r2 = reps.clone();
            r2[i].apply(op.clone());
            glist_rec(r2, ops.clone(), format!("{} g{}<-op{}", desc, i, k), depth - 1, next, r);
        }
        for j in 0..reps.len() { if i != j {
            let mut r2 = reps.clone();
            let o = r2[j].clone(); r2[i].merge(o);
            glist_rec(r2, ops.clone(), format!("{} g{}<-merge(g{})", desc, i, j), depth - 1, next, r);
        } }
    }
}

fn glist_search(r: &mut Report, depth: usize) {
    glist_rec(vec![G::new(), G::new()], vec![], String::new(), depth, 1, r);
}

pub fn standin_list_reads(r: &mut Report) {
    r.target = "List::into_iter (not under contract) and the N2 shims under List::read / read_into / position_entry, GList::read / read_into (collectors of a caller-chosen container): agree with the verified iter / iter_entries / get on Vec".into();
    r.bound = "all causal-delivery programs of <= 2 steps over 3 List replicas; all GList programs of <= 4 steps over 2 replicas (forked identifiers included)".into();
    let w0 = World { reps: vec![L::new(), L::new(), L::new()], log: vec![vec![]; 3], ops: vec![], desc: String::new(), next_val: b'a' };
    let mut frontier = vec![w0];
    for _ in 0..2 {
        let mut next = vec![];
        for w in &frontier {
            let mut succ = vec![];
            let mut scratch = Report::new("scratch");
            successors(w, &mut scratch, &mut succ);
            for w2 in succ {
                for (k, l) in w2.reps.iter().enumerate() {
                    let vals: Vec<u8> = l.iter().copied().collect();
                    let read: Vec<u8> = l.read::<Vec<&u8>>().into_iter().copied().collect();
                    let ok = vals == read && l.clone().read_into::<Vec<u8>>() == vals && l.clone().into_iter().collect::<Vec<u8>>() == vals
                        && l.iter_entries().enumerate().all(|(i, (id, _))| l.position_entry(id) == Some(i));
                    r.case("list.collectors_agree_with_iter", ok, &|| format!("{} @r{}", w2.desc, k), &|| format!("iter {:?} read {:?}", vals, read));
                }
                next.push(w2);
            }
        }
        frontier = next;
    }
    let mut sub = Report::new("glist");
    glist_search(&mut sub, 4);
    if let Some((n, f)) = sub.per_check.get("glist.reads_in_identifier_order") {
        let e = r.per_check.entry("glist.collectors_agree_with_iter".into()).or_insert((0, 0));
        e.0 += n; e.1 += f; r.cases += n; r.failures += f;
        if *f > 0 && r.first.is_none() { r.first = sub.first.clone(); }
    }
}
